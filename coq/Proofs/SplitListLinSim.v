(** * SplitListLinSim: the step-grain split-list model (LV.Model.SplitList) simulates the anchored Michael-list model.

    LV.Model.SplitList has its own copy of the Michael-list code (own state record, own [loc] with the local head
    cell [LCell], own events).  This file embeds it into the development of LV.Proofs.MichaelListFrom*:
      - [proj g] is the Michael-list state of a split-list state (m_pHead := node 1, bucket 0's dummy);
      - every real thread [t] plays TWO virtual Michael-list threads: [vt t false = 3t] executes the client's
        operation, [vt t true = 3t+1] executes the insertions of dummy nodes (init_bucket runs inside get_bucket, i.e.
        while the client's operation is pending); [vb b = 3b+2] is a virtual thread that never runs and whose view
        remembers the dummy node published in bucket-table entry [b];
      - the invariant [InvS] says that SOME auxiliary state and SOME (ghost) trace of the virtual threads satisfy the
        anchored Michael-list invariant [InvA ak] for [proj g], that the views of the virtual threads are the two
        components of the real thread's view, that every published table entry is a published node with the bucket's
        dummy key, and that the client history of the real trace is the class-0 projection of the ghost history;
      - [safeS_act] transfers a one-access rule of the Michael-list development to the split-list access that
        simulates it; the rules for the accesses the split list adds (table, counters, free list, local head cell) are
        stutter steps. *)
From Coq Require Import ZArith List String Bool Lia PeanoNat.
From LV Require Import Base.Conc Base.Events Base.Lin Spec.Specs Proofs.LinProofs.
From LV Require Import Model.MichaelList Proofs.MichaelListBase Proofs.MichaelListInv Proofs.MichaelListSteps
                       Proofs.MichaelListLin Proofs.MichaelListActs Proofs.MichaelListProofs
                       Proofs.MichaelListFullInv Proofs.MichaelListFullActs Proofs.MichaelListFullProofs
                       Proofs.MichaelListFromActs.
From LV Require Model.SplitList.
From LV Require Import Proofs.SplitListLinProj.
Import ListNotations.
Local Open Scope Z_scope.

Module SL := LV.Model.SplitList.

(** ** projection of the state *)
Definition cvn (x : SL.node) : node := mkNode (SL.nkey x) (SL.nnext x) (SL.nmark x).
Definition hp (g : SL.G) : nat -> node :=
  fun n => if Nat.eqb n 0 then mkNode (SL.nkey (SL.heap g 0)) 1 false else cvn (SL.heap g n).
Definition proj (g : SL.G) : G := mkG (hp g) (SL.nalloc g) (SL.count g).
Definition cv (v : SL.V) : V := mkV (SL.vptr v) (SL.vmark v) (SL.vkey v).

Lemma hp_key g p : nkey (hp g p) = SL.nkey (SL.heap g p).
Proof. unfold hp. destruct (Nat.eqb_spec p 0) as [->|]; reflexivity. Qed.
Lemma hp_nz g n : n <> 0%nat -> hp g n = cvn (SL.heap g n).
Proof. unfold hp. intros H. destruct (Nat.eqb_spec n 0); [contradiction|reflexivity]. Qed.
Lemma hp_ext g g' : (forall x, SL.heap g' x = SL.heap g x) -> forall x, hp g' x = hp g x.
Proof. intros H x. unfold hp. rewrite !H. reflexivity. Qed.

(** ** virtual threads *)
Definition vt (t : nat) (d : bool) : nat := (3 * t + (if d then 1 else 0))%nat.
Definition vb (b : nat) : nat := (3 * b + 2)%nat.

Lemma vt_inj t d t' d' : vt t d = vt t' d' -> t = t' /\ d = d'.
Proof. unfold vt. destruct d, d'; intros H; split; try lia; try reflexivity. Qed.
Lemma vt_vb t d b : vt t d <> vb b.
Proof. unfold vt, vb. destruct d; lia. Qed.
Lemma vb_inj b b' : vb b = vb b' -> b = b'.
Proof. unfold vb. lia. Qed.
Lemma vt_mod t : (vt t false mod 3 = 0)%nat /\ (vt t false / 3 = t)%nat.
Proof.
  unfold vt. rewrite Nat.add_0_r, Nat.mul_comm. split; [apply Nat.mod_mul; lia|apply Nat.div_mul; lia].
Qed.
Lemma vd_mod t : (vt t true mod 3 <> 0)%nat.
Proof.
  unfold vt. rewrite Nat.add_comm, Nat.mul_comm, Nat.mod_add by lia. cbn. lia.
Qed.

(** ** the view of a real thread *)
Record LS := mkLS { lc : lview2; ld : lview2 }.
Definition AuxS := nat -> LS.
Definition viewS (A : AuxS) (t : nat) : LS := A t.
Definition getl (d : bool) (L : LS) : lview2 := if d then ld L else lc L.
Definition setl (d : bool) (L : LS) (l : lview2) : LS := if d then mkLS (lc L) l else mkLS l (ld L).
Definition updS (A : AuxS) (t : nat) (L : LS) : AuxS := fun u => if Nat.eqb u t then L else A u.

Lemma getl_setl_same d L l : getl d (setl d L l) = l.
Proof. destruct d; reflexivity. Qed.
Lemma getl_setl_other d d' L l : d' <> d -> getl d' (setl d L l) = getl d' L.
Proof. destruct d, d'; intros H; try reflexivity; congruence. Qed.
Lemma setl_setl d L l l' : setl d (setl d L l) l' = setl d L l'.
Proof. destruct d; reflexivity. Qed.
Lemma viewS_upd_same A t L : viewS (updS A t L) t = L.
Proof. unfold viewS, updS. now rewrite Nat.eqb_refl. Qed.
Lemma frameS_upd A t L : Conc.frame viewS t A (updS A t L).
Proof. intros u H. unfold viewS, updS. destruct (Nat.eqb_spec u t); congruence. Qed.

Definition addf (f : fact) (l : lview2) : lview2 :=
  (mkLV (f :: lv_facts (fst l)) (lv_own (fst l)) (lv_st (fst l)), snd l).

(** ** the client history of a split-list trace (keys = positions in split order, [okey (hash k) k]) *)
Definition scode (c : Z) : Z := if Z.eqb c 1 then 1 else if Z.eqb c 7 then 7 else 9.

Definition acc_only (es : list ev) : Prop := forall e, In e es -> exists k o b, e = EvAcc k o b.

Lemma acc_only_1 k o b : acc_only [EvAcc k o b].
Proof. intros e [<-|[]]. eauto. Qed.

Lemma full_hist_acc gtr v es : acc_only es -> full_hist (gtr ++ Conc.tag v es) = full_hist gtr.
Proof.
  intros H. unfold full_hist. rewrite fold_left_app. generalize (fold_left fstep gtr (([], []) : hist * list (nat * Z))).
  induction es as [|e es IH]; intros s; cbn [Conc.tag map fold_left]; [reflexivity|].
  destruct (H e (or_introl eq_refl)) as (k & o & b & ->).
  replace (fstep s (v, EvAcc k o b)) with s by (destruct s; reflexivity).
  apply IH. intros x Hx. apply H. right; exact Hx.
Qed.

Lemma full_hist_inv gtr v c k x w :
  full_hist (gtr ++ [(v, EvCli "inv" [c; k; x; w])]) = full_hist gtr ++ [@HInv SetSpec v (spec_op c k x)].
Proof.
  unfold full_hist. rewrite fold_left_app. destruct (fold_left fstep gtr (([], []) : hist * list (nat * Z))) as [out pend].
  reflexivity.
Qed.

Lemma full_hist_other gtr v name args : String.eqb name "inv" = false -> String.eqb name "ret" = false ->
  full_hist (gtr ++ [(v, EvCli name args)]) = full_hist gtr.
Proof.
  intros N1 N2. unfold full_hist. rewrite fold_left_app. destruct (fold_left fstep gtr (([], []) : hist * list (nat * Z))) as [out pend].
  cbn [fold_left fstep]. rewrite N1, N2. reflexivity.
Qed.

(** the response of a linearized operation appends exactly its result to the history *)
Lemma full_hist_ret g a gtr v o r a1 b1 :
  Inv2 g a gtr -> lv_st (view (b_base a) v) = @Linearized SetSpec o r ->
  Z.eqb (b_code a v) 6 && Z.eqb a1 0 = false ->
  full_hist (gtr ++ [(v, EvCli "ret" [a1; b1])]) = full_hist gtr ++ [@HRes SetSpec v (res_of o a1 b1)].
Proof.
  intros (L & HS & [(S & st & H1 & H2 & H3) (pend & H4 & H5)]) Hs Hc.
  destruct (lp_open_split _ _ _ v o H1) as (A & B & EA & HB & _); [rewrite H2, Hs; reflexivity|].
  destruct (erase_split_last v o A B HB) as [K1 _]. rewrite <- EA in K1.
  unfold full_hist. rewrite fold_left_app, H4.
  cbn [fold_left fstep String.eqb Ascii.eqb Bool.eqb fst].
  rewrite K1. rewrite (H5 v) by (rewrite Hs; discriminate). rewrite Hc. reflexivity.
Qed.

Section Sim.
Variables (hs : list Z) (ak : Z -> bool).

Definition sstep_h (out : hist) (te : nat * ev) : hist :=
  match te with
  | (t, EvCli name args) =>
      if String.eqb name "inv" then
        match args with
        | [c; k] => out ++ [@HInv SetSpec t (spec_op (scode c) (SL.okey (SL.hash hs k) k) 0)]
        | _ => out
        end
      else if String.eqb name "ret" then
        match args with
        | [a; b] => out ++ [@HRes SetSpec t (RBool (negb (Z.eqb a 0)))]
        | _ => out
        end
      else out
  | (_, EvAcc _ _ _) => out
  end.
Definition split_hist (tr : list (nat * ev)) : hist := fold_left sstep_h tr [].

Lemma split_hist_acc tr t es : acc_only es -> split_hist (tr ++ Conc.tag t es) = split_hist tr.
Proof.
  intros H. unfold split_hist. rewrite fold_left_app. generalize (fold_left sstep_h tr []).
  induction es as [|e es IH]; intros s; cbn [Conc.tag map fold_left]; [reflexivity|].
  destruct (H e (or_introl eq_refl)) as (k & o & b & ->). cbn [sstep_h].
  apply IH. intros x Hx. apply H. right; exact Hx.
Qed.

Notation safeA := (@Conc.safe G V ev aux2 lview2 view2 (InvA ak)).

(** ** the invariant *)
Definition TabOK (g : SL.G) (a : aux2) : Prop :=
  forall b, SL.table g b <> 0%nat ->
    In (FPub (SL.table g b) (SL.dkey b)) (lv_facts (fst (view2 a (vb b)))) /\ Z.of_nat b < 2 ^ 63.

(** every client key in the trace lies in 0..255 *)
Definition tr_ok (tr : list (nat * ev)) : Prop := forall t c k, In (t, EvCli "inv" [c; k]) tr -> 0 <= k < 256.

Lemma tr_ok_acc tr t es : acc_only es -> tr_ok tr -> tr_ok (tr ++ Conc.tag t es).
Proof.
  intros Ha H u c k Hin. apply in_app_or in Hin. destruct Hin as [Hin|Hin]; [eapply H; exact Hin|].
  unfold Conc.tag in Hin. apply in_map_iff in Hin. destruct Hin as (e & E & He). destruct (Ha e He) as (kd & o & b & ->). discriminate.
Qed.
Lemma tr_ok_other tr t name args : String.eqb name "inv" = false -> tr_ok tr -> tr_ok (tr ++ [(t, EvCli name args)]).
Proof.
  intros N H u c k Hin. apply in_app_or in Hin. destruct Hin as [Hin|[Hin|[]]]; [eapply H; exact Hin|].
  inversion Hin; subst. discriminate.
Qed.

Definition HistOK (tr gtr : list (nat * ev)) : Prop :=
  split_hist tr = cproj (full_hist gtr) /\ Forall (class_ok ak) (full_hist gtr) /\ tr_ok tr.

Definition InvM (g : SL.G) (A : AuxS) (tr : list (nat * ev)) (a : aux2) (gtr : list (nat * ev)) : Prop :=
  InvA ak (proj g) a gtr /\ (forall t d, view2 a (vt t d) = getl d (A t)) /\ TabOK g a /\ HistOK tr gtr.

Definition GOK (g : SL.G) : Prop := (SL.log2 g <= 62)%nat /\ SL.table g 0%nat <> 0%nat.

Definition InvS (g : SL.G) (A : AuxS) (tr : list (nat * ev)) : Prop :=
  (exists a gtr, InvM g A tr a gtr) /\ GOK g.

Notation safeS := (@Conc.safe SL.G SL.V ev AuxS LS viewS InvS).

(** ** the Michael-list invariant does not see how the heap function is written *)
Lemma InvA_ext g g' a gtr :
  InvA ak g a gtr -> (forall x, heap g' x = heap g x) -> nalloc g' = nalloc g ->
  exists a' gtr', InvA ak g' a' gtr' /\ (forall u, view2 a' u = view2 a u) /\ full_hist gtr' = full_hist gtr.
Proof.
  intros [(L & HS & HL) Hj] Hh Hn.
  destruct (view2 a 0) as [lv c] eqn:Ev.
  exists (mk_a2 a 0 (a_pub (b_base a)) lv (a_atr (b_base a)) c), (gtr ++ Conc.tag 0 [EvAcc KLd [] true]).
  split; [split|split].
  - eapply Inv2_acc; eauto. destruct (view2_split _ _ _ _ Ev) as [Hv1 _]. eapply facts_of_view; eauto.
  - eapply J_same; eauto.
  - intros u. destruct (Nat.eq_dec u 0) as [->|Hu]; [rewrite view2_mk_same; auto|now rewrite view2_mk_other].
  - apply full_hist_acc. apply acc_only_1.
Qed.

Lemma fact_of_view g a gtr v lv c f :
  InvA ak g a gtr -> view2 a v = (lv, c) -> In f (lv_facts lv) -> fact_ok g (a_pub (b_base a)) f.
Proof.
  intros [(L & HS & HL) _] Hv Hf. destruct (view2_split _ _ _ _ Hv) as [Hv1 _]. eapply fact_in; eauto.
Qed.

Lemma own_of_view g a gtr v lv c n kk nx :
  InvA ak g a gtr -> view2 a v = (lv, c) -> lv_own lv = Some (n, kk, nx) -> n <> 0%nat.
Proof.
  intros [(L & HS & HL) _] Hv Ho. destruct (view2_split _ _ _ _ Hv) as [Hv1 _].
  pose proof (is_own _ _ _ HS v) as K. rewrite Hv1, Ho in K. cbn in K. lia.
Qed.

(** add a fact that holds now to the views of some virtual threads *)
Lemma InvA_addfacts g f : forall us a gtr,
  InvA ak g a gtr -> fact_ok g (a_pub (b_base a)) f -> NoDup us ->
  exists a' gtr', InvA ak g a' gtr' /\ (forall u, In u us -> view2 a' u = addf f (view2 a u)) /\
                  (forall w, ~ In w us -> view2 a' w = view2 a w) /\ full_hist gtr' = full_hist gtr.
Proof.
  induction us as [|u us IH]; intros a gtr HI Hf Hnd.
  - exists a, gtr. split; [exact HI|]. split; [intros u []|]. split; auto.
  - inversion Hnd as [|? ? Hu Hnd']; subst.
    destruct HI as [(L & HS & HL) Hj].
    destruct (view2 a u) as [lv c] eqn:Ev. destruct (view2_split _ _ _ _ Ev) as [Hv1 Hv2].
    set (lv' := mkLV (f :: lv_facts lv) (lv_own lv) (lv_st lv)).
    set (a1 := mk_a2 a u (a_pub (b_base a)) lv' (a_atr (b_base a)) c).
    assert (HI1 : InvA ak g a1 (gtr ++ Conc.tag u [EvAcc KLd [] true])).
    { split; [|exact Hj]. eapply Inv2_acc; eauto.
      cbn [lv' lv_facts]. constructor; [exact Hf|]. eapply facts_of_view; eauto. }
    destruct (IH a1 _ HI1) as (a2 & gtr2 & HI2 & K1 & K2 & K3); [exact Hf|exact Hnd'|].
    exists a2, gtr2. split; [exact HI2|]. split; [|split].
    + intros w [<-|Hw].
      * rewrite K2 by exact Hu. unfold a1. rewrite view2_mk_same, Ev. reflexivity.
      * rewrite (K1 w Hw). unfold a1. rewrite view2_mk_other; [reflexivity|]. intros ->. contradiction.
    + intros w Hw. rewrite K2 by (intros X; apply Hw; right; exact X). unfold a1. rewrite view2_mk_other; [reflexivity|].
      intros ->. apply Hw. left; reflexivity.
    + rewrite K3. apply full_hist_acc. apply acc_only_1.
Qed.

(** ** transfer of a one-access rule *)
Lemma safeS_act {R} t d (fS : SL.act) (fM : act) (k : SL.V -> SL.prog R) L (P : V -> lview2 -> Prop) (ES : SL.V -> Prop) Q :
  safeA (vt t d) (Act fM (fun v => Ret v)) (getl d L) P ->
  (forall g a gtr, InvA ak (proj g) a gtr -> view2 a (vt t d) = getl d L ->
      (forall x, heap (proj (fst (fst (fS g)))) x = heap (fst (fst (fM (proj g)))) x) /\
      nalloc (proj (fst (fst (fS g)))) = nalloc (fst (fst (fM (proj g)))) /\
      cv (snd (fst (fS g))) = snd (fst (fM (proj g))) /\
      SL.table (fst (fst (fS g))) = SL.table g /\ SL.log2 (fst (fst (fS g))) = SL.log2 g /\
      acc_only (snd (fS g)) /\ acc_only (snd (fM (proj g))) /\ ES (snd (fst (fS g)))) ->
  (forall v l', P (cv v) l' -> ES v -> safeS t (k v) (setl d L l') Q) ->
  safeS t (Act fS k) L Q.
Proof.
  intros Hstep Hsim Hk. cbn [Conc.safe]. intros g A tr [(a & gtr & HI & Hv & HT & HH) Hlog] HvS.
  unfold viewS in HvS.
  assert (Hva : view2 a (vt t d) = getl d L) by (rewrite Hv, HvS; reflexivity).
  destruct (Hsim g a gtr HI Hva) as (E1 & E2 & E3 & E4 & E5 & E6 & E7 & E8).
  cbn [Conc.safe] in Hstep. destruct (Hstep (proj g) a gtr HI Hva) as (a1 & HI1 & Hfr & HP).
  destruct (InvA_ext _ (proj (fst (fst (fS g)))) _ _ HI1 E1 E2) as (a2 & gtr2 & HI2 & Hv2 & Hh2).
  exists (updS A t (setl d L (view2 a1 (vt t d)))). split; [split|split].
  - exists a2, gtr2. split; [exact HI2|]. split; [|split].
    + intros t' d'. rewrite Hv2. unfold updS. destruct (Nat.eqb_spec t' t) as [->|Ht].
      * destruct (Bool.bool_dec d' d) as [->|Hd]; [rewrite getl_setl_same; reflexivity|].
        rewrite getl_setl_other by exact Hd. rewrite (Hfr (vt t d')); [rewrite Hv, HvS; reflexivity|].
        intros X. apply vt_inj in X. tauto.
      * rewrite (Hfr (vt t' d')); [apply Hv|]. intros X. apply vt_inj in X. tauto.
    + intros b Hb. rewrite E4 in *. rewrite Hv2, (Hfr (vb b)); [apply HT; exact Hb|]. intros X. symmetry in X. exact (vt_vb _ _ _ X).
    + destruct HH as (HH1 & HH2 & HH3). split; [|split].
      * rewrite split_hist_acc by exact E6. rewrite Hh2, full_hist_acc by exact E7. exact HH1.
      * rewrite Hh2, full_hist_acc by exact E7. exact HH2.
      * apply tr_ok_acc; assumption.
  - destruct Hlog as [G1 G2]. split; [rewrite E5; exact G1|rewrite E4; exact G2].
  - apply frameS_upd.
  - rewrite viewS_upd_same. apply Hk; [rewrite E3; exact HP|exact E8].
Qed.

(** ** stutter steps: accesses that change neither list nor bucket table *)
Lemma safeS_stutter {R} t (fS : SL.act) (k : SL.V -> SL.prog R) L (E : SL.V -> Prop) Q :
  (forall g a gtr, InvA ak (proj g) a gtr -> (forall d, view2 a (vt t d) = getl d L) -> (SL.log2 g <= 62)%nat ->
      (forall x, SL.heap (fst (fst (fS g))) x = SL.heap g x) /\ SL.nalloc (fst (fst (fS g))) = SL.nalloc g /\
      SL.table (fst (fst (fS g))) = SL.table g /\ (SL.log2 (fst (fst (fS g))) <= 62)%nat /\
      acc_only (snd (fS g)) /\ E (snd (fst (fS g)))) ->
  (forall v, E v -> safeS t (k v) L Q) ->
  safeS t (Act fS k) L Q.
Proof.
  intros Hsim Hk. cbn [Conc.safe]. intros g A tr [(a & gtr & HI & Hv & HT & HH) Hlog] HvS. unfold viewS in HvS.
  destruct (Hsim g a gtr HI) as (E1 & E2 & E3 & E4 & E5 & E6); [intros d; rewrite Hv, HvS; reflexivity|exact (proj1 Hlog)|].
  destruct (InvA_ext _ (proj (fst (fst (fS g)))) _ _ HI) as (a2 & gtr2 & HI2 & Hv2 & Hh2).
  { intros x. cbn [proj heap]. apply hp_ext. exact E1. }
  { cbn [proj nalloc]. exact E2. }
  exists A. split; [split|split].
  - exists a2, gtr2. split; [exact HI2|]. split; [|split].
    + intros t' d'. rewrite Hv2. apply Hv.
    + intros b Hb. rewrite E3 in *. rewrite Hv2. apply HT; exact Hb.
    + destruct HH as (HH1 & HH2 & HH3). split; [rewrite split_hist_acc by exact E5; rewrite Hh2; exact HH1|].
      split; [rewrite Hh2; exact HH2|apply tr_ok_acc; assumption].
  - split; [exact E4|rewrite E3; exact (proj2 Hlog)].
  - intros u _. reflexivity.
  - unfold viewS. rewrite HvS. apply Hk. exact E6.
Qed.

(** an access without modelled state *)
Lemma safeS_nop {R} t kd o (k : SL.V -> SL.prog R) L Q :
  safeS t (k SL.v0) L Q -> safeS t (Act (SL.a_nop kd o) k) L Q.
Proof.
  intros Hk. apply safeS_stutter with (E := fun v => v = SL.v0).
  - intros g a gtr _ _ Hl. cbn. repeat split; auto. apply acc_only_1.
  - intros v ->. exact Hk.
Qed.

(** ** emitting client events (real ones, and ghost events of the dummy-inserting virtual thread) *)
Lemma InvS_emit t d esS esM l1 L g A tr :
  safeA (vt t d) (Emit esM (Ret tt)) (getl d L) (fun _ l' => l' = l1) ->
  (forall a gtr tr0, InvA ak (proj g) a gtr -> view2 a (vt t d) = getl d L -> HistOK tr0 gtr ->
       HistOK (tr0 ++ Conc.tag t esS) (gtr ++ Conc.tag (vt t d) esM)) ->
  InvS g A tr -> viewS A t = L ->
  exists A', InvS g A' (tr ++ Conc.tag t esS) /\ Conc.frame viewS t A A' /\ viewS A' t = setl d L l1.
Proof.
  intros Hstep Hhist [(a & gtr & HI & Hv & HT & HH) Hlog] HvS. unfold viewS in HvS.
  assert (Hva : view2 a (vt t d) = getl d L) by (rewrite Hv, HvS; reflexivity).
  cbn [Conc.safe] in Hstep. destruct (Hstep (proj g) a gtr HI Hva) as (a1 & HI1 & Hfr & HP).
  exists (updS A t (setl d L l1)). split; [split|split].
  - exists a1, (gtr ++ Conc.tag (vt t d) esM). split; [exact HI1|]. split; [|split].
    + intros t' d'. unfold updS. destruct (Nat.eqb_spec t' t) as [->|Ht].
      * destruct (Bool.bool_dec d' d) as [->|Hd]; [rewrite getl_setl_same; exact HP|].
        rewrite getl_setl_other by exact Hd. rewrite (Hfr (vt t d')); [rewrite Hv, HvS; reflexivity|].
        intros X. apply vt_inj in X. tauto.
      * rewrite (Hfr (vt t' d')); [apply Hv|]. intros X. apply vt_inj in X. tauto.
    + intros b Hb. rewrite (Hfr (vb b)); [apply HT; exact Hb|]. intros X. symmetry in X. exact (vt_vb _ _ _ X).
    + apply Hhist with (a := a); assumption.
  - exact Hlog.
  - apply frameS_upd.
  - apply viewS_upd_same.
Qed.

Lemma safeS_emit {R} t d esS esM l1 (k : SL.prog R) L Q :
  safeA (vt t d) (Emit esM (Ret tt)) (getl d L) (fun _ l' => l' = l1) ->
  (forall g a gtr tr0, InvA ak (proj g) a gtr -> view2 a (vt t d) = getl d L -> HistOK tr0 gtr ->
       HistOK (tr0 ++ Conc.tag t esS) (gtr ++ Conc.tag (vt t d) esM)) ->
  safeS t k (setl d L l1) Q -> safeS t (Emit esS k) L Q.
Proof.
  intros Hstep Hhist Hk. cbn [Conc.safe]. intros g A tr HI HvS.
  destruct (InvS_emit t d esS esM l1 L g A tr Hstep (Hhist g) HI HvS) as (A' & H1 & H2 & H3).
  exists A'. split; [exact H1|]. split; [exact H2|]. rewrite H3. exact Hk.
Qed.

(** a ghost event before an access *)
Lemma safeS_ghost {R} t d esM l1 fS (k : SL.V -> SL.prog R) L Q :
  safeA (vt t d) (Emit esM (Ret tt)) (getl d L) (fun _ l' => l' = l1) ->
  (forall g a gtr tr0, InvA ak (proj g) a gtr -> view2 a (vt t d) = getl d L -> HistOK tr0 gtr ->
       HistOK tr0 (gtr ++ Conc.tag (vt t d) esM)) ->
  safeS t (Act fS k) (setl d L l1) Q -> safeS t (Act fS k) L Q.
Proof.
  intros Hstep Hhist Hk. cbn [Conc.safe]. intros g A tr HI HvS.
  destruct (InvS_emit t d [] esM l1 L g A tr Hstep) as (A1 & H1 & H2 & H3); auto.
  { intros a gtr tr0 Ha Hv Hh. cbn [Conc.tag map]. rewrite app_nil_r. eapply Hhist; eauto. }
  cbn [Conc.tag map] in H1. rewrite app_nil_r in H1.
  cbn [Conc.safe] in Hk. destruct (Hk g A1 tr H1 H3) as (A' & K1 & K2 & K3).
  exists A'. split; [exact K1|]. split; [|exact K3].
  intros u Hu. rewrite (K2 u Hu). apply H2; exact Hu.
Qed.

(** an event that is neither invocation nor response (out of fuel) *)
Lemma safeS_emit_other {R} t name args (k : SL.prog R) L Q :
  String.eqb name "inv" = false -> String.eqb name "ret" = false ->
  safeS t k L Q -> safeS t (Emit [EvCli name args] k) L Q.
Proof.
  intros N1 N2 Hk. cbn [Conc.safe]. intros g A tr [(a & gtr & HI & Hv & HT & HH) Hlog] HvS.
  exists A. split; [split; [|exact Hlog]|split; [intros u _; reflexivity|unfold viewS in *; rewrite HvS; exact Hk]].
  exists a, gtr. split; [exact HI|]. split; [exact Hv|]. split; [exact HT|].
  destruct HH as (HH1 & HH2 & HH3). split; [|split; [exact HH2|apply tr_ok_other; assumption]].
  unfold split_hist. rewrite fold_left_app. cbn [Conc.tag map fold_left sstep_h]. rewrite N1, N2. exact HH1.
Qed.

End Sim.
