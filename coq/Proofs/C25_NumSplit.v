(** * C25_NumSplit — cds::algo::number_splitter<Int> (part (d)): cutting a number into consecutive bit fields
    reconstructs its bits.  Statements are about the generated [Gen_split.ns_<type>_cut/safe_cut]. *)

Require Import ZArith Lia Bool List.
Require Import LV.Base.CInt LV.Proofs.C25_Bits LV.Proofs.C25_Fields LV.Gen.Gen_split.
Import ListNotations.
Local Open Scope Z_scope.

(** legal width for [number_splitter<Int>::cut]: [is_correct(count)] and at least one bit *)
Definition legal (w c : Z) : Prop := 1 <= c < w.
Definition anypos (s : Z) : Prop := True.
(** counts accepted by [safe_cut]: any positive [unsigned] *)
Definition legal_safe (c : Z) : Prop := 1 <= c < 2 ^ 32.

(** ** The eight instantiations (statements and proofs generated per type by the same tactic) *)

Lemma shl_u_one t c : isigned t = false -> 0 <= c < ibits t -> c_shl t 1 c = Some (2 ^ c).
Proof.
  intros Hs Hc. rewrite c_shl_u_ok; [|assumption|apply shift_ok_spec; exact Hc].
  rewrite Z.shiftl_1_l. rewrite Z.mod_small; [reflexivity|].
  split; [apply Z.pow_nonneg; lia|apply Z.pow_lt_mono_r; lia].
Qed.

Lemma shl_i32_one c : 0 <= c < 31 -> c_shl i32 1 c = Some (2 ^ c).
Proof.
  intros Hc. rewrite c_shl_s_ok; rewrite ?Z.shiftl_1_l; try reflexivity; try lia.
  - apply shift_ok_spec. cbn. lia.
  - cbn [ibits i32]. apply Z.pow_lt_mono_r; lia.
Qed.

Lemma pow2_bounds c W : 0 <= c < W -> 1 <= 2 ^ c < 2 ^ W.
Proof. intros. split; [assert (0 < 2 ^ c) by (apply pow2_pos; lia); lia|apply Z.pow_lt_mono_r; lia]. Qed.

Lemma usub_mask t c : 0 <= c < ibits t -> usub t (2 ^ c) 1 = 2 ^ c - 1.
Proof. intros H. unfold usub. pose proof (pow2_bounds c (ibits t) H). apply Z.mod_small. lia. Qed.

Lemma ssub_mask c : 0 <= c < 31 -> ssub i32 (2 ^ c) 1 = Some (2 ^ c - 1).
Proof.
  intros H. pose proof (pow2_bounds c 31 H). assert (2 ^ 31 = 2147483648) by reflexivity.
  apply ssub_i32. lia.
Qed.

Lemma uadd_u32_small a b : 0 <= a -> 0 <= b -> a + b < 2 ^ 32 -> uadd u32 a b = a + b.
Proof. intros. unfold uadd. apply Z.mod_small. cbn [ibits u32]. lia. Qed.

Lemma cast_small t x : 0 < ibits t -> 0 <= x < 2 ^ (ibits t - 1) -> cast t x = x.
Proof.
  intros Hb Hx. unfold cast. apply wrap_id; [assumption|]. unfold in_range, imin, imax.
  assert (2 ^ ibits t = 2 * 2 ^ (ibits t - 1)).
  { replace (ibits t) with (Z.succ (ibits t - 1)) at 1 by lia. rewrite Z.pow_succ_r; lia. }
  destruct (isigned t); lia.
Qed.

Lemma field_small w n s c W : 0 <= c < W -> 0 <= field w n s c < 2 ^ (W - 1).
Proof.
  intros Hc. pose proof (field_range w n s c ltac:(lia)).
  assert (2 ^ c <= 2 ^ (W - 1)) by (apply Z.pow_le_mono_r; lia). lia.
Qed.

Ltac ns_cut_tac :=
  rewrite c_shr_ok by (apply shift_ok_spec; cbn; lia); cbn [obind];
  first [ rewrite shl_u_one by (try reflexivity; cbn; lia) | rewrite shl_i32_one by lia ]; cbn [obind];
  first [ rewrite usub_mask by (cbn; lia) | (rewrite ssub_mask by lia; cbn [obind]) ];
  unfold c_and; rewrite land_mask by lia;
  rewrite uadd_u32_small by lia;
  rewrite ?cast_u32, ?cast_u64.

Definition ok_i16 (n : Z) : Prop := - 2 ^ 15 <= n < 2 ^ 15.

Lemma ns_i16_cut_spec n s c : ok_i16 n -> 0 <= s -> 1 <= c < 16 -> s + c <= 16 ->
  ns_i16_cut (mk_ns_i16 n s) c = Some (field 16 n s c, mk_ns_i16 n (s + c)).
Proof.
  unfold ok_i16. intros Hn Hs Hc Hsc. unfold ns_i16_cut. cbn [ns_i16_number_ ns_i16_shift_].
  ns_cut_tac.
  rewrite (field_of_shiftr 16) by lia.
  rewrite (cast_small i16) by (cbn [ibits i16]; try lia; apply (field_small 16 n s c 16); lia). reflexivity.
Qed.

Lemma ns_i16_safe_cut_spec n s c : ok_i16 n -> 0 <= s <= 16 -> legal_safe c -> 0 < s \/ c < 16 ->
  ns_i16_safe_cut (mk_ns_i16 n s) c = Some (field 16 n s (Z.min c (16 - s)), mk_ns_i16 n (s + Z.min c (16 - s))).
Proof.
  unfold legal_safe. intros Hn Hs Hc Hfw. unfold ns_i16_safe_cut, ns_i16_eos, ns_i16_rest_count. cbn [ns_i16_number_ ns_i16_shift_ obind].
  change (umul u64 2 8) with 16. unfold c_ge, c_lt, c_eq.
  destruct (Z.leb_spec 16 s).
  - replace (Z.min c (16 - s)) with 0 by lia. rewrite field_0, Z.add_0_r. reflexivity.
  - unfold usub. cbn [ibits u64]. assert (H64 : 16 < 2 ^ 64) by reflexivity. assert (H32 : 16 < 2 ^ 32) by reflexivity.
    rewrite (Z.mod_small (16 - s)) by lia. rewrite cast_u32, Z.mod_small by lia.
    destruct (Z.ltb_spec (16 - s) c); cbn [obind].
    + replace (Z.min c (16 - s)) with (16 - s) by lia.
      replace (16 - s =? 16) with false by (symmetry; apply Z.eqb_neq; lia).
      replace (to_bool (16 - s)) with true by (symmetry; apply to_bool_spec; lia).
      rewrite ns_i16_cut_spec by (auto; lia). cbn [obind ns_i16_number_ ns_i16_shift_]. rewrite (cast_small i16) by (cbn [ibits i16]; try lia; apply (field_small 16 n s (16 - s) 16); lia). reflexivity.
    + replace (Z.min c (16 - s)) with c by lia.
      replace (c =? 16) with false by (symmetry; apply Z.eqb_neq; lia).
      replace (to_bool c) with true by (symmetry; apply to_bool_spec; lia).
      rewrite ns_i16_cut_spec by (auto; lia). cbn [obind ns_i16_number_ ns_i16_shift_]. rewrite (cast_small i16) by (cbn [ibits i16]; try lia; apply (field_small 16 n s c 16); lia). reflexivity.
Qed.

(** commit 096bd5f: when all the bits of a fresh splitter are requested, safe_cut returns the number itself and
    reaches end-of-stream (before the fix this called cut(width): a shift by the full width, undefined) *)
Lemma ns_i16_safe_cut_full n c : ok_i16 n -> legal_safe c -> 16 <= c ->
  ns_i16_safe_cut (mk_ns_i16 n 0) c = Some (n, mk_ns_i16 n 16).
Proof.
  unfold legal_safe. intros Hn Hc Hw. unfold ns_i16_safe_cut, ns_i16_eos, ns_i16_rest_count. cbn [ns_i16_number_ ns_i16_shift_ obind].
  change (umul u64 2 8) with 16. unfold c_ge, c_lt, c_eq. change (16 <=? 0) with false. cbv iota.
  change (cast u32 (usub u64 16 0)) with 16.
  destruct (Z.ltb_spec 16 c); cbn [obind]; [reflexivity|].
  assert (c = 16) by lia. subst c. reflexivity.
Qed.

Lemma ns_i16_eos_at_end n : ns_i16_eos (mk_ns_i16 n 16) = Some true.
Proof. reflexivity. Qed.

Theorem ns_i16_cut_sequence n cs : ok_i16 n -> Forall (legal 16) cs -> zsum cs = 16 ->
  exists vs, run (ns_i16) ns_i16_cut (mk_ns_i16 n 0) cs = Some (vs, mk_ns_i16 n 16) /\ length vs = length cs /\
             joinf (combine vs cs) = n mod 2 ^ 16.
Proof.
  intros Hn Hl Hs. apply (cut_sequence_reconstructs_gen ns_i16 16 mk_ns_i16 ok_i16 (legal 16) anypos ns_i16_cut); auto; try exact I; unfold legal; try lia.
  intros n0 s c Hn0 _ Hs0 Hc Hsc. apply ns_i16_cut_spec; auto.
Qed.

Theorem ns_i16_safe_cut_sequence n cs : ok_i16 n -> Forall legal_safe cs -> 16 <= zsum cs ->
  exists vs, run (ns_i16) ns_i16_safe_cut (mk_ns_i16 n 0) cs = Some (vs, mk_ns_i16 n 16) /\ length vs = length cs /\
             joinf (combine vs (clip 16 0 cs)) mod 2 ^ 16 = n mod 2 ^ 16.
Proof.
  intros Hn Hl Hs.
  destruct (safe_cut_sequence_reconstructs_gen ns_i16 16 mk_ns_i16 ok_i16 anypos ns_i16_safe_cut ltac:(lia) legal_safe (fun n => n))
    with (n := n) (cs := cs) as [vs [E [L J]]]; auto; try exact I; unfold legal_safe; try lia.
  - intros n0 s c Hn0 _ Hs0 Hc Hfw. apply ns_i16_safe_cut_spec; auto.
  - intros n0 c Hn0 _ Hc Hw. apply ns_i16_safe_cut_full; auto.
  - exists vs. split; [exact E|]. split; [exact L|]. destruct J as [J|J]; rewrite J; [apply Z.mod_mod; lia|reflexivity].
Qed.

Definition ok_u16 (n : Z) : Prop := 0 <= n < 2 ^ 16.

Lemma ns_u16_cut_spec n s c : ok_u16 n -> 0 <= s -> 1 <= c < 16 -> s + c <= 16 ->
  ns_u16_cut (mk_ns_u16 n s) c = Some (field 16 n s c, mk_ns_u16 n (s + c)).
Proof.
  unfold ok_u16. intros Hn Hs Hc Hsc. unfold ns_u16_cut. cbn [ns_u16_number_ ns_u16_shift_].
  ns_cut_tac.
  rewrite (field_of_shiftr 16) by lia.
  rewrite cast_u16, Z.mod_small by (pose proof (field_small 16 n s c 17 ltac:(lia)); cbn in *; lia). reflexivity.
Qed.

Lemma ns_u16_safe_cut_spec n s c : ok_u16 n -> 0 <= s <= 16 -> legal_safe c -> 0 < s \/ c < 16 ->
  ns_u16_safe_cut (mk_ns_u16 n s) c = Some (field 16 n s (Z.min c (16 - s)), mk_ns_u16 n (s + Z.min c (16 - s))).
Proof.
  unfold legal_safe. intros Hn Hs Hc Hfw. unfold ns_u16_safe_cut, ns_u16_eos, ns_u16_rest_count. cbn [ns_u16_number_ ns_u16_shift_ obind].
  change (umul u64 2 8) with 16. unfold c_ge, c_lt, c_eq.
  destruct (Z.leb_spec 16 s).
  - replace (Z.min c (16 - s)) with 0 by lia. rewrite field_0, Z.add_0_r. reflexivity.
  - unfold usub. cbn [ibits u64]. assert (H64 : 16 < 2 ^ 64) by reflexivity. assert (H32 : 16 < 2 ^ 32) by reflexivity.
    rewrite (Z.mod_small (16 - s)) by lia. rewrite cast_u32, Z.mod_small by lia.
    destruct (Z.ltb_spec (16 - s) c); cbn [obind].
    + replace (Z.min c (16 - s)) with (16 - s) by lia.
      replace (16 - s =? 16) with false by (symmetry; apply Z.eqb_neq; lia).
      replace (to_bool (16 - s)) with true by (symmetry; apply to_bool_spec; lia).
      rewrite ns_u16_cut_spec by (auto; lia). cbn [obind ns_u16_number_ ns_u16_shift_]. rewrite cast_u16, Z.mod_small by (pose proof (field_small 16 n s (16 - s) 17 ltac:(lia)); cbn in *; lia). reflexivity.
    + replace (Z.min c (16 - s)) with c by lia.
      replace (c =? 16) with false by (symmetry; apply Z.eqb_neq; lia).
      replace (to_bool c) with true by (symmetry; apply to_bool_spec; lia).
      rewrite ns_u16_cut_spec by (auto; lia). cbn [obind ns_u16_number_ ns_u16_shift_]. rewrite cast_u16, Z.mod_small by (pose proof (field_small 16 n s c 17 ltac:(lia)); cbn in *; lia). reflexivity.
Qed.

(** commit 096bd5f: when all the bits of a fresh splitter are requested, safe_cut returns the number itself and
    reaches end-of-stream (before the fix this called cut(width): a shift by the full width, undefined) *)
Lemma ns_u16_safe_cut_full n c : ok_u16 n -> legal_safe c -> 16 <= c ->
  ns_u16_safe_cut (mk_ns_u16 n 0) c = Some (n, mk_ns_u16 n 16).
Proof.
  unfold legal_safe. intros Hn Hc Hw. unfold ns_u16_safe_cut, ns_u16_eos, ns_u16_rest_count. cbn [ns_u16_number_ ns_u16_shift_ obind].
  change (umul u64 2 8) with 16. unfold c_ge, c_lt, c_eq. change (16 <=? 0) with false. cbv iota.
  change (cast u32 (usub u64 16 0)) with 16.
  destruct (Z.ltb_spec 16 c); cbn [obind]; [reflexivity|].
  assert (c = 16) by lia. subst c. reflexivity.
Qed.

Lemma ns_u16_eos_at_end n : ns_u16_eos (mk_ns_u16 n 16) = Some true.
Proof. reflexivity. Qed.

Theorem ns_u16_cut_sequence n cs : ok_u16 n -> Forall (legal 16) cs -> zsum cs = 16 ->
  exists vs, run (ns_u16) ns_u16_cut (mk_ns_u16 n 0) cs = Some (vs, mk_ns_u16 n 16) /\ length vs = length cs /\
             joinf (combine vs cs) = n mod 2 ^ 16.
Proof.
  intros Hn Hl Hs. apply (cut_sequence_reconstructs_gen ns_u16 16 mk_ns_u16 ok_u16 (legal 16) anypos ns_u16_cut); auto; try exact I; unfold legal; try lia.
  intros n0 s c Hn0 _ Hs0 Hc Hsc. apply ns_u16_cut_spec; auto.
Qed.

Theorem ns_u16_safe_cut_sequence n cs : ok_u16 n -> Forall legal_safe cs -> 16 <= zsum cs ->
  exists vs, run (ns_u16) ns_u16_safe_cut (mk_ns_u16 n 0) cs = Some (vs, mk_ns_u16 n 16) /\ length vs = length cs /\
             joinf (combine vs (clip 16 0 cs)) = n mod 2 ^ 16.
Proof.
  intros Hn Hl Hs.
  destruct (safe_cut_sequence_reconstructs_gen ns_u16 16 mk_ns_u16 ok_u16 anypos ns_u16_safe_cut ltac:(lia) legal_safe (fun n => n))
    with (n := n) (cs := cs) as [vs [E [L J]]]; auto; try exact I; unfold legal_safe; try lia.
  - intros n0 s c Hn0 _ Hs0 Hc Hfw. apply ns_u16_safe_cut_spec; auto.
  - intros n0 c Hn0 _ Hc Hw. apply ns_u16_safe_cut_full; auto.
  - exists vs. split; [exact E|]. split; [exact L|]. destruct J as [J|J]; rewrite J; [reflexivity|]. unfold ok_u16 in Hn. symmetry. apply Z.mod_small. lia.
Qed.

Definition ok_i32 (n : Z) : Prop := - 2 ^ 31 <= n < 2 ^ 31.

Lemma ns_i32_cut_spec n s c : ok_i32 n -> 0 <= s -> 1 <= c < 32 -> s + c <= 32 ->
  ns_i32_cut (mk_ns_i32 n s) c = Some (field 32 n s c, mk_ns_i32 n (s + c)).
Proof.
  unfold ok_i32. intros Hn Hs Hc Hsc. unfold ns_i32_cut. cbn [ns_i32_number_ ns_i32_shift_].
  ns_cut_tac.
  rewrite (field_of_shiftr_mod 32 32) by lia.
  rewrite (cast_small i32) by (cbn [ibits i32]; try lia; apply (field_small 32 n s c 32); lia). reflexivity.
Qed.

Lemma ns_i32_safe_cut_spec n s c : ok_i32 n -> 0 <= s <= 32 -> legal_safe c -> 0 < s \/ c < 32 ->
  ns_i32_safe_cut (mk_ns_i32 n s) c = Some (field 32 n s (Z.min c (32 - s)), mk_ns_i32 n (s + Z.min c (32 - s))).
Proof.
  unfold legal_safe. intros Hn Hs Hc Hfw. unfold ns_i32_safe_cut, ns_i32_eos, ns_i32_rest_count. cbn [ns_i32_number_ ns_i32_shift_ obind].
  change (umul u64 4 8) with 32. unfold c_ge, c_lt, c_eq.
  destruct (Z.leb_spec 32 s).
  - replace (Z.min c (32 - s)) with 0 by lia. rewrite field_0, Z.add_0_r. reflexivity.
  - unfold usub. cbn [ibits u64]. assert (H64 : 32 < 2 ^ 64) by reflexivity. assert (H32 : 32 < 2 ^ 32) by reflexivity.
    rewrite (Z.mod_small (32 - s)) by lia. rewrite cast_u32, Z.mod_small by lia.
    destruct (Z.ltb_spec (32 - s) c); cbn [obind].
    + replace (Z.min c (32 - s)) with (32 - s) by lia.
      replace (32 - s =? 32) with false by (symmetry; apply Z.eqb_neq; lia).
      replace (to_bool (32 - s)) with true by (symmetry; apply to_bool_spec; lia).
      rewrite ns_i32_cut_spec by (auto; lia). cbn [obind ns_i32_number_ ns_i32_shift_].  reflexivity.
    + replace (Z.min c (32 - s)) with c by lia.
      replace (c =? 32) with false by (symmetry; apply Z.eqb_neq; lia).
      replace (to_bool c) with true by (symmetry; apply to_bool_spec; lia).
      rewrite ns_i32_cut_spec by (auto; lia). cbn [obind ns_i32_number_ ns_i32_shift_].  reflexivity.
Qed.

(** commit 096bd5f: when all the bits of a fresh splitter are requested, safe_cut returns the number itself and
    reaches end-of-stream (before the fix this called cut(width): a shift by the full width, undefined) *)
Lemma ns_i32_safe_cut_full n c : ok_i32 n -> legal_safe c -> 32 <= c ->
  ns_i32_safe_cut (mk_ns_i32 n 0) c = Some (n, mk_ns_i32 n 32).
Proof.
  unfold legal_safe. intros Hn Hc Hw. unfold ns_i32_safe_cut, ns_i32_eos, ns_i32_rest_count. cbn [ns_i32_number_ ns_i32_shift_ obind].
  change (umul u64 4 8) with 32. unfold c_ge, c_lt, c_eq. change (32 <=? 0) with false. cbv iota.
  change (cast u32 (usub u64 32 0)) with 32.
  destruct (Z.ltb_spec 32 c); cbn [obind]; [reflexivity|].
  assert (c = 32) by lia. subst c. reflexivity.
Qed.

Lemma ns_i32_eos_at_end n : ns_i32_eos (mk_ns_i32 n 32) = Some true.
Proof. reflexivity. Qed.

Theorem ns_i32_cut_sequence n cs : ok_i32 n -> Forall (legal 32) cs -> zsum cs = 32 ->
  exists vs, run (ns_i32) ns_i32_cut (mk_ns_i32 n 0) cs = Some (vs, mk_ns_i32 n 32) /\ length vs = length cs /\
             joinf (combine vs cs) = n mod 2 ^ 32.
Proof.
  intros Hn Hl Hs. apply (cut_sequence_reconstructs_gen ns_i32 32 mk_ns_i32 ok_i32 (legal 32) anypos ns_i32_cut); auto; try exact I; unfold legal; try lia.
  intros n0 s c Hn0 _ Hs0 Hc Hsc. apply ns_i32_cut_spec; auto.
Qed.

Theorem ns_i32_safe_cut_sequence n cs : ok_i32 n -> Forall legal_safe cs -> 32 <= zsum cs ->
  exists vs, run (ns_i32) ns_i32_safe_cut (mk_ns_i32 n 0) cs = Some (vs, mk_ns_i32 n 32) /\ length vs = length cs /\
             joinf (combine vs (clip 32 0 cs)) mod 2 ^ 32 = n mod 2 ^ 32.
Proof.
  intros Hn Hl Hs.
  destruct (safe_cut_sequence_reconstructs_gen ns_i32 32 mk_ns_i32 ok_i32 anypos ns_i32_safe_cut ltac:(lia) legal_safe (fun n => n))
    with (n := n) (cs := cs) as [vs [E [L J]]]; auto; try exact I; unfold legal_safe; try lia.
  - intros n0 s c Hn0 _ Hs0 Hc Hfw. apply ns_i32_safe_cut_spec; auto.
  - intros n0 c Hn0 _ Hc Hw. apply ns_i32_safe_cut_full; auto.
  - exists vs. split; [exact E|]. split; [exact L|]. destruct J as [J|J]; rewrite J; [apply Z.mod_mod; lia|reflexivity].
Qed.

Definition ok_u32 (n : Z) : Prop := 0 <= n < 2 ^ 32.

Lemma ns_u32_cut_spec n s c : ok_u32 n -> 0 <= s -> 1 <= c < 32 -> s + c <= 32 ->
  ns_u32_cut (mk_ns_u32 n s) c = Some (field 32 n s c, mk_ns_u32 n (s + c)).
Proof.
  unfold ok_u32. intros Hn Hs Hc Hsc. unfold ns_u32_cut. cbn [ns_u32_number_ ns_u32_shift_].
  ns_cut_tac.
  rewrite (field_of_shiftr 32) by lia. reflexivity.
Qed.

Lemma ns_u32_safe_cut_spec n s c : ok_u32 n -> 0 <= s <= 32 -> legal_safe c -> 0 < s \/ c < 32 ->
  ns_u32_safe_cut (mk_ns_u32 n s) c = Some (field 32 n s (Z.min c (32 - s)), mk_ns_u32 n (s + Z.min c (32 - s))).
Proof.
  unfold legal_safe. intros Hn Hs Hc Hfw. unfold ns_u32_safe_cut, ns_u32_eos, ns_u32_rest_count. cbn [ns_u32_number_ ns_u32_shift_ obind].
  change (umul u64 4 8) with 32. unfold c_ge, c_lt, c_eq.
  destruct (Z.leb_spec 32 s).
  - replace (Z.min c (32 - s)) with 0 by lia. rewrite field_0, Z.add_0_r. reflexivity.
  - unfold usub. cbn [ibits u64]. assert (H64 : 32 < 2 ^ 64) by reflexivity. assert (H32 : 32 < 2 ^ 32) by reflexivity.
    rewrite (Z.mod_small (32 - s)) by lia. rewrite cast_u32, Z.mod_small by lia.
    destruct (Z.ltb_spec (32 - s) c); cbn [obind].
    + replace (Z.min c (32 - s)) with (32 - s) by lia.
      replace (32 - s =? 32) with false by (symmetry; apply Z.eqb_neq; lia).
      replace (to_bool (32 - s)) with true by (symmetry; apply to_bool_spec; lia).
      rewrite ns_u32_cut_spec by (auto; lia). cbn [obind ns_u32_number_ ns_u32_shift_].  reflexivity.
    + replace (Z.min c (32 - s)) with c by lia.
      replace (c =? 32) with false by (symmetry; apply Z.eqb_neq; lia).
      replace (to_bool c) with true by (symmetry; apply to_bool_spec; lia).
      rewrite ns_u32_cut_spec by (auto; lia). cbn [obind ns_u32_number_ ns_u32_shift_].  reflexivity.
Qed.

(** commit 096bd5f: when all the bits of a fresh splitter are requested, safe_cut returns the number itself and
    reaches end-of-stream (before the fix this called cut(width): a shift by the full width, undefined) *)
Lemma ns_u32_safe_cut_full n c : ok_u32 n -> legal_safe c -> 32 <= c ->
  ns_u32_safe_cut (mk_ns_u32 n 0) c = Some (n, mk_ns_u32 n 32).
Proof.
  unfold legal_safe. intros Hn Hc Hw. unfold ns_u32_safe_cut, ns_u32_eos, ns_u32_rest_count. cbn [ns_u32_number_ ns_u32_shift_ obind].
  change (umul u64 4 8) with 32. unfold c_ge, c_lt, c_eq. change (32 <=? 0) with false. cbv iota.
  change (cast u32 (usub u64 32 0)) with 32.
  destruct (Z.ltb_spec 32 c); cbn [obind]; [reflexivity|].
  assert (c = 32) by lia. subst c. reflexivity.
Qed.

Lemma ns_u32_eos_at_end n : ns_u32_eos (mk_ns_u32 n 32) = Some true.
Proof. reflexivity. Qed.

Theorem ns_u32_cut_sequence n cs : ok_u32 n -> Forall (legal 32) cs -> zsum cs = 32 ->
  exists vs, run (ns_u32) ns_u32_cut (mk_ns_u32 n 0) cs = Some (vs, mk_ns_u32 n 32) /\ length vs = length cs /\
             joinf (combine vs cs) = n mod 2 ^ 32.
Proof.
  intros Hn Hl Hs. apply (cut_sequence_reconstructs_gen ns_u32 32 mk_ns_u32 ok_u32 (legal 32) anypos ns_u32_cut); auto; try exact I; unfold legal; try lia.
  intros n0 s c Hn0 _ Hs0 Hc Hsc. apply ns_u32_cut_spec; auto.
Qed.

Theorem ns_u32_safe_cut_sequence n cs : ok_u32 n -> Forall legal_safe cs -> 32 <= zsum cs ->
  exists vs, run (ns_u32) ns_u32_safe_cut (mk_ns_u32 n 0) cs = Some (vs, mk_ns_u32 n 32) /\ length vs = length cs /\
             joinf (combine vs (clip 32 0 cs)) = n mod 2 ^ 32.
Proof.
  intros Hn Hl Hs.
  destruct (safe_cut_sequence_reconstructs_gen ns_u32 32 mk_ns_u32 ok_u32 anypos ns_u32_safe_cut ltac:(lia) legal_safe (fun n => n))
    with (n := n) (cs := cs) as [vs [E [L J]]]; auto; try exact I; unfold legal_safe; try lia.
  - intros n0 s c Hn0 _ Hs0 Hc Hfw. apply ns_u32_safe_cut_spec; auto.
  - intros n0 c Hn0 _ Hc Hw. apply ns_u32_safe_cut_full; auto.
  - exists vs. split; [exact E|]. split; [exact L|]. destruct J as [J|J]; rewrite J; [reflexivity|]. unfold ok_u32 in Hn. symmetry. apply Z.mod_small. lia.
Qed.

Definition ok_i64 (n : Z) : Prop := - 2 ^ 63 <= n < 2 ^ 63.

Lemma ns_i64_cut_spec n s c : ok_i64 n -> 0 <= s -> 1 <= c < 64 -> s + c <= 64 ->
  ns_i64_cut (mk_ns_i64 n s) c = Some (field 64 n s c, mk_ns_i64 n (s + c)).
Proof.
  unfold ok_i64. intros Hn Hs Hc Hsc. unfold ns_i64_cut. cbn [ns_i64_number_ ns_i64_shift_].
  ns_cut_tac.
  rewrite (field_of_shiftr_mod 64 64) by lia.
  rewrite (cast_small i64) by (cbn [ibits i64]; try lia; apply (field_small 64 n s c 64); lia). reflexivity.
Qed.

Lemma ns_i64_safe_cut_spec n s c : ok_i64 n -> 0 <= s <= 64 -> legal_safe c -> 0 < s \/ c < 64 ->
  ns_i64_safe_cut (mk_ns_i64 n s) c = Some (field 64 n s (Z.min c (64 - s)), mk_ns_i64 n (s + Z.min c (64 - s))).
Proof.
  unfold legal_safe. intros Hn Hs Hc Hfw. unfold ns_i64_safe_cut, ns_i64_eos, ns_i64_rest_count. cbn [ns_i64_number_ ns_i64_shift_ obind].
  change (umul u64 8 8) with 64. unfold c_ge, c_lt, c_eq.
  destruct (Z.leb_spec 64 s).
  - replace (Z.min c (64 - s)) with 0 by lia. rewrite field_0, Z.add_0_r. reflexivity.
  - unfold usub. cbn [ibits u64]. assert (H64 : 64 < 2 ^ 64) by reflexivity. assert (H32 : 64 < 2 ^ 32) by reflexivity.
    rewrite (Z.mod_small (64 - s)) by lia. rewrite cast_u32, Z.mod_small by lia.
    destruct (Z.ltb_spec (64 - s) c); cbn [obind].
    + replace (Z.min c (64 - s)) with (64 - s) by lia.
      replace (64 - s =? 64) with false by (symmetry; apply Z.eqb_neq; lia).
      replace (to_bool (64 - s)) with true by (symmetry; apply to_bool_spec; lia).
      rewrite ns_i64_cut_spec by (auto; lia). cbn [obind ns_i64_number_ ns_i64_shift_].  reflexivity.
    + replace (Z.min c (64 - s)) with c by lia.
      replace (c =? 64) with false by (symmetry; apply Z.eqb_neq; lia).
      replace (to_bool c) with true by (symmetry; apply to_bool_spec; lia).
      rewrite ns_i64_cut_spec by (auto; lia). cbn [obind ns_i64_number_ ns_i64_shift_].  reflexivity.
Qed.

(** commit 096bd5f: when all the bits of a fresh splitter are requested, safe_cut returns the number itself and
    reaches end-of-stream (before the fix this called cut(width): a shift by the full width, undefined) *)
Lemma ns_i64_safe_cut_full n c : ok_i64 n -> legal_safe c -> 64 <= c ->
  ns_i64_safe_cut (mk_ns_i64 n 0) c = Some (n, mk_ns_i64 n 64).
Proof.
  unfold legal_safe. intros Hn Hc Hw. unfold ns_i64_safe_cut, ns_i64_eos, ns_i64_rest_count. cbn [ns_i64_number_ ns_i64_shift_ obind].
  change (umul u64 8 8) with 64. unfold c_ge, c_lt, c_eq. change (64 <=? 0) with false. cbv iota.
  change (cast u32 (usub u64 64 0)) with 64.
  destruct (Z.ltb_spec 64 c); cbn [obind]; [reflexivity|].
  assert (c = 64) by lia. subst c. reflexivity.
Qed.

Lemma ns_i64_eos_at_end n : ns_i64_eos (mk_ns_i64 n 64) = Some true.
Proof. reflexivity. Qed.

Theorem ns_i64_cut_sequence n cs : ok_i64 n -> Forall (legal 64) cs -> zsum cs = 64 ->
  exists vs, run (ns_i64) ns_i64_cut (mk_ns_i64 n 0) cs = Some (vs, mk_ns_i64 n 64) /\ length vs = length cs /\
             joinf (combine vs cs) = n mod 2 ^ 64.
Proof.
  intros Hn Hl Hs. apply (cut_sequence_reconstructs_gen ns_i64 64 mk_ns_i64 ok_i64 (legal 64) anypos ns_i64_cut); auto; try exact I; unfold legal; try lia.
  intros n0 s c Hn0 _ Hs0 Hc Hsc. apply ns_i64_cut_spec; auto.
Qed.

Theorem ns_i64_safe_cut_sequence n cs : ok_i64 n -> Forall legal_safe cs -> 64 <= zsum cs ->
  exists vs, run (ns_i64) ns_i64_safe_cut (mk_ns_i64 n 0) cs = Some (vs, mk_ns_i64 n 64) /\ length vs = length cs /\
             joinf (combine vs (clip 64 0 cs)) mod 2 ^ 64 = n mod 2 ^ 64.
Proof.
  intros Hn Hl Hs.
  destruct (safe_cut_sequence_reconstructs_gen ns_i64 64 mk_ns_i64 ok_i64 anypos ns_i64_safe_cut ltac:(lia) legal_safe (fun n => n))
    with (n := n) (cs := cs) as [vs [E [L J]]]; auto; try exact I; unfold legal_safe; try lia.
  - intros n0 s c Hn0 _ Hs0 Hc Hfw. apply ns_i64_safe_cut_spec; auto.
  - intros n0 c Hn0 _ Hc Hw. apply ns_i64_safe_cut_full; auto.
  - exists vs. split; [exact E|]. split; [exact L|]. destruct J as [J|J]; rewrite J; [apply Z.mod_mod; lia|reflexivity].
Qed.

Definition ok_u64 (n : Z) : Prop := 0 <= n < 2 ^ 64.

Lemma ns_u64_cut_spec n s c : ok_u64 n -> 0 <= s -> 1 <= c < 64 -> s + c <= 64 ->
  ns_u64_cut (mk_ns_u64 n s) c = Some (field 64 n s c, mk_ns_u64 n (s + c)).
Proof.
  unfold ok_u64. intros Hn Hs Hc Hsc. unfold ns_u64_cut. cbn [ns_u64_number_ ns_u64_shift_].
  ns_cut_tac.
  rewrite (field_of_shiftr 64) by lia. reflexivity.
Qed.

Lemma ns_u64_safe_cut_spec n s c : ok_u64 n -> 0 <= s <= 64 -> legal_safe c -> 0 < s \/ c < 64 ->
  ns_u64_safe_cut (mk_ns_u64 n s) c = Some (field 64 n s (Z.min c (64 - s)), mk_ns_u64 n (s + Z.min c (64 - s))).
Proof.
  unfold legal_safe. intros Hn Hs Hc Hfw. unfold ns_u64_safe_cut, ns_u64_eos, ns_u64_rest_count. cbn [ns_u64_number_ ns_u64_shift_ obind].
  change (umul u64 8 8) with 64. unfold c_ge, c_lt, c_eq.
  destruct (Z.leb_spec 64 s).
  - replace (Z.min c (64 - s)) with 0 by lia. rewrite field_0, Z.add_0_r. reflexivity.
  - unfold usub. cbn [ibits u64]. assert (H64 : 64 < 2 ^ 64) by reflexivity. assert (H32 : 64 < 2 ^ 32) by reflexivity.
    rewrite (Z.mod_small (64 - s)) by lia. rewrite cast_u32, Z.mod_small by lia.
    destruct (Z.ltb_spec (64 - s) c); cbn [obind].
    + replace (Z.min c (64 - s)) with (64 - s) by lia.
      replace (64 - s =? 64) with false by (symmetry; apply Z.eqb_neq; lia).
      replace (to_bool (64 - s)) with true by (symmetry; apply to_bool_spec; lia).
      rewrite ns_u64_cut_spec by (auto; lia). cbn [obind ns_u64_number_ ns_u64_shift_].  reflexivity.
    + replace (Z.min c (64 - s)) with c by lia.
      replace (c =? 64) with false by (symmetry; apply Z.eqb_neq; lia).
      replace (to_bool c) with true by (symmetry; apply to_bool_spec; lia).
      rewrite ns_u64_cut_spec by (auto; lia). cbn [obind ns_u64_number_ ns_u64_shift_].  reflexivity.
Qed.

(** commit 096bd5f: when all the bits of a fresh splitter are requested, safe_cut returns the number itself and
    reaches end-of-stream (before the fix this called cut(width): a shift by the full width, undefined) *)
Lemma ns_u64_safe_cut_full n c : ok_u64 n -> legal_safe c -> 64 <= c ->
  ns_u64_safe_cut (mk_ns_u64 n 0) c = Some (n, mk_ns_u64 n 64).
Proof.
  unfold legal_safe. intros Hn Hc Hw. unfold ns_u64_safe_cut, ns_u64_eos, ns_u64_rest_count. cbn [ns_u64_number_ ns_u64_shift_ obind].
  change (umul u64 8 8) with 64. unfold c_ge, c_lt, c_eq. change (64 <=? 0) with false. cbv iota.
  change (cast u32 (usub u64 64 0)) with 64.
  destruct (Z.ltb_spec 64 c); cbn [obind]; [reflexivity|].
  assert (c = 64) by lia. subst c. reflexivity.
Qed.

Lemma ns_u64_eos_at_end n : ns_u64_eos (mk_ns_u64 n 64) = Some true.
Proof. reflexivity. Qed.

Theorem ns_u64_cut_sequence n cs : ok_u64 n -> Forall (legal 64) cs -> zsum cs = 64 ->
  exists vs, run (ns_u64) ns_u64_cut (mk_ns_u64 n 0) cs = Some (vs, mk_ns_u64 n 64) /\ length vs = length cs /\
             joinf (combine vs cs) = n mod 2 ^ 64.
Proof.
  intros Hn Hl Hs. apply (cut_sequence_reconstructs_gen ns_u64 64 mk_ns_u64 ok_u64 (legal 64) anypos ns_u64_cut); auto; try exact I; unfold legal; try lia.
  intros n0 s c Hn0 _ Hs0 Hc Hsc. apply ns_u64_cut_spec; auto.
Qed.

Theorem ns_u64_safe_cut_sequence n cs : ok_u64 n -> Forall legal_safe cs -> 64 <= zsum cs ->
  exists vs, run (ns_u64) ns_u64_safe_cut (mk_ns_u64 n 0) cs = Some (vs, mk_ns_u64 n 64) /\ length vs = length cs /\
             joinf (combine vs (clip 64 0 cs)) = n mod 2 ^ 64.
Proof.
  intros Hn Hl Hs.
  destruct (safe_cut_sequence_reconstructs_gen ns_u64 64 mk_ns_u64 ok_u64 anypos ns_u64_safe_cut ltac:(lia) legal_safe (fun n => n))
    with (n := n) (cs := cs) as [vs [E [L J]]]; auto; try exact I; unfold legal_safe; try lia.
  - intros n0 s c Hn0 _ Hs0 Hc Hfw. apply ns_u64_safe_cut_spec; auto.
  - intros n0 c Hn0 _ Hc Hw. apply ns_u64_safe_cut_full; auto.
  - exists vs. split; [exact E|]. split; [exact L|]. destruct J as [J|J]; rewrite J; [reflexivity|]. unfold ok_u64 in Hn. symmetry. apply Z.mod_small. lia.
Qed.

Definition ok_i64ll (n : Z) : Prop := - 2 ^ 63 <= n < 2 ^ 63.

Lemma ns_i64ll_cut_spec n s c : ok_i64ll n -> 0 <= s -> 1 <= c < 64 -> s + c <= 64 ->
  ns_i64ll_cut (mk_ns_i64ll n s) c = Some (field 64 n s c, mk_ns_i64ll n (s + c)).
Proof.
  unfold ok_i64ll. intros Hn Hs Hc Hsc. unfold ns_i64ll_cut. cbn [ns_i64ll_number_ ns_i64ll_shift_].
  ns_cut_tac.
  rewrite (field_of_shiftr_mod 64 64) by lia.
  rewrite (cast_small i64) by (cbn [ibits i64]; try lia; apply (field_small 64 n s c 64); lia). reflexivity.
Qed.

Lemma ns_i64ll_safe_cut_spec n s c : ok_i64ll n -> 0 <= s <= 64 -> legal_safe c -> 0 < s \/ c < 64 ->
  ns_i64ll_safe_cut (mk_ns_i64ll n s) c = Some (field 64 n s (Z.min c (64 - s)), mk_ns_i64ll n (s + Z.min c (64 - s))).
Proof.
  unfold legal_safe. intros Hn Hs Hc Hfw. unfold ns_i64ll_safe_cut, ns_i64ll_eos, ns_i64ll_rest_count. cbn [ns_i64ll_number_ ns_i64ll_shift_ obind].
  change (umul u64 8 8) with 64. unfold c_ge, c_lt, c_eq.
  destruct (Z.leb_spec 64 s).
  - replace (Z.min c (64 - s)) with 0 by lia. rewrite field_0, Z.add_0_r. reflexivity.
  - unfold usub. cbn [ibits u64]. assert (H64 : 64 < 2 ^ 64) by reflexivity. assert (H32 : 64 < 2 ^ 32) by reflexivity.
    rewrite (Z.mod_small (64 - s)) by lia. rewrite cast_u32, Z.mod_small by lia.
    destruct (Z.ltb_spec (64 - s) c); cbn [obind].
    + replace (Z.min c (64 - s)) with (64 - s) by lia.
      replace (64 - s =? 64) with false by (symmetry; apply Z.eqb_neq; lia).
      replace (to_bool (64 - s)) with true by (symmetry; apply to_bool_spec; lia).
      rewrite ns_i64ll_cut_spec by (auto; lia). cbn [obind ns_i64ll_number_ ns_i64ll_shift_].  reflexivity.
    + replace (Z.min c (64 - s)) with c by lia.
      replace (c =? 64) with false by (symmetry; apply Z.eqb_neq; lia).
      replace (to_bool c) with true by (symmetry; apply to_bool_spec; lia).
      rewrite ns_i64ll_cut_spec by (auto; lia). cbn [obind ns_i64ll_number_ ns_i64ll_shift_].  reflexivity.
Qed.

(** commit 096bd5f: when all the bits of a fresh splitter are requested, safe_cut returns the number itself and
    reaches end-of-stream (before the fix this called cut(width): a shift by the full width, undefined) *)
Lemma ns_i64ll_safe_cut_full n c : ok_i64ll n -> legal_safe c -> 64 <= c ->
  ns_i64ll_safe_cut (mk_ns_i64ll n 0) c = Some (n, mk_ns_i64ll n 64).
Proof.
  unfold legal_safe. intros Hn Hc Hw. unfold ns_i64ll_safe_cut, ns_i64ll_eos, ns_i64ll_rest_count. cbn [ns_i64ll_number_ ns_i64ll_shift_ obind].
  change (umul u64 8 8) with 64. unfold c_ge, c_lt, c_eq. change (64 <=? 0) with false. cbv iota.
  change (cast u32 (usub u64 64 0)) with 64.
  destruct (Z.ltb_spec 64 c); cbn [obind]; [reflexivity|].
  assert (c = 64) by lia. subst c. reflexivity.
Qed.

Lemma ns_i64ll_eos_at_end n : ns_i64ll_eos (mk_ns_i64ll n 64) = Some true.
Proof. reflexivity. Qed.

Theorem ns_i64ll_cut_sequence n cs : ok_i64ll n -> Forall (legal 64) cs -> zsum cs = 64 ->
  exists vs, run (ns_i64ll) ns_i64ll_cut (mk_ns_i64ll n 0) cs = Some (vs, mk_ns_i64ll n 64) /\ length vs = length cs /\
             joinf (combine vs cs) = n mod 2 ^ 64.
Proof.
  intros Hn Hl Hs. apply (cut_sequence_reconstructs_gen ns_i64ll 64 mk_ns_i64ll ok_i64ll (legal 64) anypos ns_i64ll_cut); auto; try exact I; unfold legal; try lia.
  intros n0 s c Hn0 _ Hs0 Hc Hsc. apply ns_i64ll_cut_spec; auto.
Qed.

Theorem ns_i64ll_safe_cut_sequence n cs : ok_i64ll n -> Forall legal_safe cs -> 64 <= zsum cs ->
  exists vs, run (ns_i64ll) ns_i64ll_safe_cut (mk_ns_i64ll n 0) cs = Some (vs, mk_ns_i64ll n 64) /\ length vs = length cs /\
             joinf (combine vs (clip 64 0 cs)) mod 2 ^ 64 = n mod 2 ^ 64.
Proof.
  intros Hn Hl Hs.
  destruct (safe_cut_sequence_reconstructs_gen ns_i64ll 64 mk_ns_i64ll ok_i64ll anypos ns_i64ll_safe_cut ltac:(lia) legal_safe (fun n => n))
    with (n := n) (cs := cs) as [vs [E [L J]]]; auto; try exact I; unfold legal_safe; try lia.
  - intros n0 s c Hn0 _ Hs0 Hc Hfw. apply ns_i64ll_safe_cut_spec; auto.
  - intros n0 c Hn0 _ Hc Hw. apply ns_i64ll_safe_cut_full; auto.
  - exists vs. split; [exact E|]. split; [exact L|]. destruct J as [J|J]; rewrite J; [apply Z.mod_mod; lia|reflexivity].
Qed.

Definition ok_u64ll (n : Z) : Prop := 0 <= n < 2 ^ 64.

Lemma ns_u64ll_cut_spec n s c : ok_u64ll n -> 0 <= s -> 1 <= c < 64 -> s + c <= 64 ->
  ns_u64ll_cut (mk_ns_u64ll n s) c = Some (field 64 n s c, mk_ns_u64ll n (s + c)).
Proof.
  unfold ok_u64ll. intros Hn Hs Hc Hsc. unfold ns_u64ll_cut. cbn [ns_u64ll_number_ ns_u64ll_shift_].
  ns_cut_tac.
  rewrite (field_of_shiftr 64) by lia. reflexivity.
Qed.

Lemma ns_u64ll_safe_cut_spec n s c : ok_u64ll n -> 0 <= s <= 64 -> legal_safe c -> 0 < s \/ c < 64 ->
  ns_u64ll_safe_cut (mk_ns_u64ll n s) c = Some (field 64 n s (Z.min c (64 - s)), mk_ns_u64ll n (s + Z.min c (64 - s))).
Proof.
  unfold legal_safe. intros Hn Hs Hc Hfw. unfold ns_u64ll_safe_cut, ns_u64ll_eos, ns_u64ll_rest_count. cbn [ns_u64ll_number_ ns_u64ll_shift_ obind].
  change (umul u64 8 8) with 64. unfold c_ge, c_lt, c_eq.
  destruct (Z.leb_spec 64 s).
  - replace (Z.min c (64 - s)) with 0 by lia. rewrite field_0, Z.add_0_r. reflexivity.
  - unfold usub. cbn [ibits u64]. assert (H64 : 64 < 2 ^ 64) by reflexivity. assert (H32 : 64 < 2 ^ 32) by reflexivity.
    rewrite (Z.mod_small (64 - s)) by lia. rewrite cast_u32, Z.mod_small by lia.
    destruct (Z.ltb_spec (64 - s) c); cbn [obind].
    + replace (Z.min c (64 - s)) with (64 - s) by lia.
      replace (64 - s =? 64) with false by (symmetry; apply Z.eqb_neq; lia).
      replace (to_bool (64 - s)) with true by (symmetry; apply to_bool_spec; lia).
      rewrite ns_u64ll_cut_spec by (auto; lia). cbn [obind ns_u64ll_number_ ns_u64ll_shift_].  reflexivity.
    + replace (Z.min c (64 - s)) with c by lia.
      replace (c =? 64) with false by (symmetry; apply Z.eqb_neq; lia).
      replace (to_bool c) with true by (symmetry; apply to_bool_spec; lia).
      rewrite ns_u64ll_cut_spec by (auto; lia). cbn [obind ns_u64ll_number_ ns_u64ll_shift_].  reflexivity.
Qed.

(** commit 096bd5f: when all the bits of a fresh splitter are requested, safe_cut returns the number itself and
    reaches end-of-stream (before the fix this called cut(width): a shift by the full width, undefined) *)
Lemma ns_u64ll_safe_cut_full n c : ok_u64ll n -> legal_safe c -> 64 <= c ->
  ns_u64ll_safe_cut (mk_ns_u64ll n 0) c = Some (n, mk_ns_u64ll n 64).
Proof.
  unfold legal_safe. intros Hn Hc Hw. unfold ns_u64ll_safe_cut, ns_u64ll_eos, ns_u64ll_rest_count. cbn [ns_u64ll_number_ ns_u64ll_shift_ obind].
  change (umul u64 8 8) with 64. unfold c_ge, c_lt, c_eq. change (64 <=? 0) with false. cbv iota.
  change (cast u32 (usub u64 64 0)) with 64.
  destruct (Z.ltb_spec 64 c); cbn [obind]; [reflexivity|].
  assert (c = 64) by lia. subst c. reflexivity.
Qed.

Lemma ns_u64ll_eos_at_end n : ns_u64ll_eos (mk_ns_u64ll n 64) = Some true.
Proof. reflexivity. Qed.

Theorem ns_u64ll_cut_sequence n cs : ok_u64ll n -> Forall (legal 64) cs -> zsum cs = 64 ->
  exists vs, run (ns_u64ll) ns_u64ll_cut (mk_ns_u64ll n 0) cs = Some (vs, mk_ns_u64ll n 64) /\ length vs = length cs /\
             joinf (combine vs cs) = n mod 2 ^ 64.
Proof.
  intros Hn Hl Hs. apply (cut_sequence_reconstructs_gen ns_u64ll 64 mk_ns_u64ll ok_u64ll (legal 64) anypos ns_u64ll_cut); auto; try exact I; unfold legal; try lia.
  intros n0 s c Hn0 _ Hs0 Hc Hsc. apply ns_u64ll_cut_spec; auto.
Qed.

Theorem ns_u64ll_safe_cut_sequence n cs : ok_u64ll n -> Forall legal_safe cs -> 64 <= zsum cs ->
  exists vs, run (ns_u64ll) ns_u64ll_safe_cut (mk_ns_u64ll n 0) cs = Some (vs, mk_ns_u64ll n 64) /\ length vs = length cs /\
             joinf (combine vs (clip 64 0 cs)) = n mod 2 ^ 64.
Proof.
  intros Hn Hl Hs.
  destruct (safe_cut_sequence_reconstructs_gen ns_u64ll 64 mk_ns_u64ll ok_u64ll anypos ns_u64ll_safe_cut ltac:(lia) legal_safe (fun n => n))
    with (n := n) (cs := cs) as [vs [E [L J]]]; auto; try exact I; unfold legal_safe; try lia.
  - intros n0 s c Hn0 _ Hs0 Hc Hfw. apply ns_u64ll_safe_cut_spec; auto.
  - intros n0 c Hn0 _ Hc Hw. apply ns_u64ll_safe_cut_full; auto.
  - exists vs. split; [exact E|]. split; [exact L|]. destruct J as [J|J]; rewrite J; [reflexivity|]. unfold ok_u64ll in Hn. symmetry. apply Z.mod_small. lia.
Qed.

