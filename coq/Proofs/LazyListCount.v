(** * LazyListCount: the item counter of the LazyList model (as LV.Proofs.MichaelListCount for MichaelList).
    Invariant [InvD] = [InvQ] + "m_ItemCounter = [HG] of the history of the modifying operations + the counter accesses
    of the operations in progress"; the rules of LazyListQuiescent are lifted generically. *)
From Coq Require Import ZArith List String Bool Lia PeanoNat.
From LV Require Import Base.Conc Base.Events Base.Lin Spec.Specs Proofs.LinProofs.
From LV Require Proofs.MichaelListInv Proofs.MichaelListLin Proofs.MichaelListActs Proofs.MichaelListCount.
From LV Require Import Model.LazyList Proofs.LazyListBase Proofs.LazyListInv Proofs.LazyListSteps Proofs.LazyListActs
                       Proofs.LazyListDefs Proofs.LazyListProofs Proofs.LazyListLin Proofs.LazyListLinActs
                       Proofs.LazyListQuiescent.
Import ListNotations.
Local Open Scope Z_scope.

Notation sumf := MichaelListCount.sumf.
Notation updz := MichaelListCount.updz.
Notation HG := MichaelListCount.HG.
Notation gain := MichaelListCount.gain.

Record aux6 := mkAux6 { f_base : aux3; f_cnt : nat -> Z; f_ids : list nat }.
Definition lview6 := (lview3 * Z)%type.
Definition view6 (a : aux6) (t : nat) : lview6 := (view3 (f_base a) t, f_cnt a t).

Definition KD (a : aux6) (g : G) (tr : list (nat * ev)) : Prop :=
  NoDup (f_ids a) /\ (forall t, ~ In t (f_ids a) -> f_cnt a t = 0) /\
  count g = HG (upd_hist tr) + sumf (f_ids a) (f_cnt a) /\
  (forall t, snd (view3 (f_base a) t) = @Idle SetSpec -> f_cnt a t = 0).

Definition InvD (g : G) (a : aux6) (tr : list (nat * ev)) : Prop := InvQ g (f_base a) tr /\ KD a g tr.

Notation safeD := (@Conc.safe G V ev aux6 lview6 view6 InvD).

Definition mk6 (a : aux6) (t : nat) (a3' : aux3) (c' : Z) : aux6 :=
  mkAux6 a3' (updz (f_cnt a) t c') (if in_dec Nat.eq_dec t (f_ids a) then f_ids a else t :: f_ids a).

Lemma InvD_step g g' a t l c a3' tr es c' :
  InvD g a tr -> view6 a t = (l, c) ->
  InvQ g' a3' (tr ++ Conc.tag t es) -> Conc.frame view3 t (f_base a) a3' ->
  count g' - HG (upd_hist (tr ++ Conc.tag t es)) = count g - HG (upd_hist tr) + (c' - c) ->
  (snd (view3 a3' t) = @Idle SetSpec -> c' = 0) ->
  InvD g' (mk6 a t a3' c') (tr ++ Conc.tag t es) /\ Conc.frame view6 t a (mk6 a t a3' c') /\
  view6 (mk6 a t a3' c') t = (view3 a3' t, c').
Proof.
  intros [HI (Hnd & Hout & Hcnt & Hidle)] Hv HI' Hfr Hc Hi.
  assert (Ec : f_cnt a t = c) by (unfold view6 in Hv; inversion Hv; reflexivity).
  split; [|split].
  - split; [exact HI'|]. unfold KD, mk6; cbn [f_base f_cnt f_ids].
    destruct (in_dec Nat.eq_dec t (f_ids a)) as [Hin|Hin].
    + split; [exact Hnd|]. split.
      * intros u Hu. unfold MichaelListCount.updz. destruct (Nat.eqb_spec u t) as [->|]; [contradiction|apply Hout; exact Hu].
      * split; [rewrite MichaelListCount.sumf_upd_in by assumption; lia|].
        intros u Hu. unfold MichaelListCount.updz. destruct (Nat.eqb_spec u t) as [->|Hne]; [apply Hi; exact Hu|].
        apply Hidle. rewrite <- (Hfr u Hne). exact Hu.
    + split; [constructor; assumption|]. split.
      * intros u Hu. unfold MichaelListCount.updz. destruct (Nat.eqb_spec u t) as [->|]; [exfalso; apply Hu; left; reflexivity|].
        apply Hout. intros Hx. apply Hu. right. exact Hx.
      * split.
        -- cbn [MichaelListCount.sumf]. rewrite MichaelListCount.sumf_upd_notin by assumption. unfold MichaelListCount.updz. rewrite Nat.eqb_refl.
           rewrite (Hout t Hin) in Ec. lia.
        -- intros u Hu. unfold MichaelListCount.updz. destruct (Nat.eqb_spec u t) as [->|Hne]; [apply Hi; exact Hu|].
           apply Hidle. rewrite <- (Hfr u Hne). exact Hu.
  - intros u Hu. unfold view6, mk6; cbn [f_base f_cnt]. rewrite (Hfr u Hu). unfold MichaelListCount.updz. destruct (Nat.eqb_spec u t); [contradiction|reflexivity].
  - unfold view6, mk6; cbn [f_base f_cnt]. unfold MichaelListCount.updz. rewrite Nat.eqb_refl. reflexivity.
Qed.

Definition is_acc (e : ev) : Prop := match e with EvAcc _ _ _ => True | _ => False end.

Lemma upd_hist_accs tr t es : Forall is_acc es -> upd_hist (tr ++ Conc.tag t es) = upd_hist tr.
Proof.
  intros H. rewrite MichaelListInv.upd_hist_app.
  generalize (upd_hist tr). induction H as [|e es He _ IH]; intros s; cbn [Conc.tag map fold_left]; [reflexivity|].
  rewrite <- (IH s) at 2. f_equal. destruct e; [reflexivity|contradiction].
Qed.

Lemma safeD_act {R} t (f : act) (k : V -> prog R) l c dc (P : V -> lview3 -> Prop) Q :
  safeQ t (Act f (fun v => Ret v)) l P ->
  (forall g, count (fst (fst (f g))) = count g + dc /\ Forall is_acc (snd (f g))) ->
  (forall v l', P v l' -> snd l' = @Idle SetSpec -> snd l = @Idle SetSpec /\ dc = 0) ->
  (forall v l', P v l' -> safeD t (k v) (l', c + dc) Q) ->
  safeD t (Act f k) (l, c) Q.
Proof.
  intros Hstep Hf Hi Hk. cbn [Conc.safe] in *. intros g a tr HI Hv.
  assert (Hv2 : view3 (f_base a) t = l) by (unfold view6 in Hv; inversion Hv; reflexivity).
  destruct HI as [HI2 HK]. destruct (Hstep g (f_base a) tr HI2 Hv2) as (a3' & HI' & Hfr & HP).
  destruct (Hf g) as [Hcnt Hacc].
  destruct (InvD_step g _ a t l c a3' tr _ (c + dc) (conj HI2 HK) Hv HI' Hfr) as (K1 & K2 & K3).
  - rewrite (upd_hist_accs _ _ _ Hacc). lia.
  - intros Hidle. destruct (Hi _ _ HP Hidle) as [Hl ->].
    destruct HK as (_ & _ & _ & Hz). specialize (Hz t). rewrite Hv2 in Hz. specialize (Hz Hl).
    unfold view6 in Hv. inversion Hv. lia.
  - exists (mk6 a t a3' (c + dc)). split; [exact K1|]. split; [exact K2|]. rewrite K3. apply Hk. exact HP.
Qed.

Lemma safeD_emit_core {R} t es (k : prog R) l c c' (P : unit -> lview3 -> Prop) Q :
  safeQ t (Emit es (Ret tt)) l P ->
  (forall g a tr, InvQ g a tr -> view3 a t = l -> HG (upd_hist (tr ++ Conc.tag t es)) = HG (upd_hist tr) + (c - c')) ->
  (forall l', P tt l' -> snd l' = @Idle SetSpec -> (snd l = @Idle SetSpec /\ c' = c) \/ c' = 0) ->
  (forall l', P tt l' -> safeD t k (l', c') Q) ->
  safeD t (Emit es k) (l, c) Q.
Proof.
  intros Hstep Hh Hi Hk. cbn [Conc.safe] in *. intros g a tr HI Hv.
  assert (Hv2 : view3 (f_base a) t = l) by (unfold view6 in Hv; inversion Hv; reflexivity).
  destruct HI as [HI2 HK]. destruct (Hstep g (f_base a) tr HI2 Hv2) as (a3' & HI' & Hfr & HP).
  destruct (InvD_step g g a t l c a3' tr es c' (conj HI2 HK) Hv HI' Hfr) as (K1 & K2 & K3).
  - rewrite (Hh g (f_base a) tr HI2 Hv2). lia.
  - intros Hidle. destruct (Hi _ HP Hidle) as [[Hl E]|E]; [subst c'|exact E].
    destruct HK as (_ & _ & _ & Hz). specialize (Hz t). rewrite Hv2 in Hz. specialize (Hz Hl).
    unfold view6 in Hv. inversion Hv. lia.
  - exists (mk6 a t a3' c'). split; [exact K1|]. split; [exact K2|]. rewrite K3. apply Hk. exact HP.
Qed.

(** ** the rules *)
Ltac solveI := intros; cbn [fst snd] in *;
  repeat match goal with
         | H : _ /\ _ |- _ => destruct H
         | H : _ \/ _ |- _ => destruct H
         | H : exists _, _ |- _ => destruct H
         end; subst; cbn [fst snd] in *;
  try (split; [|reflexivity]); try discriminate; try congruence; auto.

Ltac cnt0 := intros g; cbn [fst snd]; split; [cbn; lia|repeat constructor].

Lemma safeD_nop {R} t kd ob (k : V -> prog R) l c Q :
  safeD t (k v0) (l, c) Q -> safeD t (Act (a_nop kd ob) k) (l, c) Q.
Proof.
  intros Hk. eapply safeD_act with (dc := 0) (P := fun v l' => v = v0 /\ l' = l).
  - apply safeQ_neutral with (v := v0); [apply neutral3_nop|]. cbn [Conc.safe]. auto.
  - unfold a_nop. cnt0.
  - solveI.
  - intros v l' [-> ->]. rewrite Z.add_0_r. exact Hk.
Qed.

Lemma safeD_begin {R} t (k : V -> prog R) l c Q :
  safeD t (k v0) (l, c) Q -> safeD t (Act a_begin k) (l, c) Q.
Proof.
  intros Hk. eapply safeD_act with (dc := 0) (P := fun v l' => v = v0 /\ l' = l).
  - apply safeQ_neutral with (v := v0); [apply neutral3_begin|]. cbn [Conc.safe]. auto.
  - unfold a_begin. cnt0.
  - solveI.
  - intros v l' [-> ->]. rewrite Z.add_0_r. exact Hk.
Qed.

Lemma safeD_cnt {R} t kd d (k : V -> prog R) lv s c Q :
  s <> @Idle SetSpec ->
  safeD t (k v0) (lv, s, c + d) Q -> safeD t (Act (a_cnt kd d) k) (lv, s, c) Q.
Proof.
  intros Hst Hk. eapply safeD_act with (dc := d) (P := fun v l' => v = v0 /\ l' = (lv, s)).
  - apply safeQ_neutral with (v := v0); [apply neutral3_cnt|]. cbn [Conc.safe]. auto.
  - intros g. unfold a_cnt. cbn [fst snd count]. split; [lia|repeat constructor].
  - intros v l' [-> ->] Hi. cbn [snd] in Hi. contradiction.
  - intros v l' [-> ->]. exact Hk.
Qed.

Lemma safeD_ld {R} t n (k : V -> prog R) lv s c Q :
  pk (lv_facts lv) n ->
  (forall v, agrees (lv_held lv) n v -> safeD t (k v) (with_facts lv (newfacts n v ++ lv_facts lv), s, c) Q) ->
  safeD t (Act (a_ld n) k) (lv, s, c) Q.
Proof.
  intros Hn Hk. eapply safeD_act with (dc := 0)
    (P := fun v l' => agrees (lv_held lv) n v /\ l' = (with_facts lv (newfacts n v ++ lv_facts lv), s)).
  - apply safeQ_ld; [exact Hn|]. intros v Hv. cbn [Conc.safe]. auto.
  - unfold a_ld. cnt0.
  - solveI.
  - intros v l' [Hv ->]. rewrite Z.add_0_r. apply Hk. exact Hv.
Qed.

Lemma safeD_ld_held {R} t n (k : V -> prog R) lv s c Q :
  holds lv n ->
  (forall v, agrees (lv_held lv) n v ->
             safeD t (k v) (mkLV (newfacts n v ++ lv_facts lv) ((n, Some (vptr v, vmark v)) :: lv_held lv) (lv_own lv) (lv_hole lv), s, c) Q) ->
  safeD t (Act (a_ld n) k) (lv, s, c) Q.
Proof.
  intros Hn Hk. eapply safeD_act with (dc := 0)
    (P := fun v l' => agrees (lv_held lv) n v /\
                      l' = (mkLV (newfacts n v ++ lv_facts lv) ((n, Some (vptr v, vmark v)) :: lv_held lv) (lv_own lv) (lv_hole lv), s)).
  - apply safeQ_ld_held; [exact Hn|]. intros v Hv. cbn [Conc.safe]. auto.
  - unfold a_ld. cnt0.
  - solveI.
  - intros v l' [Hv ->]. rewrite Z.add_0_r. apply Hk. exact Hv.
Qed.

Lemma safeD_xchg {R} t n (k : V -> prog R) lv s c Q :
  pk (lv_facts lv) n ->
  safeD t (k (vok true)) (lv, s, c) Q ->
  (~ holds lv n -> safeD t (k (vok false)) (with_held lv ((n, None) :: lv_held lv), s, c) Q) ->
  safeD t (Act (a_xchg n) k) (lv, s, c) Q.
Proof.
  intros Hn Hk1 Hk0. eapply safeD_act with (dc := 0)
    (P := fun v l' => (v = vok true /\ l' = (lv, s)) \/ (v = vok false /\ ~ holds lv n /\ l' = (with_held lv ((n, None) :: lv_held lv), s))).
  - apply safeQ_xchg; [exact Hn| |]; cbn [Conc.safe]; auto.
  - unfold a_xchg. cnt0.
  - solveI.
  - intros v l' [[-> ->]|(-> & Hh & ->)]; rewrite Z.add_0_r; auto.
Qed.

Lemma safeD_ldlock {R} t n (k : V -> prog R) l c Q :
  (forall b, safeD t (k (vok b)) (l, c) Q) -> safeD t (Act (a_ldlock n) k) (l, c) Q.
Proof.
  intros Hk. eapply safeD_act with (dc := 0) (P := fun v l' => (exists b, v = vok b) /\ l' = l).
  - apply safeQ_ldlock. intros b. cbn [Conc.safe]. eauto.
  - unfold a_ldlock. cnt0.
  - solveI.
  - intros v l' [[b ->] ->]. rewrite Z.add_0_r. apply Hk.
Qed.

Lemma safeD_unlock {R} t n (k : V -> prog R) lv s c Q :
  holds lv n -> lv_hole lv = None ->
  safeD t (k v0) (with_held lv (release (lv_held lv) n), s, c) Q ->
  safeD t (Act (a_unlock n) k) (lv, s, c) Q.
Proof.
  intros Hn Hh Hk. eapply safeD_act with (dc := 0) (P := fun v l' => v = v0 /\ l' = (with_held lv (release (lv_held lv) n), s)).
  - apply safeQ_unlock; auto. cbn [Conc.safe]. auto.
  - unfold a_unlock. cnt0.
  - solveI.
  - intros v l' [-> ->]. rewrite Z.add_0_r. exact Hk.
Qed.

Lemma safeD_alloc {R} t kk (k : V -> prog R) lv s c Q :
  (forall n, safeD t (k (mkV n false kk)) (mkLV (lv_facts lv) (lv_held lv) (Some (n, kk, 0%nat)) (lv_hole lv), s, c) Q) ->
  safeD t (Act (a_alloc kk) k) (lv, s, c) Q.
Proof.
  intros Hk. eapply safeD_act with (dc := 0)
    (P := fun v l' => exists n, v = mkV n false kk /\ l' = (mkLV (lv_facts lv) (lv_held lv) (Some (n, kk, 0%nat)) (lv_hole lv), s)).
  - apply safeQ_alloc. intros n. cbn [Conc.safe]. eauto.
  - unfold a_alloc. cnt0.
  - solveI.
  - intros v l' (n & -> & ->). rewrite Z.add_0_r. apply Hk.
Qed.

Lemma safeD_st_own {R} t n kk nx p (k : V -> prog R) lv s c Q :
  lv_own lv = Some (n, kk, nx) ->
  safeD t (k v0) (mkLV (lv_facts lv) (lv_held lv) (Some (n, kk, p)) (lv_hole lv), s, c) Q ->
  safeD t (Act (a_st n p false) k) (lv, s, c) Q.
Proof.
  intros Hown Hk. eapply safeD_act with (dc := 0) (P := fun v l' => v = v0 /\ l' = (mkLV (lv_facts lv) (lv_held lv) (Some (n, kk, p)) (lv_hole lv), s)).
  - eapply safeQ_st_own; [exact Hown|]. cbn [Conc.safe]. auto.
  - unfold a_st. cnt0.
  - solveI.
  - intros v l' [-> ->]. rewrite Z.add_0_r. exact Hk.
Qed.

Lemma safeD_st_link {R} t m n kk pc o (k : V -> prog R) lv c Q :
  In (m, Some (pc, false)) (lv_held lv) -> lv_own lv = Some (n, kk, pc) -> lv_hole lv = None ->
  klt (lv_facts lv) m kk -> kgt (lv_facts lv) pc kk -> ins_op o kk ->
  safeD t (k v0) (mkLV (FPub n kk :: lv_facts lv) (set_obs (lv_held lv) m (n, false)) None None, @Linearized SetSpec o (ins_res o), c) Q ->
  safeD t (Act (a_st m n false) k) (lv, @Pending SetSpec o, c) Q.
Proof.
  intros H1 H2 H3 H4 H5 H6 Hk. eapply safeD_act with (dc := 0)
    (P := fun v l' => v = v0 /\ l' = (mkLV (FPub n kk :: lv_facts lv) (set_obs (lv_held lv) m (n, false)) None None, @Linearized SetSpec o (ins_res o))).
  - eapply safeQ_st_link; eauto. cbn [Conc.safe]. auto.
  - unfold a_st. cnt0.
  - solveI.
  - intros v l' [-> ->]. rewrite Z.add_0_r. exact Hk.
Qed.

Lemma safeD_st_mark {R} t p cc nx kc (k : V -> prog R) lv c Q :
  In (p, Some (cc, false)) (lv_held lv) -> In (cc, Some (nx, false)) (lv_held lv) ->
  In (FPub cc kc) (lv_facts lv) -> lv_hole lv = None ->
  safeD t (k v0) (mkLV (lv_facts lv) (set_obs (lv_held lv) cc (HEAD, true)) (lv_own lv) (Some (p, cc, nx)),
                 @Linearized SetSpec (SErase kc) (RBool true), c) Q ->
  safeD t (Act (a_st cc HEAD true) k) (lv, @Pending SetSpec (SErase kc), c) Q.
Proof.
  intros H1 H2 H3 H4 Hk. eapply safeD_act with (dc := 0)
    (P := fun v l' => v = v0 /\ l' = (mkLV (lv_facts lv) (set_obs (lv_held lv) cc (HEAD, true)) (lv_own lv) (Some (p, cc, nx)),
                                      @Linearized SetSpec (SErase kc) (RBool true))).
  - eapply safeQ_st_mark; eauto. cbn [Conc.safe]. auto.
  - unfold a_st. cnt0.
  - solveI.
  - intros v l' [-> ->]. rewrite Z.add_0_r. exact Hk.
Qed.

Lemma safeD_st_bypass {R} t p cc nx (k : V -> prog R) lv s c Q :
  lv_hole lv = Some (p, cc, nx) ->
  safeD t (k v0) (mkLV (lv_facts lv) (set_obs (lv_held lv) p (nx, false)) (lv_own lv) None, s, c) Q ->
  safeD t (Act (a_st p nx false) k) (lv, s, c) Q.
Proof.
  intros Hh Hk. eapply safeD_act with (dc := 0)
    (P := fun v l' => v = v0 /\ l' = (mkLV (lv_facts lv) (set_obs (lv_held lv) p (nx, false)) (lv_own lv) None, s)).
  - eapply safeQ_st_bypass; [exact Hh|]. cbn [Conc.safe]. auto.
  - unfold a_st. cnt0.
  - solveI.
  - intros v l' [-> ->]. rewrite Z.add_0_r. exact Hk.
Qed.

(** ** client events *)
Lemma safeD_emit_other {R} t name args (k : prog R) lv s c Q :
  String.eqb name "inv" = false -> String.eqb name "ret" = false ->
  safeD t k (lv, s, c) Q -> safeD t (Emit [EvCli name args] k) (lv, s, c) Q.
Proof.
  intros N1 N2 Hk. eapply safeD_emit_core with (c' := c) (P := fun _ l' => l' = (lv, s)).
  - apply safeQ_emit_other; auto. cbn [Conc.safe]. reflexivity.
  - intros g a tr _ _. rewrite MichaelListInv.upd_hist_app. cbn [Conc.tag map fold_left MichaelListInv.hstep]. rewrite N1, N2. lia.
  - intros l' -> Hi. left. auto.
  - intros l' ->. exact Hk.
Qed.

Lemma safeD_emit_inv {R} t cc kk x v (k : prog R) lv c Q :
  safeD t k (lv, @Pending SetSpec (spec_op cc kk x), c) Q ->
  safeD t (Emit [EvCli "inv" [cc; kk; x; v]] k) (lv, @Idle SetSpec, c) Q.
Proof.
  intros Hk. eapply safeD_emit_core with (c' := c) (P := fun _ l' => l' = (lv, @Pending SetSpec (spec_op cc kk x))).
  - apply safeQ_emit_inv. cbn [Conc.safe]. reflexivity.
  - intros g a tr _ _. rewrite MichaelListInv.upd_hist_app.
    cbn [Conc.tag map fold_left MichaelListInv.hstep String.eqb Ascii.eqb Bool.eqb]. rewrite MichaelListCount.HG_snoc. lia.
  - intros l' -> Hx. cbn in Hx. discriminate.
  - intros l' ->. exact Hk.
Qed.

Lemma erase_no_tid t (B : list (aev SetSpec)) : MichaelListInv.no_inv_res t B -> forall e, In e (erase B) -> MichaelListCount.hev_tid e <> t.
Proof.
  induction B as [|[u o'|u|u r0] B IH]; intros HB e He; cbn [erase] in He.
  - destruct He.
  - destruct He as [<-|He]; [cbn; apply (HB _ (or_introl eq_refl))|apply IH; auto; intros x Hx; apply HB; right; exact Hx].
  - apply IH; auto. intros x Hx. apply HB. right; exact Hx.
  - destruct He as [<-|He]; [cbn; apply (HB _ (or_introl eq_refl))|apply IH; auto; intros x Hx; apply HB; right; exact Hx].
Qed.

(** the history of thread [t]'s open operation *)
Lemma upd_hist_open g a tr t lv s o :
  InvQ g a tr -> view3 a t = (lv, s) -> MichaelListInv.open_op s = Some o ->
  exists A B, upd_hist tr = erase A ++ @HInv SetSpec t o :: erase B /\
    (forall e, In e (erase B) -> MichaelListCount.hev_tid e <> t) /\
    MichaelListInv.last_inv_op t (upd_hist tr) None = Some o /\
    MichaelListInv.rm_last (MichaelListInv.is_hinv t) (upd_hist tr) = erase A ++ erase B.
Proof.
  intros ((L & HS & [(S & st0 & H1 & H2 & H3) H4]) & _) Hv Ho.
  destruct (view3_split _ _ _ _ Hv) as [Hv1 Hv2].
  assert (Hst : MichaelListInv.open_op (st0 t) = Some o) by (rewrite H2, Hv2; exact Ho).
  destruct (MichaelListLin.lp_open_split _ _ _ t o H1 Hst) as (A & B & EA & HB & _).
  destruct (MichaelListInv.erase_split_last t o A B HB) as [K1 K2]. rewrite <- EA, H4 in K1, K2.
  exists A, B. split; [rewrite <- H4, EA, erase_app; reflexivity|].
  split; [apply erase_no_tid; exact HB|]. split; [exact K1|]. rewrite K2, erase_app. reflexivity.
Qed.

Lemma safeD_emit_ret_lin {R} t o r a1 b1 (k : prog R) lv c Q :
  lv_hole lv = None ->
  res_of o a1 b1 = r -> is_read o r = false -> c = gain o r ->
  safeD t k (lv, @Idle SetSpec, 0) Q ->
  safeD t (Emit [EvCli "ret" [a1; b1]] k) (lv, @Linearized SetSpec o r, c) Q.
Proof.
  intros Hh Hr Hrd Hg Hk. eapply safeD_emit_core with (c' := 0) (P := fun _ l' => l' = (lv, @Idle SetSpec)).
  - eapply safeQ_emit_ret_lin; eauto. cbn [Conc.safe]. reflexivity.
  - intros g a tr HI Hv.
    destruct (upd_hist_open g a tr t lv _ o HI Hv eq_refl) as (A & B & E1 & E2 & E3 & E4).
    rewrite MichaelListInv.upd_hist_app. cbn [Conc.tag map fold_left MichaelListInv.hstep String.eqb Ascii.eqb Bool.eqb].
    rewrite E3. cbv zeta. rewrite Hr, Hrd, MichaelListCount.HG_snoc, E3. lia.
  - intros l' -> _. right. reflexivity.
  - intros l' ->. exact Hk.
Qed.

Lemma safeD_emit_ret_read {R} t o a1 b1 (k : prog R) lv Q :
  lv_hole lv = None ->
  is_read o (res_of o a1 b1) = true ->
  safeD t k (lv, @Idle SetSpec, 0) Q ->
  safeD t (Emit [EvCli "ret" [a1; b1]] k) (lv, @Pending SetSpec o, 0) Q.
Proof.
  intros Hh Hrd Hk. eapply safeD_emit_core with (c' := 0) (P := fun _ l' => l' = (lv, @Idle SetSpec)).
  - eapply safeQ_emit_ret_read; eauto. cbn [Conc.safe]. reflexivity.
  - intros g a tr HI Hv.
    destruct (upd_hist_open g a tr t lv _ o HI Hv eq_refl) as (A & B & E1 & E2 & E3 & E4).
    rewrite MichaelListInv.upd_hist_app. cbn [Conc.tag map fold_left MichaelListInv.hstep String.eqb Ascii.eqb Bool.eqb].
    rewrite E3. cbv zeta. rewrite Hrd, E4, E1, MichaelListCount.HG_remove_inv by exact E2. lia.
  - intros l' -> _. right. reflexivity.
  - intros l' ->. exact Hk.
Qed.
