(** * DhpLiveGcRule: a second invariant on top of an established one, for [dprog] programs (the rule of
      LV.Proofs.HpLiveCopyRule lifted to LV.Model.DhpLang).  [rdsafe]: every node of the program keeps [Inv2], where
      the node may assume that [Inv1] holds (for some hidden auxiliary state) before and after it.  [dsafe_pair] turns a
      [dsafe] proof of the first invariant and an [rdsafe] proof of the second into a [dsafe] proof of both. *)
From Coq Require Import List Arith Lia.
From LV Require Import Base.Conc Model.DhpLang Proofs.DhpLangProofs.
Import ListNotations.

Set Implicit Arguments.

Section Rel.
  Context {G E : Type}.
  Variables (Aux1 L1 : Type) (view1 : Aux1 -> nat -> L1) (Inv1 : G -> Aux1 -> list (nat * E) -> Prop).
  Variables (Aux2 L2 : Type) (view2 : Aux2 -> nat -> L2) (Inv2 : G -> Aux2 -> list (nat * E) -> Prop).

  Definition I1 (g : G) (tr : list (nat * E)) : Prop := exists a1, Inv1 g a1 tr.

  Fixpoint rdsafe {R} (t : nat) (p : @dprog G E R) (l : L2) (Q : R -> L2 -> Prop) : Prop :=
    match p with
    | DRet r => Q r l
    | DEmit es k =>
        forall g a tr, Inv2 g a tr -> view2 a t = l -> I1 g tr -> I1 g (tr ++ Conc.tag t es) ->
          exists a', Inv2 g a' (tr ++ Conc.tag t es) /\ Conc.frame view2 t a a' /\ rdsafe t k (view2 a' t) Q
    | DLoc f k =>
        forall g a tr, Inv2 g a tr -> view2 a t = l -> I1 g tr -> I1 (fst (f g)) tr ->
          exists a', Inv2 (fst (f g)) a' tr /\ Conc.frame view2 t a a' /\ rdsafe t (k (snd (f g))) (view2 a' t) Q
    | DAct f k =>
        forall g a tr, Inv2 g a tr -> view2 a t = l -> I1 g tr -> I1 (fst (fst (f g))) (tr ++ Conc.tag t (snd (f g))) ->
          exists a', Inv2 (fst (fst (f g))) a' (tr ++ Conc.tag t (snd (f g))) /\ Conc.frame view2 t a a' /\
                     rdsafe t (k (snd (fst (f g)))) (view2 a' t) Q
    end.

  Lemma rdsafe_bind {A B} t (p : @dprog G E A) (q : A -> @dprog G E B) Q : forall l,
    rdsafe t p l (fun r l' => rdsafe t (q r) l' Q) -> rdsafe t (dbind p q) l Q.
  Proof.
    induction p as [r|es k IH|X f k IH|X f k IH]; intros l H; cbn [dbind rdsafe] in *.
    - exact H.
    - intros g a tr Hi Hv Hb Ha. destruct (H g a tr Hi Hv Hb Ha) as (a' & H1 & H2 & H3). exists a'. repeat split; auto.
    - intros g a tr Hi Hv Hb Ha. destruct (H g a tr Hi Hv Hb Ha) as (a' & H1 & H2 & H3). exists a'. repeat split; auto.
    - intros g a tr Hi Hv Hb Ha. destruct (H g a tr Hi Hv Hb Ha) as (a' & H1 & H2 & H3). exists a'. repeat split; auto.
  Qed.

  Lemma rdsafe_weaken {R} t (p : @dprog G E R) (Q Q' : R -> L2 -> Prop) :
    (forall r l, Q r l -> Q' r l) -> forall l, rdsafe t p l Q -> rdsafe t p l Q'.
  Proof.
    intros HQ. induction p as [r|es k IH|X f k IH|X f k IH]; intros l H; cbn [rdsafe] in *.
    - auto.
    - intros g a tr Hi Hv Hb Ha. destruct (H g a tr Hi Hv Hb Ha) as (a' & H1 & H2 & H3). exists a'; auto.
    - intros g a tr Hi Hv Hb Ha. destruct (H g a tr Hi Hv Hb Ha) as (a' & H1 & H2 & H3). exists a'; auto.
    - intros g a tr Hi Hv Hb Ha. destruct (H g a tr Hi Hv Hb Ha) as (a' & H1 & H2 & H3). exists a'; auto.
  Qed.

  Definition view12 (a : Aux1 * Aux2) (t : nat) : L1 * L2 := (view1 (fst a) t, view2 (snd a) t).
  Definition Inv12 (g : G) (a : Aux1 * Aux2) (tr : list (nat * E)) : Prop := Inv1 g (fst a) tr /\ Inv2 g (snd a) tr.

  Lemma dsafe_pair {R} t (p : @dprog G E R) (Q1 : R -> L1 -> Prop) (Q2 : R -> L2 -> Prop) : forall l1 l2,
    dsafe view1 Inv1 t p l1 Q1 -> rdsafe t p l2 Q2 ->
    dsafe view12 Inv12 t p (l1, l2) (fun r l => Q1 r (fst l) /\ Q2 r (snd l)).
  Proof.
    induction p as [r|es k IH|X f k IH|X f k IH]; intros l1 l2 H1 H2; cbn [dsafe rdsafe] in *.
    - split; assumption.
    - intros g [a1 a2] tr [Hi1 Hi2] Hv. unfold view12 in Hv. cbn [fst snd] in *. inversion Hv as [[Hv1 Hv2]].
      destruct (H1 g a1 tr Hi1 Hv1) as (a1' & K1 & K2 & K3).
      destruct (H2 g a2 tr Hi2 Hv2 (ex_intro _ a1 Hi1) (ex_intro _ a1' K1)) as (a2' & M1 & M2 & M3).
      exists (a1', a2'). split; [split; assumption|]. split.
      + intros t' Ht. unfold view12; cbn [fst snd]. now rewrite (K2 t' Ht), (M2 t' Ht).
      + unfold view12 at 1; cbn [fst snd]. apply IH; assumption.
    - intros g [a1 a2] tr [Hi1 Hi2] Hv. unfold view12 in Hv. cbn [fst snd] in *. inversion Hv as [[Hv1 Hv2]].
      destruct (H1 g a1 tr Hi1 Hv1) as (a1' & K1 & K2 & K3).
      destruct (H2 g a2 tr Hi2 Hv2 (ex_intro _ a1 Hi1) (ex_intro _ a1' K1)) as (a2' & M1 & M2 & M3).
      exists (a1', a2'). split; [split; assumption|]. split.
      + intros t' Ht. unfold view12; cbn [fst snd]. now rewrite (K2 t' Ht), (M2 t' Ht).
      + unfold view12 at 1; cbn [fst snd]. apply IH; assumption.
    - intros g [a1 a2] tr [Hi1 Hi2] Hv. unfold view12 in Hv. cbn [fst snd] in *. inversion Hv as [[Hv1 Hv2]].
      destruct (H1 g a1 tr Hi1 Hv1) as (a1' & K1 & K2 & K3).
      destruct (H2 g a2 tr Hi2 Hv2 (ex_intro _ a1 Hi1) (ex_intro _ a1' K1)) as (a2' & M1 & M2 & M3).
      exists (a1', a2'). split; [split; assumption|]. split.
      + intros t' Ht. unfold view12; cbn [fst snd]. now rewrite (K2 t' Ht), (M2 t' Ht).
      + unfold view12 at 1; cbn [fst snd]. apply IH; assumption.
  Qed.
End Rel.
