(** * SkipListFullThm: the operations insert / erase / contains, the initial state, and the theorem: for EVERY schedule
      the FULL client history of the skip list model (return values of contains, insert -> false, erase -> false included)
      is linearizable w.r.t. the sequential set. *)
From Coq Require Import ZArith List String Bool Lia PeanoNat.
From LV Require Import Base.Conc Base.Events Base.Lin Spec.Specs Proofs.LinProofs.
From LV Require Import Model.SkipList Proofs.SkipListProofs Proofs.SkipListLin Proofs.SkipListFullInv Proofs.SkipListFullActs
                       Proofs.SkipListFullActs2 Proofs.SkipListFullMono Proofs.SkipListFullFind Proofs.SkipListFullProofs.
From LV Require Proofs.MichaelListInv Proofs.MichaelListLin Proofs.MichaelListFullInv.
Import ListNotations.
Local Open Scope Z_scope.

Section WithNodes.
Variable nodes : cfg0.
Local Notation SAFEm := (SAFEm nodes).
Local Notation SAFE := (SAFE nodes).
Local Notation between := (between nodes).

Ltac nxl := intros g0; cbn; repeat split; eauto.
Ltac snx := apply Sm_nx; [nxl|intros ?].

Lemma T_op_contains {R} t fuel s k (cont : TL -> prog R) lv :
  tlk t (vser (fst lv)) s -> vst (fst lv) = @Pending SetSpec (SContains (Z.of_nat k)) -> xwatch (snd lv) = None -> between t cont ->
  SAFEm t (op_contains fuel s k cont) lv.
Proof.
  intros Ht Hst Hw Hc. unfold op_contains. destruct (allocn 2 s) as [gs s1] eqn:Ea.
  pose proof (tlk_allocn _ _ _ _ _ _ Ea Ht) as Ht1. set (key := Z.of_nat k) in *. set (sn := vser (fst lv)) in *.
  assert (Hop : MF.open_read (vst (fst lv)) (SContains key)) by (rewrite Hst; now left).
  assert (Hfin : forall s2 (b : bool) d lv1, tlk t sn s2 -> kle lv lv1 -> seen key b d lv1 ->
            SAFEm t (finish s2 (if b then 1 else 0) 0 cont) lv1).
  { intros s2 b d lv1 Hs V Hsn. destruct (seen_use _ _ _ _ _ Hsn (kle_open _ _ _ V Hop) eq_refl) as [E1 E2].
    apply (T_finish nodes t sn) with (o := SContains key); auto; [apply (kle_ser _ _ V)|]. rewrite E1. destruct b; reflexivity. }
  apply (T_find_fastpath nodes t key).
  - intros o lv1 V No Hp. apply (Sm_free_all_tlk nodes t sn); [exact Ht1|]. intros s2 Hs2. destruct o; cbn [ffpost2] in Hp.
    + destruct Hp as (d & Hp). now apply (Hfin s2 true d).
    + now apply (Hfin s2 false null).
    + destruct (allocn _ s2) as [slots s3] eqn:Ea3. pose proof (tlk_allocn _ _ _ _ _ _ Ea3 Hs2) as Ht3.
      apply (T_find_position nodes t sn); auto.
      * intros s4 o' lv2 Hs4 V2 [_ Hnn] _ Hsp. apply (Sm_free_all_tlk nodes t sn); [exact Hs4|]. intros s5 Hs5.
        assert (V02 : kle lv lv2) by (eapply kle_trans; eauto).
        destruct o' as [ps|ps|]; cbn [stpost] in Hsp; [| |contradiction].
        -- specialize (Hnn eq_refl). destruct (Nat.eqb_spec (pcur ps) null) as [X|_]; [contradiction|]. now apply (Hfin s5 true (pcur ps)).
        -- now apply (Hfin s5 false null).
      * intros lv2 V2. apply (Sm_free_all_tlk nodes t sn); [exact Ht3|]. intros s5 Hs5.
        eapply T_out_of_fuel; eauto. rewrite (kle_ser _ _ V2). apply (kle_ser _ _ V).
    + contradiction.
  - intros lv1 V. apply (Sm_free_all_tlk nodes t sn); [exact Ht1|]. intros s2 Hs2. eapply T_out_of_fuel; eauto. apply (kle_ser _ _ V).
Qed.

Lemma T_op_erase {R} t fuel s k (cont : TL -> prog R) lv :
  tlk t (vser (fst lv)) s -> vst (fst lv) = @Pending SetSpec (SErase (Z.of_nat k)) -> xwatch (snd lv) = None -> between t cont ->
  SAFEm t (op_erase fuel s k cont) lv.
Proof.
  intros Ht Hst Hw Hc. unfold op_erase. destruct (allocn _ s) as [slots s1] eqn:Ea.
  pose proof (tlk_allocn _ _ _ _ _ _ Ea Ht) as Ht1. set (sn := vser (fst lv)) in *. set (key := Z.of_nat k) in *.
  assert (Hop : MF.open_read (vst (fst lv)) (SErase key)) by (rewrite Hst; now left).
  assert (Hf : kfpost nodes t sn (g_free_all s1 slots (fun s' => out_of_fuel s' cont))).
  { intros lv1 E. apply (Sm_free_all_tlk nodes t sn); [exact Ht1|]. intros s' Hs'. eapply T_out_of_fuel; eauto. }
  apply (T_find_position nodes t sn); auto.
  - intros s2 o lv1 Hs2 V [Ho Hn] Hkn Hsp. pose proof (kle_open _ _ _ V Hop) as Hop1.
    assert (Hser1 : vser (fst lv1) = sn) by apply (kle_ser _ _ V).
    assert (Hfin0 : seen key false null lv1 -> SAFEm t (g_free_all s2 slots (fun s' => finish s' 0 0 cont)) lv1).
    { intros Hsn. destruct (seen_use _ _ _ _ _ Hsn Hop1 eq_refl) as [E1 E2].
      apply (Sm_free_all_tlk nodes t sn); [exact Hs2|]. intros s' Hs'. apply (T_finish nodes t sn) with (o := SErase key); auto. }
    destruct o as [ps|ps|]; cbn [stpost] in Hsp; [|now apply Hfin0|contradiction].
    specialize (Hn eq_refl). destruct (Nat.eqb_spec (pcur ps) null) as [X|_]; [contradiction|].
    destruct (seen_use _ _ _ _ _ Hsp Hop1 eq_refl) as [E1 E2]. cbn [wat] in E2.
    cbn [fp_post okn] in *. destruct Ho as [(X & _)|(Hp & Hcur)]; [discriminate|].
    destruct Hkn as (Kc & Hq). apply (posk_full false) in Hq; [|reflexivity].
    pose proof (fp_rem_pre _ _ Hp Hcur Hn) as Hrem.
    assert (Ekey : key_of (pcur ps) = key) by (destruct Hcur as [E|(_ & E)]; [congruence|exact E]).
    assert (Kd : In (pcur ps) (vkn (fst lv1))) by (destruct Kc as [E|Kc]; [congruence|exact Kc]).
    destruct (alloc1 s2) as [gdel s3] eqn:Ea3. pose proof (tlk_alloc1 _ _ _ _ _ Ea3 Hs2) as Ht3.
    replace (tid s3) with t by (symmetry; apply Ht3).
    apply Sm_guard_h; [exact Kd|]. intros h lv2 Hh V2 Hhe. snx. cbn [vz]. rewrite Nat2Z.id.
    apply (T_try_remove_at nodes t sn); auto.
    + rewrite (kle_ser _ _ (vle2_kle _ _ V2)). exact Hser1.
    + eapply posk_kle; [apply V2|exact Hq].
    + eapply kn_kle; [apply V2|exact Kd].
    + rewrite (vle2_st _ _ V2), Ekey, E1. apply ostat_open.
    + rewrite (vle2_w _ _ V2). exact E2.
    + rewrite Ekey. intros s4 lv3 Hs4 Hser3 Hst3 Hw3. apply Sm_clear. apply (Sm_free_all_tlk nodes t sn); [now apply tlk_free1|]. intros s' Hs'.
      apply (T_finish nodes t sn) with (o := SErase key); auto.
    + rewrite Ekey. intros s4 lv3 Hs4 Hser3 Hst3 Hw3. snx. apply Sm_clear. apply (Sm_free_all_tlk nodes t sn); [now apply tlk_free1|]. intros s' Hs'.
      apply (T_finish nodes t sn) with (o := SErase key); auto.
  - intros lv1 V. apply Hf. apply (kle_ser _ _ V).
Qed.

Lemma T_op_insert {R} t fuel s k h (cont : TL -> prog R) lv :
  (t < 64)%nat -> (k < 8)%nat -> (1 <= h <= MAXH)%nat ->
  tlk t (vser (fst lv)) s -> vst (fst lv) = @Pending SetSpec (SInsert (Z.of_nat k)) -> xwatch (snd lv) = None -> between t cont ->
  SAFEm t (op_insert fuel s k h cont) lv.
Proof.
  intros Hlt Hk Hh Ht Hst Hw Hc. unfold op_insert. destruct Ht as [Ht1 Ht2]. rewrite Ht1, Ht2.
  apply Sm_alloc; auto. intros _ w. set (new := node_id t (vser (fst lv)) k). set (sn := S (vser (fst lv))).
  assert (Ht0 : tlk t sn (mkTL t (fl s) sn)) by (split; reflexivity).
  destruct (alloc1 _) as [gnew s1] eqn:Ea1. pose proof (tlk_alloc1 _ _ _ _ _ Ea1 Ht0) as Hs1.
  apply Sm_assign. destruct (allocn _ s1) as [slots s2] eqn:Ea2. pose proof (tlk_allocn _ _ _ _ _ _ Ea2 Hs1) as Hs2.
  apply (T_insert_loop nodes t sn) with (v := w); auto.
  - split; [apply mk_node_isnode|unfold node_id; now apply mk_node_key].
  - cbn. rewrite Hst. now left.
  - intros s' lv1 Hs' Hser1 Hst1 Hw1. apply (Sm_free_all_tlk nodes t sn); [exact Hs'|]. intros s'' Hs''. apply Sm_clear.
    apply (T_finish nodes t sn) with (o := SInsert (Z.of_nat k)); auto; try (now apply tlk_free1).
  - intros s' lv1 Hs' Hser1 Hst1 Hw1. apply (Sm_free_all_tlk nodes t sn); [exact Hs'|]. intros s'' Hs''. apply Sm_clear.
    apply (T_finish nodes t sn) with (o := SInsert (Z.of_nat k)); auto; try (now apply tlk_free1).
  - intros lv1 Hser1. apply (Sm_free_all_tlk nodes t sn); [exact Hs2|]. intros s'' Hs''. apply Sm_clear.
    eapply T_out_of_fuel; eauto; try (now apply tlk_free1).
Qed.

Lemma T_run_ops t fuel : (t < 64)%nat -> forall os, Forall op_ok' os -> between t (fun s => run_ops fuel s os).
Proof.
  intros Hlt. induction os as [|o r IH]; intros Hok s lv Ht Hst Hw; cbn [run_ops]; [apply Sm_ret|].
  inversion Hok as [|? ? Ho Hr]; subst. specialize (IH Hr). unfold run_op. destruct o as [k h| k | k | |]; cbn [op_ok'] in Ho; try contradiction.
  - apply Sm_emit_inv; [reflexivity|exact Hst|exact Hw|]. destruct Ho. apply T_op_insert; auto.
  - apply Sm_emit_inv; [reflexivity|exact Hst|exact Hw|]. apply T_op_erase; auto.
  - apply Sm_emit_inv; [reflexivity|exact Hst|exact Hw|]. apply T_op_contains; auto.
Qed.

Lemma T_thread t fuel os lv :
  (t < 64)%nat -> Forall op_ok' os -> vser (fst lv) = 0%nat -> vst (fst lv) = @Idle SetSpec -> xwatch (snd lv) = None ->
  SAFE t (thread_prog fuel t os) lv.
Proof.
  intros Hlt Hok Hser Hst Hw. assert (H : SAFEm t (thread_prog fuel t os) lv); [|apply H, vle2_refl].
  unfold thread_prog. snx. apply (T_run_ops t fuel Hlt os Hok); [rewrite Hser; split; reflexivity|exact Hst|exact Hw].
Qed.

(** ** the initial state *)
Local Notation ns := (c_nodes nodes).
Definition x0 : ext := mkX None [] [] [] None.
Definition aux20 : aux2 := mkAux2 (aux0 ns) (fun _ => x0) [].

Lemma next_at_spec l : forall r, next_at l r = null \/ exists k h, In (k, h) r /\ next_at l r = pre_node k /\ (l < h)%nat.
Proof.
  induction r as [|[k h] r IH]; cbn [next_at]; [now left|].
  destruct (Nat.ltb_spec l h); [right; exists k, h; split; [now left|auto]|].
  destruct IH as [IH|(k' & h' & Hin & E & Hl)]; [now left|right]. exists k', h'. split; [now right|auto].
Qed.

Lemma link_all_hgt : forall l, nodes_ok l -> forall k h, In (k, h) l -> hgt_of (link_all l g_empty) (pre_node k) = h.
Proof.
  induction l as [|[k0 h0] r IH]; intros Hok k h Hin; [destruct Hin|]. destruct Hok as (Hk & Hh & Hlt & Hr).
  cbn [link_all hgt_of]. unfold upd1. destruct Hin as [E|Hin].
  - inversion E; subst. now rewrite Nat.eqb_refl.
  - destruct (Nat.eqb_spec (pre_node k) (pre_node k0)) as [E|_]; [|now apply IH].
    apply pre_node_inj in E. rewrite Forall_forall in Hlt. specialize (Hlt _ Hin). cbn [fst] in Hlt. lia.
Qed.

Lemma link_all_misc : forall l, nodes_ok l ->
  hgt (link_all l g_empty) = 5 /\ (forall p, (1 <= hgt_of (link_all l g_empty) p)%nat).
Proof.
  induction l as [|[k0 h0] r IH]; intros Hok; [split; [reflexivity|intros p; cbn; lia]|]. destruct Hok as (Hk & Hh & Hlt & Hr).
  destruct (IH Hr) as [I1 I2]. cbn [link_all hgt hgt_of]. split; [exact I1|]. intros p. unfold upd1. destruct (Nat.eqb p (pre_node k0)); [lia|apply I2].
Qed.

Lemma link_all_h1 : forall l0, nodes_ok l0 -> forall p l,
  fst (nxt (link_all l0 g_empty) p l) = null \/ (l < hgt_of (link_all l0 g_empty) (fst (nxt (link_all l0 g_empty) p l)))%nat.
Proof.
  induction l0 as [|[k0 h0] r IH]; intros Hok p l; [now left|]. pose proof Hok as (Hk & Hh & Hlt & Hr).
  destruct (link_all_cell ((k0, h0) :: r) p l) as [_ [E|(k' & h' & Hin & E)]]; [now left|right].
  rewrite E, (link_all_hgt _ Hok _ _ Hin).
  revert E. cbn [link_all nxt]. destruct (Nat.eqb_spec p (pre_node k0)) as [->|Np].
  - destruct (Nat.ltb_spec l h0); cbn [fst]; [|intros X; exfalso; revert X; unfold pre_node, node_id, mk_node, null; lia].
    destruct (next_at_spec l r) as [X|(k2 & h2 & Hin2 & X & Hl2)]; [rewrite X; unfold pre_node, node_id, mk_node, null; lia|].
    rewrite X. intros Y. apply pre_node_inj in Y. subst k2.
    assert (h2 = h'); [|subst; exact Hl2].
    rewrite <- (link_all_hgt _ Hok k' h2 (or_intror Hin2)). now apply link_all_hgt.
  - intros E. destruct (IH Hr p l) as [X|X]; [rewrite X in E; revert E; unfold pre_node, node_id, mk_node, null; lia|].
    rewrite E in X. destruct Hin as [Y|Hin].
    + inversion Y; subst k' h'.
      destruct (link_all_cell r p l) as [_ [Z|(k2 & h2 & Hin2 & Z)]]; [rewrite Z in E; revert E; unfold pre_node, node_id, mk_node, null; lia|].
      rewrite Z in E. apply pre_node_inj in E. subst k2. rewrite Forall_forall in Hlt. specialize (Hlt _ Hin2). cbn [fst] in Hlt. lia.
    + now rewrite (link_all_hgt _ Hr _ _ Hin) in X.
Qed.

Lemma init_EX : nodes_ok ns -> EX (init ns) aux20.
Proof.
  intros Hok. destruct (link_all_misc ns Hok) as [M1 M2]. constructor; cbn [b_base b_x b_wl aux20].
  - intros p l. unfold init. cbn [nxt hgt_of]. destruct (Nat.eqb p head).
    + cbn [fst]. destruct (next_at_spec l ns) as [X|(k & h & Hin & X & Hl)]; [now left|right]. rewrite X, (link_all_hgt _ Hok _ _ Hin). exact Hl.
    + apply link_all_h1. exact Hok.
  - intros n l _ Hm. destruct (init_cell ns n 0%nat) as [X _]. congruence.
  - unfold init. cbn [hgt]. rewrite M1. lia.
  - intros p. unfold init. cbn [hgt_of]. apply M2.
  - intros t. split; [intros d X; discriminate|]. split; [constructor|]. split; [constructor|]. split; [constructor|]. intros n h X. discriminate.
  - intros t X. now contradiction X.
Qed.

Lemma init_IL2 : nodes_ok ns -> IL2 nodes (init ns) aux20 [].
Proof.
  intros Hok. destruct (init_IL ns Hok) as [(S & st & H1 & H2 & H3) _]. constructor; cbn [b_base aux20].
  - exists S, st. split; [exact H1|]. split; [|exact H3]. intros t. rewrite H2. reflexivity.
  - cbn [history_h]. rewrite app_nil_r. apply prefill_erase.
  - intros t. reflexivity.
  - intros _ t xy [].
Qed.

Lemma init_cfg_ok2 fuel ths :
  nodes_ok ns -> Forall (Forall op_ok') ths -> (List.length ths <= 63)%nat ->
  @Conc.cfg_ok G V ev aux2 lview2 view2 (Inv2 nodes) (init_cfg fuel ns ths).
Proof.
  intros Hn Ho Hlen. exists aux20. split; [split; [now apply init_IS|split; [now apply init_EX|left; now apply init_IL2]]|].
  intros t p Hp. unfold init_cfg in Hp. cbn [Conc.threads] in Hp. rewrite nth_error_map in Hp.
  destruct (nth_error (combine (seq 0 (List.length ths)) ths) t) as [[t' os]|] eqn:E; [|discriminate].
  injection Hp as <-. cbn [fst snd]. apply nth_error_combine in E. destruct E as [E1 E2].
  apply nth_error_seq0 in E1. destruct E1 as [-> Hlt].
  apply T_thread; [lia| | |reflexivity|reflexivity].
  - apply nth_error_In in E2. rewrite Forall_forall in Ho. now apply Ho.
  - unfold view2, view. cbn [fst b_base aux20 aviews aux0 views0 vser]. destruct (Nat.eqb_spec t 63); [lia|reflexivity].
Qed.

End WithNodes.

(** the hint of a thread only matters for its open extract invocations *)
Lemma history_h_irrel tg tg' : forall tr pend,
  (forall t xy, In xy (pinv t tr) ->
     enc_op (fst xy) (snd xy) (fst (tg t)) (snd (tg t)) = enc_op (fst xy) (snd xy) (fst (tg' t)) (snd (tg' t))) ->
  history_h tg pend tr = history_h tg' pend tr.
Proof.
  induction tr as [|[u v] r IH]; intros pend H; [reflexivity|].
  assert (Hr : forall t xy, In xy (pinv t r) ->
     enc_op (fst xy) (snd xy) (fst (tg t)) (snd (tg t)) = enc_op (fst xy) (snd xy) (fst (tg' t)) (snd (tg' t))).
  { intros t xy Hin. apply H. now apply (pinv_cons_incl t (u, v) r). }
  destruct v as [k o ok|name args]; [now apply IH|]. destruct args as [|x [|y [|z w]]]; try (now apply IH).
  cbn [history_h]. destruct (String.eqb name "inv") eqn:En; [|destruct (String.eqb name "res"); now rewrite IH].
  rewrite IH by exact Hr. f_equal. f_equal. destruct (first_res u r) eqn:Ef; [reflexivity|].
  apply (H u (x, y)). cbn [pinv]. rewrite En, Nat.eqb_refl, Ef. now left.
Qed.

Lemma full_history_of_IL2 nodes g a tr :
  IL2 nodes g a tr -> (forall t xy, In xy (pinv t tr) -> cok (fst xy) = true) ->
  erase (aatr (b_base a)) = client_history (c_nodes nodes) tr.
Proof.
  intros [_ H4 _ _] Hc. rewrite H4. unfold client_history. f_equal. rewrite <- history_h_of. apply history_h_irrel.
  intros t xy Hin. now rewrite !(enc_op_cok _ _ _ _ (Hc t xy Hin)).
Qed.

(** ** the theorem: for EVERY schedule, the full client history (every invocation and every response of insert / erase /
    contains, with the value returned) is linearizable w.r.t. the sequential set *)
Theorem skip_full_history_linearizable fuel nodes ths c :
  nodes_ok nodes -> Forall (Forall op_ok') ths -> (List.length ths <= 63)%nat ->
  Conc.reach (init_cfg fuel nodes ths) c -> ~ exhausted (Conc.trace c) ->
  linearizable SetSpec (client_history nodes (Conc.trace c)).
Proof.
  intros Hn Ho Hlen Hr Hne.
  destruct (Conc.reach_Inv (init_cfg_ok2 (mkCfg0 nodes true) fuel ths Hn Ho Hlen) Hr) as (a & Hs & He & [Hil|Hx]); [|contradiction].
  pose proof (full_history_of_IL2 _ _ _ _ Hil (l2_noex _ _ _ _ Hil eq_refl)) as H4. cbn [c_nodes] in H4. rewrite <- H4.
  destruct Hil as [(S & st & H1 & _) _ _ _]. apply lp_valid_linearizable. exists (S, st). exact H1.
Qed.

(** the abstraction: at every reachable state there is a valid LP-annotated trace whose erasure is the full client history
    and whose abstract set is the set of keys of the unmarked nodes of the level-0 chain *)
Theorem skip_full_abstraction fuel nodes ths c :
  nodes_ok nodes -> Forall (Forall op_ok') ths -> (List.length ths <= 63)%nat ->
  Conc.reach (init_cfg fuel nodes ths) c -> ~ exhausted (Conc.trace c) ->
  exists L atr S st, walk (Conc.shared c) head L /\ lp_run lp_init atr = Some (S, st) /\ erase atr = client_history nodes (Conc.trace c) /\
    (forall k, zmem k S = true <-> exists n, In n L /\ snd (nxt (Conc.shared c) n 0) = false /\ key_of n = k).
Proof.
  intros Hn Ho Hlen Hr Hne.
  destruct (Conc.reach_Inv (init_cfg_ok2 (mkCfg0 nodes true) fuel ths Hn Ho Hlen) Hr) as (a & Hs & He & [Hil|Hx]); [|contradiction].
  pose proof (full_history_of_IL2 _ _ _ _ Hil (l2_noex _ _ _ _ Hil eq_refl)) as H4. cbn [c_nodes] in H4.
  destruct Hil as [(S & st & H1 & _ & H3) _ _ _]. exists (aL (b_base a)), (aatr (b_base a)), S, st. split; [apply (s_walk _ _ Hs)|]. auto.
Qed.

(** towers: for every schedule (also after an out-of-fuel event) every link at level l points to a node of height > l, and
    a node whose level-0 cell is marked (logically deleted) has all its upper cells marked *)
Theorem skip_towers fuel nodes ths c :
  nodes_ok nodes -> Forall (Forall op_ok') ths -> (List.length ths <= 63)%nat ->
  Conc.reach (init_cfg fuel nodes ths) c ->
  (forall p l, fst (nxt (Conc.shared c) p l) = null \/ (l < hgt_of (Conc.shared c) (fst (nxt (Conc.shared c) p l)))%nat) /\
  (forall q n l, In q (chain (Conc.shared c) 0 head n) -> snd (nxt (Conc.shared c) q 0) = true ->
     (1 <= l < hgt_of (Conc.shared c) q)%nat -> snd (nxt (Conc.shared c) q l) = true).
Proof.
  intros Hn Ho Hlen Hr. destruct (Conc.reach_Inv (init_cfg_ok2 (mkCfg0 nodes true) fuel ths Hn Ho Hlen) Hr) as (a & Hs & He & _).
  split; [apply (e_h1 _ _ He)|]. intros q n l Hin Hm Hl. apply (e_h2 _ _ He); auto.
  destruct (chain_in_link _ _ _ _ _ Hin) as (p' & E & Nq). destruct (s_closed _ _ Hs p' 0%nat) as [X|X]; [congruence|]. now rewrite E in X.
Qed.

(** the runs executed by the step-correspondence check *)
Theorem run_case_full_linearizable cfg ths sched fuel :
  forallb (fun os => forallb noext os) (map decode_ops ths) = true -> (List.length ths <= 63)%nat ->
  exhaustedb (fst (run_case cfg ths sched fuel)) = false ->
  linearizable SetSpec (client_history (prefill_nodes cfg) (fst (run_case cfg ths sched fuel))).
Proof.
  intros Hne Hlen Hex. unfold run_case in *. cbn [fst] in *.
  apply (skip_full_history_linearizable 60 (prefill_nodes cfg) (map decode_ops ths)); [apply prefill_nodes_ok| |now rewrite map_length|apply Conc.run_reach|now apply exhaustedb_false].
  apply Forall_forall. intros os Hin. rewrite forallb_forall in Hne. specialize (Hne _ Hin). rewrite forallb_forall in Hne.
  apply in_map_iff in Hin. destruct Hin as (x & <- & _). pose proof (decode_ops_ok x) as Hok. rewrite Forall_forall in *.
  intros o Ho. apply op_ok'_of; auto.
Qed.
