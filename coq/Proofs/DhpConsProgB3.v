(** DhpConsProgB3: copy of LV.Proofs.DhpProgB3 over the two-directional pointer invariant of LV.Proofs.DhpConsInv (conservation);
    the text differs from the original where the JW part of a goal is proved. *)
(** * DhpProgB3: retired_allocator::free, retired_array::fini, and the moving loops of help_scan preserve the C03 invariant. *)
From Coq Require Import ZArith NArith List String Bool Lia PeanoNat.
From LV Require Import Base.Conc Base.Events Model.DhpLang Model.Dhp Proofs.DhpBase Proofs.DhpSeq Proofs.DhpSeqThm Proofs.DhpHist
  Proofs.DhpLangProofs Proofs.DhpAllocA Proofs.DhpInvB Proofs.DhpConsInv Proofs.DhpConsQuietB Proofs.DhpConsQuietB2 Proofs.DhpConsRulesB Proofs.DhpConsStepsB1 Proofs.DhpConsStepsB2
  Proofs.DhpConsStepsB3 Proofs.DhpConsStepsB4 Proofs.DhpConsStepsB5 Proofs.DhpConsStepsB6 Proofs.DhpConsStepsB7 Proofs.DhpConsStepsB8 Proofs.DhpConsStepsB10
  Proofs.DhpConsProgB1 Proofs.DhpConsProgB2.
Import ListNotations.

Section ProgB3.
  Variable c : cfg.
  Notation RB := (c_RB c).
  Hypothesis HRB : 4 <= RB.
  Hypothesis Hold : c_old c = false.

  Lemma rt_free_spec t l b fl (Q : option unit -> VB -> Prop) :
    vb_blk l = Some (b, fl) -> Q (Some tt) (set_blk l None) -> (forall l', Q None l') -> dsafeB c t (rt_free c b) l Q.
  Proof.
    intros Hb HQ HN. unfold rt_free.
    apply dsafeB_xloc. intros g a tr Hv. unfold viewB in Hv. exists (setv a t (set_blk (bvs a t) (Some (b, true)))).
    split; [eapply frame_bvs; reflexivity|]. split; [intros J; eapply S_clrnext; eauto; rewrite Hv; exact Hb|].
    unfold viewB. cbn [bvs setv]. rewrite fn_same, Hv. clear g a tr Hv.
    apply dsafeB_xemit. intros g a tr Hv. unfold viewB in Hv. exists (aux_unblk a t b). split; [eapply frame_bvs; reflexivity|]. split.
    { intros _ _ J. eapply S_free; eauto. rewrite Hv. reflexivity. }
    unfold viewB. cbn [bvs aux_unblk]. rewrite fn_same, Hv. apply quietPB_dsafe; [apply qB_fl_put|]. intros [[]|]; [exact HQ|apply HN].
  Qed.

  Lemma free_rblocks_spec t (Q : option unit -> VB -> Prop) : forall fuel p l lb,
    vb_limbo l = Some (p, lb) -> vb_blk l = None -> (forall x, Q (Some tt) (set_limbo l x)) -> (forall l', Q None l') ->
    dsafeB c t (free_rblocks c fuel p) l Q.
  Proof.
    induction fuel as [|fuel IH]; intros p l lb Hl Hb HQ HN; destruct p as [b|]; cbn [free_rblocks].
    - apply dsafeB_fuel_out. apply HN.
    - assert (E : l = set_limbo l (vb_limbo l)) by (destruct l; reflexivity). rewrite E. apply HQ.
    - apply dsafeB_xloc. intros g a tr Hv. unfold viewB in Hv.
      exists (setv a t (set_blk (set_limbo (bvs a t) (Some (rb_next (grb g b), List.tl lb))) (Some (b, false)))).
      split; [eapply frame_bvs; reflexivity|]. split; [intros J; apply S_rdnext; auto; rewrite Hv; auto|].
      unfold viewB. cbn [bvs setv fst snd]. rewrite fn_same, Hv. generalize (rb_next (grb g b)) as nx. clear g a tr Hv. intros nx.
      apply dsafeB_xbind. eapply rt_free_spec; [reflexivity| |apply HN]. cbn beta iota.
      eapply IH; [reflexivity|reflexivity| |apply HN]. intros x.
      assert (E : set_limbo (set_blk (set_blk (set_limbo l (Some (nx, List.tl lb))) (Some (b, false))) None) x = set_limbo l x)
        by (destruct l; cbn in *; subst; reflexivity).
      rewrite E. apply HQ.
    - assert (E : l = set_limbo l (vb_limbo l)) by (destruct l; reflexivity). rewrite E. apply HQ.
  Qed.

  Lemma rt_fini_spec t l r (Q : option unit -> VB -> Prop) :
    In r (vb_own l) -> vb_limbo l = None -> vb_blk l = None -> vb_dead l = None -> vb_cur l = None -> vb_full l = None ->
    vb_move l = Some (r, None) -> vb_arr l <> Some r ->
    Q (Some tt) (set_move l None) -> (forall l', Q None l') -> dsafeB c t (rt_fini c r) l Q.
  Proof.
    intros Hr Hl Hb Hd Hc Hf Hm Har HQ HN. unfold rt_fini.
    apply dsafeB_xloc. intros g a tr Hv. unfold viewB in Hv. exists (aux_fini a t r (r_head (grec g r))).
    split; [eapply frame_bvs; reflexivity|]. split; [intros J; apply S_fini_start; auto; rewrite Hv; auto|].
    unfold viewB. cbn [bvs aux_fini fst snd]. rewrite fn_same, Hv. generalize (rch a r) as lb. generalize (r_head (grec g r)) as hd. clear g a tr Hv. intros hd lb.
    apply dsafeB_xbind. eapply free_rblocks_spec; [reflexivity|cbn; exact Hb| |apply HN]. intros x. cbn beta iota.
    apply dsafeB_loc_J. intros g a tr Hv. unfold viewB in Hv. exists (aux_fini_end a t r).
    split; [eapply frame_bvs; reflexivity|]. split; [intros J; apply S_fini_end; auto; rewrite Hv; reflexivity|].
    unfold viewB. cbn [bvs aux_fini_end fst snd]. rewrite fn_same, Hv.
    match goal with |- dsafe _ _ _ _ ?v _ => assert (E : v = set_move l None) by (destruct l; cbn in *; subst; reflexivity) end.
    rewrite E. exact HQ.
  Qed.

  (** ** help_scan: moving the cells of one block *)
  Record mv_ok (me : nat) (l : VB) : Prop := {
    mo_me : In me (vb_own l); mo_pend : vb_pend l = None; mo_dead : vb_dead l = None; mo_full : vb_full l = None;
    mo_freed : vb_freed l = []; mo_blk : vb_blk l = None; mo_arr : vb_arr l = Some me;
    mo_s0 : vb_s0 l = None; mo_mine : vb_mine l = Some me }.

  Lemma move_cells_spec t me src ob b (Q : option unit -> VB -> Prop) : src <> me -> forall n i l,
    vb_cur l = Some (b, i, n) -> vb_move l = Some (src, ob) -> mv_ok me l ->
    (forall i', Q (Some tt) (set_cur l (Some (b, i', 0)))) -> (forall l', Q None l') ->
    dsafeB c t (move_cells c me b i n) l Q.
  Proof.
    intros Hne. induction n as [|n IH]; intros i l Hc Hm Hok HQ HN; cbn [move_cells].
    - assert (E : l = set_cur l (Some (b, i, 0))) by (destruct l; cbn in *; subst; reflexivity). rewrite E. apply HQ.
    - destruct Hok as [M1 M2 M3 M4 M5 M6 M7 M8 M9].
      apply dsafeB_xloc. intros g a tr Hv. unfold viewB in Hv.
      set (p := nth i (rb_cells (grb g b)) 0). set (a1 := aux_take a t src b i n p).
      exists (aux_push a1 t me p (snd (rt_push c me p g))). split.
      { intros t' Ht. unfold viewB. cbn. now rewrite !fn_other by exact Ht. }
      split.
      { intros J. assert (J1 : JB c g a1 tr) by (apply (G_take c g a tr t src ob b i n); [rewrite Hv; exact Hm|rewrite Hv; exact Hc|rewrite Hv; exact M2|rewrite Hv; exact M3|rewrite Hv; exact M8|rewrite Hv, M9; congruence|exact J]).
        apply S_push; auto; unfold a1; cbn [bvs aux_take]; rewrite fn_same, Hv; cbn; auto; try congruence. }
      unfold viewB, a1. cbn [bvs aux_push aux_arr aux_take fst snd]. rewrite !fn_same, Hv. generalize (snd (rt_push c me p g)) as ok. clear a1. clearbody p. clear g a tr Hv. intros ok.
      apply dsafeB_xbind.
      assert (Hnext : forall l', l' = set_full (set_cur l (Some (b, S i, n))) None -> dsafeB c t (move_cells c me b (S i) n) l' Q).
      { intros l' ->. apply IH; auto; [constructor; cbn; auto|]. intros i'.
        assert (E : set_cur (set_full (set_cur l (Some (b, S i, n))) None) (Some (b, i', 0)) = set_cur l (Some (b, i', 0)))
          by (destruct l; cbn in *; subst; reflexivity).
        rewrite E. apply HQ. }
      destruct ok.
      + apply dsafeB_ret. cbn beta iota. apply Hnext. destruct l; cbn in *; subst; reflexivity.
      + apply scan_spec; auto; cbn [vb_own vb_dead vb_move vb_full vb_freed vb_blk set_full set_pend set_cur]; auto; try congruence.
        all: try solve [intros ob' E; rewrite Hm in E; inversion E; congruence].
        cbn beta iota. apply Hnext. destruct l; cbn in *; subst; reflexivity.
  Qed.

  Lemma move_blocks_spec t me src (Q : option unit -> VB -> Prop) : src <> me -> forall fuel block l,
    vb_move l = Some (src, block) -> vb_cur l = None -> mv_ok me l ->
    Q (Some tt) (set_move l (Some (src, None))) -> (forall l', Q None l') ->
    dsafeB c t (move_blocks c fuel me src block) l Q.
  Proof.
    intros Hne. induction fuel as [|fuel IH]; intros block l Hm Hc Hok HQ HN; destruct block as [b|]; cbn [move_blocks].
    - apply dsafeB_fuel_out. apply HN.
    - assert (E : l = set_move l (Some (src, None))) by (destruct l; cbn in *; subst; reflexivity). rewrite E. apply HQ.
    - pose proof Hok as [M1 M2 M3 M4 M5 M6 M7 M8 M9].
      apply dsafeB_xloc. intros g a tr Hv. unfold viewB in Hv.
      exists (setv a t (set_cur (bvs a t) (Some (b, 0, if oeqb (Some b) (r_cb (grec g src)) then r_cc (grec g src) else RB)))).
      split; [eapply frame_bvs; reflexivity|]. split; [intros J; apply (S_mb1 c g a tr t src b _ eq_refl); auto; rewrite Hv; auto|].
      unfold viewB. cbn [bvs setv fst snd]. rewrite fn_same, Hv.
      generalize (if oeqb (Some b) (r_cb (grec g src)) then r_cc (grec g src) else RB) as lc. clear g a tr Hv. intros lc.
      apply dsafeB_xbind. eapply move_cells_spec with (ob := Some b); [exact Hne|reflexivity|cbn; exact Hm|constructor; cbn; auto| |intros; apply HN].
      intros i'. cbn beta iota.
      apply dsafeB_xloc. intros g a tr Hv. unfold viewB in Hv.
      exists (setv a t (set_move (set_cur (bvs a t) None) (Some (src, if oeqb (Some b) (r_cb (grec g src)) then None else rb_next (grb g b))))).
      split; [eapply frame_bvs; reflexivity|]. split.
      { intros J. apply (S_mb2 c g a tr t src (Some b) b i' _ eq_refl); auto; rewrite Hv; auto. }
      unfold viewB. cbn [bvs setv fst snd]. rewrite fn_same, Hv.
      generalize (if oeqb (Some b) (r_cb (grec g src)) then None else rb_next (grb g b)) as nx. clear g a tr Hv. intros nx.
      apply IH; auto; [constructor; cbn; auto|].
      match goal with |- Q _ ?v => assert (E : v = set_move l (Some (src, None))) by (destruct l; cbn in *; subst; reflexivity) end.
      rewrite E. apply HQ.
    - assert (E : l = set_move l (Some (src, None))) by (destruct l; cbn in *; subst; reflexivity). rewrite E. apply HQ.
  Qed.
End ProgB3.
