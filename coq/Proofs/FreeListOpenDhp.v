(** * FreeListOpenDhp: the two FreeList instances embedded in LV.Model.Dhp (hp_allocator = FHp over the guard
      blocks, retired_allocator = FRt over the retired blocks) seen through LV.Proofs.FreeListOpenRules.

    Part 1: the projection of an instance, the agreement of DHP's N / w32 arithmetic with the Z / u32
    arithmetic of LV.Model.FreeList, and what each free-list access of Dhp.v does to the projections
    (its own instance: the corresponding [set_...]; the other instance: nothing). *)
From Coq Require Import ZArith NArith List String Bool Lia PeanoNat.
From LV Require Import Base.Conc Base.Events Model.FreeList Model.DhpLang Model.Dhp Proofs.DhpBase
  Proofs.FreeListBase Proofs.FreeListInv Proofs.FreeListOpen Proofs.FreeListOpenRules.
Import ListNotations.

(** nodes: block index b <-> node id S b;  nullptr <-> 0 *)
Definition enc_o (o : option nat) : nat := match o with None => O | Some n => S n end.

Definition flen (g : Dhp.G) (f : fl) : nat := match f with FHp => List.length (gbs g) | FRt => List.length (rbs g) end.

Definition projf (f : fl) (g : Dhp.G) : FreeList.G :=
  FreeList.mkG (enc_o (fl_head g f))
               (fun k => match k with O => 0%Z | S n => Z.of_N (fl_refs g f n) end)
               (fun k => match k with O => O | S n => enc_o (fl_next g f n) end).

(** ** arithmetic: Dhp.v keeps m_freeListRefs in N with [w32]; FreeList.v keeps it in Z with [u32] *)
Lemma zn_w32 x : Z.of_N (w32 x) = u32 (Z.of_N x).
Proof. unfold w32, u32, W32. rewrite N2Z.inj_mod. reflexivity. Qed.

Lemma zn_faa x d : Z.of_N (w32 (x + d)) = u32 (Z.of_N x + Z.of_N d).
Proof. rewrite zn_w32, N2Z.inj_add. reflexivity. Qed.

Lemma zn_fas x d : (d <= W32)%N -> Z.of_N (w32 (x + W32 - d)) = u32 (Z.of_N x - Z.of_N d).
Proof.
  intros H. rewrite zn_w32, N2Z.inj_sub, N2Z.inj_add by lia. unfold u32, W32.
  replace (Z.of_N x + Z.of_N 4294967296 - Z.of_N d)%Z with (Z.of_N x - Z.of_N d + 1 * 4294967296)%Z by (cbn; lia).
  apply Z.mod_add. lia.
Qed.

Lemma zn_SB : Z.of_N SB = FLAG. Proof. reflexivity. Qed.
Lemma zn_SBm1 : Z.of_N (SB - 1) = (FLAG - 1)%Z. Proof. reflexivity. Qed.
Lemma zn_SBp1 : Z.of_N (SB + 1) = (FLAG + 1)%Z. Proof. reflexivity. Qed.

Lemma zn_mask x : N.eqb (N.land x RMASK) 0 = Z.eqb (Z.of_N x mod FLAG) 0.
Proof.
  assert (E : N.land x RMASK = (x mod 2 ^ 31)%N) by (change RMASK with (N.ones 31); apply N.land_ones).
  rewrite E. change FLAG with (Z.of_N (2 ^ 31)). rewrite <- N2Z.inj_mod.
  destruct (N.eqb_spec (x mod 2 ^ 31) 0) as [H|H]; destruct (Z.eqb_spec (Z.of_N (x mod 2 ^ 31)) 0) as [H'|H']; auto; lia.
Qed.

Lemma zn_eqb x y : N.eqb x y = Z.eqb (Z.of_N x) (Z.of_N y).
Proof. destruct (N.eqb_spec x y), (Z.eqb_spec (Z.of_N x) (Z.of_N y)); auto; lia. Qed.

(** the CAS of get() writes refs + 1 without wrapping: the two agree below 2^32 - 1, which the invariant gives *)
Lemma zn_succ x : (Z.of_N x + 1 < 4294967296)%Z -> Z.of_N (x + 1) = u32 (Z.of_N x + 1).
Proof. intros H. rewrite N2Z.inj_add. unfold u32. symmetry. apply Z.mod_small. lia. Qed.

(** ** the accesses *)
Lemma fl_refs_set_same g f n v : n < flen g f -> fl_refs (fl_set_refs g f n v) f n = v.
Proof.
  destruct f; cbn [fl_refs fl_set_refs flen]; intros H.
  - unfold ggb, upd_gb. cbn [gbs set_gbs]. rewrite nth_upd_nth_same by exact H. reflexivity.
  - unfold grb, upd_rb. cbn [rbs set_rbs]. rewrite nth_upd_nth_same by exact H. reflexivity.
Qed.
Lemma fl_refs_set_other g f n v m : m <> n -> fl_refs (fl_set_refs g f n v) f m = fl_refs g f m.
Proof.
  destruct f; cbn [fl_refs fl_set_refs]; intros H.
  - unfold ggb, upd_gb. cbn [gbs set_gbs]. rewrite nth_upd_nth_other by congruence. reflexivity.
  - unfold grb, upd_rb. cbn [rbs set_rbs]. rewrite nth_upd_nth_other by congruence. reflexivity.
Qed.
Lemma fl_next_set_refs g f n v m : fl_next (fl_set_refs g f n v) f m = fl_next g f m.
Proof.
  destruct f; cbn [fl_next fl_set_refs].
  - unfold ggb, upd_gb. cbn [gbs set_gbs]. destruct (Nat.eq_dec n m) as [->|H]; [|rewrite nth_upd_nth_other by exact H; reflexivity].
    destruct (Nat.lt_ge_cases m (List.length (gbs g))); [rewrite nth_upd_nth_same by assumption; reflexivity|rewrite upd_nth_oob by assumption; reflexivity].
  - unfold grb, upd_rb. cbn [rbs set_rbs]. destruct (Nat.eq_dec n m) as [->|H]; [|rewrite nth_upd_nth_other by exact H; reflexivity].
    destruct (Nat.lt_ge_cases m (List.length (rbs g))); [rewrite nth_upd_nth_same by assumption; reflexivity|rewrite upd_nth_oob by assumption; reflexivity].
Qed.
Lemma fl_next_set_same g f n v : n < flen g f -> fl_next (fl_set_next g f n v) f n = v.
Proof.
  destruct f; cbn [fl_next fl_set_next flen]; intros H.
  - unfold ggb, upd_gb. cbn [gbs set_gbs]. rewrite nth_upd_nth_same by exact H. reflexivity.
  - unfold grb, upd_rb. cbn [rbs set_rbs]. rewrite nth_upd_nth_same by exact H. reflexivity.
Qed.
Lemma fl_next_set_other g f n v m : m <> n -> fl_next (fl_set_next g f n v) f m = fl_next g f m.
Proof.
  destruct f; cbn [fl_next fl_set_next]; intros H.
  - unfold ggb, upd_gb. cbn [gbs set_gbs]. rewrite nth_upd_nth_other by congruence. reflexivity.
  - unfold grb, upd_rb. cbn [rbs set_rbs]. rewrite nth_upd_nth_other by congruence. reflexivity.
Qed.
Lemma fl_refs_set_next g f n v m : fl_refs (fl_set_next g f n v) f m = fl_refs g f m.
Proof.
  destruct f; cbn [fl_refs fl_set_next].
  - unfold ggb, upd_gb. cbn [gbs set_gbs]. destruct (Nat.eq_dec n m) as [->|H]; [|rewrite nth_upd_nth_other by exact H; reflexivity].
    destruct (Nat.lt_ge_cases m (List.length (gbs g))); [rewrite nth_upd_nth_same by assumption; reflexivity|rewrite upd_nth_oob by assumption; reflexivity].
  - unfold grb, upd_rb. cbn [rbs set_rbs]. destruct (Nat.eq_dec n m) as [->|H]; [|rewrite nth_upd_nth_other by exact H; reflexivity].
    destruct (Nat.lt_ge_cases m (List.length (rbs g))); [rewrite nth_upd_nth_same by assumption; reflexivity|rewrite upd_nth_oob by assumption; reflexivity].
Qed.

Lemma fl_other f f' : f <> f' -> (f = FHp /\ f' = FRt) \/ (f = FRt /\ f' = FHp).
Proof. destruct f, f'; intros H; try congruence; auto. Qed.

(** *** own instance *)
Lemma proj_set_refs g f n v : n < flen g f ->
  Geq (set_refs (projf f g) (S n) (Z.of_N v)) (projf f (fl_set_refs g f n v)).
Proof.
  intros H. split; [|split].
  - cbn [head set_refs projf]. destruct f; reflexivity.
  - intros [|k]; cbn [refs set_refs projf]; [reflexivity|]. cbn [Nat.eqb]. destruct (Nat.eqb_spec k n) as [->|Hk].
    + rewrite fl_refs_set_same by exact H. reflexivity.
    + rewrite fl_refs_set_other by exact Hk. reflexivity.
  - intros [|k]; cbn [next set_refs projf]; [reflexivity|]. rewrite fl_next_set_refs. reflexivity.
Qed.

Lemma proj_set_next g f n v : n < flen g f ->
  Geq (set_next (projf f g) (S n) (enc_o v)) (projf f (fl_set_next g f n v)).
Proof.
  intros H. split; [|split].
  - cbn [head set_next projf]. destruct f; reflexivity.
  - intros [|k]; cbn [refs set_next projf]; [reflexivity|]. rewrite fl_refs_set_next. reflexivity.
  - intros [|k]; cbn [next set_next projf]; [reflexivity|]. cbn [Nat.eqb]. destruct (Nat.eqb_spec k n) as [->|Hk].
    + rewrite fl_next_set_same by exact H. reflexivity.
    + rewrite fl_next_set_other by exact Hk. reflexivity.
Qed.

Lemma proj_set_head g f v : Geq (set_head (projf f g) (enc_o v)) (projf f (fl_set_head g f v)).
Proof. split; [|split]; destruct f; cbn; try reflexivity; intros [|k]; reflexivity. Qed.

(** *** the other instance (frame between the two lists) *)
Lemma proj_other_refs g f f' n v : f <> f' -> Geq (projf f' g) (projf f' (fl_set_refs g f n v)).
Proof. intros H. destruct (fl_other f f' H) as [[-> ->]|[-> ->]]; split; [|split| |split]; try reflexivity; intros [|k]; reflexivity. Qed.
Lemma proj_other_next g f f' n v : f <> f' -> Geq (projf f' g) (projf f' (fl_set_next g f n v)).
Proof. intros H. destruct (fl_other f f' H) as [[-> ->]|[-> ->]]; split; [|split| |split]; try reflexivity; intros [|k]; reflexivity. Qed.
Lemma proj_other_head g f f' v : f <> f' -> Geq (projf f' g) (projf f' (fl_set_head g f v)).
Proof. intros H. destruct (fl_other f f' H) as [[-> ->]|[-> ->]]; split; [|split| |split]; try reflexivity; intros [|k]; reflexivity. Qed.

(** a new block equal to the default block changes no projection (refs 0, next nullptr) *)
Lemma proj_new_gblock c g f : Geq (projf f g) (projf f (fst (new_gblock c g))).
Proof.
  split; [|split]; destruct f; cbn; try reflexivity; intros [|k]; try reflexivity; unfold ggb; cbn [gbs set_gbs].
  - destruct (Nat.lt_ge_cases k (List.length (gbs g))) as [H|H].
    + rewrite app_nth1 by exact H. reflexivity.
    + rewrite (nth_overflow (gbs g)) by exact H. destruct (Nat.eq_dec k (List.length (gbs g))) as [->|Hk].
      * rewrite nth_middle. reflexivity.
      * rewrite nth_overflow; [reflexivity|]. rewrite app_length. cbn. lia.
  - destruct (Nat.lt_ge_cases k (List.length (gbs g))) as [H|H].
    + rewrite app_nth1 by exact H. reflexivity.
    + rewrite (nth_overflow (gbs g)) by exact H. destruct (Nat.eq_dec k (List.length (gbs g))) as [->|Hk].
      * rewrite nth_middle. reflexivity.
      * rewrite nth_overflow; [reflexivity|]. rewrite app_length. cbn. lia.
Qed.
Lemma proj_new_rblock c g f : Geq (projf f g) (projf f (fst (new_rblock c g))).
Proof.
  split; [|split]; destruct f; cbn; try reflexivity; intros [|k]; try reflexivity; unfold grb; cbn [rbs set_rbs].
  - destruct (Nat.lt_ge_cases k (List.length (rbs g))) as [H|H].
    + rewrite app_nth1 by exact H. reflexivity.
    + rewrite (nth_overflow (rbs g)) by exact H. destruct (Nat.eq_dec k (List.length (rbs g))) as [->|Hk].
      * rewrite nth_middle. reflexivity.
      * rewrite nth_overflow; [reflexivity|]. rewrite app_length. cbn. lia.
  - destruct (Nat.lt_ge_cases k (List.length (rbs g))) as [H|H].
    + rewrite app_nth1 by exact H. reflexivity.
    + rewrite (nth_overflow (rbs g)) by exact H. destruct (Nat.eq_dec k (List.length (rbs g))) as [->|Hk].
      * rewrite nth_middle. reflexivity.
      * rewrite nth_overflow; [reflexivity|]. rewrite app_length. cbn. lia.
Qed.
