(** * MichaelListSteps: each kind of atomic step of the MichaelList model preserves the structural invariant [IS]
      (chain from the head is null-terminated, strictly sorted, closed under "published"; what the other threads
      know stays true). *)
From Coq Require Import ZArith List String Bool Lia PeanoNat.
From LV Require Import Base.Conc Base.Events Base.Lin Spec.Specs Proofs.LinProofs.
From LV Require Import Model.MichaelList Proofs.MichaelListBase Proofs.MichaelListInv.
Import ListNotations.
Local Open Scope Z_scope.

Lemma chain_ok_ext g g' L : (forall x, heap g' x = heap g x) -> chain_ok g L -> chain_ok g' L.
Proof. intros H. apply chain_same_next. intros x _. now rewrite H. Qed.

Lemma fact_ok_ext g g' pub f : (forall x, heap g' x = heap g x) -> fact_ok g pub f -> fact_ok g' pub f.
Proof. intros H. destruct f; cbn [fact_ok]; rewrite !H; auto. Qed.

(** *** steps that leave heap and allocator alone (loads, hazard-pointer traffic, counters) *)
Lemma IS_neutral g g' a t lv' atr' L :
  IS g a L -> (forall x, heap g' x = heap g x) -> nalloc g' = nalloc g ->
  Forall (fact_ok g (a_pub a)) (lv_facts lv') -> lv_own lv' = lv_own (view a t) ->
  IS g' (mk_a a t (a_pub a) lv' atr') L.
Proof.
  intros H Hh Hn Hf Ho. apply (IS_step g g' a t (a_pub a) lv' atr' L L H).
  - eapply chain_ok_ext; eauto. apply (is_chain _ _ _ H).
  - auto.
  - apply (is_pubL _ _ _ H).
  - intros n Hp. rewrite Hn, !Hh. apply (is_pub _ _ _ H). exact Hp.
  - rewrite Hh. apply (is_head _ _ _ H).
  - intros n Hp. rewrite !Hh. auto.
  - lia.
  - intros u n k nx Hu E. split; [apply Hh|]. pose proof (is_own _ _ _ H u) as K. rewrite E in K. cbn in K. tauto.
  - eapply Forall_impl; [|exact Hf]. intros f. apply fact_ok_ext. exact Hh.
  - rewrite Ho. pose proof (is_own _ _ _ H t) as K. destruct (lv_own (view a t)) as [[[n k] nx]|]; cbn [own_ok] in *; auto.
    rewrite Hn, Hh. exact K.
  - intros u n k nx n' k' nx' Hu E1 E2. rewrite Ho in E1.
    exact (is_disj _ _ _ H t u n k nx n' k' nx' (fun e => Hu (eq_sym e)) E1 E2).
Qed.

(** *** logical deletion: the mark CAS on an unmarked published node *)
Lemma IS_mark g a t lv' atr' L c nx :
  IS g a L -> a_pub a c = true -> nmark (heap g c) = false -> nnext (heap g c) = nx ->
  Forall (fact_ok (wr g c nx true) (a_pub a)) (lv_facts lv') -> lv_own lv' = lv_own (view a t) ->
  IS (wr g c nx true) (mk_a a t (a_pub a) lv' atr') L.
Proof.
  intros H Hc Hm Hnx Hf Ho.
  assert (Hc0 : c <> 0%nat) by (eapply pub_nonzero; eauto).
  assert (Hnext : forall x, nnext (heap (wr g c nx true) x) = nnext (heap g x)).
  { intros x. destruct (Nat.eq_dec x c) as [->|Hx]; [rewrite heap_wr_same; cbn; auto|now rewrite heap_wr_other]. }
  apply (IS_step g _ a t (a_pub a) lv' atr' L L H).
  - eapply chain_same_next; [|apply (is_chain _ _ _ H)]. intros x _. split; [apply Hnext|apply nkey_wr].
  - auto.
  - apply (is_pubL _ _ _ H).
  - intros n Hp. rewrite nalloc_wr, Hnext. destruct (is_pub _ _ _ H n Hp) as (K1 & K2 & K3). repeat split; auto; try lia.
    intros Hu. apply K3. destruct (Nat.eq_dec n c) as [->|Hx]; [rewrite heap_wr_same in Hu; discriminate|].
    now rewrite heap_wr_other in Hu.
  - rewrite heap_wr_other by auto. apply (is_head _ _ _ H).
  - intros n Hp. rewrite nkey_wr. split; auto. intros Hmk.
    assert (n <> c) by congruence. rewrite heap_wr_other by auto. auto.
  - rewrite nalloc_wr. lia.
  - intros u n k nx' Hu E. pose proof (is_own _ _ _ H u) as K. rewrite E in K. cbn in K. destruct K as (_ & K & _).
    split; auto. apply heap_wr_other. congruence.
  - exact Hf.
  - rewrite Ho. pose proof (is_own _ _ _ H t) as K. destruct (lv_own (view a t)) as [[[n k] nx']|]; cbn [own_ok] in *; auto.
    destruct K as (K1 & K2 & K3). rewrite nalloc_wr. repeat split; auto; try lia. rewrite heap_wr_other by congruence. exact K3.
  - intros u n k nx' n' k' nx'' Hu E1 E2. rewrite Ho in E1.
    exact (is_disj _ _ _ H t u n k nx' n' k' nx'' (fun e => Hu (eq_sym e)) E1 E2).
Qed.

(** *** physical deletion: the CAS that swings the (unmarked) predecessor [m] past the marked node [c] *)
Lemma IS_unlink g a t lv' atr' L m c nx :
  IS g a L -> pubz a m -> nmark (heap g m) = false -> nnext (heap g m) = c ->
  c <> 0%nat -> a_pub a c = true -> nmark (heap g c) = true -> nnext (heap g c) = nx ->
  Forall (fact_ok (wr g m nx false) (a_pub a)) (lv_facts lv') -> lv_own lv' = lv_own (view a t) ->
  exists L', IS (wr g m nx false) (mk_a a t (a_pub a) lv' atr') L' /\ In c L /\ (forall x, In x L' <-> In x L /\ x <> c).
Proof.
  intros H Hm Hmm Hmc Hc0 Hc Hcm Hcn Hf Ho.
  pose proof (pubz_unmarked_in _ _ _ _ H Hm Hmm) as HmL.
  destruct (chain_remove g L m c (is_chain _ _ _ H) HmL Hmc Hc0) as (L' & Hch & HcL & HL').
  rewrite Hcn in Hch.
  assert (Hmc' : m <> c) by congruence.
  exists L'. split; [|split; auto].
  apply (IS_step g _ a t (a_pub a) lv' atr' L L' H).
  - exact Hch.
  - auto.
  - intros n Hn. apply (is_pubL _ _ _ H). apply HL' in Hn. tauto.
  - intros n Hp. rewrite nalloc_wr. destruct (is_pub _ _ _ H n Hp) as (K1 & K2 & K3). split; auto.
    destruct (Nat.eq_dec n m) as [->|Hx].
    + rewrite heap_wr_same. cbn [nnext nmark]. split.
      * destruct (is_pub _ _ _ H c Hc) as (_ & J & _). rewrite Hcn in J. exact J.
      * intros _. apply HL'. split; [apply K3; exact Hmm|exact Hmc'].
    + rewrite heap_wr_other by exact Hx. split; auto. intros Hu. apply HL'. split; auto. congruence.
  - destruct (Nat.eq_dec m 0) as [->|Hx]; [rewrite heap_wr_same; reflexivity|].
    rewrite heap_wr_other by auto. apply (is_head _ _ _ H).
  - intros n Hp. rewrite nkey_wr. split; auto. intros Hmk.
    assert (n <> m) by congruence. rewrite heap_wr_other by auto. auto.
  - rewrite nalloc_wr. lia.
  - intros u n k nx' Hu E. pose proof (is_own _ _ _ H u) as K. rewrite E in K. cbn in K. destruct K as (K0 & K & _).
    split; auto. apply heap_wr_other. destruct Hm as [->|Hm]; [lia|congruence].
  - exact Hf.
  - rewrite Ho. pose proof (is_own _ _ _ H t) as K. destruct (lv_own (view a t)) as [[[n k] nx']|]; cbn [own_ok] in *; auto.
    destruct K as (K1 & K2 & K3). rewrite nalloc_wr. repeat split; auto; try lia.
    rewrite heap_wr_other; [exact K3|]. destruct Hm as [->|Hm]; [lia|congruence].
  - intros u n k nx' n' k' nx'' Hu E1 E2. rewrite Ho in E1.
    exact (is_disj _ _ _ H t u n k nx' n' k' nx'' (fun e => Hu (eq_sym e)) E1 E2).
Qed.

(** *** linking the caller's fresh node [n] right after the unmarked node [m] *)
Definition pub_add (pub : nat -> bool) (n : nat) : nat -> bool := fun x => if Nat.eqb x n then true else pub x.

Lemma IS_link g a t lv' atr' L m n k pc :
  IS g a L -> pubz a m -> nmark (heap g m) = false -> nnext (heap g m) = pc ->
  lv_own (view a t) = Some (n, k, pc) ->
  olt (okey g m) (Some k) -> (pc = 0%nat \/ k < nkey (heap g pc)) ->
  Forall (fact_ok (wr g m n false) (pub_add (a_pub a) n)) (lv_facts lv') -> lv_own lv' = None ->
  exists L', IS (wr g m n false) (mk_a a t (pub_add (a_pub a) n) lv' atr') L' /\ ~ In n L /\
             (forall x, In x L' <-> x = n \/ In x L).
Proof.
  intros H Hm Hmm Hmp Hown Hk1 Hk2 Hf Ho.
  pose proof (is_own _ _ _ H t) as Kown. rewrite Hown in Kown. cbn [own_ok] in Kown. destruct Kown as (Kn & Knp & Knh).
  pose proof (pubz_unmarked_in _ _ _ _ H Hm Hmm) as HmL.
  assert (HnL : ~ In n (0%nat :: L)).
  { intros [E|E]; [lia|]. apply (is_pubL _ _ _ H) in E. congruence. }
  assert (Hnm : n <> m) by (intros ->; apply HnL; exact HmL).
  destruct (chain_insert g L m n k (is_chain _ _ _ H) HmL HnL) as (L' & Hch & HL'); auto.
  { rewrite Hmp. exact Knh. }
  { rewrite Hmp. destruct (Nat.eq_dec pc 0) as [->|Hpc]; [left; reflexivity|]. right.
    unfold okey. destruct (Nat.eqb_spec pc 0); [contradiction|].
    destruct Hk2 as [Hk2|Hk2]; [contradiction|exact Hk2]. }
  exists L'. split; [|split; [intros E; apply HnL; right; exact E|exact HL']].
  assert (Hadd : forall x, a_pub a x = true -> pub_add (a_pub a) n x = true).
  { intros x Hx. unfold pub_add. destruct (Nat.eqb x n); auto. }
  apply (IS_step g _ a t (pub_add (a_pub a) n) lv' atr' L L' H).
  - exact Hch.
  - exact Hadd.
  - intros x Hx. apply HL' in Hx. destruct Hx as [->|Hx]; [unfold pub_add; now rewrite Nat.eqb_refl|].
    apply Hadd. apply (is_pubL _ _ _ H). exact Hx.
  - intros x Hp. rewrite nalloc_wr. destruct (Nat.eq_dec x n) as [Exn|Hxn].
    + subst x. clear Hp. split; [exact Kn|]. rewrite heap_wr_other by exact Hnm. rewrite Knh. cbn [nnext nmark]. split.
      * destruct (pubz_next _ _ _ _ H Hm) as [J|J]; rewrite Hmp in J; [left; exact J|right; apply Hadd; exact J].
      * intros _. apply HL'. left; reflexivity.
    + unfold pub_add in Hp. destruct (Nat.eqb_spec x n) as [|_]; [contradiction|].
      destruct (is_pub _ _ _ H x Hp) as (K1 & K2 & K3). split; auto.
      destruct (Nat.eq_dec x m) as [->|Hx].
      * rewrite heap_wr_same. cbn [nnext nmark]. split.
        -- right. unfold pub_add. now rewrite Nat.eqb_refl.
        -- intros _. apply HL'. right. apply K3. exact Hmm.
      * rewrite heap_wr_other by exact Hx. split.
        -- destruct K2 as [K2|K2]; [left; exact K2|right; apply Hadd; exact K2].
        -- intros Hu. apply HL'. right. auto.
  - destruct (Nat.eq_dec m 0) as [->|Hx]; [rewrite heap_wr_same; reflexivity|].
    rewrite heap_wr_other by auto. apply (is_head _ _ _ H).
  - intros x Hp. rewrite nkey_wr. split; auto. intros Hmk.
    assert (x <> m) by congruence. rewrite heap_wr_other by auto. auto.
  - rewrite nalloc_wr. lia.
  - intros u n' k' nx' Hu E. pose proof (is_own _ _ _ H u) as K. rewrite E in K. cbn in K. destruct K as (K0 & K & _).
    split.
    + apply heap_wr_other. destruct Hm as [->|Hm]; [lia|congruence].
    + unfold pub_add. destruct (Nat.eqb_spec n' n) as [->|]; [|exact K].
      exfalso. exact (is_disj _ _ _ H t u n k pc n k' nx' (fun e => Hu (eq_sym e)) Hown E eq_refl).
  - exact Hf.
  - rewrite Ho. exact I.
  - intros u n1 k1 nx1 n2 k2 nx2 Hu E1. rewrite Ho in E1. discriminate.
Qed.

(** *** stores to the caller's own unlinked node *)
Lemma IS_own_store g a t lv' atr' L n k nx p :
  IS g a L -> lv_own (view a t) = Some (n, k, nx) ->
  Forall (fact_ok g (a_pub a)) (lv_facts lv') -> lv_own lv' = Some (n, k, p) ->
  IS (wr g n p false) (mk_a a t (a_pub a) lv' atr') L.
Proof.
  intros H Hown Hf Ho.
  pose proof (is_own _ _ _ H t) as Kown. rewrite Hown in Kown. cbn [own_ok] in Kown. destruct Kown as (Kn & Knp & Knh).
  assert (Hoth : forall x, a_pub a x = true -> heap (wr g n p false) x = heap g x).
  { intros x Hx. apply heap_wr_other. congruence. }
  apply (IS_step g _ a t (a_pub a) lv' atr' L L H).
  - eapply chain_same_next; [|apply (is_chain _ _ _ H)]. intros x [<-|Hx].
    + rewrite heap_wr_other by lia. auto.
    + rewrite Hoth; auto. apply (is_pubL _ _ _ H). exact Hx.
  - auto.
  - apply (is_pubL _ _ _ H).
  - intros x Hp. rewrite nalloc_wr, Hoth by exact Hp. apply (is_pub _ _ _ H). exact Hp.
  - rewrite heap_wr_other by lia. apply (is_head _ _ _ H).
  - intros x Hp. rewrite Hoth by exact Hp. auto.
  - rewrite nalloc_wr. lia.
  - intros u n' k' nx' Hu E. pose proof (is_own _ _ _ H u) as K. rewrite E in K. cbn in K. destruct K as (K0 & K & _).
    split; auto. apply heap_wr_other.
    intros ->. exact (is_disj _ _ _ H t u n k nx n k' nx' (fun e => Hu (eq_sym e)) Hown E eq_refl).
  - eapply facts_stable; [|exact Hf]. intros x Hx. rewrite Hoth by exact Hx. auto.
  - rewrite Ho. cbn [own_ok]. rewrite nalloc_wr, heap_wr_same, Knh. cbn [nkey]. auto.
  - intros u n1 k1 nx1 n2 k2 nx2 Hu E1 E2. rewrite Ho in E1. inversion E1; subst.
    exact (is_disj _ _ _ H t u n1 k1 nx n2 k2 nx2 (fun e => Hu (eq_sym e)) Hown E2).
Qed.

Definition alloc_g (g : G) (k : Z) (p : nat) : G :=
  mkG (upd_heap (heap g) (S (nalloc g)) (mkNode k p false)) (S (nalloc g)) (count g).

Lemma IS_alloc g a t lv' atr' L k p :
  IS g a L ->
  Forall (fact_ok g (a_pub a)) (lv_facts lv') -> lv_own lv' = Some (S (nalloc g), k, p) ->
  IS (alloc_g g k p) (mk_a a t (a_pub a) lv' atr') L.
Proof.
  intros H Hf Ho.
  assert (Hold : forall x, (x <= nalloc g)%nat -> heap (alloc_g g k p) x = heap g x).
  { intros x Hx. unfold alloc_g; cbn [heap]. apply upd_heap_other. lia. }
  assert (Hpub : forall x, a_pub a x = true -> heap (alloc_g g k p) x = heap g x).
  { intros x Hx. apply Hold. apply (is_pub _ _ _ H) in Hx. lia. }
  apply (IS_step g _ a t (a_pub a) lv' atr' L L H).
  - eapply chain_same_next; [|apply (is_chain _ _ _ H)]. intros x [<-|Hx].
    + rewrite Hold by lia. auto.
    + rewrite Hpub; auto. apply (is_pubL _ _ _ H). exact Hx.
  - auto.
  - apply (is_pubL _ _ _ H).
  - intros x Hp. rewrite Hpub by exact Hp. destruct (is_pub _ _ _ H x Hp) as (K1 & K2 & K3).
    cbn [alloc_g nalloc]. repeat split; auto; lia.
  - rewrite Hold by lia. apply (is_head _ _ _ H).
  - intros x Hp. rewrite Hpub by exact Hp. auto.
  - cbn. lia.
  - intros u n' k' nx' Hu E. pose proof (is_own _ _ _ H u) as K. rewrite E in K. cbn in K. destruct K as (K0 & K & _).
    split; auto. apply Hold. lia.
  - eapply facts_stable; [|exact Hf]. intros x Hx. rewrite Hpub by exact Hx. auto.
  - rewrite Ho. cbn [own_ok alloc_g nalloc heap]. rewrite upd_heap_same. repeat split; try lia.
    destruct (a_pub a (S (nalloc g))) eqn:E; auto. apply (is_pub _ _ _ H) in E. lia.
  - intros u n1 k1 nx1 n2 k2 nx2 Hu E1 E2. rewrite Ho in E1. inversion E1; subst.
    pose proof (is_own _ _ _ H u) as K. rewrite E2 in K. cbn in K. lia.
Qed.
