(** * SplitListLinKeyThm: linearizability of the split-list model in terms of the CLIENT keys.

    [split_linearizable] (SplitListLinThm) is about the history whose keys are split-order positions [okey (hash k) k].
    Distinct client keys 0..255 have distinct positions ([z mod 256] recovers the key), so renaming the keys of the
    LP-annotated trace back ([SplitListLinKeys.ren_valid]) gives: the history of insert k / erase k / contains k with
    their results, keys as the client passed them, is linearizable w.r.t. the sequential set. *)
From Coq Require Import ZArith List String Bool Lia PeanoNat.
From LV Require Import Base.Conc Base.Events Base.Lin Spec.Specs Proofs.LinProofs.
From LV Require Import Proofs.MichaelListInv Proofs.MichaelListFullInv.
From LV Require Model.SplitList.
From LV Require Import Proofs.SplitListOrdArith Proofs.SplitListLinProj Proofs.SplitListLinKeys Proofs.SplitListLinSim
                       Proofs.SplitListLinActs Proofs.SplitListLinOps Proofs.SplitListLinThm.
Import ListNotations.
Local Open Scope Z_scope.

(* never unfold the 64-step bit reversal during conversion *)
Local Opaque SL.rev64 SL.regular_hash.

(** the client history: insert k -> SInsert k, erase k -> SErase k, any other code -> SContains k; responses with their result *)
Definition kstep_h (out : hist) (te : nat * ev) : hist :=
  match te with
  | (t, EvCli name args) =>
      if String.eqb name "inv" then
        match args with
        | [c; k] => out ++ [@HInv SetSpec t (spec_op (scode c) k 0)]
        | _ => out
        end
      else if String.eqb name "ret" then
        match args with
        | [a; b] => out ++ [@HRes SetSpec t (RBool (negb (Z.eqb a 0)))]
        | _ => out
        end
      else out
  | (_, EvAcc _ _ _) => out
  end.
Definition client_hist (tr : list (nat * ev)) : hist := fold_left kstep_h tr [].

Section Keys.
Variable hs : list Z.

Definition fkey (k : Z) : Z := SL.okey (SL.hash hs k) k.
Definition gkey (z : Z) : Z := z mod 256.

Lemma gkey_fkey k : 0 <= k < 256 -> gkey (fkey k) = k.
Proof. intros H. unfold gkey, fkey, SL.okey. rewrite Z.add_comm, Z.mod_add by lia. apply Z.mod_small. exact H. Qed.

Lemma ren_spec_op c k : ren_op fkey (spec_op (scode c) k 0) = spec_op (scode c) (fkey k) 0.
Proof. rewrite !spec_op_scode. destruct (Z.eqb c 1); [reflexivity|]. destruct (Z.eqb c 7); reflexivity. Qed.

Lemma split_hist_ren_gen tr : forall out,
  fold_left (sstep_h hs) tr (map (ren_h fkey) out) = map (ren_h fkey) (fold_left kstep_h tr out).
Proof.
  induction tr as [|[t e] tr IH]; intros out; cbn [fold_left]; [reflexivity|].
  rewrite <- IH. f_equal. destruct e as [kd o b|name args]; cbn [sstep_h kstep_h]; [reflexivity|].
  destruct (String.eqb name "inv").
  - destruct args as [|c [|k [|x r]]]; try reflexivity. rewrite map_app. cbn [map ren_h]. rewrite ren_spec_op. unfold fkey. reflexivity.
  - destruct (String.eqb name "ret"); [|reflexivity].
    destruct args as [|a [|b [|x r]]]; try reflexivity. rewrite map_app. reflexivity.
Qed.

Lemma split_hist_ren tr : split_hist hs tr = map (ren_h fkey) (client_hist tr).
Proof. unfold split_hist, client_hist. rewrite <- split_hist_ren_gen. reflexivity. Qed.

Definition inr (e : hev SetSpec) : Prop :=
  match e with HInv _ o => keyed o /\ 0 <= op_key o < 256 | HRes _ _ => True end.

Lemma spec_op_inr c k : 0 <= k < 256 -> keyed (spec_op (scode c) k 0) /\ 0 <= op_key (spec_op (scode c) k 0) < 256.
Proof. intros H. rewrite spec_op_scode. destruct (Z.eqb c 1); [cbn; auto|]. destruct (Z.eqb c 7); cbn; auto. Qed.

Lemma client_hist_inr_gen tr : forall out, Forall inr out -> tr_ok tr -> Forall inr (fold_left kstep_h tr out).
Proof.
  induction tr as [|[t e] tr IH]; intros out Ho Hok; cbn [fold_left]; [exact Ho|].
  apply IH; [|intros u c k Hin; apply (Hok u c k); right; exact Hin].
  destruct e as [kd o b|name args]; cbn [kstep_h]; [exact Ho|].
  destruct (String.eqb name "inv") eqn:En.
  - destruct args as [|c [|k [|x r]]]; try exact Ho. apply Forall_app. split; [exact Ho|]. constructor; [|constructor].
    cbn [inr]. apply spec_op_inr. apply String.eqb_eq in En. subst name. apply (Hok t c k). left. reflexivity.
  - destruct (String.eqb name "ret"); [|exact Ho].
    destruct args as [|a [|b [|x r]]]; try exact Ho. apply Forall_app. split; [exact Ho|]. constructor; [exact I|constructor].
Qed.

Definition Pkey (z : Z) : Prop := exists k, 0 <= k < 256 /\ z = fkey k.

Lemma inj_gkey : forall z1 z2, Pkey z1 -> Pkey z2 -> gkey z1 = gkey z2 -> z1 = z2.
Proof.
  intros z1 z2 (k1 & H1 & ->) (k2 & H2 & ->) E. rewrite !gkey_fkey in E by assumption. subst k2. reflexivity.
Qed.

Lemma ren_back e : inr e -> ren_h gkey (ren_h fkey e) = e.
Proof.
  destruct e as [t o|t x]; cbn [ren_h inr]; [|reflexivity]. intros [Hk Hr]. f_equal.
  destruct o; cbn [keyed op_key ren_op] in *; try contradiction; rewrite gkey_fkey by exact Hr; reflexivity.
Qed.

Lemma okeys_ren e : inr e -> okeys Pkey (ren_h fkey e).
Proof.
  destruct e as [t o|t x]; cbn [ren_h inr okeys]; [|auto]. intros [Hk Hr].
  destruct o; cbn [keyed op_key ren_op] in *; try contradiction; (split; [exact I|exists k; auto]).
Qed.

Variable cap : nat.
Hypothesis Hcap : Z.of_nat cap <= 2 ^ 62.

Theorem split_keys_linearizable_lp f ths c :
  ops_ok ths -> Conc.reach (SL.init_cfg cap hs f ths) c ->
  exists atr, lp_valid SetSpec atr /\ erase atr = client_hist (Conc.trace c).
Proof.
  intros Hok Hr.
  destruct (split_inv_reach cap hs Hcap f ths c Hok Hr) as (A & (a & gtr & _ & _ & _ & (_ & _ & Htr)) & _).
  destruct (split_linearizable_lp cap hs Hcap f ths c Hok Hr) as (atr & Hv & He).
  pose proof (client_hist_inr_gen (Conc.trace c) [] (Forall_nil _) Htr) as Hin. fold (client_hist (Conc.trace c)) in Hin.
  exists (map (ren_a gkey) atr). split.
  - apply ren_valid with (P := Pkey); [exact inj_gkey| |exact Hv].
    rewrite He, split_hist_ren. apply Forall_forall. intros e He'. apply in_map_iff in He'. destruct He' as (e0 & <- & H0).
    apply okeys_ren. rewrite Forall_forall in Hin. apply Hin. exact H0.
  - rewrite erase_ren, He, split_hist_ren, map_map.
    rewrite <- (map_id (client_hist (Conc.trace c))) at 2. apply map_ext_in. intros e He'. apply ren_back.
    rewrite Forall_forall in Hin. apply Hin. exact He'.
Qed.

Theorem split_keys_linearizable f ths c :
  ops_ok ths -> Conc.reach (SL.init_cfg cap hs f ths) c -> linearizable SetSpec (client_hist (Conc.trace c)).
Proof.
  intros Hok Hr. destruct (split_keys_linearizable_lp f ths c Hok Hr) as (atr & Hv & <-). apply lp_valid_linearizable. exact Hv.
Qed.

End Keys.
