(** * kernel::invoke_exclusive with a functor that works on the container (LV.Model.FcDequeFull, Section
      KernelExcl): part A of the kernel theorem, for EVERY schedule.

    Invariant, auxiliary state and per-step lemmas are those of LV.Proofs.FcKernelProofs / FcWakeProofs, re-used
    unchanged.  New: the step of the exchange that acquires the combiner lock inside invoke_exclusive, which also
    runs the functor and records it as an instantaneous operation ("lock", "inv", "exec", "ret"): it is the
    composition of [safe_xchg], [safe_emit_lock] and a linearization-point lemma [Inv_excl_lp] (the holder of the
    lock executes an operation of the specification on the container: container = specification state is kept). *)
From Coq Require Import ZArith List String Bool Lia PeanoNat.
From LV Require Import Base.Conc Base.Events Base.Lin Model.FcKernel Model.FcKernelWake Model.FcBatch
                       Proofs.LinProofs Proofs.FcBatchProofs Proofs.FcKernelProofs Proofs.FcWakeProofs Model.FcDequeFull.
Import ListNotations.
Local Open Scope string_scope.
Local Open Scope list_scope.

Set Implicit Arguments.

Section ExclA.
  Variable S : Spec.
  Variable rs0 : Res S.
  Variable rs_enc : Res S -> list Z.
  Variable rdec : list Z -> Res S.
  Hypothesis rdec_enc : forall r, rdec (rs_enc r) = r.
  Variable okop : nat -> bool.
  Hypothesis okop_ge2 : forall op, okop op = true -> 2 <= op.
  Variable dec : nat -> Z -> Op S.
  Variable capply : St S -> nat -> Z -> St S * Res S.
  Hypothesis capply_spec : forall c op arg, okop op = true -> capply c op arg = sstep S c (dec op arg).
  Variable P : Type.
  Variable pinit : P.
  Variable pheld : P -> list (nat * nat * Z).
  Hypothesis pinit_held : pheld pinit = [].
  Variable pvisit : P -> St S -> nat -> nat -> nat -> Z -> P * St S * list (nat * Res S).
  Hypothesis pvisit_sound : visit_sound S pheld okop dec pvisit.
  Variables wk wkin : bool.
  (** the functors of invoke_exclusive: labels accepted by [xok], each an operation of the specification *)
  Variable xok : nat -> bool.
  Variable cexcl : nat -> Z -> St S -> St S * Res S.
  Hypothesis cexcl_spec : forall c op arg, xok op = true -> cexcl op arg c = sstep S c (dec op arg).

  Notation G := (FcKernel.G (St S) (Res S)).
  Notation V := (FcKernel.V (Res S) P).
  Notation prog := (Conc.prog G V ev).
  Notation safe := (@Conc.safe G V ev (aux S) (tview S) (@view S) (Inv rdec okop dec)).

  Notation xspin := (@spin_lock_excl (St S) (Res S) rs_enc P cexcl).
  Notation xexcl := (@invoke_exclusive_op (St S) (Res S) rs_enc P wk wkin cexcl).
  Notation xrun_ops := (@run_xops (St S) (Res S) rs0 rs_enc capply P pinit pvisit wk wkin cexcl).
  Notation xthread := (@xthread_prog (St S) (Res S) rs0 rs_enc capply P pinit pvisit wk wkin cexcl).
  Notation xthreads := (@xthread_progs (St S) (Res S) rs0 rs_enc capply P pinit pvisit wk wkin cexcl).
  Notation xinit := (@xinit_cfg (St S) (Res S) rs0 rs_enc capply P pinit pvisit wk wkin cexcl).

  (** ** the linearization point of an exclusive operation: the holder of the combiner lock, outside any request,
         applies an operation of the specification to the container *)
  Lemma Inv_excl_lp g a tr t op arg :
    Inv rdec okop dec g a tr -> x_ph a t = PIdle S -> x_lk a t = LInside ->
    let o := dec op arg in
    let c' := fst (sstep S (g_cont g) o) in
    let rs := snd (sstep S (g_cont g) o) in
    Inv rdec okop dec (set_cont g c')
        (set_st (set_st (set_st a t (Pending o)) t (Linearized o rs)) t Idle)
        (tr ++ Conc.tag t [EvCli "inv" [Z.of_nat op; arg]; EvCli "exec" ([Z.of_nat t; Z.of_nat op; arg] ++ rs_enc rs);
                           EvCli "ret" (rs_enc rs)]).
  Proof.
    intros [HL HR] Eph Elk o c' rs. split.
    - do 3 apply LkInv_set_st. destruct HL as [L1 L2 (h & L3 & L4)].
      assert (Hh : h = Some t) by (apply L4; exact Elk). subst h.
      split; [exact L1|exact L2|]. exists (Some t). split; [|exact L4].
      rewrite mon_app, L3. cbn. unfold mon_step, is_ev, is_cli; cbn. rewrite Nat.eqb_refl. reflexivity.
    - destruct HR as [Hlost|HR]; [left; apply lost_mono; exact Hlost|right].
      pose proof (r_phase HR t) as Hpo. unfold phase_ok in Hpo. rewrite Eph in Hpo. destruct Hpo as (Hst & Hreq).
      destruct HR as [R1 R2 R3 R4 R5 R6 R7 R8 R9 R10 R11 R12]. split; try assumption.
      + intros t0. destruct (Nat.eq_dec t0 t) as [->|Hne].
        * unfold phase_ok. cbn [set_st x_ph x_my x_st]. rewrite Eph, !upd_same. split; [reflexivity|exact Hreq].
        * apply phase_ok_transfer with (g := g) (a := a); try (cbn; rewrite ?upd_other by exact Hne; reflexivity); [|apply R7].
          intros r0 Hr0. split; [repeat split|reflexivity].
      + rewrite annot_app.
        change (annot S rdec dec (Conc.tag t [EvCli "inv" [Z.of_nat op; arg]; EvCli "exec" ([Z.of_nat t; Z.of_nat op; arg] ++ rs_enc rs);
                                            EvCli "ret" (rs_enc rs)]))
          with [AInv t (dec (Z.to_nat (Z.of_nat op)) arg); ALin (Z.to_nat (Z.of_nat t)); ARes t (rdec (rs_enc rs))].
        rewrite !Nat2Z.id, rdec_enc, lp_run_app, R10. cbn [lp_run lp_step]. rewrite Hst.
        assert (U : forall (st : nat -> status S) x, Lin.upd st t x t = x)
          by (intros st x; unfold Lin.upd; rewrite Nat.eqb_refl; reflexivity).
        assert (E : res_eqb S rs rs = true) by (apply res_eqb_spec; reflexivity).
        cbn [lp_step]. rewrite U. cbn [lp_step]. rewrite U. fold o. fold rs. rewrite E. reflexivity.
  Qed.

  (** ** the exchange of invoke_exclusive's lock, with the functor *)
  Lemma safe_xchg_excl R t op arg (k : V -> prog R) l Q :
    xok op = true -> v_ph l = PIdle S ->
    safe t (k (VN (Res S) P 1)) l Q ->
    (forall rs, safe t (k (VR P rs)) (vlk (vlk l LHeld) LInside) Q) ->
    safe t (Act (@a_xchg_excl (St S) (Res S) rs_enc P cexcl t op arg) k) l Q.
  Proof.
    intros Hx Hp K1 K0. cbn [Conc.safe]. intros g a tr Hi Hv. unfold a_xchg_excl.
    destruct (g_lock g) eqn:El; cbn [fst snd].
    - (* the lock is held by somebody else: the step of a_xchg *)
      pose proof (@safe_xchg S rdec okop dec P _ t (fun v => Ret v) l (fun v l' => v = VN (Res S) P 1 -> l' = l)
                    (fun _ => eq_refl) (fun E => ltac:(discriminate E))) as H.
      cbn [Conc.safe] in H. destruct (H g a tr Hi Hv) as (a1 & I1 & F1 & Q1). unfold a_xchg in I1, Q1. cbn [fst snd] in I1, Q1.
      rewrite El in Q1. exists a1. split; [exact I1|]. split; [exact F1|]. rewrite (Q1 eq_refl). exact K1.
    - (* the lock is free: a_xchg, then "lock", then the functor as one linearization point *)
      pose proof (@safe_xchg S rdec okop dec P _ t (fun v => Ret v) l (fun v l' => v = VN (Res S) P 0 -> l' = vlk l LHeld)
                    (fun E => ltac:(discriminate E)) (fun _ => eq_refl)) as H.
      cbn [Conc.safe] in H. destruct (H g a tr Hi Hv) as (a1 & I1 & F1 & Q1). unfold a_xchg in I1, Q1. cbn [fst snd] in I1, Q1.
      rewrite El in Q1. specialize (Q1 eq_refl).
      pose proof (@safe_emit_lock S rdec okop dec P _ t (Ret tt) (vlk l LHeld) (fun _ l' => l' = vlk (vlk l LHeld) LInside)
                    eq_refl eq_refl) as H2.
      cbn [Conc.safe] in H2. destruct (H2 _ a1 _ I1 Q1) as (a2 & I2 & F2 & Q2).
      assert (Eph : x_ph a2 t = PIdle S) by (rewrite (view_ph Q2); exact Hp).
      assert (Elk : x_lk a2 t = LInside) by (rewrite (view_lk Q2); reflexivity).
      pose proof (@Inv_excl_lp _ _ _ t op arg I2 Eph Elk) as I3. cbn zeta in I3.
      rewrite (cexcl_spec (g_cont g) arg Hx).
      eexists. split; [|split].
      + change (g_cont g) with (g_cont (set_lock g true)).
        replace (tr ++ Conc.tag t _) with
          (((tr ++ Conc.tag t [EvAcc KXchg obj_lock true]) ++ Conc.tag t [EvCli "lock" []]) ++
           Conc.tag t [EvCli "inv" [Z.of_nat op; arg];
                       EvCli "exec" ([Z.of_nat t; Z.of_nat op; arg] ++ rs_enc (snd (sstep S (g_cont (set_lock g true)) (dec op arg))));
                       EvCli "ret" (rs_enc (snd (sstep S (g_cont (set_lock g true)) (dec op arg))))]);
          [exact I3|].
        rewrite <- !app_assoc. reflexivity.
      + eapply frame_trans; [eapply frame_trans; [exact F1|exact F2]|].
        eapply frame_trans; [eapply frame_trans; [apply frame_set_st|apply frame_set_st]|apply frame_set_st].
      + rewrite !view_set_st, Q2. apply K0.
  Qed.

  Lemma safe_spin_x t op arg : xok op = true -> forall fuel sp l (Pq : Res S -> tview S -> Prop),
    v_ph l = PIdle S -> (forall rs, Pq rs (vlk (vlk l LHeld) LInside)) ->
    safe t (xspin fuel sp t op arg) l (optQ Pq).
  Proof.
    intros Hx. induction fuel as [|fu IH]; intros sp l Pq Hp HQ; cbn [spin_lock_excl]; [exact I|]. destruct sp.
    - apply safe_neutral; [apply neutral_a_ldlock|]. intros v. destruct (Nat.eqb (vn v) 0); apply IH; assumption.
    - apply safe_xchg_excl; [exact Hx|exact Hp|apply IH; assumption|]. intros rs. apply safe_ret. apply HQ.
  Qed.

  Lemma safe_excl_x t fuel my op arg l : xok op = true -> Idle_at my l ->
    safe t (xexcl fuel t op arg) l (optQ (fun _ l' => Idle_at my l')).
  Proof.
    intros Hx (Hm & Hp & Hlk & Hfin). unfold invoke_exclusive_op.
    apply safe_emit_quiet; try discriminate.
    apply safe_obind. apply safe_spin_x; [exact Hx|exact Hp|]. intros rs.
    destruct wkin.
    - apply safe_obind. apply safe_wakeup_a.
      apply safe_emit_unlock; [reflexivity|exact Hfin|]. apply safe_unlock; [reflexivity|]. intros v1.
      apply safe_emit_quiet; try discriminate. apply safe_ret. repeat split; assumption.
    - apply safe_emit_unlock; [reflexivity|exact Hfin|]. apply safe_unlock; [reflexivity|]. intros v1.
      apply safe_obind. apply safe_wakeup_a.
      apply safe_emit_quiet; try discriminate. apply safe_ret. repeat split; assumption.
  Qed.

  (** ** client programs *)
  Definition xop_ok (o : xop) : Prop :=
    match o with XReq _ op _ => okop op = true | XExit => True | XExcl op _ => xok op = true end.

  Lemma safe_run_xops t fuel mask npass : forall os my l, Forall xop_ok os -> Idle_at my l ->
    safe t (xrun_ops fuel mask npass t my os) l (optQ (fun _ _ => True)).
  Proof.
    induction os as [|o os IH]; intros my l Hall Hi; cbn [run_xops].
    - eapply Conc.safe_weaken; [|apply safe_kexit; exact Hi]. intros [u|] l' Hx; exact I.
    - inversion Hall as [|? ? Ho Hall']; subst. destruct o as [batch op arg| |op arg].
      + apply safe_obind.
        eapply Conc.safe_weaken;
          [|apply (@safe_request_w S rs0 rs_enc rdec rdec_enc okop okop_ge2 dec capply capply_spec P pinit pheld pinit_held
                                   pvisit pvisit_sound wk wkin); [exact Ho|exact Hi]].
        intros [r|] l' Hx; [|exact I]. unfold optQ in Hx. apply IH; assumption.
      + apply safe_obind. eapply Conc.safe_weaken; [|apply safe_kexit; exact Hi].
        intros [u|] l' Hx; [|exact I]. unfold optQ in Hx. apply IH; assumption.
      + apply safe_obind. eapply Conc.safe_weaken; [|apply safe_excl_x; [exact Ho|exact Hi]].
        intros [u|] l' Hx; [|exact I]. unfold optQ in Hx. apply IH; assumption.
  Qed.

  Lemma safe_xthread t fuel mask npass os l : Forall xop_ok os -> Idle_at None l ->
    safe t (xthread fuel mask npass t os) l (@Conc.QTrue (tview S)).
  Proof.
    intros Hall Hi. unfold xthread_prog. apply safe_neutral; [apply neutral_a_begin|]. intros v.
    apply Conc.safe_bind.
    eapply Conc.safe_weaken; [|apply safe_run_xops; eassumption].
    intros [u|] l' _; [exact I|]. apply safe_emit_quiet; try discriminate. exact I.
  Qed.

  Lemma nth_error_xthreads fuel mask npass : forall ths t0 i p,
    nth_error (xthreads fuel mask npass t0 ths) i = Some p ->
    exists os, nth_error ths i = Some os /\ p = xthread fuel mask npass (t0 + i) os.
  Proof.
    induction ths as [|os ths IH]; intros t0 i p H; cbn [xthread_progs] in H; [destruct i; discriminate|].
    destruct i as [|i]; cbn in H.
    - inversion H; subst. exists os. split; [reflexivity|]. rewrite Nat.add_0_r. reflexivity.
    - destruct (IH _ _ _ H) as (os' & A & B). exists os'. split; [exact A|]. rewrite B. f_equal. lia.
  Qed.

  Definition xops_ok (ths : list (list xop)) : Prop := Forall (Forall xop_ok) ths.

  Lemma init_ok_x fuel mask npass ths : xops_ok ths ->
    Conc.cfg_ok (@view S) (Inv rdec okop dec) (xinit fuel mask npass (sinit S) ths).
  Proof.
    intros Hok. exists (aux0 S). split.
    - split.
      + split.
        * intros _ t. reflexivity.
        * intros t t' H. exfalso; apply H; reflexivity.
        * exists None. split; [reflexivity|]. intros t. cbn. split; discriminate.
      + right. split.
        * intros t t' r H. discriminate.
        * intros t r H. discriminate.
        * intros r _. cbn. unfold st_removed. discriminate.
        * intros r H. cbn in H. unfold st_removed in H. discriminate.
        * intros t r H. discriminate.
        * intros r H. cbn in H. unfold req_Operation in H. lia.
        * intros t. unfold phase_ok; cbn. split; [reflexivity|discriminate].
        * intros t q o x [].
        * intros t q [].
        * reflexivity.
        * intros t e [].
        * intros t. constructor.
    - intros t p Hp. cbn [xinit_cfg Conc.threads] in Hp.
      destruct (nth_error_xthreads _ _ _ _ _ _ Hp) as (os & A & ->).
      cbn [Nat.add]. apply safe_xthread.
      + eapply Forall_forall in Hok; [exact Hok|]. eapply nth_error_In; exact A.
      + repeat split.
  Qed.

  (** Part A for the kernel with exclusive operations, both orders of the wakeup, every schedule: one holder of
      the combiner lock at a time (exclusive sections included; "exec" only by the holder), and as long as no
      record is released unanswered the LP-annotated trace - published requests AND exclusive operations - is
      valid for the sequential specification; the container always equals the specification state. *)
  Theorem fc_excl_partA fuel mask npass ths c :
    xops_ok ths -> Conc.reach (xinit fuel mask npass (sinit S) ths) c ->
    (exists h, mon None (Conc.trace c) = Some h) /\
    (has_lost (Conc.trace c) = false ->
     exists st, lp_run lp_init (@annot S rdec dec (Conc.trace c)) = Some (g_cont (Conc.shared c), st)).
  Proof.
    intros Hok Hr. destruct (Conc.reach_Inv (init_ok_x fuel mask npass Hok) Hr) as (a & [HL HR]).
    split.
    - destruct HL as [_ _ (h & Hm & _)]. exists h. exact Hm.
    - intros Hnl. destruct HR as [Hl|HR]; [congruence|]. eexists. apply (r_lp HR).
  Qed.
End ExclA.
