(** DhpConsProgB2: copy of LV.Proofs.DhpProgB2 over the two-directional pointer invariant of LV.Proofs.DhpConsInv (conservation);
    the text differs from the original where the JW part of a goal is proved. *)
(** * DhpProgB2: smr::alloc_thread_data preserves the C03 invariant. *)
From Coq Require Import ZArith NArith List String Bool Lia PeanoNat.
From LV Require Import Base.Conc Base.Events Model.DhpLang Model.Dhp Proofs.DhpBase Proofs.DhpSeq Proofs.DhpSeqThm Proofs.DhpHist
  Proofs.DhpLangProofs Proofs.DhpAllocA Proofs.DhpInvB Proofs.DhpConsInv Proofs.DhpConsQuietB Proofs.DhpConsQuietB2 Proofs.DhpConsRulesB Proofs.DhpConsStepsB1 Proofs.DhpConsStepsB2
  Proofs.DhpConsStepsB3 Proofs.DhpConsStepsB4 Proofs.DhpConsStepsB5 Proofs.DhpConsStepsB6 Proofs.DhpConsStepsB7 Proofs.DhpConsProgB1.
Import ListNotations.

Definition idle (l : VB) : Prop :=
  vb_new l = None /\ vb_blk l = None /\ vb_limbo l = None /\ vb_pend l = None /\ vb_freed l = [] /\ vb_full l = None /\
  vb_move l = None /\ vb_cur l = None /\ vb_dead l = None /\ vb_s0 l = None.

Section ProgB2.
  Variable c : cfg.
  Notation RB := (c_RB c).
  Hypothesis HRB : 4 <= RB.
  Hypothesis Hold : c_old c = false.

  Definition ext (l l' : VB) : Prop := idle l' /\ forall r, In r (vb_own l) -> In r (vb_own l').

  Lemma qev_acc k o ok : Forall qevB (acc k o ok).
  Proof. unfold acc. constructor; [apply qevB_acc|constructor]. Qed.

  Lemma reuse_recs_spec t (Q : option (option nat) -> VB -> Prop) : forall fuel node l,
    idle l -> (forall h, node = Some h -> vb_node l = Some h) ->
    (forall h l', ext l l' -> In h (vb_own l') -> Q (Some (Some h)) l') -> (forall l', ext l l' -> Q (Some None) l') -> (forall l', Q None l') ->
    dsafeB c t (reuse_recs fuel (S t) node) l Q.
  Proof.
    induction fuel as [|fuel IH]; intros node l Hi Hn HS HNo HN; destruct node as [h|]; cbn [reuse_recs].
    - apply dsafeB_fuel_out. apply HN.
    - apply dsafeB_ret. apply HNo. split; auto.
    - specialize (Hn h eq_refl).
      apply dsafeB_xact. intros g a tr Hv. unfold viewB in Hv. unfold a_cas_tid. destruct (Nat.eqb_spec (r_tid (grec g h)) 0) as [E|E]; cbn [fst snd].
      + exists (setv a t (set_own (bvs a t) (h :: vb_own (bvs a t)))). split; [eapply frame_bvs; reflexivity|]. split.
        * intros _ _ J. apply JB_quiet_ev; [apply qev_acc|]. apply S_cas_ok; auto. rewrite Hv. exact Hn.
        * unfold viewB. cbn [bvs setv]. rewrite fn_same, Hv. apply dsafeB_xact_q; [apply qB_st_free|]. intros _. apply dsafeB_ret.
          apply HS; [|cbn; now left]. split; [exact Hi|]. intros r Hr. cbn. now right.
      + exists a. split; [apply frame_refl|]. split.
        * intros _ _ J. apply JB_quiet_ev; [apply qev_acc|exact J].
        * unfold viewB. rewrite Hv. apply dsafeB_xloc. clear E g a tr Hv. intros g a tr Hv. unfold viewB in Hv.
          exists (setv a t (set_node (bvs a t) (r_next (grec g h)))). split; [eapply frame_bvs; reflexivity|]. split.
          -- intros J. apply S_node; auto. intros n En. eapply JB_tl_next; eauto. destruct J as [[_ O2 _ _ _] _ _ _]. apply (O2 t). rewrite Hv. exact Hn.
          -- unfold viewB. cbn [bvs setv fst snd]. rewrite fn_same, Hv. apply IH; auto.
    - apply dsafeB_ret. apply HNo. split; auto.
  Qed.

  Lemma push_rec_spec t r (Q : option unit -> VB -> Prop) : forall fuel old l nx,
    vb_new l = Some (r, nx) -> Q (Some tt) (set_new l None) -> (forall l', Q None l') ->
    dsafeB c t (push_rec fuel r old) l Q.
  Proof.
    induction fuel as [|fuel IH]; intros old l nx Hn HQ HN; cbn [push_rec].
    - apply dsafeB_fuel_out. apply HN.
    - apply dsafeB_xloc. intros g a tr Hv. unfold viewB in Hv. exists (setv a t (set_new (bvs a t) (Some (r, old)))).
      split; [eapply frame_bvs; reflexivity|]. split; [intros J; eapply S_setnext; eauto; rewrite Hv; exact Hn|].
      unfold viewB. cbn [bvs setv]. rewrite fn_same, Hv. clear g a tr Hv.
      apply dsafeB_xact. intros g a tr Hv. unfold viewB in Hv. unfold a_cas_tlist. destruct (oeqb (tlist g) old) eqn:E; cbn [fst snd].
      + apply oeqb_eq in E. exists (aux_pushed a t r). split; [eapply frame_bvs; reflexivity|]. split.
        * intros _ _ J. apply JB_quiet_ev; [apply qev_acc|]. apply S_castl_ok; auto. rewrite Hv, E. reflexivity.
        * unfold viewB. cbn [bvs aux_pushed]. rewrite fn_same, Hv. apply dsafeB_ret. exact HQ.
      + exists a. split; [apply frame_refl|]. split.
        * intros _ _ J. apply JB_quiet_ev; [apply qev_acc|exact J].
        * unfold viewB. rewrite Hv. eapply IH; eauto. reflexivity.
  Qed.

  Lemma idle_set_own l x : idle l -> idle (set_own l x). Proof. unfold idle. cbn. tauto. Qed.
  Lemma idle_set_node l x : idle l -> idle (set_node l x). Proof. unfold idle. cbn. tauto. Qed.

  Lemma alloc_thread_data_spec t l (Q : option nat -> VB -> Prop) :
    idle l -> (forall r l', ext l l' -> In r (vb_own l') -> vb_arr l' = Some r -> Q (Some r) l') -> (forall l', Q None l') ->
    dsafeB c t (alloc_thread_data c (S t)) l Q.
  Proof.
    intros Hi HQ HN. unfold alloc_thread_data.
    assert (Hfin : forall r l', ext l l' -> In r (vb_own l') ->
              dsafeB c t (xbind (loc (hp_init c r)) (fun _ => xbind (rt_init c r) (fun _ => ret r))) l' Q).
    { intros r l' (Hi' & Hx) Hr. pose proof Hi' as (I1 & I2 & I3 & I4 & I5 & I6 & I7 & I8 & I9 & I10).
      apply dsafeB_xloc_q; [intros; apply piB_hp_init|]. intros _. apply dsafeB_xbind. apply rt_init_spec; auto; try congruence.
      cbn beta iota. apply dsafeB_ret. apply HQ; auto. split; [unfold idle in *; cbn; tauto|cbn; auto]. }
    apply dsafeB_xact. intros g a tr Hv. unfold viewB in Hv. exists (setv a t (set_node (bvs a t) (tlist g))). split; [eapply frame_bvs; reflexivity|]. split.
    { intros _ _ J. apply S_node; [|apply JB_quiet_ev; [apply qev_acc|exact J]]. intros h E. eapply JB_tl_head; eauto. }
    unfold viewB. cbn [bvs setv fst snd a_ld_tlist]. rewrite fn_same, Hv. generalize (tlist g) as node. clear g a tr Hv. intros node. apply dsafeB_xbind.
    assert (Hi1 : idle (set_node l node)) by (apply idle_set_node; exact Hi).
    apply reuse_recs_spec; [exact Hi1|intros h E; exact E| | |exact HN].
    - intros h l' (X1 & X2) Hh. cbn beta iota. apply dsafeB_xbind. apply dsafeB_ret. cbn beta iota. apply Hfin; auto. split; auto.
    - intros l' (X1 & X2). cbn beta iota. apply dsafeB_xbind. pose proof X1 as (I1 & I2 & I3 & I4 & I5 & I6 & I7 & I8 & I9 & I10).
      apply dsafeB_xloc. intros g a tr Hv. unfold viewB in Hv. exists (aux_newrec a t (List.length (recs g))). split; [eapply frame_bvs; reflexivity|]. split.
      { intros J. apply S_newrec; [rewrite Hv; exact I1|exact J]. }
      unfold viewB. cbn [bvs aux_newrec fst snd new_rec]. rewrite fn_same, Hv. set (r := List.length (recs g)). clearbody r. clear g a tr Hv.
      apply dsafeB_xact_q; [apply qB_st_ext|]. intros _.
      apply dsafeB_xact. intros g a tr Hv. unfold viewB in Hv. exists (setv a t (set_own (bvs a t) (r :: vb_own (bvs a t)))). split; [eapply frame_bvs; reflexivity|]. split.
      { intros _ _ J. apply JB_quiet_ev; [apply qev_acc|]. eapply S_sttid_new; eauto. rewrite Hv. reflexivity. }
      unfold viewB. cbn [bvs setv fst snd a_st_tid]. rewrite fn_same, Hv. clear g a tr Hv.
      apply dsafeB_xact_q; [apply qB_ld_tlist|]. intros old. apply dsafeB_xbind.
      eapply push_rec_spec; [reflexivity| |apply HN]. cbn beta iota. apply dsafeB_ret. cbn beta iota. apply Hfin; [|cbn; now left].
      split; [unfold idle in *; cbn; tauto|]. intros r' Hr'. cbn. right. auto.
  Qed.
End ProgB2.
