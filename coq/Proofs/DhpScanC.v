(** * DhpScanC: rules for the scan markers and the dispose events; specification of stage 1 and of smr::scan. *)
From Coq Require Import ZArith NArith List String Bool Lia PeanoNat.
From LV Require Import Base.Conc Base.Events Model.DhpLang Model.Dhp Proofs.DhpBase Proofs.DhpHist
  Proofs.DhpLangProofs Proofs.DhpInvA Proofs.DhpStepsA Proofs.DhpQuietA Proofs.DhpSlotA Proofs.DhpScanA Proofs.DhpScanB.
Import ListNotations.

Lemma with_scan_twice l x y : with_scan (with_scan l x) y = with_scan l y.
Proof. reflexivity. Qed.
Lemma va_scan_with l o : va_scan (with_scan l o) = o.
Proof. reflexivity. Qed.

Lemma flbad_prefix tr es : flbad (hist (tr ++ es)) = false -> flbad (hist tr) = false.
Proof. intros H. destruct (flbad (hist tr)) eqn:E; auto. rewrite (flbad_mono tr es E) in H. discriminate. Qed.

Section ScanC.
  Variable c : cfg.
  Notation dsafeA := (@dsafe G ev AuxA VA viewA (InvA c)).

  Lemma dsafe_xbind {X Y} t (p : P X) (q : X -> P Y) l (Q : option Y -> VA -> Prop) :
    dsafeA t p l (fun o l' => match o with Some x => dsafeA t (q x) l' Q | None => Q None l' end) ->
    dsafeA t (xbind p q) l Q.
  Proof.
    intros H. unfold xbind. apply dsafe_bind. eapply dsafe_weaken; [|exact H].
    intros [x|] l' K; cbn; auto.
  Qed.

  (** ** "_scanb" *)
  Lemma dsafe_emit_scanb {R} t r (k : @dprog G ev R) l Q :
    va_scan l = None -> (forall s0, dsafeA t k (with_scan l (Some (mkSS s0 [] [] PStart))) Q) ->
    dsafeA t (DEmit [ev_scanb r] k) l Q.
  Proof.
    intros Hs Hk. cbn [dsafe]. intros g a tr Hi Hv.
    set (ss := mkSS (hlen (hist tr)) [] [] PStart).
    exists (set_view a t (with_scan l (Some ss))). split; [|split; [apply frame_set_view|rewrite view_set_same; apply Hk]].
    intros Hfl. destruct (Hi (flbad_prefix _ _ Hfl)) as (J & ND). split.
    - cbn [Conc.tag map]. rewrite hist_snoc, hstep_scanb. unfold viewA in Hv. rewrite <- Hv.
      set (h := hist tr) in *.
      set (h1 := mkH (S (hlen h)) (slotv h) (lastw h) (att h) (linked h) (scan h) (freeh h) (flbad h)).
      assert (J1 : JA c g a h1).
      { eapply JA_quiet; [apply piA_refl| | | | |exact J]; [unfold hA, h1; cbn; repeat split; auto|reflexivity|reflexivity|apply (ja_slot _ _ _ _ J)]. }
      apply (JA_set_scan_gen c g a h1 t (Some ss) (fupd Nat.eqb (scan h) t (Some (hlen h))) J1).
      + intros t' N. unfold fupd, h1. cbn [scan]. destruct (Nat.eqb_spec t' t); [contradiction|reflexivity].
      + split; [unfold fupd; now rewrite Nat.eqb_refl|]. unfold scan_ok, ss. cbn. repeat split; auto; try (intros s w []).
    - apply ndwg_app; auto. apply not_dispose_tag. intros e [<-|[]] p E.
      apply (f_equal classify) in E. rewrite classify_scanb, classify_dispose in E. discriminate.
  Qed.

  (** ** "_scane" *)
  Lemma dsafe_emit_scane {R} t r (k : @dprog G ev R) l ss Q :
    va_scan l = Some ss -> dsafeA t k (with_scan l None) Q -> dsafeA t (DEmit [ev_scane r] k) l Q.
  Proof.
    intros Hs Hk. cbn [dsafe]. intros g a tr Hi Hv.
    exists (set_view a t (with_scan l None)). split; [|split; [apply frame_set_view|rewrite view_set_same; exact Hk]].
    intros Hfl. destruct (Hi (flbad_prefix _ _ Hfl)) as (J & ND). split.
    - cbn [Conc.tag map]. rewrite hist_snoc, hstep_scane. unfold viewA in Hv. rewrite <- Hv.
      set (h := hist tr) in *.
      set (h1 := mkH (S (hlen h)) (slotv h) (lastw h) (att h) (linked h) (scan h) (freeh h) (flbad h)).
      assert (J1 : JA c g a h1).
      { eapply JA_quiet; [apply piA_refl| | | | |exact J]; [unfold hA, h1; cbn; repeat split; auto|reflexivity|reflexivity|apply (ja_slot _ _ _ _ J)]. }
      apply (JA_set_scan_gen c g a h1 t None (fupd Nat.eqb (scan h) t None) J1).
      + intros t' N. unfold fupd, h1. cbn [scan]. destruct (Nat.eqb_spec t' t); [contradiction|reflexivity].
      + unfold fupd. now rewrite Nat.eqb_refl.
    - apply ndwg_app; auto. apply not_dispose_tag. intros e [<-|[]] p E.
      apply (f_equal classify) in E. rewrite classify_scane, classify_dispose in E. discriminate.
  Qed.

  (** ** the disposer calls of stage 2 *)
  Lemma guards_since_same h h' s p s0 :
    (forall s, slotv h' s = slotv h s) -> (forall s, lastw h' s = lastw h s) -> (forall r, att h' r = att h r) ->
    (forall r, linked h' r = linked h r) -> guards_since c h' s p s0 -> guards_since c h s p s0.
  Proof.
    intros E1 E2 E3 E4 (Hv & (w & Hw & Hlt) & (k & Hl & Hk)). unfold guards_since.
    rewrite <- E1, <- E2. split; auto. split; [eauto|]. exists k. split; auto.
    destruct s as [r i|b i]; cbn in *.
    - destruct Hl as (t & X & Y). exists t. rewrite <- E3. auto.
    - destruct Hl as (r & t & k0 & X & Y & Z). exists r, t, k0. rewrite <- E3, <- E4. auto.
  Qed.

  Lemma app_snoc_split {A} (tr tr1 tr2 : list A) (x y : A) :
    tr ++ [x] = tr1 ++ y :: tr2 -> (tr2 = [] /\ tr1 = tr /\ y = x) \/ exists tr2', tr = tr1 ++ y :: tr2'.
  Proof.
    revert tr; induction tr1 as [|z tr1 IH]; intros tr E.
    - destruct tr as [|w tr]; cbn in E.
      + inversion E; subst. left; auto.
      + inversion E; subst. right. now exists tr.
    - destruct tr as [|w tr]; cbn in E.
      + inversion E. destruct tr1; discriminate.
      + inversion E; subst. destruct (IH tr H1) as [(A1 & A2 & A3)|(tr2' & ->)].
        * left. subst. auto.
        * right. now exists tr2'.
  Qed.

  Lemma ndwg_snoc_dispose tr t p : no_dispose_while_guarded c tr ->
    (p <> 0 -> forall s0 s, scan (hist tr) t = Some s0 -> ~ guards_since c (hist tr) s p s0) ->
    no_dispose_while_guarded c (tr ++ [(t, ev_dispose p)]).
  Proof.
    intros ND Hp tr1 t' p' tr2 E Hp' s0 Hs s.
    destruct (app_snoc_split _ _ _ _ _ E) as [(E1 & E2 & E3)|(tr2' & E')].
    - subst tr1. pose proof (f_equal fst E3) as Et. pose proof (f_equal snd E3) as Ee. cbn in Et, Ee. subst t'.
      apply (f_equal classify) in Ee. rewrite !classify_dispose in Ee. inversion Ee; subst p'. eapply Hp; eauto.
    - eapply ND; eauto.
  Qed.

  Lemma ndwg_disposes t : forall freed tr, no_dispose_while_guarded c tr ->
    (forall p, In p freed -> p <> 0 -> forall s0 s, scan (hist tr) t = Some s0 -> ~ guards_since c (hist tr) s p s0) ->
    no_dispose_while_guarded c (tr ++ Conc.tag t (map ev_dispose freed)).
  Proof.
    induction freed as [|p freed IH]; intros tr ND Hp; [cbn; now rewrite app_nil_r|].
    replace (tr ++ Conc.tag t (map ev_dispose (p :: freed))) with ((tr ++ [(t, ev_dispose p)]) ++ Conc.tag t (map ev_dispose freed))
      by (rewrite <- app_assoc; reflexivity).
    apply IH.
    - apply ndwg_snoc_dispose; auto. intros Hnz s0 s. apply Hp; auto. now left.
    - intros p' Hin Hnz s0 s Hs G. rewrite hist_snoc, hstep_dispose in Hs, G. cbn [scan] in Hs.
      eapply (Hp p' (or_intror Hin) Hnz s0 s Hs). eapply guards_since_same; [| | | |exact G]; reflexivity.
  Qed.

  Lemma hQ_disposes t freed : forall h, hQ h (fold_left hstep (Conc.tag t (map ev_dispose freed)) h).
  Proof.
    induction freed as [|p freed IH]; intros h; cbn; [apply hQ_refl|].
    eapply hQ_trans; [|apply IH]. rewrite hstep_dispose. unfold hQ. cbn. repeat split; auto.
  Qed.

  Lemma dsafe_emit_dispose {R} t freed (k : @dprog G ev R) l ss Q :
    va_scan l = Some ss -> ss_pos ss = PNode None -> (forall p, In p freed -> ~ In p (ss_pl ss)) ->
    dsafeA t k l Q -> dsafeA t (DEmit (map ev_dispose freed) k) l Q.
  Proof.
    intros Hs Hpos Hfr Hk. cbn [dsafe]. intros g a tr Hi Hv.
    exists a. split; [|split; [apply frame_refl|now rewrite Hv]].
    intros Hfl. destruct (Hi (flbad_prefix _ _ Hfl)) as (J & ND).
    pose proof (ja_scan _ _ _ _ J t) as K. unfold viewA in Hv. rewrite Hv, Hs in K. destruct K as (K1 & K2).
    split.
    - rewrite hist_app. pose proof (hQ_disposes t freed (hist tr)) as Hh.
      eapply JA_quiet; [apply piA_refl|apply hQ_hA; exact Hh|apply hQ_scan; exact Hh|apply hQ_freeh; exact Hh| |exact J].
      intros s. destruct Hh as (B1 & _). rewrite B1. apply (ja_slot _ _ _ _ J).
    - apply ndwg_disposes; auto. intros p Hin Hnz s0 s Hsc G. rewrite K1 in Hsc. inversion Hsc; subst s0.
      apply (Hfr p Hin). eapply scan_end_guarded; eauto.
  Qed.
End ScanC.
