(** * general_threaded: the two facts that carry the grace-period argument across the hand-off to the reclamation thread.
    [closed tr i] - every read-side section opened before position i has been left - is a property of the trace alone and
    stable under every extension of the trace; a completed grace period with marker i establishes it ([wfin_closed]).
    Together with the epoch lemma (LV.Proofs.RcuBufEpoch) it makes the disposal of an entry of an older epoch safe at any
    later time, by any thread ([gpt_no_dispose_inside_old_reader_partial], kept as a lemma).  The full theorem
    [gpt_no_dispose_inside_old_reader_statement] is proved in LV.Proofs.RcuThrProd (gpt_dispose_safe_all). *)
From Coq Require Import ZArith List String Bool Lia PeanoNat.
From LV Require Import Base.Conc Base.Events Model.RcuGp Model.RcuBuf Model.RcuThreaded Proofs.RcuGpInv Proofs.RcuBufEpoch.
Import ListNotations.
Local Open Scope string_scope.
Local Open Scope list_scope.
Local Open Scope Z_scope.

Definition gpt_no_dispose_inside_old_reader_statement : Prop :=
  forall sfuel rounds cap cnt (ths : list (list bop)) c,
    Conc.reach (tinit_cfg sfuel rounds cap cnt ths) c -> dispose_safe (Conc.trace c).

(** every read-side section opened before position [i] has been left *)
Definition closed (tr : trace) (i : nat) : Prop :=
  forall r s, at_ tr s r is_rlock1 -> (s < i)%nat -> exists b, (s < b)%nat /\ at_ tr b r is_runlock0.

Lemma closed_app tr x i : (i <= List.length tr)%nat -> closed tr i -> closed (tr ++ x) i.
Proof.
  intros Hi H r s Hat Hs. assert (Hl : (s < List.length tr)%nat) by lia.
  destruct (H r s (at_app_inv _ _ _ _ _ Hat Hl) Hs) as (b & Hb & Hrb). exists b. split; [exact Hb|apply at_app_l; exact Hrb].
Qed.

(** (1) the gp invariant: a completed grace period closes all older sections *)
Lemma wfin_closed g a tr t i : Inv g a tr -> l_w (a t) = WFin i -> closed tr i /\ (i <= List.length tr)%nat.
Proof.
  intros (_ & _ & I3 & I4) Hw. pose proof (WC _ _ I3 t) as C. rewrite Hw in C. cbn in C. split.
  - intros r s Hat Hs. destruct (T2 _ _ I4 r s Hat) as [A|(b & Hb & Hrb & _)].
    + exfalso. apply (C r). exists s. auto.
    + exists b. auto.
  - apply (WB _ _ I3 t i). rewrite Hw. reflexivity.
Qed.

(** what a disposal needs: the readers inside at the retirement (position k <= i) have left *)
Lemma closed_dispose_ok tr i k w' p :
  closed tr i -> at_ tr k w' (is_retire p) -> (k <= i)%nat ->
  forall r s, open_at tr r s k -> exists b, (k < b < List.length tr)%nat /\ at_ tr b r is_runlock0.
Proof.
  intros Hc Hk Hki r s (H1 & H2 & H3). destruct (Hc r s H1) as (b & Hb & Hrb); [lia|].
  exists b. split; [|exact Hrb]. split; [|eapply at_lt; eauto].
  destruct (Nat.lt_trichotomy b k) as [X|[X|X]]; [exfalso; apply (H3 b); [lia|exact Hrb]| |exact X].
  subst b. exfalso. eapply at_excl; [exact Hk|exact Hrb|].
  intros e E1 E2. unfold is_retire, is_runlock0, cli_is in *. destruct e as [|n [|x l]]; try discriminate.
  apply andb_prop in E1, E2. destruct E1 as (E1 & _), E2 as (E2 & _). apply String.eqb_eq in E1, E2. congruence.
Qed.

(** (1) + (2) *)
Theorem gpt_no_dispose_inside_old_reader_partial :
  forall g a aE tr w i n p e k,
    Inv g a tr -> InvE g aE tr ->
    l_w (a w) = WFin i ->                       (* the caller's two flip_and_wait are over; its marker is i *)
    e_s aE w = EIn i n ->                       (* i is the position of its fetch_add, which returned n *)
    In (p, e, k) (e_buf aE) -> e <= n ->        (* a buffer entry the reclamation thread would free for epoch n *)
    (exists w', at_ tr k w' (is_retire p)) /\ (k < i)%nat /\
    forall x, (* at any later time *)
      forall r s, open_at (tr ++ x) r s k -> exists b, (k < b < List.length (tr ++ x))%nat /\ at_ (tr ++ x) b r is_runlock0.
Proof.
  intros g a aE tr w i n p e k HI HE Hw Hs Hin Hle.
  destruct (EB _ _ _ HE p e k Hin) as ((w' & Hat) & _ & Hk). specialize (Hk w i n Hs Hle).
  destruct (wfin_closed _ _ _ _ _ HI Hw) as (Hc & Hi).
  split; [exists w'; exact Hat|]. split; [exact Hk|].
  intros x. apply closed_dispose_ok with (i := i) (w' := w') (p := p); [apply closed_app; assumption|apply at_app_l; exact Hat|lia].
Qed.
