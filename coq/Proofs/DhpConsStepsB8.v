(** DhpConsStepsB8: copy of LV.Proofs.DhpStepsB8 over the two-directional pointer invariant of LV.Proofs.DhpConsInv (conservation);
    the text differs from the original where the JW part of a goal is proved. *)
(** * DhpStepsB8: tearing a retired array down (fini): the array's blocks become a private chain of the thread. *)
From Coq Require Import ZArith NArith List String Bool Lia PeanoNat.
From LV Require Import Base.Conc Base.Events Model.DhpLang Model.Dhp Proofs.DhpBase Proofs.DhpSeq Proofs.DhpSeqThm Proofs.DhpHist
  Proofs.DhpLangProofs Proofs.DhpAllocA Proofs.DhpInvB Proofs.DhpConsInv Proofs.DhpConsQuietB Proofs.DhpConsQuietB2 Proofs.DhpConsRulesB Proofs.DhpConsStepsB1 Proofs.DhpConsStepsB3
  Proofs.DhpConsStepsB4 Proofs.DhpConsStepsB6.
Import ListNotations.

Section StepsB8.
  Variable c : cfg.
  Notation RB := (c_RB c).

  Ltac vwt t := let t' := fresh "t'" in intros t'; cbn; unfold fn; destruct (Nat.eqb_spec t' t) as [->|]; cbn; auto.

  Definition aux_fini (a : AuxB) (t r : nat) (hd : option nat) : AuxB :=
    mkAuxB (fn (bvs a) t (set_dead (set_move (set_limbo (bvs a t) (Some (hd, rch a r))) None) (Some r)))
           (fun b => if memb b (rch a r) then RPriv t else rbown a b) (wh a)
           (fn (rch a) r []) (fn (rw a) r 0) (fn (moved a) r 0) (fn (dead a) r true) (tl a).

  Lemma S_fini_start g a tr t r :
    In r (vb_own (bvs a t)) -> vb_limbo (bvs a t) = None -> vb_blk (bvs a t) = None -> vb_dead (bvs a t) = None ->
    vb_cur (bvs a t) = None -> vb_full (bvs a t) = None ->
    vb_move (bvs a t) = Some (r, None) -> vb_arr (bvs a t) <> Some r ->
    JB c g a tr -> JB c g (aux_fini a t r (r_head (grec g r))) tr.
  Proof.
    intros Hr Hl Hb Hd Hc Hf Hmk Har J.
    assert (Hm : forall r0 ob, vb_move (bvs a t) = Some (r0, ob) -> r0 = r) by (intros r0 ob E; rewrite Hmk in E; inversion E; auto).
    assert (Hal : dead a r = false) by (eapply JB_alive; eauto; congruence).
    destruct J as [O1 K0 R0 W1]. pose proof K0 as [K1 K2 K3 K4 K5]. pose proof R0 as [R1 R2 R3 R4 R5 R6]. pose proof O1 as [_ _ _ _ O5].
    destruct (O5 t r Hr) as (Hlt & _).
    assert (Hch : forall b, In b (rch a r) -> rbown a b = RRec r /\ b < List.length (rbs g)) by (intros b Hb'; eapply JR_rch; eauto).
    assert (Hnot : forall b, (forall r', rbown a b <> RRec r') -> memb b (rch a r) = false).
    { intros b H. apply memb_nIn. intros K. destruct (Hch b K) as (X & _). eapply H; eauto. }
    assert (Hnot2 : forall b r', r' <> r -> rbown a b = RRec r' -> memb b (rch a r) = false).
    { intros b r' N H. apply memb_nIn. intros K. destruct (Hch b K) as (X & _). congruence. }
    assert (Hexcl : forall t' r0, t' <> t -> In r0 (vb_own (bvs a t')) -> r0 <> r).
    { intros t' r0 Nt H ->. apply Nt. eapply JO_excl; eauto. }
    assert (Hlimbo : is_chain c g (r_head (grec g r)) (rch a r) /\ NoDup (rch a r)).
    { destruct (R1 r Hlt) as [(E & _ & _ & [X|(X & _)])|(_ & [_ Ich Ind _ _ _ _] & _)]; [congruence| |auto]. rewrite E, X. cbn. split; [reflexivity|constructor]. }
    constructor.
    - eapply JO_frame with (g := g) (a := a); eauto. vwt t.
    - constructor; cbn [aux_fini bvs rbown].
      + intros b L. rewrite Hnot; auto. intros r' H. rewrite (K1 b L) in H. discriminate.
      + exact K2.
      + split; [|apply K3]. intros b. destruct (memb b (rch a r)) eqn:M; [|apply K3].
        apply memb_In in M. destruct (Hch b M) as (X & _). split; [intros H; apply K3 in H; congruence|discriminate].
      + intros t' b fl. unfold fn. destruct (Nat.eqb_spec t' t) as [->|Nt]; cbn; [rewrite Hb; discriminate|].
        intros E. destruct (K4 t' b fl E) as (Y1 & Y2 & Y3). rewrite Hnot; [auto|intros r' H; congruence].
      + intros t' o lb. unfold fn. destruct (Nat.eqb_spec t' t) as [->|Nt]; cbn.
        * intros E. inversion E; subst o lb. split; [apply Hlimbo|]. split; [apply Hlimbo|]. intros b Hb'. apply memb_In in Hb'. now rewrite Hb'.
        * intros E. destruct (K5 t' o lb E) as (Y1 & Y2 & Y3). split; auto. split; auto. intros b Hb'. rewrite Hnot; [auto|intros r' H; rewrite (Y3 b Hb') in H; discriminate].
    - constructor; cbn [aux_fini bvs rbown rch rw moved dead].
      + intros r' Hr'. destruct (Nat.eq_dec r' r) as [->|N]; [left; rewrite !fn_same; auto|].
        rewrite !fn_other by exact N. destruct (R1 r' Hr') as [K|(Q0 & Q2 & Q3 & Q4 & Q5)]; [left; exact K|right].
        split; auto. split; auto. split; [intros b Hb'; rewrite (Hnot2 b r' N (Q3 b Hb')); auto|]. split; auto.
        destruct Q5 as [Q5|(t' & Q5)]; [left; exact Q5|right; exists t']. revert Q5. unfold fn. destruct (Nat.eqb_spec t' t) as [->|]; cbn; auto.
      + intros r' Hm'. destruct (Nat.eq_dec r' r) as [->|N]; [rewrite fn_same in Hm'; congruence|]. rewrite fn_other in Hm' by exact N.
        destruct (R2 r' Hm') as (t' & ob & K). exists t', ob. unfold fn. destruct (Nat.eqb_spec t' t) as [->|]; cbn; auto.
        exfalso. apply N. eapply Hm; eauto.
      + intros t' r' ob. unfold fn at 1 2 3. destruct (Nat.eqb_spec t' t) as [->|Nt]; cbn; [discriminate|].
        intros E. destruct (R3 t' r' ob E) as (Y1 & Y2). split; auto. assert (N : r' <> r) by (eapply Hexcl; eauto).
        rewrite (fn_other (rch a) _ _ _ N), (fn_other (moved a) _ _ _ N). exact Y2.
      + intros t' b i n. unfold fn at 1 2. destruct (Nat.eqb_spec t' t) as [->|Nt]; cbn; [rewrite Hc; discriminate|].
        intros E. destruct (R4 t' b i n E) as (r0 & ob & j & Y0 & Y). exists r0, ob, j. split; auto.
        assert (N : r0 <> r) by (eapply Hexcl; eauto; eapply R3; eauto).
        rewrite (fn_other (rch a) _ _ _ N), (fn_other (moved a) _ _ _ N), (fn_other (rw a) _ _ _ N). exact Y.
      + split.
        * intros t' r'. unfold fn at 1 2. destruct (Nat.eqb_spec t' t) as [->|Nt]; cbn.
          -- intros E. inversion E; subst r'. split; auto. apply fn_same.
          -- intros E. destruct (proj1 R5 t' r' E) as (Y1 & Y2). split; auto. rewrite fn_other; auto. eapply Hexcl; eauto.
        * intros r' E. destruct (Nat.eq_dec r' r) as [->|N]; [exists t; rewrite fn_same; reflexivity|]. rewrite fn_other in E by exact N.
          destruct (proj2 R5 r' E) as (t' & K). exists t'. unfold fn. destruct (Nat.eqb_spec t' t) as [->|]; cbn; auto. congruence.
      + intros t' r'. unfold fn at 1 2. destruct (Nat.eqb_spec t' t) as [->|Nt]; cbn; [rewrite Hf; discriminate|].
        intros E. destruct (R6 t' r' E) as (Y1 & Y2). split; auto. rewrite fn_other; auto. eapply Hexcl; eauto.
    - destruct W1 as [W1 W2 W3 W4 W5 W6 W7 W8 W9].
      assert (Eec : forall r', r' <> r -> ec g (aux_fini a t r (r_head (grec g r))) r' = ec g a r').
      { intros r' N. apply ec_ext; cbn [aux_fini rch rw moved]; auto; rewrite fn_other by exact N; reflexivity. }
      assert (Hec0 : ec g a r = []).
      { unfold ec, content. rewrite (W6 t r Hmk Hc). apply skipn_all2. rewrite firstn_length. lia. }
      constructor; cbn [aux_fini bvs wh]; auto.
      + intros r' Hr'. destruct (Nat.eq_dec r' r) as [->|N].
        * unfold ec, content. cbn [moved rch rw aux_fini]. rewrite !fn_same. cbn. split; [constructor|intros p []].
        * rewrite Eec by exact N. apply W1. exact Hr'.
      + intros t' p. unfold fn. destruct (Nat.eqb_spec t' t) as [->|]; cbn; apply W2.
      + intros t'. unfold fn. destruct (Nat.eqb_spec t' t) as [->|]; cbn; apply W3.
      + intros t' r'. cbn [aux_fini bvs moved rw]. intros Hm' Hc'.
        destruct (Nat.eq_dec t' t) as [->|Nt]; [rewrite fn_same in Hm'; cbn in Hm'; discriminate|]. rewrite fn_other in Hm', Hc' by exact Nt.
        assert (N : r' <> r) by (eapply Hexcl; eauto; eapply R3; eauto). rewrite !fn_other by exact N. apply (W6 t' r'); auto.
      + intros Hoob. destruct (W7 Hoob) as [C1 C2 C3 C4 C5 C6 C7]. constructor; cbn [aux_fini bvs wh tl rch].
        * exact C1.
        * intros p r' H. destruct (C2 p r' H) as (X1 & X2). split; auto.
          destruct (Nat.eq_dec r' r) as [->|N]; [rewrite Hec0 in X2; contradiction|]. rewrite Eec by exact N. exact X2.
        * intros p t' H. destruct (C3 p t' H) as (X1 & X2). unfold fn. destruct (Nat.eqb_spec t' t) as [->|]; cbn; auto.
        * exact C4.
        * intros r' Hr'. destruct (C5 r' Hr') as [X|(t' & nx & X)]; [now left|right; exists t', nx].
          unfold fn. destruct (Nat.eqb_spec t' t) as [->|]; cbn; auto.
        * intros t' r' nx H. unfold fn. destruct (Nat.eqb_spec r' r) as [->|]; [reflexivity|]. apply (C6 t' r' nx).
          revert H. unfold fn. destruct (Nat.eqb_spec t' t) as [->|]; cbn; auto.
        * intros t' r' H. assert (H' : vb_arr (bvs a t') = Some r') by (revert H; unfold fn; destruct (Nat.eqb_spec t' t) as [->|]; cbn; auto).
          destruct (C7 t' r' H') as (X1 & X2). split; [unfold fn; destruct (Nat.eqb_spec t' t) as [->|]; cbn; auto|].
          assert (N : r' <> r). { destruct (Nat.eq_dec t' t) as [->|Nt]; [intros ->; contradiction|eapply Hexcl; eauto]. }
          rewrite fn_other by exact N. exact X2.
      + apply (JH_frame a _ tr tr); auto. intros t'. cbn [bvs aux_fini]. unfold fn. destruct (Nat.eqb_spec t' t) as [->|]; auto.
  Qed.

  Definition aux_fini_end (a : AuxB) (t r : nat) : AuxB :=
    mkAuxB (fn (bvs a) t (set_dead (set_limbo (bvs a t) None) None)) (rbown a) (wh a) (rch a) (rw a) (moved a) (fn (dead a) r false) (tl a).

  Lemma S_fini_end g a tr t r :
    vb_dead (bvs a t) = Some r -> vb_move (bvs a t) = None ->
    JB c g a tr -> JB c (upd_rec g r (rs_ret None 0 None None 0)) (aux_fini_end a t r) tr.
  Proof.
    intros Hd Hm [O1 K0 R0 W1]. pose proof K0 as [K1 K2 K3 K4 K5]. pose proof R0 as [R1 R2 R3 R4 R5 R6]. pose proof O1 as [_ _ _ _ O5].
    destruct (proj1 R5 t r Hd) as (Hr & Hdd). destruct (O5 t r Hr) as (Hlt & _).
    assert (Hrec : rch a r = [] /\ rw a r = 0 /\ moved a r = 0) by (destruct (R1 r Hlt) as [(X1 & X2 & X3 & _)|(X & _)]; [auto|congruence]).
    destruct Hrec as (Ech & Erw & Emv).
    set (g' := upd_rec g r (rs_ret None 0 None None 0)).
    assert (El : List.length (recs g') = List.length (recs g)) by (unfold g', upd_rec; cbn; apply upd_nth_length).
    assert (Eo : forall r', r' <> r -> grec g' r' = grec g r') by (intros r' N; unfold g'; rewrite grec_upd_rec_other; auto).
    assert (Es : grec g' r = rs_ret None 0 None None 0 (grec g r)) by (unfold g'; now rewrite grec_upd_rec_same).
    assert (Hexcl : forall t' r0, t' <> t -> In r0 (vb_own (bvs a t')) -> r0 <> r).
    { intros t' r0 Nt H ->. apply Nt. eapply JO_excl; eauto. }
    constructor.
    - apply JO_frame with (g := g) (a := a); auto.
      + intros r'. destruct (Nat.eq_dec r' r) as [->|N]; [rewrite Es; destruct (grec g r); cbn; auto|rewrite Eo by exact N; auto].
      + vwt t.
    - constructor; cbn [aux_fini_end bvs rbown]; auto.
      + intros t' b fl. unfold fn. destruct (Nat.eqb_spec t' t) as [->|Nt]; cbn; [|apply K4].
        intros E. destruct (K4 t b fl E) as (Y1 & Y2 & Y3). split; auto. split; auto. discriminate.
      + intros t' o lb. unfold fn. destruct (Nat.eqb_spec t' t) as [->|Nt]; cbn; [discriminate|].
        intros E. destruct (K5 t' o lb E) as (Y1 & Y2 & Y3). split; auto. apply is_chain_frame with (g := g); auto.
    - constructor; cbn [aux_fini_end bvs rbown rch rw moved dead].
      + intros r' Hr'. rewrite El in Hr'. destruct (Nat.eq_dec r' r) as [->|N].
        * left. rewrite fn_same. split; auto. split; auto. split; auto. right. rewrite Es. destruct (grec g r); cbn. auto.
        * rewrite fn_other by exact N. rewrite Eo by exact N. destruct (R1 r' Hr') as [K|(Q0 & Q2 & Q3 & Q4 & Q5)]; [left; exact K|right].
          split; auto. split; [|split; auto; split; auto].
          -- apply Rinv_frame with (g := g); auto; try lia. rewrite Eo by exact N. auto.
          -- destruct Q5 as [Q5|(t' & Q5)]; [left; exact Q5|right; exists t']. revert Q5. unfold fn. destruct (Nat.eqb_spec t' t) as [->|]; cbn; auto.
      + intros r' Hm'. destruct (R2 r' Hm') as (t' & ob & K). exists t', ob. unfold fn. destruct (Nat.eqb_spec t' t) as [->|]; cbn; auto.
      + intros t' r' ob. unfold fn. destruct (Nat.eqb_spec t' t) as [->|Nt]; cbn; apply R3.
      + intros t' b i n. unfold fn. destruct (Nat.eqb_spec t' t) as [->|Nt]; cbn.
        * intros E. destruct (R4 t b i n E) as (r0 & ob & j & Y0 & Y). congruence.
        * intros E. destruct (R4 t' b i n E) as (r0 & ob & j & Y0 & Y). exists r0, ob, j. split; auto.
          assert (N : r0 <> r) by (eapply Hexcl; eauto; eapply R3; eauto). rewrite Eo by exact N. exact Y.
      + split.
        * intros t' r'. unfold fn at 1 2. destruct (Nat.eqb_spec t' t) as [->|Nt]; cbn; [discriminate|].
          intros E. destruct (proj1 R5 t' r' E) as (Y1 & Y2). split; auto. rewrite fn_other; auto. eapply Hexcl; eauto.
        * intros r' E. destruct (Nat.eq_dec r' r) as [->|N]; [rewrite fn_same in E; discriminate|]. rewrite fn_other in E by exact N.
          destruct (proj2 R5 r' E) as (t' & K). exists t'. unfold fn. destruct (Nat.eqb_spec t' t) as [->|]; cbn; auto. congruence.
      + intros t' r'. unfold fn. destruct (Nat.eqb_spec t' t) as [->|Nt]; cbn; apply R6.
    - eapply JW_frame with (g := g) (a := a); eauto.
      all: try solve [intros r' _; apply ec_ext; auto].
      all: try solve [vwt t].
  Qed.
End StepsB8.
