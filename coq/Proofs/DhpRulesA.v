(** * DhpRulesA: turning a step lemma about [JA] into a [dsafe] rule for [InvA]. *)
From Coq Require Import ZArith NArith List String Bool Lia PeanoNat.
From LV Require Import Base.Conc Base.Events Model.DhpLang Model.Dhp Proofs.DhpBase Proofs.DhpHist
  Proofs.DhpLangProofs Proofs.DhpInvA Proofs.DhpStepsA Proofs.DhpScanC.
Import ListNotations.

Section RulesA.
  Variable c : cfg.
  Notation dsafeA := (@dsafe G ev AuxA VA viewA (InvA c)).

  Definition nodisp (es : list ev) : Prop := forall e, In e es -> forall p, e <> ev_dispose p.

  Lemma InvA_step g g' a a' tr t es :
    InvA c g a tr -> nodisp es ->
    (flbad (hist (tr ++ Conc.tag t es)) = false -> JA c g a (hist tr) -> JA c g' a' (hist (tr ++ Conc.tag t es))) ->
    InvA c g' a' (tr ++ Conc.tag t es).
  Proof.
    intros Hi Hn Hj Hfl. destruct (Hi (flbad_prefix _ _ Hfl)) as (J & ND). split; auto.
    apply ndwg_app; auto. now apply not_dispose_tag.
  Qed.

  Lemma dsafe_emit_J {R} t es (k : @dprog G ev R) l l' Q :
    nodisp es ->
    (forall g a tr, viewA a t = l -> exists a', Conc.frame viewA t a a' /\ viewA a' t = l' /\
        (flbad (hist (tr ++ Conc.tag t es)) = false -> JA c g a (hist tr) -> JA c g a' (hist (tr ++ Conc.tag t es)))) ->
    dsafeA t k l' Q -> dsafeA t (DEmit es k) l Q.
  Proof.
    intros Hn Hs Hk. cbn [dsafe]. intros g a tr Hi Hv. destruct (Hs g a tr Hv) as (a' & F & V & Hj).
    exists a'. split; [eapply InvA_step; eauto|]. split; auto. now rewrite V.
  Qed.

  Lemma dsafe_emit_J' {R} t es (k : @dprog G ev R) l Q :
    nodisp es ->
    (forall g a tr, viewA a t = l -> exists a', Conc.frame viewA t a a' /\
        (flbad (hist (tr ++ Conc.tag t es)) = false -> JA c g a (hist tr) -> JA c g a' (hist (tr ++ Conc.tag t es))) /\
        dsafeA t k (viewA a' t) Q) ->
    dsafeA t (DEmit es k) l Q.
  Proof.
    intros Hn Hs. cbn [dsafe]. intros g a tr Hi Hv. destruct (Hs g a tr Hv) as (a' & F & Hj & Hk).
    exists a'. split; [eapply InvA_step; eauto|]. split; auto.
  Qed.

  Lemma dsafe_act_J {X R} t (f : A X) (k : X -> @dprog G ev R) l Q :
    (forall g, nodisp (snd (f g))) ->
    (forall g a tr, viewA a t = l -> exists a', Conc.frame viewA t a a' /\
        (flbad (hist (tr ++ Conc.tag t (snd (f g)))) = false -> JA c g a (hist tr) ->
         JA c (fst (fst (f g))) a' (hist (tr ++ Conc.tag t (snd (f g))))) /\
        dsafeA t (k (snd (fst (f g)))) (viewA a' t) Q) ->
    dsafeA t (DAct f k) l Q.
  Proof.
    intros Hn Hs. cbn [dsafe]. intros g a tr Hi Hv. destruct (Hs g a tr Hv) as (a' & F & Hj & Hk).
    exists a'. split; [eapply InvA_step; eauto|]. split; auto.
  Qed.

  Lemma dsafe_loc_J {X R} t (f : G -> G * X) (k : X -> @dprog G ev R) l Q :
    (forall g a tr, viewA a t = l -> exists a', Conc.frame viewA t a a' /\
        (flbad (hist tr) = false -> JA c g a (hist tr) -> JA c (fst (f g)) a' (hist tr)) /\
        dsafeA t (k (snd (f g))) (viewA a' t) Q) ->
    dsafeA t (DLoc f k) l Q.
  Proof.
    intros Hs. cbn [dsafe]. intros g a tr Hi Hv. destruct (Hs g a tr Hv) as (a' & F & Hj & Hk).
    exists a'. split; [|split; auto].
    pose proof (InvA_step g (fst (f g)) a a' tr t [] Hi (fun e H => match H with end)) as K. cbn in K.
    rewrite app_nil_r in K. apply K. exact Hj.
  Qed.

  Lemma nodisp_acc k o ok : nodisp (acc k o ok).
  Proof. intros e [<-|[]] p. discriminate. Qed.
  Lemma nodisp_app es es' : nodisp es -> nodisp es' -> nodisp (es ++ es').
  Proof. intros H1 H2 e He. apply in_app_or in He. destruct He; auto. Qed.
  Lemma nodisp_one e : (forall p, e <> ev_dispose p) -> nodisp [e].
  Proof. intros H e' [<-|[]]. exact H. Qed.
  Lemma nd_alloc f b p : ev_alloc f b <> ev_dispose p.
  Proof. intros E. apply (f_equal classify) in E. rewrite classify_alloc, classify_dispose in E. discriminate. Qed.
  Lemma nd_free f b p : ev_free f b <> ev_dispose p.
  Proof. intros E. apply (f_equal classify) in E. rewrite classify_free, classify_dispose in E. discriminate. Qed.
  Lemma nd_new f b p : ev_new f b <> ev_dispose p.
  Proof. intros E. apply (f_equal classify) in E. rewrite classify_new, classify_dispose in E. discriminate. Qed.
  Lemma nd_link r b p : ev_link r b <> ev_dispose p.
  Proof. intros E. apply (f_equal classify) in E. rewrite classify_link, classify_dispose in E. discriminate. Qed.
  Lemma nd_att r p : ev_att r <> ev_dispose p.
  Proof. intros E. apply (f_equal classify) in E. rewrite classify_att, classify_dispose in E. discriminate. Qed.
  Lemma nd_det r p : ev_det r <> ev_dispose p.
  Proof. intros E. apply (f_equal classify) in E. rewrite classify_det, classify_dispose in E. discriminate. Qed.
  Lemma nd_relall p : ev_relall <> ev_dispose p.
  Proof. discriminate. Qed.
End RulesA.
