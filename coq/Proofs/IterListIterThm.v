(** * The iterator of IterableList<HP>, theorems about executions (every schedule).

    Setting: [c1] is a configuration reachable from the initial configuration of LV.Model.IterListIter in which thread [t]
    has just emitted "inv 20 k", i.e. its program is [iter_started ...]; [steps c1 cs c] is an execution from there, [cs] its
    configurations, [tr1] the events emitted since [c1].
      [iter_complete]  a node that is reachable from m_Head and holds the item X <> 0 in ALL configurations of [cs] is visited
                       before the response of the iteration ("visit k X" of [t] in [tr1]);
      [iter_visited]   every "visit k x" of [t] in [tr1]: x <> 0 and in a configuration not older than the previous "visit" of [t]
                       x, with key k, was the data pointer of a node reachable from m_Head;
      [iter_erased]    every "erased b" of [t] in [tr1], x = item of the last "visit" of [t] before it: x was found in a node n
                       (as above) and, in configurations not older than that visit, b = true: one step of [t] changed the data
                       cell of n from ( x, unmarked ) to null and nothing else; b = false: n did not hold x any more;
      [never_unlinked] every step of every reachable configuration keeps the nodes reachable from m_Head reachable. *)
From Coq Require Import ZArith List String Bool Lia PeanoNat.
From LV Require Import Base.Conc Base.Events Model.IterList Model.IterListIter Proofs.ConcRel Proofs.IterListIterDefs
                       Proofs.IterListIterSafe Proofs.IterListIterLink.
Import ListNotations.

Set Implicit Arguments.

Lemma ev_erased_inj b b' : ev_erased b = ev_erased b' -> b = b'.
Proof. destruct b, b'; intros H; try reflexivity; discriminate H. Qed.

Lemma ev_visit_inj k x k' x' : ev_visit k x = ev_visit k' x' -> k = k' /\ x = x'.
Proof. intros H. inversion H. split; [reflexivity|]. apply Nat2Z.inj. assumption. Qed.

Section LinkTR.
  Variables (N X : nat).
  Variable t : nat.
  Variable n1 : nat.

  Notation config := (Conc.config G V ev).
  Notation Link := (Link N X t n1).
  Notation hasret := (hasret t).
  Notation scan := (scan t).

  Lemma in_single tr1 (e e' : ev) : In (t, e') (tr1 ++ Conc.tag t [e]) <-> In (t, e') tr1 \/ e' = e.
  Proof.
    rewrite in_app_iff, in_tag. cbn. split.
    - intros [H|[_ [H|[]]]]; auto.
    - intros [H|H]; auto.
  Qed.

  Lemma scan_single tr1 e : scan (tr1 ++ Conc.tag t [e]) = sc_step t (scan tr1) (t, e).
  Proof. rewrite scan_app. reflexivity. Qed.

  Lemma Link_idle cs tr1 w es : plain es -> wph w = false -> Link cs tr1 w -> Link cs (tr1 ++ Conc.tag t es) w.
  Proof.
    intros Hp Hw HL.
    assert (Hs : scan (tr1 ++ Conc.tag t es) = scan tr1) by (rewrite scan_app; apply fold_plain; exact Hp).
    assert (Hin : forall k x, In (t, ev_visit k x) (tr1 ++ Conc.tag t es) <-> In (t, ev_visit k x) tr1).
    { intros k x. rewrite in_app_iff, in_tag. split; [|auto]. intros [H|[_ H]]; [exact H|].
      destruct (Hp _ H) as [K _]. rewrite visit_of_visit in K. discriminate. }
    assert (Hno : hasret tr1 = false -> False) by (intros H; destruct (k_run HL H) as (A & _); congruence).
    constructor; try (intros K; congruence).
    - rewrite hasret_app. intros H. apply orb_false_iff in H. destruct H as [H _]. contradiction.
    - intros _ Hq. destruct (hasret tr1) eqn:E; [|exfalso; auto]. destruct (k_done HL E Hq) as [k Hk]. exists k. apply Hin. exact Hk.
    - intros tra k x trb Hx. apply split_novisit in Hx; [|apply novisit_plain; intros e He; apply (Hp e He)].
      destruct Hx as [trb' Hx]. apply (k_vis HL tra k x trb' Hx).
    - intros tra b trb Hx. apply split_noerased in Hx; [|apply noerased_plain; intros e He; apply (Hp e He)].
      destruct Hx as [trb' Hx]. apply (k_pairs HL tra b trb' Hx).
  Qed.

  Lemma Link_TR cs tr1 w w' g g' es cg :
    Link cs tr1 w -> TR N X g g' es w w' -> In cg cs -> Conc.shared cg = g ->
    n1 + List.length tr1 <= List.length (Conc.trace cg) ->
    (g' = g \/ exists cg', In cg' cs /\ Conc.shared cg' = g' /\ Conc.step_cfg cg t = Some cg') ->
    Link cs (tr1 ++ Conc.tag t es) w'.
  Proof.
    intros HL HT Hcg Eg Hlen Halt.
    assert (Hplain_vis : forall es0, (forall e, In e es0 -> visit_of e = None) -> forall tra k x trb, tr1 ++ Conc.tag t es0 = tra ++ (t, ev_visit k x) :: trb ->
              x <> 0 /\ exists n, FoundAt n1 cs (lastpos t tra) (n, x) k).
    { intros es0 Hp0 tra k x trb Hx. apply split_novisit in Hx; [|apply novisit_plain; exact Hp0].
      destruct Hx as [trb' Hx]. apply (k_vis HL tra k x trb' Hx). }
    assert (Hplain_pairs : forall es0, (forall e, In e es0 -> erased_of e = None) -> forall tra b trb,
              tr1 ++ Conc.tag t es0 = tra ++ (t, ev_erased b) :: trb ->
              lastv t tra <> 0 /\ exists n, Found cs (n, lastv t tra) /\
                (if b then Removed t n1 cs (lastpos t tra) (n, lastv t tra) else Gone n1 cs (lastpos t tra) (n, lastv t tra))).
    { intros es0 Hp0 tra b trb Hx. apply split_noerased in Hx; [|apply noerased_plain; exact Hp0].
      destruct Hx as [trb' Hx]. apply (k_pairs HL tra b trb' Hx). }
    assert (Hpg : Pres N X cs -> present N X g) by (intros Hp; rewrite <- Eg; apply Hp; exact Hcg).
    destruct HT as [Ew Hq|o b Ees Ho Eg' Hb Ew|b Hacc Eg' Hw Hb Ew|b n Hacc Eg' Hw Hb Hpath Hnz Ew|Ees Eg' Hw Hnz Hfr Ew
                   |Ees Eg' Hw Hfin Ew|Hacc Hw Hnz Hd Hd' Hoth Hnx Ew|Hacc Eg' Hw Hnz Hne Ew|b Ees Eg' Hw Hnz Hb1 Hb0 Ew].
    - (* TR_same *)
      subst w'. destruct (wph w) eqn:Ew.
      + assert (Hp : plain es /\ noretl es).
        { split; intros e He; (destruct (Hq e He) as [(kd & o & b & ->)|[->|(K & _)]]; [cbn; auto|cbn; auto|congruence]). }
        destruct Hp as [Hp Hn]. apply Link_plain with (w := w); auto.
        * apply (k_fnd HL).
        * apply (k_rem HL).
        * apply (k_gone HL).
      + apply Link_idle; auto. intros e He.
        destruct (Hq e He) as [(kd & o & b & ->)|[->|(_ & K1 & K2 & _)]]; [cbn; auto|cbn; auto|].
        split; [apply not_visit; exact K1|apply not_erased; exact K2].
    - (* TR_start *)
      subst es g' w'.
      assert (Hp : plain [ev_inv o]) by (apply plain1; reflexivity).
      assert (Hr : hasret (tr1 ++ Conc.tag t [ev_inv o]) = hasret tr1).
      { rewrite hasret_app, hasret_noretl; [apply orb_false_r|]. apply noretl1. reflexivity. }
      assert (Hs : scan (tr1 ++ Conc.tag t [ev_inv o]) = scan tr1) by (rewrite scan_app; apply fold_plain; exact Hp).
      assert (Hin : forall k x, In (t, ev_visit k x) (tr1 ++ Conc.tag t [ev_inv o]) <-> In (t, ev_visit k x) tr1).
      { intros k x. rewrite in_single. split; [|auto]. intros [H|H]; [exact H|discriminate H]. }
      constructor; cbn [set_ok wstart wph wok wvis wfnd wcur wrem wgone wfresh wfk fst snd].
      * intros _. split; [reflexivity|]. split; [|intros x []]. intros Hq. apply Hb. auto.
      * rewrite Hr. intros H Hq. destruct (k_done HL H Hq) as [k Hk]. exists k. apply Hin. exact Hk.
      * apply Hplain_vis. intros e He. apply (Hp e He).
      * intros _ K. contradiction.
      * intros _ K. contradiction.
      * intros _ K. lia.
      * intros _ K. discriminate.
      * apply Hplain_pairs. intros e He. apply (Hp e He).
    - (* TR_look *)
      subst g' w'. destruct (acc_plain Hacc) as [Hp Hn].
      apply Link_plain with (w := w); auto; cbn [set_ok wph wok wvis wfnd wcur wrem wgone wfresh wfk].
      * intros _ Hold Hq. apply Hb. auto.
      * apply (k_fnd HL).
      * apply (k_rem HL).
      * apply (k_gone HL).
    - (* TR_found *)
      subst g' w'. destruct (acc_plain Hacc) as [Hp Hn].
      apply Link_plain with (w := w); auto; cbn [set_fnd wph wok wvis wfnd wcur wrem wgone wfresh wfk].
      * intros _ Hold Hq. apply Hb. auto.
      * intros _ _ _. exists cg. rewrite Eg. cbn [fst snd]. split; [exact Hcg|]. split; [|auto].
        pose proof (lastpos_le t tr1). lia.
      * apply (k_rem HL).
      * apply (k_gone HL).
    - (* TR_visit *)
      subst es g' w'. set (x := snd (wfnd w)) in *. set (k := wfk w) in *.
      assert (Hr : hasret (tr1 ++ Conc.tag t [ev_visit k x]) = hasret tr1).
      { rewrite hasret_app, hasret_noretl; [apply orb_false_r|]. apply noretl1. reflexivity. }
      assert (Hs : scan (tr1 ++ Conc.tag t [ev_visit k x]) = (x, snd (scan tr1))).
      { rewrite scan_single. unfold sc_step. cbn [fst snd]. rewrite Nat.eqb_refl, visit_of_visit. reflexivity. }
      assert (HFa : FoundAt n1 cs (lastpos t tr1) (wfnd w) k) by (apply (k_fnd HL); auto).
      assert (HF : Found cs (wfnd w)) by (eapply FoundAt_Found; eauto).
      constructor; cbn [wph wok wvis wfnd wcur wrem wgone wfresh wfk].
      * rewrite Hr. intros H. destruct (k_run HL H) as (A1 & A2 & A3). split; [reflexivity|]. split; [exact A2|].
        intros y [<-|Hy]; [exists k; apply in_single; right; reflexivity|].
        destruct (A3 y Hy) as [k' Hk']. exists k'. apply in_single. left. exact Hk'.
      * rewrite Hr. intros H Hq. destruct (k_done HL H Hq) as [k' Hk']. exists k'. apply in_single. left. exact Hk'.
      * intros tra k' x' trb Hx. cbn [Conc.tag map] in Hx. apply split_visit in Hx.
        destruct Hx as [[trb' Hx]|[-> Hx]]; [apply (k_vis HL tra k' x' trb' Hx)|].
        assert (Hx' : ev_visit k x = ev_visit k' x') by congruence. apply ev_visit_inj in Hx'. destruct Hx' as [<- <-]. split; [exact Hnz|]. exists (fst (wfnd w)).
        replace (fst (wfnd w), x) with (wfnd w) by (unfold x; destruct (wfnd w); reflexivity). exact HFa.
      * intros _ _ K. discriminate K.
      * intros _ _. split; [unfold lastv; rewrite Hs; reflexivity|exact HF].
      * intros _ K. lia.
      * intros _ K. discriminate.
      * apply Hplain_pairs. intros e [<-|[]]. reflexivity.
    - (* TR_finish *)
      subst es g' w'.
      assert (Hp : plain [ev_ret 1 0]) by (apply plain1; reflexivity).
      assert (Hs : scan (tr1 ++ Conc.tag t [ev_ret 1 0]) = scan tr1) by (rewrite scan_app; apply fold_plain; exact Hp).
      assert (Hin : forall k x, In (t, ev_visit k x) (tr1 ++ Conc.tag t [ev_ret 1 0]) <-> In (t, ev_visit k x) tr1).
      { intros k x. rewrite in_single. split; [|auto]. intros [H|H]; [exact H|discriminate H]. }
      constructor; cbn [wph wok wvis wfnd wcur wrem wgone wfresh wfk]; try (intros K; discriminate K).
      * rewrite hasret_app. cbn. rewrite Nat.eqb_refl. cbn. rewrite orb_true_r. intros K. discriminate K.
      * intros _ Hq. destruct (hasret tr1) eqn:E.
        -- destruct (k_done HL E Hq) as [k Hk]. exists k. apply Hin. exact Hk.
        -- destruct (k_run HL E) as (_ & A2 & A3). destruct (A3 X (Hfin (A2 Hq))) as [k Hk]. exists k. apply Hin. exact Hk.
      * apply Hplain_vis. intros e He. apply (Hp e He).
      * apply Hplain_pairs. intros e He. apply (Hp e He).
    - (* TR_erase *)
      subst w'. destruct (acc_plain Hacc) as [Hp Hn].
      apply Link_plain with (w := w); auto; cbn [wph wok wvis wfnd wcur wrem wgone wfresh wfk].
      * intros _. apply (k_fnd HL Hw).
      * intros _ _. destruct Halt as [E|(cg' & H1 & H2 & H3)].
        -- exfalso. rewrite E, Hd in Hd'. inversion Hd'. contradiction.
        -- exists cg, cg'. rewrite Eg, H2. repeat split; auto. pose proof (lastpos_le t tr1). lia.
      * intros _. apply (k_gone HL Hw).
    - (* TR_gone *)
      subst g' w'. destruct (acc_plain Hacc) as [Hp Hn].
      apply Link_plain with (w := w); auto; cbn [wph wok wvis wfnd wcur wrem wgone wfresh wfk].
      * intros _. apply (k_fnd HL Hw).
      * intros _. apply (k_rem HL Hw).
      * intros _ _. exists cg. rewrite Eg. split; [exact Hcg|]. split; [pose proof (lastpos_le t tr1); lia|auto].
    - (* TR_erased *)
      subst es g' w'.
      assert (Hr : hasret (tr1 ++ Conc.tag t [ev_erased b]) = hasret tr1).
      { rewrite hasret_app, hasret_noretl; [apply orb_false_r|]. apply noretl1. reflexivity. }
      assert (Hs : scan (tr1 ++ Conc.tag t [ev_erased b]) = (fst (scan tr1), snd (scan tr1) ++ [(fst (scan tr1), b)])).
      { rewrite scan_single. unfold sc_step. cbn [fst snd]. rewrite Nat.eqb_refl, erased_of_erased.
        destruct b; reflexivity. }
      assert (Hin : forall k x, In (t, ev_visit k x) (tr1 ++ Conc.tag t [ev_erased b]) <-> In (t, ev_visit k x) tr1).
      { intros k x. rewrite in_single. split; [|auto]. intros [H|H]; [exact H|destruct b; discriminate H]. }
      destruct (k_cur HL Hw Hnz) as [Hlast HF].
      constructor.
      * rewrite Hr. intros H. destruct (k_run HL H) as (A1 & A2 & A3). split; [exact A1|]. split; [exact A2|].
        intros y Hy. destruct (A3 y Hy) as [k' Hk']. exists k'. apply Hin. exact Hk'.
      * rewrite Hr. intros H Hq. destruct (k_done HL H Hq) as [k' Hk']. exists k'. apply Hin. exact Hk'.
      * apply Hplain_vis. intros e [<-|[]]. destruct b; reflexivity.
      * rewrite lastpos_novisit; [apply (k_fnd HL)|]. apply novisit_plain. intros e [<-|[]]. destruct b; reflexivity.
      * intros H1 H2. split; [unfold lastv; rewrite Hs; apply Hlast|exact HF].
      * rewrite lastpos_novisit; [apply (k_rem HL)|]. apply novisit_plain. intros e [<-|[]]. destruct b; reflexivity.
      * rewrite lastpos_novisit; [apply (k_gone HL)|]. apply novisit_plain. intros e [<-|[]]. destruct b; reflexivity.
      * intros tra b' trb Hx. cbn [Conc.tag map] in Hx. apply split_last in Hx.
        destruct Hx as [[trb' Hx]|[-> Hx]]; [apply (k_pairs HL tra b' trb' Hx)|].
        assert (Hb' : ev_erased b = ev_erased b') by congruence. apply ev_erased_inj in Hb'. subst b'.
        rewrite Hlast. split; [exact Hnz|]. exists (fst (wcur w)).
        replace (fst (wcur w), snd (wcur w)) with (wcur w) by (destruct (wcur w); reflexivity).
        split; [exact HF|]. destruct b.
        -- apply (k_rem HL Hw). rewrite (Hb1 eq_refl). lia.
        -- apply (k_gone HL Hw). apply (Hb0 eq_refl).
  Qed.

  Lemma Link_chunk cs g' cg' : In cg' cs -> Conc.shared cg' = g' ->
    forall tr es w w2, ConcRel.chunk (SR N X) t g' tr es w w2 ->
    forall trx, n1 + List.length trx + List.length es <= List.length (Conc.trace cg') ->
                Link cs trx w -> Link cs (trx ++ Conc.tag t es) w2.
  Proof.
    intros Hc Eg tr es w w2 H. induction H as [tr w|tr es es' w w1 w2 HS Hch IH]; intros trx Hlen HL.
    - cbn. rewrite app_nil_r. exact HL.
    - rewrite app_length in Hlen. rewrite Conc.tag_app, app_assoc. apply IH.
      + rewrite app_length. unfold Conc.tag. rewrite map_length. lia.
      + destruct HS as [_ HS]. eapply Link_TR; eauto. lia.
  Qed.
End LinkTR.

Section Main.
  Variables (N X : nat).
  Hypothesis HX : X <> 0.
  Variable t : nat.

  Notation config := (Conc.config G V ev).
  Notation okR := (@ConcRel.okR G V ev Aux L W view (Inv N) (SR N X)).

  Variable c1 : config.
  Notation Link := (Link N X t (List.length (Conc.trace c1))).

  Definition GI (cs : list config) (c : config) : Prop :=
    exists a ws tr1, okR c a ws /\ Conc.trace c = Conc.trace c1 ++ tr1 /\ In c cs /\ Link cs tr1 (ws t).

  Lemma GI_step cs c u c' : GI cs c -> Conc.step_cfg c u = Some c' -> GI (cs ++ [c']) c'.
  Proof.
    intros (a & ws & tr1 & Hok & Etr & Hin & HL) Hs.
    destruct (@ConcRel.step_R G V ev Aux L W view (Inv N) (SR N X) c u c' a ws Hok Hs) as (a' & es0 & es1 & w1 & w2 & Etr' & HS & Hch & Hok').
    exists a', (ConcRel.updw ws u w2), (tr1 ++ Conc.tag u (es0 ++ es1)).
    split; [exact Hok'|]. split; [rewrite Etr', Etr, app_assoc; reflexivity|].
    split; [apply in_or_app; right; left; reflexivity|].
    assert (Hi : incl cs (cs ++ [c'])) by (intros x Hx; apply in_or_app; left; exact Hx).
    assert (Hc' : In c' (cs ++ [c'])) by (apply in_or_app; right; left; reflexivity).
    unfold ConcRel.updw. destruct (Nat.eqb_spec t u) as [<-|Hne].
    - rewrite Conc.tag_app, app_assoc.
      eapply Link_chunk with (cg' := c'); eauto.
      { rewrite Etr', Etr. rewrite !app_length. unfold Conc.tag. rewrite !map_length, !app_length. lia. }
      destruct HS as [_ HS]. eapply Link_TR with (cg := c); eauto.
      + eapply Link_mono; eauto.
      + rewrite Etr, app_length. lia.
    - apply Link_other; [congruence|]. eapply Link_mono; eauto.
  Qed.

  Lemma GI_steps cs c : GI [c1] c1 -> steps c1 cs c -> GI cs c.
  Proof. intros H0 H. induction H as [|cs c u c' H IH Hs]; [exact H0|eapply GI_step; eauto]. Qed.

  Lemma Link_start b : (b = true <-> present N X (Conc.shared c1)) -> Link [c1] [] (wst b).
  Proof.
    intros Hb. constructor.
    - intros _. cbn. split; [reflexivity|]. split; [|intros x []]. intros Hp. apply Hb. apply Hp. left. reflexivity.
    - cbn. intros K. discriminate K.
    - intros tra k x trb H. destruct tra; discriminate H.
    - cbn. intros _ K. contradiction.
    - cbn. intros _ K. contradiction.
    - cbn. intros _ K. lia.
    - cbn. intros _ K. discriminate K.
    - intros tra b' trb H. destruct tra; discriminate H.
  Qed.
End Main.

(** ** the theorems *)
Section Theorems.
  Variables (fuel sf : nat) (ic : bool) (ths : list (list (list Z))).
  Notation config := (Conc.config G V ev).
  Variable c1 : config.
  Hypothesis Hreach : Conc.reach (init_cfgI fuel sf ic ths) c1.
  Variables (t : nat) (k : Z) (ls : lstate) (os : list (list Z)).
  Hypothesis Hstart : nth_error (Conc.threads c1) t = Some (iter_started fuel sf ic t k ls os).
  Variables (cs : list config) (c : config).
  Hypothesis Hsteps : steps c1 cs c.

  Lemma exec_link N X : X <> 0 ->
    exists tr1 w, Conc.trace c = Conc.trace c1 ++ tr1 /\ Link N X t (List.length (Conc.trace c1)) cs tr1 w.
  Proof.
    intros HX.
    destruct (ConcRel.reach_okR (c0 := init_cfgI fuel sf ic ths) (c := c1)
                (view := view) (Inv := Inv N) (SR := SR N X)) as (a & ws & Hok).
    { exists A0, (fun _ => w0). apply init_okR. exact HX. }
    { exact Hreach. }
    destruct (restart HX Hok Hstart) as (a' & b & Hok' & Hb).
    assert (H0 : GI N X t c1 [c1] c1).
    { exists a', (ConcRel.updw ws t (wst b)), []. split; [exact Hok'|]. split; [rewrite app_nil_r; reflexivity|].
      split; [left; reflexivity|]. unfold ConcRel.updw. rewrite Nat.eqb_refl. apply Link_start; assumption. }
    assert (HG : GI N X t c1 cs c) by (eapply GI_steps; eauto).
    destruct HG as (a2 & ws2 & tr1 & _ & Etr & _ & HL). exists tr1, (ws2 t). auto.
  Qed.

  Variable tr1 : list (nat * ev).
  Hypothesis Etr : Conc.trace c = Conc.trace c1 ++ tr1.

  (** completeness for a node-stable element *)
  Theorem iter_complete N X : X <> 0 ->
    (forall c', In c' cs -> path (nnext (Conc.shared c')) HEAD N /\ fst (ndata (Conc.shared c') N) = X) ->
    (exists a b, In (t, ev_ret a b) tr1) ->
    exists kx, In (t, ev_visit kx X) tr1.
  Proof.
    intros HX Hp (a & b & Hr). destruct (exec_link N HX) as (tr1' & w & E & HL).
    assert (tr1' = tr1) by (eapply app_inv_head; rewrite <- E; exact Etr). subst tr1'.
    apply (k_done HL); [eapply hasret_in; eauto|exact Hp].
  Qed.

  (** a visited element was the data pointer of a node of the list, in a configuration that is not older than the previous
      "visit" of [t] (the start of the iteration for the first one): [lastpos t tra] = position right after the last "visit" of
      [t] among the events [tra] emitted before this one *)
  Theorem iter_visited tra kx x trb : tr1 = tra ++ (t, ev_visit kx x) :: trb ->
    x <> 0 /\ exists n c', In c' cs /\ List.length (Conc.trace c1) + lastpos t tra <= List.length (Conc.trace c') /\
                           path (nnext (Conc.shared c')) HEAD n /\ fst (ndata (Conc.shared c') n) = x /\
                           ikey (Conc.shared c') x = kx.
  Proof.
    intros Hv. destruct (exec_link 0 (X := 1) ltac:(discriminate)) as (tr1' & w & E & HL).
    assert (tr1' = tr1) by (eapply app_inv_head; rewrite <- E; exact Etr). subst tr1'.
    destruct (k_vis HL tra kx x trb Hv) as (H1 & n & c' & H2 & H3 & H4 & H5 & H6). split; [exact H1|]. exists n, c'. auto.
  Qed.

  (** erase_at( it ): what the result says about the element the iterator points to - the item [lastv t tra] of the last
      "visit" of [t] among the events [tra] before the "erased" event; the configurations are not older than that visit *)
  Theorem iter_erased tra b trb : tr1 = tra ++ (t, ev_erased b) :: trb ->
    lastv t tra <> 0 /\ exists n,
      (exists c', In c' cs /\ path (nnext (Conc.shared c')) HEAD n /\ fst (ndata (Conc.shared c') n) = lastv t tra) /\
      (if b then exists c' c'', In c' cs /\ In c'' cs /\
                   List.length (Conc.trace c1) + lastpos t tra <= List.length (Conc.trace c') /\
                   Conc.step_cfg c' t = Some c'' /\
                   ndata (Conc.shared c') n = (lastv t tra, false) /\ ndata (Conc.shared c'') n = (0, false) /\
                   (forall m, m <> n -> ndata (Conc.shared c'') m = ndata (Conc.shared c') m) /\
                   nnext (Conc.shared c'') = nnext (Conc.shared c')
       else exists c', In c' cs /\ List.length (Conc.trace c1) + lastpos t tra <= List.length (Conc.trace c') /\
                       fst (ndata (Conc.shared c') n) <> lastv t tra).
  Proof.
    intros Hv. destruct (exec_link 0 (X := 1) ltac:(discriminate)) as (tr1' & w & E & HL).
    assert (tr1' = tr1) by (eapply app_inv_head; rewrite <- E; exact Etr). subst tr1'.
    destruct (k_pairs HL tra b trb Hv) as (H1 & n & H2 & H3). split; [exact H1|]. exists n. split; [exact H2|].
    destruct b; exact H3.
  Qed.
End Theorems.

(** nodes are never unlinked: every step of every reachable configuration keeps what is reachable from m_Head reachable *)
Theorem never_unlinked fuel sf ic ths (c c' : Conc.config G V ev) u :
  Conc.reach (init_cfgI fuel sf ic ths) c -> Conc.step_cfg c u = Some c' ->
  forall n, path (nnext (Conc.shared c)) HEAD n -> path (nnext (Conc.shared c')) HEAD n.
Proof.
  intros Hr Hs.
  destruct (ConcRel.reach_okR (c0 := init_cfgI fuel sf ic ths) (c := c)
              (view := view) (Inv := Inv 0) (SR := SR 0 1)) as (a & ws & Hok).
  { exists A0, (fun _ => w0). apply init_okR. discriminate. }
  { exact Hr. }
  destruct (@ConcRel.step_R G V ev Aux L W view (Inv 0) (SR 0 1) c u c' a ws Hok Hs) as (a' & es0 & es1 & w1 & w2 & _ & [HR _] & _).
  exact HR.
Qed.
