(** * TaggedFreeList: clear( disp ) executed from a quiescent reachable state, and what empty() can observe. *)
From Coq Require Import ZArith List String Bool Lia PeanoNat.
From LV Require Import Base.Conc Base.Events Model.FreeList Model.FreeListTagged Model.FreeListClear Model.FreeListTaggedClear
  Proofs.FreeListBase Proofs.FreeListThm Proofs.FreeListTaggedSafe Proofs.FreeListTaggedThm.
Import ListNotations.
Local Open Scope Z_scope.
Local Open Scope string_scope.

Lemma tclear_loop_spec : forall l fuel g h, chain (tnext g) h l -> (List.length l < fuel)%nat ->
  exists es, tsolo_ev (tclear_loop fuel h) g = (g, true, es) /\ disposed es = l.
Proof.
  induction l as [|n r IH]; intros fuel g h Hc Hf; (destruct fuel as [|f]; [cbn in Hf; lia|]); cbn [tclear_loop].
  - cbn in Hc. subst h. cbn. eexists. split; reflexivity.
  - cbn in Hc. destruct Hc as (-> & Hnz & Hc).
    destruct (Nat.eqb_spec n 0) as [E|_]; [contradiction|].
    destruct (IH f g (tnext g n) Hc) as (es & E & Hd); [cbn in Hf; lia|].
    cbn [tsolo_ev ta_ld_next fst]. rewrite E. eexists. split; [reflexivity|].
    cbn. rewrite Nat2Z.id, Hd. reflexivity.
Qed.

Lemma tclear_spec fuel g l : chain (tnext g) (thead g) l -> (List.length l < fuel)%nat ->
  exists es, tsolo_ev (tclear fuel) g = (tset_head g 0 0, true, es) /\ disposed es = l.
Proof.
  intros Hc Hf. destruct (tclear_loop_spec l fuel (tset_head g 0 0) (thead g) Hc Hf) as (es & E & Hd).
  unfold tclear. cbn [tsolo_ev ta_ld_head ta_st_head fst]. rewrite E. eexists. split; [reflexivity|].
  cbn. exact Hd.
Qed.

Section TaggedClear.
  Variable fuel k : nat.
  Variable ths : list (list op * list nat).
  Hypothesis Hwf : wf_init k ths.

  (** clear( disp ) from a quiescent reachable state of put / get threads: the disposer receives exactly the
      available nodes, each once; m_Head becomes {nullptr, tag 0}; the list is empty afterwards *)
  Theorem tagged_clear c : Conc.reach (tinit_cfg fuel k ths) c -> nowrap k (Conc.trace c) -> quiescent (Conc.trace c) ->
    exists own l,
      mon_run (own_init ths) (Conc.trace c) = Some own /\ NoDup l /\
      (forall n, In n l <-> valid_init k ths n = true /\ own n = None) /\
      forall cf, (List.length l < cf)%nat ->
        exists es, tsolo_ev (tclear cf) (Conc.shared c) = (tset_head (Conc.shared c) 0 0, true, es) /\
                   disposed es = l /\
                   tseq_ok (tset_head (Conc.shared c) 0 0) [] /\
                   forall f cn, tdrain (S f) (S cn) (tset_head (Conc.shared c) 0 0) = [].
  Proof.
    intros Hr Hnw Hq. destruct (tagged_no_loss fuel k ths Hwf c Hr Hnw Hq) as (own & l & E1 & Hs & Hl & _).
    exists own, l. split; [exact E1|]. destruct Hs as (Hc & Hnd). split; [exact Hnd|split; [exact Hl|]].
    intros cf Hcf. destruct (tclear_spec cf _ l Hc Hcf) as (es & E & Hd).
    exists es. split; [exact E|split; [exact Hd|]].
    assert (Hs0 : tseq_ok (tset_head (Conc.shared c) 0 0) []) by (split; [reflexivity|constructor]).
    split; [exact Hs0|]. intros f cn. apply tdrain_spec; [exact Hs0|cbn; lia].
  Qed.

  (** at every reachable instant of put / get threads: m_Head.ptr = nullptr (what an empty() executed now
      returns true for) only if every available node is inside an in-flight get / put *)
  Theorem tagged_head_null c : Conc.reach (tinit_cfg fuel k ths) c -> nowrap k (Conc.trace c) ->
    thead (Conc.shared c) = O ->
    exists own, mon_run (own_init ths) (Conc.trace c) = Some own /\
      forall n, valid_init k ths n = true -> own n = None -> exists t', opens t' (Conc.trace c) <> 0.
  Proof.
    intros Hr Hnw Hh. destruct (tagged_unique_holder fuel k ths Hwf c Hr Hnw) as (own & l & E1 & Hc & _ & _ & Hl).
    exists own. split; [exact E1|]. intros n Hv Ho. destruct (Hl n Hv Ho) as [Hin|Ht]; [|exact Ht].
    destruct l as [|m r]; [contradiction|]. cbn in Hc. destruct Hc as (E & Hm & _). congruence.
  Qed.

  (** the empty() program is that single load: executed from state g it returns (thead g = nullptr) *)
  Lemma tempty_solo g : tsolo_ev tempty_prog g = (g, Nat.eqb (thead g) 0, [EvAcc KLd obj_head true]).
  Proof. reflexivity. Qed.
End TaggedClear.
