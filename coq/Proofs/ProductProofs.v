(** * The proof rule Conc.safe lifted to a product of instances (LV.Model.Product): if every instance model keeps its invariant
      under its own programs, the product keeps "every instance satisfies its invariant on the trace it has seen".  Generic:
      nothing about the instance model is used. *)
From Coq Require Import List Arith PeanoNat Lia.
From LV Require Import Base.Conc Model.Product.
Import ListNotations.

Set Implicit Arguments.

Section ProductProofs.
  Variables (G1 V E Aux1 L1 : Type).
  Variable view1 : Aux1 -> nat -> L1.
  Variable Inv1 : G1 -> Aux1 -> list (nat * E) -> Prop.
  Variable nb : nat.

  Definition AuxP := nat -> Aux1.
  Definition viewP (A : AuxP) (t : nat) : list L1 := map (fun b => view1 (A b) t) (seq 0 nb).
  Definition InvP (g : nat -> G1) (A : AuxP) (tr : list (nat * (nat * E))) : Prop :=
    forall b, b < nb -> Inv1 (g b) (A b) (projb b tr).

  Notation safe1 := (@Conc.safe G1 V E Aux1 L1 view1 Inv1).
  Notation safeP := (@Conc.safe (nat -> G1) V (nat * E) AuxP (list L1) viewP InvP).

  Lemma nth_map_seq {A} (f : nat -> A) n b : b < n -> nth_error (map f (seq 0 n)) b = Some (f b).
  Proof.
    intros H. rewrite nth_error_map. rewrite nth_error_nth' with (d := 0) by (rewrite seq_length; exact H).
    rewrite seq_nth by exact H. reflexivity.
  Qed.

  Lemma viewP_nth A t b : b < nb -> nth_error (viewP A t) b = Some (view1 (A b) t).
  Proof. intros H. unfold viewP. exact (@nth_map_seq L1 (fun b0 => view1 (A b0) t) nb b H). Qed.

  Lemma viewP_length A t : length (viewP A t) = nb.
  Proof. unfold viewP. rewrite map_length, seq_length. reflexivity. Qed.

  Lemma projb_app b (tr tr' : list (nat * (nat * E))) : projb b (tr ++ tr') = projb b tr ++ projb b tr'.
  Proof.
    induction tr as [|[t [b' e]] r IH]; cbn [projb app]; [reflexivity|]. destruct (Nat.eqb b' b); cbn [app]; rewrite IH; reflexivity.
  Qed.

  Lemma projb_tag_same b t (es : list E) : projb b (Conc.tag t (map (pair b) es)) = Conc.tag t es.
  Proof. induction es as [|e r IH]; cbn; [reflexivity|]. rewrite Nat.eqb_refl. f_equal. exact IH. Qed.

  Lemma projb_tag_other b b' t (es : list E) : b' <> b -> projb b' (Conc.tag t (map (pair b) es)) = [].
  Proof.
    intros H. induction es as [|e r IH]; cbn; [reflexivity|]. destruct (Nat.eqb_spec b b'); [congruence|exact IH].
  Qed.

  Lemma updf_same {A} (f : nat -> A) b x : updf f b x b = x.
  Proof. unfold updf. now rewrite Nat.eqb_refl. Qed.
  Lemma updf_other {A} (f : nat -> A) b x b' : b' <> b -> updf f b x b' = f b'.
  Proof. unfold updf. intros H. destruct (Nat.eqb_spec b' b); congruence. Qed.

  (** post-condition of a lifted program: component [b] of the view satisfies [Q], the others are untouched *)
  Definition QP {R} (b : nat) (Q : R -> L1 -> Prop) (Lv : list L1) : R -> list L1 -> Prop :=
    fun r Lv' => length Lv' = nb /\ (exists l', nth_error Lv' b = Some l' /\ Q r l') /\
                 forall b', b' <> b -> nth_error Lv' b' = nth_error Lv b'.

  Lemma lift_safe {R} t b : b < nb -> forall (p : Conc.prog G1 V E R) l (Q : R -> L1 -> Prop),
    safe1 t p l Q -> forall Lv, nth_error Lv b = Some l -> length Lv = nb -> safeP t (lift b p) Lv (QP b Q Lv).
  Proof.
    intros Hb. induction p as [r|es k IH|f k IH]; intros l Q Hs Lv Hn Hlen; cbn [lift Conc.safe] in *.
    - split; [exact Hlen|]. split; [exists l; auto|auto].
    - intros g A tr HI Hv.
      assert (Hvb : view1 (A b) t = l).
      { pose proof (viewP_nth A t Hb) as H. rewrite Hv, Hn in H. inversion H; reflexivity. }
      destruct (Hs (g b) (A b) (projb b tr) (HI b Hb) Hvb) as (a1 & H1 & H2 & H3).
      exists (updf A b a1). split; [|split].
      + intros b0 Hb0. rewrite projb_app. destruct (Nat.eq_dec b0 b) as [->|Hne].
        * rewrite updf_same, projb_tag_same. exact H1.
        * rewrite updf_other by exact Hne. rewrite projb_tag_other by exact Hne. rewrite app_nil_r. apply HI; exact Hb0.
      + intros u Hu. unfold viewP. apply map_ext_in. intros b0 _. destruct (Nat.eq_dec b0 b) as [->|Hne].
        * rewrite updf_same. apply H2; exact Hu.
        * rewrite updf_other by exact Hne. reflexivity.
      + eapply Conc.safe_weaken; [|eapply (IH (view1 a1 t) Q H3 (viewP (updf A b a1) t))].
        * intros r Lv' (K1 & K2 & K3). split; [exact K1|]. split; [exact K2|]. intros b' Hb'. rewrite (K3 b' Hb').
          rewrite <- Hv. destruct (Nat.lt_ge_cases b' nb) as [Hlt|Hge].
          -- rewrite !viewP_nth by exact Hlt. rewrite updf_other by exact Hb'. reflexivity.
          -- rewrite !(proj2 (nth_error_None _ _)); [reflexivity|rewrite viewP_length; exact Hge|rewrite viewP_length; exact Hge].
        * rewrite viewP_nth by exact Hb. rewrite updf_same. reflexivity.
        * apply viewP_length.
    - intros g A tr HI Hv.
      assert (Hvb : view1 (A b) t = l).
      { pose proof (viewP_nth A t Hb) as H. rewrite Hv, Hn in H. inversion H; reflexivity. }
      destruct (Hs (g b) (A b) (projb b tr) (HI b Hb) Hvb) as (a1 & H1 & H2 & H3).
      unfold lift_act. destruct (f (g b)) as [[g1 v] es] eqn:Ef. cbn [fst snd] in *.
      exists (updf A b a1). split; [|split].
      + intros b0 Hb0. rewrite projb_app. destruct (Nat.eq_dec b0 b) as [->|Hne].
        * rewrite !updf_same, projb_tag_same. exact H1.
        * rewrite !updf_other by exact Hne. rewrite projb_tag_other by exact Hne. rewrite app_nil_r. apply HI; exact Hb0.
      + intros u Hu. unfold viewP. apply map_ext_in. intros b0 _. destruct (Nat.eq_dec b0 b) as [->|Hne].
        * rewrite updf_same. apply H2; exact Hu.
        * rewrite updf_other by exact Hne. reflexivity.
      + eapply Conc.safe_weaken; [|eapply (IH v (view1 a1 t) Q H3 (viewP (updf A b a1) t))].
        * intros r Lv' (K1 & K2 & K3). split; [exact K1|]. split; [exact K2|]. intros b' Hb'. rewrite (K3 b' Hb').
          rewrite <- Hv. destruct (Nat.lt_ge_cases b' nb) as [Hlt|Hge].
          -- rewrite !viewP_nth by exact Hlt. rewrite updf_other by exact Hb'. reflexivity.
          -- rewrite !(proj2 (nth_error_None _ _)); [reflexivity|rewrite viewP_length; exact Hge|rewrite viewP_length; exact Hge].
        * rewrite viewP_nth by exact Hb. rewrite updf_same. reflexivity.
        * apply viewP_length.
  Qed.
End ProductProofs.
