(** * DhpLiveE: C02, second sentence for DHP.  Part E: where the entries of the summary [sfold] come from, the client
      discipline, and the theorem [dhp_guarded_ptr_live_cell]: a pointer returned by Guard::protect is not handed to the
      disposer as long as the hazard cell the protect stored it into is not stored to again and stays a cell of an
      attached record -- for every schedule, given that a scan frees only what was retired before it began
      ([scan_frees_older], the part that is not proved here). *)
From Coq Require Import ZArith NArith List String Bool Lia PeanoNat.
From LV Require Import Base.Conc Base.Events Model.DhpLang Model.Dhp Proofs.DhpBase Proofs.DhpHist
  Proofs.DhpLangProofs Proofs.DhpProofsC02 Proofs.DhpLiveA Proofs.DhpLiveB Proofs.DhpLiveC Proofs.DhpLiveD.
Import ListNotations.
Local Open Scope string_scope.
Local Open Scope list_scope.

(** ** the two summaries agree on what they share *)
Lemma lcls_acc_cases k o b : lcls (EvAcc k o b) = LSlotAcc \/ (exists n, lcls (EvAcc k o b) = LLd n) \/
  (exists n, lcls (EvAcc k o b) = LSt n) \/ lcls (EvAcc k o b) = LNone.
Proof.
  unfold lcls. destruct k; auto;
    repeat match goal with |- context [match ?x with _ => _ end] => destruct x end; eauto.
Qed.

Lemma lcls_classify e :
  match classify e with
  | HScanb _ => lcls e = LScanb | HScane _ => lcls e = LScane | HSlot s x => lcls e = LSlot s x | HDispose _ => lcls e = LDisp
  | _ => lcls e <> LScanb /\ lcls e <> LScane /\ (forall s x, lcls e <> LSlot s x) /\ lcls e <> LDisp
  end.
Proof.
  destruct e as [k o b|name args].
  - cbn [classify]. destruct (lcls_acc_cases k o b) as [E|[(n & E)|[(n & E)|E]]]; rewrite E; repeat split; intros; discriminate.
  - unfold lcls. destruct (String.eqb_spec name "op") as [->|N1]; [cbn; repeat split; intros; discriminate|].
    destruct (String.eqb_spec name "ret") as [->|N2]; [cbn; repeat split; intros; discriminate|].
    destruct (classify (EvCli name args)); auto; repeat split; intros; discriminate.
Qed.

Lemma lsc_scan tr t : lsc (sfold tr) t = scan (hist tr) t.
Proof.
  induction tr as [|[u e] tr IH] using rev_ind; [reflexivity|].
  rewrite sfold_snoc, hist_snoc, scan_hstep. cbn [fst snd]. rewrite <- IH, hlen_hist, <- slen_sfold.
  pose proof (lcls_classify e) as K. unfold sstep. cbn [fst snd].
  destruct (classify e) as [s x| | | | | | |r|r|p|].
  - rewrite K. reflexivity.
  - destruct K as (K1&K2&K3&K4). destruct (lcls e); try congruence; try reflexivity.
    destruct (pend (sfold tr) u) as [[k' q]|]; [destruct (Nat.eqb k k')|]; reflexivity.
  - destruct K as (K1&K2&K3&K4). destruct (lcls e); try congruence; try reflexivity.
    destruct (pend (sfold tr) u) as [[k' q]|]; [destruct (Nat.eqb k k')|]; reflexivity.
  - destruct K as (K1&K2&K3&K4). destruct (lcls e); try congruence; try reflexivity.
    destruct (pend (sfold tr) u) as [[k' q]|]; [destruct (Nat.eqb k k')|]; reflexivity.
  - destruct K as (K1&K2&K3&K4). destruct (lcls e); try congruence; try reflexivity.
    destruct (pend (sfold tr) u) as [[k' q]|]; [destruct (Nat.eqb k k')|]; reflexivity.
  - destruct K as (K1&K2&K3&K4). destruct (lcls e); try congruence; try reflexivity.
    destruct (pend (sfold tr) u) as [[k' q]|]; [destruct (Nat.eqb k k')|]; reflexivity.
  - destruct K as (K1&K2&K3&K4). destruct (lcls e); try congruence; try reflexivity.
    destruct (pend (sfold tr) u) as [[k' q]|]; [destruct (Nat.eqb k k')|]; reflexivity.
  - rewrite K. reflexivity.
  - rewrite K. reflexivity.
  - rewrite K. reflexivity.
  - destruct K as (K1&K2&K3&K4). destruct (lcls e); try congruence; try reflexivity.
    destruct (pend (sfold tr) u) as [[k' q]|]; [destruct (Nat.eqb k k')|]; reflexivity.
Qed.

(** ** one step, field by field *)
Lemma sv_sstep st u e k :
  sv (sstep st (u, e)) k =
  match lcls e with
  | LSt k0 => match pend st u with
              | Some (k0', q) => if Nat.eqb k0 k0' then (if Nat.eqb k k0 then q else sv st k) else sv st k
              | None => sv st k
              end
  | _ => sv st k
  end.
Proof.
  unfold sstep. cbn [fst snd]. destruct (lcls e) as [| | | | |k0| | | |]; try reflexivity.
  destruct (pend st u) as [[k0' q]|]; [destruct (Nat.eqb k0 k0'); reflexivity|reflexivity].
Qed.
Lemma pend_sstep st u e y :
  pend (sstep st (u, e)) y =
  match lcls e with
  | LOp args => if Nat.eqb y u then pend_of args else pend st y
  | LSt k0 => match pend st u with
              | Some (k0', q) => if Nat.eqb k0 k0' then (if Nat.eqb y u then None else pend st y) else pend st y
              | None => pend st y
              end
  | _ => pend st y
  end.
Proof.
  unfold sstep. cbn [fst snd]. destruct (lcls e) as [| | | | |k0| | | |]; try reflexivity.
  destruct (pend st u) as [[k0' q]|]; [destruct (Nat.eqb k0 k0'); reflexivity|reflexivity].
Qed.

(** ** where the entries come from *)
Lemma firstn_firstn_le {A} (l : list A) i n : i <= n -> firstn i (firstn n l) = firstn i l.
Proof. intros H. rewrite firstn_firstn. now rewrite Nat.min_l by exact H. Qed.

Lemma lsl_index tr t g0 s x : lsl (sfold tr) t = Some (g0, s, x) ->
  exists e, nth_error tr g0 = Some (t, e) /\ classify e = HSlot s x.
Proof.
  induction tr as [|[u e] tr IH] using rev_ind; [discriminate|]. rewrite sfold_snoc.
  assert (K : lsl (sfold tr) t = Some (g0, s, x) -> exists e0, nth_error (tr ++ [(u, e)]) g0 = Some (t, e0) /\ classify e0 = HSlot s x).
  { intros H. destruct (IH H) as (e0 & H1 & H2). exists e0. split; [|exact H2].
    rewrite nth_error_app1; [exact H1|]. apply nth_error_Some. congruence. }
  unfold sstep. cbn [fst snd]. pose proof (lcls_classify e) as C.
  destruct (lcls e) eqn:El; cbn [lsl]; try exact K.
  - unfold fnu. destruct (Nat.eqb t u); [discriminate|exact K].
  - unfold fnu. destruct (Nat.eqb_spec t u) as [->|N]; [|exact K]. intros H. inversion H; subst g0 s0 x0.
    exists e. split; [rewrite slen_sfold, nth_error_app2 by lia; now rewrite Nat.sub_diag|].
    destruct (classify e) as [s' x'| | | | | | | | | |]; try (destruct C as (_&_&C&_); exfalso; eapply C; reflexivity); try discriminate.
    congruence.
  - destruct (pend (sfold tr) u) as [[k' q]|]; [destruct (Nat.eqb k k')|]; exact K.
Qed.

Lemma lld_index tr t w k x : lld (sfold tr) t = Some (w, k, x) -> w < List.length tr /\ x = sv (sfold (firstn w tr)) k.
Proof.
  induction tr as [|[u e] tr IH] using rev_ind; [discriminate|]. rewrite sfold_snoc, app_length. cbn [List.length].
  assert (K : lld (sfold tr) t = Some (w, k, x) -> w < List.length tr + 1 /\ x = sv (sfold (firstn w (tr ++ [(u, e)]))) k).
  { intros H. destruct (IH H) as (H1 & H2). split; [lia|]. rewrite firstn_app_le by lia. exact H2. }
  unfold sstep. cbn [fst snd].
  destruct (lcls e) eqn:El; cbn [lld]; try exact K.
  - unfold fnu. destruct (Nat.eqb_spec t u) as [->|N]; [|exact K]. intros H. inversion H; subst w k0 x.
    rewrite slen_sfold. split; [lia|]. now rewrite firstn_app_le, firstn_all by lia.
  - destruct (pend (sfold tr) u) as [[k' q]|]; [destruct (Nat.eqb k0 k')|]; exact K.
Qed.

(** an effective store to client source [k]: a store access to it by a thread that had announced publish( k, q ) *)
Definition eff_store (tr : list (nat * ev)) (i k q : nat) : Prop :=
  exists y e, nth_error tr i = Some (y, e) /\ lcls e = LSt k /\ pend (sfold (firstn i tr)) y = Some (k, q).

Lemma eff_store_app tr es i k q : i < List.length tr -> (eff_store (tr ++ es) i k q <-> eff_store tr i k q).
Proof.
  intros L. unfold eff_store. rewrite nth_error_app1 by exact L. rewrite firstn_app_le by lia. reflexivity.
Qed.
Lemma eff_store_firstn tr n i k q : i < n -> n <= List.length tr -> (eff_store (firstn n tr) i k q <-> eff_store tr i k q).
Proof.
  intros L Ln. rewrite <- (firstn_skipn n tr) at 2. apply iff_sym, eff_store_app. rewrite firstn_length. lia.
Qed.

Lemma sv_origin tr k p : sv (sfold tr) k = p -> p <> 0 ->
  exists i, i < List.length tr /\ eff_store tr i k p /\ forall i' q, i < i' -> i' < List.length tr -> ~ eff_store tr i' k q.
Proof.
  induction tr as [|[u e] tr IH] using rev_ind; [cbn; intros <- H; congruence|].
  rewrite sfold_snoc, sv_sstep, app_length. cbn [List.length]. intros Hs Hp.
  assert (Kold : sv (sfold tr) k = p -> (forall q, ~ eff_store (tr ++ [(u, e)]) (List.length tr) k q) ->
            exists i, i < List.length tr + 1 /\ eff_store (tr ++ [(u, e)]) i k p /\
              forall i' q, i < i' -> i' < List.length tr + 1 -> ~ eff_store (tr ++ [(u, e)]) i' k q).
  { intros H Hno. destruct (IH H Hp) as (i & H1 & H2 & H3). exists i. split; [lia|]. split; [now apply eff_store_app|].
    intros i' q Hi Hi'. destruct (Nat.eq_dec i' (List.length tr)) as [->|N]; [apply Hno|].
    rewrite eff_store_app by lia. apply H3; lia. }
  assert (Hlast : forall q, eff_store (tr ++ [(u, e)]) (List.length tr) k q -> lcls e = LSt k /\ pend (sfold tr) u = Some (k, q)).
  { intros q (y & e0 & H1 & H2 & H3). rewrite nth_error_app2, Nat.sub_diag in H1 by lia. cbn in H1. inversion H1; subst y e0.
    rewrite firstn_app_le, firstn_all in H3 by lia. auto. }
  destruct (lcls e) as [| | | | |k0| | | |] eqn:El; try (apply Kold; [exact Hs|]; intros q Hq; apply Hlast in Hq; destruct Hq; discriminate).
  destruct (pend (sfold tr) u) as [[k0' q0]|] eqn:Ep; [|apply Kold; [exact Hs|]; intros q Hq; apply Hlast in Hq; destruct Hq; discriminate].
  destruct (Nat.eqb_spec k0 k0') as [<-|N0]; [|apply Kold; [exact Hs|]; intros q Hq; apply Hlast in Hq; destruct Hq as (A & B); inversion A; inversion B; congruence].
  destruct (Nat.eqb_spec k k0) as [<-|N1]; [|apply Kold; [exact Hs|]; intros q Hq; apply Hlast in Hq; destruct Hq as (A & B); inversion A; congruence].
  subst q0. exists (List.length tr). split; [lia|]. split.
  - exists u, e. split; [rewrite nth_error_app2, Nat.sub_diag by lia; reflexivity|]. split; [exact El|].
    now rewrite firstn_app_le, firstn_all by lia.
  - intros i' q Hi Hi'. lia.
Qed.

Definition is_pub_of (k q : nat) (e : ev) : Prop := exists args, lcls e = LOp args /\ pend_of args = Some (k, q).

Lemma pend_origin tr y k q : pend (sfold tr) y = Some (k, q) ->
  exists o e, o < List.length tr /\ nth_error tr o = Some (y, e) /\ is_pub_of k q e.
Proof.
  induction tr as [|[u e] tr IH] using rev_ind; [discriminate|]. rewrite sfold_snoc, pend_sstep, app_length. cbn [List.length].
  assert (K : pend (sfold tr) y = Some (k, q) -> exists o e0, o < List.length tr + 1 /\ nth_error (tr ++ [(u, e)]) o = Some (y, e0) /\ is_pub_of k q e0).
  { intros H. destruct (IH H) as (o & e0 & H1 & H2 & H3). exists o, e0. split; [lia|]. split; [now rewrite nth_error_app1|exact H3]. }
  destruct (lcls e) as [args| | | | |k0| | | |] eqn:El; try exact K.
  - destruct (Nat.eqb_spec y u) as [->|N]; [|exact K]. intros H. exists (List.length tr), e. split; [lia|].
    split; [rewrite nth_error_app2, Nat.sub_diag by lia; reflexivity|]. exists args. auto.
  - destruct (pend (sfold tr) u) as [[k0' q0]|]; [|exact K]. destruct (Nat.eqb k0 k0'); [|exact K].
    destruct (Nat.eqb y u); [discriminate|exact K].
Qed.

(** after its store the thread has nothing announced until its next publish operation *)
Lemma pend_after_store tr y i1 k1 q1 e1 : nth_error tr i1 = Some (y, e1) -> lcls e1 = LSt k1 ->
  pend (sfold (firstn i1 tr)) y = Some (k1, q1) ->
  forall m k2 q2, Datatypes.S i1 + m <= List.length tr -> pend (sfold (firstn (Datatypes.S i1 + m) tr)) y = Some (k2, q2) ->
    exists o e, i1 < o < Datatypes.S i1 + m /\ nth_error tr o = Some (y, e) /\ is_pub_of k2 q2 e.
Proof.
  intros H1 H2 H3. induction m as [|m IH]; intros k2 q2 Hm.
  - rewrite Nat.add_0_r, (sfold_firstn_S tr i1 _ H1), pend_sstep, H2, H3, !Nat.eqb_refl. discriminate.
  - rewrite Nat.add_succ_r. destruct (nth_error tr (Datatypes.S i1 + m)) as [[u e]|] eqn:En; [|apply nth_error_None in En; lia].
    rewrite (sfold_firstn_S tr _ _ En), pend_sstep.
    assert (K : pend (sfold (firstn (Datatypes.S i1 + m) tr)) y = Some (k2, q2) ->
                exists o e0, i1 < o < Datatypes.S (Datatypes.S i1 + m) /\ nth_error tr o = Some (y, e0) /\ is_pub_of k2 q2 e0).
    { intros H. destruct (IH k2 q2 ltac:(lia) H) as (o & e0 & A & B & C). exists o, e0. split; [lia|auto]. }
    destruct (lcls e) as [args| | | | |k0| | | |] eqn:El; try exact K.
    + destruct (Nat.eqb_spec y u) as [->|N]; [|exact K]. intros H. exists (Datatypes.S i1 + m), e. split; [lia|]. split; [exact En|].
      exists args. auto.
    + destruct (pend (sfold (firstn (Datatypes.S i1 + m) tr)) u) as [[k0' q0]|]; [|exact K]. destruct (Nat.eqb k0 k0'); [|exact K].
      destruct (Nat.eqb y u); [discriminate|exact K].
Qed.

(** ** the client discipline, for pointer [p] *)
(** publish( _, p ) is invoked at most once *)
Definition publish_once (tr : list (nat * ev)) (p : nat) : Prop :=
  forall o1 o2 y1 y2 e1 e2 k1 k2, nth_error tr o1 = Some (y1, e1) -> nth_error tr o2 = Some (y2, e2) ->
    is_pub_of k1 p e1 -> is_pub_of k2 p e2 -> o1 = o2.
(** retire( p ) is invoked only after a store that replaced [p] in a client source by something else *)
Definition retire_after_unlink (tr : list (nat * ev)) (p : nat) : Prop :=
  forall rho x, nth_error tr rho = Some (x, EvCli "op" [9%Z; zn p]) ->
    exists i k q, i < rho /\ eff_store tr i k q /\ q <> p /\ sv (sfold (firstn i tr)) k = p.

(** the part of the argument that is NOT proved here: what a scan hands to the disposer was given to retire()
    before that scan began *)
Definition scan_frees_older (tr : list (nat * ev)) : Prop :=
  forall d u p s0, nth_error tr d = Some (u, ev_dispose p) -> p <> 0 -> scan (hist (firstn d tr)) u = Some s0 ->
    exists rho x, rho < s0 /\ nth_error tr rho = Some (x, EvCli "op" [9%Z; zn p]).

Lemma is_pub_of_fun k1 q1 k2 q2 e : is_pub_of k1 q1 e -> is_pub_of k2 q2 e -> k1 = k2 /\ q1 = q2.
Proof. intros (a1 & A1 & A2) (a2 & B1 & B2). rewrite A1 in B1. inversion B1; subst a2. rewrite A2 in B2. inversion B2. auto. Qed.

Theorem dhp_guarded_ptr_live_cell : forall fuel c ths conf,
  Conc.reach (init_cfg fuel c ths) conf ->
  flbad (hist (Conc.trace conf)) = false ->
  scan_frees_older (Conc.trace conf) ->
  forall p, p <> 0 -> publish_once (Conc.trace conf) p -> retire_after_unlink (Conc.trace conf) p ->
  (* thread t's protect( guard j, source k ) returns p at index v; its last store to a hazard cell hit cell s (at g0) *)
  forall v t j k, nth_error (Conc.trace conf) v = Some (t, EvCli "ret" [zn p]) ->
    lop (sfold (firstn v (Conc.trace conf))) t = [7%Z; zn j; zn k] ->
  forall g0 s x, lsl (sfold (firstn v (Conc.trace conf))) t = Some (g0, s, x) ->
  (* a disposer call for p at d > v, while s is a cell of a record attached (block linked) since before g0 ... *)
  forall d u kl, v < d -> nth_error (Conc.trace conf) d = Some (u, ev_dispose p) ->
    live c (hist (firstn d (Conc.trace conf))) s kl -> kl < g0 ->
  (* ... and nothing was stored into s in between *)
    (forall i te, g0 < i < d -> nth_error (Conc.trace conf) i = Some te -> ~ is_slot_of s (snd te)) ->
  False.
Proof.
  intros fuel c ths conf Hr Hfl Hsfo p Hp Hpub Hret v t j k Hv Hop g0 s x Hsl d u kl Hvd Hd Hlive Hkl Hnost.
  destruct (dhp_liveL fuel c ths conf Hr) as (_ & HT). set (tr := Conc.trace conf) in *.
  assert (Hvl : v < List.length tr) by (apply nth_error_Some; congruence).
  assert (Hdl : d < List.length tr) by (apply nth_error_Some; congruence).
  (* the protect pattern *)
  destruct (HT v t _ Hv) as (HP & _).
  destruct (HP (zn p) eq_refl (zn j) (zn k) Hop) as (w & Hld & Hsl2); [unfold zn; now rewrite Nat2Z.id|].
  unfold zn in Hld, Hsl2. rewrite !Nat2Z.id in Hld, Hsl2. destruct (Hsl2 g0 s x Hsl) as (-> & Hg0w).
  destruct (lsl_index _ _ _ _ _ Hsl) as (e0 & He0 & Hc0). apply nth_firstn_some in He0. destruct He0 as (Hg0v & He0).
  destruct (lld_index _ _ _ _ _ Hld) as (Hwv & Hsv). rewrite firstn_length, Nat.min_l in Hwv by lia.
  rewrite firstn_firstn_le in Hsv by lia.
  (* the cell holds p up to the disposer call, which happens inside a scan *)
  destruct (slot_held tr s p g0 t e0 He0 Hc0 d ltac:(lia) Hnost) as (Hlw & Hsv0).
  destruct (HT d u _ Hd) as (_ & HD). specialize (HD eq_refl). rewrite lsc_scan in HD.
  destruct (scan (hist (firstn d tr)) u) as [sb|] eqn:Esc; [|congruence].
  pose proof (dhp_guarded_ptr_live_reduction fuel c ths conf Hr Hfl d u p Hd Hp sb Esc s g0 kl Hsv0 Hlw Hlive Hkl) as Hsb.
  (* retire( p ) came before that scan began, after p was replaced in its source *)
  destruct (Hsfo d u p sb Hd Hp Esc) as (rho & xr & Hrho & Hrt).
  destruct (Hret rho xr Hrt) as (i & k' & q & Hi & Hst & Hq & Hsvi).
  assert (Hil : i < List.length tr) by lia.
  (* the two stores that put p into a source are one and the same *)
  destruct (sv_origin (firstn i tr) k' p Hsvi Hp) as (i1 & Hi1 & He1 & _). rewrite firstn_length, Nat.min_l in Hi1 by lia.
  rewrite eff_store_firstn in He1 by lia.
  symmetry in Hsv. rewrite ?Nat2Z.id in Hsv. destruct (sv_origin (firstn w tr) k p Hsv Hp) as (i2 & Hi2 & He2 & Hno2). rewrite firstn_length, Nat.min_l in Hi2 by lia.
  rewrite eff_store_firstn in He2 by lia.
  destruct He1 as (y1 & ev1 & A1 & A2 & A3). destruct He2 as (y2 & ev2 & B1 & B2 & B3).
  destruct (pend_origin _ _ _ _ A3) as (o1 & eo1 & O1 & O2 & O3). rewrite firstn_length, Nat.min_l in O1 by lia. rewrite nth_firstn_lt in O2 by lia.
  destruct (pend_origin _ _ _ _ B3) as (o2 & eo2 & P1 & P2 & P3). rewrite firstn_length, Nat.min_l in P1 by lia. rewrite nth_firstn_lt in P2 by lia.
  assert (Eo : o1 = o2) by (eapply Hpub; eauto). subst o2. rewrite O2 in P2. inversion P2; subst y2 eo2.
  destruct (is_pub_of_fun _ _ _ _ _ O3 P3) as (Ek & _). subst k'.
  destruct (Nat.lt_trichotomy i1 i2) as [L|[E|L]].
  - destruct (pend_after_store tr y1 i1 k p ev1 A1 A2 A3 (i2 - Datatypes.S i1) k p ltac:(lia)) as (o & eo & Ho & Ho2 & Ho3).
    { replace (Datatypes.S i1 + (i2 - Datatypes.S i1)) with i2 by lia. exact B3. }
    assert (o1 = o) by (eapply Hpub; eauto). lia.
  - subst i2. apply (Hno2 i q); [lia|rewrite firstn_length; lia|]. rewrite eff_store_firstn by lia. exact Hst.
  - destruct (pend_after_store tr y1 i2 k p ev2 B1 B2 B3 (i1 - Datatypes.S i2) k p ltac:(lia)) as (o & eo & Ho & Ho2 & Ho3).
    { replace (Datatypes.S i2 + (i1 - Datatypes.S i2)) with i1 by lia. exact A3. }
    assert (o1 = o) by (eapply Hpub; eauto). lia.
Qed.
