(** * C25_IntAlgo — cds/algo/int_algo.h: log2floor, log2ceil, floor2, ceil2, is_power2, log2 (part (c)).
    [size_t] is [u64].  The generated [log2floor] calls the generic C [MSBnz] (Gen_bitop). *)

Require Import ZArith Lia Bool List.
Require Import LV.Base.CInt LV.Proofs.C25_Bits LV.Proofs.C25_Bitop LV.Proofs.C25_Bitop2.
Require Import LV.Gen.Gen_bitop LV.Gen.Gen_int_algo.
Local Open Scope Z_scope.

Lemma log2_lt64 n : 0 <= n < 2 ^ 64 -> 0 <= Z.log2 n < 64.
Proof.
  intros Hn. split; [apply Z.log2_nonneg|].
  destruct (Z.eq_dec n 0) as [->|]; [cbn; lia|]. apply Z.log2_lt_pow2; lia.
Qed.

Lemma log2floor_spec n : 0 <= n < 2 ^ 64 -> log2floor n = Some (Z.log2 n).
Proof.
  intros Hn. unfold log2floor, to_bool. destruct (Z.eqb_spec n 0) as [->|Hnz]; cbn [negb]; [reflexivity|].
  destruct (wrappers64 n) as (_ & _ & E & _). rewrite E, msb64nz_spec by assumption. cbn [obind].
  unfold msb. rewrite (proj2 (Z.eqb_neq _ _) Hnz). pose proof (log2_lt64 n Hn).
  assert (64 < 2 ^ 64) by reflexivity. rewrite cast_u64, Z.mod_small by lia. f_equal. lia.
Qed.

Lemma log2ceil_spec n : 0 <= n < 2 ^ 64 -> log2ceil n = Some (Z.log2_up n).
Proof.
  intros Hn. unfold log2ceil. rewrite log2floor_spec by assumption. cbn [obind].
  pose proof (log2_lt64 n Hn) as Hi. rewrite shl_u64_one by assumption. cbn [obind].
  unfold c_lt, uadd. cbn [ibits u64].
  destruct (Z.eq_dec n 0) as [->|Hnz]; [reflexivity|].
  pose proof (Z.log2_spec n ltac:(lia)) as Hs. rewrite <- Z.add_1_r in Hs.
  destruct (Z.ltb_spec (2 ^ Z.log2 n) n).
  - assert (H64 : 64 < 2 ^ 64) by reflexivity. rewrite Z.mod_small by (clear - Hi H64; lia). f_equal. symmetry. apply Z.log2_up_unique; [lia|].
    replace (Z.pred (Z.log2 n + 1)) with (Z.log2 n) by lia. split; [exact H|apply Z.lt_le_incl, Hs].
  - f_equal. assert (E : n = 2 ^ Z.log2 n) by lia.
    destruct (Z.eq_dec (Z.log2 n) 0) as [E0|Hne].
    + rewrite E0 in *. cbn in E. subst n. reflexivity.
    + symmetry. apply Z.log2_up_unique; [lia|]. split; [|lia].
      rewrite E at 2. apply Z.pow_lt_mono_r; lia.
Qed.

(** [floor2 0 = 1] (documented). *)
Lemma floor2_spec n : 0 <= n < 2 ^ 64 -> floor2 n = Some (2 ^ Z.log2 n).
Proof.
  intros Hn. unfold floor2. rewrite log2floor_spec by assumption. cbn [obind].
  rewrite shl_u64_one by (apply log2_lt64; assumption). reflexivity.
Qed.

Lemma log2_up_le64 n : 0 <= n < 2 ^ 64 -> 0 <= Z.log2_up n <= 64.
Proof.
  intros Hn. split; [apply Z.log2_up_nonneg|].
  destruct (Z_le_gt_dec n 1); [rewrite Z.log2_up_eqn0 by lia; lia|].
  apply Z.log2_up_le_pow2; lia.
Qed.

(** [ceil2 0 = 1] (documented); above 2^63 the result 2^64 does not fit: the code shifts by 64, which is
    undefined behaviour ([None]). *)
Lemma ceil2_spec n : 0 <= n <= 2 ^ 63 -> ceil2 n = Some (2 ^ Z.log2_up n).
Proof.
  intros Hn. unfold ceil2. rewrite log2ceil_spec by lia. cbn [obind].
  assert (0 <= Z.log2_up n < 64).
  { split; [apply Z.log2_up_nonneg|]. destruct (Z_le_gt_dec n 1); [rewrite Z.log2_up_eqn0 by lia; lia|].
    assert (Z.log2_up n <= 63) by (apply Z.log2_up_le_pow2; lia). lia. }
  rewrite shl_u64_one by assumption. reflexivity.
Qed.

Lemma ceil2_overflow n : 2 ^ 63 < n < 2 ^ 64 -> ceil2 n = None.
Proof.
  intros Hn. unfold ceil2. rewrite log2ceil_spec by lia. cbn [obind].
  assert (Z.log2_up n = 64).
  { apply Z.log2_up_unique; lia. }
  rewrite H. reflexivity.
Qed.

Lemma is_power2_spec n : 0 <= n < 2 ^ 64 -> exists b, is_power2 n = Some b /\ (b = true <-> is_pow2_below 64 n).
Proof.
  intros Hn. eexists. split; [reflexivity|]. unfold c_eq, c_and, usub. cbn [ibits u64].
  apply (pow2_test 64); [lia|assumption].
Qed.

(** [log2 n] is the exponent when n is a power of two, else 0. *)
Lemma log2_spec n : 0 <= n < 2 ^ 64 ->
  (is_pow2_below 64 n -> log2 n = Some (Z.log2 n)) /\ (~ is_pow2_below 64 n -> log2 n = Some 0).
Proof.
  intros Hn. destruct (is_power2_spec n Hn) as [b [E Hb]]. unfold log2. rewrite E. cbn [obind]. split; intros H.
  - apply Hb in H. subst b. rewrite obind_ret. apply log2floor_spec, Hn.
  - destruct b; [exfalso; apply H, Hb; reflexivity|reflexivity].
Qed.
