(** * DhpLiveGxI: C02, second sentence for DHP -- the allocator discipline [cell_disc].  Part X-I: the fourth invariant
      [InvC3] = "the trace satisfies [cell_disc]" + [JR] (thread records, DhpLiveGxG) + [JCh] (free guard chains,
      DhpLiveGxH), on top of [InvA] x [InvG] x [InvB3]: the node rules, the nodes and programs that touch neither thread
      records nor guard chains. *)
From Coq Require Import ZArith NArith List String Bool Lia PeanoNat.
From LV Require Import Base.Conc Base.Events Model.DhpLang Model.Dhp Proofs.DhpBase Proofs.DhpHist
  Proofs.DhpLangProofs Proofs.DhpInvA Proofs.DhpStepsA Proofs.DhpQuietA Proofs.DhpLiveA Proofs.DhpLiveB
  Proofs.DhpLiveGcRule Proofs.DhpLiveGcA Proofs.DhpLiveGcB Proofs.DhpLiveGcC Proofs.DhpLiveGcD Proofs.DhpLiveGxA Proofs.DhpLiveGxE Proofs.DhpLiveGxF
  Proofs.DhpLiveGxG Proofs.DhpLiveGxH.
Import ListNotations.
Local Open Scope string_scope.
Local Open Scope list_scope.

Record JC (c : cfg) (g : G) (st : GS) (x : nat -> XC) (h : H) : Prop := { jc_r : JR g x; jc_c : JCh c g st x h }.

Definition InvC3 (c : cfg) (g : G) (a : AuxC) (tr : list (nat * ev)) : Prop :=
  ac_g a = gfold tr /\
  (flbad (hist tr) = false -> 1 <= c_GB c -> cell_disc c tr /\ JC c g (gfold tr) (ac_x a) (hist tr)).

Definition TBL (g : G) (tr : list (nat * ev)) : Prop := forall u b, gpv (gfold tr) u = Some b -> b < List.length (gbs g).

Lemma I1C_open c g tr : I1 (InvAGB c) g tr -> flbad (hist tr) = false -> cell_disc c tr ->
  exists a1, JA c g a1 (hist tr) /\ TPropG tr /\ K c (gfold tr) (hist tr) /\ TB tr /\ TBL g tr.
Proof.
  intros (((a1 & a2) & a3) & ((HA & (E & HG)) & (E3 & HB))) Hf Hd. cbn [fst snd] in *. destruct (HA Hf) as (J & _). destruct (HG Hf Hd) as (T & _).
  exists a1. split; [exact J|]. split; [exact T|]. split; [now apply K_good|]. pose proof (HB Hf Hd) as JB0. split; [eapply JB_TB; exact JB0|].
  intros u b Hu. now destruct (jb_priv _ _ _ _ JB0 u b (or_introl Hu)).
Qed.

Lemma cell_disc_app c tr t es : cell_disc c tr ->
  (forall i e, nth_error es i = Some e -> PhiD c (gfold (tr ++ Conc.tag t (firstn i es))) (hist (tr ++ Conc.tag t (firstn i es))) t e) ->
  cell_disc c (tr ++ Conc.tag t es).
Proof.
  intros H1 H2 v u e Hn. destruct (Nat.lt_ge_cases v (List.length tr)) as [L|L].
  - rewrite nth_error_app1 in Hn by exact L. rewrite firstn_app_le by lia. now apply H1.
  - rewrite nth_error_app2 in Hn by exact L. rewrite firstn_app_ge by exact L. apply nth_tag in Hn. destruct Hn as (-> & Hn).
    rewrite firstn_tag. now apply H2.
Qed.

(** ** the events *)
Definition nodisc (e : ev) : bool := match gcls e with GOwn _ | GSlot _ _ => false | _ => true end.
Definition quietC (e : ev) : bool := match gcls e with GNone | GSlotAcc | GSlot _ _ => true | _ => false end.

Lemma PhiD_nodisc c st h u e : nodisc e = true -> PhiD c st h u e.
Proof. unfold nodisc, PhiD. destruct (gcls e); try discriminate; intros _; split; intros; congruence. Qed.

Lemma PhiD_slot c st h u e : (forall b, gpv st u = Some b -> ~ latt h b) -> (forall s, gcls e <> GOwn s) -> PhiD c st h u e.
Proof.
  intros HT Hn. split; [intros s E; now destruct (Hn s)|]. intros b i x _ Hp r t' k kb A B. apply (HT b Hp). exists r, t', k, kb. auto.
Qed.

Lemma quietC_gstep st t e : quietC e = true -> forall u,
  gtl (gstep st (t, e)) u = gtl st u /\ gmp (gstep st (t, e)) u = gmp st u /\ gop (gstep st (t, e)) u = gop st u /\ gpv (gstep st (t, e)) u = gpv st u.
Proof. intros Hq u. unfold quietC in Hq. unfold gstep. cbn [fst snd]. destruct (gcls e); try discriminate; cbn; auto. Qed.
Lemma quietC_hstep h t e : quietC e = true -> (forall r, att (hstep h (t, e)) r = att h r) /\ (forall r, linked (hstep h (t, e)) r = linked h r).
Proof.
  intros Hq. unfold quietC in Hq. pose proof (gcls_classify e) as GC. split; intros r; [rewrite att_hstep|rewrite linked_hstep]; cbn [snd];
    destruct (gcls e); try discriminate; try (rewrite GC; reflexivity);
    destruct GC as (G1 & G2 & G3 & _); destruct (classify e); try reflexivity; try (now destruct (G1 r0)); try (now destruct (G2 r0)); now destruct (G3 r0 b).
Qed.
Lemma quietC_fold t es : Forall (fun e => quietC e = true) es -> forall st h,
  (forall u, gtl (fold_left gstep (Conc.tag t es) st) u = gtl st u /\ gmp (fold_left gstep (Conc.tag t es) st) u = gmp st u /\
             gop (fold_left gstep (Conc.tag t es) st) u = gop st u /\ gpv (fold_left gstep (Conc.tag t es) st) u = gpv st u) /\
  (forall r, att (fold_left hstep (Conc.tag t es) h) r = att h r) /\ (forall r, linked (fold_left hstep (Conc.tag t es) h) r = linked h r).
Proof.
  induction es as [|e es IH]; intros Hq st h; [cbn; auto|]. inversion Hq; subst.
  change (Conc.tag t (e :: es)) with ((t, e) :: Conc.tag t es). cbn [fold_left].
  destruct (IH H2 (gstep st (t, e)) (hstep h (t, e))) as (A1 & A2 & A3). destruct (quietC_hstep h t e H1) as (B2 & B3). split; [|split].
  - intros u. destruct (A1 u) as (X1 & X2 & X3 & X4). destruct (quietC_gstep st t e H1 u) as (Y1 & Y2 & Y3 & Y4). repeat split; congruence.
  - intros r. now rewrite A2.
  - intros r. now rewrite A3.
Qed.
Lemma Forall_firstn {X} (Pp : X -> Prop) (l : list X) : Forall Pp l -> forall i, Forall Pp (firstn i l).
Proof. induction 1 as [|x l Hx Hl IH]; intros [|i]; cbn; constructor; auto. Qed.

Lemma quietC_not_own e s : quietC e = true -> gcls e <> GOwn s.
Proof. unfold quietC. destruct (gcls e); try discriminate; congruence. Qed.

Lemma PhiD_quietC c tr t es : TB tr -> Forall (fun e => quietC e = true) es ->
  forall i e, nth_error es i = Some e -> PhiD c (gfold (tr ++ Conc.tag t (firstn i es))) (hist (tr ++ Conc.tag t (firstn i es))) t e.
Proof.
  intros HT Hq i e Hn. rewrite gfold_app, hist_app. destruct (quietC_fold t _ (Forall_firstn _ _ Hq i) (gfold tr) (hist tr)) as (A1 & A2 & A3).
  apply PhiD_slot.
  - intros b Hp. destruct (A1 t) as (_ & _ & _ & E). rewrite E in Hp. destruct (HT t b Hp) as (Hl & _). intros Hl'. apply Hl.
    apply (latt_same (hist tr) _ A2 A3). exact Hl'.
  - intros s. apply quietC_not_own. rewrite Forall_forall in Hq. apply Hq. eapply nth_error_In; eauto.
Qed.
Lemma PhiD_nodisc_list c tr t es : Forall (fun e => nodisc e = true) es ->
  forall i e, nth_error es i = Some e -> PhiD c (gfold (tr ++ Conc.tag t (firstn i es))) (hist (tr ++ Conc.tag t (firstn i es))) t e.
Proof. intros Hq i e Hn. apply PhiD_nodisc. rewrite Forall_forall in Hq. apply Hq. eapply nth_error_In; eauto. Qed.

(** ** the node rules *)
Section C.
  Variable c : cfg.
  Notation rdc := (rdsafe (InvAGB c) viewC3 (InvC3 c)).
  Notation I1B := (I1 (InvAGB c)).

  Definition setc (a : AuxC) (t : nat) (es : list ev) (xt : XC) : AuxC :=
    mkAC (fold_left gstep (Conc.tag t es) (ac_g a)) (fnu (ac_x a) t xt).

  Lemma frame_setc a t es xt : Conc.frame viewC3 t a (setc a t es xt).
  Proof. intros t' N. unfold viewC3, setc. cbn. rewrite viewG_fold_other by exact N. now rewrite fnu_other. Qed.

  (** the general step: first the discipline for the new events, then the state invariant *)
  Lemma InvC3_step g g' a tr t es xt : InvC3 c g a tr -> I1B g tr -> I1B g' (tr ++ Conc.tag t es) ->
    (forall a1, flbad (hist tr) = false -> 1 <= c_GB c -> JC c g (gfold tr) (ac_x a) (hist tr) -> JA c g a1 (hist tr) -> TPropG tr ->
       K c (gfold tr) (hist tr) -> TB tr -> TBL g tr ->
       forall i e, nth_error es i = Some e -> PhiD c (gfold (tr ++ Conc.tag t (firstn i es))) (hist (tr ++ Conc.tag t (firstn i es))) t e) ->
    (forall a1 a1', flbad (hist tr) = false -> 1 <= c_GB c -> JC c g (gfold tr) (ac_x a) (hist tr) -> JA c g a1 (hist tr) ->
       K c (gfold tr) (hist tr) -> TB tr -> TBL g tr ->
       JA c g' a1' (hist (tr ++ Conc.tag t es)) -> TPropG (tr ++ Conc.tag t es) -> K c (gfold (tr ++ Conc.tag t es)) (hist (tr ++ Conc.tag t es)) ->
       TB (tr ++ Conc.tag t es) -> TBL g' (tr ++ Conc.tag t es) ->
       JC c g' (gfold (tr ++ Conc.tag t es)) (fnu (ac_x a) t xt) (hist (tr ++ Conc.tag t es))) ->
    InvC3 c g' (setc a t es xt) (tr ++ Conc.tag t es).
  Proof.
    intros (E & H) Hb Ha Hd Hj. split; [cbn; rewrite E; now rewrite gfold_app|]. intros Hf HG. cbn [setc ac_x].
    pose proof (flbad_prefix _ _ Hf) as F. destruct (H F HG) as (D & J). destruct (I1C_open c g tr Hb F D) as (a1 & J1 & T & HK & HT & HL).
    assert (D' : cell_disc c (tr ++ Conc.tag t es)) by (apply cell_disc_app; [exact D|]; eapply Hd; eauto).
    split; [exact D'|]. destruct (I1C_open c g' _ Ha Hf D') as (a1' & J1' & T' & HK' & HT' & HL'). eapply Hj; eauto.
  Qed.

  Lemma InvC3_loc g g' a tr t xt : InvC3 c g a tr -> I1B g tr ->
    (forall a1, flbad (hist tr) = false -> 1 <= c_GB c -> JC c g (gfold tr) (ac_x a) (hist tr) -> JA c g a1 (hist tr) -> TPropG tr ->
       K c (gfold tr) (hist tr) -> TB tr -> TBL g tr -> JC c g' (gfold tr) (fnu (ac_x a) t xt) (hist tr)) ->
    InvC3 c g' (mkAC (ac_g a) (fnu (ac_x a) t xt)) tr.
  Proof.
    intros (E & H) Hb Hj. split; [exact E|]. intros F HG. cbn [ac_x]. destruct (H F HG) as (D & J). split; [exact D|].
    destruct (I1C_open c g tr Hb F D) as (a1 & J1 & T & HK & HT & HL). eapply Hj; eauto.
  Qed.

  Lemma rdc_act {X R} t (f : A X) (k : X -> @dprog G ev R) l Q (xt : G -> XC) :
    (forall g a tr, InvC3 c g a tr -> viewC3 a t = l -> I1B g tr -> I1B (fst (fst (f g))) (tr ++ Conc.tag t (snd (f g))) ->
       InvC3 c (fst (fst (f g))) (setc a t (snd (f g)) (xt g)) (tr ++ Conc.tag t (snd (f g))) /\
       rdc t (k (snd (fst (f g)))) (viewC3 (setc a t (snd (f g)) (xt g)) t) Q) ->
    rdc t (DAct f k) l Q.
  Proof.
    intros H. cbn [rdsafe]. intros g a tr Hi Hv Hb Ha. destruct (H g a tr Hi Hv Hb Ha) as (H1 & H2).
    exists (setc a t (snd (f g)) (xt g)). split; [exact H1|]. split; [apply frame_setc|exact H2].
  Qed.
  Lemma rdc_emit {R} t es (k : @dprog G ev R) l Q (xt : XC) :
    (forall g a tr, InvC3 c g a tr -> viewC3 a t = l -> I1B g tr -> I1B g (tr ++ Conc.tag t es) ->
       InvC3 c g (setc a t es xt) (tr ++ Conc.tag t es) /\ rdc t k (viewC3 (setc a t es xt) t) Q) ->
    rdc t (DEmit es k) l Q.
  Proof.
    intros H. cbn [rdsafe]. intros g a tr Hi Hv Hb Ha. destruct (H g a tr Hi Hv Hb Ha) as (H1 & H2).
    exists (setc a t es xt). split; [exact H1|]. split; [apply frame_setc|exact H2].
  Qed.
  Lemma rdc_loc {X R} t (f : G -> G * X) (k : X -> @dprog G ev R) l Q (xt : G -> XC) :
    (forall g a tr, InvC3 c g a tr -> viewC3 a t = l -> I1B g tr -> I1B (fst (f g)) tr ->
       InvC3 c (fst (f g)) (mkAC (ac_g a) (fnu (ac_x a) t (xt g))) tr /\
       rdc t (k (snd (f g))) (viewG (ac_g a) t, xt g) Q) ->
    rdc t (DLoc f k) l Q.
  Proof.
    intros H. cbn [rdsafe]. intros g a tr Hi Hv Hb Ha. destruct (H g a tr Hi Hv Hb Ha) as (H1 & H2).
    exists (mkAC (ac_g a) (fnu (ac_x a) t (xt g))). split; [exact H1|]. split.
    - intros t' N. unfold viewC3. cbn. now rewrite fnu_other.
    - unfold viewC3. cbn. rewrite fnu_same. exact H2.
  Qed.
  Lemma rdc_xbind {X Y} t (p : P X) (q : X -> P Y) l Q :
    rdc t p l (fun o l' => match o with Some x => rdc t (q x) l' Q | None => Q None l' end) -> rdc t (xbind p q) l Q.
  Proof. intros H. unfold xbind. apply rdsafe_bind. eapply rdsafe_weaken; [|exact H]. intros [x|] l' K0; exact K0. Qed.

  (** ** nodes that leave thread records and guard chains alone *)
  Definition piX (g g' : G) : Prop := piR g g' /\ piC g g'.
  Lemma piX_refl g : piX g g.
  Proof. split; [unfold piR; repeat split; auto|apply piC_refl]. Qed.
  Lemma piX_trans g1 g2 g3 : piX g1 g2 -> piX g2 g3 -> piX g1 g3.
  Proof.
    intros ((A1 & A2 & A3) & A4) ((B1 & B2 & B3) & B4). split; [|eapply piC_trans; eauto]. split; [congruence|]. split; [congruence|].
    intros r. destruct (A3 r) as (X1 & X2), (B3 r) as (Y1 & Y2). split; congruence.
  Qed.

  Lemma JC_same_x g st x x' h : (forall u, x' u = x u) -> JC c g st x h -> JC c g st x' h.
  Proof.
    intros He [J1 J2]. constructor.
    - eapply JR_same_x; [|exact J1]. intros u. now rewrite He.
    - eapply JCh_same_x; [|exact J2]. intros u. unfold sameCh. now rewrite He.
  Qed.

  Lemma InvC3_quiet g g' a tr t es : InvC3 c g a tr -> I1B g tr -> I1B g' (tr ++ Conc.tag t es) -> piX g g' ->
    Forall (fun e => quietC e = true) es -> InvC3 c g' (setc a t es (ac_x a t)) (tr ++ Conc.tag t es).
  Proof.
    intros Hi Hb Ha (PR & PC) Hq. apply (InvC3_step g); auto.
    - intros a1 F HG J J1 T HK HT HL. now apply PhiD_quietC.
    - intros a1 a1' F HG [JR0 JC0] J1 HK HT HL _ _ _ _ _. rewrite gfold_app, hist_app.
      destruct (quietC_fold t es Hq (gfold tr) (hist tr)) as (A1 & A2 & A3).
      apply JC_same_x with (x := ac_x a); [intros u; apply fnu_id|]. constructor; [eapply JR_piR; eauto|].
      eapply JCh_quiet; [exact JC0|exact PC| |exact A2|exact A3]. intros u. destruct (A1 u) as (X1 & X2 & X3 & X4). auto.
  Qed.

  Definition RC (l l' : VG * XC) : Prop :=
    w_op (fst l') = w_op (fst l) /\ w_tl (fst l') = w_tl (fst l) /\ w_mp (fst l') = w_mp (fst l) /\ w_pv (fst l') = w_pv (fst l) /\ snd l' = snd l.
  Lemma RC_refl l : RC l l. Proof. unfold RC. auto. Qed.
  Lemma RC_trans l1 l2 l3 : RC l1 l2 -> RC l2 l3 -> RC l1 l3.
  Proof. unfold RC. intros (A1&A2&A3&A4&A5) (B1&B2&B3&B4&B5). repeat split; congruence. Qed.

  Lemma RC_fold a t es : Forall (fun e => quietC e = true) es -> RC (viewC3 a t) (viewC3 (setc a t es (ac_x a t)) t).
  Proof.
    intros Hq. destruct (quietC_fold t es Hq (ac_g a) h0) as (A1 & _). destruct (A1 t) as (X1 & X2 & X3 & X4).
    unfold RC, viewC3, setc. cbn. rewrite fnu_same. auto.
  Qed.

  Lemma rdc_act_q {X R} t (f : A X) (k : X -> @dprog G ev R) l Q :
    (forall g, piX g (fst (fst (f g))) /\ Forall (fun e => quietC e = true) (snd (f g))) ->
    (forall x l', RC l l' -> rdc t (k x) l' Q) -> rdc t (DAct f k) l Q.
  Proof.
    intros Hf Hk. apply (rdc_act t f k l Q (fun _ => snd l)). intros g a tr Hi Hv Hb Ha. destruct (Hf g) as (P & Hq).
    assert (Ex : snd l = ac_x a t) by (rewrite <- Hv; reflexivity). rewrite Ex. split; [now apply (InvC3_quiet g)|].
    apply Hk. rewrite <- Hv. now apply RC_fold.
  Qed.
  Lemma rdc_emit_q {R} t es (k : @dprog G ev R) l Q :
    Forall (fun e => quietC e = true) es -> (forall l', RC l l' -> rdc t k l' Q) -> rdc t (DEmit es k) l Q.
  Proof.
    intros Hq Hk. apply (rdc_emit t es k l Q (snd l)). intros g a tr Hi Hv Hb Ha.
    assert (Ex : snd l = ac_x a t) by (rewrite <- Hv; reflexivity). rewrite Ex. split; [apply (InvC3_quiet g); auto using piX_refl|].
    apply Hk. rewrite <- Hv. now apply RC_fold.
  Qed.
  Lemma rdc_loc_q {X R} t (f : G -> G * X) (k : X -> @dprog G ev R) l Q :
    (forall g, piX g (fst (f g))) -> (forall x, rdc t (k x) l Q) -> rdc t (DLoc f k) l Q.
  Proof.
    intros Hf Hk. apply (rdc_loc t f k l Q (fun _ => snd l)). intros g a tr Hi Hv Hb _.
    assert (Ex : snd l = ac_x a t) by (rewrite <- Hv; reflexivity). split.
    - apply (InvC3_loc g); auto. intros a1 F HG [JR0 JC0] J1 T HK HT HL. rewrite Ex. destruct (Hf g) as (PR & PC).
      apply JC_same_x with (x := ac_x a); [intros u; apply fnu_id|]. constructor; [eapply JR_piR; eauto|].
      eapply JCh_quiet; [exact JC0|exact PC| | |]; auto.
    - replace (viewG (ac_g a) t, snd l) with l; [apply Hk|]. rewrite <- Hv. reflexivity.
  Qed.

  Definition NeuC {R} (p : @dprog G ev R) : Prop := forall t l, rdc t p l (fun _ l' => RC l l').
  Lemma NeuC_ret {X} (x : X) : NeuC (ret x). Proof. intros t l. apply RC_refl. Qed.
  Lemma NeuC_dret {X} (x : X) : NeuC (@DRet G ev X x). Proof. intros t l. apply RC_refl. Qed.
  Lemma NeuC_dbind {X Y} (p : @dprog G ev X) (q : X -> @dprog G ev Y) : NeuC p -> (forall x, NeuC (q x)) -> NeuC (dbind p q).
  Proof.
    intros Hp Hq t l. apply rdsafe_bind. eapply rdsafe_weaken; [|apply Hp]. intros x l1 R1. cbn beta in R1.
    eapply rdsafe_weaken; [|apply Hq]. intros y l2 R2. cbn beta in R2. eapply RC_trans; eauto.
  Qed.
  Lemma NeuC_xbind {X Y} (p : P X) (q : X -> P Y) : NeuC p -> (forall x, NeuC (q x)) -> NeuC (xbind p q).
  Proof. intros Hp Hq. unfold xbind. apply NeuC_dbind; auto. intros [x|]; [apply Hq|apply NeuC_dret]. Qed.
  Lemma NeuC_act {X} (f : A X) : (forall g, piX g (fst (fst (f g))) /\ Forall (fun e => quietC e = true) (snd (f g))) -> NeuC (act f).
  Proof. intros Hf t l. unfold act. apply rdc_act_q; [exact Hf|]. intros x l' R1. exact R1. Qed.
  Lemma NeuC_emit es : Forall (fun e => quietC e = true) es -> NeuC (emit es).
  Proof. intros Hq t l. unfold emit. apply rdc_emit_q; [exact Hq|]. intros l' R1. exact R1. Qed.
  Lemma NeuC_loc {X} (f : G -> G * X) : (forall g, piX g (fst (f g))) -> NeuC (loc f).
  Proof. intros Hf t l. unfold loc. apply rdc_loc_q; [exact Hf|]. intros x. apply RC_refl. Qed.
  Lemma NeuC_fuel_out {X} : NeuC (@fuel_out X).
  Proof. intros t l. unfold fuel_out. apply rdc_emit_q; [repeat constructor|]. intros l' R1. exact R1. Qed.
  Lemma rdc_neu_seq {X Y} t (p : P X) (q : X -> P Y) l Q :
    NeuC p -> (forall x l', RC l l' -> rdc t (q x) l' Q) -> (forall l', RC l l' -> Q None l') -> rdc t (xbind p q) l Q.
  Proof.
    intros Hp Hq Hn. apply rdc_xbind. eapply rdsafe_weaken; [|apply Hp]. intros [x|] l' R1; [now apply Hq|now apply Hn].
  Qed.
End C.
