(** * The flat-combining containers: instances of the kernel theorem (LV.Proofs.FcKernelProofs).

    For each container: the kernel model LV.Model.FcKernel instantiated with the container's pure
    fc_apply / fc_process functions (LV.Model.FcBatch), and the theorem that, for EVERY schedule, any number of
    threads, thread exits, compaction, compact factor and combine pass count, every trace is a valid
    LP-annotated trace of the sequential specification (linearization point = execution by the combiner),
    hence every history is linearizable.

      counting container (harness/C23)   fc_single_combiner, fc_exactly_once, fc_records_not_used_after_free
      FCDeque                            fcdeque_linearizable  Specs.Deque
      FCQueue                            fcqueue_linearizable  Specs.Fifo
      FCStack                            fcstack_linearizable  Specs.Stack
      FCPriorityQueue                    fcpq_linearizable     Specs.PQueue

    Three layers: part A (LV.Proofs.FcKernelProofs: LP-validity while no record is released unanswered; the
    `_partA` theorems, valid for both versions of compact_list), part B (LV.Proofs.FcKernelShape: no record is
    ever released unanswered) and part C (LV.Proofs.FcKernelFree: no access to a freed record). *)
From Coq Require Import ZArith List String Bool Lia PeanoNat.
From LV Require Import Base.Conc Base.Events Base.Lin Spec.Specs Proofs.LinProofs
                       Model.FcKernel Model.FcBatch Proofs.FcBatchProofs Proofs.FcKernelProofs.
From LV Require Proofs.FcKernelShape.   (* not imported: its view predicates would shadow Spec.St *)
Import ListNotations.

Set Implicit Arguments.

(** ** the counting container: the specification is "each execution increments the counter of its request
       id and returns it" *)
Definition CountSpec : Spec :=
  {| St := Z -> nat; Op := Z; Res := nat; sinit := fun _ => 0;
     sstep := fun c rid => cnt_apply c op_pair rid;
     res_eqb := Nat.eqb; res_eqb_spec := Nat.eqb_eq |}.

Definition cnt_okop (op : nat) : bool := Nat.eqb op op_single || Nat.eqb op op_pair.
Definition cnt_dec (op : nat) (arg : Z) : Z := arg.
Definition cnt_rdec (l : list Z) : nat := match l with [z] => Z.to_nat z | _ => 0 end.
Definition cnt_pheld (p : cnt_P) : list (nat * nat * Z) :=
  match p with Some (q, qarg) => [(q, op_pair, qarg)] | None => [] end.

Lemma cnt_rdec_enc r : cnt_rdec (cnt_enc r) = r.
Proof. unfold cnt_rdec, cnt_enc. apply Nat2Z.id. Qed.

Lemma cnt_okop_ge2 op : cnt_okop op = true -> 2 <= op.
Proof.
  unfold cnt_okop, op_single, op_pair. intros H. apply orb_true_iff in H. destruct H as [H|H]; apply Nat.eqb_eq in H; lia.
Qed.

Lemma cnt_apply_spec (c : St CountSpec) op arg :
  cnt_okop op = true -> cnt_apply c op arg = sstep CountSpec c (cnt_dec op arg).
Proof. reflexivity. Qed.

Lemma cnt_visit_sound : visit_sound CountSpec cnt_pheld cnt_okop cnt_dec cnt_visit.
Proof.
  intros rho p c r op tid arg p' c' cs Hv Hr Hok Hag. unfold cnt_visit in Hv.
  destruct (Nat.eqb_spec op op_pair) as [->|Hne].
  - destruct p as [[q qarg]|].
    + destruct (Nat.eqb_spec q r) as [->|Hqr].
      * inversion Hv; subst p' c' cs; clear Hv. cbn [map fst].
        split; [constructor|]. split; [intros ? []|]. split; [exact I|]. split; [reflexivity|]. split; [exact Hag|].
        intros x Hx. split; [right; exact Hx|intros []].
      * cbn in Hv. inversion Hv; subst p' c' cs; clear Hv.
        destruct (Hag q op_pair qarg (or_introl eq_refl)) as [Hq _].
        cbn [map fst cnt_pheld].
        split; [constructor; [intros [E|[]]; congruence|constructor; [intros []|constructor]]|].
        split; [intros x [<-|[<-|[]]]; [right; left; reflexivity|left; reflexivity]|].
        split; [cbn; unfold op_of; rewrite Hq, Hr; cbn; auto|].
        split; [cbn; unfold op_of; rewrite Hq, Hr; reflexivity|].
        split; [intros ? ? ? []|intros ? []].
    + inversion Hv; subst p' c' cs; clear Hv. cbn [map fst cnt_pheld].
      split; [constructor|]. split; [intros ? []|]. split; [exact I|]. split; [reflexivity|].
      split; [intros q o a [E|[]]; inversion E; subst; split; assumption|].
      intros x [<-|[]]. split; [left; reflexivity|intros []].
  - inversion Hv; subst p' c' cs; clear Hv. cbn [map fst].
    split; [constructor|]. split; [intros ? []|]. split; [exact I|]. split; [reflexivity|]. split; [exact Hag|].
    intros x Hx. split; [right; exact Hx|intros []].
Qed.

Definition cnt_init_cfg (chk : bool) (fuel mask npass : nat) (ths : list (list cop)) :=
  init_cfg 0 cnt_enc cnt_apply (None : cnt_P) cnt_visit chk fuel mask npass (fun _ : Z => 0) ths.

Definition cnt_annot := annot CountSpec cnt_rdec cnt_dec.

(** *** single combiner: the lock monitor never fails *)
Theorem fc_single_combiner chk fuel mask npass ths c :
  ops_ok cnt_okop ths -> Conc.reach (cnt_init_cfg chk fuel mask npass ths) c ->
  exists h, mon None (Conc.trace c) = Some h.
Proof.
  intros Hok Hr.
  exact (proj1 (fc_partA (S := CountSpec) cnt_rdec cnt_rdec_enc cnt_okop_ge2 cnt_apply_spec (pinit := (None : cnt_P)) (pheld := cnt_pheld) eq_refl cnt_visit_sound Hok Hr)).
Qed.

(** *** exactly once, part A (see FcKernelProofs): as long as no record is released unanswered *)
Theorem fc_exactly_once_partA chk fuel mask npass ths c :
  ops_ok cnt_okop ths -> Conc.reach (cnt_init_cfg chk fuel mask npass ths) c ->
  has_lost (Conc.trace c) = false -> lp_valid CountSpec (cnt_annot (Conc.trace c)).
Proof.
  intros Hok Hr.
  exact (proj2 (fc_partA (S := CountSpec) cnt_rdec cnt_rdec_enc cnt_okop_ge2 cnt_apply_spec (pinit := (None : cnt_P)) (pheld := cnt_pheld) eq_refl cnt_visit_sound Hok Hr)).
Qed.

(** ** the containers over integer values *)
Lemma res_dec_enc r : res_dec (res_enc r) = r.
Proof. destruct r as [|[|]|[v|]|[|] [|]]; reflexivity. Qed.

(** the history of a trace: invocations and responses, the linearization points forgotten *)
Definition fc_history (S : Spec) (rdec : list Z -> Res S) (dec : nat -> Z -> Op S) (tr : list (nat * ev)) : history S :=
  erase (annot S rdec dec tr).

(** *** FCDeque *)
Lemma dq_okop_ge2 op : dq_okop op = true -> 2 <= op.
Proof. intros H. destruct (dq_okop_cases _ H) as [-> | [-> | [-> | [-> | [-> | ->]]]]]; lia. Qed.

Lemma dq_capply_spec (c : St Deque) op arg : dq_okop op = true -> dq_apply c op arg = sstep Deque c (dq_dec op arg).
Proof. apply dq_apply_spec. Qed.

Definition dq_init_cfg (chk : bool) (fuel mask npass : nat) (ths : list (list cop)) :=
  init_cfg RUnit res_enc dq_apply (None : itprev) dq_visit chk fuel mask npass ([] : list Z) ths.

Theorem fcdeque_lp_valid_partA chk fuel mask npass ths c :
  ops_ok dq_okop ths -> Conc.reach (dq_init_cfg chk fuel mask npass ths) c ->
  has_lost (Conc.trace c) = false -> lp_valid Deque (annot Deque res_dec dq_dec (Conc.trace c)).
Proof.
  intros Hok Hr.
  exact (proj2 (fc_partA (S := Deque) res_dec res_dec_enc dq_okop_ge2 dq_capply_spec (pinit := (None : itprev)) (pheld := held_of) eq_refl dq_visit_sound Hok Hr)).
Qed.

Theorem fcdeque_linearizable_partA chk fuel mask npass ths c :
  ops_ok dq_okop ths -> Conc.reach (dq_init_cfg chk fuel mask npass ths) c ->
  has_lost (Conc.trace c) = false -> linearizable Deque (fc_history Deque res_dec dq_dec (Conc.trace c)).
Proof. intros Hok Hr Hl. apply lp_valid_linearizable. eapply fcdeque_lp_valid_partA; eauto. Qed.

(** *** FCQueue *)
Lemma q_okop_ge2 op : q_okop op = true -> 2 <= op.
Proof. intros H. destruct (q_okop_cases _ H) as [-> | [-> | ->]]; lia. Qed.

Lemma q_capply_spec (c : St Fifo) op arg : q_okop op = true -> q_apply c op arg = sstep Fifo c (q_dec op arg).
Proof. apply q_apply_spec. Qed.

Definition q_init_cfg (chk : bool) (fuel mask npass : nat) (ths : list (list cop)) :=
  init_cfg RUnit res_enc q_apply (None : itprev) q_visit chk fuel mask npass ([] : list Z) ths.

Theorem fcqueue_linearizable_partA chk fuel mask npass ths c :
  ops_ok q_okop ths -> Conc.reach (q_init_cfg chk fuel mask npass ths) c ->
  has_lost (Conc.trace c) = false -> linearizable Fifo (fc_history Fifo res_dec q_dec (Conc.trace c)).
Proof.
  intros Hok Hr Hl. apply lp_valid_linearizable.
  exact (proj2 (fc_partA (S := Fifo) res_dec res_dec_enc q_okop_ge2 q_capply_spec (pinit := (None : itprev)) (pheld := held_of) eq_refl q_visit_sound Hok Hr) Hl).
Qed.

(** *** FCStack *)
Lemma s_okop_ge2 op : s_okop op = true -> 2 <= op.
Proof. intros H. destruct (s_okop_cases _ H) as [-> | [-> | ->]]; lia. Qed.

Lemma s_capply_spec (c : St Stack) op arg : s_okop op = true -> s_apply c op arg = sstep Stack c (s_dec op arg).
Proof. apply s_apply_spec. Qed.

Definition s_init_cfg (chk : bool) (fuel mask npass : nat) (ths : list (list cop)) :=
  init_cfg RUnit res_enc s_apply (None : itprev) s_visit chk fuel mask npass ([] : list Z) ths.

Theorem fcstack_linearizable_partA chk fuel mask npass ths c :
  ops_ok s_okop ths -> Conc.reach (s_init_cfg chk fuel mask npass ths) c ->
  has_lost (Conc.trace c) = false -> linearizable Stack (fc_history Stack res_dec s_dec (Conc.trace c)).
Proof.
  intros Hok Hr Hl. apply lp_valid_linearizable.
  exact (proj2 (fc_partA (S := Stack) res_dec res_dec_enc s_okop_ge2 s_capply_spec (pinit := (None : itprev)) (pheld := held_of) eq_refl s_visit_sound Hok Hr) Hl).
Qed.

(** *** FCPriorityQueue (only kernel::combine is used: no fc_process) *)
Lemma pq_capply_spec (c : St PQueue) op arg : s_okop op = true -> pq_apply c op arg = sstep PQueue c (s_dec op arg).
Proof. apply pq_apply_spec. Qed.

Definition pq_init_cfg (chk : bool) (fuel mask npass : nat) (ths : list (list cop)) :=
  init_cfg RUnit res_enc pq_apply (None : itprev) no_visit chk fuel mask npass ([] : list Z) ths.

Theorem fcpq_linearizable_partA chk fuel mask npass ths c :
  ops_ok s_okop ths -> Conc.reach (pq_init_cfg chk fuel mask npass ths) c ->
  has_lost (Conc.trace c) = false -> linearizable PQueue (fc_history PQueue res_dec s_dec (Conc.trace c)).
Proof.
  intros Hok Hr Hl. apply lp_valid_linearizable.
  exact (proj2 (fc_partA (S := PQueue) res_dec res_dec_enc s_okop_ge2 pq_capply_spec (pinit := (None : itprev)) (pheld := held_of) eq_refl
                         (@no_visit_sound PQueue s_okop s_dec) Hok Hr) Hl).
Qed.

(** ** Part B composed with part A: the unconditional theorems (current code, chk = true)

    LV.Proofs.FcKernelShape.fc_never_lost proves, from the shape of the publication list, that no record is
    ever released unanswered: a combiner's pass always reaches its own record.  The only precondition is the
    one the real kernel has as well: a plain [combine] needs at least one combine pass
    (m_nCombinePassCount >= 1; with 0 passes the combiner would never serve itself), [batch_combine] needs
    nothing.  With it, the [has_lost = false] hypothesis of the part A theorems is discharged. *)
Definition passes_ok (npass : nat) (ths : list (list cop)) : Prop := Forall (Forall (FcKernelShape.cop_pass npass)) ths.

Lemma passes_ok_pos npass ths : 1 <= npass -> passes_ok npass ths.
Proof.
  intros H. apply Forall_forall. intros os _. apply Forall_forall. intros [b op arg|] _; cbn; auto.
Qed.

Lemma passes_ok_batch ths : Forall (Forall (fun o => match o with CReq b _ _ => b = true | CExit => True end)) ths ->
  passes_ok 0 ths.
Proof.
  intros H. eapply Forall_impl; [|exact H]. intros os Hos. eapply Forall_impl; [|exact Hos].
  intros [b op arg|] Ho; cbn; auto.
Qed.

Lemma ops_ok_progs_ok okop npass ths : (forall op, okop op = true -> 2 <= op) ->
  ops_ok okop ths -> passes_ok npass ths -> FcKernelShape.progs_ok npass ths.
Proof.
  intros H2 Hok Hp. split; [|exact Hp]. eapply Forall_impl; [|exact Hok]. intros os Hos.
  eapply Forall_impl; [|exact Hos]. intros [b op arg|] Ho; cbn in *; auto.
Qed.

(** *** the kernel: no request is ever lost, every request is executed exactly once *)
Theorem fc_never_released_unanswered fuel mask npass ths c :
  ops_ok cnt_okop ths -> passes_ok npass ths -> Conc.reach (cnt_init_cfg true fuel mask npass ths) c ->
  has_lost (Conc.trace c) = false.
Proof.
  intros Hok Hp Hr. unfold cnt_init_cfg in Hr.
  exact (FcKernelShape.fc_never_lost (ops_ok_progs_ok cnt_okop_ge2 Hok Hp) Hr).
Qed.

Theorem fc_exactly_once fuel mask npass ths c :
  ops_ok cnt_okop ths -> passes_ok npass ths -> Conc.reach (cnt_init_cfg true fuel mask npass ths) c ->
  lp_valid CountSpec (cnt_annot (Conc.trace c)).
Proof.
  intros Hok Hp Hr. apply (fc_exactly_once_partA Hok Hr). exact (fc_never_released_unanswered Hok Hp Hr).
Qed.

(** *** the four containers *)
Theorem fcdeque_lp_valid fuel mask npass ths c :
  ops_ok dq_okop ths -> passes_ok npass ths -> Conc.reach (dq_init_cfg true fuel mask npass ths) c ->
  lp_valid Deque (annot Deque res_dec dq_dec (Conc.trace c)).
Proof.
  intros Hok Hp Hr. apply (fcdeque_lp_valid_partA Hok Hr). unfold dq_init_cfg in Hr.
  exact (FcKernelShape.fc_never_lost (ops_ok_progs_ok dq_okop_ge2 Hok Hp) Hr).
Qed.

Theorem fcdeque_linearizable fuel mask npass ths c :
  ops_ok dq_okop ths -> passes_ok npass ths -> Conc.reach (dq_init_cfg true fuel mask npass ths) c ->
  linearizable Deque (fc_history Deque res_dec dq_dec (Conc.trace c)).
Proof. intros Hok Hp Hr. apply lp_valid_linearizable. exact (fcdeque_lp_valid Hok Hp Hr). Qed.

Theorem fcqueue_linearizable fuel mask npass ths c :
  ops_ok q_okop ths -> passes_ok npass ths -> Conc.reach (q_init_cfg true fuel mask npass ths) c ->
  linearizable Fifo (fc_history Fifo res_dec q_dec (Conc.trace c)).
Proof.
  intros Hok Hp Hr. apply (fcqueue_linearizable_partA Hok Hr). unfold q_init_cfg in Hr.
  exact (FcKernelShape.fc_never_lost (ops_ok_progs_ok q_okop_ge2 Hok Hp) Hr).
Qed.

Theorem fcstack_linearizable fuel mask npass ths c :
  ops_ok s_okop ths -> passes_ok npass ths -> Conc.reach (s_init_cfg true fuel mask npass ths) c ->
  linearizable Stack (fc_history Stack res_dec s_dec (Conc.trace c)).
Proof.
  intros Hok Hp Hr. apply (fcstack_linearizable_partA Hok Hr). unfold s_init_cfg in Hr.
  exact (FcKernelShape.fc_never_lost (ops_ok_progs_ok s_okop_ge2 Hok Hp) Hr).
Qed.

Theorem fcpq_linearizable fuel mask npass ths c :
  ops_ok s_okop ths -> passes_ok npass ths -> Conc.reach (pq_init_cfg true fuel mask npass ths) c ->
  linearizable PQueue (fc_history PQueue res_dec s_dec (Conc.trace c)).
Proof.
  intros Hok Hp Hr. apply (fcpq_linearizable_partA Hok Hr). unfold pq_init_cfg in Hr.
  exact (FcKernelShape.fc_never_lost (ops_ok_progs_ok s_okop_ge2 Hok Hp) Hr).
Qed.

(** ** Part C: publication records are not used after they were freed (current code, chk = true)

    LV.Proofs.FcKernelFree.fc_no_uaf: part B's invariant extended with the ghost allocated list and the set of
    freed records.  The only fact needed about a container's fc_process is which records an iteration may
    complete: the record it is at, or the one it kept in itPrev. *)
From LV Require Proofs.FcKernelFree.

Definition cnt_pheldr (p : cnt_P) : list nat := match p with Some (q, _) => [q] | None => [] end.
Definition it_recs (p : itprev) : list nat := match p with Some (q, _, _) => [q] | None => [] end.

Ltac visit_recs f :=
  let H := fresh "H" in
  intros p c r op tid arg p' c' cs H; unfold f, collide in H;
  repeat (match type of H with
          | context [match ?x with Some _ => _ | None => _ end] => destruct x as [[[? ?] ?]|]
          | context [if ?b then _ else _] => destruct b
          end);
  inversion H; subst; cbn; split; intros x Hx; cbn in *; intuition.

Lemma cnt_visit_recs : forall p c r op tid arg p' c' cs, cnt_visit p c r op tid arg = (p', c', cs) ->
  (forall q, In q (map fst cs) -> q = r \/ In q (cnt_pheldr p)) /\ (forall q, In q (cnt_pheldr p') -> q = r \/ In q (cnt_pheldr p)).
Proof.
  intros p c r op tid arg p' c' cs H. unfold cnt_visit in H.
  destruct (Nat.eqb op op_pair); [|inversion H; subst; cbn; split; intros x Hx; cbn in *; intuition].
  destruct p as [[q qarg]|]; [|inversion H; subst; cbn; split; intros x Hx; cbn in *; intuition].
  destruct (Nat.eqb q r); inversion H; subst; cbn; split; intros x Hx; cbn in *; intuition.
Qed.

Lemma dq_visit_recs : forall p c r op tid arg p' c' cs, dq_visit p c r op tid arg = (p', c', cs) ->
  (forall q, In q (map fst cs) -> q = r \/ In q (it_recs p)) /\ (forall q, In q (it_recs p') -> q = r \/ In q (it_recs p)).
Proof. visit_recs dq_visit. Qed.
Lemma q_visit_recs : forall p c r op tid arg p' c' cs, q_visit p c r op tid arg = (p', c', cs) ->
  (forall q, In q (map fst cs) -> q = r \/ In q (it_recs p)) /\ (forall q, In q (it_recs p') -> q = r \/ In q (it_recs p)).
Proof. visit_recs q_visit. Qed.
Lemma s_visit_recs : forall p c r op tid arg p' c' cs, s_visit p c r op tid arg = (p', c', cs) ->
  (forall q, In q (map fst cs) -> q = r \/ In q (it_recs p)) /\ (forall q, In q (it_recs p') -> q = r \/ In q (it_recs p)).
Proof. visit_recs s_visit. Qed.
Lemma no_visit_recs : forall p c r op tid arg p' c' cs, no_visit p c r op tid arg = (p', c', cs) ->
  (forall q, In q (map fst cs) -> q = r \/ In q (it_recs p)) /\ (forall q, In q (it_recs p') -> q = r \/ In q (it_recs p)).
Proof. visit_recs no_visit. Qed.

Lemma ops_ok_progs_ok_free okop npass ths : (forall op, okop op = true -> 2 <= op) ->
  ops_ok okop ths -> passes_ok npass ths -> FcKernelFree.progs_ok npass ths.
Proof.
  intros H2 Hok Hp. split; [|exact Hp]. eapply Forall_impl; [|exact Hok]. intros os Hos.
  eapply Forall_impl; [|exact Hos]. intros [b op arg|] Ho; cbn in *; auto.
Qed.

(** the kernel (counting container): no atomic access to a freed publication record, on every trace *)
Theorem fc_records_not_used_after_free fuel mask npass ths c :
  ops_ok cnt_okop ths -> passes_ok npass ths -> Conc.reach (cnt_init_cfg true fuel mask npass ths) c ->
  FcKernelFree.has_uaf (Conc.trace c) = false.
Proof.
  intros Hok Hp Hr. unfold cnt_init_cfg in Hr.
  exact (proj1 (@FcKernelFree.fc_no_uaf _ _ _ _ _ _ (None : cnt_P) _ cnt_pheldr eq_refl cnt_visit_recs _ _ _ _ _ _ (ops_ok_progs_ok_free cnt_okop_ge2 Hok Hp) Hr)).
Qed.

(** the same for the four containers' instances of the kernel *)
Theorem fcdeque_records_not_used_after_free fuel mask npass ths c :
  ops_ok dq_okop ths -> passes_ok npass ths -> Conc.reach (dq_init_cfg true fuel mask npass ths) c ->
  FcKernelFree.has_uaf (Conc.trace c) = false.
Proof.
  intros Hok Hp Hr. unfold dq_init_cfg in Hr.
  exact (proj1 (@FcKernelFree.fc_no_uaf _ _ _ _ _ _ (None : itprev) _ it_recs eq_refl dq_visit_recs _ _ _ _ _ _ (ops_ok_progs_ok_free dq_okop_ge2 Hok Hp) Hr)).
Qed.
Theorem fcqueue_records_not_used_after_free fuel mask npass ths c :
  ops_ok q_okop ths -> passes_ok npass ths -> Conc.reach (q_init_cfg true fuel mask npass ths) c ->
  FcKernelFree.has_uaf (Conc.trace c) = false.
Proof.
  intros Hok Hp Hr. unfold q_init_cfg in Hr.
  exact (proj1 (@FcKernelFree.fc_no_uaf _ _ _ _ _ _ (None : itprev) _ it_recs eq_refl q_visit_recs _ _ _ _ _ _ (ops_ok_progs_ok_free q_okop_ge2 Hok Hp) Hr)).
Qed.
Theorem fcstack_records_not_used_after_free fuel mask npass ths c :
  ops_ok s_okop ths -> passes_ok npass ths -> Conc.reach (s_init_cfg true fuel mask npass ths) c ->
  FcKernelFree.has_uaf (Conc.trace c) = false.
Proof.
  intros Hok Hp Hr. unfold s_init_cfg in Hr.
  exact (proj1 (@FcKernelFree.fc_no_uaf _ _ _ _ _ _ (None : itprev) _ it_recs eq_refl s_visit_recs _ _ _ _ _ _ (ops_ok_progs_ok_free s_okop_ge2 Hok Hp) Hr)).
Qed.
Theorem fcpq_records_not_used_after_free fuel mask npass ths c :
  ops_ok s_okop ths -> passes_ok npass ths -> Conc.reach (pq_init_cfg true fuel mask npass ths) c ->
  FcKernelFree.has_uaf (Conc.trace c) = false.
Proof.
  intros Hok Hp Hr. unfold pq_init_cfg in Hr.
  exact (proj1 (@FcKernelFree.fc_no_uaf _ _ _ _ _ _ (None : itprev) _ it_recs eq_refl no_visit_recs _ _ _ _ _ _ (ops_ok_progs_ok_free s_okop_ge2 Hok Hp) Hr)).
Qed.
