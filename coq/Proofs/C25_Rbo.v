(** * C25_Rbo — [rbo32]/[rbo64] of cds/details/bitop_generic.h reverse the bit order (part (b)). *)

Require Import ZArith Lia Bool List.
Require Import LV.Base.CInt LV.Proofs.C25_Bits LV.Proofs.C25_Reversal LV.Gen.Gen_bitop.
Local Open Scope Z_scope.

(** Stage shape of rbo32: [((y >> s) & m) | ((y & m) << s)]. *)
Definition stage_b (w m s y : Z) : Z :=
  Z.lor (Z.land (Z.shiftr y s) m) (Z.shiftl (Z.land y m) s mod 2 ^ w).

Lemma stage_b_range w m s y : 0 <= w -> 0 <= s -> 0 <= y -> 0 <= m < 2 ^ w -> 0 <= stage_b w m s y < 2 ^ w.
Proof.
  intros. unfold stage_b. apply lor_range; [lia| |apply mod_range; lia].
  apply land_range; [lia| |lia]. apply Z.shiftr_nonneg. lia.
Qed.

Lemma rbo32_stage0 y : 0 <= y -> bswap_spec 32 0 y (stage_b 32 0x55555555 1 y).
Proof. split; [apply stage_b_range; lia|]. unfold stage_b. enum_Z ltac:(bit_case). Qed.
Lemma rbo32_stage1 y : 0 <= y -> bswap_spec 32 1 y (stage_b 32 0x33333333 2 y).
Proof. split; [apply stage_b_range; lia|]. unfold stage_b. enum_Z ltac:(bit_case). Qed.
Lemma rbo32_stage2 y : 0 <= y -> bswap_spec 32 2 y (stage_b 32 0x0f0f0f0f 4 y).
Proof. split; [apply stage_b_range; lia|]. unfold stage_b. enum_Z ltac:(bit_case). Qed.
Lemma rbo32_stage3 y : 0 <= y -> bswap_spec 32 3 y (stage_b 32 0x00ff00ff 8 y).
Proof. split; [apply stage_b_range; lia|]. unfold stage_b. enum_Z ltac:(bit_case). Qed.

Lemma rbo32_unfold x :
  rbo32 x = Some (stage_last 32 16 (stage_b 32 0x00ff00ff 8 (stage_b 32 0x0f0f0f0f 4
                 (stage_b 32 0x33333333 2 (stage_b 32 0x55555555 1 x))))).
Proof. reflexivity. Qed.

Lemma rbo32_is_rev x : 0 <= x < 2 ^ 32 -> rbo32 x = Some (rev 32 x).
Proof.
  intros Hx. rewrite rbo32_unfold. f_equal.
  set (y1 := stage_b 32 0x55555555 1 x).
  set (y2 := stage_b 32 0x33333333 2 y1).
  set (y3 := stage_b 32 0x0f0f0f0f 4 y2).
  set (y4 := stage_b 32 0x00ff00ff 8 y3).
  assert (R1 : 0 <= y1 < 2 ^ 32) by (apply stage_b_range; lia).
  assert (R2 : 0 <= y2 < 2 ^ 32) by (apply stage_b_range; lia).
  assert (R3 : 0 <= y3 < 2 ^ 32) by (apply stage_b_range; lia).
  assert (R4 : 0 <= y4 < 2 ^ 32) by (apply stage_b_range; lia).
  apply (bswap_chain32 x y1 y2 y3 y4).
  - apply rbo32_stage0; lia.
  - apply rbo32_stage1; lia.
  - apply rbo32_stage2; lia.
  - apply rbo32_stage3; lia.
  - apply swar32_stage4; lia.
Qed.

Lemma rbo64_is_rev x : 0 <= x < 2 ^ 64 -> rbo64 x = Some (rev 64 x).
Proof.
  intros Hx. unfold rbo64. rewrite !cast_u32.
  rewrite rbo32_is_rev by (apply mod_range; lia). monad_run.
  rewrite rbo32_is_rev by (apply mod_range; lia). monad_run.
  f_equal. apply rev64_halves, Hx.
Qed.
