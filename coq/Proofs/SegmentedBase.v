(** * SegmentedQueue: vocabulary of the C08 statements (events, "completed before", cells) and the
      invariant used to prove them (auxiliary state = one view per thread). *)
From Coq Require Import ZArith List String Bool Lia PeanoNat.
From LV Require Import Base.Conc Base.Events Model.Segmented.
Import ListNotations.
Local Open Scope string_scope.
Local Open Scope list_scope.

(** ** lists *)
Lemma in_snoc {A} (l : list A) (x y : A) : In y (l ++ [x]) <-> In y l \/ y = x.
Proof. rewrite in_app_iff. cbn. intuition. Qed.

Lemma app_split_cases {A} (a b c d : list A) :
  a ++ b = c ++ d -> (exists l, c = a ++ l /\ b = l ++ d) \/ (exists l, a = c ++ l /\ d = l ++ b).
Proof.
  revert c. induction a as [|x a IH]; intros c H; cbn in *.
  - left. exists c. auto.
  - destruct c as [|y c]; cbn in *.
    + right. exists (x :: a). auto.
    + inversion H; subst. destruct (IH c H2) as [[l [-> ->]]|[l [-> ->]]].
      * left. exists l. auto.
      * right. exists l. auto.
Qed.

(** ** events *)
Definition evs (tr : list (nat * ev)) : list ev := map snd tr.

Lemma evs_app tr tr' : evs (tr ++ tr') = evs tr ++ evs tr'.
Proof. apply map_app. Qed.

Lemma evs_tag t es : evs (Conc.tag t es) = es.
Proof. unfold evs, Conc.tag. rewrite map_map. cbn. apply map_id. Qed.

(** [e1] occurred at a moment when [e2] had not occurred yet, and [e2] occurred later:
    "the operation that emitted e1 completed before the operation that emitted e2 began" *)
Definition completed_before (tr : list (nat * ev)) (e1 e2 : ev) : Prop :=
  exists tr1 tr2, tr = tr1 ++ tr2 /\ In e1 (evs tr1) /\ ~ In e2 (evs tr1) /\ In e2 (evs tr2).

Lemma ev_eq_dec (a b : ev) : {a = b} + {a <> b}.
Proof.
  decide equality; try apply (list_eq_dec Z.eq_dec); try apply bool_dec; try apply string_dec.
  decide equality.
Defined.

Lemma cb_snoc tr te e1 e2 :
  completed_before (tr ++ [te]) e1 e2 ->
  completed_before tr e1 e2 \/ (snd te = e2 /\ ~ In e2 (evs tr) /\ In e1 (evs tr)).
Proof.
  intros (tr1 & tr2 & E & H1 & H2 & H3).
  destruct (app_split_cases _ _ _ _ E) as [[l [E1 E2]]|[l [E1 E2]]].
  - destruct l as [|z l].
    + rewrite app_nil_r in E1. subst tr1. cbn in E2. subst tr2. right.
      cbn in H3. destruct H3 as [H3|[]]. auto.
    + cbn in E2. inversion E2; subst. destruct l; cbn in H4; [|discriminate]. subst tr2. destruct H3.
  - subst tr tr2.
    destruct (in_dec ev_eq_dec e2 (evs l)) as [D|D].
    + left. exists tr1, l. auto.
    + right. rewrite evs_app in H3. apply in_app_or in H3. destruct H3 as [H3|H3]; [contradiction|].
      cbn in H3. destruct H3 as [H3|[]]. split; [auto|]. split.
      * rewrite evs_app, in_app_iff. intros [K|K]; auto.
      * rewrite evs_app, in_app_iff. auto.
Qed.

(** once [e2] has occurred, later events do not add to the operations completed before it *)
Lemma cb_snoc_old tr te e1 e2 :
  In e2 (evs tr) -> completed_before (tr ++ [te]) e1 e2 -> completed_before tr e1 e2.
Proof. intros H C. destruct (cb_snoc _ _ _ _ C) as [K|(_ & K & _)]; [exact K|contradiction]. Qed.

Lemma cb_snoc_other tr te e1 e2 :
  snd te <> e2 -> completed_before (tr ++ [te]) e1 e2 -> completed_before tr e1 e2.
Proof. intros H C. destruct (cb_snoc _ _ _ _ C) as [K|(K & _)]; [exact K|contradiction]. Qed.

Lemma cb_mono tr te e1 e2 : completed_before tr e1 e2 -> completed_before (tr ++ [te]) e1 e2.
Proof.
  intros (tr1 & tr2 & -> & H1 & H2 & H3). exists tr1, (tr2 ++ [te]). rewrite app_assoc. repeat split; auto.
  rewrite evs_app, in_app_iff. auto.
Qed.

Lemma cb_in1 tr e1 e2 : completed_before tr e1 e2 -> In e1 (evs tr).
Proof. intros (tr1 & tr2 & -> & H1 & _). rewrite evs_app, in_app_iff. auto. Qed.

(** ** classification of client events *)
Definition zop (t k : Z) : option (nat * nat) := Some (Z.to_nat t, Z.to_nat k).

(** the operation (thread, index) an event belongs to *)
Definition ev_op (e : ev) : option (nat * nat) :=
  match e with
  | EvCli name args =>
      if String.eqb name "inv_enq" || String.eqb name "ret_enq" then
        match args with [_; t; k] => zop t k | _ => None end
      else if String.eqb name "inv_deq" then
        match args with [t; k] => zop t k | _ => None end
      else if String.eqb name "ret_deq" then
        match args with t :: k :: _ => zop t k | _ => None end
      else None
  | _ => None
  end.

Definition ev_is_ret (e : ev) : bool :=
  match e with
  | EvCli name _ => String.eqb name "ret_enq" || String.eqb name "ret_deq"
  | _ => false
  end.

(** [e] is the response of a dequeue that returned item [x] *)
Definition is_ret_got (x : item) (e : ev) : bool :=
  match e with
  | EvCli name args =>
      if String.eqb name "ret_deq" then
        match args with
        | [_; _; b; v; t'; k'] => Z.eqb b 1 && item_eqb x (Z.to_nat t', Z.to_nat k', v)
        | _ => false
        end
      else false
  | _ => false
  end.

(** number of dequeues that returned [x] *)
Definition count_ret (x : item) (tr : list (nat * ev)) : nat :=
  List.length (filter (fun te => is_ret_got x (snd te)) tr).

Lemma count_ret_app x tr tr' : count_ret x (tr ++ tr') = count_ret x tr + count_ret x tr'.
Proof. unfold count_ret. rewrite filter_app, app_length. reflexivity. Qed.

Lemma item_eqb_refl x : item_eqb x x = true.
Proof. destruct x as [[t k] v]. cbn. now rewrite !Nat.eqb_refl, Z.eqb_refl. Qed.

Lemma item_eqb_eq x y : item_eqb x y = true <-> x = y.
Proof.
  destruct x as [[t k] v], y as [[t' k'] v']. cbn. rewrite !andb_true_iff, !Nat.eqb_eq, Z.eqb_eq.
  split; [intros [[-> ->] ->]; reflexivity|intros H; inversion H; auto].
Qed.

Lemma item_eq_dec (x y : item) : {x = y} + {x <> y}.
Proof. repeat decide equality. Defined.

Lemma ev_op_inv_enq t k v : ev_op (ev_inv_enq (t, k, v)) = Some (t, k).
Proof. cbn. unfold zop, zn. now rewrite !Nat2Z.id. Qed.
Lemma ev_op_ret_enq t k v : ev_op (ev_ret_enq (t, k, v)) = Some (t, k).
Proof. cbn. unfold zop, zn. now rewrite !Nat2Z.id. Qed.
Lemma ev_op_inv_deq t k : ev_op (ev_inv_deq t k) = Some (t, k).
Proof. cbn. unfold zop, zn. now rewrite !Nat2Z.id. Qed.
Lemma ev_op_ret_deq_got t k x : ev_op (ev_ret_deq_got t k x) = Some (t, k).
Proof. destruct x as [[t' k'] v]. cbn. unfold zop, zn. now rewrite !Nat2Z.id. Qed.
Lemma ev_op_ret_deq_empty t k : ev_op (ev_ret_deq_empty t k) = Some (t, k).
Proof. cbn. unfold zop, zn. now rewrite !Nat2Z.id. Qed.

Lemma is_ret_got_got x t k y : is_ret_got x (ev_ret_deq_got t k y) = item_eqb x y.
Proof. destruct y as [[t' k'] v]. cbn. unfold zn. now rewrite !Nat2Z.id. Qed.
Lemma is_ret_got_empty x t k : is_ret_got x (ev_ret_deq_empty t k) = false.
Proof. reflexivity. Qed.
Lemma is_ret_got_inv_enq x y : is_ret_got x (ev_inv_enq y) = false.
Proof. destruct y as [[t k] v]. reflexivity. Qed.
Lemma is_ret_got_ret_enq x y : is_ret_got x (ev_ret_enq y) = false.
Proof. destruct y as [[t k] v]. reflexivity. Qed.
Lemma is_ret_got_inv_deq x t k : is_ret_got x (ev_inv_deq t k) = false.
Proof. reflexivity. Qed.

Lemma ev_inv_enq_inj x y : ev_inv_enq x = ev_inv_enq y -> x = y.
Proof.
  destruct x as [[t k] v], y as [[t' k'] v']. cbn. intros H. inversion H.
  apply Nat2Z.inj in H2, H3. subst. reflexivity.
Qed.
Lemma ev_ret_enq_inj x y : ev_ret_enq x = ev_ret_enq y -> x = y.
Proof.
  destruct x as [[t k] v], y as [[t' k'] v']. cbn. intros H. inversion H.
  apply Nat2Z.inj in H2, H3. subst. reflexivity.
Qed.
Lemma ev_inv_deq_inj t k t' k' : ev_inv_deq t k = ev_inv_deq t' k' -> t = t' /\ k = k'.
Proof. cbn. intros H. inversion H. apply Nat2Z.inj in H1, H2. auto. Qed.

(** ** cells *)
Definition cptr (g : G) (s i : nat) : option item := fst (cells g s i).
Definition cmark (g : G) (s i : nat) : bool := snd (cells g s i).
(** index of the first segment still in the list (= number of segments removed so far) *)
Definition lo (g : G) : nat := nalloc g - List.length (slist g).
Definition inserted (g : G) (x : item) : Prop := exists s i, cptr g s i = Some x.
Definition marked (g : G) (x : item) : Prop := exists s i, cells g s i = (Some x, true).
Definition unmarked_in (g : G) (x : item) : Prop := exists s i, cells g s i = (Some x, false).

(** ** the invariant *)
Section Inv.
  Variable qf : nat.

  (** state *)
  Record SI (g : G) : Prop := {
    si_list : slist g = seq (lo g) (List.length (slist g)) /\ List.length (slist g) <= nalloc g;
    si_wf : forall s i, cptr g s i = None -> cmark g s i = false;
    si_range : forall s i, cptr g s i <> None -> s < nalloc g /\ i < qf;
    si_uniq : forall x s i s' i', cptr g s i = Some x -> cptr g s' i' = Some x -> s = s' /\ i = i';
    si_full : forall s i, S s < nalloc g -> i < qf -> cptr g s i <> None;
    si_exh : forall s i, s < lo g -> i < qf -> cmark g s i = true;
    si_mark : forall s i, cmark g s i = true -> s <= lo g;
    si_head : forall s, headp g = Some s -> s <= lo g;
    si_head0 : headp g = None -> slist g = [];
    si_tail : forall s, tailp g = Some s -> s < nalloc g
  }.

  (** state and history *)
  Record TI (g : G) (tr : list (nat * ev)) : Prop := {
    ti_ret : forall x, In (ev_ret_enq x) (evs tr) -> inserted g x;
    ti_inv : forall x, inserted g x -> In (ev_inv_enq x) (evs tr);
    ti_ord : forall x y sx ix sy iy,
        completed_before tr (ev_ret_enq y) (ev_inv_enq x) ->
        cptr g sx ix = Some x -> cptr g sy iy = Some y -> sy <= sx;
    ti_emp : forall t k y, In (ev_ret_deq_empty t k) (evs tr) ->
        completed_before tr (ev_ret_enq y) (ev_inv_deq t k) -> marked g y;
    ti_cnt : forall x, 1 <= count_ret x tr -> marked g x /\ count_ret x tr = 1
  }.

  (** per-thread view *)
  Inductive phase :=
  | PIdle
  | PEnq (x : item) (lb : nat) (sg : option nat) (vis : list nat) (ins : bool)
  | PDeq (Sn : item -> Prop) (sg : option nat) (vis : list nat) (hadNull emp : bool) (hp0 : hptr) (cur : option (nat * item))
  | PGot (x : item) (rd : bool).

  (** [v_hd]: this thread, holding the lock, has stored a non-null m_pHead (first segment being created) *)
  Record view := mkV { v_hd : bool; v_idx : nat; v_lock : option (list nat * nat); v_ph : phase }.

  Definition Aux := nat -> view.
  Definition aview (a : Aux) (t : nat) : view := a t.

  Definition taker (vw : view) (x : item) : Prop := exists rd, v_ph vw = PGot x rd.

  Definition covers (vis : list nat) : Prop := forall i, i < qf -> In i vis.

  Definition PH (g : G) (tr : list (nat * ev)) (t idx : nat) (ph : phase) : Prop :=
    match ph with
    | PIdle => True
    | PEnq x lb sg vis ins =>
        (exists v, x = (t, idx, v)) /\
        In (ev_inv_enq x) (evs tr) /\
        lb <= nalloc g /\
        (ins = false -> forall y s i, completed_before tr (ev_ret_enq y) (ev_inv_enq x) -> cptr g s i = Some y -> s < lb) /\
        (if ins then inserted g x else ~ inserted g x) /\
        (forall s, sg = Some s -> s < nalloc g) /\
        (forall s i, sg = Some s -> In i vis -> cptr g s i <> None)
    | PDeq Sn sg vis hadNull emp hp0 cur =>
        In (ev_inv_deq t idx) (evs tr) /\
        (forall y, completed_before tr (ev_ret_enq y) (ev_inv_deq t idx) -> Sn y) /\
        (forall y, Sn y -> inserted g y) /\
        (forall s, sg = Some s -> s <= lo g) /\
        (forall s i, sg = Some s -> In i vis ->
           cmark g s i = true \/ (hadNull = true /\ forall y, Sn y -> cptr g s i <> Some y)) /\
        (hadNull = true -> forall s, sg = Some s -> forall y s' i', Sn y -> cptr g s' i' = Some y -> s' <= s) /\
        (emp = true -> forall y, Sn y -> marked g y) /\
        hp g t 0 = hp0 /\
        (forall i x s, cur = Some (i, x) -> sg = Some s -> cptr g s i = Some x)
    | PGot x rd =>
        In (ev_inv_deq t idx) (evs tr) /\ marked g x /\ (rd = false -> hp g t 0 = HItem x)
    end.

  Record VI (g : G) (tr : list (nat * ev)) (t : nat) (vw : view) : Prop := {
    vi_ops : forall t' e k, In (t', e) tr -> ev_op e = Some (t, k) ->
               k < v_idx vw \/ (k = v_idx vw /\ v_ph vw <> PIdle /\ ev_is_ret e = false);
    vi_lock : forall l n, v_lock vw = Some (l, n) -> lockw g = true /\ slist g = l /\ nalloc g = n;
    vi_hd : v_hd vw = true -> v_lock vw <> None /\ headp g <> None;
    vi_ph : PH g tr t (v_idx vw) (v_ph vw)
  }.

  Record Inv (g : G) (a : Aux) (tr : list (nat * ev)) : Prop := {
    inv_si : SI g;
    inv_ti : TI g tr;
    inv_vi : forall t, VI g tr t (a t);
    inv_lock_free : lockw g = false -> forall t, v_lock (a t) = None;
    inv_lock_uniq : forall t t', v_lock (a t) <> None -> v_lock (a t') <> None -> t = t';
    inv_tk_uniq : forall x t t', taker (a t) x -> taker (a t') x -> t = t';
    inv_tk_cnt : forall x t, taker (a t) x -> count_ret x tr = 0;
    inv_mk : forall x, marked g x -> count_ret x tr = 1 \/ exists t, taker (a t) x
  }.
End Inv.


(** ** how the cells may change in one step, seen from thread [t] (another thread's step) *)
Definition cells_evolve (t : nat) (g g' : G) : Prop :=
  forall s i,
    cells g' s i = cells g s i
    \/ (cptr g s i = None /\ exists z, cells g' s i = (Some z, false) /\ ~ inserted g z /\ fst (fst z) <> t)
    \/ (exists z, cells g s i = (Some z, false) /\ cells g' s i = (Some z, true)).

Lemma ce_ptr t g g' s i y : cells_evolve t g g' -> cptr g s i = Some y -> cptr g' s i = Some y.
Proof.
  intros H K. unfold cptr in *. destruct (H s i) as [E|[[E _]|(z & E1 & E2)]].
  - now rewrite E.
  - unfold cptr in E. congruence.
  - rewrite E1 in K. rewrite E2. exact K.
Qed.

Lemma ce_ptr_back t g g' s i y :
  cells_evolve t g g' -> cptr g' s i = Some y -> cptr g s i = Some y \/ (~ inserted g y /\ fst (fst y) <> t).
Proof.
  intros H K. unfold cptr in *. destruct (H s i) as [E|[[E (z & E1 & E2 & E3)]|(z & E1 & E2)]].
  - left. now rewrite <- E.
  - right. rewrite E1 in K. cbn in K. inversion K; subst. auto.
  - left. rewrite E2 in K. rewrite E1. exact K.
Qed.


Lemma ce_nonnull t g g' s i : cells_evolve t g g' -> cptr g s i <> None -> cptr g' s i <> None.
Proof.
  intros H K. destruct (cptr g s i) as [y|] eqn:E; [|congruence]. rewrite (ce_ptr _ _ _ _ _ _ H E). discriminate.
Qed.

Lemma ce_inserted t g g' y : cells_evolve t g g' -> inserted g y -> inserted g' y.
Proof. intros H (s & i & K). exists s, i. eapply ce_ptr; eauto. Qed.

Lemma ce_cell_marked t g g' s i y : cells_evolve t g g' -> cells g s i = (Some y, true) -> cells g' s i = (Some y, true).
Proof.
  intros H K. destruct (H s i) as [E|[[E _]|(z & E1 & E2)]].
  - now rewrite E.
  - unfold cptr in E. rewrite K in E. discriminate.
  - rewrite K in E1. discriminate.
Qed.

Lemma ce_marked t g g' y : cells_evolve t g g' -> marked g y -> marked g' y.
Proof. intros H (s & i & K). exists s, i. eapply ce_cell_marked; eauto. Qed.

Lemma ce_mark qf t g g' s i : SI qf g -> cells_evolve t g g' -> cmark g s i = true -> cmark g' s i = true.
Proof.
  intros HS H K. destruct (cells g s i) as [p m] eqn:C. unfold cmark in *. rewrite C in K. cbn in K. subst m.
  destruct p as [y|].
  - now rewrite (ce_cell_marked _ _ _ _ _ _ H C).
  - pose proof (si_wf _ _ HS s i) as W. unfold cptr, cmark in W. rewrite C in W. cbn in W. discriminate (W eq_refl).
Qed.

Lemma ce_refl t g : cells_evolve t g g.
Proof. intros s i. left. reflexivity. Qed.

(** how the trace may change in another thread's step *)
Definition trace_evolve (t : nat) (tr tr' : list (nat * ev)) : Prop :=
  tr' = tr \/ exists te, tr' = tr ++ [te] /\ forall k, ev_op (snd te) <> Some (t, k).

Lemma te_in t tr tr' e : trace_evolve t tr tr' -> In e (evs tr) -> In e (evs tr').
Proof. intros [->|(te & -> & _)] H; [exact H|]. rewrite evs_app, in_app_iff. auto. Qed.

Lemma te_cb t tr tr' e1 e2 :
  trace_evolve t tr tr' -> In e2 (evs tr) -> completed_before tr' e1 e2 -> completed_before tr e1 e2.
Proof. intros [->|(te & -> & _)] H C; [exact C|]. eapply cb_snoc_old; eauto. Qed.

(** *** stability of a thread's view under the steps of the others *)
Definition set_hp0 (ph : phase) (h : hptr) : phase :=
  match ph with
  | PDeq Sn sg vis hadNull emp _ cur => PDeq Sn sg vis hadNull emp h cur
  | _ => ph
  end.

Lemma PH_stable_hp qf g tr t idx ph g' tr' :
  SI qf g -> TI g tr ->
  PH g tr t idx ph ->
  (forall x, ph = PGot x false -> hp g' t 0 = hp g t 0) -> nalloc g <= nalloc g' -> lo g <= lo g' ->
  cells_evolve t g g' -> trace_evolve t tr tr' ->
  PH g' tr' t idx (set_hp0 ph (hp g' t 0)).
Proof.
  intros HS HT HP Hhp Hna Hlo Hce Hte. destruct ph as [|x lb sg vis ins|Sn sg vis hadNull emp hp0 cur|x rd]; cbn in *.
  - exact I.
  - destruct HP as (P1 & P2 & P3 & P4 & P5 & P6 & P7). repeat split.
    + exact P1.
    + eapply te_in; eauto.
    + lia.
    + intros Hins y s i C K. pose proof (te_cb _ _ _ _ _ Hte P2 C) as C0.
      destruct (ce_ptr_back _ _ _ _ _ _ Hce K) as [K0|[K0 _]].
      * eapply P4; eauto.
      * exfalso. apply K0. apply (ti_ret _ _ HT). eapply cb_in1; eauto.
    + destruct ins.
      * eapply ce_inserted; eauto.
      * intros (s & i & K). destruct (ce_ptr_back _ _ _ _ _ _ Hce K) as [K0|[_ K0]].
        -- apply P5. exists s, i. exact K0.
        -- destruct P1 as (v & ->). cbn in K0. congruence.
    + intros s E. specialize (P6 s E). lia.
    + intros s i E Hi. eapply ce_nonnull; eauto.
  - destruct HP as (P1 & P2 & P3 & P4 & P5 & P6 & P7 & P8 & P9). repeat split.
    + eapply te_in; eauto.
    + intros y C. apply P2. eapply te_cb; eauto.
    + intros y Hy. eapply ce_inserted; eauto.
    + intros s E. specialize (P4 s E). lia.
    + intros s i E Hi. destruct (P5 s i E Hi) as [K|[K1 K2]].
      * left. eapply ce_mark; eauto.
      * right. split; [exact K1|]. intros y Hy K. destruct (ce_ptr_back _ _ _ _ _ _ Hce K) as [K0|[K0 _]].
        -- eapply K2; eauto.
        -- apply K0. auto.
    + intros Hn s E y s' i' Hy K. destruct (ce_ptr_back _ _ _ _ _ _ Hce K) as [K0|[K0 _]].
      * eapply P6; eauto.
      * exfalso. apply K0. auto.
    + intros He y Hy. eapply ce_marked; eauto.
    + intros i x s E1 E2. eapply ce_ptr; eauto.
  - destruct HP as (P1 & P2 & P3). repeat split.
    + eapply te_in; eauto.
    + eapply ce_marked; eauto.
    + intros E. subst rd. rewrite (Hhp x eq_refl). auto.
Qed.

Lemma PH_stable qf g tr t idx ph g' tr' :
  SI qf g -> TI g tr ->
  PH g tr t idx ph ->
  hp g' t 0 = hp g t 0 -> nalloc g <= nalloc g' -> lo g <= lo g' ->
  cells_evolve t g g' -> trace_evolve t tr tr' ->
  PH g' tr' t idx ph.
Proof.
  intros HS HT HP Hhp Hna Hlo Hce Hte.
  pose proof (PH_stable_hp qf g tr t idx ph g' tr' HS HT HP (fun _ _ => Hhp) Hna Hlo Hce Hte) as K.
  destruct ph; cbn in *; auto.
  destruct HP as (_ & _ & _ & _ & _ & _ & _ & E & _). rewrite <- E, <- Hhp. exact K.
Qed.

Lemma VI_stable qf g tr t vw g' tr' :
  SI qf g -> TI g tr ->
  VI g tr t vw ->
  hp g' t 0 = hp g t 0 -> nalloc g <= nalloc g' -> lo g <= lo g' ->
  cells_evolve t g g' -> trace_evolve t tr tr' ->
  (v_lock vw <> None -> lockw g' = lockw g /\ slist g' = slist g /\ nalloc g' = nalloc g /\ headp g' = headp g) ->
  VI g' tr' t vw.
Proof.
  intros HS HT [V1 V2 Vh V3] Hhp Hna Hlo Hce Hte Hlk. split.
  - intros t' e k Hin Hop. destruct Hte as [->|(te & -> & Hne)].
    + eapply V1; eauto.
    + apply in_app_or in Hin. destruct Hin as [Hin|[E|[]]].
      * eapply V1; eauto.
      * exfalso. subst te. eapply Hne. exact Hop.
  - intros l n E. destruct (V2 l n E) as (A & B & C). destruct Hlk as (A' & B' & C' & _); [congruence|].
    rewrite A', B', C'. auto.
  - intros E. destruct (Vh E) as (A & B). split; [exact A|]. destruct (Hlk A) as (_ & _ & _ & D). now rewrite D.
  - eapply PH_stable; eauto.
Qed.

(** ** updating one thread's view *)
Definition upd (a : Aux) (t : nat) (vw : view) : Aux := fun x => if Nat.eqb x t then vw else a x.

Lemma upd_same a t vw : upd a t vw t = vw.
Proof. unfold upd. now rewrite Nat.eqb_refl. Qed.
Lemma upd_other a t vw t' : t' <> t -> upd a t vw t' = a t'.
Proof. unfold upd. intros H. destruct (Nat.eqb_spec t' t); congruence. Qed.
Lemma aview_upd_same a t vw : aview (upd a t vw) t = vw.
Proof. apply upd_same. Qed.
Lemma frame_upd a t vw : Conc.frame aview t a (upd a t vw).
Proof. intros t' H. unfold aview. now apply upd_other. Qed.
Lemma frame_refl a t : Conc.frame aview t a a.
Proof. intros t' H. reflexivity. Qed.

Lemma taker_marked qf g a tr t x : Inv qf g a tr -> taker (a t) x -> marked g x.
Proof.
  intros HI (rd & E). pose proof (vi_ph _ _ _ _ (inv_vi _ _ _ _ HI t)) as P. rewrite E in P. cbn in P. tauto.
Qed.

(** *** the general step rule: thread [t] moves from (g, tr) to (g', tr') and takes the view [vw'] *)
Lemma Inv_step qf g a tr t g' tr' vw' :
  Inv qf g a tr ->
  SI qf g' -> TI g' tr' -> VI g' tr' t vw' ->
  (* what the other threads see *)
  (forall t', t' <> t -> hp g' t' 0 = hp g t' 0) ->
  nalloc g <= nalloc g' -> lo g <= lo g' ->
  (forall t', t' <> t -> cells_evolve t' g g') ->
  (forall t', t' <> t -> trace_evolve t' tr tr') ->
  (* lock *)
  ((forall t', t' <> t -> v_lock (a t') = None) \/ (lockw g' = lockw g /\ slist g' = slist g /\ nalloc g' = nalloc g /\ headp g' = headp g)) ->
  (lockw g' = false -> v_lock vw' = None /\ (lockw g = false \/ v_lock (a t) <> None)) ->
  (v_lock vw' <> None -> v_lock (a t) <> None \/ lockw g = false) ->
  (* dequeued items *)
  (forall x, taker vw' x -> taker (a t) x \/ ~ marked g x) ->
  (forall x, taker vw' x -> count_ret x tr' = 0) ->
  (forall x, count_ret x tr' = count_ret x tr \/ (taker (a t) x /\ count_ret x tr' = 1)) ->
  (forall x, taker (a t) x -> taker vw' x \/ count_ret x tr' = 1) ->
  (forall x, marked g' x -> marked g x \/ taker vw' x) ->
  Inv qf g' (upd a t vw') tr'.
Proof.
  intros HI HS' HT' HV' Hhp Hna Hlo Hce Hte HL3 HL1 HL2 HTnew HTc0 HTcnt HTdrop HTmk.
  pose proof (inv_si _ _ _ _ HI) as HS. pose proof (inv_ti _ _ _ _ HI) as HT.
  split; auto.
  - intros t'. destruct (Nat.eq_dec t' t) as [->|N].
    + rewrite upd_same. exact HV'.
    + rewrite upd_other by exact N. eapply VI_stable; eauto using (inv_vi _ _ _ _ HI).
      intros Hh. destruct HL3 as [K|K]; [|exact K]. exfalso. apply Hh. apply K. exact N.
  - intros Hf t'. destruct (HL1 Hf) as (A & B). destruct (Nat.eq_dec t' t) as [->|N].
    + now rewrite upd_same.
    + rewrite upd_other by exact N. destruct B as [B|B].
      * eapply (inv_lock_free _ _ _ _ HI); eauto.
      * destruct (v_lock (a t')) eqn:E; [|reflexivity]. exfalso. apply N.
        eapply (inv_lock_uniq _ _ _ _ HI); congruence.
  - intros t1 t2 H1 H2.
    destruct (Nat.eq_dec t1 t) as [->|N1]; destruct (Nat.eq_dec t2 t) as [->|N2]; auto.
    + rewrite upd_same in H1. rewrite upd_other in H2 by exact N2. destruct (HL2 H1) as [K|K].
      * symmetry. eapply (inv_lock_uniq _ _ _ _ HI); eauto.
      * exfalso. apply H2. eapply (inv_lock_free _ _ _ _ HI); eauto.
    + rewrite upd_same in H2. rewrite upd_other in H1 by exact N1. destruct (HL2 H2) as [K|K].
      * eapply (inv_lock_uniq _ _ _ _ HI); eauto.
      * exfalso. apply H1. eapply (inv_lock_free _ _ _ _ HI); eauto.
    + rewrite upd_other in H1 by exact N1. rewrite upd_other in H2 by exact N2.
      eapply (inv_lock_uniq _ _ _ _ HI); eauto.
  - intros x t1 t2 H1 H2.
    destruct (Nat.eq_dec t1 t) as [->|N1]; destruct (Nat.eq_dec t2 t) as [->|N2]; auto.
    + rewrite upd_same in H1. rewrite upd_other in H2 by exact N2. destruct (HTnew x H1) as [K|K].
      * symmetry. eapply (inv_tk_uniq _ _ _ _ HI); eauto.
      * exfalso. apply K. eapply taker_marked; eauto.
    + rewrite upd_same in H2. rewrite upd_other in H1 by exact N1. destruct (HTnew x H2) as [K|K].
      * eapply (inv_tk_uniq _ _ _ _ HI); eauto.
      * exfalso. apply K. eapply taker_marked; eauto.
    + rewrite upd_other in H1 by exact N1. rewrite upd_other in H2 by exact N2.
      eapply (inv_tk_uniq _ _ _ _ HI); eauto.
  - intros x t1 H1. destruct (Nat.eq_dec t1 t) as [->|N1].
    + rewrite upd_same in H1. auto.
    + rewrite upd_other in H1 by exact N1. destruct (HTcnt x) as [K|[K _]].
      * rewrite K. eapply (inv_tk_cnt _ _ _ _ HI); eauto.
      * exfalso. apply N1. eapply (inv_tk_uniq _ _ _ _ HI); eauto.
  - intros x Hm. destruct (HTmk x Hm) as [K|K].
    + destruct (inv_mk _ _ _ _ HI x K) as [C|(t1 & Ht1)].
      * left. destruct (HTcnt x) as [E|[_ E]]; congruence.
      * destruct (Nat.eq_dec t1 t) as [->|N1].
        -- destruct (HTdrop x Ht1) as [D|D]; [right; exists t; now rewrite upd_same|left; exact D].
        -- right. exists t1. now rewrite upd_other.
    + right. exists t. now rewrite upd_same.
Qed.

(** a step that neither dequeues nor returns a dequeued item *)
Lemma Inv_step_plain qf g a tr t g' tr' vw' :
  Inv qf g a tr ->
  SI qf g' -> TI g' tr' -> VI g' tr' t vw' ->
  (forall t', t' <> t -> hp g' t' 0 = hp g t' 0) ->
  nalloc g <= nalloc g' -> lo g <= lo g' ->
  (forall t', t' <> t -> cells_evolve t' g g') ->
  (forall t', t' <> t -> trace_evolve t' tr tr') ->
  ((forall t', t' <> t -> v_lock (a t') = None) \/ (lockw g' = lockw g /\ slist g' = slist g /\ nalloc g' = nalloc g /\ headp g' = headp g)) ->
  (lockw g' = false -> v_lock vw' = None /\ (lockw g = false \/ v_lock (a t) <> None)) ->
  (v_lock vw' <> None -> v_lock (a t) <> None \/ lockw g = false) ->
  (forall x, taker vw' x <-> taker (a t) x) ->
  (forall x, count_ret x tr' = count_ret x tr) ->
  (forall x, marked g' x -> marked g x) ->
  Inv qf g' (upd a t vw') tr'.
Proof.
  intros HI HS' HT' HV' Hhp Hna Hlo Hce Hte HL3 HL1 HL2 Htk Hcnt Hmk.
  eapply Inv_step; eauto.
  - intros x H. left. now apply Htk.
  - intros x H. rewrite Hcnt. eapply (inv_tk_cnt _ _ _ _ HI). apply Htk. exact H.
  - intros x H. left. now apply Htk.
Qed.
