(** * The invariant of cds::intrusive::FreeList (model LV.Model.FreeList) and its preservation by every
      atomic step.

    Auxiliary state: for every node its logical state ([nstate]), the abstract list [lst] (the nodes
    reachable from m_Head, in order), for every thread the phase it is in ([phase]: which reference /
    which node it is responsible for) and the list of nodes it holds as a client, and the ownership map
    of the trace monitor.

    The reference word of node n is always
        refs n = (flag ? 0x80000000 : 0) + base + #{ threads between their refs-CAS and their release }
    where flag and base are functions of the logical state:
        Nil      (not a node)                          flag 0  base 0
        Held t   (client t has it)                     flag 0  base 0
        Taking t (t's head CAS took it off the list,   flag 0  base 1   (the list's reference, dropped
                  fetch_sub 2 pending)                                   together with t's own)
        OnList   (reachable from head)                 flag 0  base 1
        Pending  (put() found references: whoever      flag 1  base 0   count >= 1
                  releases the last one re-adds it)
        Adding t (t is in add_knowing_refcount_is_zero flag 1  base 0   count = 0: nobody can take a
                  before its refs.store(1))                             reference
        Publ t   (after refs.store(1), before the      flag 0  base 1
                  outcome of the head CAS is settled) *)
From Coq Require Import ZArith List String Bool Lia PeanoNat.
From LV Require Import Base.Conc Base.Events Model.FreeList Proofs.FreeListBase.
Import ListNotations.
Local Open Scope Z_scope.
Local Open Scope string_scope.

Inductive nstate := Nil | Held (t : nat) | Taking (t : nat) | OnList | Pending | Adding (t : nat) | Publ (t : nat).

Inductive phase :=
| Idle                      (* not inside an operation *)
| Busy                      (* inside an operation, no reference, responsible for no node *)
| PPut (n : nat)            (* put(n): before the fetch_add *)
| PRet (n : nat)            (* get(): after fetch_sub 2, node n is about to be returned *)
| GRef (n : nat)            (* get(): refs CAS done on n *)
| GNext (n x : nat)         (* get(): ... and next = x loaded *)
| GTook (n : nat)           (* get(): head CAS succeeded, fetch_sub 2 pending *)
| GFail (n : nat)           (* get(): head CAS failed, fetch_sub 1 pending *)
| AStart (n : nat)          (* add_knowing_refcount_is_zero(n): before next.store *)
| ANxt (n h : nat)          (* ... next = h stored *)
| APub (n h : nat)          (* ... refs = 1 stored, head CAS pending *)
| AFail (n : nat).          (* ... head CAS failed, fetch_add(flag-1) pending *)

Record Aux := mkA { st : nat -> nstate; lst : list nat; ph : nat -> phase; hl : nat -> list nat; own : omap }.

Definition flag_of (s : nstate) : bool := match s with Pending | Adding _ => true | _ => false end.
Definition base_of (s : nstate) : Z := match s with OnList | Taking _ | Publ _ => 1 | _ => 0 end.
Definition st_owner (s : nstate) : option nat :=
  match s with Held t | Taking t | Adding t | Publ t => Some t | _ => None end.

Definition ref_of (p : phase) : option nat :=
  match p with GRef n | GNext n _ | GTook n | GFail n => Some n | _ => None end.
Definition has_ref (p : phase) (n : nat) : bool :=
  match ref_of p with Some m => Nat.eqb m n | None => false end.
Definition node_of (p : phase) : option nat :=
  match p with
  | Idle | Busy => None
  | PPut n | PRet n | GRef n | GNext n _ | GTook n | GFail n | AStart n | ANxt n _ | APub n _ | AFail n => Some n
  end.
Definition is_idle (p : phase) : bool := match p with Idle => true | _ => false end.

Definition phase_ok (stf : nat -> nstate) (nx : nat -> nat) (hlt : list nat) (t : nat) (p : phase) : Prop :=
  match p with
  | Idle | Busy | GRef _ | GFail _ => True
  | PPut n | PRet n => stf n = Held t /\ ~ In n hlt
  | GNext n x => nx n = x
  | GTook n => stf n = Taking t
  | AStart n => stf n = Adding t
  | ANxt n h => stf n = Adding t /\ nx n = h
  | APub n h => stf n = Publ t /\ nx n = h
  | AFail n => stf n = Publ t
  end.

Section FL.
  Variable N : nat.                         (* number of threads *)
  Hypothesis HN : Z.of_nat N + 1 < FLAG.    (* the 31-bit count cannot overflow into the flag *)
  Variable valid0 : nat -> bool.            (* the nodes that exist *)
  Hypothesis Hv0 : valid0 O = false.

  Definition cnt (a : Aux) (n : nat) : nat := count N (fun t => has_ref (ph a t) n).

  Definition st_ok (a : Aux) (n : nat) : Prop :=
    match st a n with
    | Nil => cnt a n = O
    | Held t => In n (hl a t) \/ ph a t = PPut n \/ ph a t = PRet n
    | Taking t => ph a t = GTook n
    | OnList => True
    | Pending => (1 <= cnt a n)%nat
    | Adding t => cnt a n = O /\ (ph a t = AStart n \/ exists h, ph a t = ANxt n h)
    | Publ t => (exists h, ph a t = APub n h) \/ ph a t = AFail n
    end.

  Record InvS (g : G) (a : Aux) : Prop := mkInvS {
    S_valid : forall n, st a n = Nil <-> valid0 n = false;
    S_refs : forall n, refs g n = enc (flag_of (st a n)) (base_of (st a n) + Z.of_nat (cnt a n));
    S_st : forall n, st_ok a n;
    S_chain : chain (next g) (head g) (lst a);
    S_lnd : NoDup (lst a);
    S_lin : forall n, In n (lst a) <-> st a n = OnList;
    S_ph : forall t, phase_ok (st a) (next g) (hl a t) t (ph a t);
    S_held : forall t n, In n (hl a t) -> st a n = Held t;
    S_hnd : forall t, NoDup (hl a t);
    S_out : forall t, (N <= t)%nat -> ph a t = Idle /\ hl a t = []
  }.
  Arguments S_valid {g a}. Arguments S_refs {g a}. Arguments S_st {g a}. Arguments S_chain {g a}.
  Arguments S_lnd {g a}. Arguments S_lin {g a}. Arguments S_ph {g a}. Arguments S_held {g a}.
  Arguments S_hnd {g a}. Arguments S_out {g a}.

  Lemma cnt_le a n : (cnt a n <= N)%nat.
  Proof. apply count_le. Qed.

  Lemma cnt_bound a n s : 0 <= base_of s + Z.of_nat (cnt a n) < FLAG.
  Proof. pose proof (cnt_le a n). pose proof HN. unfold FLAG in *. destruct s; cbn [base_of]; lia. Qed.

  (** the acting thread is one of the N threads as soon as it is not idle *)
  Lemma active_lt g a t : InvS g a -> ph a t <> Idle -> (t < N)%nat.
  Proof.
    intros Hi Hp. destruct (Nat.lt_ge_cases t N) as [H|H]; [exact H|].
    destruct (S_out Hi t H) as [E _]. congruence.
  Qed.

  Lemma has_ref_node p n : has_ref p n = true -> node_of p = Some n.
  Proof.
    unfold has_ref. destruct p; cbn; try discriminate; intros H; apply Nat.eqb_eq in H; subst; reflexivity.
  Qed.

  Lemma st_zero g a : InvS g a -> st a O = Nil.
  Proof. intros Hi. apply (S_valid Hi). exact Hv0. Qed.

  (** ** the generic step: thread [t0] changes its phase to [p'] and its held list to [H'], node [n0]
         changes its state to [s'], the abstract list becomes [l']; everything that does not concern
         n0 / t0 is preserved automatically *)
  Definition step_aux (a : Aux) (n0 : nat) (s' : nstate) (l' : list nat) (t0 : nat) (p' : phase) (H' : list nat) (o' : omap) : Aux :=
    mkA (upd (st a) n0 s') l' (upd (ph a) t0 p') (upd (hl a) t0 H') o'.

  Lemma cnt_step a n0 s' l' t0 p' H' o' n :
    (t0 < N)%nat ->
    (cnt (step_aux a n0 s' l' t0 p' H' o') n + b2n (has_ref (ph a t0) n) = cnt a n + b2n (has_ref p' n))%nat.
  Proof.
    intros Ht. unfold cnt. cbn [ph step_aux].
    pose proof (count_upd N (fun t => has_ref (ph a t) n) (fun t => has_ref (upd (ph a) t0 p' t) n) t0 Ht) as H.
    cbn beta in H. rewrite upd_same in H. apply H. intros t Hne. now rewrite upd_other.
  Qed.

  Lemma cnt_step_other a n0 s' l' t0 p' H' o' n :
    (t0 < N)%nat -> n <> n0 ->
    (node_of (ph a t0) = None \/ node_of (ph a t0) = Some n0) ->
    (node_of p' = None \/ node_of p' = Some n0) ->
    cnt (step_aux a n0 s' l' t0 p' H' o') n = cnt a n.
  Proof.
    intros Ht Hn Hp Hp'. pose proof (cnt_step a n0 s' l' t0 p' H' o' n Ht) as H.
    assert (A : has_ref (ph a t0) n = false).
    { destruct (has_ref (ph a t0) n) eqn:E; [|reflexivity]. apply has_ref_node in E. destruct Hp; congruence. }
    assert (B : has_ref p' n = false).
    { destruct (has_ref p' n) eqn:E; [|reflexivity]. apply has_ref_node in E. destruct Hp'; congruence. }
    rewrite A, B in H. cbn in H. lia.
  Qed.

  Lemma InvS_step g a g' n0 s' l' t0 p' H' o' :
    InvS g a -> (t0 < N)%nat ->
    (node_of (ph a t0) = None \/ node_of (ph a t0) = Some n0) ->
    (node_of p' = None \/ node_of p' = Some n0) ->
    (s' = st a n0 \/ ((st_owner (st a n0) = None \/ st_owner (st a n0) = Some t0) /\ st a n0 <> Nil /\ s' <> Nil)) ->
    (forall n, n <> n0 -> refs g' n = refs g n) ->
    (forall n, n <> n0 -> next g' n = next g n) ->
    (next g' n0 = next g n0 \/ st a n0 = Adding t0) ->
    (forall n, n <> n0 -> (In n H' <-> In n (hl a t0))) ->
    (forall n, n <> n0 -> (In n l' <-> In n (lst a))) ->
    let a' := step_aux a n0 s' l' t0 p' H' o' in
    refs g' n0 = enc (flag_of s') (base_of s' + Z.of_nat (cnt a' n0)) ->
    st_ok a' n0 ->
    chain (next g') (head g') l' ->
    NoDup l' ->
    (In n0 l' <-> s' = OnList) ->
    phase_ok (st a') (next g') H' t0 p' ->
    (In n0 H' -> s' = Held t0) ->
    NoDup H' ->
    InvS g' a'.
  Proof.
    intros Hi Ht0 Hp Hp' Hs Hrefs Hnext Hnext0 Hhl Hl a' Urefs Ust Uchain Ulnd Ulin Uph Uheld Uhnd.
    assert (Hcnt : forall n, n <> n0 -> cnt a' n = cnt a n).
    { intros n Hn. apply cnt_step_other; auto. }
    assert (Hst : forall n, n <> n0 -> st a' n = st a n).
    { intros n Hn. unfold a', step_aux; cbn [st]. now apply upd_other. }
    assert (Hst0 : st a' n0 = s') by (unfold a', step_aux; cbn [st]; apply upd_same).
    assert (Hph : forall t, t <> t0 -> ph a' t = ph a t).
    { intros t Hn. unfold a', step_aux; cbn [ph]. now apply upd_other. }
    assert (Hph0 : ph a' t0 = p') by (unfold a', step_aux; cbn [ph]; apply upd_same).
    assert (Hhlo : forall t, t <> t0 -> hl a' t = hl a t).
    { intros t Hn. unfold a', step_aux; cbn [hl]. now apply upd_other. }
    assert (Hhl0 : hl a' t0 = H') by (unfold a', step_aux; cbn [hl]; apply upd_same).
    assert (Hlst : lst a' = l') by reflexivity.
    (* other threads cannot lose a claim on n0 *)
    assert (Hkeep : forall t, t <> t0 -> st_owner (st a n0) = Some t -> s' = st a n0).
    { intros t Hne Ho. destruct Hs as [Hs|[[Hs|Hs] _]]; [exact Hs|congruence|congruence]. }
    constructor.
    - (* S_valid *)
      intros n. destruct (Nat.eq_dec n n0) as [->|Hn].
      + rewrite Hst0. destruct Hs as [->|(_ & H1 & H2)]; [apply (S_valid Hi)|].
        split; [congruence|]. intros Hv. apply (S_valid Hi) in Hv. congruence.
      + rewrite Hst by exact Hn. apply (S_valid Hi).
    - (* S_refs *)
      intros n. destruct (Nat.eq_dec n n0) as [->|Hn].
      + rewrite Hst0. exact Urefs.
      + rewrite Hst, Hcnt, Hrefs by exact Hn. apply (S_refs Hi).
    - (* S_st *)
      intros n. destruct (Nat.eq_dec n n0) as [->|Hn]; [exact Ust|].
      pose proof (S_st Hi n) as Ho. unfold st_ok in *. rewrite Hst, Hcnt by exact Hn.
      destruct (st a n) as [|t|t| | |t|t] eqn:Es; auto.
      + (* Held t *)
        destruct (Nat.eq_dec t t0) as [->|Hne].
        * rewrite Hhl0, Hph0. destruct Ho as [Ho|[Ho|Ho]].
          -- left. apply Hhl; auto.
          -- rewrite Ho in Hp. cbn in Hp. destruct Hp; congruence.
          -- rewrite Ho in Hp. cbn in Hp. destruct Hp; congruence.
        * rewrite Hhlo, Hph by exact Hne. exact Ho.
      + destruct (Nat.eq_dec t t0) as [->|Hne].
        * rewrite Ho in Hp. cbn in Hp. destruct Hp; congruence.
        * rewrite Hph by exact Hne. exact Ho.
      + destruct Ho as [Hc Ho]. split; [exact Hc|]. destruct (Nat.eq_dec t t0) as [->|Hne].
        * destruct Ho as [Ho|[h Ho]]; rewrite Ho in Hp; cbn in Hp; destruct Hp; congruence.
        * rewrite Hph by exact Hne. exact Ho.
      + destruct (Nat.eq_dec t t0) as [->|Hne].
        * destruct Ho as [[h Ho]|Ho]; rewrite Ho in Hp; cbn in Hp; destruct Hp; congruence.
        * rewrite Hph by exact Hne. exact Ho.
    - exact Uchain.
    - exact Ulnd.
    - (* S_lin *)
      intros n. rewrite Hlst. destruct (Nat.eq_dec n n0) as [->|Hn].
      + rewrite Hst0. exact Ulin.
      + rewrite Hst by exact Hn. rewrite Hl by exact Hn. apply (S_lin Hi).
    - (* S_ph *)
      intros t. destruct (Nat.eq_dec t t0) as [->|Hne].
      + rewrite Hhl0, Hph0. exact Uph.
      + rewrite Hhlo, Hph by exact Hne. pose proof (S_ph Hi t) as Ho.
        assert (Hclaim : forall m X, st a m = X -> st_owner X = Some t -> st a' m = X).
        { intros m X E1 E2. destruct (Nat.eq_dec m n0) as [->|Hm].
          - rewrite Hst0. rewrite <- E1. apply (Hkeep t Hne). rewrite E1. exact E2.
          - rewrite Hst by exact Hm. exact E1. }
        assert (Hnx : forall m, st a m <> Adding t0 \/ m <> n0 -> next g' m = next g m).
        { intros m Hm. destruct (Nat.eq_dec m n0) as [->|Hmn].
          - destruct Hnext0 as [E|E]; [exact E|]. destruct Hm; congruence.
          - apply Hnext; exact Hmn. }
        destruct (ph a t) as [| |n|n|n|n x|n|n|n|n h|n h|n] eqn:Ep; cbn in *.
        * exact I.
        * exact I.
        * destruct Ho as [Ho1 Ho2]. split; [|exact Ho2]. apply Hclaim; auto.
        * destruct Ho as [Ho1 Ho2]. split; [|exact Ho2]. apply Hclaim; auto.
        * exact I.
        * (* GNext n x: a reference on n, so n is not being added *)
          rewrite Hnx; [exact Ho|]. destruct (Nat.eq_dec n n0) as [->|Hmn]; [|right; exact Hmn]. left. intros E.
          pose proof (S_st Hi n0) as Hs0. unfold st_ok in Hs0. rewrite E in Hs0. destruct Hs0 as [Hc _].
          assert (Hlt : (t < N)%nat) by (eapply active_lt; eauto; congruence).
          assert (Hr : has_ref (ph a t) n0 = true) by (rewrite Ep; unfold has_ref; cbn; apply Nat.eqb_refl).
          pose proof (count_pos N (fun t => has_ref (ph a t) n0) t Hlt Hr) as Hpos. unfold cnt in Hc. lia.
        * apply Hclaim; auto.
        * exact I.
        * apply Hclaim; auto.
        * destruct Ho as [Ho1 Ho2]. split; [apply Hclaim; auto|]. rewrite Hnx; [exact Ho2|]. left. rewrite Ho1. congruence.
        * destruct Ho as [Ho1 Ho2]. split; [apply Hclaim; auto|]. rewrite Hnx; [exact Ho2|]. left. rewrite Ho1. congruence.
        * apply Hclaim; auto.
    - (* S_held *)
      intros t n Hin. destruct (Nat.eq_dec t t0) as [->|Hne].
      + rewrite Hhl0 in Hin. destruct (Nat.eq_dec n n0) as [->|Hn].
        * rewrite Hst0. auto.
        * rewrite Hst by exact Hn. apply (S_held Hi). apply Hhl; auto.
      + rewrite Hhlo in Hin by exact Hne. pose proof (S_held Hi t n Hin) as E.
        destruct (Nat.eq_dec n n0) as [->|Hn].
        * rewrite Hst0. rewrite <- E. apply (Hkeep t Hne). rewrite E. reflexivity.
        * rewrite Hst by exact Hn. exact E.
    - (* S_hnd *)
      intros t. destruct (Nat.eq_dec t t0) as [->|Hne]; [rewrite Hhl0; exact Uhnd|].
      rewrite Hhlo by exact Hne. apply (S_hnd Hi).
    - (* S_out *)
      intros t Ht. assert (t <> t0) by lia. rewrite Hph, Hhlo by assumption. apply (S_out Hi); exact Ht.
  Qed.
End FL.

Arguments S_valid {N valid0 g a}. Arguments S_refs {N valid0 g a}. Arguments S_st {N valid0 g a}.
Arguments S_chain {N valid0 g a}. Arguments S_lnd {N valid0 g a}. Arguments S_lin {N valid0 g a}.
Arguments S_ph {N valid0 g a}. Arguments S_held {N valid0 g a}. Arguments S_hnd {N valid0 g a}.
Arguments S_out {N valid0 g a}.
