(** * DhpLiveGxL: C02, second sentence for DHP -- the allocator discipline [cell_disc].  Part X-L: the invariant [InvC3],
      the nodes that write free_head_ / guard::next_ or emit the events the Guard table is built from: hp_init, "_att",
      "op", "ret", the block taken by hp_allocator::alloc and its chaining, "_link", free_head_ = block->first(), the
      pop of alloc() and "_own", the push of free(), "_relall" + "_det". *)
From Coq Require Import ZArith NArith List String Bool Lia PeanoNat.
From LV Require Import Base.Conc Base.Events Model.DhpLang Model.Dhp Proofs.DhpBase Proofs.DhpHist
  Proofs.DhpLangProofs Proofs.DhpInvA Proofs.DhpStepsA Proofs.DhpQuietA Proofs.DhpLiveA Proofs.DhpLiveB
  Proofs.DhpLiveGcRule Proofs.DhpLiveGcA Proofs.DhpLiveGcB Proofs.DhpLiveGcC Proofs.DhpLiveGcD Proofs.DhpLiveGxA Proofs.DhpLiveGxE Proofs.DhpLiveGxF
  Proofs.DhpLiveGxG Proofs.DhpLiveGxH Proofs.DhpLiveGxI Proofs.DhpLiveGxJ Proofs.DhpLiveGxK.
Import ListNotations.
Local Open Scope string_scope.
Local Open Scope list_scope.

Definition setCh (xt : XC) (ini : option nat) (pb : option (nat * nat * bool)) (pop : option gref) (fr : bool) : XC :=
  mkXC (xc_hold xt) (xc_new xt) (xc_cur xt) ini pb pop fr.

Lemma piR_keep g r f : (forall x, r_tid (f x) = r_tid x /\ r_next (f x) = r_next x) -> piR g (upd_rec g r f).
Proof.
  intros Hf. split; [reflexivity|]. split; [apply len_upd_rec|]. intros r'. rewrite grec_upd_rec_any.
  destruct (Nat.eqb r' r && Nat.ltb r (List.length (recs g))) eqn:E; [|auto]. apply andb_true_iff in E. destruct E as (E & _). apply Nat.eqb_eq in E. subst. apply Hf.
Qed.
Lemma piR_gbs g v : piR g (set_gbs g v).
Proof. split; [reflexivity|]. split; [reflexivity|]. intros r. auto. Qed.
Lemma piR_refl g : piR g g. Proof. unfold piR. repeat split; auto. Qed.
Lemma piR_trans g1 g2 g3 : piR g1 g2 -> piR g2 g3 -> piR g1 g3.
Proof. intros (A1 & A2 & A3) (B1 & B2 & B3). split; [congruence|]. split; [congruence|]. intros r. destruct (A3 r), (B3 r). split; congruence. Qed.
Lemma piR_snext_set g s v : piR g (snext_set g s v).
Proof. destruct s; cbn [snext_set]; [apply piR_keep; intros; cbn; auto|apply piR_gbs]. Qed.

Section Ch.
  Variable c : cfg.
  Notation rdc := (rdsafe (InvAGB c) viewC3 (InvC3 c)).
  Notation I1B := (I1 (InvAGB c)).

  Lemma JR_setx g x t xt : xc_hold xt = xc_hold (x t) -> xc_new xt = xc_new (x t) -> xc_cur xt = xc_cur (x t) -> JR g x -> JR g (fnu x t xt).
  Proof.
    intros E1 E2 E3. apply JR_same_x. intros u. unfold fnu. destruct (Nat.eqb_spec u t) as [->|N]; auto.
  Qed.

  (** a non-atomic node that touches chains only *)
  Lemma InvC3_chloc g g' a tr t xt : InvC3 c g a tr -> I1B g tr -> piR g g' ->
    xc_hold xt = xc_hold (ac_x a t) -> xc_new xt = xc_new (ac_x a t) -> xc_cur xt = xc_cur (ac_x a t) ->
    (forall a1, 1 <= c_GB c -> JC c g (gfold tr) (ac_x a) (hist tr) -> JA c g a1 (hist tr) -> TPropG tr -> K c (gfold tr) (hist tr) -> TB tr -> TBL g tr ->
       JCh c g' (gfold tr) (fnu (ac_x a) t xt) (hist tr)) ->
    InvC3 c g' (mkAC (ac_g a) (fnu (ac_x a) t xt)) tr.
  Proof.
    intros Hi Hb PR E1 E2 E3 Hn. apply (InvC3_loc c g); auto. intros a1 F HG J J1 T HK HT HL. constructor.
    - apply JR_setx; auto. eapply JR_piR; [exact PR|apply (jc_r _ _ _ _ _ J)].
    - eapply Hn; eauto.
  Qed.

  (** an event node: the shared state stays (up to [piX]), the events are neither "_own" nor stores to hazard cells *)
  Lemma InvC3_evnode g g' a tr t es xt : InvC3 c g a tr -> I1B g tr -> I1B g' (tr ++ Conc.tag t es) -> piR g g' ->
    Forall (fun e => nodisc e = true) es ->
    xc_hold xt = xc_hold (ac_x a t) -> xc_new xt = xc_new (ac_x a t) -> xc_cur xt = xc_cur (ac_x a t) ->
    (forall a1 a1', 1 <= c_GB c -> flbad (hist (tr ++ Conc.tag t es)) = false -> JC c g (gfold tr) (ac_x a) (hist tr) -> JA c g a1 (hist tr) ->
       K c (gfold tr) (hist tr) -> TB tr -> TBL g tr ->
       JA c g' a1' (hist (tr ++ Conc.tag t es)) -> TPropG (tr ++ Conc.tag t es) -> K c (gfold (tr ++ Conc.tag t es)) (hist (tr ++ Conc.tag t es)) ->
       TB (tr ++ Conc.tag t es) -> TBL g' (tr ++ Conc.tag t es) ->
       JCh c g' (gfold (tr ++ Conc.tag t es)) (fnu (ac_x a) t xt) (hist (tr ++ Conc.tag t es))) ->
    InvC3 c g' (setc a t es xt) (tr ++ Conc.tag t es).
  Proof.
    intros Hi Hb Ha PR Hq E1 E2 E3 Hn. destruct Hi as (Eg & H). split; [cbn; rewrite Eg; now rewrite gfold_app|]. intros Hf HG. cbn [setc ac_x].
    pose proof (flbad_prefix _ _ Hf) as F. destruct (H F HG) as (D & J). destruct (I1C_open c g tr Hb F D) as (a1 & J1 & T & HK & HT & HL).
    assert (D' : cell_disc c (tr ++ Conc.tag t es)) by (apply cell_disc_app; [exact D|]; now apply PhiD_nodisc_list).
    split; [exact D'|]. destruct (I1C_open c g' _ Ha Hf D') as (a1' & J1' & T' & HK' & HT' & HL'). constructor.
    - apply JR_setx; auto. eapply JR_piR; [exact PR|apply (jc_r _ _ _ _ _ J)].
    - eapply Hn; eauto.
  Qed.

  Lemma view_setc_nq a t es xt : snd (viewC3 (setc a t es xt) t) = xt.
  Proof. unfold viewC3, setc. cbn. apply fnu_same. Qed.

  (** hp_init *)
  Lemma rL_hp_init {R} t r (k : unit -> @dprog G ev R) l Q : w_tl (fst l) = None -> In r (xc_hold (snd l)) ->
    (forall l', fst l' = fst l -> snd l' = setCh (snd l) (Some r) (xc_pb (snd l)) (xc_pop (snd l)) (xc_freed (snd l)) -> rdc t (k tt) l' Q) ->
    rdc t (DLoc (hp_init c r) k) l Q.
  Proof.
    intros Htl Hin Hk. apply (rdc_loc c t _ k l Q (fun _ => setCh (snd l) (Some r) (xc_pb (snd l)) (xc_pop (snd l)) (xc_freed (snd l)))).
    intros g a tr Hi Hv Hb _. assert (Ex : snd l = ac_x a t) by (rewrite <- Hv; reflexivity).
    assert (Hgt : gtl (ac_g a) t = None) by (transitivity (w_tl (fst (viewC3 a t))); [reflexivity|now rewrite Hv]). split.
    - apply (InvC3_chloc g); auto; try (rewrite Ex; reflexivity); [unfold hp_init; cbn [fst]; apply piR_keep; intros; cbn; auto|].
      intros a1 HG [J0 JC0] J1 T HK HT HL. destruct Hi as (Eg & _). rewrite Eg in Hgt.
      assert (Hr : In r (xc_hold (ac_x a t))) by (now rewrite <- Ex). destruct (jr_hold _ _ J0 t r Hr) as (Hl & Ht).
      assert (Hnr : forall u, gtl (gfold tr) u <> Some r).
      { intros u Hu. destruct (k_at _ _ _ HK _ _ Hu) as (k0 & A). destruct (rec_of_att _ _ _ _ _ _ _ J1 A) as (E & _). rewrite Ht in E. injection E as E. subst u. congruence. }
      eapply (JCh_init c g _ _ _ _ t r JC0 Hgt Hl Hnr); try (rewrite fnu_same; cbn; rewrite ?Ex; reflexivity); [|apply fnu_other_eq].
      intros u i ((k0 & A) & _). apply (Hnr u). eapply k_ta; eauto.
    - apply Hk; [rewrite <- Hv; reflexivity|reflexivity].
  Qed.

  Lemma gfold_snoc1 tr t e : gfold (tr ++ Conc.tag t [e]) = gstep (gfold tr) (t, e).
  Proof. cbn [Conc.tag map]. apply gfold_snoc. Qed.
  Lemma hist_snoc1 tr t e : hist (tr ++ Conc.tag t [e]) = hstep (hist tr) (t, e).
  Proof. cbn [Conc.tag map]. apply hist_snoc. Qed.

  Lemma JCh_hist g st x h h' : (forall r, att h' r = att h r) -> (forall r, linked h' r = linked h r) -> JCh c g st x h -> JCh c g st x h'.
  Proof. intros Ha Hk J. eapply JCh_quiet; [exact J|apply piC_refl| |exact Ha|exact Hk]. auto. Qed.

  (** "_att" *)
  Lemma rL_att {R} t r (k : @dprog G ev R) l Q : xc_init (snd l) = Some r -> w_tl (fst l) = None -> w_mp (fst l) = [] -> xc_pop (snd l) = None ->
    (forall l', w_op (fst l') = w_op (fst l) -> w_tl (fst l') = Some r -> w_mp (fst l') = [] -> w_pv (fst l') = w_pv (fst l) ->
                snd l' = setCh (snd l) None (xc_pb (snd l)) (xc_pop (snd l)) (xc_freed (snd l)) -> rdc t k l' Q) ->
    rdc t (DEmit [ev_att r] k) l Q.
  Proof.
    intros Hin Htl Hmp Hpop Hk. apply (rdc_emit c t _ k l Q (setCh (snd l) None (xc_pb (snd l)) (xc_pop (snd l)) (xc_freed (snd l)))).
    intros g a tr Hi Hv Hb Ha. assert (Ex : snd l = ac_x a t) by (rewrite <- Hv; reflexivity).
    assert (E1 : forall st, gstep st (t, ev_att r) = mkGS (Datatypes.S (glen st)) (gop st) (fnu (gtl st) t (Some r)) (gmp st) (gpv st) (gsl st) (gac st)).
    { intros st. unfold gstep. cbn [fst snd]. now rewrite gcls_att. }
    split.
    - apply (InvC3_evnode g g a tr t _ _ Hi Hb Ha (piR_refl g)); [constructor; [reflexivity|constructor]|rewrite Ex; reflexivity|rewrite Ex; reflexivity|rewrite Ex; reflexivity|].
      intros a1 a1' HG Hf [J0 JC0] J1 HK HT HL J1' T' HK' HT' HL'. rewrite gfold_snoc1, hist_snoc1, E1, hstep_att in *.
      destruct (TPropG_last _ _ _ T') as (_ & _ & P3 & _). rewrite gcls_att in P3. destruct (P3 r eq_refl) as (_ & Tn).
      assert (Hat : att (hist tr) r = None).
      { destruct (att (hist tr) r) as [[u k0]|] eqn:Ea; [|reflexivity]. exfalso. apply (Tn u). eapply k_ta; eauto. }
      assert (Htid : r_tid (grec g r) = Datatypes.S t).
      { eapply (rec_of_att c g a1' _ r t (hlen (hist tr))); [exact J1'|]. cbn. unfold fupd. now rewrite Nat.eqb_refl. }
      eapply (JCh_att c g _ _ _ _ _ _ t r JC0); try (rewrite fnu_same; cbn; rewrite ?Ex; reflexivity); try (rewrite <- Ex; assumption).
      + exact Htid.
      + intros u j i Hg. pose proof (k_cd _ _ _ HK u j _ Hg) as ((k0 & A) & _). congruence.
      + intros u. cbn. auto.
      + intros u N. cbn. now apply fnu_other.
      + cbn. apply fnu_same.
      + exact Tn.
      + intros u [r0 i|b i]; cbn; unfold fupd.
        * intros ((k0 & A) & B). split; [|exact B]. exists k0. destruct (Nat.eqb_spec r0 r) as [->|N]; [congruence|exact A].
        * intros ((r0 & k0 & kb & A & A2) & B). split; [|exact B]. exists r0, k0, kb. destruct (Nat.eqb_spec r0 r) as [->|N]; [congruence|auto].
      + intros i Li. cbn. unfold fupd. rewrite Nat.eqb_refl. eauto.
      + intros r' x0 Hx0. cbn. unfold fupd. destruct (Nat.eqb_spec r' r); auto.
      + apply fnu_other_eq.
    - apply Hk; unfold viewC3, setc; cbn [fst snd ac_g ac_x Conc.tag map fold_left]; rewrite ?E1, ?fnu_same; cbn; rewrite ?fnu_same; try reflexivity.
      + rewrite <- Hv. reflexivity.
      + transitivity (w_mp (fst (viewC3 a t))); [reflexivity|now rewrite Hv].
      + rewrite <- Hv. reflexivity.
  Qed.

  (** "op" *)
  Lemma rL_inv {Y} t code args (q : P Y) l Q : xc_freed (snd l) = false ->
    rdc t q (mkVG (zl (code :: args)) (w_tl (fst l)) (w_mp (fst l)) (w_pv (fst l)) None false, snd l) Q ->
    rdc t (inv code args ;;; q) l Q.
  Proof.
    intros Hfr Hq. unfold inv, xbind, emit. cbn [dbind]. apply (rdc_emit c t _ _ l Q (snd l)). intros g a tr Hi Hv Hb Ha.
    assert (Ex : snd l = ac_x a t) by (rewrite <- Hv; reflexivity). set (e := EvCli "op" (zl (code :: args))).
    assert (E1 : forall st, gstep st (t, e) = mkGS (Datatypes.S (glen st)) (fnu (gop st) t (zl (code :: args))) (gtl st) (gmp st) (gpv st) (fnu (gsl st) t None) (fnu (gac st) t false)).
    { intros st. reflexivity. }
    split.
    - apply (InvC3_evnode g g a tr t _ _ Hi Hb Ha (piR_refl g)); [constructor; [reflexivity|constructor]|rewrite Ex; reflexivity|rewrite Ex; reflexivity|rewrite Ex; reflexivity|].
      intros a1 a1' HG Hf [J0 JC0] J1 HK HT HL J1' T' HK' HT' HL'. rewrite gfold_snoc1, hist_snoc1, E1, (hstep_other _ t e eq_refl).
      apply JCh_setx; [rewrite Ex; unfold sameCh; auto|]. eapply JCh_hist; [| |eapply (JCh_op c g _ _ _ _ t (zl (code :: args)) JC0)]; cbn; auto.
      + now rewrite <- Ex.
      + intros u N. now apply fnu_other.
      + apply fnu_same.
    - unfold viewC3, setc. cbn [fst snd ac_g ac_x Conc.tag map fold_left]. rewrite E1, fnu_same. unfold viewG. cbn. rewrite !fnu_same.
      replace (gtl (ac_g a) t) with (w_tl (fst l)) by (rewrite <- Hv; reflexivity). replace (gmp (ac_g a) t) with (w_mp (fst l)) by (rewrite <- Hv; reflexivity).
      replace (gpv (ac_g a) t) with (w_pv (fst l)) by (rewrite <- Hv; reflexivity). exact Hq.
  Qed.

  (** "ret" *)
  Lemma rL_rsp {R} t v (k : @dprog G ev R) l Q :
    rdc t k (mkVG [] (w_tl (fst l)) (drop_of (w_op (fst l)) (w_mp (fst l))) (w_pv (fst l)) (w_sl (fst l)) (w_ac (fst l)),
             setCh (snd l) (xc_init (snd l)) (xc_pb (snd l)) (xc_pop (snd l)) false) Q ->
    rdc t (DEmit [EvCli "ret" [zn v]] k) l Q.
  Proof.
    intros Hq. apply (rdc_emit c t _ _ l Q (setCh (snd l) (xc_init (snd l)) (xc_pb (snd l)) (xc_pop (snd l)) false)). intros g a tr Hi Hv Hb Ha.
    assert (Ex : snd l = ac_x a t) by (rewrite <- Hv; reflexivity). set (e := EvCli "ret" [zn v]).
    assert (E1 : forall st, gstep st (t, e) = mkGS (Datatypes.S (glen st)) (fnu (gop st) t []) (gtl st) (fnu (gmp st) t (drop_of (gop st t) (gmp st t))) (gpv st) (gsl st) (gac st)).
    { intros st. reflexivity. }
    split.
    - apply (InvC3_evnode g g a tr t _ _ Hi Hb Ha (piR_refl g)); [constructor; [reflexivity|constructor]|rewrite Ex; reflexivity|rewrite Ex; reflexivity|rewrite Ex; reflexivity|].
      intros a1 a1' HG Hf [J0 JC0] J1 HK HT HL J1' T' HK' HT' HL'. rewrite gfold_snoc1, hist_snoc1, E1, (hstep_other _ t e eq_refl).
      apply (JCh_hist g _ _ (hist tr)); [intros r0; reflexivity|intros r0; reflexivity|]. eapply (JCh_ret c g _ _ _ _ _ t JC0).
      + intros u. cbn. auto.
      + intros u N. cbn. split; now apply fnu_other.
      + cbn. apply fnu_same.
      + cbn. apply fnu_same.
      + apply fnu_other_eq.
      + rewrite fnu_same. cbn. now rewrite Ex.
      + rewrite fnu_same. cbn. now rewrite Ex.
      + rewrite fnu_same. cbn. now rewrite Ex.
      + rewrite fnu_same. reflexivity.
    - unfold viewC3, setc. cbn [fst snd ac_g ac_x Conc.tag map fold_left]. rewrite E1, fnu_same. unfold viewG. cbn. rewrite !fnu_same.
      replace (gtl (ac_g a) t) with (w_tl (fst l)) by (rewrite <- Hv; reflexivity). replace (gmp (ac_g a) t) with (w_mp (fst l)) by (rewrite <- Hv; reflexivity).
      replace (gpv (ac_g a) t) with (w_pv (fst l)) by (rewrite <- Hv; reflexivity). replace (gop (ac_g a) t) with (w_op (fst l)) by (rewrite <- Hv; reflexivity).
      replace (gsl (ac_g a) t) with (w_sl (fst l)) by (rewrite <- Hv; reflexivity). replace (gac (ac_g a) t) with (w_ac (fst l)) by (rewrite <- Hv; reflexivity). exact Hq.
  Qed.

  (** "_relall" + "_det" *)
  Lemma rL_det {R} t r (k : @dprog G ev R) l Q : w_tl (fst l) = Some r -> xc_pb (snd l) = None -> xc_pop (snd l) = None ->
    (forall l', w_op (fst l') = w_op (fst l) -> w_tl (fst l') = None -> w_mp (fst l') = [] -> w_pv (fst l') = w_pv (fst l) -> snd l' = snd l -> rdc t k l' Q) ->
    rdc t (DEmit [ev_relall; ev_det r] k) l Q.
  Proof.
    intros Htl Hpb Hpop Hk. apply (rdc_emit c t _ k l Q (snd l)). intros g a tr Hi Hv Hb Ha.
    assert (Ex : snd l = ac_x a t) by (rewrite <- Hv; reflexivity).
    assert (E2 : forall st, gstep (gstep st (t, ev_relall)) (t, ev_det r) =
                 mkGS (Datatypes.S (Datatypes.S (glen st))) (gop st) (fnu (gtl st) t None) (fnu (gmp st) t []) (gpv st) (gsl st) (gac st)).
    { intros st. unfold gstep at 2. cbn [fst snd]. unfold gstep. cbn [fst snd]. rewrite gcls_det. reflexivity. }
    assert (Hgt : gtl (ac_g a) t = Some r) by (transitivity (w_tl (fst (viewC3 a t))); [reflexivity|now rewrite Hv]).
    split.
    - apply (InvC3_evnode g g a tr t _ _ Hi Hb Ha (piR_refl g)); [constructor; [reflexivity|constructor; [reflexivity|constructor]]|rewrite Ex; reflexivity|rewrite Ex; reflexivity|rewrite Ex; reflexivity|].
      intros a1 a1' HG Hf [J0 JC0] J1 HK HT HL J1' T' HK' HT' HL'. destruct Hi as (Eg & _). rewrite Eg in Hgt. cbn [Conc.tag map].
      change (tr ++ [(t, ev_relall); (t, ev_det r)]) with (tr ++ [(t, ev_relall)] ++ [(t, ev_det r)]).
      rewrite app_assoc, !gfold_snoc, !hist_snoc, E2. rewrite (hstep_other _ t ev_relall eq_refl), hstep_det.
      apply JCh_setx; [rewrite Ex; unfold sameCh; auto|].
      eapply (JCh_det c g _ _ _ _ _ t r JC0 Hgt); try (rewrite <- Ex; assumption); cbn; auto.
      + now apply (others_not_r c _ _ t r HK).
      + intros u N. split; now apply fnu_other.
      + apply fnu_same.
      + apply fnu_same.
      + intros u s N. assert (Hr : forall r0 k0, att (hist tr) r0 = Some (u, k0) -> r0 <> r).
        { intros r0 k0 A ->. destruct (k_at _ _ _ HK _ _ Hgt) as (k1 & A1). congruence. }
        destruct s as [r0 i|b i]; cbn; unfold fupd.
        * intros ((k0 & A) & B). split; [|exact B]. exists k0. destruct (Nat.eqb_spec r0 r) as [->|Nr]; [now destruct (Hr r k0 A)|exact A].
        * intros ((r0 & k0 & kb & A & A2) & B). split; [|exact B]. exists r0, k0, kb. destruct (Nat.eqb_spec r0 r) as [->|Nr]; [now destruct (Hr r k0 A)|auto].
      + intros r' x0 N Hx0. unfold fupd. destruct (Nat.eqb_spec r' r); [contradiction|exact Hx0].
    - apply Hk; unfold viewC3, setc; cbn [fst snd ac_g ac_x Conc.tag map fold_left]; rewrite ?E2, ?fnu_same; cbn; rewrite ?fnu_same; try reflexivity;
        rewrite <- Hv; reflexivity.
  Qed.

  (** "_own" *)
  Lemma rL_own {R} t s j (k : @dprog G ev R) l Q : xc_pop (snd l) = Some s -> w_op (fst l) = [3%Z; zn j] -> gfind (w_mp (fst l)) j = None ->
    xc_pb (snd l) = None ->
    (forall l', w_op (fst l') = w_op (fst l) -> w_tl (fst l') = w_tl (fst l) -> w_mp (fst l') = (j, s) :: w_mp (fst l) -> w_pv (fst l') = w_pv (fst l) ->
                snd l' = setCh (snd l) (xc_init (snd l)) (xc_pb (snd l)) None (xc_freed (snd l)) -> rdc t k l' Q) ->
    rdc t (DEmit [ev_own s] k) l Q.
  Proof.
    intros Hpop Hop Hg Hpb Hk. apply (rdc_emit c t _ k l Q (setCh (snd l) (xc_init (snd l)) (xc_pb (snd l)) None (xc_freed (snd l)))).
    intros g a tr Hi Hv Hb Ha. assert (Ex : snd l = ac_x a t) by (rewrite <- Hv; reflexivity).
    assert (Ho : gop (ac_g a) t = [3%Z; zn j]) by (transitivity (w_op (fst (viewC3 a t))); [reflexivity|now rewrite Hv]).
    assert (E1 : gstep (ac_g a) (t, ev_own s) = mkGS (Datatypes.S (glen (ac_g a))) (gop (ac_g a)) (gtl (ac_g a)) (fnu (gmp (ac_g a)) t ((j, s) :: gmp (ac_g a) t)) (gpv (ac_g a)) (gsl (ac_g a)) (gac (ac_g a))).
    { unfold gstep. cbn [fst snd]. rewrite gcls_own, Ho. cbn [own_of]. unfold zn. now rewrite Nat2Z.id. }
    assert (Hcl : classify (ev_own s) = HOther) by (destruct s; reflexivity).
    split.
    - pose proof Hi as (Eg & _). apply (InvC3_step c g); auto.
      + intros a1 F HG [J0 JC0] J1 T HK HT HL i e Hn. destruct i as [|[|i]]; cbn in Hn; try discriminate. inversion Hn; subst e.
        cbn [firstn Conc.tag map]. rewrite app_nil_r. destruct (jc_pop _ _ _ _ _ JC0 t s) as (A1 & A2); [now rewrite <- Ex|]. split.
        * intros s0 E0. rewrite gcls_own in E0. inversion E0; subst s0. auto.
        * intros b i x E0. rewrite gcls_own in E0. discriminate.
      + intros a1 a1' F HG [J0 JC0] J1 HK HT HL J1' T' HK' HT' HL'. rewrite gfold_snoc1, hist_snoc1, <- Eg, E1, (hstep_other _ t _ Hcl). constructor.
        * apply JR_setx; try (rewrite Ex; reflexivity). exact J0.
        * destruct (jc_pop _ _ _ _ _ JC0 t s) as (A1 & A2); [now rewrite <- Ex|].
          apply (JCh_hist g _ _ (hist tr)); [intros r0; reflexivity|intros r0; reflexivity|].
          eapply (JCh_own c g (gfold tr) _ _ _ (hist tr) t j s JC0).
          -- now rewrite <- Ex.
          -- now rewrite <- Ex.
          -- intros u N Hu. apply N. exact (ownc_excl c g a1 _ u t s J1 Hu A1).
          -- intros u b n lk i Hp ->. pose proof (ownc_latt _ _ _ _ _ A1) as Hl. destruct (jc_pb _ _ _ _ _ JC0 u b n lk Hp) as (_ & _ & _ & _ & B5). destruct lk.
             ++ destruct B5 as (r0 & kb & G1 & G2). destruct (k_at _ _ _ HK _ _ G1) as (k0 & A0).
                assert (Ou : ownc c (hist tr) u (GE b i)). { destruct A1 as (_ & Li). split; [exists r0, k0, kb; auto|exact Li]. }
                assert (u = t) by (exact (ownc_excl c g a1 _ u t _ J1 Ou A1)). subst u. rewrite <- Ex, Hpb in Hp. discriminate.
             ++ destruct (HT u b B5) as (Nl & _). contradiction.
          -- rewrite Eg. intros u. cbn. auto.
          -- rewrite Eg. intros u N. cbn. now apply fnu_other.
          -- rewrite Eg. cbn. apply fnu_same.
          -- apply fnu_other_eq.
          -- rewrite fnu_same. cbn. now rewrite Ex.
          -- rewrite fnu_same. cbn. now rewrite Ex.
          -- rewrite fnu_same. reflexivity.
          -- rewrite fnu_same. cbn. now rewrite Ex.
    - apply Hk; unfold viewC3, setc; cbn [fst snd ac_g ac_x Conc.tag map fold_left]; rewrite ?E1, ?fnu_same; cbn; rewrite ?fnu_same; try reflexivity;
        rewrite <- Hv; reflexivity.
  Qed.
End Ch.
