(** * CuckooSet (striping policy): auxiliary state and invariant.

    Per thread: the status of its operation, the multiset of reentrant locks it has (with the micro-state of an
    acquisition / release in progress), a snapshot of what its locks protect (mask, buckets of its stripes), the
    item it is relocating (removed from one probe set, not yet put into another), the items of the old tables it
    still has to re-insert (resize).  Globally the trace annotated with linearization points. *)
From Coq Require Import ZArith List Bool Lia PeanoNat.
From LV Require Import Base.Conc Base.Events Base.Lin Spec.Specs Proofs.LinProofs
     Model.CuckooConc Proofs.StripedConcSpec.
Import ListNotations.
Local Open Scope nat_scope.

(** ** locks *)
Lemma lk_dec : forall a b : lk, {a = b} + {a <> b}.
Proof. repeat decide equality. Defined.

Lemma lk_eqb_spec a b : reflect (a = b) (lk_eqb a b).
Proof.
  destruct a as [[g1 t1] i1], b as [[g2 t2] i2]. cbn.
  destruct (Nat.eqb_spec g1 g2); destruct (Nat.eqb_spec t1 t2); destruct (Nat.eqb_spec i1 i2); cbn; constructor; congruence.
Qed.
Lemma updl_same {A} (f : lk -> A) l x : updl f l x l = x.
Proof. unfold updl. destruct (lk_eqb_spec l l); congruence. Qed.
Lemma updl_other {A} (f : lk -> A) l x l' : l' <> l -> updl f l x l' = f l'.
Proof. unfold updl. intros H. destruct (lk_eqb_spec l' l); congruence. Qed.

Notation cnt := (count_occ lk_dec).

(** ** tables *)
Lemma set_nth_length {A} (l : list A) n x : length (set_nth l n x) = length l.
Proof. revert n; induction l as [|y r IH]; intros [|n]; cbn; auto. Qed.
Lemma nth_set_nth_same {A} (l : list A) n x d : n < length l -> nth n (set_nth l n x) d = x.
Proof. revert n; induction l as [|y r IH]; intros [|n] H; cbn in *; try lia; auto. apply IH; lia. Qed.
Lemma nth_set_nth_other {A} (l : list A) n m x d : n <> m -> nth m (set_nth l n x) d = nth m l d.
Proof. revert n m; induction l as [|y r IH]; intros [|n] [|m] H; cbn; auto; try congruence. Qed.

Lemma get_set_bkt_same ts tb b nb : tb < length ts -> b < length (nth tb ts []) -> get_bkt (set_bkt ts tb b nb) tb b = nb.
Proof. intros H1 H2. unfold get_bkt, set_bkt. rewrite nth_set_nth_same by exact H1. now apply nth_set_nth_same. Qed.
Lemma get_set_bkt_other ts tb b nb tb' b' : (tb', b') <> (tb, b) -> get_bkt (set_bkt ts tb b nb) tb' b' = get_bkt ts tb' b'.
Proof.
  intros H. unfold get_bkt, set_bkt. destruct (Nat.eq_dec tb' tb) as [->|Hn].
  - destruct (Nat.lt_ge_cases tb (length ts)) as [Hl|Hl].
    + rewrite nth_set_nth_same by exact Hl. apply nth_set_nth_other. congruence.
    + rewrite !(nth_overflow _ _ Hl) by (rewrite set_nth_length; exact Hl).
      rewrite (nth_overflow (set_nth ts tb _)) by (rewrite set_nth_length; exact Hl). reflexivity.
  - now rewrite nth_set_nth_other by auto.
Qed.

(** ** auxiliary state *)
Inductive micro := MNone | MTaken (l : lk) | MRel (l : lk).

Record tview := mkTV {
  v_op : status ISet;
  v_held : list lk;                 (* the locks I have, with multiplicity (nesting depth) *)
  v_mic : micro;                    (* acquisition / release in progress *)
  v_mask : nat;
  v_reg : nat -> nat -> list item;  (* snapshot of the probe sets of my stripes *)
  v_fly : list item;                (* the item I am relocating *)
  v_pend : list item                (* items of the old tables I still have to re-insert *)
}.
Record Aux := mkAux { a_view : nat -> tview; a_atr : list (aev ISet) }.
Definition view (a : Aux) (t : nat) : tview := a_view a t.
Definition held (a : Aux) (t : nat) : list lk := v_held (a_view a t).
Definition mic (a : Aux) (t : nat) : micro := v_mic (a_view a t).
Definition fly (a : Aux) (t : nat) : list item := v_fly (a_view a t).
Definition pend (a : Aux) (t : nat) : list item := v_pend (a_view a t).

Definition setv (a : Aux) (t : nat) (v : tview) : Aux :=
  mkAux (fun x => if Nat.eqb x t then v else a_view a x) (a_atr a).
Definition seta (a : Aux) (atr : list (aev ISet)) : Aux := mkAux (a_view a) atr.

Lemma setv_same a t v : a_view (setv a t v) t = v.
Proof. cbn. now rewrite Nat.eqb_refl. Qed.
Lemma setv_other a t v t' : t' <> t -> a_view (setv a t v) t' = a_view a t'.
Proof. cbn. intros H. destruct (Nat.eqb_spec t' t); congruence. Qed.
Lemma frame_setv a t v : Conc.frame view t a (setv a t v).
Proof. intros t' H. unfold view. now apply setv_other. Qed.
Lemma frame_refl a t : Conc.frame view t a a.
Proof. intros t' H. reflexivity. Qed.

Definition dropped (tr : list (nat * ev)) : Prop :=
  exists t k, In (t, EvCli "dropped" [k]) tr.

Section Inv.
  Variable cf : conf.
  Notation L := (c_nl cf).
  Notation ps := (c_ps cf).

  Definition h0 (x : item) : nat := fst (hashes cf (fst x)).
  Definition h1 (x : item) : nat := snd (hashes cf (fst x)).
  Definition hx (x : item) (tb : nat) : nat := hsel (hashes cf (fst x)) tb.

  (** thread [t] holds a table-0 lock / all of them *)
  Definition has0 (v : tview) : Prop := exists i, In (0, 0, i) (v_held v).
  Definition all0 (v : tview) : Prop := forall i, i < L -> In (0, 0, i) (v_held v).
  (** it may read and write probe set (tb, b) *)
  Definition auth (v : tview) (tb b : nat) : Prop := has0 v /\ (In (0, tb, b mod L) (v_held v) \/ all0 v).

  Definition T (g : G) (tb b : nat) : list item := get_bkt (tabs g) tb b.

  Definition absent (g : G) (x : item) : Prop :=
    forall tb, tb < 2 -> khas (fst x) (T g tb (hx x tb mod S (mask g))) = false.

  Record Core (g : G) (a : Aux) : Prop := mkCore {
    c_spin0 : forall l, (forall t, ~ In l (held a t)) -> rspin g l = 0;
    c_spin : forall t l, In l (held a t) -> rspin g l = cnt (held a t) l;
    c_excl : forall t t' l, In l (held a t) -> In l (held a t') -> t = t';
    c_rown : forall l, rown g l = 0 \/ exists t, rown g l = S t /\ In l (held a t) /\ mic a t <> MTaken l /\ mic a t <> MRel l;
    c_rown2 : forall t l, In l (held a t) -> mic a t <> MTaken l -> mic a t <> MRel l -> rown g l = S t;
    c_mic : forall t l, mic a t = MTaken l \/ mic a t = MRel l -> cnt (held a t) l = 1;
    c_range : forall t gg tb i, In (gg, tb, i) (held a t) -> gg = 0 /\ tb < 2 /\ i < L;
    c_mask : forall t, has0 (a_view a t) -> mask g = v_mask (a_view a t);
    c_reg : forall t tb b, tb < 2 -> auth (a_view a t) tb b -> T g tb b = v_reg (a_view a t) tb b;
    c_len : length (tabs g) = 2 /\ (forall tb, tb < 2 -> length (nth tb (tabs g) []) = S (mask g)) /\
            exists e, 0 < e /\ S (mask g) = L * e;
    c_placed : forall tb b x, tb < 2 -> In x (T g tb b) -> hx x tb mod S (mask g) = b;
    c_nodup : forall tb b, NoDup (keys (T g tb b));
    c_cross : forall b b' x y, In x (T g 0 b) -> In y (T g 1 b') -> fst x <> fst y;
    c_fly : forall t x, In x (fly a t) ->
              has0 (a_view a t) /\ In (0, 0, h0 x mod L) (held a t) /\ In (0, 1, h1 x mod L) (held a t) /\ absent g x;
    c_fly1 : forall t, length (fly a t) <= 1;
    c_pend : forall t, pend a t <> [] -> all0 (a_view a t);
    c_pend2 : forall t, NoDup (keys (pend a t)) /\
                        forall x, In x (pend a t) -> absent g x /\ forall y, In y (fly a t) -> fst y <> fst x
  }.

  (** the items the abstract set consists of *)
  Definition allp (g : G) (a : Aux) (x : item) : Prop :=
    (exists tb b, tb < 2 /\ In x (T g tb b)) \/ (exists t, In x (fly a t)) \/ (exists t, In x (pend a t)).

  Definition Abs (g : G) (a : Aux) (tr : list (nat * ev)) : Prop :=
    dropped tr \/
    exists s st, lp_run lp_init (a_atr a) = Some (s, st) /\ erase (a_atr a) = hist_of tr /\
      (forall t, st t = v_op (a_view a t)) /\ NoDup (keys s) /\ forall x, In x s <-> allp g a x.

  Definition Inv (g : G) (a : Aux) (tr : list (nat * ev)) : Prop := Core g a /\ Abs g a tr.

End Inv.
