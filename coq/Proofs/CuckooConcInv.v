(** * CuckooSet (striping policy): auxiliary state and invariant.

    Per thread: the status of its operation, the multiset of reentrant locks it has (with the micro-state of an
    acquisition / release in progress), a snapshot of what its locks protect (mask, buckets of its stripes), the
    item it is relocating (removed from one probe set, not yet put into another), the items of the old tables it
    still has to re-insert (resize).  Globally the trace annotated with linearization points. *)
From Coq Require Import ZArith List Bool Lia PeanoNat.
From Coq Require String.
From LV Require Import Base.Conc Base.Events Base.Lin Spec.Specs Proofs.LinProofs
     Model.CuckooConc Proofs.StripedConcSpec.
Import ListNotations.
Local Open Scope nat_scope.

(** ** locks *)
Lemma lk_dec : forall a b : lk, {a = b} + {a <> b}.
Proof. repeat decide equality. Defined.

Lemma lk_eqb_spec a b : reflect (a = b) (lk_eqb a b).
Proof.
  destruct a as [[g1 t1] i1], b as [[g2 t2] i2]. cbn.
  destruct (Nat.eqb_spec g1 g2); destruct (Nat.eqb_spec t1 t2); destruct (Nat.eqb_spec i1 i2); cbn; constructor; congruence.
Qed.
Lemma updl_same {A} (f : lk -> A) l x : updl f l x l = x.
Proof. unfold updl. destruct (lk_eqb_spec l l); congruence. Qed.
Lemma updl_other {A} (f : lk -> A) l x l' : l' <> l -> updl f l x l' = f l'.
Proof. unfold updl. intros H. destruct (lk_eqb_spec l' l); congruence. Qed.

Notation cnt := (count_occ lk_dec).

(** ** tables *)
Lemma set_nth_length {A} (l : list A) n x : length (set_nth l n x) = length l.
Proof. revert n; induction l as [|y r IH]; intros [|n]; cbn; auto. Qed.
Lemma nth_set_nth_same {A} (l : list A) n x d : n < length l -> nth n (set_nth l n x) d = x.
Proof. revert n; induction l as [|y r IH]; intros [|n] H; cbn in *; try lia; auto. apply IH; lia. Qed.
Lemma nth_set_nth_other {A} (l : list A) n m x d : n <> m -> nth m (set_nth l n x) d = nth m l d.
Proof. revert n m; induction l as [|y r IH]; intros [|n] [|m] H; cbn; auto; try congruence. Qed.

Lemma get_set_bkt_same ts tb b nb : tb < length ts -> b < length (nth tb ts []) -> get_bkt (set_bkt ts tb b nb) tb b = nb.
Proof. intros H1 H2. unfold get_bkt, set_bkt. rewrite nth_set_nth_same by exact H1. now apply nth_set_nth_same. Qed.
Lemma get_set_bkt_other ts tb b nb tb' b' : (tb', b') <> (tb, b) -> get_bkt (set_bkt ts tb b nb) tb' b' = get_bkt ts tb' b'.
Proof.
  intros H. unfold get_bkt, set_bkt. destruct (Nat.eq_dec tb' tb) as [->|Hn].
  - destruct (Nat.lt_ge_cases tb (length ts)) as [Hl|Hl].
    + rewrite nth_set_nth_same by exact Hl. apply nth_set_nth_other. congruence.
    + rewrite !(nth_overflow _ _ Hl) by (rewrite set_nth_length; exact Hl).
      rewrite (nth_overflow (set_nth ts tb _)) by (rewrite set_nth_length; exact Hl). reflexivity.
  - now rewrite nth_set_nth_other by auto.
Qed.

(** ** pure facts about probe-set insertion *)
Lemma ins_sorted_in x b y : In y (ins_sorted x b) <-> y = x \/ In y b.
Proof.
  induction b as [|z r IH]; cbn [ins_sorted]; [cbn; intuition|].
  destruct (Nat.ltb (key_of z) (key_of x)); cbn [In]; [rewrite IH|]; intuition.
Qed.
Lemma ins_item_in ord x b y : In y (ins_item ord x b) <-> y = x \/ In y b.
Proof. unfold ins_item. destruct ord; [apply ins_sorted_in|]. rewrite in_app_iff. cbn. intuition. Qed.

Lemma ins_item_keys_in ord x b k : In k (keys (ins_item ord x b)) <-> k = fst x \/ In k (keys b).
Proof.
  unfold keys. rewrite !in_map_iff. split.
  - intros (y & <- & Hy). apply ins_item_in in Hy. destruct Hy as [->|Hy]; [now left|right; exists y; auto].
  - intros [->|(y & <- & Hy)]; [exists x|exists y]; split; auto; apply ins_item_in; auto.
Qed.

Lemma ins_sorted_keys_nodup x b : ~ In (fst x) (keys b) -> NoDup (keys b) -> NoDup (keys (ins_sorted x b)).
Proof.
  induction b as [|z r IH]; intros Hk Hn; cbn [ins_sorted].
  - cbn. constructor; [intros []|constructor].
  - assert (Hk1 : fst z <> fst x) by (intros E; apply Hk; now left).
    assert (Hk2 : ~ In (fst x) (keys r)) by (intros E; apply Hk; now right).
    unfold keys in Hn. cbn [map] in Hn. inversion Hn; subst.
    destruct (Nat.ltb (key_of z) (key_of x)); unfold keys; cbn [map].
    + constructor; [|apply IH; auto]. intros Hin. apply in_map_iff in Hin. destruct Hin as (y & E & Hy).
      apply ins_sorted_in in Hy. destruct Hy as [->|Hy]; [congruence|]. apply H1. rewrite <- E. now apply in_map.
    + constructor; [intros [E|E]; [congruence|contradiction]|constructor; auto].
Qed.

Lemma NoDup_snoc_keys (b : list item) x : ~ In (fst x) (keys b) -> NoDup (keys b) -> NoDup (keys (b ++ [x])).
Proof.
  induction b as [|z r IH]; intros Hk Hn.
  - cbn. constructor; [intros []|constructor].
  - assert (Hk1 : fst z <> fst x) by (intros E; apply Hk; now left).
    assert (Hk2 : ~ In (fst x) (keys r)) by (intros E; apply Hk; now right).
    unfold keys in Hn. cbn [map] in Hn. inversion Hn; subst. unfold keys. cbn [app map]. constructor.
    + rewrite map_app, in_app_iff. cbn. intros [H|[H|[]]]; [contradiction|congruence].
    + apply IH; auto.
Qed.

Lemma ins_item_keys_nodup ord x b : khas (fst x) b = false -> NoDup (keys b) -> NoDup (keys (ins_item ord x b)).
Proof.
  intros Hk Hn. assert (Hk' : ~ In (fst x) (keys b)) by (intros H; apply khas_in_keys in H; congruence).
  unfold ins_item. destruct ord; [now apply ins_sorted_keys_nodup|now apply NoDup_snoc_keys].
Qed.

Lemma khas_ins_item ord x b k : khas k (ins_item ord x b) = Nat.eqb (fst x) k || khas k b.
Proof.
  destruct (khas k (ins_item ord x b)) eqn:E.
  - apply khas_in_keys in E. apply ins_item_keys_in in E. symmetry. apply orb_true_iff.
    destruct E as [->|E]; [left; apply Nat.eqb_refl|right; now apply khas_in_keys].
  - symmetry. apply orb_false_iff. split.
    + apply Nat.eqb_neq. intros <-. assert (khas (fst x) (ins_item ord x b) = true); [|congruence].
      apply khas_in_keys. apply ins_item_keys_in. now left.
    + destruct (khas k b) eqn:E'; auto. assert (khas k (ins_item ord x b) = true); [|congruence].
      apply khas_in_keys. apply ins_item_keys_in. right. now apply khas_in_keys.
Qed.

Lemma khas_kdel k b k' : khas k' (kdel k b) = negb (Nat.eqb k' k) && khas k' b.
Proof.
  destruct (khas k' (kdel k b)) eqn:E.
  - apply khas_true in E. destruct E as (o & Hin). apply kdel_in in Hin. destruct Hin as [H1 H2]. cbn in H2.
    symmetry. apply andb_true_iff. split; [apply negb_true_iff; now apply Nat.eqb_neq|]. apply khas_true. eauto.
  - symmetry. apply andb_false_iff. destruct (Nat.eqb_spec k' k) as [->|Hne]; [now left|right].
    destruct (khas k' b) eqn:E'; auto. apply khas_true in E'. destruct E' as (o & Hin).
    assert (khas k' (kdel k b) = true); [|congruence]. apply khas_true. exists o. apply kdel_in. split; auto.
Qed.

(** ** auxiliary state *)
Inductive micro := MNone | MTaken (l : lk) | MRel (l : lk).

Record tview := mkTV {
  v_op : status ISet;
  v_held : list lk;                 (* the locks I have, with multiplicity (nesting depth) *)
  v_mic : micro;                    (* acquisition / release in progress *)
  v_mask : nat;
  v_reg : nat -> nat -> list item;  (* snapshot of the probe sets of my stripes *)
  v_fly : list item;                (* the item I am relocating *)
  v_pend : list item                (* items of the old tables I still have to re-insert *)
}.
Record Aux := mkAux { a_view : nat -> tview; a_atr : list (aev ISet) }.
Definition view (a : Aux) (t : nat) : tview := a_view a t.
Definition held (a : Aux) (t : nat) : list lk := v_held (a_view a t).
Definition mic (a : Aux) (t : nat) : micro := v_mic (a_view a t).
Definition fly (a : Aux) (t : nat) : list item := v_fly (a_view a t).
Definition pend (a : Aux) (t : nat) : list item := v_pend (a_view a t).

Definition setv (a : Aux) (t : nat) (v : tview) : Aux :=
  mkAux (fun x => if Nat.eqb x t then v else a_view a x) (a_atr a).
Definition seta (a : Aux) (atr : list (aev ISet)) : Aux := mkAux (a_view a) atr.

Lemma setv_same a t v : a_view (setv a t v) t = v.
Proof. cbn. now rewrite Nat.eqb_refl. Qed.
Lemma setv_other a t v t' : t' <> t -> a_view (setv a t v) t' = a_view a t'.
Proof. cbn. intros H. destruct (Nat.eqb_spec t' t); congruence. Qed.
Lemma frame_setv a t v : Conc.frame view t a (setv a t v).
Proof. intros t' H. unfold view. now apply setv_other. Qed.
Lemma frame_refl a t : Conc.frame view t a a.
Proof. intros t' H. reflexivity. Qed.

Module DroppedName. Import String. Definition name : string := "dropped"%string. End DroppedName.
Definition dropped (tr : list (nat * ev)) : Prop :=
  exists t k, In (t, EvCli DroppedName.name [k]) tr.

Section Inv.
  Variable cf : conf.
  Notation L := (c_nl cf).
  Notation ps := (c_ps cf).

  Definition h0 (x : item) : nat := fst (hashes cf (fst x)).
  Definition h1 (x : item) : nat := snd (hashes cf (fst x)).
  Definition hx (x : item) (tb : nat) : nat := hsel (hashes cf (fst x)) tb.

  (** thread [t] holds a table-0 lock / all of them *)
  Definition has0 (v : tview) : Prop := exists i, In (0, 0, i) (v_held v).
  Definition all0 (v : tview) : Prop := forall i, i < L -> In (0, 0, i) (v_held v).
  (** it may read and write probe set (tb, b) *)
  Definition auth (v : tview) (tb b : nat) : Prop := has0 v /\ (In (0, tb, b mod L) (v_held v) \/ all0 v).

  Definition T (g : G) (tb b : nat) : list item := get_bkt (tabs g) tb b.

  Definition absent (g : G) (x : item) : Prop :=
    forall tb, tb < 2 -> khas (fst x) (T g tb (hx x tb mod S (mask g))) = false.

  Record Core (g : G) (a : Aux) : Prop := mkCore {
    c_spin0 : forall l, rspin g l <> 0 -> exists t, In l (held a t);
    c_spin : forall t l, In l (held a t) -> rspin g l = cnt (held a t) l;
    c_excl : forall t t' l, In l (held a t) -> In l (held a t') -> t = t';
    c_rown : forall l, rown g l = 0 \/ exists t, rown g l = S t /\ In l (held a t) /\ mic a t <> MTaken l /\ mic a t <> MRel l;
    c_rown2 : forall t l, In l (held a t) -> mic a t <> MTaken l -> mic a t <> MRel l -> rown g l = S t;
    c_mic : forall t l, mic a t = MTaken l \/ mic a t = MRel l -> cnt (held a t) l = 1;
    c_range : forall t gg tb i, In (gg, tb, i) (held a t) -> gg = 0 /\ tb < 2 /\ i < L;
    c_mask : forall t, has0 (a_view a t) -> mask g = v_mask (a_view a t);
    c_reg : forall t tb b, tb < 2 -> auth (a_view a t) tb b -> T g tb b = v_reg (a_view a t) tb b;
    c_len : length (tabs g) = 2 /\ (forall tb, tb < 2 -> length (nth tb (tabs g) []) = S (mask g)) /\
            exists e, 0 < e /\ S (mask g) = L * e;
    c_placed : forall tb b x, tb < 2 -> In x (T g tb b) -> hx x tb mod S (mask g) = b;
    c_nodup : forall tb b, NoDup (keys (T g tb b));
    c_cross : forall b b' x y, In x (T g 0 b) -> In y (T g 1 b') -> fst x <> fst y;
    c_fly : forall t x, In x (fly a t) ->
              has0 (a_view a t) /\ In (0, 0, h0 x mod L) (held a t) /\ In (0, 1, h1 x mod L) (held a t) /\ absent g x;
    c_fly1 : forall t, length (fly a t) <= 1;
    c_pend : forall t, pend a t <> [] -> all0 (a_view a t);
    c_pend2 : forall t, NoDup (keys (pend a t)) /\
                        forall x, In x (pend a t) -> absent g x /\ forall y, In y (fly a t) -> fst y <> fst x
  }.

  (** the items the abstract set consists of *)
  Definition allp (g : G) (a : Aux) (x : item) : Prop :=
    (exists tb b, tb < 2 /\ In x (T g tb b)) \/ (exists t, In x (fly a t)) \/ (exists t, In x (pend a t)).

  Definition Abs (g : G) (a : Aux) (tr : list (nat * ev)) : Prop :=
    dropped tr \/
    exists s st, lp_run lp_init (a_atr a) = Some (s, st) /\ erase (a_atr a) = hist_of tr /\
      (forall t, st t = v_op (a_view a t)) /\ NoDup (keys s) /\ forall x, In x s <-> allp g a x.

  Definition Inv (g : G) (a : Aux) (tr : list (nat * ev)) : Prop := Core g a /\ Abs g a tr.


  Arguments c_spin0 {g a}. Arguments c_spin {g a}. Arguments c_excl {g a}. Arguments c_rown {g a}. Arguments c_rown2 {g a}.
  Arguments c_mic {g a}. Arguments c_range {g a}. Arguments c_mask {g a}. Arguments c_reg {g a}. Arguments c_len {g a}.
  Arguments c_placed {g a}. Arguments c_nodup {g a}. Arguments c_cross {g a}. Arguments c_fly {g a}. Arguments c_fly1 {g a}.
  Arguments c_pend {g a}. Arguments c_pend2 {g a}.

  Lemma held_same a t v : held (setv a t v) t = v_held v.  Proof. unfold held. now rewrite setv_same. Qed.
  Lemma held_other a t v t' : t' <> t -> held (setv a t v) t' = held a t'.  Proof. unfold held. intros. now rewrite setv_other. Qed.
  Lemma mic_same a t v : mic (setv a t v) t = v_mic v.  Proof. unfold mic. now rewrite setv_same. Qed.
  Lemma mic_other a t v t' : t' <> t -> mic (setv a t v) t' = mic a t'.  Proof. unfold mic. intros. now rewrite setv_other. Qed.
  Lemma fly_same a t v : fly (setv a t v) t = v_fly v.  Proof. unfold fly. now rewrite setv_same. Qed.
  Lemma fly_other a t v t' : t' <> t -> fly (setv a t v) t' = fly a t'.  Proof. unfold fly. intros. now rewrite setv_other. Qed.
  Lemma pend_same a t v : pend (setv a t v) t = v_pend v.  Proof. unfold pend. now rewrite setv_same. Qed.
  Lemma pend_other a t v t' : t' <> t -> pend (setv a t v) t' = pend a t'.  Proof. unfold pend. intros. now rewrite setv_other. Qed.

  (** *** a step of thread [t] on the lock words: generic lemma *)
  Lemma Core_lock g g' a t v' :
    Core g a ->
    mask g' = mask g -> tabs g' = tabs g ->
    v_fly v' = fly a t -> v_pend v' = pend a t ->
    (forall l, In l (v_held v') -> rspin g' l = cnt (v_held v') l /\ forall t0, t0 <> t -> ~ In l (held a t0)) ->
    (forall l, rspin g' l <> 0 -> In l (v_held v') \/ exists t0, t0 <> t /\ In l (held a t0)) ->
    (forall l t0, t0 <> t -> In l (held a t0) -> rspin g' l = rspin g l /\ rown g' l = rown g l) ->
    (forall l, (forall t0, t0 <> t -> ~ In l (held a t0)) ->
       rown g' l = 0 \/ (rown g' l = S t /\ In l (v_held v') /\ v_mic v' <> MTaken l /\ v_mic v' <> MRel l)) ->
    (forall l, In l (v_held v') -> v_mic v' <> MTaken l -> v_mic v' <> MRel l -> rown g' l = S t) ->
    (forall l, v_mic v' = MTaken l \/ v_mic v' = MRel l -> cnt (v_held v') l = 1) ->
    (forall gg tb i, In (gg, tb, i) (v_held v') -> gg = 0 /\ tb < 2 /\ i < L) ->
    (has0 v' -> v_mask v' = mask g) ->
    (forall tb b, tb < 2 -> auth v' tb b -> v_reg v' tb b = T g tb b) ->
    (forall x, In x (fly a t) -> has0 v' /\ In (0, 0, h0 x mod L) (v_held v') /\ In (0, 1, h1 x mod L) (v_held v')) ->
    (pend a t <> [] -> all0 v') ->
    Core g' (setv a t v').
  Proof.
    intros Hc Cm Ct Hfly Hpend L1 L1' L2 L3 L3' Lm Lr Lmask Lreg Lfl Lpe.
    pose proof Hc as [K1 K2 K3 K4 K5 K6 K7 K8 K9 K10 K11 K12 K13 K14 K15 K16 K17].
    assert (HT : forall tb b, T g' tb b = T g tb b) by (intros; unfold T; now rewrite Ct).
    assert (Habs : forall x, absent g' x <-> absent g x).
    { intros x. unfold absent. rewrite Cm. setoid_rewrite HT. tauto. }
    constructor.
    - intros l Hn. destruct (L1' l Hn) as [H|(t0 & Hne & H)]; [exists t; now rewrite held_same|exists t0; now rewrite held_other].
    - intros t0 l H. destruct (Nat.eq_dec t0 t) as [->|Hne].
      + rewrite held_same in *. apply (L1 l H).
      + rewrite held_other in * by exact Hne. rewrite (proj1 (L2 l t0 Hne H)). now apply K2.
    - intros t1 t2 l H1 H2.
      destruct (Nat.eq_dec t1 t) as [->|N1]; destruct (Nat.eq_dec t2 t) as [->|N2]; auto.
      + rewrite held_same in H1. rewrite held_other in H2 by exact N2. exfalso. eapply (proj2 (L1 l H1)); eauto.
      + rewrite held_same in H2. rewrite held_other in H1 by exact N1. exfalso. eapply (proj2 (L1 l H2)); eauto.
      + rewrite held_other in H1 by exact N1. rewrite held_other in H2 by exact N2. eapply K3; eauto.
    - intros l.
      assert (D : (exists t0, t0 <> t /\ In l (held a t0)) \/ (forall t0, t0 <> t -> ~ In l (held a t0))).
      { destruct (K4 l) as [H|(t0 & H1 & H2 & H3 & H4)].
        - destruct (Nat.eq_dec (rspin g l) 0) as [E|E].
          + right. intros t0 Hne Hin. rewrite (K2 t0 l Hin) in E. apply (count_occ_not_In lk_dec) in E. contradiction.
          + destruct (K1 l E) as (t0 & Hin). destruct (Nat.eq_dec t0 t) as [->|Hne]; [|left; eauto].
            right. intros t1 Hn1 Hin1. apply Hn1. eapply K3; eauto.
        - destruct (Nat.eq_dec t0 t) as [->|Hne]; [|left; eauto]. right. intros t1 Hn1 Hin1. apply Hn1. eapply K3; eauto. }
      destruct D as [(t0 & Hne & Hin)|Hno].
      + destruct (L2 l t0 Hne Hin) as [_ E]. rewrite E. destruct (K4 l) as [H|(t1 & H1 & H2 & H3 & H4)]; [now left|].
        assert (t1 = t0) by (eapply K3; eauto). subst t1. right. exists t0. rewrite held_other, mic_other by exact Hne. auto.
      + destruct (L3 l Hno) as [H|(H1 & H2 & H3 & H4)]; [now left|]. right. exists t. rewrite held_same, mic_same. auto.
    - intros t0 l H M1 M2. destruct (Nat.eq_dec t0 t) as [->|Hne].
      + rewrite held_same in H. rewrite mic_same in M1, M2. auto.
      + rewrite held_other in H by exact Hne. rewrite mic_other in M1, M2 by exact Hne.
        rewrite (proj2 (L2 l t0 Hne H)). auto.
    - intros t0 l H. destruct (Nat.eq_dec t0 t) as [->|Hne].
      + rewrite mic_same in H. rewrite held_same. auto.
      + rewrite mic_other in H by exact Hne. rewrite held_other by exact Hne. auto.
    - intros t0 gg tb i H. destruct (Nat.eq_dec t0 t) as [->|Hne].
      + rewrite held_same in H. eauto.
      + rewrite held_other in H by exact Hne. eauto.
    - intros t0 H. rewrite Cm. destruct (Nat.eq_dec t0 t) as [->|Hne].
      + rewrite setv_same in *. symmetry. auto.
      + rewrite setv_other in * by exact Hne. auto.
    - intros t0 tb b Htb H. rewrite HT. destruct (Nat.eq_dec t0 t) as [->|Hne].
      + rewrite setv_same in *. symmetry. auto.
      + rewrite setv_other in * by exact Hne. auto.
    - rewrite Cm, Ct. exact K10.
    - intros tb b x Htb. rewrite HT, Cm. apply K11; auto.
    - intros tb b. rewrite HT. apply K12.
    - intros b b' x y. rewrite !HT. apply K13.
    - intros t0 x H. rewrite Habs. destruct (Nat.eq_dec t0 t) as [->|Hne].
      + rewrite fly_same, Hfly in H. rewrite setv_same, held_same. destruct (Lfl x H) as (A1 & A2 & A3).
        split; auto. split; auto. split; auto. apply (K14 t x H).
      + rewrite fly_other in H by exact Hne. rewrite setv_other, held_other by exact Hne. apply K14; auto.
    - intros t0. destruct (Nat.eq_dec t0 t) as [->|Hne]; [rewrite fly_same, Hfly|rewrite fly_other by exact Hne]; apply K15.
    - intros t0 H. destruct (Nat.eq_dec t0 t) as [->|Hne].
      + rewrite pend_same, Hpend in H. rewrite setv_same. auto.
      + rewrite pend_other in H by exact Hne. rewrite setv_other by exact Hne. auto.
    - intros t0. destruct (Nat.eq_dec t0 t) as [->|Hne].
      + rewrite pend_same, fly_same, Hpend, Hfly. setoid_rewrite Habs. apply K17.
      + rewrite pend_other, fly_other by exact Hne. setoid_rewrite Habs. apply K17.
  Qed.

  (** *** authority is exclusive *)
  Lemma stripe_mod (g : G) a hh : Core g a -> (hh mod S (mask g)) mod L = hh mod L.
  Proof.
    intros Hc. destruct (c_len Hc) as (_ & _ & e & He & Hd). rewrite Hd.
    destruct (Nat.eq_dec L 0) as [E|E]; [rewrite E; reflexivity|].
    rewrite Nat.mod_mul_r by lia. rewrite (Nat.mul_comm L). rewrite Nat.mod_add by lia. apply Nat.mod_mod. lia.
  Qed.

  Lemma auth_excl g a t t0 tb b : Core g a -> auth (a_view a t) tb b -> t0 <> t ->
    ~ has0 (a_view a t0) \/ (~ In (0, tb, b mod L) (held a t0) /\ ~ all0 (a_view a t0)) .
  Proof.
    intros Hc [(i & Hi) Ha] Hne.
    assert (N0 : ~ In (0, 0, i) (held a t0)) by (intros H; apply Hne; eapply (c_excl Hc); eauto).
    destruct Ha as [Ha|Ha].
    - right. split.
      + intros H. apply Hne. eapply (c_excl Hc); eauto.
      + intros H. apply N0. apply H. apply (c_range Hc t 0 0 i Hi).
    - left. intros (j & Hj). apply Hne. eapply (c_excl Hc); [exact Hj|]. apply Ha. apply (c_range Hc t0 0 0 j Hj).
  Qed.

  Lemma auth_other_none g a t t0 tb b : Core g a -> auth (a_view a t) tb b -> t0 <> t -> ~ auth (a_view a t0) tb b.
  Proof.
    intros Hc Ha Hne [H0 H1]. destruct (auth_excl g a t t0 tb b Hc Ha Hne) as [N|[N1 N2]]; [contradiction|].
    destruct H1; contradiction.
  Qed.

  (** the probe sets of an item in flight / pending belong to the thread that has it *)
  Lemma fly_auth g a t x tb : Core g a -> In x (fly a t) -> tb < 2 -> auth (a_view a t) tb (hx x tb mod S (mask g)).
  Proof.
    intros Hc Hin Htb. destruct (c_fly Hc t x Hin) as (A0 & A1 & A2 & _). split; auto. left.
    rewrite (stripe_mod g a _ Hc). destruct tb as [|[|tb]]; [exact A1|exact A2|lia].
  Qed.

  (** *** a step of thread [t] that replaces one probe set it has authority over *)
  Lemma Core_table g g' a t v' tb b new :
    Core g a ->
    rspin g' = rspin g -> rown g' = rown g -> mask g' = mask g -> tabs g' = set_bkt (tabs g) tb b new ->
    tb < 2 -> b < S (mask g) -> auth (a_view a t) tb b ->
    v_held v' = held a t -> v_mic v' = mic a t -> v_mask v' = v_mask (a_view a t) ->
    (forall tb' b', v_reg v' tb' b' = if Nat.eqb tb' tb && Nat.eqb b' b then new else v_reg (a_view a t) tb' b') ->
    (forall x, In x new -> hx x tb mod S (mask g) = b) -> NoDup (keys new) ->
    (forall x y b', In x new -> In y (T g (other tb) b') -> fst x <> fst y) ->
    (forall x, In x (v_fly v') -> has0 (a_view a t) /\ In (0, 0, h0 x mod L) (held a t) /\ In (0, 1, h1 x mod L) (held a t) /\
                                  (forall tb', tb' < 2 -> khas (fst x) (if Nat.eqb tb' tb && Nat.eqb (hx x tb' mod S (mask g)) b then new else T g tb' (hx x tb' mod S (mask g))) = false)) ->
    length (v_fly v') <= 1 ->
    (v_pend v' <> [] -> all0 (a_view a t)) -> NoDup (keys (v_pend v')) ->
    (forall x, In x (v_pend v') ->
       (forall tb', tb' < 2 -> khas (fst x) (if Nat.eqb tb' tb && Nat.eqb (hx x tb' mod S (mask g)) b then new else T g tb' (hx x tb' mod S (mask g))) = false) /\
       forall y, In y (v_fly v') -> fst y <> fst x) ->
    Core g' (setv a t v').
  Proof.
    intros Hc Cs Co Cm Ct Htb Hb Hau Hh Hmi Hma Hreg Hpl Hnd Hcr Hfl Hfl1 Hpe Hpn Hpa.
    pose proof Hc as [K1 K2 K3 K4 K5 K6 K7 K8 K9 K10 K11 K12 K13 K14 K15 K16 K17].
    destruct K10 as (Len2 & LenT & Div).
    assert (Hblen : b < length (nth tb (tabs g) [])) by (rewrite LenT; auto).
    assert (Htlen : tb < length (tabs g)) by lia.
    assert (HTs : T g' tb b = new) by (unfold T; rewrite Ct; now apply get_set_bkt_same).
    assert (HTo : forall tb' b', (tb', b') <> (tb, b) -> T g' tb' b' = T g tb' b') by (intros; unfold T; rewrite Ct; now apply get_set_bkt_other).
    assert (HTif : forall tb' b', T g' tb' b' = if Nat.eqb tb' tb && Nat.eqb b' b then new else T g tb' b').
    { intros tb' b'. destruct (Nat.eqb_spec tb' tb) as [->|E1]; destruct (Nat.eqb_spec b' b) as [->|E2]; cbn; auto; apply HTo; congruence. }
    assert (Hheld : forall t0, held (setv a t v') t0 = held a t0).
    { intros t0. destruct (Nat.eq_dec t0 t) as [->|Hne]; [now rewrite held_same|now rewrite held_other]. }
    assert (Hmic : forall t0, mic (setv a t v') t0 = mic a t0).
    { intros t0. destruct (Nat.eq_dec t0 t) as [->|Hne]; [now rewrite mic_same|now rewrite mic_other]. }
    assert (Hhas0 : forall t0, has0 (a_view (setv a t v') t0) <-> has0 (a_view a t0)).
    { intros t0. unfold has0. fold (held (setv a t v') t0). fold (held a t0). now rewrite Hheld. }
    assert (Hall0 : forall t0, all0 (a_view (setv a t v') t0) <-> all0 (a_view a t0)).
    { intros t0. unfold all0. fold (held (setv a t v') t0). fold (held a t0). now rewrite Hheld. }
    assert (Hauth : forall t0 tb' b', auth (a_view (setv a t v') t0) tb' b' <-> auth (a_view a t0) tb' b').
    { intros t0 tb' b'. unfold auth. rewrite Hhas0, Hall0. fold (held (setv a t v') t0). fold (held a t0). now rewrite Hheld. }
    (* other threads have nothing in flight / pending that concerns this probe set *)
    assert (Habs_other : forall t0 x, t0 <> t -> (forall tb', tb' < 2 -> auth (a_view a t0) tb' (hx x tb' mod S (mask g))) -> absent g x -> absent g' x).
    { intros t0 x Hne Hax Hab tb' Htb'. rewrite Cm, HTif.
      destruct (Nat.eqb_spec tb' tb) as [->|E1]; destruct (Nat.eqb_spec (hx x tb mod S (mask g)) b) as [E2|E2]; cbn; try (apply Hab; auto).
      exfalso. eapply (auth_other_none g a t t0 tb b Hc Hau Hne). rewrite <- E2. apply Hax. exact Htb. }
    constructor.
    - intros l. rewrite Cs. setoid_rewrite Hheld. apply K1.
    - intros t0 l. rewrite Cs, Hheld. apply K2.
    - intros t1 t2 l. rewrite !Hheld. apply K3.
    - intros l. rewrite Co. setoid_rewrite Hheld. setoid_rewrite Hmic. apply K4.
    - intros t0 l. rewrite Co, Hheld, Hmic. apply K5.
    - intros t0 l. rewrite Hmic, Hheld. apply K6.
    - intros t0 gg tb' i. rewrite Hheld. apply K7.
    - intros t0. rewrite Hhas0, Cm. destruct (Nat.eq_dec t0 t) as [->|Hne].
      + rewrite setv_same, Hma. apply K8.
      + rewrite setv_other by exact Hne. apply K8.
    - intros t0 tb' b' Htb'. rewrite Hauth. intros Ha. destruct (Nat.eq_dec t0 t) as [->|Hne].
      + rewrite setv_same, Hreg, HTif. destruct (Nat.eqb tb' tb && Nat.eqb b' b); auto.
      + rewrite setv_other by exact Hne. rewrite HTo; [auto|]. intros E. inversion E; subst.
        eapply (auth_other_none g a t t0 tb b); eauto.
    - rewrite Cm, Ct. split; [unfold set_bkt; now rewrite set_nth_length|]. split; [|exact Div].
      intros tb' Htb'. unfold set_bkt. destruct (Nat.eq_dec tb' tb) as [->|E].
      + rewrite nth_set_nth_same by exact Htlen. rewrite set_nth_length. auto.
      + rewrite nth_set_nth_other by auto. auto.
    - intros tb' b' x Htb'. rewrite Cm, HTif.
      destruct (Nat.eqb_spec tb' tb) as [->|E1]; destruct (Nat.eqb_spec b' b) as [->|E2]; cbn [andb];
        first [apply Hpl | apply K11; exact Htb'].
    - intros tb' b'. rewrite HTif. destruct (Nat.eqb tb' tb && Nat.eqb b' b); [exact Hnd|apply K12].
    - intros b1 b2 x y. rewrite !HTif. destruct tb as [|[|tb]]; [| |lia]; cbn [Nat.eqb andb].
      + destruct (Nat.eqb_spec b1 b) as [->|E]; [|apply K13]. intros Hx Hy. eapply (Hcr x y b2); eauto.
      + destruct (Nat.eqb_spec b2 b) as [->|E]; [|apply K13]. intros Hx Hy. intros E'. eapply (Hcr y x b1); eauto.
    - intros t0 x. rewrite Hheld, Hhas0. destruct (Nat.eq_dec t0 t) as [->|Hne].
      + rewrite fly_same. intros H. destruct (Hfl x H) as (A0 & A1 & A2 & A3). split; auto. split; auto. split; auto.
        intros tb' Htb'. rewrite Cm, HTif. apply A3; auto.
      + rewrite fly_other by exact Hne. intros H. destruct (K14 t0 x H) as (A0 & A1 & A2 & A3). split; auto. split; auto. split; auto.
        eapply Habs_other; eauto. intros tb' Htb'. eapply fly_auth; eauto.
    - intros t0. destruct (Nat.eq_dec t0 t) as [->|Hne]; [now rewrite fly_same|rewrite fly_other by exact Hne; apply K15].
    - intros t0. rewrite Hall0. destruct (Nat.eq_dec t0 t) as [->|Hne]; [rewrite pend_same; auto|rewrite pend_other by exact Hne; apply K16].
    - intros t0. destruct (Nat.eq_dec t0 t) as [->|Hne].
      + rewrite pend_same, fly_same. split; auto. intros x H. destruct (Hpa x H) as [A B]. split; auto.
        intros tb' Htb'. rewrite Cm, HTif. apply A; auto.
      + rewrite pend_other, fly_other by exact Hne. destruct (K17 t0) as [A B]. split; auto.
        intros x H. destruct (B x H) as [B1 B2]. split; auto.
        (* a thread with pending items holds every table-0 lock: it cannot be another thread *)
        exfalso. assert (Hp : pend a t0 <> []) by (intros E; rewrite E in H; destruct H).
        pose proof (K16 t0 Hp) as Ha0. destruct Hau as [(i & Hi) _].
        apply Hne. eapply K3; [apply Ha0; apply (K7 t 0 0 i Hi)|exact Hi].
  Qed.

  (** *** all the items of the tables, as one list *)
  Lemma keys_app (l1 l2 : list item) : keys (l1 ++ l2) = keys l1 ++ keys l2.
  Proof. unfold keys. apply map_app. Qed.

  Lemma NoDup_app_intro {A} (l1 l2 : list A) : NoDup l1 -> NoDup l2 -> (forall x, In x l1 -> ~ In x l2) -> NoDup (l1 ++ l2).
  Proof.
    induction l1 as [|x r IH]; intros H1 H2 H; cbn; auto. inversion H1; subst. constructor.
    - rewrite in_app_iff. intros [K|K]; [contradiction|]. eapply H; [left; reflexivity|exact K].
    - apply IH; auto. intros y Hy. apply H. now right.
  Qed.

  Lemma nodup_keys_concat (bs : list (list item)) :
    (forall b, NoDup (keys (nth b bs []))) ->
    (forall b b' x y, In x (nth b bs []) -> In y (nth b' bs []) -> fst x = fst y -> b = b') ->
    NoDup (keys (List.concat bs)).
  Proof.
    induction bs as [|b0 r IH]; intros Hn Hd; cbn; [constructor|].
    rewrite keys_app. apply NoDup_app_intro.
    - apply (Hn 0).
    - apply IH.
      + intros b. apply (Hn (S b)).
      + intros b b' x y Hx Hy E. specialize (Hd (S b) (S b') x y Hx Hy E). lia.
    - intros k Hk Hk'. unfold keys in Hk, Hk'. apply in_map_iff in Hk. apply in_map_iff in Hk'.
      destruct Hk as (x & <- & Hx). destruct Hk' as (y & E & Hy). apply in_concat in Hy. destruct Hy as (l & Hl & Hy).
      apply In_nth with (d := []) in Hl. destruct Hl as (n & _ & En). subst l.
      specialize (Hd 0 (S n) x y Hx Hy (eq_sym E)). discriminate.
  Qed.

  Lemma in_concat_nth (bs : list (list item)) x : In x (List.concat bs) <-> exists b, In x (nth b bs []).
  Proof.
    rewrite in_concat. split.
    - intros (l & Hl & Hx). apply In_nth with (d := []) in Hl. destruct Hl as (n & _ & E). exists n. now rewrite E.
    - intros (b & Hx). destruct (Nat.lt_ge_cases b (length bs)) as [H|H].
      + exists (nth b bs []). split; auto. now apply nth_In.
      + rewrite nth_overflow in Hx by exact H. destruct Hx.
  Qed.

  Definition all_items (g : G) : list item := List.concat (List.concat (tabs g)).

  Lemma all_items_in g a x : Core g a -> (In x (all_items g) <-> exists tb b, tb < 2 /\ In x (T g tb b)).
  Proof.
    intros Hc. destruct (c_len Hc) as (L2 & _). unfold all_items, T, get_bkt.
    destruct (tabs g) as [|t0 [|t1 [|t2 r]]]; cbn in L2; try discriminate. cbn [List.concat]. rewrite app_nil_r, concat_app, in_app_iff, !in_concat_nth.
    split.
    - intros [(b & H)|(b & H)]; [exists 0, b|exists 1, b]; split; auto.
    - intros (tb & b & Htb & H). destruct tb as [|[|tb]]; [left|right|lia]; exists b; exact H.
  Qed.

  Lemma all_items_nodup g a : Core g a -> NoDup (keys (all_items g)).
  Proof.
    intros Hc. destruct (c_len Hc) as (L2 & _). unfold all_items.
    pose proof (c_nodup Hc) as Hn. pose proof (c_placed Hc) as Hp. pose proof (c_cross Hc) as Hx. unfold T, get_bkt in *.
    destruct (tabs g) as [|t0 [|t1 [|t2 r]]]; cbn in L2; try discriminate. cbn [List.concat]. rewrite app_nil_r, concat_app, keys_app.
    apply NoDup_app_intro.
    - apply nodup_keys_concat; [apply (Hn 0)|]. intros b b' x y H1 H2 E.
      rewrite <- (Hp 0 b x), <- (Hp 0 b' y) by (auto; lia). unfold hx. now rewrite E.
    - apply nodup_keys_concat; [apply (Hn 1)|]. intros b b' x y H1 H2 E.
      rewrite <- (Hp 1 b x), <- (Hp 1 b' y) by (auto; lia). unfold hx. now rewrite E.
    - intros k Hk Hk'. unfold keys in Hk, Hk'. apply in_map_iff in Hk. apply in_map_iff in Hk'.
      destruct Hk as (x & <- & H1). destruct Hk' as (y & E & H2). apply in_concat_nth in H1, H2.
      destruct H1 as (b & H1). destruct H2 as (b' & H2). eapply (Hx b b' x y); eauto.
  Qed.

  Lemma get_bkt_empty n tb b : get_bkt [repeat [] n; repeat [] n] tb b = [].
  Proof.
    unfold get_bkt. destruct tb as [|[|tb]]; cbn [nth].
    - clear. revert b. induction n; intros [|b]; cbn; auto.
    - clear. revert b. induction n; intros [|b]; cbn; auto.
    - destruct tb; destruct b; reflexivity.
  Qed.

  (** *** allocation of the new tables by the thread that holds every table-0 lock *)
  Lemma Core_alloc g a t n v' :
    Core g a -> all0 (a_view a t) -> has0 (a_view a t) -> fly a t = [] -> pend a t = [] -> n = 2 * S (mask g) ->
    v_held v' = held a t -> v_mic v' = mic a t -> v_mask v' = n - 1 -> (forall tb b, v_reg v' tb b = []) ->
    v_fly v' = [] -> v_pend v' = all_items g ->
    Core (set_tabs (set_mask g (n - 1)) [repeat [] n; repeat [] n]) (setv a t v').
  Proof.
    intros Hc Hall Hh0 Hf Hp Hn Hh Hmi Hma Hreg Hfl Hpe.
    pose proof Hc as [K1 K2 K3 K4 K5 K6 K7 K8 K9 K10 K11 K12 K13 K14 K15 K16 K17].
    destruct Hh0 as (i0 & Hi0).
    assert (Other : forall t0, t0 <> t -> ~ has0 (a_view a t0)).
    { intros t0 Hne (j & Hj). apply Hne. eapply K3; [exact Hj|]. apply Hall. apply (K7 t0 0 0 j Hj). }
    assert (Hheld : forall t0, held (setv a t v') t0 = held a t0).
    { intros t0. destruct (Nat.eq_dec t0 t) as [->|Hne]; [now rewrite held_same|now rewrite held_other]. }
    assert (Hmic : forall t0, mic (setv a t v') t0 = mic a t0).
    { intros t0. destruct (Nat.eq_dec t0 t) as [->|Hne]; [now rewrite mic_same|now rewrite mic_other]. }
    assert (Hhas0 : forall t0, has0 (a_view (setv a t v') t0) <-> has0 (a_view a t0)).
    { intros t0. unfold has0. fold (held (setv a t v') t0). fold (held a t0). now rewrite Hheld. }
    assert (Hall0 : forall t0, all0 (a_view (setv a t v') t0) <-> all0 (a_view a t0)).
    { intros t0. unfold all0. fold (held (setv a t v') t0). fold (held a t0). now rewrite Hheld. }
    set (g' := set_tabs (set_mask g (n - 1)) [repeat [] n; repeat [] n]).
    assert (HT : forall tb b, T g' tb b = []) by (intros; unfold T, g'; cbn [tabs set_tabs]; apply get_bkt_empty).
    assert (Hab : forall x, absent g' x) by (intros x tb Htb; rewrite HT; reflexivity).
    assert (Hn0 : 0 < n) by lia.
    constructor.
    - intros l. cbn [rspin g' set_tabs set_mask]. setoid_rewrite Hheld. apply K1.
    - intros t0 l. cbn [rspin g' set_tabs set_mask]. rewrite Hheld. apply K2.
    - intros t1 t2 l. rewrite !Hheld. apply K3.
    - intros l. cbn [rown g' set_tabs set_mask]. setoid_rewrite Hheld. setoid_rewrite Hmic. apply K4.
    - intros t0 l. cbn [rown g' set_tabs set_mask]. rewrite Hheld, Hmic. apply K5.
    - intros t0 l. rewrite Hmic, Hheld. apply K6.
    - intros t0 gg tb i. rewrite Hheld. apply K7.
    - intros t0. rewrite Hhas0. cbn [mask g' set_tabs set_mask]. destruct (Nat.eq_dec t0 t) as [->|Hne].
      + rewrite setv_same. auto.
      + intros H. exfalso. eapply Other; eauto.
    - intros t0 tb b Htb [H0 _]. rewrite HT. destruct (Nat.eq_dec t0 t) as [->|Hne].
      + rewrite setv_same. now rewrite Hreg.
      + apply Hhas0 in H0. exfalso. eapply Other; eauto.
    - cbn [tabs mask g' set_tabs set_mask]. split; [reflexivity|]. split.
      + intros tb Htb. destruct tb as [|[|tb]]; cbn [nth]; try lia; rewrite repeat_length; lia.
      + destruct K10 as (_ & _ & e & He & Hd). exists (2 * e). split; [lia|]. rewrite Hn, Hd. lia.
    - intros tb b x Htb. rewrite HT. intros [].
    - intros tb b. rewrite HT. constructor.
    - intros b b' x y. rewrite HT. intros [].
    - intros t0 x. destruct (Nat.eq_dec t0 t) as [->|Hne].
      + rewrite fly_same, Hfl. intros [].
      + rewrite fly_other by exact Hne. intros H. destruct (K14 t0 x H) as (A0 & _). exfalso. eapply Other; eauto.
    - intros t0. destruct (Nat.eq_dec t0 t) as [->|Hne]; [rewrite fly_same, Hfl; cbn; lia|rewrite fly_other by exact Hne; apply K15].
    - intros t0. rewrite Hall0. destruct (Nat.eq_dec t0 t) as [->|Hne]; [auto|rewrite pend_other by exact Hne; apply K16].
    - intros t0. destruct (Nat.eq_dec t0 t) as [->|Hne].
      + rewrite pend_same, fly_same, Hpe, Hfl. split; [eapply all_items_nodup; eauto|]. intros x _. split; [apply Hab|intros y []].
      + rewrite pend_other, fly_other by exact Hne. destruct (K17 t0) as [A B]. split; auto.
        intros x H. split; auto. apply (B x H).
  Qed.


  (** *** the abstract set *)
  Lemma dropped_app tr tr' : dropped tr -> dropped (tr ++ tr').
  Proof. intros (t & k & H). exists t, k. apply in_or_app. now left. Qed.

  Lemma allp_ext g g' a a' :
    (forall tb b, T g' tb b = T g tb b) -> (forall t, fly a' t = fly a t) -> (forall t, pend a' t = pend a t) ->
    forall x, allp g' a' x <-> allp g a x.
  Proof. intros HT Hf Hp x. unfold allp. setoid_rewrite HT. setoid_rewrite Hf. setoid_rewrite Hp. tauto. Qed.

  (** nothing the abstraction reads changes *)
  Lemma Abs_keep g g' a a' tr tr' :
    Abs g a tr -> tabs g' = tabs g -> a_atr a' = a_atr a ->
    (forall t, v_op (a_view a' t) = v_op (a_view a t) /\ fly a' t = fly a t /\ pend a' t = pend a t) ->
    hist_of tr' = hist_of tr -> (dropped tr -> dropped tr') -> Abs g' a' tr'.
  Proof.
    intros [Hd|(s & st & H1 & H2 & H3 & H4 & H5)] Ct Ha Hv Hh Hdr; [left; auto|right].
    exists s, st. rewrite Ha, Hh. split; auto. split; auto. split; [intros t; rewrite H3; symmetry; apply Hv|]. split; auto.
    intros x. rewrite H5. symmetry. apply allp_ext.
    - intros. unfold T. now rewrite Ct.
    - intros t. apply Hv.
    - intros t. apply Hv.
  Qed.

  (** [allp] after thread [t] replaced probe set (tb, b) and its own in-flight / pending items *)
  Lemma allp_table g g' a t v' tb b new :
    Core g a -> tabs g' = set_bkt (tabs g) tb b new -> tb < 2 -> b < S (mask g) ->
    forall x, allp g' (setv a t v') x <->
      In x new \/ (exists tb' b', tb' < 2 /\ (tb', b') <> (tb, b) /\ In x (T g tb' b')) \/
      In x (v_fly v') \/ (exists t0, t0 <> t /\ In x (fly a t0)) \/
      In x (v_pend v') \/ (exists t0, t0 <> t /\ In x (pend a t0)).
  Proof.
    intros Hc Ct Htb Hb x. destruct (c_len Hc) as (Len2 & LenT & _).
    assert (HTs : T g' tb b = new) by (unfold T; rewrite Ct; apply get_set_bkt_same; [lia|rewrite LenT; auto]).
    assert (HTo : forall tb' b', (tb', b') <> (tb, b) -> T g' tb' b' = T g tb' b') by (intros; unfold T; rewrite Ct; now apply get_set_bkt_other).
    unfold allp. split.
    - intros [(tb' & b' & H1 & H2)|[(t0 & H)|(t0 & H)]].
      + destruct (Nat.eq_dec tb' tb) as [->|E1]; [destruct (Nat.eq_dec b' b) as [->|E2]|].
        * left. now rewrite HTs in H2.
        * right. left. exists tb, b'. rewrite HTo in H2 by congruence. split; auto. split; [congruence|auto].
        * right. left. exists tb', b'. rewrite HTo in H2 by congruence. split; auto. split; [congruence|auto].
      + destruct (Nat.eq_dec t0 t) as [->|Hne]; [rewrite fly_same in H; tauto|rewrite fly_other in H by exact Hne]. right; right; right; left; eauto.
      + destruct (Nat.eq_dec t0 t) as [->|Hne]; [rewrite pend_same in H; tauto|rewrite pend_other in H by exact Hne]. right; right; right; right; right; eauto.
    - intros [H|[(tb' & b' & H1 & H2 & H3)|[H|[(t0 & Hne & H)|[H|(t0 & Hne & H)]]]]].
      + left. exists tb, b. rewrite HTs. auto.
      + left. exists tb', b'. rewrite HTo by exact H2. auto.
      + right. left. exists t. now rewrite fly_same.
      + right. left. exists t0. now rewrite fly_other.
      + right. right. exists t. now rewrite pend_same.
      + right. right. exists t0. now rewrite pend_other.
  Qed.

  Lemma allp_split g a t tb b : tb < 2 ->
    forall x, allp g a x <->
      In x (T g tb b) \/ (exists tb' b', tb' < 2 /\ (tb', b') <> (tb, b) /\ In x (T g tb' b')) \/
      In x (fly a t) \/ (exists t0, t0 <> t /\ In x (fly a t0)) \/
      In x (pend a t) \/ (exists t0, t0 <> t /\ In x (pend a t0)).
  Proof.
    intros Htb x. unfold allp. split.
    - intros [(tb' & b' & H1 & H2)|[(t0 & H)|(t0 & H)]].
      + destruct (Nat.eq_dec tb' tb) as [->|E1]; [destruct (Nat.eq_dec b' b) as [->|E2]|].
        * now left.
        * right. left. exists tb, b'. split; auto. split; [congruence|auto].
        * right. left. exists tb', b'. split; auto. split; [congruence|auto].
      + destruct (Nat.eq_dec t0 t) as [->|Hne]; [tauto|]. right; right; right; left; eauto.
      + destruct (Nat.eq_dec t0 t) as [->|Hne]; [tauto|]. right; right; right; right; right; eauto.
    - intros [H|[(tb' & b' & H1 & H2 & H3)|[H|[(t0 & Hne & H)|[H|(t0 & Hne & H)]]]]]; eauto 6.
  Qed.

  (** moving items between a probe set and the thread's in-flight / pending lists does not change the set *)
  Lemma allp_move g g' a t v' tb b new :
    Core g a -> tabs g' = set_bkt (tabs g) tb b new -> tb < 2 -> b < S (mask g) ->
    (forall x, In x new \/ In x (v_fly v') \/ In x (v_pend v') <-> In x (T g tb b) \/ In x (fly a t) \/ In x (pend a t)) ->
    forall x, allp g' (setv a t v') x <-> allp g a x.
  Proof.
    intros Hc Ct Htb Hb Hmv x. rewrite (allp_table g g' a t v' tb b new Hc Ct Htb Hb x), (allp_split g a t tb b Htb x).
    specialize (Hmv x). tauto.
  Qed.

  (** one annotated event more *)
  Lemma lp_ext (atr : list (aev ISet)) c e c' :
    lp_run lp_init atr = Some c -> lp_step c e = Some c' -> lp_run lp_init (atr ++ [e]) = Some c'.
  Proof. intros H1 H2. rewrite lp_run_app, H1. cbn. now rewrite H2. Qed.

  (** *** list bookkeeping for the multiset of held locks *)
  Fixpoint rem1 (l : lk) (H : list lk) : list lk :=
    match H with
    | [] => []
    | x :: r => if lk_dec x l then r else x :: rem1 l r
    end.

  Lemma cnt_cons_same H l : cnt (l :: H) l = S (cnt H l).
  Proof. cbn. destruct (lk_dec l l); congruence. Qed.
  Lemma cnt_cons_other H l l' : l' <> l -> cnt (l :: H) l' = cnt H l'.
  Proof. intros E. cbn. destruct (lk_dec l l'); congruence. Qed.
  Lemma cnt_rem1_same H l : cnt (rem1 l H) l = cnt H l - 1.
  Proof.
    induction H as [|x r IH]; cbn; auto. destruct (lk_dec x l) as [->|E]; cbn.
    - lia.
    - destruct (lk_dec x l); [contradiction|]. exact IH.
  Qed.
  Lemma cnt_rem1_other H l l' : l' <> l -> cnt (rem1 l H) l' = cnt H l'.
  Proof.
    intros E. induction H as [|x r IH]; cbn; auto. destruct (lk_dec x l) as [->|E1]; cbn.
    - destruct (lk_dec l l'); congruence.
    - destruct (lk_dec x l'); rewrite IH; reflexivity.
  Qed.
  Lemma in_cnt H l : In l H <-> 0 < cnt H l.
  Proof. apply (count_occ_In lk_dec). Qed.
  Lemma in_rem1 H l l' : In l' (rem1 l H) <-> (l' <> l /\ In l' H) \/ (l' = l /\ 1 < cnt H l).
  Proof.
    rewrite in_cnt. destruct (lk_dec l' l) as [->|E].
    - rewrite cnt_rem1_same. split; [intros H0; right; split; [auto|lia]|intros [[H0 _]|[_ H0]]; [congruence|lia]].
    - rewrite cnt_rem1_other by exact E. rewrite <- in_cnt. split; [intros H0; left; auto|intros [[_ H0]|[H0 _]]; [auto|congruence]].
  Qed.

  (** the invariant reads only the lock words, the mask and the tables *)
  Lemma Core_same g g' a : Core g a -> rspin g' = rspin g -> rown g' = rown g -> mask g' = mask g -> tabs g' = tabs g -> Core g' a.
  Proof.
    intros [K1 K2 K3 K4 K5 K6 K7 K8 K9 K10 K11 K12 K13 K14 K15 K16 K17] C1 C2 C3 C4.
    assert (HT : forall tb b, T g' tb b = T g tb b) by (intros; unfold T; now rewrite C4).
    assert (Hab : forall x, absent g' x <-> absent g x) by (intros x; unfold absent; rewrite C3; setoid_rewrite HT; tauto).
    constructor.
    - rewrite C1. exact K1.
    - rewrite C1. exact K2.
    - exact K3.
    - rewrite C2. exact K4.
    - rewrite C2. exact K5.
    - exact K6.
    - exact K7.
    - rewrite C3. exact K8.
    - intros t tb b. rewrite HT. apply K9.
    - rewrite C3, C4. exact K10.
    - intros tb b x. rewrite HT, C3. apply K11.
    - intros tb b. rewrite HT. apply K12.
    - intros b b' x y. rewrite !HT. apply K13.
    - intros t x H. rewrite Hab. apply K14; auto.
    - exact K15.
    - exact K16.
    - intros t. destruct (K17 t) as [A B]. split; auto. intros x H. rewrite Hab. auto.
  Qed.

  Lemma Core_seta g a atr : Core g a -> Core g (seta a atr).
  Proof. intros [K1 K2 K3 K4 K5 K6 K7 K8 K9 K10 K11 K12 K13 K14 K15 K16 K17]. constructor; assumption. Qed.

  (** the thread forgets some of its in-flight / pending items (only the views change) *)
  Lemma Core_fp g a t v' :
    Core g a -> v_held v' = held a t -> v_mic v' = mic a t -> v_mask v' = v_mask (a_view a t) ->
    (forall tb b, v_reg v' tb b = v_reg (a_view a t) tb b) ->
    (forall y, In y (v_fly v') -> In y (fly a t)) -> length (v_fly v') <= 1 ->
    (forall y, In y (v_pend v') -> In y (pend a t)) -> NoDup (keys (v_pend v')) ->
    Core g (setv a t v').
  Proof.
    intros Hc V1 V2 V3 V4 Hf Hf1 Hp Hpn.
    pose proof Hc as [K1 K2 K3 K4 K5 K6 K7 K8 K9 K10 K11 K12 K13 K14 K15 K16 K17].
    assert (Hheld : forall t0, held (setv a t v') t0 = held a t0).
    { intros t0. destruct (Nat.eq_dec t0 t) as [->|Hne]; [now rewrite held_same|now rewrite held_other]. }
    assert (Hmic : forall t0, mic (setv a t v') t0 = mic a t0).
    { intros t0. destruct (Nat.eq_dec t0 t) as [->|Hne]; [now rewrite mic_same|now rewrite mic_other]. }
    assert (Hhas0 : forall t0, has0 (a_view (setv a t v') t0) <-> has0 (a_view a t0)).
    { intros t0. unfold has0. fold (held (setv a t v') t0). fold (held a t0). now rewrite Hheld. }
    assert (Hall0 : forall t0, all0 (a_view (setv a t v') t0) <-> all0 (a_view a t0)).
    { intros t0. unfold all0. fold (held (setv a t v') t0). fold (held a t0). now rewrite Hheld. }
    assert (Hauth : forall t0 tb' b', auth (a_view (setv a t v') t0) tb' b' <-> auth (a_view a t0) tb' b').
    { intros t0 tb' b'. unfold auth. rewrite Hhas0, Hall0. fold (held (setv a t v') t0). fold (held a t0). now rewrite Hheld. }
    constructor.
    - intros l. setoid_rewrite Hheld. apply K1.
    - intros t0 l. rewrite Hheld. apply K2.
    - intros t1 t2 l. rewrite !Hheld. apply K3.
    - intros l. setoid_rewrite Hheld. setoid_rewrite Hmic. apply K4.
    - intros t0 l. rewrite Hheld, Hmic. apply K5.
    - intros t0 l. rewrite Hmic, Hheld. apply K6.
    - intros t0 gg tb i. rewrite Hheld. apply K7.
    - intros t0. rewrite Hhas0. destruct (Nat.eq_dec t0 t) as [->|Hne]; [rewrite setv_same, V3|rewrite setv_other by exact Hne]; apply K8.
    - intros t0 tb b Htb. rewrite Hauth. destruct (Nat.eq_dec t0 t) as [->|Hne]; [rewrite setv_same, V4|rewrite setv_other by exact Hne]; apply K9; auto.
    - exact K10.
    - exact K11.
    - exact K12.
    - exact K13.
    - intros t0 x. rewrite Hheld, Hhas0. destruct (Nat.eq_dec t0 t) as [->|Hne].
      + rewrite fly_same. intros H. apply K14. auto.
      + rewrite fly_other by exact Hne. apply K14.
    - intros t0. destruct (Nat.eq_dec t0 t) as [->|Hne]; [now rewrite fly_same|rewrite fly_other by exact Hne; apply K15].
    - intros t0. rewrite Hall0. destruct (Nat.eq_dec t0 t) as [->|Hne].
      + rewrite pend_same. intros H. apply K16. intros E. destruct (v_pend v') as [|y r]; [congruence|].
        specialize (Hp y ltac:(now left)). rewrite E in Hp. destruct Hp.
      + rewrite pend_other by exact Hne. apply K16.
    - intros t0. destruct (Nat.eq_dec t0 t) as [->|Hne].
      + rewrite pend_same, fly_same. split; auto. intros x H. destruct (K17 t) as [_ B]. destruct (B x (Hp x H)) as [B1 B2]. split; auto.
      + rewrite pend_other, fly_other by exact Hne. apply K17.
  Qed.

End Inv.

Arguments c_spin0 {cf g a}. Arguments c_spin {cf g a}. Arguments c_excl {cf g a}. Arguments c_rown {cf g a}. Arguments c_rown2 {cf g a}.
Arguments c_mic {cf g a}. Arguments c_range {cf g a}. Arguments c_mask {cf g a}. Arguments c_reg {cf g a}. Arguments c_len {cf g a}.
Arguments c_placed {cf g a}. Arguments c_nodup {cf g a}. Arguments c_cross {cf g a}. Arguments c_fly {cf g a}. Arguments c_fly1 {cf g a}.
Arguments c_pend {cf g a}. Arguments c_pend2 {cf g a}.
