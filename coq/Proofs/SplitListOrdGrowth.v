(** * SplitListOrdGrowth: what a step of the split-list model may do to m_nBucketCountLog2 - for every schedule.

    [grow_rel g g']: the step leaves m_nBucketCountLog2 alone, or it increments it by exactly one and changes NOTHING
    else of the list, the allocator and the bucket table (growth = doubling of the bucket count never touches the list).
    This is a property of every single atomic access of every program of the model ([okp], syntactic, no invariant
    needed); [step_okp] lifts it to every step of every reachable configuration. *)
From Coq Require Import ZArith List String Bool Arith PeanoNat Lia.
From LV Require Import Base.Conc Base.Events Model.SplitList.
Import ListNotations.

Set Implicit Arguments.

Definition grow_rel (g g' : G) : Prop :=
  log2 g' = log2 g \/
  (log2 g' = S (log2 g) /\ heap g' = heap g /\ nalloc g' = nalloc g /\ table g' = table g /\ count g' = count g).

Definition gk (f : G -> G * V * list ev) : Prop := forall g, grow_rel g (fst (fst (f g))).

Inductive okp {R} : Conc.prog G V ev R -> Prop :=
| ok_ret r : okp (Ret r)
| ok_emit es k : okp k -> okp (Emit es k)
| ok_act f k : gk f -> (forall v, okp (k v)) -> okp (Act f k).

Lemma okp_bind {A B} (p : Conc.prog G V ev A) (q : A -> Conc.prog G V ev B) :
  okp p -> (forall a, okp (q a)) -> okp (Conc.bind p q).
Proof. intros Hp Hq. induction Hp; cbn [Conc.bind]; [apply Hq|constructor; auto|constructor; auto]. Qed.

Lemma okp_settle (p : Conc.thread G V ev) : okp p -> okp (snd (Conc.settle p)).
Proof.
  induction p as [r|es k IH|f k IH]; intros H; cbn [Conc.settle]; [exact H| |exact H].
  inversion H; subst. specialize (IH H1). destruct (Conc.settle k); exact IH.
Qed.

Definition all_okp (ts : list (Conc.thread G V ev)) : Prop := forall t p, nth_error ts t = Some p -> okp p.

Lemma step_okp c t c' : all_okp (Conc.threads c) -> Conc.step_cfg c t = Some c' ->
  grow_rel (Conc.shared c) (Conc.shared c') /\ all_okp (Conc.threads c').
Proof.
  intros Hall Hs. unfold Conc.step_cfg in Hs.
  destruct (nth_error (Conc.threads c) t) as [p|] eqn:Hp; [|discriminate].
  pose proof (Hall t p Hp) as Hokp. unfold Conc.step_thread in Hs. destruct p as [r|es k|f k]; try discriminate.
  inversion Hokp as [| |? ? Hf Hk]; subst.
  pose proof (Hf (Conc.shared c)) as Hg. specialize (Hk (snd (fst (f (Conc.shared c))))).
  destruct (f (Conc.shared c)) as [[g' v] es] eqn:Ef. cbn [fst snd] in *.
  pose proof (okp_settle Hk) as Hk'. destruct (Conc.settle (k v)) as [es' p'] eqn:Es. cbn [snd] in Hk'.
  inversion Hs; subst c'; clear Hs. cbn [Conc.shared Conc.threads]. split; [exact Hg|].
  intros u q Hq. destruct (Nat.eq_dec u t) as [->|Hne].
  - rewrite (Conc.nth_error_set_nth_eq _ _ _ Hp) in Hq. inversion Hq; subst. exact Hk'.
  - rewrite Conc.nth_error_set_nth_neq in Hq by congruence. eapply Hall; eauto.
Qed.

Section Progs.
  Variables (cap : nat) (hs : list Z).

  Ltac gkt := intros g; left; reflexivity.

  Lemma gk_nop k o : gk (a_nop k o). Proof. gkt. Qed.
  Lemma gk_begin : gk a_begin. Proof. gkt. Qed.
  Lemma gk_ld l : gk (a_ld l). Proof. intros g. unfold a_ld. destruct (rd g l). left. reflexivity. Qed.
  Lemma gk_cas l ep np nm : gk (a_cas l ep np nm).
  Proof. intros g. unfold a_cas. destruct (rd g l) as [p m]. destruct (Nat.eqb p ep && negb m); [destruct l|]; left; reflexivity. Qed.
  Lemma gk_alloc_st k p : gk (a_alloc_st k p). Proof. gkt. Qed.
  Lemma gk_new_aux k : gk (a_new_aux k). Proof. gkt. Qed.
  Lemma gk_st_next n p : gk (a_st_next n p). Proof. gkt. Qed.
  Lemma gk_ld_log2 : gk a_ld_log2. Proof. gkt. Qed.
  Lemma gk_ld_tab b : gk (a_ld_tab b). Proof. gkt. Qed.
  Lemma gk_st_tab b n : gk (a_st_tab b n). Proof. gkt. Qed.
  Lemma gk_ld_auxcnt : gk a_ld_auxcnt. Proof. gkt. Qed.
  Lemma gk_faa_auxcnt : gk a_faa_auxcnt. Proof. gkt. Qed.
  Lemma gk_ld_max : gk a_ld_max. Proof. gkt. Qed.
  Lemma gk_cnt k d : gk (a_cnt k d). Proof. gkt. Qed.
  Lemma gk_cas_max e n : gk (a_cas_max e n). Proof. intros g. unfold a_cas_max. destruct (Z.eqb (maxcnt g) e); left; reflexivity. Qed.
  Lemma gk_st_max n : gk (a_st_max n). Proof. gkt. Qed.
  Lemma gk_fl_ld : gk a_fl_ld. Proof. gkt. Qed.
  Lemma gk_fl_cas ep n : gk (a_fl_cas ep n). Proof. intros g. unfold a_fl_cas. destruct (Nat.eqb (flhead g) ep); left; reflexivity. Qed.
  (** the one access that grows the table *)
  Lemma gk_cas_log2 e : gk (a_cas_log2 e).
  Proof.
    intros g. unfold a_cas_log2. destruct (Nat.eqb_spec (log2 g) e) as [E|E]; [right|left; reflexivity].
    cbn. subst e. repeat split; reflexivity.
  Qed.

  Hint Resolve gk_nop gk_begin gk_ld gk_cas gk_alloc_st gk_new_aux gk_st_next gk_ld_log2 gk_ld_tab gk_st_tab gk_ld_auxcnt
    gk_faa_auxcnt gk_ld_max gk_cnt gk_cas_max gk_st_max gk_fl_ld gk_fl_cas gk_cas_log2 : gk.

  Ltac ok := repeat (first [ apply ok_ret | apply ok_emit
                           | apply ok_act; [solve [auto with gk | unfold a_gst, a_gld, a_sync, a_rld, a_rst, a_ld_seg, a_ld_auxlist, a_faa_refs, a_st_refs, a_st_flnext; auto with gk]|intros ?] ]).

  Lemma ok_protect f t s l : okp (protect f t s l).
  Proof. induction f as [|f IH]; cbn [protect]; ok. destruct (veqb _ _); [ok|exact IH]. Qed.
  Lemma ok_assign_guard t s : okp (assign_guard t s). Proof. unfold assign_guard; ok. Qed.
  Lemma ok_copy_guard t d s : okp (copy_guard t d s). Proof. unfold copy_guard, assign_guard; ok. Qed.
  Lemma ok_retire t : okp (retire t). Proof. unfold retire; ok. Qed.
  Lemma ok_free_guards t gs : forall fr, okp (free_guards t gs fr).
  Proof. induction gs as [|s r IH]; intros fr; cbn [free_guards]; ok. apply IH. Qed.

  Lemma ok_search t g0 g1 g2 hd k : forall f st, okp (search f t g0 g1 g2 hd k st).
  Proof.
    induction f as [|f IH]; intros st; cbn [search]; [ok|].
    destruct st as [[pPrev pCur]|].
    - destruct (Nat.eqb (vptr pCur) 0); [ok|]. apply okp_bind; [apply ok_protect|].
      intros [pNext|]; [|ok]. ok.
      destruct (negb _); [apply IH|]. destruct (vmark pNext).
      + ok. destruct (vmark _); [|apply IH]. apply okp_bind; [apply ok_retire|]. intros _.
        apply okp_bind; [apply ok_copy_guard|]. intros _. apply IH.
      + destruct (Z.leb k (vkey pCur)); [ok|]. apply okp_bind; [apply ok_copy_guard|]. intros _.
        apply okp_bind; [apply ok_copy_guard|]. intros _. apply IH.
    - apply okp_bind; [apply ok_protect|]. intros [v|]; [apply IH|ok].
  Qed.

  Lemma ok_link_node own k p : okp (link_node own k p).
  Proof. unfold link_node. destruct own; ok; destruct (vmark _); ok. Qed.
  Lemma ok_unlink_node t p : okp (unlink_node t p).
  Proof.
    unfold unlink_node. ok. destruct (vmark _); [|ok]. ok. destruct (vmark _); [|ok].
    apply okp_bind; [apply ok_retire|]. intros _. ok.
  Qed.

  Lemma ok_insert_loop sf t g0 g1 g2 hd k : forall f own, okp (insert_loop f sf t g0 g1 g2 hd k own).
  Proof.
    induction f as [|f IH]; intros own; cbn [insert_loop]; [ok|].
    apply okp_bind; [apply ok_search|]. intros [[[|] p]|]; try (solve [ok]).
    apply okp_bind; [apply ok_link_node|]. intros [b n]. cbn [fst snd]. destruct b; [ok|apply IH].
  Qed.
  Lemma ok_erase_loop sf t g0 g1 g2 hd k : forall f, okp (erase_loop f sf t g0 g1 g2 hd k).
  Proof.
    induction f as [|f IH]; cbn [erase_loop]; [ok|].
    apply okp_bind; [apply ok_search|]. intros [[[|] p]|]; try (solve [ok]).
    apply okp_bind; [apply ok_unlink_node|]. intros [|]; [ok|apply IH].
  Qed.

  Lemma ok_list_insert f t site aux k own fr : okp (list_insert f t site aux k own fr).
  Proof.
    unfold list_insert. destruct (alloc3 fr) as [[[g0 g1] g2] fr1].
    apply okp_bind; [apply ok_insert_loop|]. intros [b|]; [|ok]. apply okp_bind; [apply ok_free_guards|]. intros; ok.
  Qed.
  Lemma ok_list_erase f t site aux k fr : okp (list_erase f t site aux k fr).
  Proof.
    unfold list_erase. destruct (alloc3 fr) as [[[g0 g1] g2] fr1].
    apply okp_bind; [apply ok_erase_loop|]. intros [b|]; [|ok]. apply okp_bind; [apply ok_free_guards|]. intros; ok.
  Qed.
  Lemma ok_list_find f t site aux k fr : okp (list_find f t site aux k fr).
  Proof.
    unfold list_find. destruct (alloc3 fr) as [[[g0 g1] g2] fr1].
    apply okp_bind; [apply ok_search|]. intros [[b p]|]; [|ok]. apply okp_bind; [apply ok_free_guards|]. intros; ok.
  Qed.
  Lemma ok_bucket b : okp (bucket b). Proof. unfold bucket; ok. Qed.
  Lemma ok_set_bucket b n : okp (set_bucket b n). Proof. unfold set_bucket; ok. Qed.
  Lemma ok_wait_bucket b : forall f, okp (wait_bucket f b).
  Proof. induction f as [|f IH]; cbn [wait_bucket]; [ok|]. apply okp_bind; [apply ok_bucket|]. intros p. destruct (Nat.eqb p 0); [exact IH|ok]. Qed.
  Lemma ok_fl_put f n : okp (fl_put f n).
  Proof.
    unfold fl_put. ok. generalize (vptr v0). induction f as [|f IH]; intros hp; cbn [fl_put_loop]; ok.
    destruct (vmark _); [ok|]. ok. apply IH.
  Qed.
  Lemma ok_inc_item_count : okp (inc_item_count cap).
  Proof.
    unfold inc_item_count. ok. destruct (_ || _); [ok|]. ok. destruct (Z.ltb _ _); [|ok]. destruct (Z.ltb _ _); ok.
  Qed.

  Lemma ok_init_bucket t : forall f depth b fr, okp (init_bucket cap f t depth b fr).
  Proof.
    induction f as [|f IH]; intros depth b fr; cbn [init_bucket]; [ok|].
    apply okp_bind; [apply ok_bucket|]. intros pp.
    apply okp_bind; [destruct (Nat.eqb pp 0); [apply IH|ok]|]. intros [[pParent fr1]|]; [|ok].
    apply okp_bind; [apply ok_bucket|]. intros pb. destruct (negb _); [ok|]. ok.
    destruct (Z.ltb _ _); [|ok]. ok. destruct (Z.ltb _ _); [|ok]. ok.
    apply okp_bind; [apply ok_list_insert|]. intros [[[|] fr2]|]; [| |ok].
    - apply okp_bind; [apply ok_set_bucket|]. intros _. ok.
    - apply okp_bind; [apply ok_fl_put|]. intros [u|]; [|ok].
      apply okp_bind; [apply ok_wait_bucket|]. intros [p|]; ok.
  Qed.

  Lemma ok_get_bucket t f h fr : okp (get_bucket cap f t h fr).
  Proof.
    unfold get_bucket. apply ok_act; [auto with gk|]. intros v.
    apply okp_bind; [apply ok_bucket|]. intros p. destruct (Nat.eqb p 0); [apply ok_init_bucket|ok].
  Qed.

  Lemma ok_run_op t f o fr : okp (run_op cap hs f t o fr).
  Proof.
    unfold run_op. destruct o as [|code [|k [|x r]]]; try (solve [ok]). apply ok_emit.
    apply okp_bind; [apply ok_get_bucket|]. intros [[pHead fr1]|]; [|unfold give_up; ok].
    destruct (Z.eqb code 1).
    - apply okp_bind; [apply ok_list_insert|]. intros [[[|] fr2]|]; try (solve [unfold give_up; ok]).
      apply okp_bind; [apply ok_inc_item_count|]. intros _. ok.
    - destruct (Z.eqb code 7).
      + apply okp_bind; [apply ok_list_erase|]. intros [[[|] fr2]|]; unfold give_up; ok.
      + apply okp_bind; [apply ok_list_find|]. intros [[b fr2]|]; unfold give_up; ok.
  Qed.

  Lemma ok_run_ops t f : forall os fr, okp (run_ops cap hs f t os fr).
  Proof.
    induction os as [|o r IH]; intros fr; cbn [run_ops]; [ok|].
    apply okp_bind; [apply ok_run_op|]. intros [fr'|]; [apply IH|ok].
  Qed.

  Lemma ok_thread t f os : okp (thread_prog cap hs f t os).
  Proof. unfold thread_prog. apply ok_act; [auto with gk|]. intros _. apply ok_run_ops. Qed.

  Lemma all_okp_init f : forall ths t0, all_okp (thread_progs cap hs f t0 ths).
  Proof.
    induction ths as [|os r IH]; intros t0 t p H; cbn [thread_progs] in H.
    - destruct t; discriminate.
    - destruct t as [|t]; cbn in H; [inversion H; subst; apply ok_thread|eapply IH; exact H].
  Qed.

  Lemma reach_all_okp f ths c : Conc.reach (init_cfg cap hs f ths) c -> all_okp (Conc.threads c).
  Proof.
    intros Hr. induction Hr as [|c t c' Hr IH Hs]; [apply all_okp_init|]. exact (proj2 (@step_okp c t c' IH Hs)).
  Qed.

  (** for every schedule, every program (no hypothesis on keys or capacity): a step either leaves m_nBucketCountLog2
      alone or increments it by one and changes nothing of the list, the allocator, the bucket table, the item counter *)
  Theorem split_growth_step f ths c t c' :
    Conc.reach (init_cfg cap hs f ths) c -> Conc.step_cfg c t = Some c' -> grow_rel (Conc.shared c) (Conc.shared c').
  Proof. intros Hr Hs. exact (proj1 (@step_okp c t c' (reach_all_okp Hr) Hs)). Qed.
End Progs.
