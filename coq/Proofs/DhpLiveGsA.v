(** * DhpLiveGsA: C02, second sentence for DHP -- the cell-level theorem without the free-list hypothesis.
      [dhp_guarded_ptr_live_cell] (DhpLiveE) carried [flbad (hist (Conc.trace conf)) = false]; that is a theorem now
      ([dhp_flbad_false], DhpFlThm) under the side conditions of the faithful configuration of the current code
      (block capacity >= 4, [c_old = false], [c_oldtail = false]) and fewer than 2^31 - 3 threads. *)
From Coq Require Import ZArith NArith List String Bool Lia PeanoNat.
From LV Require Import Base.Conc Base.Events Model.DhpLang Model.Dhp Proofs.DhpBase Proofs.DhpHist
  Proofs.DhpProofsC02 Proofs.DhpLiveA Proofs.DhpLiveB Proofs.DhpLiveD Proofs.DhpLiveE Proofs.DhpFlThm.
Import ListNotations.
Local Open Scope string_scope.
Local Open Scope list_scope.

Theorem dhp_guarded_ptr_live_cell_noflb : forall fuel c ths conf,
  Conc.reach (init_cfg fuel c ths) conf ->
  4 <= c_RB c -> c_old c = false -> c_oldtail c = false ->
  (Z.of_nat (List.length ths) + 3 < 2147483648)%Z ->
  scan_frees_older (Conc.trace conf) ->
  forall p, p <> 0 -> publish_once (Conc.trace conf) p -> retire_after_unlink (Conc.trace conf) p ->
  forall v t j k, nth_error (Conc.trace conf) v = Some (t, EvCli "ret" [zn p]) ->
    lop (sfold (firstn v (Conc.trace conf))) t = [7%Z; zn j; zn k] ->
  forall g0 s x, lsl (sfold (firstn v (Conc.trace conf))) t = Some (g0, s, x) ->
  forall d u kl, v < d -> nth_error (Conc.trace conf) d = Some (u, ev_dispose p) ->
    live c (hist (firstn d (Conc.trace conf))) s kl -> kl < g0 ->
    (forall i te, g0 < i < d -> nth_error (Conc.trace conf) i = Some te -> ~ is_slot_of s (snd te)) ->
  False.
Proof.
  intros fuel c ths conf Hr H4 Ho Ht Hn. apply (dhp_guarded_ptr_live_cell fuel c ths conf Hr).
  exact (dhp_flbad_false fuel c ths conf H4 Ho Ht Hn Hr).
Qed.
