(** * MichaelListFromActs: the invariant and the proof rules for the MichaelList model with anchored searches.

    Invariant [InvA] = the invariant [Inv2] of the full-linearizability development of C13 (structure [IS] +
    LP-annotated trace [IL2]) + the ANCHOR invariant [J]: an allocated node whose key is an anchor key
    ([ak k = true]) is never marked.  [J] talks about the shared state only, therefore every proof rule of the [Inv2]
    development carries over without being re-proved: a rule for one atomic access, used with the trivial
    continuation, is a one-step specification ([step2]); [safeA_act] turns it into the rule for [InvA] given that
    the access preserves [J].  The only access that can break [J] is the marking CAS of unlink_node; it preserves
    [J] because the thread knows ([FPub c kc]) that the key of the node is not an anchor key.

    New rule (what an anchored search needs): a load of the next cell of a published node with an anchor key
    returns an unmarked value ([safeA_ld], premise [cell_anchor]). *)
From Coq Require Import ZArith List String Bool Lia PeanoNat.
From LV Require Import Base.Conc Base.Events Base.Lin Spec.Specs Proofs.LinProofs.
From LV Require Import Model.MichaelList Proofs.MichaelListBase Proofs.MichaelListInv Proofs.MichaelListSteps
                       Proofs.MichaelListLin Proofs.MichaelListActs Proofs.MichaelListProofs Proofs.MichaelListFullInv
                       Proofs.MichaelListFullActs.
Import ListNotations.
Local Open Scope Z_scope.

Section Anchors.
  Variable ak : Z -> bool.

  (** an allocated node with an anchor key is unmarked *)
  Definition J (g : G) : Prop :=
    forall n, (1 <= n <= nalloc g)%nat -> ak (nkey (heap g n)) = true -> nmark (heap g n) = false.

  Definition InvA (g : G) (a : aux2) (tr : list (nat * ev)) : Prop := Inv2 g a tr /\ J g.

  Notation safe2 := (@Conc.safe G V ev aux2 lview2 view2 Inv2).
  Notation safeA := (@Conc.safe G V ev aux2 lview2 view2 InvA).

  (** ** from a rule of the [Inv2] development to the rule for [InvA] *)
  Lemma safeA_act {R} t (f : act) (k : V -> prog R) l (P : V -> lview2 -> Prop) (E : V -> Prop) Q :
    safe2 t (Act f (fun v => Ret v)) l P ->
    (forall g a tr, Inv2 g a tr -> view2 a t = l -> J g -> J (fst (fst (f g))) /\ E (snd (fst (f g)))) ->
    (forall v l', P v l' -> E v -> safeA t (k v) l' Q) ->
    safeA t (Act f k) l Q.
  Proof.
    intros Hstep HJ Hk. cbn [Conc.safe] in *. intros g a tr [HI Hj] Hv.
    destruct (Hstep g a tr HI Hv) as (a' & HI' & Hfr & HP).
    destruct (HJ g a tr HI Hv Hj) as [Hj' He].
    exists a'. split; [split; assumption|]. split; [exact Hfr|]. apply Hk; assumption.
  Qed.

  Lemma safeA_emit {R} t es (k : prog R) l (P : unit -> lview2 -> Prop) Q :
    safe2 t (Emit es (Ret tt)) l P ->
    (forall l', P tt l' -> safeA t k l' Q) ->
    safeA t (Emit es k) l Q.
  Proof.
    intros Hstep Hk. cbn [Conc.safe] in *. intros g a tr [HI Hj] Hv.
    destruct (Hstep g a tr HI Hv) as (a' & HI' & Hfr & HP).
    exists a'. split; [split; assumption|]. split; [exact Hfr|]. apply Hk; assumption.
  Qed.

  (** ** [J] and the atomic accesses *)
  Lemma J_same g g' : (forall x, heap g' x = heap g x) -> nalloc g' = nalloc g -> J g -> J g'.
  Proof. intros H1 H2 Hj n Hn Hk. rewrite H1 in *. rewrite H2 in Hn. apply Hj; assumption. Qed.

  (** a store / CAS that leaves the cell unmarked *)
  Lemma J_wr_unmarked g l p : J g -> J (wr g l p false).
  Proof.
    intros Hj n Hn Hk. cbn [nalloc wr] in Hn. rewrite nkey_wr in Hk.
    destruct (Nat.eq_dec n l) as [->|Hnl]; [rewrite heap_wr_same; reflexivity|].
    rewrite heap_wr_other by exact Hnl. apply Hj; assumption.
  Qed.

  Lemma J_wr_marked g c p : ak (nkey (heap g c)) = false -> J g -> J (wr g c p true).
  Proof.
    intros Hc Hj n Hn Hk. cbn [nalloc wr] in Hn. rewrite nkey_wr in Hk.
    destruct (Nat.eq_dec n c) as [->|Hnl]; [congruence|].
    rewrite heap_wr_other by exact Hnl. apply Hj; assumption.
  Qed.

  Lemma J_alloc g kk p : J g -> J (alloc_g g kk p).
  Proof.
    intros Hj n Hn Hk. unfold alloc_g in *; cbn [heap nalloc] in *.
    destruct (Nat.eq_dec n (S (nalloc g))) as [->|Hne].
    - rewrite upd_heap_same. reflexivity.
    - rewrite upd_heap_other in * by exact Hne. apply Hj; [lia|exact Hk].
  Qed.

  Lemma J_cas_unmarked g l ep np : J g -> J (fst (fst (a_cas l ep np false g))).
  Proof.
    intros Hj. unfold a_cas, rd. destruct (Nat.eqb (nnext (heap g l)) ep && negb (nmark (heap g l))); cbn [fst]; auto.
    apply J_wr_unmarked. exact Hj.
  Qed.

  (** ** the rules *)
  Lemma safeA_neutral {R} t f v (k : V -> prog R) lv c Q :
    neutral f v -> safeA t (k v) (lv, c) Q -> safeA t (Act f k) (lv, c) Q.
  Proof.
    intros Hf Hk. eapply safeA_act with (P := fun w l' => w = v /\ l' = (lv, c)) (E := fun _ => True).
    - apply safe2_neutral with (v := v); [exact Hf|]. cbn [Conc.safe]. auto.
    - intros g a tr _ _ Hj. split; [|exact I]. destruct (Hf g) as (g' & kd & ob & Eq & H1 & H2). rewrite Eq. cbn [fst].
      eapply J_same; eauto.
    - intros w l' [-> ->] _. exact Hk.
  Qed.

  (** the cell is the next field of an anchor: a published node with an anchor key *)
  Definition cell_anchor (F : list fact) (l : nat) : Prop := exists kl, In (FPub l kl) F /\ ak kl = true.

  Lemma safeA_ld {R} t l ck kp o (k : V -> prog R) lv c Q :
    cell_key (lv_facts lv) l ck -> known_ptr (lv_facts lv) kp -> open_read (lv_st lv) o ->
    (forall v, (l = 0%nat \/ cell_anchor (lv_facts lv) l -> vmark v = false) ->
               safeA t (k v) (mkLV (newfacts l v ++ lv_facts lv) (lv_own lv)
                                   (obs_st o (obs_rule ck kp (op_key o) v) (lv_st lv)), c) Q) ->
    safeA t (Act (a_ld l) k) (lv, c) Q.
  Proof.
    intros Hck Hkp Hop Hk.
    eapply safeA_act with
      (P := fun v l' => (l = 0%nat -> vmark v = false) /\
                        l' = (mkLV (newfacts l v ++ lv_facts lv) (lv_own lv) (obs_st o (obs_rule ck kp (op_key o) v) (lv_st lv)), c))
      (E := fun v => cell_anchor (lv_facts lv) l -> vmark v = false).
    - eapply safe2_ld; [exact Hck|exact Hkp|exact Hop|]. intros v Hv. cbn [Conc.safe]. auto.
    - intros g a tr (L & HS & HL) Hv Hj. unfold a_ld, rd. cbn [fst snd]. split; [exact Hj|].
      intros (kl & Hkl & Hak). cbn [vmark].
      destruct (view2_split _ _ _ _ Hv) as [Hv1 _].
      pose proof (fact_in _ _ _ _ _ _ HS Hv1 Hkl) as (_ & Hp & Hkey). cbn [fact_ok] in *.
      apply Hj; [apply (is_pub _ _ _ HS l Hp)|congruence].
    - intros v l' [H0 ->] He. apply Hk. intros [Hz|Ha]; auto.
  Qed.

  Lemma safeA_cas_unlink {R} t m c nx (k : V -> prog R) lv cd Q :
    ppub (lv_facts lv) m -> In (FFrozen c nx) (lv_facts lv) ->
    safeA t (k (vok true)) (lv, cd) Q -> safeA t (k (vok false)) (lv, cd) Q ->
    safeA t (Act (a_cas m c nx false) k) (lv, cd) Q.
  Proof.
    intros Hm Hfz Hk1 Hk0.
    eapply safeA_act with (P := fun v l' => (v = vok true \/ v = vok false) /\ l' = (lv, cd)) (E := fun _ => True).
    - apply safe2_cas_unlink; auto; cbn [Conc.safe]; auto.
    - intros g a tr _ _ Hj. split; [apply J_cas_unmarked; exact Hj|exact I].
    - intros v l' [[-> | ->] ->] _; assumption.
  Qed.

  Lemma safeA_cas_help {R} t m c nx o (k : V -> prog R) lv cd Q :
    ppub (lv_facts lv) m -> klt (lv_facts lv) m (op_key o) -> In (FFrozen c nx) (lv_facts lv) -> open_read (lv_st lv) o ->
    safeA t (k (vok true)) (mkLV (lv_facts lv) (lv_own lv) (if Nat.eqb nx 0 then lin_read o false (lv_st lv) else lv_st lv), cd) Q ->
    safeA t (k (vok false)) (lv, cd) Q ->
    safeA t (Act (a_cas m c nx false) k) (lv, cd) Q.
  Proof.
    intros Hm Hkl Hfz Hop Hk1 Hk0.
    eapply safeA_act with
      (P := fun v l' => (v = vok true /\ l' = (mkLV (lv_facts lv) (lv_own lv) (if Nat.eqb nx 0 then lin_read o false (lv_st lv) else lv_st lv), cd))
                        \/ (v = vok false /\ l' = (lv, cd))) (E := fun _ => True).
    - eapply safe2_cas_help with (o := o); auto; cbn [Conc.safe]; auto.
    - intros g a tr _ _ Hj. split; [apply J_cas_unmarked; exact Hj|exact I].
    - intros v l' [[-> ->]|[-> ->]] _; assumption.
  Qed.

  (** the marking CAS: the key of the node is not an anchor key *)
  Lemma safeA_cas_mark {R} t c kc nx (k : V -> prog R) lv cd Q :
    In (FPub c kc) (lv_facts lv) -> ak kc = false -> open_read (lv_st lv) (SErase kc) ->
    safeA t (k (vok true)) (mkLV (FFrozen c nx :: lv_facts lv) (lv_own lv) (@Linearized SetSpec (SErase kc) (RBool true)), cd) Q ->
    safeA t (k (vok false)) (lv, cd) Q ->
    safeA t (Act (a_cas c nx nx true) k) (lv, cd) Q.
  Proof.
    intros Hc Hak Hst Hk1 Hk0.
    eapply safeA_act with
      (P := fun v l' => (v = vok true /\ l' = (mkLV (FFrozen c nx :: lv_facts lv) (lv_own lv) (@Linearized SetSpec (SErase kc) (RBool true)), cd))
                        \/ (v = vok false /\ l' = (lv, cd))) (E := fun _ => True).
    - eapply safe2_cas_mark; [exact Hc|exact Hst|..]; cbn [Conc.safe]; auto.
    - intros g a tr (L & HS & HL) Hv Hj. split; [|exact I].
      destruct (view2_split _ _ _ _ Hv) as [Hv1 _].
      pose proof (fact_in _ _ _ _ _ _ HS Hv1 Hc) as (_ & _ & Hkey). cbn [fact_ok] in *.
      unfold a_cas, rd. destruct (Nat.eqb (nnext (heap g c)) nx && negb (nmark (heap g c))); cbn [fst]; auto.
      apply J_wr_marked; [congruence|exact Hj].
    - intros v l' [[-> ->]|[-> ->]] _; assumption.
  Qed.

  Lemma safeA_cas_link {R} t m pc n kk o (k : V -> prog R) lv cd Q :
    ppub (lv_facts lv) m -> klt (lv_facts lv) m kk ->
    (pc = 0%nat \/ exists kc, In (FPub pc kc) (lv_facts lv) /\ kk < kc) ->
    lv_own lv = Some (n, kk, pc) -> open_read (lv_st lv) o -> ins_op o kk ->
    safeA t (k (vok true)) (mkLV (FPub n kk :: lv_facts lv) None (@Linearized SetSpec o (ins_res o)), cd) Q ->
    safeA t (k (vok false)) (lv, cd) Q ->
    safeA t (Act (a_cas m pc n false) k) (lv, cd) Q.
  Proof.
    intros Hm Hkm Hkc Hown Hst Hop Hk1 Hk0.
    eapply safeA_act with
      (P := fun v l' => (v = vok true /\ l' = (mkLV (FPub n kk :: lv_facts lv) None (@Linearized SetSpec o (ins_res o)), cd))
                        \/ (v = vok false /\ l' = (lv, cd))) (E := fun _ => True).
    - eapply safe2_cas_link with (kk := kk) (o := o); eauto; cbn [Conc.safe]; auto.
    - intros g a tr _ _ Hj. split; [apply J_cas_unmarked; exact Hj|exact I].
    - intros v l' [[-> ->]|[-> ->]] _; assumption.
  Qed.

  Lemma safeA_alloc_st {R} t kk p (k : V -> prog R) lv cd Q :
    (forall n, safeA t (k (mkV n false kk)) (mkLV (lv_facts lv) (Some (n, kk, p)) (lv_st lv), cd) Q) ->
    safeA t (Act (a_alloc_st kk p) k) (lv, cd) Q.
  Proof.
    intros Hk.
    eapply safeA_act with
      (P := fun v l' => exists n, v = mkV n false kk /\ l' = (mkLV (lv_facts lv) (Some (n, kk, p)) (lv_st lv), cd)) (E := fun _ => True).
    - apply safe2_alloc_st. intros n. cbn [Conc.safe]. eauto.
    - intros g a tr _ _ Hj. split; [|exact I]. unfold a_alloc_st. cbn [fst].
      change (mkG (upd_heap (heap g) (S (nalloc g)) (mkNode kk p false)) (S (nalloc g)) (count g)) with (alloc_g g kk p).
      apply J_alloc. exact Hj.
    - intros v l' (n & -> & ->) _. apply Hk.
  Qed.

  Lemma safeA_st_next {R} t n kk nx p (k : V -> prog R) lv cd Q :
    lv_own lv = Some (n, kk, nx) ->
    (forall v, vptr v = n -> safeA t (k v) (mkLV (lv_facts lv) (Some (n, kk, p)) (lv_st lv), cd) Q) ->
    safeA t (Act (a_st_next n p) k) (lv, cd) Q.
  Proof.
    intros Hown Hk.
    eapply safeA_act with
      (P := fun v l' => vptr v = n /\ l' = (mkLV (lv_facts lv) (Some (n, kk, p)) (lv_st lv), cd)) (E := fun _ => True).
    - eapply safe2_st_next; [exact Hown|]. intros v Hv. cbn [Conc.safe]. auto.
    - intros g a tr _ _ Hj. split; [|exact I]. unfold a_st_next, LNext. cbn [fst]. apply J_wr_unmarked. exact Hj.
    - intros v l' [Hv ->] _. apply Hk. exact Hv.
  Qed.

  (** ** client events *)
  Lemma safeA_emit_other {R} t name args (k : prog R) lv cd Q :
    String.eqb name "inv" = false -> String.eqb name "ret" = false ->
    safeA t k (lv, cd) Q -> safeA t (Emit [EvCli name args] k) (lv, cd) Q.
  Proof.
    intros N1 N2 Hk. eapply safeA_emit with (P := fun _ l' => l' = (lv, cd)).
    - apply safe2_emit_other; auto. cbn [Conc.safe]. reflexivity.
    - intros l' ->. exact Hk.
  Qed.

  Lemma safeA_emit_inv {R} t c kk x v (k : prog R) lv cd Q :
    lv_st lv = @Idle SetSpec ->
    safeA t k (mkLV (lv_facts lv) (lv_own lv) (@Pending SetSpec (spec_op c kk x)), c) Q ->
    safeA t (Emit [EvCli "inv" [c; kk; x; v]] k) (lv, cd) Q.
  Proof.
    intros Hi Hk. eapply safeA_emit with (P := fun _ l' => l' = (mkLV (lv_facts lv) (lv_own lv) (@Pending SetSpec (spec_op c kk x)), c)).
    - apply safe2_emit_inv; auto. cbn [Conc.safe]. reflexivity.
    - intros l' ->. exact Hk.
  Qed.

  Lemma safeA_emit_ret {R} t o r a1 b1 (k : prog R) lv cd Q :
    lv_st lv = @Linearized SetSpec o r -> res_of o a1 b1 = r -> Z.eqb cd 6 && Z.eqb a1 0 = false ->
    safeA t k (mkLV (lv_facts lv) (lv_own lv) (@Idle SetSpec), cd) Q ->
    safeA t (Emit [EvCli "ret" [a1; b1]] k) (lv, cd) Q.
  Proof.
    intros Hs Hr Hc Hk. eapply safeA_emit with (P := fun _ l' => l' = (mkLV (lv_facts lv) (lv_own lv) (@Idle SetSpec), cd)).
    - eapply safe2_emit_ret; eauto. cbn [Conc.safe]. reflexivity.
    - intros l' ->. exact Hk.
  Qed.

  Lemma safeA_emit_ret_drop {R} t o a1 b1 (k : prog R) lv cd Q :
    open_read (lv_st lv) o -> Z.eqb cd 6 && Z.eqb a1 0 = true ->
    safeA t k (mkLV (lv_facts lv) (lv_own lv) (@Idle SetSpec), cd) Q ->
    safeA t (Emit [EvCli "ret" [a1; b1]] k) (lv, cd) Q.
  Proof.
    intros Hs Hc Hk. eapply safeA_emit with (P := fun _ l' => l' = (mkLV (lv_facts lv) (lv_own lv) (@Idle SetSpec), cd)).
    - eapply safe2_emit_ret_drop; eauto. cbn [Conc.safe]. reflexivity.
    - intros l' ->. exact Hk.
  Qed.
End Anchors.
