(** * DhpStepsA: how single nodes of the model programs act on the C02 invariant.
      - events that the history summary ignores, accesses that touch nothing the invariant looks at: the
        generic rules [dsafe_act_quiet] / [dsafe_loc_quiet] / [dsafe_emit_quiet];
      - a store to a hazard cell by anybody ([dsafe_st_slot]). *)
From Coq Require Import ZArith NArith List String Bool Lia PeanoNat.
From LV Require Import Base.Conc Base.Events Model.DhpLang Model.Dhp Proofs.DhpBase Proofs.DhpHist
  Proofs.DhpLangProofs Proofs.DhpInvA.
Import ListNotations.

(** ** events *)
Definition qev (e : ev) : Prop :=
  match classify e with
  | HOther | HNew _ _ | HAlloc FRt _ | HFree FRt _ => True
  | _ => False
  end.

(** the history summary restricted to what the C02 invariant reads is unchanged *)
Definition hQ (h h' : H) : Prop :=
  (forall s, slotv h' s = slotv h s) /\ (forall s, lastw h' s = lastw h s) /\ (forall r, att h' r = att h r) /\
  (forall r, linked h' r = linked h r) /\ (forall t, scan h' t = scan h t) /\ freeh h' FHp = freeh h FHp /\
  hlen h <= hlen h'.

Lemma hQ_refl h : hQ h h.
Proof. unfold hQ. repeat split; auto. Qed.

Lemma hQ_trans h1 h2 h3 : hQ h1 h2 -> hQ h2 h3 -> hQ h1 h3.
Proof.
  intros (A1&A2&A3&A4&A5&A6&A7) (B1&B2&B3&B4&B5&B6&B7). unfold hQ.
  split; [intros; now rewrite B1, A1|]. split; [intros; now rewrite B2, A2|]. split; [intros; now rewrite B3, A3|].
  split; [intros; now rewrite B4, A4|]. split; [intros; now rewrite B5, A5|]. split; [congruence|lia].
Qed.

Lemma hQ_hA h h' : hQ h h' -> hA h h'.
Proof. intros (A1&A2&A3&A4&A5&A6&A7). unfold hA. split; [intros s; left; auto|]. repeat split; auto. Qed.
Lemma hQ_scan h h' : hQ h h' -> forall t, scan h' t = scan h t.
Proof. intros (A1&A2&A3&A4&A5&A6&A7). exact A5. Qed.
Lemma hQ_freeh h h' : hQ h h' -> freeh h' FHp = freeh h FHp.
Proof. intros (A1&A2&A3&A4&A5&A6&A7). exact A6. Qed.

Lemma hQ_hstep_quiet h t e : qev e -> hQ h (hstep h (t, e)).
Proof.
  unfold qev, hstep. cbn [snd fst]. destruct (classify e) as [| | | |f b|f b|f b| | | |]; try contradiction; intros Hq.
  - destruct f; [contradiction|]. destruct (existsb (Nat.eqb b) (freeh h FRt)); unfold hQ; cbn; repeat split; auto.
  - unfold hQ; cbn; repeat split; auto.
  - destruct f; [contradiction|]. unfold hQ; cbn; repeat split; auto.
  - unfold hQ; cbn; repeat split; auto.
Qed.

Lemma hQ_fold_quiet t es : forall h, Forall qev es -> hQ h (fold_left hstep (Conc.tag t es) h).
Proof.
  induction es as [|e es IH]; intros h Hq; cbn; [apply hQ_refl|].
  inversion Hq; subst. eapply hQ_trans; [apply (hQ_hstep_quiet h t e); auto|]. apply IH; auto.
Qed.

Lemma qev_acc k o ok : qev (EvAcc k o ok).
Proof. exact I. Qed.

(** ** the trace property under new events *)
Lemma app_split_left {A} (tr es tr1 tr2 : list A) (x : A) :
  tr ++ es = tr1 ++ x :: tr2 -> ~ In x es -> exists tr2', tr = tr1 ++ x :: tr2'.
Proof.
  revert tr; induction tr1 as [|z tr1 IH]; intros tr E Hn.
  - destruct tr as [|y tr]; cbn in E.
    + exfalso. apply Hn. rewrite E. now left.
    + inversion E; subst. now exists tr.
  - destruct tr as [|y tr]; cbn in E.
    + exfalso. apply Hn. rewrite E. right. apply in_or_app. right. now left.
    + inversion E; subst. destruct (IH tr H1 Hn) as (tr2' & ->). now exists tr2'.
Qed.

Lemma ndwg_app c tr es : no_dispose_while_guarded c tr -> (forall t p, ~ In (t, ev_dispose p) es) ->
  no_dispose_while_guarded c (tr ++ es).
Proof.
  intros H Hn tr1 t p tr2 E Hp s0 Hs s. destruct (app_split_left _ _ _ _ _ E (Hn t p)) as (tr2' & E').
  eapply H; eauto.
Qed.

Lemma not_dispose_tag t es : (forall e, In e es -> forall p, e <> ev_dispose p) -> forall t' p, ~ In (t', ev_dispose p) (Conc.tag t es).
Proof.
  intros H t' p Hin. unfold Conc.tag in Hin. apply in_map_iff in Hin. destruct Hin as (e & E & He).
  inversion E; subst. eapply H; eauto.
Qed.

Lemma qev_not_dispose e : qev e -> forall p, e <> ev_dispose p.
Proof. intros Hq p ->. unfold qev in Hq. rewrite classify_dispose in Hq. exact Hq. Qed.

(** ** accesses that leave everything the invariant reads alone *)
Lemma grec_upd_rec_any g r f r' :
  grec (upd_rec g r f) r' = if Nat.eqb r' r && Nat.ltb r (List.length (recs g)) then f (grec g r) else grec g r'.
Proof.
  destruct (Nat.eqb_spec r' r) as [->|N]; cbn [andb].
  - destruct (Nat.ltb_spec r (List.length (recs g))) as [L|L].
    + now apply grec_upd_rec_same.
    + unfold grec, upd_rec. cbn. now rewrite upd_nth_oob.
  - apply grec_upd_rec_other. congruence.
Qed.

Lemma ggb_upd_gb_any g b f b' :
  ggb (upd_gb g b f) b' = if Nat.eqb b' b && Nat.ltb b (List.length (gbs g)) then f (ggb g b) else ggb g b'.
Proof.
  destruct (Nat.eqb_spec b' b) as [->|N]; cbn [andb].
  - destruct (Nat.ltb_spec b (List.length (gbs g))) as [L|L].
    + unfold ggb, upd_gb. cbn [gbs set_gbs]. now apply nth_upd_nth_same.
    + unfold ggb, upd_gb. cbn [gbs set_gbs]. now rewrite upd_nth_oob.
  - unfold ggb, upd_gb. cbn [gbs set_gbs]. apply nth_upd_nth_other. congruence.
Qed.

Lemma piA_upd_rec g r f :
  (forall x, r_next (f x) = r_next x /\ r_tid (f x) = r_tid x /\ List.length (r_slots (f x)) = List.length (r_slots x) /\ r_ext (f x) = r_ext x) ->
  piA g (upd_rec g r f).
Proof.
  intros Hf. unfold piA. split; [reflexivity|]. split; [unfold upd_rec; cbn; apply upd_nth_length|]. split; [reflexivity|].
  split; [|intros b; split; reflexivity].
  intros r'. rewrite grec_upd_rec_any. destruct (Nat.eqb r' r && Nat.ltb r (List.length (recs g))) eqn:E; [|repeat split; reflexivity].
  apply andb_true_iff in E. destruct E as (E&_). apply Nat.eqb_eq in E. subst r'. apply Hf.
Qed.

Lemma piA_upd_gb g b f :
  (forall y, gb_nextb (f y) = gb_nextb y /\ List.length (gb_slots (f y)) = List.length (gb_slots y)) -> piA g (upd_gb g b f).
Proof.
  intros Hf. unfold piA. split; [reflexivity|]. split; [reflexivity|]. split; [unfold upd_gb; cbn; apply upd_nth_length|].
  split; [intros r; repeat split; reflexivity|].
  intros b'. rewrite ggb_upd_gb_any. destruct (Nat.eqb b' b && Nat.ltb b (List.length (gbs g))) eqn:E; [|split; reflexivity].
  apply andb_true_iff in E. destruct E as (E&_). apply Nat.eqb_eq in E. subst b'. apply Hf.
Qed.

Lemma piA_upd_rb g b f : piA g (upd_rb g b f).
Proof. unfold piA. repeat split; reflexivity. Qed.

Lemma same_slots_upd_rec g r f : (forall x, r_slots (f x) = r_slots x) -> same_slots g (upd_rec g r f).
Proof.
  intros Hf [r' i|b i]; cbn; [|reflexivity]. rewrite grec_upd_rec_any.
  destruct (Nat.eqb r' r && Nat.ltb r (List.length (recs g))) eqn:E; auto.
  apply andb_true_iff in E. destruct E as (E&_). apply Nat.eqb_eq in E. subst r'. now rewrite Hf.
Qed.

Lemma same_slots_upd_gb g b f : (forall y, gb_slots (f y) = gb_slots y) -> same_slots g (upd_gb g b f).
Proof.
  intros Hf [r' i|b' i]; cbn; [reflexivity|]. rewrite ggb_upd_gb_any.
  destruct (Nat.eqb b' b && Nat.ltb b (List.length (gbs g))) eqn:E; auto.
  apply andb_true_iff in E. destruct E as (E&_). apply Nat.eqb_eq in E. subst b'. now rewrite Hf.
Qed.

Lemma same_slots_upd_rb g b f : same_slots g (upd_rb g b f).
Proof. intros [r i|b' i]; reflexivity. Qed.

Lemma same_slots_refl g : same_slots g g.
Proof. intros s; reflexivity. Qed.

(** a state change the C02 invariant cannot see *)
Definition quietG (g g' : G) : Prop := piA g g' /\ same_slots g g'.

Lemma quietG_refl g : quietG g g.
Proof. split; [apply piA_refl|apply same_slots_refl]. Qed.

Lemma quietG_trans g1 g2 g3 : quietG g1 g2 -> quietG g2 g3 -> quietG g1 g3.
Proof. intros (A1&A2) (B1&B2). split; [eapply piA_trans; eauto|]. intros s. now rewrite B2, A2. Qed.

Section Rules.
  Variable c : cfg.
  Notation dsafeA := (@dsafe G ev AuxA VA viewA (InvA c)).

  Lemma InvA_quiet g g' a tr t es : InvA c g a tr -> quietG g g' -> Forall qev es ->
    InvA c g' a (tr ++ Conc.tag t es).
  Proof.
    intros Hi (P & Hs) Hq Hfl.
    assert (Hfl0 : flbad (hist tr) = false).
    { destruct (flbad (hist tr)) eqn:E; auto. rewrite (flbad_mono tr _ E) in Hfl. discriminate. }
    destruct (Hi Hfl0) as (J & ND). rewrite hist_app.
    pose proof (hQ_fold_quiet t es (hist tr) Hq) as Hh. split.
    - eapply JA_quiet; eauto using hQ_hA, hQ_scan, hQ_freeh. intros s. rewrite Hs. rewrite (ja_slot _ _ _ _ J).
      destruct Hh as (B1&_). now rewrite B1.
    - apply ndwg_app; auto. apply not_dispose_tag. intros e He. apply qev_not_dispose.
      rewrite Forall_forall in Hq. auto.
  Qed.

  (** ** generic rules: nodes the invariant cannot see leave the view alone *)
  Lemma dsafe_act_quiet {X R} t (f : A X) (k : X -> @dprog G ev R) l Q :
    (forall g, quietG g (fst (fst (f g))) /\ Forall qev (snd (f g))) ->
    (forall x, dsafeA t (k x) l Q) -> dsafeA t (DAct f k) l Q.
  Proof.
    intros Hf Hk. cbn [dsafe]. intros g a tr Hi Hv. exists a. destruct (Hf g) as (H1 & H2).
    split; [eapply InvA_quiet; eauto|]. split; [apply frame_refl|]. rewrite Hv. apply Hk.
  Qed.

  Lemma dsafe_loc_quiet {X R} t (f : G -> G * X) (k : X -> @dprog G ev R) l Q :
    (forall g, quietG g (fst (f g))) -> (forall x, dsafeA t (k x) l Q) -> dsafeA t (DLoc f k) l Q.
  Proof.
    intros Hf Hk. cbn [dsafe]. intros g a tr Hi Hv. exists a.
    split; [|split; [apply frame_refl|rewrite Hv; apply Hk]].
    pose proof (InvA_quiet g (fst (f g)) a tr t [] Hi (Hf g) (Forall_nil _)) as K. cbn in K. now rewrite app_nil_r in K.
  Qed.

  Lemma dsafe_emit_quiet {R} t es (k : @dprog G ev R) l Q :
    Forall qev es -> dsafeA t k l Q -> dsafeA t (DEmit es k) l Q.
  Proof.
    intros Hq Hk. cbn [dsafe]. intros g a tr Hi Hv. exists a.
    split; [eapply InvA_quiet; eauto using quietG_refl|]. split; [apply frame_refl|]. now rewrite Hv.
  Qed.

  (** programs made of such nodes only *)
  Fixpoint quietP {R} (p : @dprog G ev R) : Prop :=
    match p with
    | DRet _ => True
    | DEmit es k => Forall qev es /\ quietP k
    | DLoc f k => (forall g, quietG g (fst (f g))) /\ forall x, quietP (k x)
    | DAct f k => (forall g, quietG g (fst (fst (f g))) /\ Forall qev (snd (f g))) /\ forall x, quietP (k x)
    end.

  Lemma quietP_dsafe {R} t (p : @dprog G ev R) l (Q : R -> VA -> Prop) :
    quietP p -> (forall r, Q r l) -> dsafeA t p l Q.
  Proof.
    intros Hp HQ. induction p as [r|es k IH|X f k IH|X f k IH]; cbn [quietP] in Hp.
    - apply HQ.
    - destruct Hp. apply dsafe_emit_quiet; auto.
    - destruct Hp. apply dsafe_loc_quiet; auto.
    - destruct Hp. apply dsafe_act_quiet; auto.
  Qed.

  Lemma quietP_dbind {X Y} (p : @dprog G ev X) (q : X -> @dprog G ev Y) :
    quietP p -> (forall x, quietP (q x)) -> quietP (dbind p q).
  Proof.
    intros Hp Hq. induction p as [r|es k IH|Z f k IH|Z f k IH]; cbn [quietP dbind] in *.
    - apply Hq.
    - destruct Hp. split; auto.
    - destruct Hp. split; auto.
    - destruct Hp. split; auto.
  Qed.

  Lemma quietP_xbind {X Y} (p : P X) (q : X -> P Y) : quietP p -> (forall x, quietP (q x)) -> quietP (xbind p q).
  Proof. intros Hp Hq. unfold xbind. apply quietP_dbind; auto. intros [x|]; [apply Hq|exact I]. Qed.

  Lemma quietP_ret {X} (x : X) : quietP (ret x). Proof. exact I. Qed.
  Lemma quietP_fuel_out {X} : quietP (@fuel_out X).
  Proof. cbn. split; auto. repeat constructor. Qed.
  Lemma quietP_act {X} (f : A X) : (forall g, quietG g (fst (fst (f g))) /\ Forall qev (snd (f g))) -> quietP (act f).
  Proof. intros H. cbn. split; auto. Qed.
  Lemma quietP_loc {X} (f : G -> G * X) : (forall g, quietG g (fst (f g))) -> quietP (loc f).
  Proof. intros H. cbn. split; auto. Qed.
  Lemma quietP_emit es : Forall qev es -> quietP (emit es).
  Proof. intros H. cbn. split; auto. Qed.
End Rules.

(** ** the quiet accesses *)
Lemma quietG_set_hp_head g v : quietG g (set_hp_head g v).
Proof. split; [unfold piA; repeat split; reflexivity|intros []; reflexivity]. Qed.
Lemma quietG_set_rt_head g v : quietG g (set_rt_head g v).
Proof. split; [unfold piA; repeat split; reflexivity|intros []; reflexivity]. Qed.
Lemma quietG_set_srcs g v : quietG g (set_srcs g v).
Proof. split; [unfold piA; repeat split; reflexivity|intros []; reflexivity]. Qed.
Lemma quietG_set_oob g v : quietG g (set_oob g v).
Proof. split; [unfold piA; repeat split; reflexivity|intros []; reflexivity]. Qed.
Lemma quietG_upd_rb g b f : quietG g (upd_rb g b f).
Proof. split; [apply piA_upd_rb|apply same_slots_upd_rb]. Qed.
Lemma quietG_upd_rec g r f :
  (forall x, r_next (f x) = r_next x /\ r_tid (f x) = r_tid x /\ r_slots (f x) = r_slots x /\ r_ext (f x) = r_ext x) ->
  quietG g (upd_rec g r f).
Proof.
  intros H. split; [apply piA_upd_rec; intros x; destruct (H x) as (A&B&C&D); rewrite C; auto|].
  apply same_slots_upd_rec. intros x. apply H.
Qed.
Lemma quietG_upd_gb g b f :
  (forall y, gb_nextb (f y) = gb_nextb y /\ gb_slots (f y) = gb_slots y) -> quietG g (upd_gb g b f).
Proof.
  intros H. split; [apply piA_upd_gb; intros y; destruct (H y) as (A&B); rewrite B; auto|].
  apply same_slots_upd_gb. intros y. apply H.
Qed.

Lemma quietG_fl_set_head g f v : quietG g (fl_set_head g f v).
Proof. destruct f; [apply quietG_set_hp_head|apply quietG_set_rt_head]. Qed.
Lemma quietG_fl_set_refs g f n v : quietG g (fl_set_refs g f n v).
Proof. destruct f; cbn; [apply quietG_upd_gb; intros []; auto|apply quietG_upd_rb]. Qed.
Lemma quietG_fl_set_next g f n v : quietG g (fl_set_next g f n v).
Proof. destruct f; cbn; [apply quietG_upd_gb; intros []; auto|apply quietG_upd_rb]. Qed.

Ltac qacc := intros g; cbn; split; [auto using quietG_refl, quietG_fl_set_head, quietG_fl_set_refs, quietG_fl_set_next, quietG_set_srcs|repeat constructor].

Lemma q_begin : forall g, quietG g (fst (fst (a_begin g))) /\ Forall qev (snd (a_begin g)). Proof. qacc. Qed.
Lemma q_ld_tlist : forall g, quietG g (fst (fst (a_ld_tlist g))) /\ Forall qev (snd (a_ld_tlist g)). Proof. qacc. Qed.
Lemma q_ld_tid r : forall g, quietG g (fst (fst (a_ld_tid r g))) /\ Forall qev (snd (a_ld_tid r g)). Proof. qacc. Qed.
Lemma q_ld_free r : forall g, quietG g (fst (fst (a_ld_free r g))) /\ Forall qev (snd (a_ld_free r g)). Proof. qacc. Qed.
Lemma q_st_free r v : forall g, quietG g (fst (fst (a_st_free r v g))) /\ Forall qev (snd (a_st_free r v g)).
Proof. intros g; cbn; split; [apply quietG_upd_rec; intros []; auto|repeat constructor]. Qed.
Lemma q_faa_sync r : forall g, quietG g (fst (fst (a_faa_sync r g))) /\ Forall qev (snd (a_faa_sync r g)).
Proof. intros g; cbn; split; [apply quietG_upd_rec; intros []; auto|repeat constructor]. Qed.
Lemma q_ld_ext r : forall g, quietG g (fst (fst (a_ld_ext r g))) /\ Forall qev (snd (a_ld_ext r g)). Proof. qacc. Qed.
Lemma q_ld_slot s : forall g, quietG g (fst (fst (a_ld_slot s g))) /\ Forall qev (snd (a_ld_slot s g)). Proof. qacc. Qed.
Lemma q_ld_src k : forall g, quietG g (fst (fst (a_ld_src k g))) /\ Forall qev (snd (a_ld_src k g)). Proof. qacc. Qed.
Lemma q_st_src k v : forall g, quietG g (fst (fst (a_st_src k v g))) /\ Forall qev (snd (a_st_src k v g)). Proof. qacc. Qed.
Lemma q_ld_head f : forall g, quietG g (fst (fst (a_ld_head f g))) /\ Forall qev (snd (a_ld_head f g)). Proof. qacc. Qed.
Lemma q_cas_head f e n : forall g, quietG g (fst (fst (a_cas_head f e n g))) /\ Forall qev (snd (a_cas_head f e n g)).
Proof. intros g. unfold a_cas_head. destruct (oeqb (fl_head g f) e); cbn; split; auto using quietG_refl, quietG_fl_set_head; repeat constructor. Qed.
Lemma q_ld_refs f n : forall g, quietG g (fst (fst (a_ld_refs f n g))) /\ Forall qev (snd (a_ld_refs f n g)). Proof. qacc. Qed.
Lemma q_st_refs f n v : forall g, quietG g (fst (fst (a_st_refs f n v g))) /\ Forall qev (snd (a_st_refs f n v g)). Proof. qacc. Qed.
Lemma q_cas_refs f n e v : forall g, quietG g (fst (fst (a_cas_refs f n e v g))) /\ Forall qev (snd (a_cas_refs f n e v g)).
Proof. intros g. unfold a_cas_refs. destruct (N.eqb (fl_refs g f n) e); cbn; split; auto using quietG_refl, quietG_fl_set_refs; repeat constructor. Qed.
Lemma q_faa_refs f n d : forall g, quietG g (fst (fst (a_faa_refs f n d g))) /\ Forall qev (snd (a_faa_refs f n d g)). Proof. qacc. Qed.
Lemma q_fas_refs f n d : forall g, quietG g (fst (fst (a_fas_refs f n d g))) /\ Forall qev (snd (a_fas_refs f n d g)). Proof. qacc. Qed.
Lemma q_ld_flnext f n : forall g, quietG g (fst (fst (a_ld_flnext f n g))) /\ Forall qev (snd (a_ld_flnext f n g)). Proof. qacc. Qed.
Lemma q_st_flnext f n v : forall g, quietG g (fst (fst (a_st_flnext f n v g))) /\ Forall qev (snd (a_st_flnext f n v g)). Proof. qacc. Qed.
