(** * DhpLiveF: C02, second sentence for DHP.  Part F: the statements.
      [dhp_guarded_ptr_live_statement] is the second sentence at the level of the client (Guard j of thread t);
      [dhp_guarded_ptr_live_cell] (DhpLiveE) is what is proved: the same at the level of the hazard cell, given
      [dhp_scan_frees_older_statement]. *)
From Coq Require Import ZArith NArith List String Bool Lia PeanoNat.
From LV Require Import Base.Conc Base.Events Model.DhpLang Model.Dhp Proofs.DhpBase Proofs.DhpHist
  Proofs.DhpInvB Proofs.DhpProofsC02 Proofs.DhpLiveA Proofs.DhpLiveB Proofs.DhpLiveD Proofs.DhpLiveE.
Import ListNotations.
Local Open Scope string_scope.
Local Open Scope list_scope.

(** NOT proved: in every reachable configuration, what a scan hands to the disposer had been given to retire()
    before that scan began.  (It needs the ownership invariant of the retired arrays -- [InvB] of DhpInvB.v -- extended
    by "thread u is between _scanb and stage 2 of a scan of record r that began at s0: every pointer whose place is
    r was retired before s0"; [InvB]'s thread views have no field that says "inside scan", so this is a new invariant
    over all programs of the model, not a corollary of [dhp_disposed_were_retired].) *)
Definition dhp_scan_frees_older_statement : Prop := forall fuel c ths conf,
  Conc.reach (init_cfg fuel c ths) conf -> flbad (hist (Conc.trace conf)) = false ->
  4 <= c_RB c -> c_old c = false -> c_oldtail c = false ->
  NoDup (flat_map (fun e => retired_ev (snd e)) (Conc.trace conf)) ->
  scan_frees_older (Conc.trace conf).

(** operations of the thread that end the protection given by its Guard j: detach, ~Guard(j), assign / clear /
    protect on Guard j *)
Definition releasesD (j : nat) (e : ev) : Prop :=
  match e with
  | EvCli name (code :: args) =>
      name = "op" /\ (code = 2%Z \/ ((code = 4%Z \/ code = 5%Z \/ code = 6%Z \/ code = 7%Z) /\ hd 0%Z args = zn j))
  | _ => False
  end.

(** the second sentence, client level (NOT proved): under the discipline (publish p once; retire p only after a store
    replaced it in its source), if protect( Guard j, source k ) of thread t returned p at index v and p is given to
    the disposer at d > v, then t started a releasing operation on Guard j (or detached) in between *)
Definition dhp_guarded_ptr_live_statement : Prop := forall fuel c ths conf,
  Conc.reach (init_cfg fuel c ths) conf -> flbad (hist (Conc.trace conf)) = false ->
  forall p, p <> 0 -> publish_once (Conc.trace conf) p -> retire_after_unlink (Conc.trace conf) p ->
  forall v t j k, nth_error (Conc.trace conf) v = Some (t, EvCli "ret" [zn p]) ->
    lop (sfold (firstn v (Conc.trace conf))) t = [7%Z; zn j; zn k] ->
  forall d u, v < d -> nth_error (Conc.trace conf) d = Some (u, ev_dispose p) ->
  exists i e, v < i < d /\ nth_error (Conc.trace conf) i = Some (t, e) /\ releasesD j e.

(** what is missing between the cell-level theorem and the client-level statement (NOT proved): the cell a protect
    stored into is a cell of the thread's attached record, it stays one, and nobody stores to it, until the thread
    starts a releasing operation on that Guard (free-guard-list / extension-block ownership of thread_hp_storage) *)
Definition dhp_guard_cell_exclusive_statement : Prop := forall fuel c ths conf,
  Conc.reach (init_cfg fuel c ths) conf -> flbad (hist (Conc.trace conf)) = false ->
  forall v t j k p, p <> 0 -> nth_error (Conc.trace conf) v = Some (t, EvCli "ret" [zn p]) ->
    lop (sfold (firstn v (Conc.trace conf))) t = [7%Z; zn j; zn k] ->
  exists g0 s kl, lsl (sfold (firstn v (Conc.trace conf))) t = Some (g0, s, p) /\ kl < g0 /\
    forall d, v < d -> d <= List.length (Conc.trace conf) ->
      (forall i e, v < i < d -> nth_error (Conc.trace conf) i = Some (t, e) -> ~ releasesD j e) ->
      live c (hist (firstn d (Conc.trace conf))) s kl /\
      forall i te, g0 < i < d -> nth_error (Conc.trace conf) i = Some te -> ~ is_slot_of s (snd te).
