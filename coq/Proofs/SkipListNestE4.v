(** * SkipListNestE4: the pred CAS of insert_at_position (link at level l). *)
From Coq Require Import ZArith List String Bool Lia PeanoNat.
From LV Require Import Base.Conc Base.Events Model.SkipList Proofs.SkipListProofs Proofs.SkipListSub Proofs.SkipListNest Proofs.SkipListNestE Proofs.SkipListNestE3.
Import ListNotations.

Lemma head_notin g a l : EINV g a -> l < MAXH -> ~ In head (eLs a l).
Proof. intros Hi Hl X. apply (e_n1 _ _ Hi l head Hl) in X. pose proof (proj1 (e_n2 _ _ Hi head)). pose proof (head_alk g a Hi). lia. Qed.

Lemma EF_cas_link {R} t n K nw l succ hb W p (k : V -> prog R) :
  l < MAXH -> l < hb -> ekn K p l ->
  (forall cur, EF t n K (Some (nw, S l, None, hb)) W (k (VC true cur))) ->
  (forall cur, EF t n K (Some (nw, l, Some succ, hb)) W (k (VC false cur))) ->
  EF t n K (Some (nw, l, Some succ, hb)) W (Act (a_cas_next p l (succ, false) (nw, false)) k).
Proof.
  intros Hl Hlh Hk H1 H2 lv HK Hn HO HW. apply E_act. intros g a Hi Hv. unfold a_cas_next.
  destruct (mp_eqb (nxt g p l) (succ, false)) eqn:E; cbn [fst snd].
  2:{ exists (setview a t lv). split; [intros; now apply setview_other|]. split.
      - subst lv. apply E_same; auto. apply (e_views _ _ Hi).
      - rewrite setview_same. now apply H2. }
  apply mp_eqb_eq in E.
  destruct (e_views _ _ Hi t) as [V1 V2]. rewrite Hv in V1, V2. rewrite HO in V2. destruct V2 as (O1 & O2 & O3 & O4 & O5 & O6 & O7 & O8).
  assert (Hp0 : p = head \/ l < ealk a p) by (eapply ekn_alk; eauto; now rewrite Hv).
  assert (Hp : p = head \/ In p (eLs a l)) by (eapply unmarked_on_list; eauto; now rewrite E).
  destruct (e_n2' _ _ Hi nw O5 ltac:(lia)) as [An Pn].
  assert (Nin : ~ In nw (eLs a l)) by (intros X; apply (e_n1 _ _ Hi l nw Hl) in X; lia).
  pose proof (head_alk g a Hi) as Hh0.
  assert (Nnp : nw <> p) by (intros ->; destruct Hp as [X|X]; [unfold isnode, head in *; lia|contradiction]).
  destruct (walkl_link g l (eLs a l) p nw false (e_lev _ _ Hi l Hl) (head_notin g a l Hi Hl) Hp) as (L' & WL' & HL'); auto.
  { unfold isnode, null in *. lia. } { unfold isnode, head in *. lia. } { rewrite (O8 succ eq_refl), E. reflexivity. }
  set (lv' := mkEV (wkn lv) (wser lv) (Some (nw, S l, None, hb)) (wowe lv)).
  set (a' := mkEA (updL (eLs a) l L') (updf (ealk a) nw (S l)) (updf (eanl a) nw (S l)) (eadn a) (eapl a) (setvw (evw a) t lv')).
  assert (Hsc : stepc t g a (setnx g p l (nw, false)) a').
  { constructor; unfold a'; cbn [ealk eanl eadn].
    - intros q. destruct (Nat.eq_dec q nw) as [->|N]; [rewrite updf_same; lia|rewrite updf_other by exact N; lia].
    - intros q l' Hq. apply setnx_other. intros X. inversion X; subst. rewrite E in Hq. discriminate.
    - intros q Hq. cbn [setnx unl hgt_of]. split; [lia|]. split; [reflexivity|]. unfold closed. cbn [ealk eanl eadn setnx hgt_of].
      destruct (Nat.eq_dec q nw) as [->|N]; [intros [X|X]; [congruence|lia]|rewrite !updf_other by exact N; intros X; split; [exact X|lia]].
    - intros q Hq. assert (N : q <> nw) by congruence. rewrite updf_other by exact N. cbn [setnx unl hgt_of]. auto.
    - intros p' l'. destruct (Nat.eq_dec p' p) as [->|Np]; [|left; rewrite setnx_other by congruence; reflexivity].
      destruct (Nat.eq_dec l' l) as [->|Nl]; [|left; rewrite setnx_other by congruence; reflexivity].
      destruct Hp0 as [X|X]; [right; right; right; exact X|right; right; left; exact X]. }
  exists a'. split; [intros u Hu; unfold a'; cbn [evw]; now apply setvw_other|]. split; [|unfold a'; cbn [evw]; rewrite setvw_same; now apply H1].
  change (EINV (setnx g p l (nw, false)) a').
  pose proof Hi as Hi0. destruct Hi as [I1 I2 I3 I4 I5 I6 I7 I8 I9 I10 I11 I12].
  constructor; unfold a'; cbn [eLs ealk eanl eadn eapl evw].
  - intros l' Hl'. unfold updL. destruct (Nat.eqb_spec l' l) as [->|Nl]; [exact WL'|].
    apply walkl_setnx_other; [now left|now apply I1].
  - intros l' q Hl'. unfold updL. destruct (Nat.eqb_spec l' l) as [->|Nl].
    + rewrite HL'. destruct (Nat.eq_dec q nw) as [->|N]; [rewrite updf_same; split; [lia|now left]|].
      rewrite updf_other by exact N. rewrite <- (I2 l q Hl). split; [intros [X|X]; [congruence|exact X]|now right].
    + destruct (Nat.eq_dec q nw) as [->|N]; [rewrite updf_same, (I2 l' nw Hl'), An; lia|rewrite updf_other by exact N; now apply I2].
  - intros q. cbn [setnx hgt_of]. destruct (Nat.eq_dec q nw) as [->|N]; [rewrite !updf_same; lia|rewrite !updf_other by exact N; apply I3].
  - intros q. cbn [setnx hgt_of]. apply I4.
  - intros q. cbn [setnx hgt_of]. unfold pend. cbn [eapl]. fold (pend a q).
    destruct (Nat.eq_dec q nw) as [->|N]; [rewrite !updf_same; intros _ _; split; [reflexivity|exact Pn]|rewrite !updf_other by exact N; apply I5].
  - intros q. unfold rest, pend. cbn [setnx unl hgt_of eadn ealk eapl]. fold (pend a q).
    destruct (Nat.eq_dec q nw) as [->|N].
    + rewrite !updf_same. intros _. rewrite Pn, O5, O6. destruct l as [|l0].
      * rewrite (O7 eq_refl). lia.
      * rewrite (I6 nw ltac:(lia)). unfold rest. rewrite An, Pn, O5, O6, O4. lia.
    + rewrite !updf_other by exact N. apply I6.
  - intros q Hq. destruct (Nat.eq_dec q nw) as [->|N]; [rewrite updf_same; lia|rewrite updf_other by exact N; now apply I7].
  - intros q l' A1 A2. destruct (Nat.eq_dec q p) as [->|Nq].
    + destruct (Nat.eq_dec l' l) as [->|Nl'].
      * exfalso. rewrite !updf_other in A1, A2 by congruence. destruct Hp as [X|X]; [subst p; lia|]. apply (I2 l p Hl) in X. lia.
      * rewrite setnx_other by congruence. rewrite !updf_other in A1, A2 by congruence. now apply I8.
    + rewrite setnx_other by congruence. destruct (Nat.eq_dec q nw) as [->|N]; [rewrite !updf_same in *; lia|].
      rewrite !updf_other in A1, A2 by exact N. now apply I8.
  - intros q l' A1. assert (N : q <> nw) by (intros ->; rewrite updf_same in A1; lia). rewrite updf_other in A1 by exact N.
    destruct (Nat.eq_dec q p) as [->|Nq].
    + destruct (Nat.eq_dec l' l) as [->|Nl']; [now rewrite setnx_same|rewrite setnx_other by congruence; now apply I9].
    + rewrite setnx_other by congruence. now apply I9.
  - intros q Hq. destruct (Nat.eq_dec q nw) as [->|N].
    + split; [exact O1|]. rewrite O2, setvw_same. exact O3.
    + rewrite updf_other in Hq by exact N. destruct (I10 q Hq) as [A1 A2]. split; [exact A1|].
      destruct (Nat.eq_dec (owner_of q) t) as [X|X]; [rewrite X in *; rewrite setvw_same; rewrite Hv in A2; exact A2|now rewrite setvw_other].
  - destruct I11 as [N1 N2]. split; [exact N1|]. intros u q. rewrite N2.
    destruct (Nat.eq_dec u t) as [->|X]; [rewrite setvw_same, Hv; cbn; tauto|rewrite setvw_other by exact X; tauto].
  - intros u. destruct (Nat.eq_dec u t) as [->|X]; [rewrite setvw_same|rewrite setvw_other by exact X; eapply evw_step; eauto].
    split; [intros f Hf; eapply fact_step; [exact Hsc|now apply V1]|].
    cbn [lv' wown wser eown_ok]. unfold a'. cbn [ealk eadn setnx hgt_of unl]. rewrite updf_same. repeat split; auto; [lia|discriminate].
Qed.
