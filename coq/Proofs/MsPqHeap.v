(** * Pure facts about the array heap of MSPriorityQueue with the bit-reversed fill order:
      abstract heaps [h : nat -> option item] whose occupied cells are the slots 1..n of the counter. *)
From Coq Require Import ZArith List Bool Lia PeanoNat Permutation.
From LV Require Import Model.MsPq Proofs.MsPqBrc Proofs.MsPqInv Spec.Specs.
Import ListNotations.
Local Open Scope list_scope.

Definition upd {X} (f : nat -> X) (i : nat) (v : X) : nat -> X := fun j => if Nat.eqb j i then v else f j.
Lemma upd_same {X} (f : nat -> X) i v : upd f i v i = v.
Proof. unfold upd. rewrite Nat.eqb_refl. reflexivity. Qed.
Lemma upd_other {X} (f : nat -> X) i v j : j <> i -> upd f i v j = f j.
Proof. unfold upd. intros H. destruct (Nat.eqb_spec j i); congruence. Qed.

Lemma slot_1 : slot 1 = 1.
Proof. reflexivity. Qed.

Lemma div2_lt k : 1 <= k -> Nat.div2 k < k.
Proof. intros H. apply Nat.lt_div2. lia. Qed.
Lemma div2_double p : Nat.div2 (2 * p) = p.
Proof. apply Nat.div2_double. Qed.
Lemma div2_succ_double p : Nat.div2 (S (2 * p)) = p.
Proof. apply Nat.div2_succ_double. Qed.
Lemma div2_children k p : 1 <= p -> Nat.div2 k = p -> k = 2 * p \/ k = S (2 * p).
Proof.
  intros Hp H. destruct (Nat.Even_or_Odd k) as [[m ->]|[m ->]].
  - rewrite div2_double in H. left. lia.
  - replace (2 * m + 1) with (S (2 * m)) in * by lia. rewrite div2_succ_double in H. right. lia.
Qed.

Section Heap.
  Variable cap : nat.
  Hypothesis OK : slots_ok cap = true.
  Hypothesis SH : shape_ok cap = true.
  (* every lemma of this section takes [cap OK SH] first, whether its proof needs both or not *)
  Set Default Proof Using "OK SH".

  Definition items (h : nat -> option item) : list item := flat_map (fun i => olist (h i)) (seq 1 cap).
  Definition prios (h : nat -> option item) : list Z := map prio (items h).

  (** the occupied cells are exactly the first n slots *)
  Definition Occ (n : nat) (h : nat -> option item) : Prop :=
    forall i, h i <> None <-> exists j, 1 <= j <= n /\ slot j = i.
  Definition Ordk (h : nat -> option item) (k : nat) : Prop :=
    forall x, h k = Some x -> exists y, h (Nat.div2 k) = Some y /\ (prio x <= prio y)%Z.
  Definition Tags (h : nat -> option item) (tg : nat -> MsPq.tag) : Prop :=
    (forall i, h i = None -> tg i = TEmpty) /\ (forall i, h i <> None -> tg i = TAvail).
  Definition Good (n : nat) (h : nat -> option item) (tg : nat -> MsPq.tag) : Prop :=
    Occ n h /\ Tags h tg /\ forall k, 2 <= k -> Ordk h k.

  Lemma Occ_range n h i : n <= cap -> Occ n h -> h i <> None -> 1 <= i <= cap.
  Proof. intros Hn HO Hi. apply HO in Hi. destruct Hi as (j & Hj & <-). apply (slot_range cap OK). lia. Qed.

  Lemma Occ_slot n h j : Occ n h -> 1 <= j <= n -> h (slot j) <> None.
  Proof. intros HO Hj. apply HO. eauto. Qed.

  Lemma Occ_free n h j : n <= cap -> Occ n h -> n < j <= cap -> h (slot j) = None.
  Proof.
    intros Hn HO Hj. destruct (h (slot j)) eqn:E; [|reflexivity]. exfalso.
    assert (H : h (slot j) <> None) by (rewrite E; discriminate). apply HO in H. destruct H as (j' & Hj' & E').
    apply (slot_inj cap OK) in E'; lia.
  Qed.

  (** a cell whose slot number is beyond every occupied one has no occupied child *)
  Lemma no_child_of_later n h m k :
    n <= cap -> Occ n h -> n < m <= cap -> 2 <= k -> Nat.div2 k = slot m -> h k = None.
  Proof.
    intros Hn HO Hm Hk Hd. destruct (h k) eqn:E; [|reflexivity]. exfalso.
    assert (H : h k <> None) by (rewrite E; discriminate). apply HO in H. destruct H as (j & Hj & <-).
    assert (2 <= j). { destruct (Nat.eq_dec j 1) as [->|]; [rewrite slot_1 in Hk; lia|lia]. }
    destruct (slot_parent cap SH j ltac:(lia)) as (m' & Hm' & E'). rewrite Hd in E'.
    apply (slot_inj cap OK) in E'; lia.
  Qed.

  Lemma parent_occupied n h k : n <= cap -> Occ n h -> 2 <= k -> h k <> None -> h (Nat.div2 k) <> None.
  Proof.
    intros Hn HO Hk H. apply HO in H. destruct H as (j & Hj & <-).
    assert (2 <= j). { destruct (Nat.eq_dec j 1) as [->|]; [rewrite slot_1 in Hk; lia|lia]. }
    destruct (slot_parent cap SH j ltac:(lia)) as (m' & Hm' & E'). rewrite <- E'. apply HO. exists m'. split; [lia|reflexivity].
  Qed.

  Lemma left_before_right n h p : n <= cap -> Occ n h -> 1 <= p -> h (S (2 * p)) <> None -> h (2 * p) <> None.
  Proof.
    intros Hn HO Hp H. apply HO in H. destruct H as (j & Hj & E).
    assert (Ho : Nat.odd (slot j) = true) by (rewrite E, Nat.odd_succ, Nat.even_mul; reflexivity).
    destruct (slot_left cap SH j ltac:(lia) Ho ltac:(lia)) as (m & Hm & E'). apply HO. exists m. split; [lia|]. rewrite E', E. lia.
  Qed.

  Lemma Occ_zero n h : n <= cap -> Occ n h -> h 0 = None.
  Proof.
    intros Hn HO. destruct (h 0) eqn:E; [|reflexivity]. exfalso.
    assert (H : h 0 <> None) by (rewrite E; discriminate). pose proof (Occ_range n h 0 Hn HO H). lia.
  Qed.

  (** the root dominates *)
  Lemma root_max n h tg : n <= cap -> Good n h tg -> forall i x z, h i = Some x -> h 1 = Some z -> (prio x <= prio z)%Z.
  Proof.
    intros Hn (HO & _ & Hord) i. induction i as [i IH] using lt_wf_ind. intros x z Hx Hz.
    destruct (Nat.eq_dec i 0) as [->|N0]; [rewrite (Occ_zero n h Hn HO) in Hx; discriminate|].
    destruct (Nat.eq_dec i 1) as [->|N1]; [rewrite Hx in Hz; inversion Hz; lia|].
    destruct (Hord i ltac:(lia) x Hx) as (y & Hy & Hle).
    pose proof (IH (Nat.div2 i) (div2_lt i ltac:(lia)) y z Hy Hz). lia.
  Qed.

  (** *** multisets of items under cell updates *)
  Lemma cnt_items_upd h i v x :
    1 <= i <= cap -> cnt (items (upd h i v)) x + oc x (h i) = cnt (items h) x + oc x v.
  Proof.
    intros Hi. unfold items.
    pose proof (cnt_flat_map_update h (upd h i v) i x (seq 1 cap) (seq_NoDup _ _)) as H.
    destruct (in_dec Nat.eq_dec i (seq 1 cap)) as [_|Hn]; [|exfalso; apply Hn; apply in_seq; lia].
    rewrite H; [rewrite upd_same; reflexivity|]. intros j Hj. apply upd_other. exact Hj.
  Qed.

  Lemma items_ext h h' : (forall i, h' i = h i) -> items h' = items h.
  Proof. intros H. unfold items. apply flat_map_ext. intros i. rewrite H. reflexivity. Qed.

  Lemma items_store h i x : 1 <= i <= cap -> h i = None -> Permutation (items (upd h i (Some x))) (x :: items h).
  Proof.
    intros Hi Hn. apply (Permutation_count_occ item_eq_dec). intros y.
    pose proof (cnt_items_upd h i (Some x) y Hi) as E. rewrite Hn in E. cbn [oc count_occ] in *.
    destruct (item_eq_dec x y); lia.
  Qed.

  Lemma items_take h i x : 1 <= i <= cap -> h i = Some x -> Permutation (items h) (x :: items (upd h i None)).
  Proof.
    intros Hi Hs. apply (Permutation_count_occ item_eq_dec). intros y.
    pose proof (cnt_items_upd h i None y Hi) as E. rewrite Hs in E. cbn [oc count_occ] in *.
    destruct (item_eq_dec x y); lia.
  Qed.

  Lemma items_swap h i p :
    1 <= i <= cap -> 1 <= p <= cap -> i <> p ->
    Permutation (items (upd (upd h i (h p)) p (h i))) (items h).
  Proof.
    intros Hi Hp Hne. apply (Permutation_count_occ item_eq_dec). intros y.
    pose proof (cnt_items_upd (upd h i (h p)) p (h i) y Hp) as E2.
    pose proof (cnt_items_upd h i (h p) y Hi) as E1. rewrite upd_other in E2 by congruence. lia.
  Qed.

  (** *** the specification side: lists of priorities *)
  Lemma zmax_ge x l : (x <= zmax x l)%Z /\ forall y, In y l -> (y <= zmax x l)%Z.
  Proof.
    unfold zmax. revert x. induction l as [|a l IH]; intros x; cbn [fold_left]; [split; [lia|intros y []]|].
    destruct (IH (Z.max x a)) as [H1 H2]. split; [lia|]. intros y [<-|Hy]; [lia|auto].
  Qed.
  Lemma zmax_in x l : In (zmax x l) (x :: l).
  Proof.
    unfold zmax. revert x. induction l as [|a l IH]; intros x; cbn [fold_left]; [left; reflexivity|].
    destruct (IH (Z.max x a)) as [E|Hin]; [|right; right; exact Hin].
    rewrite <- E. destruct (Z.max_spec x a) as [[_ ->]|[_ ->]]; [right; left; reflexivity|left; reflexivity].
  Qed.

  Lemma remove_one_perm m s : In m s -> Permutation s (m :: remove_one m s).
  Proof.
    induction s as [|y s IH]; [intros []|]. intros Hin. cbn [remove_one]. destruct (Z.eqb_spec m y) as [->|Hne]; [reflexivity|].
    destruct Hin as [E|Hin]; [congruence|]. rewrite (IH Hin) at 1. apply perm_swap.
  Qed.
  Lemma remove_one_length m s : In m s -> S (length (remove_one m s)) = length s.
  Proof. intros Hin. rewrite (Permutation_length (remove_one_perm m s Hin)). reflexivity. Qed.

  (** popping the maximum: what the specification returns and keeps *)
  Lemma pq_pop_max s m r :
    Permutation s (m :: r) -> (forall y, In y r -> (y <= m)%Z) ->
    exists s', pq_pop s = (s', RVal (Some m)) /\ Permutation s' r.
  Proof.
    intros Hp Hmax. destruct s as [|x l]; [apply Permutation_nil in Hp; discriminate|].
    unfold pq_pop. set (mx := zmax x l).
    assert (Hin : In mx (x :: l)) by apply zmax_in.
    assert (Hm : In m (x :: l)) by (eapply Permutation_in; [apply Permutation_sym; exact Hp|left; reflexivity]).
    assert (mx = m).
    { destruct (zmax_ge x l) as [G1 G2].
      assert (m <= mx)%Z by (destruct Hm as [<-|Hm]; [exact G1|apply G2; exact Hm]).
      assert (mx <= m)%Z.
      { pose proof (Permutation_in _ Hp Hin) as [E|Hr]; [lia|apply Hmax; exact Hr]. }
      lia. }
    subst mx. rewrite H. eexists. split; [reflexivity|].
    pose proof (remove_one_perm m (x :: l) Hm) as Hq.
    apply Permutation_cons_inv with (a := m). rewrite <- Hq. exact Hp.
  Qed.

  (** *** invariants of the two heapify loops (single thread: thread 0 owns the item being inserted) *)
  Definition UpInv (i n : nat) (h : nat -> option item) (tg : nat -> MsPq.tag) : Prop :=
    Occ n h /\
    (forall k, h k = None -> tg k = TEmpty) /\
    (forall k, h k <> None -> k <> i -> tg k = TAvail) /\
    (i <> 0 -> h i <> None /\ tg i = TOwner 0) /\
    (forall k, 2 <= k -> k <> i -> Ordk h k) /\
    (2 <= i -> forall c x y, 2 <= c -> Nat.div2 c = i -> h c = Some x -> h (Nat.div2 i) = Some y -> (prio x <= prio y)%Z).

  Definition DownInv (p n : nat) (h : nat -> option item) (tg : nat -> MsPq.tag) : Prop :=
    Occ n h /\ Tags h tg /\ 1 <= p /\ h p <> None /\
    (forall k, 2 <= k -> Nat.div2 k <> p -> Ordk h k) /\
    (2 <= p -> forall c x y, 2 <= c -> Nat.div2 c = p -> h c = Some x -> h (Nat.div2 p) = Some y -> (prio x <= prio y)%Z).

  Lemma Occ_ext n h h' : (forall k, h' k = h k) -> Occ n h -> Occ n h'.
  Proof. intros E HO i. rewrite E. apply HO. Qed.
  Lemma Ordk_ext h h' k : (forall j, h' j = h j) -> Ordk h k -> Ordk h' k.
  Proof. intros E H x Hx. rewrite E in Hx. destruct (H x Hx) as (y & Hy & Hle). exists y. rewrite E. auto. Qed.

  Lemma UpInv0_Good n h tg : n <= cap -> UpInv 0 n h tg -> Good n h tg.
  Proof.
    intros Hn (HO & HE & HA & _ & Hord & _). split; [exact HO|]. split; [split; [exact HE|]|].
    - intros i Hi. apply HA; [exact Hi|]. intros ->. apply Hi. apply (Occ_zero n h Hn HO).
    - intros k Hk. apply Hord; lia.
  Qed.
  Lemma Good_UpInv0 n h tg : Good n h tg -> UpInv 0 n h tg.
  Proof.
    intros (HO & [HE HA] & Hord). split; [exact HO|]. split; [exact HE|]. split; [intros k Hk _; apply HA; exact Hk|].
    split; [congruence|]. split; [intros k Hk _; apply Hord; exact Hk|lia].
  Qed.

  (** sift-up: the item at [i] is larger than its parent and moves up *)
  Lemma UpInv_swap i n h tg a b :
    n <= cap -> 2 <= i -> UpInv i n h tg -> h i = Some a -> h (Nat.div2 i) = Some b -> (prio a > prio b)%Z ->
    UpInv (Nat.div2 i) n (upd (upd h i (h (Nat.div2 i))) (Nat.div2 i) (h i))
                         (upd (upd tg i (tg (Nat.div2 i))) (Nat.div2 i) (tg i)).
  Proof.
    intros Hn Hi (HO & HE & HA & HI & Hord & Hgr) Ha Hb Hgt.
    set (p := Nat.div2 i) in *. assert (Hpi : p < i) by (apply div2_lt; lia).
    assert (Hp1 : 1 <= p). { destruct i as [|[|i]]; try lia. subst p. cbn [Nat.div2]. lia. }
    destruct (HI ltac:(lia)) as [_ Htgi].
    set (h' := upd (upd h i (h p)) p (h i)). set (tg' := upd (upd tg i (tg p)) p (tg i)).
    assert (E1 : h' p = Some a) by (unfold h'; rewrite upd_same; exact Ha).
    assert (E2 : h' i = Some b) by (unfold h'; rewrite upd_other by lia; rewrite upd_same; exact Hb).
    assert (E3 : forall k, k <> i -> k <> p -> h' k = h k) by (intros k K1 K2; unfold h'; rewrite !upd_other by assumption; reflexivity).
    assert (T1 : tg' p = TOwner 0) by (unfold tg'; rewrite upd_same; exact Htgi).
    assert (T2 : tg' i = TAvail) by (unfold tg'; rewrite upd_other by lia; rewrite upd_same; apply HA; [rewrite Hb; discriminate|lia]).
    assert (T3 : forall k, k <> i -> k <> p -> tg' k = tg k) by (intros k K1 K2; unfold tg'; rewrite !upd_other by assumption; reflexivity).
    assert (Hnn : forall k, h' k <> None <-> h k <> None).
    { intros k. destruct (Nat.eq_dec k i) as [->|K1]; [rewrite E2, Ha; split; discriminate|].
      destruct (Nat.eq_dec k p) as [->|K2]; [rewrite E1, Hb; split; discriminate|]. rewrite E3 by assumption. tauto. }
    split; [|split; [|split; [|split; [|split]]]].
    - intros k. rewrite Hnn. apply HO.
    - intros k Hk. destruct (Nat.eq_dec k i) as [->|K1]; [congruence|]. destruct (Nat.eq_dec k p) as [->|K2]; [congruence|].
      rewrite T3 by assumption. apply HE. rewrite <- E3 by assumption. exact Hk.
    - intros k Hk Hkp. destruct (Nat.eq_dec k i) as [->|K1]; [exact T2|]. rewrite T3 by assumption.
      apply HA; [apply Hnn; exact Hk|exact K1].
    - intros _. split; [rewrite E1; discriminate|exact T1].
    - intros k Hk Hkp x Hx. destruct (Nat.eq_dec k i) as [->|K1].
      + rewrite E2 in Hx. inversion Hx; subst x. exists a. fold p. split; [exact E1|lia].
      + rewrite E3 in Hx by assumption. destruct (Hord k Hk K1 x Hx) as (y & Hy & Hle).
        destruct (Nat.eq_dec (Nat.div2 k) p) as [Ep|Np].
        * rewrite Ep in Hy |- *. exists a. split; [exact E1|]. rewrite Hb in Hy. inversion Hy; subst y. lia.
        * destruct (Nat.eq_dec (Nat.div2 k) i) as [Ei|Ni].
          -- rewrite Ei. exists b. split; [exact E2|]. apply (Hgr Hi k x b Hk Ei Hx Hb).
          -- exists y. rewrite E3 by assumption. auto.
    - intros Hp2 c x y Hc Hdc Hx Hy.
      assert (Hdp : Nat.div2 p < p) by (apply div2_lt; lia).
      rewrite E3 in Hy by lia.
      destruct (Hord p Hp2 ltac:(lia) b Hb) as (y' & Hy' & Hle). rewrite Hy in Hy'. inversion Hy'; subst y'.
      destruct (Nat.eq_dec c i) as [->|K1]; [rewrite E2 in Hx; inversion Hx; subst x; exact Hle|].
      assert (c <> p) by (intros ->; pose proof (div2_lt p ltac:(lia)); lia).
      rewrite E3 in Hx by assumption. destruct (Hord c Hc K1 x Hx) as (y2 & Hy2 & Hle2). rewrite Hdc, Hb in Hy2.
      inversion Hy2; subst y2. lia.
  Qed.

  (** sift-up stops: the item is not larger than its parent; its tag becomes Available *)
  Lemma UpInv_stop i n h tg a b :
    2 <= i -> UpInv i n h tg -> h i = Some a -> h (Nat.div2 i) = Some b -> (prio a <= prio b)%Z ->
    UpInv 0 n (upd h i (h i)) (upd tg i TAvail).
  Proof.
    intros Hi (HO & HE & HA & HI & Hord & Hgr) Ha Hb Hle.
    assert (E : forall k, upd h i (h i) k = h k) by (intros k; unfold upd; destruct (Nat.eqb_spec k i); [subst; reflexivity|reflexivity]).
    split; [apply (Occ_ext n h); [exact E|exact HO]|]. split; [|split; [|split; [congruence|split; [|lia]]]].
    - intros k Hk. rewrite E in Hk. destruct (Nat.eq_dec k i) as [->|K]; [congruence|]. rewrite upd_other by exact K. apply HE. exact Hk.
    - intros k Hk _. rewrite E in Hk. destruct (Nat.eq_dec k i) as [->|K]; [apply upd_same|]. rewrite upd_other by exact K. apply HA; assumption.
    - intros k Hk _. apply (Ordk_ext h); [exact E|]. destruct (Nat.eq_dec k i) as [->|K]; [|apply Hord; assumption].
      intros x Hx. rewrite Ha in Hx. inversion Hx; subst x. exists b. auto.
  Qed.

  (** the item reached the top *)
  Lemma UpInv_top n h tg : UpInv 1 n h tg -> UpInv 0 n (upd h 1 (h 1)) (upd tg 1 TAvail).
  Proof.
    intros (HO & HE & HA & HI & Hord & Hgr). destruct (HI ltac:(lia)) as [H1 _].
    assert (E : forall k, upd h 1 (h 1) k = h k) by (intros k; unfold upd; destruct (Nat.eqb_spec k 1); [subst; reflexivity|reflexivity]).
    split; [apply (Occ_ext n h); [exact E|exact HO]|]. split; [|split; [|split; [congruence|split; [|lia]]]].
    - intros k Hk. rewrite E in Hk. destruct (Nat.eq_dec k 1) as [->|K]; [congruence|]. rewrite upd_other by exact K. apply HE. exact Hk.
    - intros k Hk _. rewrite E in Hk. destruct (Nat.eq_dec k 1) as [->|K]; [apply upd_same|]. rewrite upd_other by exact K. apply HA; assumption.
    - intros k Hk _. apply (Ordk_ext h); [exact E|]. apply Hord; lia.
  Qed.

  (** push: the new item is stored in the next slot *)
  Lemma UpInv_store n h tg x :
    S n <= cap -> Good n h tg ->
    h (slot (S n)) = None /\
    UpInv (slot (S n)) (S n) (upd h (slot (S n)) (Some x)) (upd tg (slot (S n)) (TOwner 0)).
  Proof.
    intros Hn (HO & [HE HA] & Hord). set (i := slot (S n)).
    assert (Hfree : h i = None) by (apply (Occ_free n h (S n)); [lia|exact HO|lia]).
    assert (Ri : 1 <= i <= cap) by (apply (slot_range cap OK); lia).
    split; [exact Hfree|].
    split; [|split; [|split; [|split; [|split]]]].
    - intros k. unfold upd. destruct (Nat.eqb_spec k i) as [->|K].
      + split; [intros _; exists (S n); split; [lia|reflexivity]|discriminate].
      + rewrite (HO k). split; intros (j & Hj & E); exists j; (split; [|exact E]); [lia|].
        destruct (Nat.eq_dec j (S n)) as [->|]; [exfalso; apply K; symmetry; exact E|lia].
    - intros k. unfold upd. destruct (Nat.eqb_spec k i); [discriminate|apply HE].
    - intros k Hk Hki. rewrite upd_other in Hk by exact Hki. rewrite upd_other by exact Hki. apply HA. exact Hk.
    - intros _. rewrite !upd_same. split; [discriminate|reflexivity].
    - intros k Hk Hki y Hy. rewrite upd_other in Hy by exact Hki. destruct (Hord k Hk y Hy) as (z & Hz & Hle).
      exists z. split; [|exact Hle]. rewrite upd_other; [exact Hz|]. intros E.
      assert (h k = None) by (apply (no_child_of_later n h (S n) k); [lia|exact HO|lia|lia|exact E]). congruence.
    - intros Hi2 c y z Hc Hdc Hy Hz. exfalso. assert (c <> i) by (intros ->; pose proof (div2_lt i ltac:(lia)); lia).
      rewrite upd_other in Hy by assumption.
      assert (h c = None) by (apply (no_child_of_later n h (S n) c); [lia|exact HO|lia|lia|exact Hdc]). congruence.
  Qed.

  (** pop: the bottom cell is emptied *)
  Lemma Good_take n h tg :
    S n <= cap -> Good (S n) h tg -> Good n (upd h (slot (S n)) None) (upd tg (slot (S n)) TEmpty).
  Proof.
    intros Hn (HO & [HE HA] & Hord). set (b := slot (S n)).
    assert (HO' : Occ n (upd h b None)).
    { intros k. unfold upd. destruct (Nat.eqb_spec k b) as [->|K].
      - split; [congruence|]. intros (j & Hj & E). apply (slot_inj cap OK) in E; lia.
      - rewrite (HO k). split; intros (j & Hj & E); exists j; (split; [|exact E]); [|lia].
        destruct (Nat.eq_dec j (S n)) as [->|]; [exfalso; apply K; symmetry; exact E|lia]. }
    split; [exact HO'|]. split; [split|].
    - intros k. unfold upd. destruct (Nat.eqb_spec k b); [reflexivity|apply HE].
    - intros k. unfold upd. destruct (Nat.eqb_spec k b); [congruence|apply HA].
    - intros k Hk y Hy. assert (Kb : k <> b) by (intros ->; rewrite upd_same in Hy; discriminate).
      rewrite upd_other in Hy by exact Kb. destruct (Hord k Hk y Hy) as (z & Hz & Hle). exists z. split; [|exact Hle].
      rewrite upd_other; [exact Hz|]. intros E.
      assert (upd h b None k = None) by (apply (no_child_of_later n _ (S n) k); [lia|exact HO'|lia|lia|exact E]).
      rewrite upd_other in H by exact Kb. congruence.
  Qed.

  (** pop: the bottom item replaces the top item *)
  Lemma DownInv_top n h tg xb :
    1 <= n <= cap -> Good n h tg -> DownInv 1 n (upd h 1 (Some xb)) (upd tg 1 TAvail).
  Proof.
    intros Hn (HO & [HE HA] & Hord).
    assert (H1 : h 1 <> None) by (rewrite <- slot_1; apply (Occ_slot n h 1 HO); lia).
    split; [|split; [split|split; [lia|split; [rewrite upd_same; discriminate|split; [|lia]]]]].
    - intros k. unfold upd. destruct (Nat.eqb_spec k 1) as [->|K]; [|apply HO].
      split; [intros _; exists 1; split; [lia|reflexivity]|discriminate].
    - intros k. unfold upd. destruct (Nat.eqb_spec k 1); [discriminate|apply HE].
    - intros k. unfold upd. destruct (Nat.eqb_spec k 1); [reflexivity|apply HA].
    - intros k Hk Hd y Hy. rewrite upd_other in Hy by lia. destruct (Hord k Hk y Hy) as (z & Hz & Hle).
      exists z. rewrite upd_other by exact Hd. auto.
  Qed.

  Lemma DownInv_children p n h tg k : n <= cap -> DownInv p n h tg -> 2 <= k -> Nat.div2 k = p -> k = 2 * p \/ k = S (2 * p).
  Proof. intros Hn (_ & _ & Hp & _) Hk Hd. apply div2_children; assumption. Qed.

  (** sift-down stops: no child is larger *)
  Lemma DownInv_stop p n h tg :
    DownInv p n h tg ->
    (forall k x y, 2 <= k -> Nat.div2 k = p -> h k = Some x -> h p = Some y -> (prio x <= prio y)%Z) ->
    Good n h tg.
  Proof.
    intros (HO & HT & Hp & Hpv & Hord & Hgr) Hch. split; [exact HO|]. split; [exact HT|].
    intros k Hk. destruct (Nat.eq_dec (Nat.div2 k) p) as [E|N]; [|apply Hord; assumption].
    intros x Hx. destruct (h p) as [y|] eqn:Ey; [|congruence]. exists y. rewrite E. split; [exact Ey|]. eapply Hch; eauto.
  Qed.

  Lemma DownInv_leaf p n h tg : n <= cap -> DownInv p n h tg -> h (2 * p) = None -> Good n h tg.
  Proof.
    intros Hn HD Hl. pose proof HD as (HO & _ & Hp & _). apply (DownInv_stop p n h tg HD).
    intros k x y Hk Hd Hx Hy. exfalso. destruct (div2_children k p Hp Hd) as [-> | ->]; [congruence|].
    apply (left_before_right n h p Hn HO Hp); [rewrite Hx; discriminate|exact Hl].
  Qed.

  Lemma DownInv_nochild p n h tg : n <= cap -> DownInv p n h tg -> cap < 2 * p -> Good n h tg.
  Proof.
    intros Hn HD Hc. pose proof HD as (HO & _ & Hp & _). apply (DownInv_stop p n h tg HD).
    intros k x y Hk Hd Hx Hy. exfalso. assert (h k <> None) by (rewrite Hx; discriminate).
    pose proof (Occ_range n h k Hn HO H). destruct (div2_children k p Hp Hd); lia.
  Qed.

  (** sift-down: the larger child [ch] is larger than the parent and moves up *)
  Lemma DownInv_swap p ch n h tg m v :
    n <= cap -> DownInv p n h tg -> (ch = 2 * p \/ ch = S (2 * p)) -> h ch = Some m -> h p = Some v -> (prio m > prio v)%Z ->
    (forall k x, 2 <= k -> Nat.div2 k = p -> h k = Some x -> (prio x <= prio m)%Z) ->
    DownInv ch n (upd (upd h p (h ch)) ch (h p)) (upd (upd tg p (tg ch)) ch (tg p)).
  Proof.
    intros Hn (HO & [HE HA] & Hp & Hpv & Hord & Hgr) Hch Hm Hv Hgt Hmax.
    assert (Hdch : Nat.div2 ch = p) by (destruct Hch as [->| ->]; [apply div2_double|apply div2_succ_double]).
    assert (Hpc : p < ch) by (destruct Hch; lia).
    set (h' := upd (upd h p (h ch)) ch (h p)). set (tg' := upd (upd tg p (tg ch)) ch (tg p)).
    assert (E1 : h' ch = Some v) by (unfold h'; rewrite upd_same; exact Hv).
    assert (E2 : h' p = Some m) by (unfold h'; rewrite upd_other by lia; rewrite upd_same; exact Hm).
    assert (E3 : forall k, k <> p -> k <> ch -> h' k = h k) by (intros k K1 K2; unfold h'; rewrite !upd_other by assumption; reflexivity).
    assert (Tp : tg p = TAvail) by (apply HA; rewrite Hv; discriminate).
    assert (Tc : tg ch = TAvail) by (apply HA; rewrite Hm; discriminate).
    assert (Hnn : forall k, h' k <> None <-> h k <> None).
    { intros k. destruct (Nat.eq_dec k p) as [->|K1]; [rewrite E2, Hv; split; discriminate|].
      destruct (Nat.eq_dec k ch) as [->|K2]; [rewrite E1, Hm; split; discriminate|]. rewrite E3 by assumption. tauto. }
    assert (Htg : forall k, tg' k = tg k).
    { intros k. unfold tg', upd. destruct (Nat.eqb_spec k ch) as [->|]; [congruence|]. destruct (Nat.eqb_spec k p) as [->|]; [congruence|reflexivity]. }
    split; [|split; [split|split; [lia|split; [rewrite E1; discriminate|split]]]].
    - intros k. rewrite Hnn. apply HO.
    - intros k Hk. rewrite Htg. apply HE. destruct (h k) eqn:E; [|reflexivity]. exfalso.
      assert (h' k <> None) by (apply Hnn; rewrite E; discriminate). congruence.
    - intros k Hk. rewrite Htg. apply HA. apply Hnn. exact Hk.
    - intros k Hk Hd x Hx. destruct (Nat.eq_dec k p) as [->|K1].
      + rewrite E2 in Hx. inversion Hx; subst x.
        assert (Hpp : h (Nat.div2 p) <> None) by (apply (parent_occupied n h p Hn HO Hk); rewrite Hv; discriminate).
        assert (Hex : exists y, h (Nat.div2 p) = Some y) by (destruct (h (Nat.div2 p)) as [y|]; [exists y; reflexivity|congruence]).
        destruct Hex as [y Ey]. exists y.
        pose proof (div2_lt p ltac:(lia)). rewrite E3 by lia. split; [exact Ey|]. apply (Hgr Hk ch m y ltac:(lia) Hdch Hm Ey).
      + destruct (Nat.eq_dec k ch) as [->|K2].
        * rewrite E1 in Hx. inversion Hx; subst x. exists m. rewrite Hdch. split; [exact E2|lia].
        * rewrite E3 in Hx by assumption. destruct (Nat.eq_dec (Nat.div2 k) p) as [Ep|Np].
          -- exists m. rewrite Ep. split; [exact E2|]. apply (Hmax k x Hk Ep Hx).
          -- destruct (Hord k Hk Np x Hx) as (y & Hy & Hle). exists y. rewrite E3 by assumption. auto.
    - intros Hc2 c x y Hc Hdc Hx Hy. rewrite Hdch, E2 in Hy. inversion Hy; subst y.
      assert (ch < c) by (pose proof (div2_lt c ltac:(lia)); lia).
      rewrite E3 in Hx by lia. destruct (Hord c Hc ltac:(lia) x Hx) as (y & Hy' & Hle). rewrite Hdc, Hm in Hy'.
      inversion Hy'; subst y. exact Hle.
  Qed.

  (** *** the multiset of priorities *)
  Lemma prios_ext h h' : (forall k, h' k = h k) -> prios h' = prios h.
  Proof. intros E. unfold prios. rewrite (items_ext h h' E). reflexivity. Qed.
  Lemma prios_swap h i p :
    1 <= i <= cap -> 1 <= p <= cap -> i <> p -> Permutation (prios (upd (upd h i (h p)) p (h i))) (prios h).
  Proof. intros. unfold prios. apply Permutation_map. apply items_swap; assumption. Qed.
  Lemma prios_store h i x : 1 <= i <= cap -> h i = None -> Permutation (prios (upd h i (Some x))) (prio x :: prios h).
  Proof. intros. unfold prios. change (prio x :: map prio (items h)) with (map prio (x :: items h)). apply Permutation_map. apply items_store; assumption. Qed.
  Lemma prios_take h i x : 1 <= i <= cap -> h i = Some x -> Permutation (prios h) (prio x :: prios (upd h i None)).
  Proof. intros. unfold prios. change (prio x :: map prio (items (upd h i None))) with (map prio (x :: items (upd h i None))). apply Permutation_map. apply items_take; assumption. Qed.
  Lemma prios_replace h i x z :
    1 <= i <= cap -> h i = Some z -> Permutation (prio z :: prios (upd h i (Some x))) (prio x :: prios h).
  Proof.
    intros Hi Hz. unfold prios.
    change (prio z :: map prio (items (upd h i (Some x)))) with (map prio (z :: items (upd h i (Some x)))).
    change (prio x :: map prio (items h)) with (map prio (x :: items h)). apply Permutation_map.
    apply (Permutation_count_occ item_eq_dec). intros y. pose proof (cnt_items_upd h i (Some x) y Hi) as E. rewrite Hz in E.
    cbn [oc count_occ] in *. destruct (item_eq_dec z y); destruct (item_eq_dec x y); lia.
  Qed.

  Lemma in_prios h y : In y (prios h) -> exists k x, h k = Some x /\ prio x = y.
  Proof.
    unfold prios, items. intros Hin. apply in_map_iff in Hin. destruct Hin as (x & <- & Hin).
    apply in_flat_map in Hin. destruct Hin as (k & _ & Hk). exists k, x. split; [|reflexivity].
    destruct (h k) as [z|]; cbn in Hk; [destruct Hk as [->|[]]; reflexivity|destruct Hk].
  Qed.
End Heap.
