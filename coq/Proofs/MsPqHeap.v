(** * Pure facts about the array heap of MSPriorityQueue with the bit-reversed fill order:
      abstract heaps [h : nat -> option item] whose occupied cells are the slots 1..n of the counter. *)
From Coq Require Import ZArith List Bool Lia PeanoNat Permutation.
From LV Require Import Model.MsPq Proofs.MsPqBrc Proofs.MsPqInv Spec.Specs.
Import ListNotations.
Local Open Scope list_scope.

Definition upd {X} (f : nat -> X) (i : nat) (v : X) : nat -> X := fun j => if Nat.eqb j i then v else f j.
Lemma upd_same {X} (f : nat -> X) i v : upd f i v i = v.
Proof. unfold upd. rewrite Nat.eqb_refl. reflexivity. Qed.
Lemma upd_other {X} (f : nat -> X) i v j : j <> i -> upd f i v j = f j.
Proof. unfold upd. intros H. destruct (Nat.eqb_spec j i); congruence. Qed.

Lemma slot_1 : slot 1 = 1.
Proof. reflexivity. Qed.

Lemma div2_lt k : 1 <= k -> Nat.div2 k < k.
Proof. intros H. apply Nat.lt_div2. lia. Qed.
Lemma div2_double p : Nat.div2 (2 * p) = p.
Proof. apply Nat.div2_double. Qed.
Lemma div2_succ_double p : Nat.div2 (S (2 * p)) = p.
Proof. apply Nat.div2_succ_double. Qed.
Lemma div2_children k p : 1 <= p -> Nat.div2 k = p -> k = 2 * p \/ k = S (2 * p).
Proof.
  intros Hp H. destruct (Nat.Even_or_Odd k) as [[m ->]|[m ->]].
  - rewrite div2_double in H. left. lia.
  - replace (2 * m + 1) with (S (2 * m)) in * by lia. rewrite div2_succ_double in H. right. lia.
Qed.

Section Heap.
  Variable cap : nat.
  Hypothesis OK : slots_ok cap = true.
  Hypothesis SH : shape_ok cap = true.

  Definition items (h : nat -> option item) : list item := flat_map (fun i => olist (h i)) (seq 1 cap).
  Definition prios (h : nat -> option item) : list Z := map prio (items h).

  (** the occupied cells are exactly the first n slots *)
  Definition Occ (n : nat) (h : nat -> option item) : Prop :=
    forall i, h i <> None <-> exists j, 1 <= j <= n /\ slot j = i.
  Definition Ordk (h : nat -> option item) (k : nat) : Prop :=
    forall x, h k = Some x -> exists y, h (Nat.div2 k) = Some y /\ (prio x <= prio y)%Z.
  Definition Tags (h : nat -> option item) (tg : nat -> MsPq.tag) : Prop :=
    (forall i, h i = None -> tg i = TEmpty) /\ (forall i, h i <> None -> tg i = TAvail).
  Definition Good (n : nat) (h : nat -> option item) (tg : nat -> MsPq.tag) : Prop :=
    Occ n h /\ Tags h tg /\ forall k, 2 <= k -> Ordk h k.

  Lemma Occ_range n h i : n <= cap -> Occ n h -> h i <> None -> 1 <= i <= cap.
  Proof. intros Hn HO Hi. apply HO in Hi. destruct Hi as (j & Hj & <-). apply (slot_range cap OK). lia. Qed.

  Lemma Occ_slot n h j : Occ n h -> 1 <= j <= n -> h (slot j) <> None.
  Proof. intros HO Hj. apply HO. eauto. Qed.

  Lemma Occ_free n h j : n <= cap -> Occ n h -> n < j <= cap -> h (slot j) = None.
  Proof.
    intros Hn HO Hj. destruct (h (slot j)) eqn:E; [|reflexivity]. exfalso.
    assert (H : h (slot j) <> None) by (rewrite E; discriminate). apply HO in H. destruct H as (j' & Hj' & E').
    apply (slot_inj cap OK) in E'; lia.
  Qed.

  (** a cell whose slot number is beyond every occupied one has no occupied child *)
  Lemma no_child_of_later n h m k :
    n <= cap -> Occ n h -> n < m <= cap -> 2 <= k -> Nat.div2 k = slot m -> h k = None.
  Proof.
    intros Hn HO Hm Hk Hd. destruct (h k) eqn:E; [|reflexivity]. exfalso.
    assert (H : h k <> None) by (rewrite E; discriminate). apply HO in H. destruct H as (j & Hj & <-).
    assert (2 <= j). { destruct (Nat.eq_dec j 1) as [->|]; [rewrite slot_1 in Hk; lia|lia]. }
    destruct (slot_parent cap SH j ltac:(lia)) as (m' & Hm' & E'). rewrite Hd in E'.
    apply (slot_inj cap OK) in E'; lia.
  Qed.

  Lemma parent_occupied n h k : n <= cap -> Occ n h -> 2 <= k -> h k <> None -> h (Nat.div2 k) <> None.
  Proof.
    intros Hn HO Hk H. apply HO in H. destruct H as (j & Hj & <-).
    assert (2 <= j). { destruct (Nat.eq_dec j 1) as [->|]; [rewrite slot_1 in Hk; lia|lia]. }
    destruct (slot_parent cap SH j ltac:(lia)) as (m' & Hm' & E'). rewrite <- E'. apply HO. exists m'. split; [lia|reflexivity].
  Qed.

  Lemma left_before_right n h p : n <= cap -> Occ n h -> 1 <= p -> h (S (2 * p)) <> None -> h (2 * p) <> None.
  Proof.
    intros Hn HO Hp H. apply HO in H. destruct H as (j & Hj & E).
    assert (Ho : Nat.odd (slot j) = true) by (rewrite E, Nat.odd_succ, Nat.even_mul; reflexivity).
    destruct (slot_left cap SH j ltac:(lia) Ho ltac:(lia)) as (m & Hm & E'). apply HO. exists m. split; [lia|]. rewrite E', E. lia.
  Qed.

  Lemma Occ_zero n h : n <= cap -> Occ n h -> h 0 = None.
  Proof.
    intros Hn HO. destruct (h 0) eqn:E; [|reflexivity]. exfalso.
    assert (H : h 0 <> None) by (rewrite E; discriminate). pose proof (Occ_range n h 0 Hn HO H). lia.
  Qed.

  (** the root dominates *)
  Lemma root_max n h tg : n <= cap -> Good n h tg -> forall i x z, h i = Some x -> h 1 = Some z -> (prio x <= prio z)%Z.
  Proof.
    intros Hn (HO & _ & Hord) i. induction i as [i IH] using lt_wf_ind. intros x z Hx Hz.
    destruct (Nat.eq_dec i 0) as [->|N0]; [rewrite (Occ_zero n h Hn HO) in Hx; discriminate|].
    destruct (Nat.eq_dec i 1) as [->|N1]; [rewrite Hx in Hz; inversion Hz; lia|].
    destruct (Hord i ltac:(lia) x Hx) as (y & Hy & Hle).
    pose proof (IH (Nat.div2 i) (div2_lt i ltac:(lia)) y z Hy Hz). lia.
  Qed.

  (** *** multisets of items under cell updates *)
  Lemma cnt_items_upd h i v x :
    1 <= i <= cap -> cnt (items (upd h i v)) x + oc x (h i) = cnt (items h) x + oc x v.
  Proof.
    intros Hi. unfold items.
    pose proof (cnt_flat_map_update h (upd h i v) i x (seq 1 cap) (seq_NoDup _ _)) as H.
    destruct (in_dec Nat.eq_dec i (seq 1 cap)) as [_|Hn]; [|exfalso; apply Hn; apply in_seq; lia].
    rewrite H; [rewrite upd_same; reflexivity|]. intros j Hj. apply upd_other. exact Hj.
  Qed.

  Lemma items_ext h h' : (forall i, h' i = h i) -> items h' = items h.
  Proof. intros H. unfold items. apply flat_map_ext. intros i. rewrite H. reflexivity. Qed.

  Lemma items_store h i x : 1 <= i <= cap -> h i = None -> Permutation (items (upd h i (Some x))) (x :: items h).
  Proof.
    intros Hi Hn. apply (Permutation_count_occ item_eq_dec). intros y.
    pose proof (cnt_items_upd h i (Some x) y Hi) as E. rewrite Hn in E. cbn [oc count_occ] in *.
    destruct (item_eq_dec x y); lia.
  Qed.

  Lemma items_take h i x : 1 <= i <= cap -> h i = Some x -> Permutation (items h) (x :: items (upd h i None)).
  Proof.
    intros Hi Hs. apply (Permutation_count_occ item_eq_dec). intros y.
    pose proof (cnt_items_upd h i None y Hi) as E. rewrite Hs in E. cbn [oc count_occ] in *.
    destruct (item_eq_dec x y); lia.
  Qed.

  Lemma items_swap h i p :
    1 <= i <= cap -> 1 <= p <= cap -> i <> p ->
    Permutation (items (upd (upd h i (h p)) p (h i))) (items h).
  Proof.
    intros Hi Hp Hne. apply (Permutation_count_occ item_eq_dec). intros y.
    pose proof (cnt_items_upd (upd h i (h p)) p (h i) y Hp) as E2.
    pose proof (cnt_items_upd h i (h p) y Hi) as E1. rewrite upd_other in E2 by congruence. lia.
  Qed.

  (** *** the specification side: lists of priorities *)
  Lemma zmax_ge x l : (x <= zmax x l)%Z /\ forall y, In y l -> (y <= zmax x l)%Z.
  Proof.
    unfold zmax. revert x. induction l as [|a l IH]; intros x; cbn [fold_left]; [split; [lia|intros y []]|].
    destruct (IH (Z.max x a)) as [H1 H2]. split; [lia|]. intros y [<-|Hy]; [lia|auto].
  Qed.
  Lemma zmax_in x l : In (zmax x l) (x :: l).
  Proof.
    unfold zmax. revert x. induction l as [|a l IH]; intros x; cbn [fold_left]; [left; reflexivity|].
    destruct (IH (Z.max x a)) as [E|Hin]; [|right; right; exact Hin].
    rewrite <- E. destruct (Z.max_spec x a) as [[_ ->]|[_ ->]]; [right; left; reflexivity|left; reflexivity].
  Qed.

  Lemma remove_one_perm m s : In m s -> Permutation s (m :: remove_one m s).
  Proof.
    induction s as [|y s IH]; [intros []|]. intros Hin. cbn [remove_one]. destruct (Z.eqb_spec m y) as [->|Hne]; [reflexivity|].
    destruct Hin as [E|Hin]; [congruence|]. rewrite (IH Hin) at 1. apply perm_swap.
  Qed.
  Lemma remove_one_length m s : In m s -> S (length (remove_one m s)) = length s.
  Proof. intros Hin. rewrite (Permutation_length (remove_one_perm m s Hin)). reflexivity. Qed.

  (** popping the maximum: what the specification returns and keeps *)
  Lemma pq_pop_max s m r :
    Permutation s (m :: r) -> (forall y, In y r -> (y <= m)%Z) ->
    exists s', pq_pop s = (s', RVal (Some m)) /\ Permutation s' r.
  Proof.
    intros Hp Hmax. destruct s as [|x l]; [apply Permutation_nil in Hp; discriminate|].
    unfold pq_pop. set (mx := zmax x l).
    assert (Hin : In mx (x :: l)) by apply zmax_in.
    assert (Hm : In m (x :: l)) by (eapply Permutation_in; [apply Permutation_sym; exact Hp|left; reflexivity]).
    assert (mx = m).
    { destruct (zmax_ge x l) as [G1 G2].
      assert (m <= mx)%Z by (destruct Hm as [<-|Hm]; [exact G1|apply G2; exact Hm]).
      assert (mx <= m)%Z.
      { pose proof (Permutation_in _ Hp Hin) as [E|Hr]; [lia|apply Hmax; exact Hr]. }
      lia. }
    subst mx. rewrite H. eexists. split; [reflexivity|].
    pose proof (remove_one_perm m (x :: l) Hm) as Hq.
    apply Permutation_cons_inv with (a := m). rewrite <- Hq. exact Hp.
  Qed.
End Heap.
