(** * EllenFull (fork of EllenDelOps.v for the invariant of EllenFullInv.v).  New: [Sm_emit_inv] counts the invocation,
    [Sm_emit_res_read] inserts the linearization point of a read IN HINDSIGHT at the witness [Rd] of its search,
    [Sm_out_of_fuel] stops the thread ([set_stop], [safe_stop]). *)
(** * EllenBinTree<HP> with erase: every program of insert / erase / contains preserves [DInv] — monotone-closed
      safety ([DSm]), the emits of the LP-annotated trace, and the functions of the model *)
From Coq Require Import ZArith List String Bool Lia PeanoNat.
From LV Require Import Base.Conc Base.Events Base.Lin Spec.Specs Proofs.LinProofs.
From LV Require Proofs.MichaelListFullInv.
From LV Require Import Model.Ellen Proofs.EllenProofs Proofs.EllenDelBase Proofs.EllenFullInv Proofs.EllenFullSteps Proofs.EllenFullCas.
Import ListNotations.
Local Open Scope Z_scope.

Definition vle (lv lv' : dview) : Prop := incl (wf lv) (wf lv') /\ wc lv' = wc lv.
Lemma vle_refl lv : vle lv lv. Proof. split; [apply incl_refl|reflexivity]. Qed.
Lemma vle_trans a b c : vle a b -> vle b c -> vle a c.
Proof. intros [A1 A2] [B1 B2]. split; [eapply incl_tran; eauto|congruence]. Qed.
Lemma vle_addf fs lv : vle lv (addf fs lv).
Proof. split; [cbn; apply incl_appr, incl_refl|reflexivity]. Qed.
Lemma vle_in lv lv1 f : vle lv lv1 -> In f (wf lv) -> In f (wf lv1).
Proof. intros [H _]. apply H. Qed.
Lemma vle_core lv lv' c : vle lv lv' -> vle (mkDV (wf lv) c) (mkDV (wf lv') c).
Proof. intros [H _]. split; [exact H|reflexivity]. Qed.
Lemma kpath_mono lv lv' k n : vle lv lv' -> kpath lv k n -> kpath lv' k n.
Proof. intros V [->|H]; [now left|right; eapply vle_in; eauto]. Qed.
Lemma pubk_mono lv lv' n : vle lv lv' -> pubk lv n -> pubk lv' n.
Proof. intros V [->|(k & H)]; [now left|right; exists k; eapply vle_in; eauto]. Qed.

Ltac inl := unfold addf; cbn [wf]; apply in_or_app; left; cbn [In app]; auto 6.

Module MF := MichaelListFullInv.
Section Ops.
Variable keys : list nat.
Notation DSAFE := (DSAFE keys).

Definition DSm {R} (t : nat) (p : prog R) (lv : dview) : Prop := forall lv', vle lv lv' -> DSAFE t p lv'.
Lemma DSm_mono {R} t (p : prog R) lv lv1 : vle lv lv1 -> DSm t p lv -> DSm t p lv1.
Proof. intros V H lv' V'. apply H. eapply vle_trans; eauto. Qed.

Lemma Sm_ret {R} t (r : R) lv : DSm t (Ret r) lv.
Proof. intros lv' _. exact Logic.I. Qed.
Lemma Sm_nx {R} t f (k : V -> prog R) lv : quiet f -> one_acc f -> (forall v, DSm t (k v) lv) -> DSm t (Act f k) lv.
Proof. intros Hq Ho H lv' Hle. apply D_nx; auto. intros v. now apply H. Qed.

Lemma Sm_ld_flags {R} t n (k : V -> prog R) lv :
  pubk lv n ->
  (forall f key lv1, vle lv lv1 -> In (FFl n f key) (wf lv1) -> (n = null -> f = 0) -> (n = root -> f = 5) ->
     (forall f' key', In (FFl n f' key') (wf lv) -> f' = f /\ key' = key) -> DSm t (k (VFl f key)) lv1) ->
  DSm t (Act (a_ld_flags n) k) lv.
Proof.
  intros Hk H lv' Hle. apply D_ld_flags; [eapply pubk_mono; eauto|]. intros f key F0 F5 Fc.
  apply (H f key (addf [FFl n f key] lv')); auto; [eapply vle_trans; [exact Hle|apply vle_addf]|inl| |apply vle_refl].
  intros f' key' Hin. apply Fc. eapply vle_in; eauto.
Qed.

Lemma Sm_ld_upd {R} t x (k : V -> prog R) lv :
  pubk lv x -> (forall w lv1, vle lv lv1 -> In (FAv x w) (wf lv1) -> DSm t (k (VW w)) lv1) -> DSm t (Act (a_ld_upd x) k) lv.
Proof.
  intros Hk H lv' Hle. apply D_ld_upd; [eapply pubk_mono; eauto|]. intros w.
  apply (H w (addf [FAv x w] lv')); [eapply vle_trans; [exact Hle|apply vle_addf]|inl|apply vle_refl].
Qed.

Lemma Sm_ld_child_s {R} t n k0 pp fp kp up (k : V -> prog R) lv :
  fst (cx (wc lv)) = n ->
  kpath lv k0 pp -> In (FFl pp fp kp) (wf lv) -> is_internal_f fp = true -> In (FAv pp up) (wf lv) ->
  (forall c lv1, vle lv lv1 -> c <> root -> In (FEv k0 c) (wf lv1) -> In (FCl pp up (0 <=? cmp_node k0 fp kp) c) (wf lv1) ->
     In (FSn t n k0 pp c) (wf lv1) -> (pp = root -> In (FRc c) (wf lv1)) -> DSm t (k (VP c)) lv1) ->
  DSm t (Act (a_ld_child pp (0 <=? cmp_node k0 fp kp)) k) lv.
Proof.
  intros Hn H1 H2 H3 H4 H lv' Hle. pose proof Hle as [_ L5]. apply (D_ld_child_s keys t k0 pp fp kp up); [eapply kpath_mono; eauto|eapply vle_in; eauto|exact H3|eapply vle_in; eauto|].
  intros c Nc. rewrite L5, Hn.
  apply (H c (addf ([FEv k0 c; FCl pp up (0 <=? cmp_node k0 fp kp) c; FSn t n k0 pp c] ++ (if Nat.eqb pp root then [FRc c] else [])) lv')); [eapply vle_trans; [exact Hle|apply vle_addf]|exact Nc|inl|inl|inl| |apply vle_refl].
  intros ->. unfold addf; cbn [wf]. apply in_or_app. left. apply in_or_app. right. rewrite Nat.eqb_refl. now left.
Qed.

Lemma Sm_ld_upd_seen {R} t n k0 pp c (k : V -> prog R) lv :
  In (FSn t n k0 pp c) (wf lv) ->
  (forall w lv1, vle lv lv1 -> (snd w <> 3%nat -> In (FSeen t n k0 c) (wf lv1)) -> DSm t (k (VW w)) lv1) ->
  DSm t (Act (a_ld_upd pp) k) lv.
Proof.
  intros H1 H lv' Hle. apply (D_ld_upd_seen keys t n k0 pp c); [eapply vle_in; eauto|]. intros w.
  apply (H w (addf (if Nat.eqb (snd w) 3 then [] else [FSeen t n k0 c]) lv')); [eapply vle_trans; [exact Hle|apply vle_addf]| |apply vle_refl].
  intros N. destruct (Nat.eqb_spec (snd w) 3); [contradiction|]. unfold addf; cbn [wf]. now left.
Qed.

Lemma Sm_ld_child_fz {R} t p d d0 c0 (k : V -> prog R) lv :
  In (FFz p d0 c0) (wf lv) -> (forall c lv1, vle lv lv1 -> In (FFz p d c) (wf lv1) -> DSm t (k (VP c)) lv1) ->
  DSm t (Act (a_ld_child p d) k) lv.
Proof.
  intros H1 H lv' Hle. apply (D_ld_child_fz keys t p d d0 c0); [eapply vle_in; eauto|]. intros c.
  apply (H c (addf [FFz p d c] lv')); [eapply vle_trans; [exact Hle|apply vle_addf]|inl|apply vle_refl].
Qed.

Lemma Sm_ld_flags_own {R} t ni f key l r (k : V -> prog R) lv :
  cni (wc lv) = Some (ni, f, key, l, r) -> DSm t (k (VFl f key)) lv -> DSm t (Act (a_ld_flags ni) k) lv.
Proof. intros Ho H lv' Hle. apply (D_ld_flags_own keys t ni f key l r); [destruct Hle as [_ E]; now rewrite E|now apply H]. Qed.

Lemma Sm_alloc_leaf {R} t sr key (k : V -> prog R) lv :
  (t < 64)%nat -> (key < 8)%nat -> (cser (wc lv) <= sr)%nat ->
  (forall v, DSm t (k v) (mkDV (wf lv) (mkC (Some (mk_id t sr 0 key)) (cni (wc lv)) (chs (wc lv)) (S sr) (cst (wc lv)) (cx (wc lv))))) ->
  DSm t (Act (a_st_flags (mk_id t sr 0 key) 0) k) lv.
Proof.
  intros Ht Hk Hs H lv' Hle. pose proof Hle as [_ E]. apply D_alloc_leaf; auto; [rewrite E; exact Hs|].
  intros v. rewrite E. apply (H v). now apply vle_core.
Qed.
Lemma Sm_alloc_ni {R} t sr (k : V -> prog R) lv :
  (t < 64)%nat -> (cser (wc lv) <= sr)%nat ->
  (forall v key l r, DSm t (k v) (mkDV (wf lv) (mkC (cleaf (wc lv)) (Some (mk_id t sr 1 0, 1, key, l, r)) (chs (wc lv)) (S sr) (cst (wc lv)) (cx (wc lv))))) ->
  DSm t (Act (a_st_flags (mk_id t sr 1 0) 1) k) lv.
Proof.
  intros Ht Hs H lv' Hle. pose proof Hle as [_ E]. apply D_alloc_ni; auto; [rewrite E; exact Hs|].
  intros v key l r. rewrite E. apply (H v key l r). now apply vle_core.
Qed.
Lemma vle_set_ni lv lv' x : vle lv lv' -> vle (set_ni lv x) (set_ni lv' x).
Proof. intros [H E]. unfold set_ni. rewrite E. split; [exact H|reflexivity]. Qed.
Lemma Sm_own_ni {R} t f (k : V -> prog R) lv ni f0 key0 l0 r0 f1 key1 l1 r1 :
  one_acc f -> own_store ni f ->
  cni (wc lv) = Some (ni, f0, key0, l0, r0) ->
  (forall g, flags g ni = f0 -> ikey g ni = key0 -> lft g ni = l0 -> rgt g ni = r0 ->
     flags (fst (fst (f g))) ni = f1 /\ ikey (fst (fst (f g))) ni = key1 /\ lft (fst (fst (f g))) ni = l1 /\ rgt (fst (fst (f g))) ni = r1) ->
  (forall v, DSm t (k v) (set_ni lv (Some (ni, f1, key1, l1, r1)))) ->
  DSm t (Act f k) lv.
Proof.
  intros Hone Hos Ho Hf H lv' Hle. eapply D_own_ni; [exact Hone|exact Hos|destruct Hle as [_ E]; rewrite E; exact Ho|exact Hf|].
  intros v. apply H. now apply vle_set_ni.
Qed.
Lemma Sm_st_emp_own {R} t ni f0 key0 l0 r0 v0 (k : V -> prog R) lv :
  cni (wc lv) = Some (ni, f0, key0, l0, r0) -> (forall v, DSm t (k v) (set_ni lv (Some (ni, f0, key0, l0, r0)))) ->
  DSm t (Act (a_st_emp ni v0) k) lv.
Proof.
  intros Ho H lv' Hle. eapply D_st_emp_own; [destruct Hle as [_ E]; rewrite E; exact Ho|]. intros v. apply H. now apply vle_set_ni.
Qed.

Lemma Sm_cas_flag {R} t x w op b ch (k : V -> prog R) lv :
  (b = 1 \/ b = 2)%nat -> snd w = 0%nat ->
  pubk lv x -> (exists fx kx, In (FFl x fx kx) (wf lv) /\ is_internal_f fx = true) ->
  (4 <= op)%nat -> owner_of op = t -> (cser (wc lv) <= ser_of op)%nat ->
  (forall d c, In (d, c) ch -> In (FCl x w d c) (wf lv)) ->
  (forall cur, DSm t (k (VCW false cur)) lv) ->
  DSm t (k (VCW true w))
    (mkDV (wf lv) (mkC (cleaf (wc lv)) (cni (wc lv)) (mkH x op b None None ch :: chs (wc lv)) (S (ser_of op)) (cst (wc lv)) (cx (wc lv)))) ->
  DSm t (Act (a_cas_upd x (fst w, 0%nat) (op, b)) k) lv.
Proof.
  intros A1 A2 A3 (fx & kx & A4 & A4') A5 A6 A7 A8 Hf Hok lv' Hle. pose proof Hle as [_ E].
  apply (D_cas_flag keys t x w op b ch); auto; [eapply pubk_mono; eauto|exists fx, kx; split; [eapply vle_in; eauto|exact A4']|rewrite E; exact A7| | |].
  - intros d c Hin. eapply vle_in; eauto.
  - intros cur. now apply Hf.
  - rewrite E. apply Hok. now apply vle_core.
Qed.

Lemma vle_set_chs lv lv' fs hs : vle lv lv' -> vle (set_chs lv fs hs) (set_chs lv' fs hs).
Proof. intros [H E]. unfold set_chs. rewrite E. split; [cbn; apply incl_app; [apply incl_appl, incl_refl|apply incl_appr; exact H]|reflexivity]. Qed.

Lemma Sm_cas_mark {R} t gp p w op ch0 chf (k : V -> prog R) lv :
  In (mkH gp op 1 None None ch0) (chs (wc lv)) -> snd w = 0%nat -> pubk lv p ->
  (forall d c, In (d, c) chf -> In (FCl p w d c) (wf lv)) ->
  (forall cur, u_eqb cur (op, 3%nat) = false -> DSm t (k (VCW false cur)) lv) ->
  DSm t (k (VCW true w))
    (set_chs lv (map (fun dc => FFz p (fst dc) (snd dc)) chf) (hrep op (mkH gp op 1 None (Some p) ch0) (chs (wc lv)))) ->
  DSm t (Act (a_cas_upd p (fst w, 0%nat) (op, 3%nat)) k) lv.
Proof.
  intros A1 A2 A3 A4 Hf Hok lv' Hle. pose proof Hle as [_ E].
  apply (D_cas_mark keys t gp p w op ch0 chf); auto; [rewrite E; exact A1|eapply pubk_mono; eauto| | |].
  - intros d c Hin. eapply vle_in; eauto.
  - intros cur Hc. now apply Hf.
  - rewrite E. apply Hok. now apply vle_set_chs.
Qed.

Lemma Sm_faa_emp {R} t x op b mk ch (k : V -> prog R) lv :
  In (mkH x op b None mk ch) (chs (wc lv)) ->
  (forall n, DSm t (k (VN n)) (set_chs lv [] (hrep op (mkH x op b (Some n) mk ch) (chs (wc lv))))) ->
  DSm t (Act (a_faa_emp x) k) lv.
Proof.
  intros A1 H lv' Hle. pose proof Hle as [_ E]. apply (D_faa_emp keys t x op b mk ch); [rewrite E; exact A1|].
  intros n. rewrite E. apply H. now apply vle_set_chs.
Qed.

Lemma Sm_cas_unflag {R} t x op b n mk ch (k : V -> prog R) lv :
  In (mkH x op b (Some n) mk ch) (chs (wc lv)) ->
  DSm t (k (VCW true (op, b))) (set_chs lv [] (hrem op (chs (wc lv)))) ->
  DSm t (Act (a_cas_upd x (op, b) (S n, 0%nat)) k) lv.
Proof.
  intros A1 H lv' Hle. pose proof Hle as [_ E]. apply (D_cas_unflag keys t x op b n mk ch); [rewrite E; exact A1|].
  rewrite E. apply H. now apply vle_set_chs.
Qed.

Lemma Sm_cas_child_ins {R} t k0 p fp kp l0 f0 kl ni fn keyn a b leaf op chx (k : V -> prog R) lv :
  0 <= k0 < 8 ->
  kpath lv k0 p -> In (FFl p fp kp) (wf lv) -> is_internal_f fp = true ->
  In (FFl l0 f0 kl) (wf lv) -> is_internal_f f0 = false ->
  cni (wc lv) = Some (ni, fn, keyn, a, b) -> cleaf (wc lv) = Some leaf -> lkey leaf = k0 ->
  ins_shape k0 p l0 f0 leaf fn keyn a b ->
  In (mkH p op 2 None None chx) (chs (wc lv)) -> In (0 <=? cmp_node k0 fp kp, l0) chx ->
  cst (wc lv) = @Pending SetSpec (SInsert k0) ->
  DSm t (k (VCP true l0))
    (mkDV (wf lv) (mkC None None (hrep op (mkH p op 2 None None []) (chs (wc lv))) (cser (wc lv)) (@Linearized SetSpec (SInsert k0) (RBool true)) (cx (wc lv)))) ->
  DSm t (Act (a_cas_child p (0 <=? cmp_node k0 fp kp) l0 ni) k) lv.
Proof.
  intros A1 A2 A3 A4 A5 A6 A7 A8 A9 A10 A11 A12 A13 Hok lv' Hle. pose proof Hle as [_ E].
  apply (D_cas_child_ins keys t k0 p fp kp l0 f0 kl ni fn keyn a b leaf op chx); auto;
    try (eapply vle_in; eauto; fail); try (rewrite E; assumption); [eapply kpath_mono; eauto|].
  rewrite E. apply Hok. now apply vle_core.
Qed.

Lemma Sm_cas_child_splice {R} t k0 gp p rp rl lf sib f0 kl fpp kpp op chx (k : V -> prog R) lv :
  0 <= k0 < 8 ->
  kpath lv k0 gp ->
  In (FFl p fpp kpp) (wf lv) -> is_internal_f fpp = true ->
  In (FFl lf f0 kl) (wf lv) -> is_internal_f f0 = false -> cmp_node k0 f0 (lkey lf) = 0 ->
  In (FFz p rl lf) (wf lv) -> In (FFz p (negb rl) sib) (wf lv) ->
  In (mkH gp op 1 None (Some p) chx) (chs (wc lv)) -> In (rp, p) chx ->
  cst (wc lv) = @Pending SetSpec (SErase k0) ->
  DSm t (k (VCP true p))
    (mkDV (wf lv) (mkC (cleaf (wc lv)) (cni (wc lv)) (hrep op (mkH gp op 1 None (Some p) []) (chs (wc lv))) (cser (wc lv))
                       (@Linearized SetSpec (SErase k0) (RBool true)) (cx (wc lv)))) ->
  DSm t (Act (a_cas_child gp rp p sib) k) lv.
Proof.
  intros A1 A2 A3 A4 A5 A6 A7 A8 A9 A10 A11 A12 Hok lv' Hle. pose proof Hle as [_ E].
  apply (D_cas_child_splice keys t k0 gp p rp rl lf sib f0 kl fpp kpp op chx); auto;
    try (eapply vle_in; eauto; fail); try (rewrite E; assumption); [eapply kpath_mono; eauto|].
  rewrite E. apply Hok. now apply vle_core.
Qed.

(** ** client events: the LP-annotated trace *)
Definition set_st (lv : dview) (st : status SetSpec) : dview :=
  mkDV (wf lv) (mkC (cleaf (wc lv)) (cni (wc lv)) (chs (wc lv)) (cser (wc lv)) st (cx (wc lv))).
Lemma vle_set_st lv lv' st : vle lv lv' -> vle (set_st lv st) (set_st lv' st).
Proof. intros [H E]. unfold set_st. rewrite E. split; [exact H|reflexivity]. Qed.
(** invocation: the operation counter of the thread is incremented *)
Definition set_inv (lv : dview) (o : set_op) : dview :=
  mkDV (wf lv) (mkC (cleaf (wc lv)) (cni (wc lv)) (chs (wc lv)) (cser (wc lv)) (@Pending SetSpec o) (S (fst (cx (wc lv))), snd (cx (wc lv)))).
Lemma vle_set_inv lv lv' o : vle lv lv' -> vle (set_inv lv o) (set_inv lv' o).
Proof. intros [H E]. unfold set_inv. rewrite E. split; [exact H|reflexivity]. Qed.
(** out of fuel: the thread is stopped *)
Definition set_stop (lv : dview) : dview :=
  mkDV (wf lv) (mkC (cleaf (wc lv)) (cni (wc lv)) (chs (wc lv)) (cser (wc lv)) (cst (wc lv)) (fst (cx (wc lv)), true)).

Lemma D_emit_gen {R} t es (k : prog R) lv lv1 :
  (forall g a tr, DInvA keys g a tr -> view a t = lv ->
     exists atr', bad (tr ++ Conc.tag t es) \/ DInvA keys g (mk_a a t (dpub a) (dever a) (ddead a) (dmax a) lv1 atr') (tr ++ Conc.tag t es)) ->
  DSAFE t k lv1 -> DSAFE t (Emit es k) lv.
Proof.
  intros H Hk. unfold EllenFullInv.DSAFE. cbn [Conc.safe]. intros g a tr [Hex|Hi] Hv.
  - exists (mk_a a t (dpub a) (dever a) (ddead a) (dmax a) deadv (datr a)). split; [left; now apply bad_app|]. split; [apply frame_mk|].
    rewrite view_mk_same. apply safe_dead.
  - destruct (H g a tr Hi Hv) as (atr' & H1).
    exists (mk_a a t (dpub a) (dever a) (ddead a) (dmax a) lv1 atr'). split; [exact H1|]. split; [apply frame_mk|]. now rewrite view_mk_same.
Qed.

(** the view of [t] is replaced by one with the same facts and the same tree-related core; the annotated trace is extended *)
Lemma DS_set_v g a t lv lv2 atr' :
  DS g a -> view a t = lv -> lv_ok g a t lv2 -> atr_ext (datr a) atr' -> DS g (mk_a a t (dpub a) (dever a) (ddead a) (dmax a) lv2 atr').
Proof.
  intros Hs Hv Hok Hx.
  destruct (keep_feq t g g a lv lv2 (feq_refl g) Hs Hv Hok) as (A1 & A2 & A3 & A4 & A5 & A6).
  assert (A1' : stepR t g a g (mk_a a t (dpub a) (dever a) (ddead a) (dmax a) lv2 atr')) by (apply stepR_feq; [apply feq_refl|exact Hx]).
  apply (DS_keep t g a g (dmax a) lv2 atr' Hs A1' A2 A3 A4 A5).
  destruct Hok as (F & rest). split; [eapply facts_stable_all; [exact A1'|exact F]|exact rest].
Qed.
Lemma DS_set_st g a t lv st atr' : DS g a -> view a t = lv -> atr_ext (datr a) atr' -> DS g (mk_a a t (dpub a) (dever a) (ddead a) (dmax a) (set_st lv st) atr').
Proof. intros Hs Hv. apply (DS_set_v g a t lv); [exact Hs|exact Hv|]. pose proof (d_views _ _ Hs t) as X; rewrite Hv in X; exact X. Qed.

Lemma count_inv_snoc u A e : count_inv u (A ++ [e]) = (count_inv u A + (if is_ainv u e then 1 else 0))%nat.
Proof. rewrite count_inv_app. unfold count_inv at 2. cbn [filter]. destruct (is_ainv u e); reflexivity. Qed.

Lemma Sm_emit_inv {R} t c key (k : prog R) lv :
  cst (wc lv) = @Idle SetSpec -> DSm t k (set_inv lv (sp_op c key)) -> DSm t (Emit (ev_inv c key) k) lv.
Proof.
  intros Hst Hk lv' Hle. pose proof Hle as [_ L5].
  apply D_emit_gen with (lv1 := set_inv lv' (sp_op c key)); [|apply Hk; now apply vle_set_inv].
  intros g a tr [Hs Hil] Hv. exists (datr a ++ [@AInv SetSpec t (sp_op c key)]).
  destruct (snd (cx (wc (view a t)))) eqn:Estop; [left; unfold ev_inv; eapply stop_or; eauto|right].
  split; [apply (DS_set_v g a t lv'); [exact Hs|exact Hv|pose proof (d_views _ _ Hs t) as X; rewrite Hv in X; exact X|apply atr_ext_app]|].
  pose proof Hil as [(S & st & H1 & H2 & H3) H4 H5 H6]. constructor; cbn [datr mk_a].
  - exists S, (Lin.upd st t (@Pending SetSpec (sp_op c key))). split; [|split; [|exact H3]].
    + rewrite (MI.lp_run_snoc _ _ _ H1). cbn [lp_step]. rewrite H2, Hv, L5, Hst. reflexivity.
    + intros u. destruct (Nat.eq_dec u t) as [->|Hu]; [now rewrite view_mk_same, upd_same|].
      rewrite view_mk_other by exact Hu. rewrite upd_other by exact Hu. apply H2.
  - unfold ev_inv. cbn [Conc.tag map]. rewrite full_hist_snoc, erase_app. cbn [erase fstep String.eqb Ascii.eqb Bool.eqb]. now rewrite H4.
  - intros u. rewrite count_inv_snoc. cbn [is_ainv]. destruct (Nat.eq_dec u t) as [->|Hu].
    + rewrite view_mk_same, Nat.eqb_refl. cbn [set_inv wc cx fst]. rewrite H5, Hv. lia.
    + rewrite view_mk_other by exact Hu. destruct (Nat.eqb_spec t u); [congruence|]. rewrite Nat.add_0_r. apply H5.
  - eapply l_stop_step; [exact Hil|]. cbn [set_inv wc cx snd]. rewrite <- Hv. exact Estop.
Qed.

Lemma res_eqb_refl (r : Specs.res) : res_eqb SetSpec r r = true.
Proof. apply (res_eqb_spec SetSpec). reflexivity. Qed.

(** response of an operation that was linearized at its child CAS *)
Lemma Sm_emit_res_lin {R} t o b (k : prog R) lv :
  cst (wc lv) = @Linearized SetSpec o (RBool true) -> MI.is_read o (RBool true) = false ->
  DSm t k (set_st lv (@Idle SetSpec)) -> DSm t (Emit (ev_res 1 b) k) lv.
Proof.
  intros Hst Hrd Hk lv' Hle. pose proof Hle as [_ L5].
  apply D_emit_gen with (lv1 := set_st lv' (@Idle SetSpec)); [|apply Hk; now apply vle_set_st].
  intros g a tr [Hs Hil] Hv. exists (datr a ++ [@ARes SetSpec t (RBool true)]).
  destruct (snd (cx (wc (view a t)))) eqn:Estop; [left; unfold ev_res; eapply stop_or; eauto|right].
  split; [apply DS_set_st; [exact Hs|exact Hv|apply atr_ext_app]|].
  pose proof Hil as [(S & st & H1 & H2 & H3) H4 H5 H6]. assert (Est : st t = @Linearized SetSpec o (RBool true)) by (rewrite H2, Hv, L5; exact Hst).
  constructor; cbn [datr mk_a].
  - exists S, (Lin.upd st t (@Idle SetSpec)). split; [|split; [|exact H3]].
    + rewrite (MI.lp_run_snoc _ _ _ H1). cbn [lp_step]. rewrite Est, res_eqb_refl. reflexivity.
    + intros u. destruct (Nat.eq_dec u t) as [->|Hu]; [now rewrite view_mk_same, upd_same|].
      rewrite view_mk_other by exact Hu. rewrite upd_other by exact Hu. apply H2.
  - unfold ev_res. cbn [Conc.tag map]. rewrite full_hist_snoc, erase_app. cbn [erase fstep String.eqb Ascii.eqb Bool.eqb]. now rewrite H4.
  - intros u. rewrite count_inv_snoc. cbn [is_ainv]. rewrite Nat.add_0_r.
    destruct (Nat.eq_dec u t) as [->|Hu]; [rewrite view_mk_same; cbn [set_st wc cx]; rewrite H5, Hv; reflexivity|]. rewrite view_mk_other by exact Hu. apply H5.
  - eapply l_stop_step; [exact Hil|]. cbn [set_st wc cx]. rewrite <- Hv. exact Estop.
Qed.

(** what the search of the current operation of [t] (the [n]-th of [t]) has established: the leaf [c] was the leaf at the
    end of the search path of the key at an instant after the invocation ([FSeen]), [found] is its comparison with the key *)
Definition Rd (t : nat) (lv : dview) (o : set_op) (found : bool) : Prop :=
  exists c f0 kl, In (FSeen t (fst (cx (wc lv))) (MF.op_key o) c) (wf lv) /\ In (FFl c f0 kl) (wf lv) /\ is_internal_f f0 = false /\
                  found = (cmp_node (MF.op_key o) f0 (lkey c) =? 0).
Lemma Rd_mono t lv lv1 o fd : vle lv lv1 -> Rd t lv o fd -> Rd t lv1 o fd.
Proof.
  intros V (c & f0 & kl & A & B & C & D). pose proof V as [_ Vc]. exists c, f0, kl. rewrite Vc.
  split; [eapply vle_in; eauto|]. split; [eapply vle_in; eauto|auto].
Qed.

Lemma found_leaf_is g c k f0 : flags g c = f0 -> (leaf_is g c k <-> (cmp_node k f0 (lkey c) =? 0) = true).
Proof.
  intros <-. unfold leaf_is, cmp_node, cmp3. destruct (Z.eqb_spec (inf_of (flags g c)) 0) as [E|E].
  - destruct (Z.ltb_spec k (lkey c)); [split; [intros [_ X]; lia|discriminate]|].
    destruct (Z.eqb_spec k (lkey c)); [split; [reflexivity|intros _; split; [exact E|congruence]]|split; [intros [_ X]; congruence|discriminate]].
  - split; [intros [X _]; contradiction|discriminate].
Qed.

(** response of an operation that did not modify the set (contains, insert -> false, erase -> false): its linearization
    point is inserted IN HINDSIGHT at the instant of the child load that yielded the leaf [c] of [Rd] *)
Lemma Sm_emit_res_read {R} t o found ra b (k : prog R) lv :
  cst (wc lv) = @Pending SetSpec o -> Rd t lv o found -> MF.obs_res o found = Some (RBool (ra =? 1)) ->
  DSm t k (set_st lv (@Idle SetSpec)) -> DSm t (Emit (ev_res ra b) k) lv.
Proof.
  intros Hst HRd Hobs Hk lv' Hle. pose proof Hle as [_ L5]. apply (Rd_mono t lv lv' o found Hle) in HRd.
  apply D_emit_gen with (lv1 := set_st lv' (@Idle SetSpec)); [|apply Hk; now apply vle_set_st].
  intros g a tr [Hs Hil] Hv.
  destruct (snd (cx (wc (view a t)))) eqn:Estop; [exists (datr a); left; unfold ev_res; eapply stop_or; eauto|].
  pose proof Hil as [(S & st & H1 & H2 & H3) H4 H5 H6]. assert (Est : st t = @Pending SetSpec o) by (rewrite H2, Hv, L5; exact Hst).
  destruct HRd as (c & f0 & kl & Hsn & Hfl & Hlf & Hfd).
  destruct (facts_of g a t lv' _ Hs Hv Hfl) as (_ & F1 & _).
  destruct (facts_of g a t lv' _ Hs Hv Hsn) as (_ & [Ic|(A & B & S0 & st0 & EA & HA & HcA & Hz)]).
  { exfalso. unfold internal in Ic. rewrite F1, Hlf in Ic. discriminate. }
  assert (Hz' : zmem (MF.op_key o) S0 = found).
  { rewrite Hfd. pose proof (found_leaf_is g c (MF.op_key o) f0 F1) as X.
    destruct (zmem (MF.op_key o) S0); destruct (cmp_node (MF.op_key o) f0 (lkey c) =? 0); try reflexivity; exfalso.
    - assert (Y : false = true) by (apply X, Hz; reflexivity). discriminate.
    - assert (Y : false = true) by (apply Hz, X; reflexivity). discriminate. }
  pose proof (MF.obs_res_step o found _ S0 Hobs Hz') as Hstep.
  rewrite EA in H1. assert (Hcnt : count_inv t (A ++ B) = count_inv t A) by (rewrite <- EA, H5, HcA, Hv; reflexivity).
  destruct (hind_insert A B S0 st0 S st t o _ H1 HA Hcnt Est Hstep) as ((st2 & K1 & K2 & K3) & Kx).
  exists (A ++ ALin t :: B ++ [@ARes SetSpec t (RBool (ra =? 1))]). right.
  split; [apply DS_set_st; [exact Hs|exact Hv|rewrite EA; exact Kx]|].
  constructor; cbn [datr mk_a].
  - exists S, st2. split; [exact K1|]. split; [|exact H3].
    intros u. destruct (Nat.eq_dec u t) as [->|Hu]; [now rewrite view_mk_same|].
    rewrite view_mk_other by exact Hu. rewrite K3 by exact Hu. apply H2.
  - unfold ev_res. cbn [Conc.tag map]. rewrite full_hist_snoc. cbn [fstep String.eqb Ascii.eqb Bool.eqb].
    rewrite <- H4, EA, !erase_app. cbn [erase]. rewrite erase_app. cbn [erase]. now rewrite app_assoc.
  - intros u. replace (A ++ ALin t :: B ++ [@ARes SetSpec t (RBool (ra =? 1))]) with ((A ++ ALin t :: B) ++ [@ARes SetSpec t (RBool (ra =? 1))]) by (rewrite <- app_assoc; reflexivity).
    rewrite count_inv_snoc. cbn [is_ainv]. rewrite Nat.add_0_r, count_inv_lin, <- EA.
    destruct (Nat.eq_dec u t) as [->|Hu]; [rewrite view_mk_same; cbn [set_st wc cx]; rewrite H5, Hv; reflexivity|]. rewrite view_mk_other by exact Hu. apply H5.
  - eapply l_stop_step; [exact Hil|]. cbn [set_st wc cx]. rewrite <- Hv. exact Estop.
Qed.

(** a thread that runs out of the model's loop fuel is stopped: if it goes on (the continuation of the model then is not a
    client program of the library: the operation never returned) the trace is [bad] *)
Definition stop_ok {R} (p : prog R) : Prop := match p with Ret _ => True | Emit (_ :: _) _ => True | _ => False end.

Lemma safe_stop {R} t (p : prog R) lv : stop_ok p -> snd (cx (wc lv)) = true -> DSAFE t p lv.
Proof.
  intros Hp Hs. destruct p as [r|es k|f k]; [exact Logic.I| |contradiction]. destruct es as [|e es]; [contradiction|].
  unfold EllenFullInv.DSAFE. cbn [Conc.safe]. intros g a tr Hi Hv.
  exists (mk_a a t (dpub a) (dever a) (ddead a) (dmax a) deadv (datr a)). split; [|split; [apply frame_mk|rewrite view_mk_same; apply safe_dead]].
  left. destruct Hi as [Hex|[_ Hil]]; [now apply bad_app|]. eapply stop_or; [exact Hil|rewrite Hv; exact Hs].
Qed.

Lemma Sm_out_of_fuel {R} t s (k : TL -> prog R) lv : stop_ok (k s) -> DSm t (out_of_fuel s k) lv.
Proof.
  intros Hso lv' Hle. unfold out_of_fuel. apply D_emit_gen with (lv1 := set_stop lv'); [|apply safe_stop; [exact Hso|reflexivity]].
  intros g a tr [Hs Hil] Hv. exists (datr a).
  destruct (snd (cx (wc (view a t)))) eqn:Estop; [left; eapply stop_or; eauto|right].
  split; [apply (DS_set_v g a t lv'); [exact Hs|exact Hv|pose proof (d_views _ _ Hs t) as X; rewrite Hv in X; exact X|apply atr_ext_refl]|].
  pose proof Hil as [(S & st & H1 & H2 & H3) H4 H5 H6]. constructor; cbn [datr mk_a].
  - exists S, st. split; [exact H1|]. split; [|exact H3].
    intros u. destruct (Nat.eq_dec u t) as [->|Hu]; [rewrite view_mk_same; cbn [set_stop wc cst]; rewrite H2, Hv; reflexivity|].
    rewrite view_mk_other by exact Hu. apply H2.
  - cbn [Conc.tag map]. rewrite full_hist_snoc. cbn [fstep String.eqb Ascii.eqb Bool.eqb]. exact H4.
  - intros u. destruct (Nat.eq_dec u t) as [->|Hu]; [rewrite view_mk_same; cbn [set_stop wc cx fst]; rewrite H5, Hv; reflexivity|]. rewrite view_mk_other by exact Hu. apply H5.
  - intros u. destruct (Nat.eq_dec u t) as [->|Hu].
    + intros _. exists tr, []. split; [reflexivity|intros e []].
    + rewrite view_mk_other by exact Hu. intros Hsu. apply last_oof_other; [apply (H6 u Hsu)|now apply tag_other].
Qed.

End Ops.
