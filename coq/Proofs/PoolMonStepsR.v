(** * pool_monitor: the reference-counter group InvR under the four steps that write m_RefSpin. *)
From Coq Require Import ZArith List String Bool Lia PeanoNat.
From LV Require Import Base.Conc Base.Events Model.PoolMon Proofs.PoolMonBase Proofs.PoolMonSteps.
Import ListNotations.

(** remove one occurrence *)
Fixpoint rem1 (t : nat) (l : list nat) : list nat :=
  match l with
  | [] => []
  | a :: r => if Nat.eqb a t then r else a :: rem1 t r
  end.

Lemma count_rem1 t l t0 :
  count_occ Nat.eq_dec (rem1 t l) t0 = if Nat.eqb t0 t then pred (count_occ Nat.eq_dec l t) else count_occ Nat.eq_dec l t0.
Proof.
  induction l as [|a r IH]; cbn [rem1 count_occ]; [destruct (Nat.eqb t0 t); reflexivity|].
  destruct (Nat.eqb_spec a t) as [Ea|Na].
  - subst a. destruct (Nat.eq_dec t t) as [_|X]; [|congruence]. destruct (Nat.eqb_spec t0 t) as [E0|N0].
    + subst t0. destruct (Nat.eq_dec t t); [reflexivity|congruence].
    + destruct (Nat.eq_dec t t0); [congruence|reflexivity].
  - cbn [count_occ]. rewrite IH. destruct (Nat.eqb_spec t0 t) as [E0|N0].
    + subst t0. destruct (Nat.eq_dec a t); [congruence|]. reflexivity.
    + reflexivity.
Qed.

Lemma length_rem1 t l : count_occ Nat.eq_dec l t >= 1 -> S (List.length (rem1 t l)) = List.length l.
Proof.
  induction l as [|a r IH]; cbn [rem1 count_occ List.length]; [lia|].
  destruct (Nat.eqb_spec a t) as [Ea|Na].
  - reflexivity.
  - destruct (Nat.eq_dec a t); [congruence|]. intros H. cbn [List.length]. rewrite IH; auto.
Qed.

Lemma len1_only t l : List.length l = 1 -> count_occ Nat.eq_dec l t >= 1 -> forall t0, t0 <> t -> count_occ Nat.eq_dec l t0 = 0.
Proof.
  destruct l as [|a [|b r]]; cbn; try lia. intros _ H t0 N.
  destruct (Nat.eq_dec a t); [subst|lia]. destruct (Nat.eq_dec t t0); congruence.
Qed.

Definition bitfree (vs : Views) (n : nat) : Prop := forall t0, bitph (fst (vs t0)) n = false.

Lemma R_even g vs rf n k : InvR g vs rf -> refspin g n = 2 * k -> bitfree vs n /\ k = List.length (rf n).
Proof.
  intros (_ & R2 & _) H. destruct (R2 n) as [[_ E]|[Hb E]]; [lia|]. split; [exact Hb|lia].
Qed.

Lemma R_bit g vs rf t n : InvR g vs rf -> bitph (fst (vs t)) n = true ->
  refspin g n = 2 * List.length (rf n) + 1 /\ forall t0, t0 <> t -> bitph (fst (vs t0)) n = false.
Proof.
  intros (_ & R2 & R3 & _) H. split.
  - destruct (R2 n) as [[_ E]|[Hb _]]; [exact E|]. rewrite Hb in H. discriminate.
  - intros t0 N. destruct (bitph (fst (vs t0)) n) eqn:E; [|reflexivity]. exfalso. apply N. eapply R3; eauto.
Qed.

Definition R4ok (g : G) (p : phase) : Prop :=
  match p with
  | LBitS n c _ | LBitA n c => refspin g n = c + 3
  | UBit n c o => refspin g n = c + 1 /\ (c <> 2 -> o = None)
  | _ => True
  end.

(** R4 of another thread survives a write to m_RefSpin of node n when that thread has no bit on n *)
Lemma R4_other g g' p n :
  R4ok g p -> bitph p n = false -> (forall n0, n0 <> n -> refspin g' n0 = refspin g n0) -> R4ok g' p.
Proof.
  intros H Hb Hr. destruct p; cbn in *; auto; apply Nat.eqb_neq in Hb; rewrite Hr by congruence; auto.
Qed.

Section Steps.
  Variables (g g' : G) (vs : Views) (rf : nat -> list nat) (t n : nat) (s : list (nat * nat)).

  (** the thread takes the spin bit (and, for lock(), a reference) *)
  Lemma InvR_take k p p' (incr : bool) newv :
    InvR g vs rf -> vs t = (p, s) -> refspin g n = 2 * k ->
    refspin g' n = newv -> (forall n0, n0 <> n -> refspin g' n0 = refspin g n0) ->
    newv = 2 * (k + b2n incr) + 1 ->
    bitph p n = false ->
    (forall n0, refph p' n0 = refph p n0 + (if incr then b2n (Nat.eqb n n0) else 0)) ->
    (forall n0, bitph p' n0 = bitph p n0 || Nat.eqb n n0) ->
    R4ok g' p' ->
    InvR g' (upd vs t (p', s)) (if incr then updn rf n (t :: rf n) else rf).
  Proof.
    intros HR Hv Hr Hnew Hoth Hval Hbp Hrp Hbp' H4.
    destruct (R_even _ _ _ _ _ HR Hr) as [Hfree Hlen]. destruct HR as (R1 & R2 & R3 & R4).
    assert (Eb : forall t0 n0, bitph (fst (upd vs t (p', s) t0)) n0 = bitph (fst (vs t0)) n0 || (Nat.eqb t0 t && Nat.eqb n n0)).
    { intros t0 n0. destruct (Nat.eqb_spec t0 t) as [E|N]; [subst t0; rewrite upd_same, Hv; cbn [fst]; rewrite Hbp'; cbn; reflexivity|].
      rewrite upd_other by exact N. cbn. now rewrite orb_false_r. }
    split; [|split; [|split]].
    - intros t0 n0. destruct (Nat.eq_dec t0 t) as [E|N]; [subst t0; rewrite upd_same|rewrite upd_other by exact N].
      + specialize (R1 t n0). rewrite Hv in R1. unfold nrefs in *. cbn [fst snd] in *. rewrite Hrp.
        destruct incr; [|lia]. unfold updn. destruct (Nat.eqb_spec n0 n) as [E|Nn]; [subst n0|].
        * cbn [count_occ]. destruct (Nat.eq_dec t t); [|congruence]. rewrite Nat.eqb_refl. cbn. lia.
        * destruct (Nat.eqb_spec n n0); [congruence|]. cbn. lia.
      + destruct incr; [|apply R1]. unfold updn. destruct (Nat.eqb_spec n0 n) as [E|Nn]; [subst n0|apply R1].
        cbn [count_occ]. destruct (Nat.eq_dec t t0); [congruence|]. apply R1.
    - intros n0. destruct (Nat.eq_dec n0 n) as [E|Nn]; [subst n0|].
      + left. split; [exists t; rewrite Eb, !Nat.eqb_refl; apply orb_true_r|]. rewrite Hnew, Hval.
        destruct incr; cbn [b2n]; [unfold updn; rewrite Nat.eqb_refl; cbn [List.length]|]; lia.
      + rewrite Hoth by exact Nn.
        assert (Er : (if incr then updn rf n (t :: rf n) else rf) n0 = rf n0).
        { destruct incr; [|reflexivity]. unfold updn. destruct (Nat.eqb_spec n0 n); [congruence|reflexivity]. }
        rewrite Er. destruct (R2 n0) as [[[t0 H0] E]|[H0 E]].
        * left. split; auto. exists t0. rewrite Eb, H0. reflexivity.
        * right. split; auto. intros t0. rewrite Eb, H0. destruct (Nat.eqb_spec n n0); [congruence|]. now rewrite andb_false_r.
    - intros t1 t2 n0. rewrite !Eb. intros H1 H2. destruct (Nat.eqb_spec n n0) as [E|Nn]; [subst n0|].
      + rewrite !Hfree, !andb_true_r in *. cbn in *. apply Nat.eqb_eq in H1, H2. congruence.
      + rewrite !andb_false_r, !orb_false_r in *. eapply R3; eauto.
    - intros t0. destruct (Nat.eq_dec t0 t) as [E|N]; [subst t0; rewrite upd_same; exact H4|].
      rewrite upd_other by exact N. eapply (R4_other g g' _ n); eauto. apply R4.
  Qed.

  (** the thread gives the spin bit back (and, for unlock(), its reference) *)
  Lemma InvR_give p p' (decr : bool) newv :
    InvR g vs rf -> vs t = (p, s) -> bitph p n = true ->
    refspin g' n = newv -> (forall n0, n0 <> n -> refspin g' n0 = refspin g n0) ->
    newv + 1 + 2 * b2n decr = refspin g n ->
    (forall n0, refph p n0 = refph p' n0 + (if decr then b2n (Nat.eqb n n0) else 0)) ->
    (forall n0, bitph p' n0 = false) -> (forall n0, n0 <> n -> bitph p n0 = false) ->
    R4ok g' p' ->
    InvR g' (upd vs t (p', s)) (if decr then updn rf n (rem1 t (rf n)) else rf).
  Proof.
    intros HR Hv Hb Hnew Hoth Hval Hrp Hbp' Hbo H4.
    assert (Hb' : bitph (fst (vs t)) n = true) by (rewrite Hv; exact Hb).
    destruct (R_bit _ _ _ _ _ HR Hb') as [Hrs Hfree]. destruct HR as (R1 & R2 & R3 & R4).
    assert (Hcnt : count_occ Nat.eq_dec (rf n) t >= 1).
    { rewrite R1, Hv. unfold nrefs. cbn [fst snd]. destruct p; cbn in Hb; try discriminate; cbn; rewrite Hb; cbn; lia. }
    assert (Eb : forall t0 n0, bitph (fst (upd vs t (p', s) t0)) n0 = bitph (fst (vs t0)) n0 && negb (Nat.eqb t0 t)).
    { intros t0 n0. destruct (Nat.eqb_spec t0 t) as [E|N]; [subst t0; rewrite upd_same; cbn [fst]; rewrite Hbp'; now rewrite andb_false_r|].
      rewrite upd_other by exact N. now rewrite andb_true_r. }
    split; [|split; [|split]].
    - intros t0 n0. destruct (Nat.eq_dec t0 t) as [E|N]; [subst t0; rewrite upd_same|rewrite upd_other by exact N].
      + specialize (R1 t n0). rewrite Hv in R1. unfold nrefs in *. cbn [fst snd] in *. rewrite Hrp in R1.
        destruct decr; [|lia]. unfold updn. destruct (Nat.eqb_spec n0 n) as [E|Nn]; [subst n0|].
        * rewrite count_rem1, Nat.eqb_refl. rewrite Nat.eqb_refl in R1. cbn in R1. lia.
        * destruct (Nat.eqb_spec n n0); [congruence|]. cbn in R1. lia.
      + destruct decr; [|apply R1]. unfold updn. destruct (Nat.eqb_spec n0 n) as [E|Nn]; [subst n0|apply R1].
        rewrite count_rem1. destruct (Nat.eqb_spec t0 t); [congruence|]. apply R1.
    - intros n0. destruct (Nat.eq_dec n0 n) as [E|Nn]; [subst n0|].
      + right. split.
        * intros t0. rewrite Eb. destruct (Nat.eqb_spec t0 t) as [E|N]; [now rewrite andb_false_r|]. rewrite Hfree by exact N. reflexivity.
        * rewrite Hnew. destruct decr; cbn [b2n] in *.
          -- unfold updn. rewrite Nat.eqb_refl. pose proof (length_rem1 t (rf n) Hcnt). lia.
          -- lia.
      + rewrite Hoth by exact Nn.
        assert (Er : (if decr then updn rf n (rem1 t (rf n)) else rf) n0 = rf n0).
        { destruct decr; [|reflexivity]. unfold updn. destruct (Nat.eqb_spec n0 n); [congruence|reflexivity]. }
        rewrite Er. destruct (R2 n0) as [[[t0 H0] E]|[H0 E]].
        * left. split; auto. exists t0. rewrite Eb, H0. destruct (Nat.eqb_spec t0 t) as [E'|N]; [|reflexivity].
          subst t0. rewrite Hv in H0. cbn [fst] in H0. rewrite Hbo in H0 by exact Nn. discriminate.
        * right. split; auto. intros t0. rewrite Eb, H0. reflexivity.
    - intros t1 t2 n0. rewrite !Eb. intros H1 H2. apply andb_true_iff in H1, H2. destruct H1, H2. eapply R3; eauto.
    - intros t0. destruct (Nat.eq_dec t0 t) as [E|N]; [subst t0; rewrite upd_same; exact H4|].
      rewrite upd_other by exact N. eapply (R4_other g g' _ n); eauto. apply R4.
  Qed.
End Steps.
