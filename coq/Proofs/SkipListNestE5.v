(** * SkipListNestE5: the unlink CASes of help_remove and of the fast path of try_remove_at (level l of a marked node). *)
From Coq Require Import ZArith List String Bool Lia PeanoNat.
From LV Require Import Base.Conc Base.Events Model.SkipList Proofs.SkipListProofs Proofs.SkipListSub Proofs.SkipListNest Proofs.SkipListNestE Proofs.SkipListNestE3 Proofs.SkipListNestE4.
Import ListNotations.

Lemma EF_cas_unlink {R} t n K O p l cur s (k : V -> prog R) :
  l < MAXH -> cur <> null -> ekn K p l -> In (FZ cur l s) K -> In (FB cur (S l)) K ->
  (forall c K', incl K K' -> In (FB cur l) K' -> EF t n K' O (Some cur) (k (VC true c))) ->
  (forall c, EF t n K O None (k (VC false c))) ->
  EF t n K O None (Act (a_cas_next p l (cur, false) (s, false)) k).
Proof.
  intros Hl Hcn Hk Hfz Hfb H1 H2 lv HK Hn HO HW. apply E_act. intros g a Hi Hv. unfold a_cas_next.
  destruct (mp_eqb (nxt g p l) (cur, false)) eqn:E; cbn [fst snd].
  2:{ exists (setview a t lv). split; [intros; now apply setview_other|]. split.
      - subst lv. apply E_same; auto. apply (e_views _ _ Hi).
      - rewrite setview_same. now apply H2. }
  apply mp_eqb_eq in E.
  destruct (e_views _ _ Hi t) as [V1 V2]. rewrite Hv in V1, V2.
  pose proof (V1 _ (HK _ Hfz)) as Fz. cbn [fact_ok] in Fz.
  destruct (V1 _ (HK _ Hfb)) as [B1 B2].
  assert (Hp0 : p = head \/ l < ealk a p) by (eapply ekn_alk; eauto; now rewrite Hv).
  assert (Hp : p = head \/ In p (eLs a l)) by (eapply unmarked_on_list; eauto; now rewrite E).
  pose proof (head_alk g a Hi) as Hh0.
  destruct (walkl_unlink g l (eLs a l) p cur false (e_lev _ _ Hi l Hl) (head_notin g a l Hi Hl) Hp) as (Hin & L' & WL' & HL'); auto.
  { now rewrite E. }
  rewrite Fz in WL'. cbn [fst] in WL'.
  assert (Hc : l < eanl a cur) by (now apply (e_n1 _ _ Hi l cur Hl)).
  assert (Htop : eanl a cur = S l /\ closed g a cur).
  { destruct B2 as [B|[(B & B')|B]].
    - pose proof (e_n3 _ _ Hi cur B1) as X. split; [lia|apply rest_closed; lia].
    - split; [lia|exact B].
    - pose proof (e_n2 _ _ Hi cur). split; [lia|right; lia]. }
  destruct Htop as [Atop Hcl].
  assert (Npc : p <> cur) by (intros ->; rewrite E in Fz; inversion Fz).
  set (lv' := mkEV (FB cur l :: wkn lv) (wser lv) (wown lv) (Some cur)).
  set (a' := mkEA (updL (eLs a) l L') (ealk a) (updf (eanl a) cur l) (eadn a) ((t, cur) :: eapl a) (setvw (evw a) t lv')).
  assert (Hsc : stepc t g a (setnx g p l (s, false)) a').
  { constructor; unfold a'; cbn [ealk eanl eadn].
    - intros q. lia.
    - intros q l' Hq. apply setnx_other. intros X. inversion X; subst. rewrite E in Hq. discriminate.
    - intros q Hq. cbn [setnx unl hgt_of]. split; [lia|]. split; [reflexivity|]. unfold closed. cbn [ealk eanl eadn setnx hgt_of].
      intros X. split; [exact X|]. destruct (Nat.eq_dec q cur) as [->|N]; [rewrite updf_same; lia|rewrite updf_other by exact N; lia].
    - intros q Hq. cbn [setnx unl hgt_of]. auto.
    - intros p' l'. destruct (Nat.eq_dec p' p) as [->|Np]; [|left; rewrite setnx_other by congruence; reflexivity].
      destruct (Nat.eq_dec l' l) as [->|Nl]; [|left; rewrite setnx_other by congruence; reflexivity].
      destruct Hp0 as [X|X]; [right; right; right; exact X|right; right; left; exact X]. }
  exists a'. split; [intros u Hu; unfold a'; cbn [evw]; now apply setvw_other|]. split.
  2:{ unfold a'; cbn [evw]; rewrite setvw_same. apply (H1 _ (FB cur l :: K)); auto; [apply incl_tl, incl_refl|now left|].
      cbn [lv' wkn]. intros y [<-|Hy]; [now left|right; now apply HK]. }
  change (EINV (setnx g p l (s, false)) a').
  pose proof Hi as Hi0. destruct Hi as [I1 I2 I3 I4 I5 I6 I7 I8 I9 I10 I11 I12].
  assert (Hpd : forall q, pend a' q = pend a q + (if Nat.eq_dec cur q then 1 else 0)).
  { intros q. unfold pend, a'. cbn [eapl map snd count_occ]. destruct (Nat.eq_dec cur q); lia. }
  constructor; fold (pend a'); unfold a'; cbn [eLs ealk eanl eadn evw]; fold a'.
  - intros l' Hl'. unfold updL. destruct (Nat.eqb_spec l' l) as [->|Nl]; [exact WL'|].
    apply walkl_setnx_other; [now left|now apply I1].
  - intros l' q Hl'. unfold updL. destruct (Nat.eqb_spec l' l) as [->|Nl].
    + rewrite HL'. destruct (Nat.eq_dec q cur) as [->|N]; [rewrite updf_same; split; [intros [X _]; congruence|lia]|].
      rewrite updf_other by exact N. rewrite <- (I2 l q Hl). tauto.
    + destruct (Nat.eq_dec q cur) as [->|N]; [rewrite updf_same, (I2 l' cur Hl'), Atop; lia|rewrite updf_other by exact N; now apply I2].
  - intros q. cbn [setnx hgt_of]. destruct (Nat.eq_dec q cur) as [->|N]; [rewrite updf_same; specialize (I3 cur); lia|rewrite updf_other by exact N; apply I3].
  - intros q. cbn [setnx hgt_of]. apply I4.
  - intros q A1 A2. cbn [setnx hgt_of] in A2. rewrite Hpd. destruct (Nat.eq_dec cur q) as [<-|N].
    + exfalso. destruct Hcl as [X|X]; [congruence|lia].
    + rewrite updf_other by congruence. destruct (I5 q A1 A2). split; [assumption|lia].
  - intros q A1. rewrite Hpd. change (rest (setnx g p l (s, false)) a' q) with (rest g a q). cbn [setnx unl]. rewrite (I6 q A1).
    destruct (Nat.eq_dec cur q) as [<-|N]; [rewrite updf_same; lia|rewrite updf_other by congruence; lia].
  - exact I7.
  - intros q l' A1 A2. destruct (Nat.eq_dec q p) as [->|Nq].
    + destruct (Nat.eq_dec l' l) as [->|Nl'].
      * exfalso. rewrite updf_other in A2 by congruence. destruct Hp as [X|X]; [subst p; lia|]. apply (I2 l p Hl) in X. lia.
      * rewrite setnx_other by congruence. rewrite updf_other in A2 by congruence. now apply I8.
    + rewrite setnx_other by congruence. destruct (Nat.eq_dec q cur) as [->|N].
      * rewrite updf_same in A2. destruct (Nat.eq_dec l' l) as [->|Nl']; [now rewrite Fz|]. apply I8; [exact A1|lia].
      * rewrite updf_other in A2 by exact N. now apply I8.
  - intros q l' A1. destruct (Nat.eq_dec q p) as [->|Nq].
    + destruct (Nat.eq_dec l' l) as [->|Nl']; [now rewrite setnx_same|rewrite setnx_other by congruence; now apply I9].
    + rewrite setnx_other by congruence. now apply I9.
  - intros q Hq. destruct (I10 q Hq) as [A1 A2]. split; [exact A1|].
    destruct (Nat.eq_dec (owner_of q) t) as [X|X]; [rewrite X in *; rewrite setvw_same; rewrite Hv in A2; exact A2|now rewrite setvw_other].
  - destruct I11 as [N1 N2]. unfold a'. cbn [eapl evw map fst]. split.
    + constructor; [|exact N1]. intros X. apply in_map_iff in X. destruct X as ([u q] & Eu & X). cbn in Eu. subst u.
      apply N2 in X. rewrite Hv, HW in X. discriminate.
    + intros u q. cbn [In]. destruct (Nat.eq_dec u t) as [->|X].
      * rewrite setvw_same. cbn [lv' wowe]. split.
        -- intros [Y|Y]; [inversion Y; reflexivity|apply N2 in Y; rewrite Hv, HW in Y; discriminate].
        -- intros Y. inversion Y. now left.
      * rewrite setvw_other by exact X. rewrite <- N2. split; [intros [Y|Y]; [inversion Y; congruence|exact Y]|now right].
  - intros u. destruct (Nat.eq_dec u t) as [->|X]; [rewrite setvw_same|rewrite setvw_other by exact X; eapply evw_step; eauto].
    split.
    { cbn [lv' wkn]. intros f [<-|Hf]; [|eapply fact_step; [exact Hsc|now apply V1]].
      cbn [fact_ok]. unfold a' at 1. cbn [ealk]. split; [exact B1|]. right. left. split.
      - unfold closed, a'. cbn [eadn ealk setnx hgt_of]. exact Hcl.
      - unfold a'. cbn [eanl]. rewrite updf_same. lia. }
    cbn [lv' wown wser]. unfold eown_ok in *. destruct (wown lv) as [[[[nw k0] c] hb]|]; [|exact Logic.I].
    destruct V2 as (O1 & O2 & O3 & O4 & O5 & O6 & O7 & O8). unfold a'. cbn [ealk eadn setnx hgt_of unl]. repeat split; auto.
    intros y Hy. rewrite setnx_other; [auto|]. intros Y. inversion Y; subst nw k0.
    destruct Hp as [Z|Z]; [unfold isnode, head in *; lia|]. apply (I2 l p Hl) in Z. specialize (I3 p). lia.
Qed.
