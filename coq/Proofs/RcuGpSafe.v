(** * RcuGp: every client program is safe for the invariant; the theorems for every schedule. *)
From Coq Require Import ZArith List String Bool Lia PeanoNat.
From LV Require Import Base.Conc Base.Events Model.RcuGp Proofs.RcuBits Proofs.RcuGpInv Proofs.RcuGpSteps Proofs.RcuGpWriter.
Import ListNotations.
Local Open Scope string_scope.
Local Open Scope list_scope.
Local Open Scope Z_scope.

Notation safe := (@Conc.safe G V ev Aux L view Inv).
Ltac tg := unfold acc, cli; rewrite tag1.
Ltac acc_same := tg; eapply Inv_acc; [| | | | | |eassumption]; reflexivity.

(** ** helpers: one step with / without a change of the thread's view *)
Lemma safe_act_upd {R} t (f : act) (k : V -> prog R) l Q :
  (forall g a tr, Inv g a tr -> a t = l ->
     exists l', Inv (fst (fst (f g))) (updA a t l') (tr ++ Conc.tag t (snd (f g))) /\
                safe t (k (snd (fst (f g)))) l' Q) ->
  safe t (Act f k) l Q.
Proof.
  intros H. cbn [Conc.safe]. intros g a tr HI Hv. destruct (H g a tr HI Hv) as (l' & H1 & H2).
  exists (updA a t l'). split; [exact H1|]. split; [apply frame_updA|]. unfold view. rewrite updA_same. exact H2.
Qed.

Lemma safe_act_keep {R} t (f : act) (k : V -> prog R) l Q :
  (forall g a tr, Inv g a tr -> a t = l ->
     Inv (fst (fst (f g))) a (tr ++ Conc.tag t (snd (f g))) /\ safe t (k (snd (fst (f g)))) l Q) ->
  safe t (Act f k) l Q.
Proof.
  intros H. cbn [Conc.safe]. intros g a tr HI Hv. destruct (H g a tr HI Hv) as (H1 & H2).
  exists a. split; [exact H1|]. split; [apply frame_refl|]. unfold view in *. rewrite Hv. exact H2.
Qed.

Lemma safe_emit_upd {R} t es (k : prog R) l Q :
  (forall g a tr, Inv g a tr -> a t = l ->
     exists l', Inv g (updA a t l') (tr ++ Conc.tag t es) /\ safe t k l' Q) ->
  safe t (Emit es k) l Q.
Proof.
  intros H. cbn [Conc.safe]. intros g a tr HI Hv. destruct (H g a tr HI Hv) as (l' & H1 & H2).
  exists (updA a t l'). split; [exact H1|]. split; [apply frame_updA|]. unfold view. rewrite updA_same. exact H2.
Qed.

Lemma safe_emit_neutral {R} t name args (k : prog R) l Q :
  neutral (EvCli name args) -> safe t k l Q -> safe t (Emit (cli name args) k) l Q.
Proof.
  intros N H. cbn [Conc.safe]. intros g a tr HI Hv. exists a. split; [apply Inv_cli_neutral; assumption|].
  split; [apply frame_refl|]. unfold view in *. rewrite Hv. exact H.
Qed.

Lemma safe_bind {A B} t (p : prog A) (q : A -> prog B) Q l :
  safe t p l (fun r l' => safe t (q r) l' Q) -> safe t (bind p q) l Q.
Proof. apply Conc.safe_bind. Qed.

Lemma safe_weaken {R} t (p : prog R) (Q Q' : R -> L -> Prop) l :
  (forall r l', Q r l' -> Q' r l') -> safe t p l Q -> safe t p l Q'.
Proof. intros H. apply Conc.safe_weaken. exact H. Qed.

(** the thread is between two operations *)
Definition Idle (rec : option nat) (d : nat) (l : L) : Prop :=
  l_rec l = rec /\ l_att l = None /\ l_depth l = d /\ l_ev l = d /\ l_w l = WIdle.

Lemma tid_of_nz t : tid_of t <> 0.
Proof. unfold tid_of. lia. Qed.

(** ** attach *)
Lemma safe_alloc_reuse t lst : forall l (Q : option nat -> L -> Prop),
  Idle None O l -> incl lst (l_seen l) ->
  (forall m b, Q (Some m) (set_dp (set_rec l (Some m)) O b)) -> Q None l ->
  safe t (alloc_reuse (tid_of t) lst) l Q.
Proof.
  induction lst as [|m r IH]; intros l Q HI Hin HS HN; cbn [alloc_reuse Conc.safe]; [exact HN|].
  intros g a tr HInv Hv. unfold view in Hv. unfold a_tid_cas.
  destruct (g_tid g m =? 0) eqn:E; cbn [fst snd].
  - apply Z.eqb_eq in E. destruct HInv as (I1 & I'). destruct (RF _ _ I1 m E) as (b & Hb).
    destruct HI as (H1 & H2 & H3 & H4 & H5).
    exists (updA a t (set_dp (set_rec (a t) (Some m)) O b)). split; [|split; [apply frame_updA|]].
    + tg. apply step_claim; auto.
      * split; assumption.
      * rewrite Hv. apply Hin. left; reflexivity.
      * rewrite Hv. exact H1.
      * apply tid_of_nz.
    + unfold view. rewrite updA_same, Hv. cbn. apply HS.
  - exists a. split; [|split; [apply frame_refl|]].
    + acc_same.
    + unfold view. rewrite Hv. cbn. apply IH; auto. intros x Hx. apply Hin. right; exact Hx.
Qed.

Lemma safe_alloc_push t fuel : forall m old l (Q : option nat -> L -> Prop),
  l_att l = Some m -> l_rec l = None ->
  Q (Some m) (set_dp (set_rec (set_att l None) (Some m)) O false) -> Q None l ->
  safe t (alloc_push fuel m old) l Q.
Proof.
  induction fuel as [|f IH]; intros m old l Q Ha Hr HS HN; cbn [alloc_push Conc.safe]; [exact HN|].
  intros g a tr HInv Hv. unfold view in Hv. unfold a_head_cas.
  destruct (Nat.eqb (hd_id (g_list g)) (hd_id old)); cbn [fst snd].
  - exists (updA a t (set_dp (set_rec (set_att (a t) None) (Some m)) O false)). split; [|split; [apply frame_updA|]].
    + tg. apply step_push; auto; rewrite Hv; assumption.
    + unfold view. rewrite updA_same, Hv. cbn. exact HS.
  - exists a. split; [|split; [apply frame_refl|]].
    + acc_same.
    + unfold view. rewrite Hv. cbn. apply IH; auto.
Qed.

Definition QAttach : option nat -> L -> Prop :=
  fun r l' => match r with Some m => Idle (Some m) O l' | None => True end.

Lemma safe_attach t fuel l : Idle None O l -> safe t (attach fuel t) l QAttach.
Proof.
  intros HI. unfold attach.
  cbv beta iota; apply safe_act_keep. intros g a tr HInv Hv. cbn [a_proc_faa fst snd]. split; [acc_same|].
  cbv beta iota; apply safe_act_upd. intros g1 a1 tr1 HInv1 Hv1. cbn [a_head_ld fst snd vl].
  exists (set_seen l (g_list g1)). split; [tg; rewrite <- Hv1; apply step_seen; exact HInv1|].
  destruct HI as (H1 & H2 & H3 & H4 & H5).
  cbv beta iota; apply safe_bind. apply safe_alloc_reuse.
  - repeat split; assumption.
  - cbn. apply incl_refl.
  - intros m b. cbn. repeat split; cbn; auto.
  - cbv beta iota; apply safe_act_upd. intros g2 a2 tr2 HInv2 Hv2. cbn [a_new_head_ld fst snd vl].
    exists (set_att (set_seen l (g_list g1)) (Some (S (g_nrec g2)))). split.
    + tg; rewrite <- Hv2. apply step_new; [exact HInv2|rewrite Hv2; exact H2|apply tid_of_nz].
    + apply safe_alloc_push; cbn; auto. repeat split; cbn; auto.
Qed.

(** ** detach *)
Lemma safe_detach t m l (Q : unit -> L -> Prop) :
  Idle (Some m) O l -> (forall l', Idle None O l' -> Q tt l') -> safe t (detach m) l Q.
Proof.
  intros (H1 & H2 & H3 & H4 & H5) HQ. unfold detach. cbv beta iota; apply safe_act_upd. intros g a tr HInv Hv.
  cbn [a_tid_st fst snd]. exists (set_rec l None). split.
  - tg; rewrite <- Hv. apply step_detach; [exact HInv|rewrite Hv; exact H1|rewrite Hv; exact H3].
  - cbn. apply HQ. repeat split; cbn; auto.
Qed.

(** ** access_lock / access_unlock *)
Lemma owner_word g a tr t m : Inv g a tr -> l_rec (a t) = Some m ->
  g_acc g m = mkw (l_ph (a t)) (Z.of_nat (l_depth (a t))) /\ Z.of_nat (l_depth (a t)) < two31.
Proof. intros (I1 & _) H. destruct (RA _ _ I1 t m H) as (_ & _ & A & B). auto. Qed.

Lemma cs_none g a tr t : Inv g a tr -> l_ev (a t) = O -> l_cs (a t) = None.
Proof. intros (I1 & _) H. destruct (RD _ _ I1 t) as (_ & D & _). apply D; exact H. Qed.

Lemma safe_access_lock t m d l (Q : Z -> L -> Prop) :
  l_rec l = Some m -> l_depth l = d -> l_ev l = d -> depth_ok d = true ->
  (forall w ph, Q w (set_dp l (S d) ph)) ->
  safe t (access_lock m) l Q.
Proof.
  intros H1 H2 H3 Hok HQ. unfold access_lock. unfold depth_ok in Hok. apply Z.ltb_lt in Hok.
  cbv beta iota; apply safe_act_keep. intros g a tr HInv Hv. cbn [a_acc_ld fst snd vz].
  split; [acc_same|].
  destruct (owner_word _ _ _ t m HInv) as (Hw & Hb); [rewrite Hv; exact H1|]. rewrite Hv, H2 in Hw, Hb. rewrite Hw.
  rewrite nest_mkw by lia. destruct (Z.eqb_spec (Z.of_nat d) 0) as [E|E].
  - assert (Hd0 : d = O) by lia. rewrite Hd0 in *. clear Hd0.
    cbv beta iota; apply safe_act_keep. intros g1 a1 tr1 HInv1 Hv1. cbn [a_ctl_ld fst snd vz].
    split; [acc_same|].
    destruct HInv1 as (_ & I2 & _). destruct (GC _ _ I2) as (b & Hb1 & _). rewrite Hb1.
    cbv beta iota; apply safe_act_upd. intros g2 a2 tr2 HInv2 Hv2. cbn [a_acc_st fst snd].
    exists (set_dp l 1%nat b). split; [|cbn; apply HQ].
    tg; rewrite <- Hv2. change 1 with (Z.of_nat 1).
    apply step_acc_st; [exact HInv2|rewrite Hv2; exact H1|unfold two31; cbn; lia|rewrite Hv2; lia|].
    left. eapply cs_none; [exact HInv2|rewrite Hv2; exact H3].
  - cbv beta iota; apply safe_act_upd. intros g1 a1 tr1 HInv1 Hv1. cbn [a_acc_st fst snd].
    rewrite u32_mkw_succ by lia.
    exists (set_dp l (S d) (l_ph l)). split; [|cbn; apply HQ].
    tg; rewrite <- Hv1. replace (Z.of_nat d + 1) with (Z.of_nat (S d)) by lia.
    apply step_acc_st; [exact HInv1|rewrite Hv1; exact H1|lia|rewrite Hv1; lia|right; reflexivity].
Qed.

Lemma safe_access_unlock t m d l (Q : Z -> L -> Prop) :
  l_rec l = Some m -> l_depth l = S d -> l_ev l = d ->
  (forall w, Q w (set_dp l d (l_ph l))) ->
  safe t (access_unlock m) l Q.
Proof.
  intros H1 H2 H3 HQ. unfold access_unlock.
  cbv beta iota; apply safe_act_keep. intros g a tr HInv Hv. cbn [a_acc_ld fst snd vz].
  split; [acc_same|].
  destruct (owner_word _ _ _ t m HInv) as (Hw & Hb); [rewrite Hv; exact H1|]. rewrite Hv, H2 in Hw, Hb. rewrite Hw.
  cbv beta iota; apply safe_act_upd. intros g1 a1 tr1 HInv1 Hv1. cbn [a_acc_st fst snd].
  rewrite u32_mkw_pred by lia. replace (Z.of_nat (S d) - 1) with (Z.of_nat d) by lia.
  exists (set_dp l d (l_ph l)). split; [|cbn; apply HQ].
  tg; rewrite <- Hv1.
  apply step_acc_st; [exact HInv1|rewrite Hv1; exact H1|lia|rewrite Hv1; lia|right; reflexivity].
Qed.

Lemma neutral_cli name args :
  cli_is "rlock" 1 (EvCli name args) = false -> cli_is "runlock" 0 (EvCli name args) = false ->
  String.eqb name "sync_begin" = false -> String.eqb name "sync_end" = false -> String.eqb name "dispose" = false ->
  neutral (EvCli name args).
Proof. intros. repeat split; assumption. Qed.

Lemma zn_eqb_succ d k : (zn (S d) =? Z.of_nat k) = Nat.eqb (S d) k.
Proof. unfold zn. destruct (Nat.eqb_spec (S d) k); [apply Z.eqb_eq; lia|apply Z.eqb_neq; lia]. Qed.

Lemma safe_do_rlock t m d l (Q : unit -> L -> Prop) :
  Idle (Some m) d l -> depth_ok d = true -> (forall l', Idle (Some m) (S d) l' -> Q tt l') ->
  safe t (do_rlock m d) l Q.
Proof.
  intros (H1 & H2 & H3 & H4 & H5) Hok HQ. unfold do_rlock. cbv beta iota; apply safe_bind.
  apply safe_access_lock with (d := d); auto. intros w ph.
  cbv beta iota; apply safe_emit_upd. intros g a tr HInv Hv. destruct d as [|d'].
  - exists (set_evcs (set_dp l 1%nat ph) 1%nat (Some (List.length tr))). split.
    + tg; rewrite <- Hv. apply step_ev_rlock1; [reflexivity|exact HInv|rewrite Hv; cbn; exact H4|rewrite Hv; cbn; lia].
    + cbn. apply HQ. repeat split; cbn; auto.
  - exists (set_evcs (set_dp l (S (S d')) ph) (S (S d')) (l_cs (set_dp l (S (S d')) ph))). split.
    + tg; rewrite <- Hv. apply step_ev_nested; [|exact HInv|rewrite Hv; cbn; lia|rewrite Hv; cbn; lia|lia].
      apply neutral_cli; try reflexivity; unfold cli_is; cbn [String.eqb Ascii.eqb Bool.eqb andb];
      change 1 with (Z.of_nat 1); rewrite zn_eqb_succ; reflexivity.
    + cbn. apply HQ. repeat split; cbn; auto.
Qed.

Lemma safe_do_runlock t m d l (Q : unit -> L -> Prop) :
  Idle (Some m) (S d) l -> (forall l', Idle (Some m) d l' -> Q tt l') ->
  safe t (do_runlock m (S d)) l Q.
Proof.
  intros (H1 & H2 & H3 & H4 & H5) HQ. unfold do_runlock. cbn [pred].
  cbv beta iota; apply safe_emit_upd. intros g a tr HInv Hv.
  assert (K : forall l1, l_rec l1 = Some m -> l_att l1 = None -> l_depth l1 = S d -> l_ev l1 = d -> l_w l1 = WIdle ->
              safe t (bind (access_unlock m) (fun w => Emit (cli "runlocked" [nest w]) (Ret tt))) l1 Q).
  { intros l1 A1 A2 A3 A4 A5. cbv beta iota; apply safe_bind. apply safe_access_unlock with (d := d); auto. intros w.
    cbv beta iota; apply safe_emit_neutral; [apply neutral_cli; reflexivity|]. cbn. apply HQ. repeat split; cbn; auto. }
  destruct d as [|d'].
  - exists (set_evcs l O None). split.
    + tg; rewrite <- Hv. apply step_ev_runlock0; [reflexivity|exact HInv|rewrite Hv; exact H4].
    + apply K; cbn; auto.
  - exists (set_evcs l (S d') (l_cs l)). split.
    + tg; rewrite <- Hv. apply step_ev_nested; [|exact HInv|rewrite Hv; lia|rewrite Hv; lia|lia].
      apply neutral_cli; try reflexivity; unfold cli_is; cbn [String.eqb Ascii.eqb Bool.eqb andb];
      change 0 with (Z.of_nat 0); rewrite zn_eqb_succ; reflexivity.
    + apply K; cbn; auto.
Qed.

(** ** the lock *)
Lemma safe_lock_loops t fuel : forall i l (Q : bool -> L -> Prop),
  l_w l = WStart i -> Q true (set_w l (WHeld0 i)) -> (forall l', Q false l') ->
  safe t (lock_outer fuel) l Q /\ safe t (lock_inner fuel) l Q.
Proof.
  induction fuel as [|f IH]; intros i l Q Hw HT HF; split; cbn [lock_outer lock_inner Conc.safe]; try apply HF.
  - intros g a tr HInv Hv. unfold view in Hv. unfold a_lock_xchg. cbn [fst snd vz].
    destruct (g_lock g) eqn:El; cbn [Z.b2z Z.eqb].
    + exists a. split; [tg; apply step_lock_fail; assumption|]. split; [apply frame_refl|].
      unfold view. rewrite Hv. apply (IH i l Q); auto.
    + exists (updA a t (set_w (a t) (WHeld0 i))). split; [tg; apply step_lock_acquire; auto; rewrite Hv; exact Hw|].
      split; [apply frame_updA|]. unfold view. rewrite updA_same, Hv. cbn. exact HT.
  - intros g a tr HInv Hv. unfold view in Hv. unfold a_lock_ld. cbn [fst snd vz].
    exists a. split; [acc_same|]. split; [apply frame_refl|].
    unfold view. rewrite Hv. destruct (Z.b2z (g_lock g) =? 0); apply (IH i l Q); auto.
Qed.

(** ** flip_and_wait *)
Lemma holder_ctl g a tr t i k gph pos : Inv g a tr -> l_w (a t) = WPhase i k gph pos -> g_ctl g = mkw gph 1.
Proof. intros (_ & I2 & _) H. destruct (GC _ _ I2) as (b & Hb & K). rewrite (K _ _ _ _ _ H). exact Hb. Qed.

Lemma safe_wait_rec t fuel : forall i k gph done m rest l (Q : bool -> L -> Prop),
  l_w l = WPhase i k gph (PScan done (m :: rest) L0) ->
  Q true (set_w l (WPhase i k gph (PScan (m :: done) rest L0))) -> (forall l', Q false l') ->
  safe t (wait_rec fuel m) l Q.
Proof.
  induction fuel as [|f IH]; intros i k gph done m rest l Q Hw HT HF; cbn [wait_rec Conc.safe]; [apply HF|].
  intros g a tr HInv Hv. unfold view in Hv. unfold a_tid_ld. cbn [fst snd vz].
  assert (Hwa : l_w (a t) = WPhase i k gph (PScan done (m :: rest) L0)) by (rewrite Hv; exact Hw).
  pose proof HInv as (I1 & I2 & I3 & I4).
  pose proof (WC _ _ I3 t) as C. rewrite Hwa in C.
  destruct (Z.eqb_spec (g_tid g m) 0) as [E|E].
  { (* null thread id: the record is passed *)
    exists (updA a t (set_w (a t) (WPhase i k gph (PScan (m :: done) rest L0)))). split; [|split; [apply frame_updA|]].
    - tg. eapply step_scan_pos; eauto. eapply wclause_pass_tid; eauto.
    - unfold view. rewrite updA_same, Hv. cbn. exact HT. }
  exists a. split; [acc_same|]. split; [apply frame_refl|].
  unfold view. rewrite Hv. cbn [Conc.safe]. clear g a tr HInv Hv Hwa I1 I2 I3 I4 C E.
  intros g a tr HInv Hv. unfold view in Hv. unfold a_acc_ld. cbn [fst snd vz].
  assert (Hwa : l_w (a t) = WPhase i k gph (PScan done (m :: rest) L0)) by (rewrite Hv; exact Hw).
  pose proof HInv as (I1 & I2 & I3 & I4).
  pose proof (WC _ _ I3 t) as C. rewrite Hwa in C.
  destruct (Z.eqb_spec (nest (g_acc g m)) 0) as [E|E].
  { exists (updA a t (set_w (a t) (WPhase i k gph (PScan (m :: done) rest L0)))). split; [|split; [apply frame_updA|]].
    - tg. eapply step_scan_pos; eauto. eapply wclause_pass_nest; eauto.
    - unfold view. rewrite updA_same, Hv. cbn. exact HT. }
  exists (updA a t (set_w (a t) (WPhase i k gph (PScan done (m :: rest) (L2 (g_acc g m)))))). split; [|split; [apply frame_updA|]].
  { tg. eapply step_scan_pos; eauto. eapply wclause_load; eauto. }
  unfold view. rewrite updA_same, Hv. cbn [Conc.safe set_w].
  set (v := g_acc g m). clearbody v. clear g a tr HInv Hv Hwa I1 I2 I3 I4 C E.
  intros g a tr HInv Hv. unfold view in Hv. unfold a_ctl_ld. cbn [fst snd vz].
  assert (Hwa : l_w (a t) = WPhase i k gph (PScan done (m :: rest) (L2 v))) by (rewrite Hv; reflexivity).
  pose proof HInv as (I1 & I2 & I3 & I4).
  pose proof (WC _ _ I3 t) as C. rewrite Hwa in C.
  rewrite (holder_ctl _ _ _ _ _ _ _ _ HInv Hwa).
  destruct (phase_differs v (mkw gph 1)) eqn:E.
  - exists (updA a t (set_w (a t) (WPhase i k gph (PScan done (m :: rest) L0)))). split; [|split; [apply frame_updA|]].
    + tg. eapply step_scan_pos; eauto. eapply wclause_forget; eauto.
    + unfold view. rewrite updA_same, Hv.
      apply (IH i k gph done m rest _ Q); [reflexivity|exact HT|exact HF].
  - exists (updA a t (set_w (a t) (WPhase i k gph (PScan (m :: done) rest L0)))). split; [|split; [apply frame_updA|]].
    + tg. eapply step_scan_pos; eauto. eapply wclause_pass_phase; eauto.
    + unfold view. rewrite updA_same, Hv. cbn. exact HT.
Qed.

Lemma safe_scan t fuel lst : forall i k gph done l (Q : bool -> L -> Prop),
  l_w l = WPhase i k gph (PScan done lst L0) ->
  (forall done', Q true (set_w l (WPhase i k gph (PScan done' [] L0)))) -> (forall l', Q false l') ->
  safe t (scan fuel lst) l Q.
Proof.
  induction lst as [|m rest IH]; intros i k gph done l Q Hw HT HF; cbn [scan].
  - cbn. replace l with (set_w l (WPhase i k gph (PScan done [] L0))); [apply HT|]. destruct l; cbn in *. rewrite Hw. reflexivity.
  - cbv beta iota; apply safe_bind. eapply safe_wait_rec; [exact Hw| |].
    + cbv beta iota. eapply IH; [reflexivity| |exact HF]. intros done'. cbn. apply HT.
    + intros l'. cbv beta iota. apply HF.
Qed.

Lemma safe_flip1 t fuel i l (Q : bool -> L -> Prop) :
  l_w l = WHeld0 i ->
  (forall gph done, Q true (set_w l (WPhase i false gph (PScan done [] L0)))) -> (forall l', Q false l') ->
  safe t (flip_and_wait fuel) l Q.
Proof.
  intros Hw HT HF. unfold flip_and_wait.
  cbv beta iota; apply safe_act_upd. intros g a tr HInv Hv. unfold a_ctl_fxor. cbn [fst snd].
  pose proof HInv as (_ & I2 & _). destruct (GC _ _ I2) as (b & Hb & _).
  exists (set_w l (WPhase i false (negb b) PFlipped)). split.
  { tg; rewrite <- Hv. apply step_flip1; auto. rewrite Hv; exact Hw. }
  cbv beta iota; apply safe_act_upd. intros g1 a1 tr1 HInv1 Hv1. unfold a_head_ld. cbn [fst snd vl].
  exists (set_w l (WPhase i false (negb b) (PScan [] (g_list g1) L0))). split.
  { tg. replace (set_w l (WPhase i false (negb b) (PScan [] (g_list g1) L0)))
      with (set_w (a1 t) (WPhase i false (negb b) (PScan [] (g_list g1) L0))) by (rewrite Hv1; reflexivity).
    apply step_scan_head; auto. rewrite Hv1; reflexivity. }
  eapply safe_scan; [reflexivity| |exact HF]. intros done'. cbn. apply HT.
Qed.

Lemma safe_flip2 t fuel i gph done l (Q : bool -> L -> Prop) :
  l_w l = WPhase i false gph (PScan done [] L0) ->
  (forall gph' done', Q true (set_w l (WPhase i true gph' (PScan done' [] L0)))) -> (forall l', Q false l') ->
  safe t (flip_and_wait fuel) l Q.
Proof.
  intros Hw HT HF. unfold flip_and_wait.
  cbv beta iota; apply safe_act_upd. intros g a tr HInv Hv. unfold a_ctl_fxor. cbn [fst snd].
  exists (set_w l (WPhase i true (negb gph) PFlipped)). split.
  { tg; rewrite <- Hv. eapply step_flip2; eauto. rewrite Hv; exact Hw. }
  cbv beta iota; apply safe_act_upd. intros g1 a1 tr1 HInv1 Hv1. unfold a_head_ld. cbn [fst snd vl].
  exists (set_w l (WPhase i true (negb gph) (PScan [] (g_list g1) L0))). split.
  { tg. replace (set_w l (WPhase i true (negb gph) (PScan [] (g_list g1) L0)))
      with (set_w (a1 t) (WPhase i true (negb gph) (PScan [] (g_list g1) L0))) by (rewrite Hv1; reflexivity).
    apply step_scan_head; auto. rewrite Hv1; reflexivity. }
  eapply safe_scan; [reflexivity| |exact HF]. intros done'. cbn. apply HT.
Qed.

(** the two flip_and_wait of synchronize *)
Lemma safe_flips2 t fuel i l (Q : bool -> L -> Prop) :
  l_w l = WHeld0 i ->
  (forall gph done, Q true (set_w l (WPhase i true gph (PScan done [] L0)))) -> (forall l', Q false l') ->
  safe t (flips_and_wait 2 fuel) l Q.
Proof.
  intros Hw HT HF. cbn [flips_and_wait]. cbv beta iota; apply safe_bind.
  apply safe_flip1 with (i := i); [exact Hw| |intros l'; cbv beta iota; apply HF].
  intros gph done. cbv beta iota; apply safe_bind.
  eapply safe_flip2; [reflexivity| |intros l'; cbv beta iota; apply HF].
  intros gph' done'. cbn. apply HT.
Qed.

Lemma safe_unlock t i gph done l (Q : unit -> L -> Prop) :
  l_w l = WPhase i true gph (PScan done [] L0) -> Q tt (set_w l (WFin i)) -> safe t unlock l Q.
Proof.
  intros Hw HQ. unfold unlock. apply safe_act_upd. intros g a tr HInv Hv. unfold a_lock_st. cbn [fst snd].
  exists (set_w l (WFin i)). split.
  - tg. replace (set_w l (WFin i)) with (set_w (a t) (WFin i)) by (rewrite Hv; reflexivity).
    eapply step_unlock; eauto. rewrite Hv; exact Hw.
  - cbn. exact HQ.
Qed.

(** general_instant::synchronize with the two flips of the real code *)
Lemma safe_synchronize t fuel i l (Q : bool -> L -> Prop) :
  l_w l = WStart i -> Q true (set_w l (WFin i)) -> (forall l', Q false l') ->
  safe t (gpi_synchronize 2 fuel) l Q.
Proof.
  intros Hw HT HF. unfold gpi_synchronize. cbv beta iota; apply safe_bind.
  refine (proj1 (safe_lock_loops t fuel i l _ Hw _ _)); [|intros l'; cbv beta iota; apply HF].
  cbv beta iota; apply safe_bind. cbn [flips_and_wait]. cbv beta iota; apply safe_bind.
  apply safe_flip1 with (i := i); [reflexivity| |intros l'; cbv beta iota; apply HF].
  intros gph done. cbv beta iota; apply safe_bind.
  eapply safe_flip2; [reflexivity| |intros l'; cbv beta iota; apply HF].
  intros gph' done'. cbv beta iota; apply safe_bind. unfold unlock.
  cbv beta iota; apply safe_act_upd. intros g a tr HInv Hv. unfold a_lock_st. cbn [fst snd].
  exists (set_w l (WFin i)). split.
  - tg. replace (set_w l (WFin i)) with (set_w (a t) (WFin i)) by (rewrite Hv; reflexivity).
    eapply step_unlock; eauto. rewrite Hv; reflexivity.
  - cbn. exact HT.
Qed.

(** ** client operations *)
Lemma Idle_cs g a tr t rec d : Inv g a tr -> Idle rec d (a t) -> True.
Proof. auto. Qed.

Lemma safe_do_sync t fuel rec l (Q : bool -> L -> Prop) :
  Idle rec O l -> (forall l', Idle rec O l' -> Q true l') -> (forall l', Q false l') ->
  safe t (do_sync 2 fuel) l Q.
Proof.
  intros (H1 & H2 & H3 & H4 & H5) HT HF. unfold do_sync.
  cbv beta iota; apply safe_emit_upd. intros g a tr HInv Hv.
  exists (set_w (set_sm l (Some (List.length tr))) (WStart (List.length tr))). split.
  - tg. eapply step_ev_begin; eauto; try reflexivity.
    + rewrite Hv, H5; intros [].
    + rewrite Hv; reflexivity.
    + left. rewrite Hv. repeat split.
  - cbv beta iota; apply safe_bind. eapply safe_synchronize; [reflexivity| |intros l'; cbv beta iota; apply HF].
    cbv beta iota; apply safe_emit_upd. intros g1 a1 tr1 HInv1 Hv1.
    exists (set_w (a1 t) WIdle). split.
    + tg. eapply step_ev_sync_end with (i := List.length tr) (i' := List.length tr); eauto; rewrite Hv1; reflexivity.
    + cbn. apply HT. rewrite Hv1. repeat split; cbn; auto.
Qed.

Lemma safe_do_retire t fuel rec p l (Q : bool -> L -> Prop) :
  Idle rec O l -> (forall l', Idle rec O l' -> Q true l') -> (forall l', Q false l') ->
  safe t (do_retire 2 fuel p) l Q.
Proof.
  intros (H1 & H2 & H3 & H4 & H5) HT HF. unfold do_retire.
  cbv beta iota; apply safe_emit_upd. intros g a tr HInv Hv.
  exists (set_w (set_rm l (Some (List.length tr, p))) (WStart (List.length tr))). split.
  - tg. eapply step_ev_begin; eauto; try reflexivity.
    + rewrite Hv, H5; intros [].
    + rewrite Hv; reflexivity.
    + right. rewrite Hv. split; [reflexivity|]. split; [reflexivity|]. exists p. split; [|reflexivity].
      unfold is_retire, cli_is. cbn. apply Z.eqb_refl.
  - cbv beta iota; apply safe_bind. eapply safe_synchronize; [reflexivity| |intros l'; cbv beta iota; apply HF].
    cbv beta iota; apply safe_emit_upd. intros g1 a1 tr1 HInv1 Hv1.
    exists (set_w (a1 t) WIdle). split.
    + tg. eapply step_ev_dispose; eauto; rewrite Hv1; reflexivity.
    + cbn. apply HT. rewrite Hv1. repeat split; cbn; auto.
Qed.

Lemma safe_do_touch t l (Q : unit -> L -> Prop) : Q tt l -> safe t do_touch l Q.
Proof.
  intros HQ. unfold do_touch. cbv beta iota; apply safe_act_keep. intros g a tr HInv Hv. cbn [a_src_ld fst snd vz].
  split; [acc_same|].
  destruct (g_src g =? 0); [exact HQ|].
  cbv beta iota; apply safe_act_keep. intros g1 a1 tr1 HInv1 Hv1. cbn [a_payload_ld fst snd].
  split; [acc_same|].
  cbv beta iota; apply safe_emit_neutral; [apply neutral_cli; reflexivity|exact HQ].
Qed.

Definition IdleS (s : lst) (l : L) : Prop :=
  Idle (my_rec s) (my_depth s) l /\ (my_rec s = None -> my_depth s = O).

Definition QOp : option lst -> L -> Prop :=
  fun r l' => match r with Some s' => IdleS s' l' | None => True end.

Lemma safe_run_op t fuel s o l : IdleS s l -> safe t (run_op 2 fuel t s o) l QOp.
Proof.
  intros (HI & Hnd). destruct s as [rec d]. cbn [my_rec my_depth] in *.
  destruct o; cbn [run_op my_rec my_depth].
  - (* attach *) destruct rec as [m|]; [split; assumption|]. rewrite (Hnd eq_refl) in *.
    cbv beta iota; apply safe_bind. eapply safe_weaken; [|apply safe_attach; exact HI].
    intros [m|] l' HQ; cbn in HQ; [|exact I].
    cbv beta iota; apply safe_emit_neutral; [apply neutral_cli; reflexivity|]. split; [exact HQ|discriminate].
  - (* detach *) destruct rec as [m|]; [|split; assumption]. destruct d as [|d]; [|split; assumption].
    cbv beta iota; apply safe_bind. apply safe_detach; [exact HI|]. intros l' HI'.
    cbv beta iota; apply safe_emit_neutral; [apply neutral_cli; reflexivity|]. split; [exact HI'|reflexivity].
  - (* rlock *) destruct rec as [m|]; [|split; assumption]. destruct (depth_ok d) eqn:Hok; [|split; assumption].
    cbv beta iota; apply safe_bind. apply safe_do_rlock; auto. intros l' HI'. split; [exact HI'|discriminate].
  - (* runlock *) destruct rec as [m|]; [|split; assumption]. destruct d as [|d]; [split; assumption|].
    cbv beta iota; apply safe_bind. apply safe_do_runlock; auto. intros l' HI'. split; [exact HI'|discriminate].
  - (* sync *) destruct d as [|d]; [|split; assumption].
    cbv beta iota; apply safe_bind. eapply safe_do_sync; [exact HI| |intros l'; exact I].
    intros l' HI'. split; [exact HI'|exact Hnd].
  - (* retire *) destruct d as [|d]; [|split; assumption].
    cbv beta iota; apply safe_bind. eapply safe_do_retire; [exact HI| |intros l'; exact I].
    intros l' HI'. split; [exact HI'|exact Hnd].
  - (* publish *) cbv beta iota; apply safe_act_keep. intros g a tr HInv Hv. cbn [a_src_st fst snd].
    split; [acc_same|]. split; assumption.
  - (* unpublish *) cbv beta iota; apply safe_act_keep. intros g a tr HInv Hv. cbn [a_src_st fst snd].
    split; [acc_same|]. split; assumption.
  - (* touch *) destruct d as [|d]; [split; assumption|].
    cbv beta iota; apply safe_bind. apply safe_do_touch. split; assumption.
Qed.

Lemma safe_leave_all t m d : forall l (Q : unit -> L -> Prop),
  Idle (Some m) d l -> (forall l', Idle (Some m) O l' -> Q tt l') -> safe t (leave_all m d) l Q.
Proof.
  induction d as [|d IH]; intros l Q HI HQ; cbn [leave_all].
  - apply HQ; exact HI.
  - cbv beta iota; apply safe_bind. apply safe_do_runlock; [exact HI|]. intros l' HI'. apply IH; auto.
Qed.

Lemma safe_finish t s l : IdleS s l -> safe t (finish s) l (@Conc.QTrue L).
Proof.
  intros (HI & Hnd). destruct s as [rec d]. cbn [my_rec my_depth] in *. unfold finish. cbn [my_rec my_depth].
  destruct rec as [m|]; [|exact I].
  cbv beta iota; apply safe_bind. apply safe_leave_all with (d := d); [exact HI|]. intros l' HI'.
  cbv beta iota; apply safe_bind. apply safe_detach; [exact HI'|]. intros l'' _.
  cbv beta iota; apply safe_emit_neutral; [apply neutral_cli; reflexivity|exact I].
Qed.

(** [finish] with what it leaves behind: the thread is outside every section *)
Lemma safe_finish_ev t s l : IdleS s l -> safe t (finish s) l (fun _ l' => l_ev l' = O /\ l_w l' = WIdle).
Proof.
  intros (HI & Hnd). destruct s as [rec d]. cbn [my_rec my_depth] in *. unfold finish. cbn [my_rec my_depth].
  destruct rec as [m|].
  - cbv beta iota; apply safe_bind. apply safe_leave_all with (d := d); [exact HI|]. intros l' HI'.
    cbv beta iota; apply safe_bind. apply safe_detach; [exact HI'|]. intros l'' (H1 & H2 & H3 & H4 & H5).
    cbv beta iota; apply safe_emit_neutral; [apply neutral_cli; reflexivity|]. cbn. split; assumption.
  - destruct HI as (H1 & H2 & H3 & H4 & H5). cbn. rewrite (Hnd eq_refl) in H4. split; assumption.
Qed.

Lemma ev0_closed g a tr t : Inv g a tr -> l_ev (a t) = O ->
  forall s, at_ tr s t is_rlock1 -> exists b, (s < b)%nat /\ at_ tr b t is_runlock0.
Proof.
  intros (I1 & _ & _ & I4) H s Hat. destruct (RD _ _ I1 t) as (_ & D & _). assert (Hc : l_cs (a t) = None) by (apply D; exact H).
  destruct (T2 _ _ I4 t s Hat) as [A|(b & Hb & Hrb & _)]; [congruence|]. exists b. auto.
Qed.

Lemma safe_run_ops t fuel os : forall s l, IdleS s l -> safe t (run_ops 2 fuel t s os) l (@Conc.QTrue L).
Proof.
  induction os as [|o r IH]; intros s l HI; cbn [run_ops].
  - apply safe_finish; exact HI.
  - cbv beta iota; apply safe_bind. eapply safe_weaken; [|apply safe_run_op; exact HI].
    intros [s'|] l' HQ; cbn in HQ.
    + apply IH; exact HQ.
    + cbv beta iota; apply safe_emit_neutral; [apply neutral_cli; reflexivity|exact I].
Qed.

Lemma safe_thread t fuel os : safe t (thread_prog 2 fuel t os) l0 (@Conc.QTrue L).
Proof.
  unfold thread_prog. cbv beta iota; apply safe_act_keep. intros g a tr HInv Hv. cbn [a_begin fst snd].
  split; [acc_same|].
  apply safe_run_ops. split; [repeat split|reflexivity].
Qed.

Lemma nth_error_number {A} (l : list A) : forall n t x, nth_error (number n l) t = Some x -> fst x = (n + t)%nat.
Proof.
  induction l as [|y r IH]; intros n t x H; [destruct t; discriminate|].
  destruct t as [|t]; cbn in H.
  - inversion H; subst. cbn. lia.
  - apply IH in H. lia.
Qed.

Lemma init_ok fuel ths : Conc.cfg_ok view Inv (init_cfg 2 fuel ths).
Proof.
  exists (fun _ => l0). split.
  - cbn [init_cfg Conc.shared Conc.trace]. split; [|split; [|split]].
    + constructor; cbn; try discriminate; try contradiction; auto.
      * intros m _. exists false. reflexivity.
      * intros r. repeat split; auto.
    + constructor; cbn; try contradiction; try (intros w w' []).
      exists false. split; [reflexivity|discriminate].
    + constructor; cbn; [discriminate|intros; exact I].
    + constructor; cbn; try discriminate.
      * intros r s (e & H & _). destruct s; discriminate.
      * intros w i j (e & H & _). destruct i; discriminate.
      * intros w p d (e & H & _). destruct d; discriminate.
  - intros t p Hp. cbn [init_cfg Conc.threads] in Hp. rewrite nth_error_map in Hp.
    destruct (nth_error (number O ths) t) as [x|] eqn:E; [|discriminate]. inversion Hp; subst p.
    apply nth_error_number in E. cbn in E. rewrite E. unfold view. apply safe_thread.
Qed.

(** ** the theorems: for every schedule (every sequence of thread choices), any number of threads, any client
       programs, any fuel *)
Theorem gp_synchronize_waits_all fuel ths c :
  Conc.reach (init_cfg 2 fuel ths) c -> sync_waits (Conc.trace c).
Proof.
  intros Hr. destruct (Conc.reach_Inv (init_ok fuel ths) Hr) as (a & _ & _ & _ & I4). apply (SW _ _ I4).
Qed.

Theorem gpi_dispose_safe_all fuel ths c :
  Conc.reach (init_cfg 2 fuel ths) c -> dispose_safe (Conc.trace c).
Proof.
  intros Hr. destruct (Conc.reach_Inv (init_ok fuel ths) Hr) as (a & _ & _ & _ & I4). apply (DS _ _ I4).
Qed.
