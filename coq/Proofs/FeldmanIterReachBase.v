(** * Iterators of LV.Model.FeldmanIter in the step relation [SR]: path-order arithmetic ([ahead]), intro rules,
      Guard::protect (ghost value unchanged), and do_erase_at with its unlink fall-back: the successful CAS is the ghost
      transition [TR_erase] (it clears the unflagged slot that holds the iterator's element), a load that finds another
      unflagged value on the hash path of the element is [TR_gone] (the element is nowhere in the tree,
      FeldmanIterThm.erase_at_false_gone); result true <-> one removal, result false -> seen gone ([Qe]). *)
From Coq Require Import ZArith NArith List Bool Arith PeanoNat Lia String.
From LV Require Import Base.Conc Base.Events Model.Feldman Model.FeldmanIter.
From LV Require Import Proofs.FeldmanStepInv Proofs.FeldmanStepThm Proofs.ConcRel Proofs.FeldmanIterTraceDefs Proofs.FeldmanIterReachOps.
From LV Require Proofs.FeldmanStepRel Proofs.FeldmanIterSafe Proofs.FeldmanLinInv Proofs.FeldmanIterThm.
Import ListNotations.

Set Implicit Arguments.

Section Base.
  Variables (hbits abits W : nat) (hs : list N).
  Hypothesis Hh : 0 < hbits.
  Hypothesis Ha : 0 < abits.

  Notation hash := (Feldman.hash hs).
  Notation cut := Feldman.cut.
  Notation bits_of := (Feldman.bits_of hbits abits).
  Notation Inv := (@FeldmanStepInv.Inv hbits abits hs).
  Notation prog := (Conc.prog G V ev).
  Notation present := (FeldmanStepThm.present hs).
  Notation Rel2 := (FeldmanStepRel.Rel2 hs).
  Notation SR := (@FeldmanIterTraceDefs.SR hs).
  Notation TR := (@FeldmanIterTraceDefs.TR hs).
  Notation safeR := (@ConcRel.safeR G V ev Aux L WI view Inv SR).
  Notation ahead := (@FeldmanIterTraceDefs.ahead hbits abits).
  Notation cpfx := (@FeldmanIterTraceDefs.cpfx hbits abits).
  Notation pos_ok := (@FeldmanIterTraceDefs.pos_ok hbits abits).
  Notation nsize := (FeldmanIter.nsize hbits abits).
  Notation kincl := FeldmanIterSafe.kincl.
  Notation knows := FeldmanIterSafe.knows.

  (** ** arithmetic of the path order *)
  Lemma cut_lt_nat h o b : cut h o b < 2 ^ b.
  Proof.
    pose proof (@cut_lt h o b) as H. change 2%N with (N.of_nat 2) in H. rewrite <- Nat2N.inj_pow in H. lia.
  Qed.

  Lemma cut_lt_nsize h o a : cut h o (bits_of a) < nsize a.
  Proof. unfold FeldmanIter.nsize. apply cut_lt_nat. Qed.

  Lemma under_child h x a i : (snd x < 2 ^ N.of_nat (fst x))%N ->
    (under h (cpfx x a i) <-> under h x /\ cut h (fst x) (bits_of a) = i).
  Proof.
    intros Hx. unfold under, FeldmanIterTraceDefs.cpfx, child. cbn [fst snd]. rewrite mod_extend. split.
    - intros E.
      assert (Hm : (h mod 2 ^ N.of_nat (fst x) < 2 ^ N.of_nat (fst x))%N) by (apply N.mod_lt; apply N.pow_nonzero; discriminate).
      destruct (decompose _ _ Hm Hx E) as [E1 E2]. split; [exact E1|].
      rewrite <- (@cut_N h (fst x) (bits_of a)) in E2. apply Nat2N.inj in E2. exact E2.
    - intros [E1 E2]. rewrite E1. rewrite <- (@cut_N h (fst x) (bits_of a)). rewrite E2. reflexivity.
  Qed.

  Definition pre (dir : bool) (i : nat) : nat := if dir then i else S i.
  Definition post (dir : bool) (i : nat) : nat := if dir then S i else i.
  Definition cstart (dir : bool) (c : nat) : nat := if dir then 0 else nsize c.
  Definition exhausted (dir : bool) (a i : nat) : Prop := if dir then nsize a <= i else i = 0.

  Lemma ahead_unfold dir h ps a x i :
    ahead dir h ps a x i =
    ((under h x /\ cmp dir i (cut h (fst x) (bits_of a))) \/
     (~ under h x /\ match ps with [] => False | (pa, pi, px) :: r => ahead dir h r pa px (if dir then S pi else pi) end)).
  Proof. destruct ps; reflexivity. Qed.

  Lemma ahead_pass dir h ps a x i :
    ahead dir h ps a x (pre dir i) -> (under h x -> cut h (fst x) (bits_of a) <> i) -> ahead dir h ps a x (post dir i).
  Proof.
    rewrite !ahead_unfold. intros [[U C]|[U R]] Hne; [left|right; auto]. split; [exact U|]. specialize (Hne U).
    destruct dir; cbn [cmp pre post] in *; lia.
  Qed.

  Lemma ahead_back dir h ps a x i : ahead dir h ps a x (post dir i) -> ahead dir h ps a x (pre dir i).
  Proof.
    rewrite !ahead_unfold. intros [[U C]|[U R]]; [left|right; auto]. split; [exact U|].
    destruct dir; cbn [cmp pre post] in *; lia.
  Qed.

  Lemma ahead_at dir h ps a x i : under h x -> cut h (fst x) (bits_of a) = i -> ahead dir h ps a x (pre dir i).
  Proof.
    intros U E. rewrite ahead_unfold. left. split; [exact U|]. destruct dir; cbn [cmp pre]; lia.
  Qed.

  Lemma ahead_descend dir h ps a x i c : (snd x < 2 ^ N.of_nat (fst x))%N ->
    ahead dir h ps a x (pre dir i) -> ahead dir h ((a, i, x) :: ps) c (cpfx x a i) (cstart dir c).
  Proof.
    intros Hx H. rewrite ahead_unfold. destruct (under_dec h (cpfx x a i)) as [U|U].
    - left. split; [exact U|]. destruct dir; cbn [cmp cstart]; [lia|apply cut_lt_nsize].
    - right. split; [exact U|]. change (if dir then S i else i) with (post dir i). apply ahead_pass; [exact H|].
      intros Ux E. apply U. apply under_child; auto.
  Qed.

  Lemma ahead_pop dir h pa pi px r a x i :
    ahead dir h ((pa, pi, px) :: r) a x i -> exhausted dir a i -> ahead dir h r pa px (post dir pi).
  Proof.
    rewrite ahead_unfold. intros [[U C]|[U R]] E; [|exact R]. exfalso.
    pose proof (cut_lt_nsize h (fst x) a). destruct dir; cbn [cmp exhausted] in *; lia.
  Qed.

  Lemma ahead_end dir h a x i : exhausted dir a i -> ~ ahead dir h [] a x i.
  Proof.
    intros E. rewrite ahead_unfold. intros [[U C]|[U R]]; [|exact R].
    pose proof (cut_lt_nsize h (fst x) a). destruct dir; cbn [cmp exhausted] in *; lia.
  Qed.

  (** ** what [pos_ok] gives *)
  Lemma pos_ok_in l ps a x : pos_ok l ps a x -> In (a, x) (kstk l) /\ (snd x < 2 ^ N.of_nat (fst x))%N.
  Proof. destruct ps as [|[[pa pi] px] r]; cbn; tauto. Qed.

  Lemma pos_ok_incl l l' : (forall e, In e (kstk l) -> In e (kstk l')) -> forall ps a x, pos_ok l ps a x -> pos_ok l' ps a x.
  Proof.
    intros K. induction ps as [|[[pa pi] px] r IH]; intros a x; cbn [FeldmanIterTraceDefs.pos_ok].
    - intros (H1 & H2 & H3). auto.
    - intros (H1 & H2 & H3 & H4 & H5). repeat split; auto.
  Qed.

  Lemma pos_ok_kincl l l' ps a x : kincl l l' -> pos_ok l ps a x -> pos_ok l' ps a x.
  Proof. intros [K _]. apply pos_ok_incl. exact K. Qed.

  Lemma pos_ok_knows l ps a x : pos_ok l ps a x -> knows l a.
  Proof. intros H. destruct (pos_ok_in _ _ _ _ H) as [H1 _]. exists x. exact H1. Qed.

  Lemma pos_ok_knows0 l : forall ps a x, pos_ok l ps a x -> knows l 0.
  Proof.
    induction ps as [|[[pa pi] px] r IH]; intros a x; cbn [FeldmanIterTraceDefs.pos_ok].
    - intros (H1 & _ & -> & _). exists x. exact H1.
    - intros (_ & _ & _ & _ & H). eapply IH; eauto.
  Qed.

  (** ** intro rules *)
  Lemma Rel2_refl g : Rel2 g g.
  Proof. apply FeldmanStepRel.Rel2_refl. Qed.

  (** an access that leaves the shared state alone; the ghost value may move *)
  Lemma safeR_same {R} t (f : G -> G * V * list ev) (k : V -> prog R) l w (Q : R -> L -> WI -> Prop) :
    (forall g, fst (fst (f g)) = g) ->
    (forall g A tr, Inv g A tr -> view A t = l ->
       exists A' w', Inv g A' tr /\ Conc.frame view t A A' /\ TR g g tr (snd (f g)) w w' /\
                     safeR t (k (snd (fst (f g)))) (view A' t) w' Q) ->
    safeR t (Act f k) l w Q.
  Proof.
    intros Hf H. cbn [ConcRel.safeR]. intros g A tr HI Hv. destruct (H g A tr HI Hv) as (A' & w' & H1 & H2 & H3 & H4).
    exists A', w'. rewrite Hf. split; [eapply Inv_trace; exact H1|]. split; [exact H2|].
    split; [split; [apply Rel2_refl|exact H3]|exact H4].
  Qed.

  Lemma TR_acc_same g tr es w : all_acc es -> TR g g tr es w w.
  Proof. intros H. apply TR_same; [reflexivity|apply all_acc_quiet; exact H|reflexivity]. Qed.

  (** ... with constant view and ghost value *)
  Lemma safeR_read {R} t (f : G -> G * V * list ev) (k : V -> prog R) l w (Q : R -> L -> WI -> Prop) :
    (forall g, fst (fst (f g)) = g) -> (forall g, all_acc (snd (f g))) ->
    (forall g A tr, Inv g A tr -> view A t = l -> safeR t (k (snd (fst (f g)))) l w Q) ->
    safeR t (Act f k) l w Q.
  Proof.
    intros Hf Hacc H. apply safeR_same; [exact Hf|]. intros g A tr HI Hv. exists A, w. split; [exact HI|].
    split; [apply frame_refl|]. split; [apply TR_acc_same; apply Hacc|]. rewrite Hv. eauto.
  Qed.

  Lemma safeR_nop {R} t kd o (k : V -> prog R) l w (Q : R -> L -> WI -> Prop) :
    safeR t (k v0) l w Q -> safeR t (Act (a_nop kd o) k) l w Q.
  Proof. intros H. apply safeR_read; [reflexivity|intros g; apply acc_nop|]. intros g A tr _ _. exact H. Qed.

  Lemma safeR_cnt {R} t kd d (k : V -> prog R) l w (Q : R -> L -> WI -> Prop) :
    safeR t (k v0) l w Q -> safeR t (Act (a_cnt kd d) k) l w Q.
  Proof.
    intros H. cbn [ConcRel.safeR]. intros g A tr HI Hv. exists A, w. cbn [a_cnt fst snd].
    split; [eapply Inv_trace; apply Inv_count; exact HI|]. split; [apply frame_refl|].
    split; [split; [apply FeldmanStepRel.Rel2_samearr; reflexivity|apply TR_same; [reflexivity|apply all_acc_quiet; apply all_acc1|reflexivity]]|].
    rewrite Hv. exact H.
  Qed.

  Lemma safeR_retire {R} t (k : unit -> prog R) l w (Q : R -> L -> WI -> Prop) :
    safeR t (k tt) l w Q -> safeR t (Conc.bind (retire t) k) l w Q.
  Proof. intros H. unfold retire, a_rld, a_rst. cbn [Conc.bind]. apply safeR_nop. apply safeR_nop. exact H. Qed.

  Lemma safeR_emit_quiet {R} t es (k : prog R) l w (Q : R -> L -> WI -> Prop) :
    quiet w es -> safeR t k l w Q -> safeR t (Emit es k) l w Q.
  Proof.
    intros Hq H. cbn [ConcRel.safeR]. intros g A tr HI Hv. exists A, w. split; [eapply Inv_trace; exact HI|].
    split; [apply frame_refl|]. split; [split; [apply Rel2_refl|apply TR_same; auto]|]. rewrite Hv. exact H.
  Qed.

  (** ** Guard::protect: view and ghost value unchanged; the value returned is a load of the slot *)
  Definition keyP (l : L) (v : V) : Prop := sptr (vslot v) = kid l -> kid l <> 0 -> vkey v = kidk l.

  Lemma ld_keyP g A tr t l a i : Inv g A tr -> view A t = l -> keyP l (snd (fst (a_ld a i g))).
  Proof.
    intros HI Hv. unfold keyP, a_ld. cbn [fst snd vslot vkey]. intros E Hn. rewrite E.
    destruct (i_items HI t) as [_ K]. unfold view in Hv. rewrite Hv in K. destruct (K Hn) as [_ K2]. exact K2.
  Qed.

  Definition Qprot (l : L) (w : WI) : option V -> L -> WI -> Prop :=
    fun r l' w' => l' = l /\ w' = w /\ forall v, r = Some v -> keyP l v.

  Lemma safeR_protect_loop t s p l w : forall sf cur, safeR t (protect_loop sf t s p cur) l w (Qprot l w).
  Proof.
    induction sf as [|sf IH]; intros cur; cbn [protect_loop].
    - cbn. repeat split; auto. intros v E; discriminate.
    - unfold a_gst, a_sync. apply safeR_nop. apply safeR_nop.
      apply safeR_read; [reflexivity|intros g; apply acc_ld|]. intros g A tr HI Hv.
      pose proof (@ld_keyP _ _ _ _ _ (parr p) (pidx p) HI Hv) as K.
      destruct (slot_eqb (vslot (snd (fst (a_ld (parr p) (pidx p) g)))) (vslot cur)); [|apply IH].
      cbn [ConcRel.safeR]. repeat split; auto. intros v E. inversion E; subst v. exact K.
  Qed.

  Lemma safeR_protect t s sf p l w : safeR t (protect sf t s p) l w (Qprot l w).
  Proof.
    unfold protect. apply safeR_read; [reflexivity|intros g; apply acc_ld|]. intros g A tr HI Hv. apply safeR_protect_loop.
  Qed.

  (** ** what do_erase_at keeps: the view grows, the item known through [kid] stays; of the ghost value only the
         removal counter and the "gone" flag move *)
  Definition kinc (l l' : L) : Prop :=
    (forall e, In e (kstk l) -> In e (kstk l')) /\ ph l' = ph l /\ kid l' = kid l /\ kidk l' = kidk l.
  Definition wk (w w' : WI) : Prop :=
    wact w' = wact w /\ wah w' = wah w /\ wcur w' = wcur w /\ (wgone w = true -> wgone w' = true) /\ wrem w <= wrem w'.

  Lemma kinc_refl l : kinc l l.
  Proof. repeat split; auto. Qed.
  Lemma kinc_trans l1 l2 l3 : kinc l1 l2 -> kinc l2 l3 -> kinc l1 l3.
  Proof. intros (A1 & A2 & A3 & A4) (B1 & B2 & B3 & B4). repeat split; auto; congruence. Qed.
  Lemma kinc_kincl l l' : kinc l l' -> kincl l l'.
  Proof. intros (A1 & A2 & _). split; auto. Qed.
  Lemma kinc_know l a o pre0 : kinc l (know l a o pre0).
  Proof. repeat split; auto. Qed.
  Lemma wk_refl w : wk w w.
  Proof. repeat split; auto. Qed.
  Lemma wk_trans w1 w2 w3 : wk w1 w2 -> wk w2 w3 -> wk w1 w3.
  Proof. intros (A1 & A2 & A3 & A4 & A5) (B1 & B2 & B3 & B4 & B5). repeat split; try congruence; auto; lia. Qed.
  Lemma wk_gone w : wk w (set_gone w).
  Proof. repeat split; auto. Qed.
  Lemma wk_rem w : wk w (set_rem w).
  Proof. repeat split; cbn; auto. Qed.

  (** ** the erasing CAS on the slot that holds the iterator's element *)
  Lemma safeR_cas_x {R} t a i x (kont : V -> prog R) l w (Q : R -> L -> WI -> Prop) :
    (forall g A tr, Inv g A tr -> view A t = l -> exists o pre0, pfx A a = Some (o, pre0)) ->
    x <> 0 -> fst (wcur w) = x -> wact w = true ->
    (forall v, vok v = true -> safeR t (kont v) l (set_rem w) Q) ->
    (forall v, vok v = false -> safeR t (kont v) l w Q) ->
    safeR t (Act (a_cas a i (mkSlot x 0) snull) kont) l w Q.
  Proof.
    intros Hpf Hx Hc Ha' Hs Hf. cbn [ConcRel.safeR]. intros g A tr HI Hv.
    destruct (Hpf g A tr HI Hv) as (o & pre0 & Hp).
    pose proof (acc_cas a i (mkSlot x 0) snull g) as Hacc.
    assert (Hne : snd (a_cas a i (mkSlot x 0) snull g) <> []) by (unfold a_cas; destruct (slot_eqb _ _); discriminate).
    revert Hacc Hne. unfold a_cas.
    destruct (slot_eqb (arr g a i) (mkSlot x 0)) eqn:E; cbn [fst snd]; intros Hacc Hne.
    - apply slot_eqb_eq in E.
      exists A, (set_rem w). split; [eapply Inv_trace; apply (Inv_data_cas Hh Ha HI E Hp); left; reflexivity|].
      split; [apply frame_refl|]. split; [|rewrite Hv; apply Hs; reflexivity]. split.
      + apply FeldmanStepRel.Rel2_slot with (a := a) (i := i) (s := snull);
          [reflexivity|rewrite E; discriminate|rewrite E; discriminate|rewrite E; cbn; intros X; exfalso; apply X; reflexivity].
      + eapply TR_erase with (a := a) (i := i); [exact Hacc|exact Hne|exact Ha'|rewrite Hc; exact Hx|rewrite Hc; exact E| |reflexivity|reflexivity].
        eapply (@FeldmanLinInv.pfx_reach hbits abits hs Hh Ha g A tr HI o a o); [apply le_n|exact Hp].
    - exists A, w. split; [eapply Inv_trace; exact HI|]. split; [apply frame_refl|].
      split; [split; [apply Rel2_refl|apply TR_acc_same; exact Hacc]|]. rewrite Hv. apply Hf. reflexivity.
  Qed.

  Lemma slot_is s x : sbits s = 0 -> sptr s = x -> s = mkSlot x 0.
  Proof. destruct s; cbn; intros; subst; reflexivity. Qed.

  (** the element [x] (key [kx], known through [kid]) is nowhere if a data slot on the path of its hash holds something else *)
  Lemma gone_evidence g A tr t l a o pre0 i x kx c :
    Inv g A tr -> view A t = l -> kid l = x -> kidk l = kx -> x <> 0 ->
    pfx A a = Some (o, pre0) -> under (hash kx) (o, pre0) -> cut (hash kx) o (bits_of a) = i ->
    arr g a i = mkSlot c 0 -> c <> x -> forall a' i', ~ data_at g a' i' x.
  Proof.
    intros HI Hv Hk Hkk Hx Hp Hu Hi Hs Hne.
    assert (Ek : ikey g x = kx).
    { destruct (i_items HI t) as [_ K]. unfold view in Hv. rewrite Hv, Hk in K. destruct (K Hx) as [_ K2]. congruence. }
    apply (@FeldmanIterThm.erase_at_false_gone hbits abits hs Hh Ha g A tr a o i x c HI); auto.
    - rewrite Ek. unfold under in Hu. cbn [fst snd] in Hu. rewrite Hu. exact Hp.
    - rewrite Ek. symmetry. exact Hi.
  Qed.

  (** ** traverse on the path of the hash of [x]; a data slot that holds something else shows that [x] is gone *)
  Notation posP := (FeldmanStepRel.posP hbits abits).

  Definition Qtg (h : N) (x : nat) (l : L) (w : WI) : option (pos * V) -> L -> WI -> Prop :=
    fun r l' w' => kinc l l' /\ wk w w' /\ wrem w' = wrem w /\
      match r with
      | None => True
      | Some (p', v) => posP h p' l' /\ sbits (vslot v) = 0 /\ (sptr (vslot v) <> x -> wgone w' = true)
      end.

  Lemma safeR_traverse_g t x kx : x <> 0 -> forall sf p l w,
    posP (hash kx) p l -> kid l = x -> kidk l = kx -> fst (wcur w) = x -> wact w = true ->
    safeR t (traverse abits sf (hash kx) p) l w (Qtg (hash kx) x l w).
  Proof.
    intros Hx. induction sf as [|sf IH]; intros p l w HP Hk Hkk Hc Ha'; cbn [traverse].
    - cbn. split; [apply kinc_refl|]. split; [apply wk_refl|]. auto.
    - apply safeR_same; [reflexivity|]. intros g A tr HI Hv. cbn [a_ld fst snd vslot].
      destruct HP as (P1 & P2 & P3 & P4 & P5).
      pose proof (i_known HI t) as HK. unfold view in Hv. rewrite Hv in HK. rewrite P2 in HK.
      assert (TRs : TR g g tr [EvAcc KLd (obj_slot (parr p) (pidx p)) true] w w) by (apply TR_acc_same; apply all_acc1).
      destruct (arr g (parr p) (pidx p)) as [c b] eqn:Hs. cbn [sbits sptr].
      destruct (Nat.eqb_spec b 2) as [->|Hb2].
      + destruct (i_child HI _ _ HK Hs) as (C1 & C2 & C3).
        set (l1 := know (views A t) c (ko l + bits_of (parr p)) (kpre l + N.of_nat (pidx p) * 2 ^ N.of_nat (ko l))%N).
        exists (set_view A t l1), w.
        split; [apply Inv_know; [exact HI|exact C1]|]. split; [apply frame_set_view|]. split; [exact TRs|].
        rewrite view_set_same.
        assert (Kl : kinc l l1) by (unfold l1; rewrite Hv; apply kinc_know).
        apply ConcRel.safeR_weaken with (Q := Qtg (hash kx) x l1 w).
        { intros r l3 w3 (H1 & H2). split; [eapply kinc_trans; eauto|exact H2]. }
        apply IH; auto.
        * assert (Hbc : bits_of c = abits) by (unfold Feldman.bits_of; destruct (Nat.eqb_spec c 0); [congruence|reflexivity]).
          unfold FeldmanStepRel.posP, l1, know; cbn. rewrite Hv, Hbc.
          repeat split; auto; try lia; try (rewrite P3, P5, mod_extend, cut_N; reflexivity); try (rewrite P4; reflexivity).
        * unfold l1, know; cbn. rewrite Hv. exact Hk.
        * unfold l1, know; cbn. rewrite Hv. exact Hkk.
      + destruct (Nat.eqb_spec b 1) as [->|Hb1].
        * exists A, w. split; [exact HI|]. split; [apply frame_refl|]. split; [exact TRs|]. unfold view. rewrite Hv.
          apply IH; auto. repeat split; auto.
        * assert (b = 0).
          { destruct (le_lt_dec 2 b) as [Hge|Hl]; [|lia]. destruct (i_arrslot HI _ _ Hs Hge) as [E _]. congruence. }
          subst b.
          destruct (Nat.eq_dec c x) as [->|Hne].
          -- exists A, w. split; [exact HI|]. split; [apply frame_refl|]. split; [exact TRs|]. unfold view. rewrite Hv.
             cbn [ConcRel.safeR]. split; [apply kinc_refl|]. split; [apply wk_refl|]. split; [reflexivity|].
             split; [repeat split; auto|]. split; [reflexivity|]. cbn. intros X; congruence.
          -- exists A, (set_gone w). split; [exact HI|]. split; [apply frame_refl|]. split.
             { apply TR_gone; [apply all_acc1|discriminate|exact Ha'|reflexivity| |reflexivity].
               rewrite Hc. apply (@gone_evidence g A tr t l (parr p) (ko l) (kpre l) (pidx p) x kx c HI); auto.
               all: try (symmetry; exact P5).
               all: unfold under; cbn [fst snd]; symmetry; exact P3. }
             unfold view. rewrite Hv.
             cbn [ConcRel.safeR]. split; [apply kinc_refl|]. split; [apply wk_gone|]. split; [reflexivity|].
             split; [repeat split; auto|]. split; [reflexivity|]. intros _. reflexivity.
  Qed.

  (** ** the unlink fall-back *)
  Definition Qu (l : L) (w : WI) : out -> L -> WI -> Prop :=
    fun r l' w' => kinc l l' /\ wk w w' /\
      match r with
      | None => True
      | Some (true, _) => wrem w' = S (wrem w)
      | Some (false, _) => wrem w' = wrem w /\ wgone w' = true
      end.

  Lemma Qu_weaken l l1 w w1 r l' w' : kinc l l1 -> wk w w1 -> wrem w1 = wrem w -> Qu l1 w1 r l' w' -> Qu l w r l' w'.
  Proof.
    intros K Wk Hr (H1 & H2 & H3). split; [eapply kinc_trans; eauto|]. split; [eapply wk_trans; eauto|].
    destruct r as [[[|] y]|]; auto; rewrite <- Hr; exact H3.
  Qed.

  Lemma safeR_unlink_loop t g0 x kx sf : x <> 0 -> forall fuel p l w,
    posP (hash kx) p l -> kid l = x -> kidk l = kx -> fst (wcur w) = x -> wact w = true ->
    safeR t (unlink_loop abits hs fuel sf t g0 (hash kx) x p) l w (Qu l w).
  Proof.
    intros Hx. induction fuel as [|fuel IH]; intros p l w HP Hk Hkk Hc Ha'; cbn [unlink_loop].
    - split; [apply kinc_refl|]. split; [apply wk_refl|exact I].
    - apply ConcRel.safeR_bind. eapply ConcRel.safeR_weaken; [|apply safeR_traverse_g; eauto].
      intros [[p' v]|] l1 w1 (K1 & Wk1 & Hr1 & K2); [|split; [exact K1|split; [exact Wk1|exact I]]].
      destruct K2 as (HP1 & Hb & Hg).
      assert (Hk1 : kid l1 = x) by (destruct K1 as (_ & _ & E & _); congruence).
      assert (Hkk1 : kidk l1 = kx) by (destruct K1 as (_ & _ & _ & E); congruence).
      assert (Hc1 : fst (wcur w1) = x) by (destruct Wk1 as (_ & _ & E & _); rewrite E; exact Hc).
      assert (Ha1 : wact w1 = true) by (destruct Wk1 as (E & _); congruence).
      apply ConcRel.safeR_weaken with (Q := Qu l1 w1). { intros r l3 w3 H. eapply Qu_weaken; eauto. }
      apply ConcRel.safeR_bind. eapply ConcRel.safeR_weaken; [|apply safeR_protect].
      intros pr l' w' (-> & -> & KP). destruct pr as [v'|]; [|split; [apply kinc_refl|split; [apply wk_refl|exact I]]].
      destruct (slot_eqb (vslot v') (vslot v)) eqn:Es; cbn [negb]; [|apply IH; auto].
      apply slot_eqb_eq in Es.
      assert (FALSE : sptr (vslot v) <> x -> Qu l1 w1 (Some (false, false)) l1 w1).
      { intros Hn. split; [apply kinc_refl|]. split; [apply wk_refl|]. split; [reflexivity|apply Hg; exact Hn]. }
      destruct (Nat.eqb_spec (sptr (vslot v)) 0) as [Hz|Hnz]; cbn [negb]; [apply FALSE; congruence|].
      destruct (N.eqb (hash (vkey v')) (hash kx) && Nat.eqb (sptr (vslot v)) x) eqn:Eand.
      + apply andb_true_iff in Eand. destruct Eand as [_ Ex]. apply Nat.eqb_eq in Ex.
        rewrite (slot_is _ Hb Ex).
        apply safeR_cas_x; auto.
        * intros g A tr HI Hv. destruct HP1 as (_ & P2 & _). pose proof (i_known HI t) as HK. unfold view in Hv. rewrite Hv, P2 in HK. eauto.
        * intros c Hok. rewrite Hok. apply safeR_retire. apply safeR_cnt.
          split; [apply kinc_refl|]. split; [apply wk_rem|reflexivity].
        * intros c Hok. rewrite Hok. apply IH; auto.
      + apply FALSE. intros Ex. apply andb_false_iff in Eand. destruct Eand as [E|E].
        * apply N.eqb_neq in E. apply E. f_equal. rewrite <- Hkk1. apply (KP v' eq_refl); [rewrite Es; congruence|congruence].
        * apply Nat.eqb_neq in E. auto.
  Qed.

  (** ** do_erase_at *)
  Definition Qe (l : L) (w : WI) : option bool -> L -> WI -> Prop :=
    fun r l' w' => kinc l l' /\ wk w w' /\
      match r with
      | None => True
      | Some true => wrem w' = S (wrem w)
      | Some false => wrem w' = wrem w /\ wgone w' = true
      end.

  Lemma safeR_erase_at_loop t s a i x kx sf o pre0 :
    x <> 0 -> under (hash kx) (o, pre0) -> cut (hash kx) o (bits_of a) = i ->
    forall fuel l w, In (a, (o, pre0)) (kstk l) -> kid l = x -> kidk l = kx -> ph l = PIdle -> fst (wcur w) = x -> wact w = true ->
    safeR t (erase_at_loop hbits abits hs fuel sf t s a i x kx) l w (Qe l w).
  Proof.
    intros Hx Hu Hi. induction fuel as [|fuel IH]; intros l w Hin Hk Hkk Hph Hc Ha'; cbn [erase_at_loop].
    - split; [apply kinc_refl|]. split; [apply wk_refl|exact I].
    - apply safeR_same; [reflexivity|]. intros g A tr HI Hv. cbn [a_ld fst snd vslot].
      assert (Hp : pfx A a = Some (o, pre0)). { eapply (i_stk HI). unfold view in Hv. rewrite Hv. exact Hin. }
      assert (TRs : TR g g tr [EvAcc KLd (obj_slot a i) true] w w) by (apply TR_acc_same; apply all_acc1).
      destruct (arr g a i) as [c b] eqn:Hs. cbn [sbits sptr].
      destruct (Nat.eqb_spec b 0) as [->|Hb0].
      + destruct (Nat.eq_dec c x) as [->|Hne].
        * exists A, w. split; [exact HI|]. split; [apply frame_refl|]. split; [exact TRs|]. rewrite Hv.
          unfold a_gld. apply safeR_nop. rewrite Nat.eqb_refl.
          apply safeR_cas_x; auto.
          -- intros g2 A2 tr2 HI2 Hv2. exists o, pre0. eapply (i_stk HI2). unfold view in Hv2. rewrite Hv2. exact Hin.
          -- intros c Hok. rewrite Hok. apply safeR_retire. apply safeR_cnt.
             split; [apply kinc_refl|]. split; [apply wk_rem|reflexivity].
          -- intros c Hok. rewrite Hok. apply IH; auto.
        * exists A, (set_gone w). split; [exact HI|]. split; [apply frame_refl|]. split.
          { apply TR_gone; [apply all_acc1|discriminate|exact Ha'|reflexivity| |reflexivity].
            rewrite Hc. apply (@gone_evidence g A tr t l a o pre0 i x kx c HI); auto. }
          rewrite Hv. unfold a_gld. apply safeR_nop.
          destruct (Nat.eqb_spec c x) as [E|_]; [congruence|].
          split; [apply kinc_refl|]. split; [apply wk_gone|]. split; reflexivity.
      + set (l1 := know l 0 0 0%N).
        exists (set_view A t l1), w. split.
        { unfold l1. unfold view in Hv. rewrite <- Hv. apply Inv_know; [exact HI|apply (i_head HI)]. }
        split; [apply frame_set_view|]. split; [exact TRs|]. rewrite view_set_same.
        assert (Kl : kinc l l1) by apply kinc_know.
        destruct (Nat.eqb_spec b 0) as [E|_]; [congruence|].
        unfold a_gld. apply safeR_nop. apply ConcRel.safeR_bind.
        eapply ConcRel.safeR_weaken; [|apply safeR_unlink_loop with (x := x) (kx := kx) (l := l1); auto].
        * intros [[b0 y]|] l2 w2 (K1 & Wk1 & K2).
          -- unfold a_gst. apply safeR_nop. cbn [ConcRel.safeR]. unfold Qe.
             split; [exact (kinc_trans Kl K1)|]. split; [exact Wk1|]. destruct b0; exact K2.
          -- cbn [ConcRel.safeR]. unfold Qe. split; [exact (kinc_trans Kl K1)|]. split; [exact Wk1|exact I].
        * apply FeldmanStepRel.start_posP. exact Hph.
  Qed.
End Base.
