(** * C28_Main — the C28 statements in their final form: a configuration (head_bits, array_bits) as the user passes
    it to the FeldmanHashSet constructor, normalised by metrics::make, accepted by hash_splitter::is_correct. *)
Require Import ZArith Lia List Bool.
Require Import LV.Base.CInt LV.Model.FeldmanPath.
Require Import LV.Proofs.C28_Digits LV.Proofs.C28_Metrics LV.Proofs.C28_Path LV.Proofs.C28_NumSplit LV.Proofs.C28_ByteSplit.
Import ListNotations.
Local Open Scope Z_scope.

Module G := LV.Gen.Gen_feldman.

(** [m] is what the constructor computes from (head, array) for splitter [sp], and both widths are covered *)
Definition config_ok {H S : Type} (sp : splitter H S) (okc : Z -> Prop) (head array : Z) (m : metrics) : Prop :=
  0 <= head < 2 ^ 64 /\ 0 <= array < 2 ^ 64 /\ 1 <= sp_size sp <= 8 /\
  metrics_make head array (sp_size sp) = Some m /\
  okc (head_node_size_log m) /\ okc (array_node_size_log m).

Lemma make_some_inv head array size m : 0 <= head < 2 ^ 64 -> 0 <= array < 2 ^ 64 -> 1 <= size <= 8 ->
  metrics_make head array size = Some m ->
  m = mk_metrics (2 ^ norm_head head array (8 * size)) (norm_head head array (8 * size))
                 (2 ^ norm_array array) (norm_array array).
Proof.
  intros Hh Ha Hs E. rewrite (make_spec head array size Hh Ha Hs) in E.
  destruct ((norm_head head array (8 * size) <? 64) && (norm_array array <? 64)); [|discriminate].
  now injection E as <-.
Qed.

Lemma config_layout {H S : Type} (sp : splitter H S) okc head array m W : W = 8 * sp_size sp ->
  config_ok sp okc head array m -> good_layout W m /\ (nlev W m <= 64)%nat /\ 2 <= array_node_size_log m /\
  4 <= head_node_size_log m.
Proof.
  intros HW (Hh & Ha & Hs & Hm & _). apply make_some_inv in Hm; try assumption. subst m.
  destruct (make_normalises_all head array (sp_size sp) Hh Ha Hs) as (B1 & B2 & B3 & B4 & B5 & B6 & B7 & _).
  cbv zeta in *. rewrite <- HW in *. unfold good_layout, nlev. cbn [head_node_size_log array_node_size_log].
  repeat split; try lia.
  apply Nat2Z.inj_le. rewrite Z2Nat.id by (apply Z.div_pos; lia).
  apply Z.div_le_upper_bound; [lia|]. change (Z.of_nat 64) with 64. nia.
Qed.

Section Final.
  Context {H S : Type} (sp : splitter H S) (W : Z) (valid : H -> Prop) (val : H -> Z)
          (okc : Z -> Prop) (inv : H -> S -> Prop) (pos : S -> Z).
  Hypothesis SP : splitter_spec sp W valid val okc inv pos.

  Lemma final_accepted head array m : config_ok sp okc head array m -> accepted sp m = Some true.
  Proof. intros (_ & _ & _ & _ & A & B). eapply accepted_ok; eauto. Qed.

  Lemma final_layout head array m h lv : config_ok sp okc head array m -> valid h -> (64 < lv)%nat ->
    sumz (widths W m) = W /\
    exists p, path sp lv m h = Some p /\ length p = length (widths W m) /\
              map snd p = repeat false (nlev W m) ++ [true].
  Proof.
    intros C Hv Hlv. destruct (config_layout sp okc head array m W (ss_width _ _ _ _ _ _ _ SP) C) as (GL & Hn & _).
    destruct C as (_ & _ & _ & _ & A & B).
    exact (layout_consumes_all_bits_gen sp W valid val okc inv pos SP m h lv GL A B Hv ltac:(lia)).
  Qed.

  Lemma final_deterministic head array m h1 h2 lv : config_ok sp okc head array m -> valid h1 -> valid h2 ->
    (64 < lv)%nat -> val h1 = val h2 -> path sp lv m h1 = path sp lv m h2.
  Proof.
    intros C Hv1 Hv2 Hlv E. destruct (config_layout sp okc head array m W (ss_width _ _ _ _ _ _ _ SP) C) as (GL & Hn & _).
    destruct C as (_ & _ & _ & _ & A & B).
    exact (path_deterministic_gen sp W valid val okc inv pos SP m h1 h2 lv GL A B Hv1 Hv2 ltac:(lia) E).
  Qed.

  Lemma final_diverge head array m h1 h2 lv : config_ok sp okc head array m -> valid h1 -> valid h2 ->
    (64 < lv)%nat -> h1 <> h2 ->
    exists p1 p2 k, path sp lv m h1 = Some p1 /\ path sp lv m h2 = Some p2 /\
      length p1 = length p2 /\ (k < length p1)%nat /\
      firstn k (slots p1) = firstn k (slots p2) /\ nth_error (slots p1) k <> nth_error (slots p2) k.
  Proof.
    intros C Hv1 Hv2 Hlv Hne. destruct (config_layout sp okc head array m W (ss_width _ _ _ _ _ _ _ SP) C) as (GL & Hn & _).
    destruct C as (_ & _ & _ & _ & A & B).
    exact (paths_diverge_gen sp W valid val okc inv pos SP m h1 h2 lv GL A B Hv1 Hv2 ltac:(lia) Hne).
  Qed.

  Lemma final_slot_range head array m h lv p k slot w : config_ok sp okc head array m -> valid h ->
    (64 < lv)%nat -> path sp lv m h = Some p -> nth_error (slots p) k = Some slot ->
    nth_error (widths W m) k = Some w -> 0 <= slot < 2 ^ w.
  Proof.
    intros C Hv Hlv Hp Hs Hw. destruct (config_layout sp okc head array m W (ss_width _ _ _ _ _ _ _ SP) C) as (GL & Hn & _).
    destruct C as (_ & _ & _ & _ & A & B).
    exact (slot_in_range_gen sp W valid val okc inv pos SP m h lv p k slot w GL A B Hv ltac:(lia) Hp Hs Hw).
  Qed.

  (** slot k of the path indexes the head array (k = 0, 2^head' slots) or an array node (2^array' slots) *)
  Lemma final_slot_in_node head array m h lv p k slot : config_ok sp okc head array m -> valid h ->
    (64 < lv)%nat -> path sp lv m h = Some p -> nth_error (slots p) k = Some slot ->
    0 <= slot < (if Nat.eqb k 0 then head_node_size m else array_node_size m).
  Proof.
    intros C Hv Hlv Hp Hs.
    assert (Hw : exists w, nth_error (widths W m) k = Some w /\
                           2 ^ w = if Nat.eqb k 0 then head_node_size m else array_node_size m).
    { destruct (final_layout head array m h lv C Hv Hlv) as (_ & p' & Hp' & Hl & _).
      rewrite Hp in Hp'. injection Hp' as <-.
      assert (Hk : (k < length (widths W m))%nat).
      { rewrite <- Hl. unfold slots in Hs. rewrite <- (map_length fst). apply nth_error_Some. congruence. }
      destruct C as (Hh & Ha & Hsz & Hm & _). apply make_some_inv in Hm; try assumption. subst m.
      unfold widths in *. cbn [head_node_size_log array_node_size_log head_node_size array_node_size] in *.
      destruct k as [|k]; cbn [nth_error Nat.eqb].
      - eexists; split; reflexivity.
      - cbn [length] in Hk. rewrite repeat_length in Hk. exists (norm_array array). split; [|reflexivity].
        apply nth_error_repeat. lia. }
    destruct Hw as (w & Hw & <-). eapply final_slot_range; eauto.
  Qed.

  Lemma final_insert_never_fails head array m h1 h2 lv p1 p2 j : config_ok sp okc head array m ->
    valid h1 -> valid h2 -> (64 < lv)%nat -> h1 <> h2 ->
    path sp lv m h1 = Some p1 -> path sp lv m h2 = Some p2 ->
    (1 <= j <= length p1)%nat -> firstn j (slots p1) = firstn j (slots p2) ->
    (j < length p1)%nat /\ nth_error (map snd p1) (j - 1) = Some false.
  Proof.
    intros C Hv1 Hv2 Hlv Hne H1 H2 Hj Hf.
    destruct (config_layout sp okc head array m W (ss_width _ _ _ _ _ _ _ SP) C) as (GL & Hn & _).
    destruct C as (_ & _ & _ & _ & A & B).
    exact (insert_never_fails_gen sp W valid val okc inv pos SP m h1 h2 lv p1 p2 j GL A B Hv1 Hv2 ltac:(lia) Hne H1 H2 Hj Hf).
  Qed.

  Lemma final_inserts_succeed head array m hs lv : config_ok sp okc head array m -> Forall valid hs -> NoDup hs ->
    (64 < lv)%nat ->
    exists fin, inserts sp lv m [] hs = Some (repeat true (length hs), fin) /\ map fst fin = hs /\
                Forall (fun e => exists p, path sp lv m (fst e) = Some p /\ snd e = slots p) fin.
  Proof.
    intros C Hval Hnd Hlv.
    destruct (config_layout sp okc head array m W (ss_width _ _ _ _ _ _ _ SP) C) as (GL & Hn & _).
    destruct C as (_ & _ & _ & _ & A & B).
    destruct (inserts_all_succeed sp W valid val okc inv pos SP m lv hs GL A B ltac:(lia) Hval Hnd [])
      as (fin & Hi & Hw & Hm); [constructor | intros ? ? [] |].
    exists fin. repeat split; try assumption.
    unfold well_stored in Hw. eapply Forall_impl; [|exact Hw]. simpl. intros e (_ & He). exact He.
  Qed.

  Lemma final_expand_consistent head array m h lv p : config_ok sp okc head array m -> valid h ->
    (64 < lv)%nat -> path sp lv m h = Some p -> expand_slots sp lv m h = Some (tl (slots p)).
  Proof.
    intros C Hv Hlv Hp. destruct (config_layout sp okc head array m W (ss_width _ _ _ _ _ _ _ SP) C) as (GL & Hn & _).
    destruct C as (_ & _ & _ & _ & A & B).
    exact (expand_slot_consistent_gen sp W valid val okc inv pos SP m h lv p GL A B Hv ltac:(lia) Hp).
  Qed.
End Final.

(** ** which configurations [is_correct] accepts *)

Lemma ns_u16_accepted m : accepted ns_u16_splitter m = Some ((head_node_size_log m <? 16) && (array_node_size_log m <? 16)).
Proof. reflexivity. Qed.
Lemma ns_i16_accepted m : accepted ns_i16_splitter m = Some ((head_node_size_log m <? 16) && (array_node_size_log m <? 16)).
Proof. reflexivity. Qed.
Lemma ns_u32_accepted m : accepted ns_u32_splitter m = Some ((head_node_size_log m <? 32) && (array_node_size_log m <? 32)).
Proof. reflexivity. Qed.
Lemma ns_i32_accepted m : accepted ns_i32_splitter m = Some ((head_node_size_log m <? 32) && (array_node_size_log m <? 32)).
Proof. reflexivity. Qed.
Lemma ns_u64_accepted m : accepted ns_u64_splitter m = Some ((head_node_size_log m <? 64) && (array_node_size_log m <? 64)).
Proof. reflexivity. Qed.
Lemma ns_i64_accepted m : accepted ns_i64_splitter m = Some ((head_node_size_log m <? 64) && (array_node_size_log m <? 64)).
Proof. reflexivity. Qed.
Lemma sb_accepted fuel N m : accepted (sb_splitter fuel N) m = Some true.
Proof. reflexivity. Qed.
Lemma bs_accepted fuel N m : 0 <= head_node_size_log m < 2 ^ 32 -> 0 <= array_node_size_log m < 2 ^ 32 ->
  accepted (bs_splitter fuel N) m = Some ((head_node_size_log m mod 8 =? 0) && (array_node_size_log m mod 8 =? 0)).
Proof.
  intros Hh Ha. unfold accepted. cbn [sp_is_correct bs_splitter]. unfold G.bs_is_correct, c_eq.
  assert (R : forall c, 0 <= c < 2 ^ 32 -> c_rem u32 c 8 = Some (c mod 8)).
  { intros c Hc. unfold c_rem. simpl (8 =? 0).
    assert (0 <= Z.quot c 8 <= c).
    { rewrite Z.quot_div_nonneg by lia. split; [apply Z.div_pos; lia|]. apply Z.div_le_upper_bound; lia. }
    replace (in_rangeb u32 (Z.quot c 8)) with true.
    - now rewrite Z.rem_mod_nonneg by lia.
    - symmetry. apply in_rangeb_spec. unfold in_range, imin, imax. simpl. change (2 ^ 32) with 4294967296 in *. lia. }
  rewrite !R by assumption. reflexivity.
Qed.

(** a normalised head of all hash bits (head_bits >= hash_bits, or array_bits > hash_bits - head_bits) is rejected
    by number_splitter::is_correct: the assertion in the constructor fails (NDEBUG: the set is built anyway and
    cut( 8*sizeof ) shifts by the full width) *)
Lemma ns_full_width_head_rejected :
  (exists m, metrics_make 4 13 2 = Some m /\ head_node_size_log m = 16 /\ accepted ns_u16_splitter m = Some false) /\
  (exists m, metrics_make 32 4 4 = Some m /\ head_node_size_log m = 32 /\ accepted ns_u32_splitter m = Some false) /\
  (metrics_make 64 4 8 = None).
Proof. repeat split; try (eexists; repeat split; vm_compute; reflexivity). Qed.

(** ** beyond the documented limit of split_bitstring / byte_splitter: is_correct accepts, cut is undefined *)

Lemma sb_wide_cut_refuted :
  exists mem c, valid_bytes 8 mem /\ G.sb_is_correct c = Some true /\ 32 < c <= 64 /\
    forall fuel, G.sb_cut fuel mem (G.mk_sb 0 0 0 8) c = None.
Proof.
  exists [1; 0; 0; 0; 1; 0; 0; 0], 33. repeat split; try lia.
  - repeat constructor; unfold is_byte; lia.
  - intros fuel. destruct fuel as [|[|[|[|[|f]]]]]; reflexivity.
Qed.

Lemma bs_wide_cut_refuted :
  exists mem c, valid_bytes 8 mem /\ G.bs_is_correct c = Some true /\ 32 < c <= 64 /\
    forall fuel, G.bs_cut fuel mem (G.mk_bs 0 0 8) c = None.
Proof.
  exists [1; 0; 0; 0; 1; 0; 0; 0], 40. repeat split; try lia.
  - repeat constructor; unfold is_byte; lia.
  - intros fuel. destruct fuel as [|[|[|[|[|f]]]]]; reflexivity.
Qed.

(** the configuration-level witness: 8-byte byte-string hash, head_bits 40, array_bits 4 is accepted by the
    constructor's assertions, and the very first cut of every path is undefined *)
Lemma sb_wide_head_refuted :
  exists m h, metrics_make 40 4 8 = Some m /\ (forall fuel, accepted (sb_splitter fuel 8) m = Some true) /\
    valid_bytes 8 h /\ forall fuel lv, path (sb_splitter fuel 8) lv m h = None.
Proof.
  eexists. exists [1; 0; 0; 0; 1; 0; 0; 0]. split; [vm_compute; reflexivity|]. split; [reflexivity|]. split.
  - split; [reflexivity|]. repeat constructor; unfold is_byte; lia.
  - intros fuel lv. unfold path. cbn [sp_cut sp_init sb_splitter head_node_size_log].
    assert (E : G.sb_cut fuel [1; 0; 0; 0; 1; 0; 0; 0] (G.mk_sb 0 0 0 8) 40 = None).
    { destruct fuel as [|[|[|[|[|f]]]]]; reflexivity. }
    rewrite E. reflexivity.
Qed.
