(** * Proofs about the sequential FeldmanHashSet model (LV.Model.FeldmanSeq), for ALL hash values, head/array
      widths and hash widths.

    expand_slot replaces a data slot by an array node that holds exactly the old element, at the position its own
    next bits select; insert (through any number of expansions) adds exactly the new element; under the placement
    invariant [fpl] (every data node lies on the path its hash bits spell) [ffind] decides membership, so every
    element held before an insert/expansion is found after it. *)
From Coq Require Import List NArith Arith Bool Lia Permutation.
From LV Require Import Model.CuckooSeq Model.FeldmanSeq Proofs.CuckooProofs.
Import ListNotations.

Lemma flat_map_upd_perm {A B} (f : A -> list B) (l : list A) i v d :
  i < length l -> Permutation (f (nth i l d) ++ flat_map f (upd i (fun _ => v) l)) (f v ++ flat_map f l).
Proof.
  revert i; induction l as [|a l IH]; intros [|i] H; simpl in *; try lia.
  - apply Permutation_app_swap_app.
  - rewrite Permutation_app_swap_app. rewrite (Permutation_app_swap_app (f v) (f a)).
    apply Permutation_app_head. apply IH; lia.
Qed.

Lemma Forall_upd {A} (Q : A -> Prop) l i v : Forall Q l -> Q v -> Forall Q (upd i (fun _ => v) l).
Proof. intros H Hv. revert i; induction H; intros [|i]; simpl; constructor; auto. Qed.

Lemma Forall_nth_d {A} (Q : A -> Prop) l i d : Forall Q l -> Q d -> Q (nth i l d).
Proof. intros H Hd. revert i; induction H; intros [|i]; simpl; auto. Qed.

Section Proofs.
  Variable W : nat.
  Variable hb ab : nat.

  Notation cut := FeldmanSeq.cut.
  Notation expand := (expand ab).
  Notation fins := (fins W ab).
  Notation ffind := (ffind ab).

  Lemma cut_lt x off c : cut x off c < 2 ^ c.
  Proof.
    unfold FeldmanSeq.cut. rewrite N.land_ones.
    assert (H : (N.shiftr x (N.of_nat off) mod 2 ^ N.of_nat c < 2 ^ N.of_nat c)%N)
      by (apply N.mod_lt, N.pow_nonzero; discriminate).
    assert (E : 2 ^ c = N.to_nat (2 ^ N.of_nat c)) by (rewrite N2Nat.inj_pow, Nat2N.id; reflexivity).
    rewrite E. lia.
  Qed.

  (** array nodes have 2^ab slots *)
  Inductive fwf : fnode -> Prop :=
  | wfE : fwf FEmpty
  | wfD y : fwf (FData y)
  | wfA sl : length sl = 2 ^ ab -> Forall fwf sl -> fwf (FArr sl).

  (** placement: [fpl n off P] — below a slot reached after [off] bits by exactly the keys satisfying [P], every
      data node satisfies [P] and the bits that lead to it *)
  Inductive fpl : fnode -> nat -> (key -> Prop) -> Prop :=
  | plE off P : fpl FEmpty off P
  | plD y off (P : key -> Prop) : P y -> fpl (FData y) off P
  | plA sl off (P : key -> Prop) :
      (forall i, fpl (nth i sl FEmpty) (off + ab) (fun z => P z /\ cut z off ab = i)) -> fpl (FArr sl) off P.

  Lemma flat_map_repeat_empty n : flat_map felems (repeat FEmpty n) = [].
  Proof. induction n; simpl; auto. Qed.

  (** expand_slot: the new array node holds exactly the old element, is well formed, and the old element lies
      where its own bits at this level point *)
  Theorem expand_spec y off :
    felems (expand y off) = [y] /\ fwf (expand y off) /\
    (forall P : key -> Prop, P y -> fpl (expand y off) off P).
  Proof.
    unfold FeldmanSeq.expand. pose proof (cut_lt y off ab) as Hc.
    split; [|split].
    - simpl. pose proof (flat_map_upd_perm felems (repeat FEmpty (2 ^ ab)) (cut y off ab) (FData y) FEmpty) as H.
      rewrite repeat_length in H. specialize (H Hc). rewrite flat_map_repeat_empty in H.
      destruct (nth_repeat_any FEmpty FEmpty (2 ^ ab) (cut y off ab)) as [E|E]; rewrite E in H; simpl in H;
        apply Permutation_sym, Permutation_length_1_inv in H; exact H.
    - constructor; [now rewrite upd_length, repeat_length|].
      apply Forall_upd; [|constructor]. apply Forall_forall. intros a Ha. apply repeat_spec in Ha. subst. constructor.
    - intros P HP. constructor. intros i. destruct (Nat.eq_dec (cut y off ab) i) as [<-|Hne].
      + rewrite nth_upd_eq by (now rewrite repeat_length). constructor. auto.
      + rewrite nth_upd_neq by auto.
        destruct (nth_repeat_any FEmpty FEmpty (2 ^ ab) i) as [E|E]; rewrite E; constructor.
  Qed.

  Lemma fins_S f n x off :
    fins (S f) n x off =
    match n with
    | FEmpty => (FData x, Ok true)
    | FData y => if N.eqb y x then (n, Ok false)
                 else if W <=? off then (n, Ok false)
                 else fins f (expand y off) x off
    | FArr sl =>
      let i := cut x off ab in
      let r := fins f (nth i sl FEmpty) x (off + ab) in
      (FArr (upd i (fun _ => fst r) sl), snd r)
    end.
  Proof. reflexivity. Qed.

  (** insert below a slot: well-formedness, conservation, placement *)
  Lemma fins_spec fuel : forall n x off, fwf n ->
    fwf (fst (fins fuel n x off)) /\
    (match snd (fins fuel n x off) with
     | Ok true => Permutation (felems (fst (fins fuel n x off))) (x :: felems n)
     | _ => Permutation (felems (fst (fins fuel n x off))) (felems n)
     end) /\
    (forall P : key -> Prop, fpl n off P -> P x -> fpl (fst (fins fuel n x off)) off P).
  Proof.
    induction fuel as [|f IH]; intros n x off Hwf; [simpl; auto|].
    rewrite fins_S. destruct n as [|y|sl].
    - simpl. split; [constructor|]. split; [reflexivity|]. intros P _ HP. now constructor.
    - destruct (N.eqb y x); [simpl; auto|]. destruct (W <=? off); [simpl; auto|].
      destruct (expand_spec y off) as [E1 [E2 E3]].
      destruct (IH (expand y off) x off E2) as [A [B C]]. split; [exact A|]. split.
      + rewrite E1 in B. exact B.
      + intros P HP Hx. apply C; auto. apply E3. now inversion HP.
    - cbv zeta. inversion Hwf as [| |? Hlen Hall]; subst.
      pose proof (cut_lt x off ab) as Hc. rewrite <- Hlen in Hc.
      assert (Hw : fwf (nth (cut x off ab) sl FEmpty)) by (apply Forall_nth_d; [auto|constructor]).
      destruct (IH (nth (cut x off ab) sl FEmpty) x (off + ab) Hw) as [A [B C]].
      cbn [fst snd]. split; [|split].
      + constructor; [now rewrite upd_length|]. now apply Forall_upd.
      + pose proof (flat_map_upd_perm felems sl (cut x off ab)
                      (fst (fins f (nth (cut x off ab) sl FEmpty) x (off + ab))) FEmpty Hc) as H.
        simpl. destruct (snd (fins f (nth (cut x off ab) sl FEmpty) x (off + ab))) as [[|]|].
        * apply Permutation_app_inv_l with (l := felems (nth (cut x off ab) sl FEmpty)).
          rewrite H. rewrite B. simpl. apply Permutation_middle.
        * apply Permutation_app_inv_l with (l := felems (nth (cut x off ab) sl FEmpty)).
          rewrite H. now rewrite B.
        * apply Permutation_app_inv_l with (l := felems (nth (cut x off ab) sl FEmpty)).
          rewrite H. now rewrite B.
      + intros P HP Hx. inversion HP as [| |? ? ? Hall']; subst. constructor. intros i.
        destruct (Nat.eq_dec (cut x off ab) i) as [<-|Hne].
        * rewrite nth_upd_eq by auto. apply C; auto.
        * rewrite nth_upd_neq by auto. apply Hall'.
  Qed.

  Lemma ffind_arr sl x off : ffind (FArr sl) x off = ffind (nth (cut x off ab) sl FEmpty) x (off + ab).
  Proof.
    simpl. generalize (cut x off ab). induction sl as [|a sl IH]; intros [|i]; simpl; auto.
  Qed.

  Lemma fpl_elems n off P : fpl n off P -> forall z, In z (felems n) -> P z.
  Proof.
    induction 1 as [| |sl off P H IH]; simpl; intros z Hz; try tauto.
    - destruct Hz as [<-|[]]; auto.
    - apply in_flat_map in Hz. destruct Hz as [a [Ha Hz]].
      destruct (In_nth _ _ FEmpty Ha) as [i [_ Ei]]. specialize (IH i z). rewrite Ei in IH. apply IH; auto.
  Qed.

  Lemma ffind_complete n off P : fpl n off P -> forall x, P x -> In x (felems n) -> ffind n x off = true.
  Proof.
    induction 1 as [| |sl off P H IH]; intros x HP Hin.
    - inversion Hin.
    - simpl in *. destruct Hin as [->|[]]. apply N.eqb_refl.
    - rewrite ffind_arr. simpl in Hin. apply in_flat_map in Hin. destruct Hin as [a [Ha Hx]].
      destruct (In_nth _ _ FEmpty Ha) as [i [_ Ei]].
      pose proof (fpl_elems _ _ _ (H i) x) as Hq. rewrite Ei in Hq. destruct (Hq Hx) as [_ Ec].
      rewrite Ec. apply (IH i); [split; auto|]. now rewrite Ei.
  Qed.

  Lemma ffind_sound n off P : fpl n off P -> forall x, ffind n x off = true -> In x (felems n).
  Proof.
    induction 1 as [| |sl off P H IH]; intros x Hf; simpl in *; try discriminate.
    - apply N.eqb_eq in Hf. now left.
    - change (ffind (FArr sl) x off = true) in Hf. rewrite ffind_arr in Hf.
      apply IH in Hf. apply in_flat_map. exists (nth (cut x off ab) sl FEmpty). split; auto.
      destruct (nth_in_or_default (cut x off ab) sl FEmpty) as [Hi|Hd]; auto. rewrite Hd in Hf. inversion Hf.
  Qed.

  (** ** the set *)
  Notation f_insert := (f_insert W hb ab).
  Notation f_find := (f_find hb ab).

  Definition FInv (t : fset) : Prop :=
    length (fhead t) = 2 ^ hb /\ Forall fwf (fhead t) /\
    (forall i, fpl (nth i (fhead t) FEmpty) hb (fun z => cut z 0 hb = i)).

  Lemma FInv_init : FInv (finit hb).
  Proof.
    unfold FInv, finit; simpl. split; [apply repeat_length|]. split.
    - apply Forall_forall. intros a Ha. apply repeat_spec in Ha. subst. constructor.
    - intros i. destruct (nth_repeat_any FEmpty FEmpty (2 ^ hb) i) as [E|E]; rewrite E; constructor.
  Qed.

  Theorem f_find_iff t x : FInv t -> (f_find t x = true <-> In x (f_elems t)).
  Proof.
    intros [Hl [Hw Hp]]. unfold FeldmanSeq.f_find, f_elems. split.
    - intros Hf. apply (ffind_sound _ _ _ (Hp (cut x 0 hb))) in Hf. apply in_flat_map.
      exists (nth (cut x 0 hb) (fhead t) FEmpty). split; auto.
      destruct (nth_in_or_default (cut x 0 hb) (fhead t) FEmpty) as [Hi|Hd]; auto. rewrite Hd in Hf. inversion Hf.
    - intros Hin. apply in_flat_map in Hin. destruct Hin as [a [Ha Hx]].
      destruct (In_nth _ _ FEmpty Ha) as [i [_ Ei]].
      pose proof (fpl_elems _ _ _ (Hp i) x) as Hq. rewrite Ei in Hq. specialize (Hq Hx). cbv beta in Hq.
      rewrite Hq. apply (ffind_complete _ _ _ (Hp i)); auto. now rewrite Ei.
  Qed.

  Theorem f_insert_spec fuel t x o t' : FInv t -> f_insert fuel t x = (o, t') ->
    FInv t' /\
    match o with
    | Ok true => Permutation (f_elems t') (x :: f_elems t) /\ fcnt t' = S (fcnt t)
    | _ => Permutation (f_elems t') (f_elems t) /\ fcnt t' = fcnt t
    end.
  Proof.
    intros [Hl [Hw Hp]]. unfold FeldmanSeq.f_insert. intros E. inversion E; subst; clear E.
    pose proof (cut_lt x 0 hb) as Hc. rewrite <- Hl in Hc.
    assert (Hwn : fwf (nth (cut x 0 hb) (fhead t) FEmpty)) by (apply Forall_nth_d; [auto|constructor]).
    destruct (fins_spec fuel (nth (cut x 0 hb) (fhead t) FEmpty) x hb Hwn) as [A [B C]].
    split.
    - unfold FInv; simpl. split; [now rewrite upd_length|]. split; [now apply Forall_upd|].
      intros i. destruct (Nat.eq_dec (cut x 0 hb) i) as [<-|Hne].
      + rewrite nth_upd_eq by auto. apply C; auto.
      + rewrite nth_upd_neq by auto. apply Hp.
    - pose proof (flat_map_upd_perm felems (fhead t) (cut x 0 hb)
                    (fst (fins fuel (nth (cut x 0 hb) (fhead t) FEmpty) x hb)) FEmpty Hc) as H.
      unfold f_elems; simpl.
      destruct (snd (fins fuel (nth (cut x 0 hb) (fhead t) FEmpty) x hb)) as [[|]|]; (split; [|reflexivity]);
        apply Permutation_app_inv_l with (l := felems (nth (cut x 0 hb) (fhead t) FEmpty)); rewrite H; rewrite B.
      + simpl. apply Permutation_middle.
      + reflexivity.
      + reflexivity.
  Qed.

  (** every element held before a successful insert (which may expand any number of slots), and the new one, is
      found after it *)
  Theorem f_insert_keeps_all fuel t x t' : FInv t -> f_insert fuel t x = (Ok true, t') ->
    forall y, (y = x \/ f_find t y = true) -> f_find t' y = true.
  Proof.
    intros HI E y Hy. destruct (f_insert_spec fuel t x _ t' HI E) as [HI' [Hperm _]].
    apply (f_find_iff t' y HI'). apply (Permutation_in _ (Permutation_sym Hperm)).
    destruct Hy as [->|Hy]; [now left|right]. now apply (f_find_iff t y HI).
  Qed.
End Proofs.
