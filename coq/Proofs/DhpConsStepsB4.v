(** DhpConsStepsB4: copy of LV.Proofs.DhpStepsB4 over the two-directional pointer invariant of LV.Proofs.DhpConsInv (conservation);
    the text differs from the original where the JW part of a goal is proved. *)
(** * DhpStepsB4: steps of the C03 invariant on one record's retired array: init, extend, and the common part of
    the operations that stay inside the array's blocks (push, scan stage 2). *)
From Coq Require Import ZArith NArith List String Bool Lia PeanoNat.
From LV Require Import Base.Conc Base.Events Model.DhpLang Model.Dhp Proofs.DhpBase Proofs.DhpSeq Proofs.DhpSeqThm Proofs.DhpHist
  Proofs.DhpLangProofs Proofs.DhpAllocA Proofs.DhpInvB Proofs.DhpConsInv Proofs.DhpConsQuietB Proofs.DhpConsQuietB2 Proofs.DhpConsRulesB Proofs.DhpConsStepsB1 Proofs.DhpConsStepsB3.
Import ListNotations.

Lemma rframe_tlist g g' r chain : rframe g g' r chain -> tlist g' = tlist g.
Proof. intros (_&_&_&_&_&_&H). unfold G_eq_mod_ret in H. apply (f_equal tlist) in H. exact H. Qed.

Section StepsB4.
  Variable c : cfg.
  Notation RB := (c_RB c).
  Hypothesis HRB : 1 <= RB.

  Ltac vwt t := let t' := fresh "t'" in intros t'; cbn; unfold fn; destruct (Nat.eqb_spec t' t) as [->|]; cbn; auto.

  Lemma JO_excl g a t t' r : JO g a -> In r (vb_own (bvs a t)) -> In r (vb_own (bvs a t')) -> t = t'.
  Proof. intros [_ _ _ _ O5] H1 H2. destruct (O5 t r H1) as (_ & X), (O5 t' r H2) as (_ & Y). congruence. Qed.

  Lemma JB_alive g a tr t r : JB c g a tr -> In r (vb_own (bvs a t)) -> vb_dead (bvs a t) <> Some r -> dead a r = false.
  Proof.
    intros [O1 _ [_ _ _ _ R5 _] _] Hr Hd. destruct (dead a r) eqn:E; auto. destruct (proj2 R5 r E) as (t' & K).
    destruct (proj1 R5 t' r K) as (K1 & _). assert (t = t') by (eapply JO_excl; eauto). subst t'. contradiction.
  Qed.

  Lemma JB_unmoved g a tr t r : JB c g a tr -> In r (vb_own (bvs a t)) -> (forall ob, vb_move (bvs a t) <> Some (r, ob)) -> moved a r = 0.
  Proof.
    intros [O1 _ [_ R2 R3 _ _ _] _] Hr Hm. destruct (Nat.eq_dec (moved a r) 0) as [E|N]; auto. destruct (R2 r N) as (t' & ob & K).
    destruct (R3 t' r ob K) as (K1 & _). assert (t = t') by (eapply JO_excl; eauto). subst t'. exfalso. eapply Hm; eauto.
  Qed.

  Lemma JB_rec2 g a tr t r : JB c g a tr -> In r (vb_own (bvs a t)) -> rch a r <> [] ->
    r < List.length (recs g) /\ dead a r = false /\ Rinv c g r (rch a r) (rw a r) /\ (forall b, In b (rch a r) -> rbown a b = RRec r) /\
    moved a r <= rw a r /\ (vb_full (bvs a t) <> Some r -> rw a r < List.length (rch a r) * RB).
  Proof.
    intros [O1 _ [R1 _ _ _ _ R6] _] Hr Hne. pose proof O1 as [_ _ _ _ O5]. destruct (O5 t r Hr) as (Hlt & _). split; auto.
    destruct (R1 r Hlt) as [(E & _)|(K1 & K2 & K3 & K4 & K5)]; [contradiction|].
    split; [exact K1|]. split; [exact K2|]. split; [exact K3|]. split; [exact K4|].
    intros Hf. destruct K5 as [K5|(t' & K5)]; auto. destruct (R6 t' r K5) as (X & _).
    assert (t = t') by (eapply JO_excl; eauto). subst t'. contradiction.
  Qed.

  Lemma JB_rec1 g a tr t r : JB c g a tr -> In r (vb_own (bvs a t)) -> vb_dead (bvs a t) <> Some r -> rch a r = [] ->
    r_head (grec g r) = None /\ r_cb (grec g r) = None /\ rw a r = 0 /\ moved a r = 0.
  Proof.
    intros J Hr Hd E. pose proof (JB_alive g a tr t r J Hr Hd) as Ha. destruct J as [[_ _ _ _ O5] _ [R1 _ _ _ _ _] _].
    destruct (O5 t r Hr) as (Hlt & _). destruct (R1 r Hlt) as [(_ & K1 & K2 & [K3|(K3 & K4)])|(_ & K2 & _)]; auto; try congruence.
    destruct K2 as [_ _ _ Ine _ _ _]. contradiction.
  Qed.

  (** ** the common part of push and stage 2: a change inside the blocks of [r]'s chain and of [r]'s cursor *)
  Definition aux_arr (a : AuxB) (t r : nat) (v' : VB) (wh' : nat -> place) (w' : nat) : AuxB :=
    mkAuxB (fn (bvs a) t v') (rbown a) wh' (rch a) (fn (rw a) r w') (moved a) (dead a) (tl a).

  Lemma arr_op g g' a tr t r v' wh' w' :
    JB c g a tr -> In r (vb_own (bvs a t)) -> rch a r <> [] -> moved a r = 0 ->
    (forall ob, vb_move (bvs a t) <> Some (r, ob)) ->
    (vb_full (bvs a t) = None \/ vb_full (bvs a t) = Some r) ->
    rframe g g' r (rch a r) -> Rinv c g' r (rch a r) w' ->
    (w' < List.length (rch a r) * RB \/ vb_full v' = Some r) -> (forall r0, vb_full v' = Some r0 -> r0 = r) ->
    vb_own v' = vb_own (bvs a t) -> vb_node v' = vb_node (bvs a t) -> vb_new v' = vb_new (bvs a t) -> vb_blk v' = vb_blk (bvs a t) ->
    vb_limbo v' = vb_limbo (bvs a t) -> vb_move v' = vb_move (bvs a t) -> vb_cur v' = vb_cur (bvs a t) -> vb_dead v' = vb_dead (bvs a t) ->
    JO g' (aux_arr a t r v' wh' w') /\ JK c g' (aux_arr a t r v' wh' w') (freeh (hist tr) FRt) /\ JR c g' (aux_arr a t r v' wh' w') /\
    (forall r', r' <> r -> r' < List.length (recs g) -> ec g' (aux_arr a t r v' wh' w') r' = ec g a r').
  Proof.
    intros J Hr Hne Hmv Hnm Hfu F I' Hw' Hfu' V1 V2 V3 V4 V5 V6 V7 V8.
    assert (Hd : vb_dead (bvs a t) <> Some r).
    { intros E. destruct J as [_ _ [R1 _ _ _ R5 _] _]. destruct (proj1 R5 t r E) as (_ & X).
      destruct I' as [Ir _ _ _ _ _ _]. destruct F as (El & _). rewrite El in Ir. destruct (R1 r Ir) as [(Y & _)|(Y & _)]; congruence. }
    destruct (JB_rec2 g a tr t r J Hr Hne) as (Hlt & Hal & I & Hrb & _ & _).
    destruct J as [O1 K1 [R1 R2 R3 R4 R5 R6] W1].
    pose proof F as (El & Elb & Fo & Fr & Fb & Fc & Fg).
    pose proof (rframe_tlist _ _ _ _ F) as Etl.
    pose proof (rframe_rec_fields g g' r _ F) as Frf. cbn in Frf. destruct Frf as (X1 & X2 & _ & _ & _ & _ & _ & _ & X3 & X4 & _).
    assert (Hdisj : forall r' b, r' <> r -> r' < List.length (recs g) -> In b (rch a r') -> ~ In b (rch a r)).
    { intros r' b N L Hb Hb'. destruct (JR_rch c g a r' b (Build_JR c g a R1 R2 R3 R4 R5 R6) L Hb) as (Y & _). rewrite (Hrb b Hb') in Y. congruence. }
    split; [|split; [|split]].
    - apply JO_frame with (g := g) (a := a); auto.
      + intros r'. destruct (Nat.eq_dec r' r) as [->|N]; [auto|rewrite Fo by exact N; auto].
      + vwt t.
    - apply JK_frame with (g := g) (a := a); auto.
      + intros b. destruct (rframe_block_fields g g' r _ b F) as (Y1 & _ & _ & Y4). auto.
      + vwt t.
    - constructor; cbn [aux_arr bvs rbown rch rw moved dead].
      + intros r' Hr'. rewrite El in Hr'. destruct (Nat.eq_dec r' r) as [->|N].
        * right. rewrite fn_same. split; auto. split; auto. split; auto. split; [lia|].
          destruct Hw' as [Hw'|Hw']; [left; exact Hw'|right; exists t; rewrite fn_same; exact Hw'].
        * rewrite fn_other by exact N. rewrite Fo by exact N.
          destruct (R1 r' Hr') as [K|(K0 & K2 & K3 & K4 & K5)]; [left; exact K|right].
          split; auto. split; [|split; auto; split; auto].
          -- apply Rinv_frame with (g := g); auto; try lia; [rewrite Fo by exact N; auto|].
             intros b Hb. rewrite Fb; auto. eapply Hdisj; eauto.
          -- destruct K5 as [K5|(t' & K5)]; [left; exact K5|right; exists t']. destruct (Nat.eq_dec t' t) as [->|Nt]; [|rewrite fn_other by exact Nt; exact K5].
             exfalso. destruct Hfu as [Hfu|Hfu]; congruence.
      + intros r' Hm. destruct (R2 r' Hm) as (t' & ob & K). exists t', ob. unfold fn. destruct (Nat.eqb_spec t' t) as [->|]; auto. rewrite V6. exact K.
      + intros t' r' ob Hm. assert (Hm' : vb_move (bvs a t') = Some (r', ob)) by (revert Hm; unfold fn; destruct (Nat.eqb_spec t' t) as [->|]; [rewrite V6|]; auto).
        destruct (R3 t' r' ob Hm') as (Y1 & Y2). split.
        * unfold fn. destruct (Nat.eqb_spec t' t) as [->|]; [rewrite V1|]; auto.
        * intros b Eb Hc. apply Y2; auto. revert Hc. unfold fn. destruct (Nat.eqb_spec t' t) as [->|]; [rewrite V7|]; auto.
      + intros t' b i n Hc. assert (Hc' : vb_cur (bvs a t') = Some (b, i, n)) by (revert Hc; unfold fn; destruct (Nat.eqb_spec t' t) as [->|]; [rewrite V7|]; auto).
        destruct (R4 t' b i n Hc') as (r0 & ob & j & Y0 & Y).
        assert (N : r0 <> r). { intros ->. destruct (R3 t' r ob Y0) as (Z & _). assert (t = t') by (eapply JO_excl; eauto). subst t'. eapply Hnm; eauto. }
        exists r0, ob, j. split; [unfold fn; destruct (Nat.eqb_spec t' t) as [->|]; [rewrite V6|]; auto|].
        rewrite fn_other by exact N. rewrite Fo by exact N. exact Y.
      + split.
        * intros t' r' Hdd. assert (Hd' : vb_dead (bvs a t') = Some r') by (revert Hdd; unfold fn; destruct (Nat.eqb_spec t' t) as [->|]; [rewrite V8|]; auto).
          destruct (proj1 R5 t' r' Hd') as (Y1 & Y2). split; auto. unfold fn. destruct (Nat.eqb_spec t' t) as [->|]; [rewrite V1|]; auto.
        * intros r' Hdd. destruct (proj2 R5 r' Hdd) as (t' & K). exists t'. unfold fn. destruct (Nat.eqb_spec t' t) as [->|]; [rewrite V8|]; auto.
      + intros t' r' Hf. unfold fn in Hf |- *. destruct (Nat.eqb_spec t' t) as [->|].
        * apply Hfu' in Hf. subst r'. rewrite V1. auto.
        * apply R6. exact Hf.
    - intros r' N L. apply ec_ext; cbn [aux_arr rch rw moved]; auto; [rewrite fn_other by exact N; reflexivity|].
      intros b Hb. rewrite Fb; auto. eapply Hdisj; eauto.
  Qed.

  Lemma Rinv_single g r b :
    r < List.length (recs g) -> r_head (grec g r) = Some b -> r_tail (grec g r) = Some b -> r_cb (grec g r) = Some b -> r_cc (grec g r) = 0 ->
    b < List.length (rbs g) -> List.length (rb_cells (grb g b)) = RB -> rb_next (grb g b) = None -> Rinv c g r [b] 0.
  Proof.
    intros H1 H2 H3 H4 H5 H6 H7 H8. constructor.
    - exact H1.
    - rewrite H2. cbn. repeat split; auto.
    - constructor; [intros []|constructor].
    - discriminate.
    - rewrite H3. reflexivity.
    - cbn. lia.
    - exists 0, 0. rewrite H4, H5. cbn. repeat split; auto; try (left; lia).
  Qed.

  (** ** init(): the first block.  The thread carries the marker vb_move = Some (r, None) since it read
         list_head_ == nullptr: the effective content of r is empty (jw_6), nothing is lost by the reset. *)
  Definition aux_init (a : AuxB) (t r b : nat) : AuxB :=
    mkAuxB (fn (bvs a) t (set_move (set_blk (bvs a t) None) None)) (fn (rbown a) b (RRec r)) (wh a) (fn (rch a) r [b]) (fn (rw a) r 0)
           (fn (moved a) r 0) (dead a) (tl a).

  Lemma S_init g a tr t r b :
    In r (vb_own (bvs a t)) -> vb_blk (bvs a t) = Some (b, true) -> vb_dead (bvs a t) <> Some r ->
    vb_move (bvs a t) = Some (r, None) -> vb_cur (bvs a t) = None -> vb_full (bvs a t) = None -> vb_new (bvs a t) = None ->
    JB c g a tr -> JB c (upd_rec g r (rs_ret (Some b) 0 (Some b) (Some b) 1)) (aux_init a t r b) tr.
  Proof.
    intros Hr Hb Hd Hmk Hcu Hfu Hnw J.
    pose proof (JB_alive g a tr t r J Hr Hd) as Hal.
    destruct J as [O1 K0 R0 W1]. pose proof K0 as [K1 K2 K3 K4 K5]. pose proof R0 as [R1 R2 R3 R4 R5 R6]. pose proof O1 as [_ _ _ _ O5].
    destruct (O5 t r Hr) as (Hlt & Htid). destruct (K4 t b true Hb) as (Hown & Hnx & Hnl). specialize (Hnx eq_refl).
    assert (Hblt : b < List.length (rbs g)) by (eapply JK_lt; eauto; congruence).
    set (g' := upd_rec g r (rs_ret (Some b) 0 (Some b) (Some b) 1)).
    assert (El : List.length (recs g') = List.length (recs g)) by (unfold g', upd_rec; cbn; apply upd_nth_length).
    assert (Eo : forall r', r' <> r -> grec g' r' = grec g r') by (intros r' N; unfold g'; rewrite grec_upd_rec_other; auto).
    assert (Es : grec g' r = rs_ret (Some b) 0 (Some b) (Some b) 1 (grec g r)) by (unfold g'; now rewrite grec_upd_rec_same).
    assert (Eb : forall b', grb g' b' = grb g b') by reflexivity.
    assert (Hexcl : forall t' r0 ob, t' <> t -> vb_move (bvs a t') = Some (r0, ob) -> r0 <> r).
    { intros t' r0 ob Nt H ->. destruct (R3 t' r ob H) as (Z & _). apply Nt. symmetry. eapply JO_excl; eauto. }
    assert (Hmw : moved a r = rw a r) by (destruct W1 as [_ _ _ _ _ W6 _]; apply (W6 t r Hmk Hcu)).
    assert (Hec0 : ec g a r = []).
    { unfold ec, content. rewrite Hmw. apply skipn_all2. rewrite firstn_length. lia. }
    assert (Vo : forall t', vb_own (fn (bvs a) t (set_move (set_blk (bvs a t) None) None) t') = vb_own (bvs a t'))
      by (intros t'; unfold fn; destruct (Nat.eqb_spec t' t) as [->|]; reflexivity).
    constructor.
    - apply JO_frame with (g := g) (a := a); auto.
      + intros r'. destruct (Nat.eq_dec r' r) as [->|N]; [rewrite Es; destruct (grec g r); cbn; auto|rewrite Eo by exact N; auto].
      + vwt t.
    - constructor; cbn [aux_init bvs rbown].
      + intros b' L. change (List.length (rbs g')) with (List.length (rbs g)) in L. rewrite fn_other by lia. auto.
      + exact K2.
      + split; [|apply K3]. intros b'. destruct (Nat.eq_dec b' b) as [->|N]; [rewrite fn_same; split; [intros H; apply K3 in H; congruence|discriminate]|].
        rewrite fn_other by exact N. apply K3.
      + intros t' b' fl'. unfold fn at 1 3. destruct (Nat.eqb_spec t' t) as [->|Nt]; cbn; [discriminate|].
        intros E. destruct (K4 t' b' fl' E) as (Y1 & Y2). assert (N : b' <> b) by (intros ->; congruence). rewrite fn_other by exact N. auto.
      + intros t' o lb Hl. assert (Hl' : vb_limbo (bvs a t') = Some (o, lb)) by (revert Hl; unfold fn; destruct (Nat.eqb_spec t' t) as [->|]; cbn; auto).
        destruct (K5 t' o lb Hl') as (Y1 & Y2 & Y3). split; [|split; auto].
        * apply is_chain_frame with (g := g); auto.
        * intros b' H. assert (N : b' <> b). { intros ->. destruct (Nat.eq_dec t' t) as [->|Nt]; [eapply Hnl; eauto|]. rewrite (Y3 b H) in Hown. congruence. }
          rewrite fn_other by exact N. auto.
    - constructor; cbn [aux_init bvs rbown rch rw moved dead].
      + intros r' Hr'. rewrite El in Hr'. destruct (Nat.eq_dec r' r) as [->|N].
        * right. rewrite !fn_same. split; auto. split; [|split; [|split; [lia|left; cbn; lia]]].
          -- apply Rinv_single; try (rewrite Es; destruct (grec g r); reflexivity); auto.
             all: try (rewrite El; exact Hlt). all: try (apply K2; exact Hblt). all: try exact Hnx.
          -- intros b' [<-|[]]. now rewrite fn_same.
        * rewrite !fn_other by exact N. rewrite Eo by exact N.
          destruct (R1 r' Hr') as [K|(Q0 & Q2 & Q3 & Q4 & Q5)]; [left; exact K|right].
          split; auto. split; [|split; [|split; auto]].
          -- apply Rinv_frame with (g := g); auto; try lia. rewrite Eo by exact N. auto.
          -- intros b' H. assert (Nb : b' <> b) by (intros ->; rewrite (Q3 b H) in Hown; congruence). rewrite fn_other by exact Nb. auto.
          -- destruct Q5 as [Q5|(t' & Q5)]; [left; exact Q5|right; exists t']. revert Q5. unfold fn. destruct (Nat.eqb_spec t' t) as [->|]; cbn; auto.
      + intros r' Hm. destruct (Nat.eq_dec r' r) as [->|N]; [rewrite fn_same in Hm; congruence|]. rewrite fn_other in Hm by exact N.
        destruct (R2 r' Hm) as (t' & ob & K). exists t', ob. destruct (Nat.eq_dec t' t) as [->|Nt]; [congruence|]. now rewrite fn_other.
      + intros t' r' ob Hm. destruct (Nat.eq_dec t' t) as [->|Nt]; [rewrite fn_same in Hm; cbn in Hm; discriminate|]. rewrite fn_other in Hm by exact Nt.
        destruct (R3 t' r' ob Hm) as (Y1 & Y2). assert (N : r' <> r) by (eapply Hexcl; eauto).
        rewrite (fn_other (rch a) _ _ _ N), (fn_other (moved a) _ _ _ N). rewrite !fn_other by exact Nt. split; auto.
      + intros t' b' i n Hc. destruct (Nat.eq_dec t' t) as [->|Nt]; [rewrite fn_same in Hc; cbn in Hc; congruence|]. rewrite fn_other in Hc by exact Nt.
        destruct (R4 t' b' i n Hc) as (r0 & ob & j & Y0 & Y). assert (N : r0 <> r) by (eapply Hexcl; eauto).
        exists r0, ob, j. rewrite !fn_other by exact Nt. split; auto.
        rewrite (fn_other (rch a) _ _ _ N), (fn_other (rw a) _ _ _ N), (fn_other (moved a) _ _ _ N). rewrite Eo by exact N. exact Y.
      + split.
        * intros t' r' Hdd. assert (Hd' : vb_dead (bvs a t') = Some r') by (revert Hdd; unfold fn; destruct (Nat.eqb_spec t' t) as [->|]; auto).
          destruct (proj1 R5 t' r' Hd') as (Y1 & Y2). split; auto. now rewrite Vo.
        * intros r' Hdd. destruct (proj2 R5 r' Hdd) as (t' & K). exists t'. unfold fn. destruct (Nat.eqb_spec t' t) as [->|]; auto.
      + intros t' r' Hf. assert (Hf' : vb_full (bvs a t') = Some r') by (revert Hf; unfold fn; destruct (Nat.eqb_spec t' t) as [->|]; auto).
        destruct (R6 t' r' Hf') as (Y1 & Y2). split; [now rewrite Vo|].
        destruct (Nat.eq_dec r' r) as [->|N]; [rewrite fn_same; discriminate|rewrite fn_other by exact N; exact Y2].
    - destruct W1 as [W1 W2 W3 W4 W5 W6 W7 W8 W9].
      assert (Eec : forall r', r' <> r -> ec g' (aux_init a t r b) r' = ec g a r').
      { intros r' N. apply ec_ext; cbn [aux_init rch rw moved]; auto; rewrite fn_other by exact N; reflexivity. }
      assert (Eec0 : ec g' (aux_init a t r b) r = []).
      { unfold ec, content. cbn [moved rch rw aux_init]. rewrite !fn_same. reflexivity. }
      constructor; cbn [aux_init bvs wh]; auto.
      + intros r' Hr'. rewrite El in Hr'. destruct (Nat.eq_dec r' r) as [->|N].
        * rewrite Eec0. split; [constructor|intros p []].
        * rewrite Eec by exact N. apply W1. exact Hr'.
      + intros t' p. unfold fn. destruct (Nat.eqb_spec t' t) as [->|]; cbn; apply W2.
      + intros t'. unfold fn. destruct (Nat.eqb_spec t' t) as [->|]; cbn; apply W3.
      + intros t' r'. cbn [aux_init bvs moved rw]. intros Hm Hc.
        destruct (Nat.eq_dec t' t) as [->|Nt]; [rewrite fn_same in Hm; cbn in Hm; discriminate|]. rewrite fn_other in Hm, Hc by exact Nt.
        assert (N : r' <> r) by (eapply Hexcl; eauto). rewrite !fn_other by exact N. apply (W6 t' r'); auto.
      + change (oob g') with (oob g). intros Hoob. destruct (W7 Hoob) as [C1 C2 C3 C4 C5 C6 C7]. constructor; cbn [aux_init bvs wh tl rch].
        * exact C1.
        * intros p r' H. destruct (C2 p r' H) as (X1 & X2). rewrite El. split; auto.
          destruct (Nat.eq_dec r' r) as [->|N]; [rewrite Hec0 in X2; contradiction|]. rewrite Eec by exact N. exact X2.
        * intros p t' H. destruct (C3 p t' H) as (X1 & X2). unfold fn. destruct (Nat.eqb_spec t' t) as [->|]; cbn; auto.
        * exact C4.
        * intros r' Hr'. rewrite El in Hr'. destruct (C5 r' Hr') as [X|(t' & nx & X)]; [now left|right; exists t', nx].
          unfold fn. destruct (Nat.eqb_spec t' t) as [->|]; cbn; auto.
        * intros t' r' nx H. assert (H' : vb_new (bvs a t') = Some (r', nx)) by (revert H; unfold fn; destruct (Nat.eqb_spec t' t) as [->|]; cbn; auto).
          assert (N : r' <> r).
          { intros ->. pose proof O1 as [_ _ O3 _ _]. destruct (O3 t' r nx H') as (_ & _ & _ & [Z|Z]); [congruence|].
            assert (t = t') by (eapply (JO_excl g a t t' r); eauto). subst t'. congruence. }
          rewrite fn_other by exact N. eapply C6; eauto.
        * intros t' r' H. assert (H' : vb_arr (bvs a t') = Some r') by (revert H; unfold fn; destruct (Nat.eqb_spec t' t) as [->|]; cbn; auto).
          destruct (C7 t' r' H') as (X1 & X2). split; [now rewrite Vo|].
          destruct (Nat.eq_dec r' r) as [->|N]; [rewrite fn_same; discriminate|rewrite fn_other by exact N; exact X2].
      + apply (JH_frame a _ tr tr); auto. intros t'. cbn [bvs aux_init]. unfold fn. destruct (Nat.eqb_spec t' t) as [->|]; auto.
  Qed.
End StepsB4.
