(** * DhpLiveGsG: C02, second sentence for DHP -- THE THEOREM [dhp_scan_frees_older]: in every reachable configuration of
      the DHP model (every schedule, every number of threads, every client program), a disposer call made inside a scan
      that began at trace index s0 is for an object whose retire() had been announced ("op 9 p") before s0.
      It is [dhp_scan_frees_older_statement] of LV.Proofs.DhpLiveF; with it the cell-level theorem
      [dhp_guarded_ptr_live_cell] loses its unproved hypothesis ([dhp_guarded_ptr_live_cell_unconditional]).

    Side conditions: the faithful configuration of the current code (block capacity >= 4, [c_old = false],
    [c_oldtail = false]), fewer than 2^31 - 3 threads (both only to discharge the free-list hypothesis by
    [dhp_flbad_false]), and retire-once (NoDup of the retired objects), under which the ownership invariant of the
    retired arrays [JB] (LV.Proofs.DhpInvB) holds.  Proof: the paired invariant [InvS] = [JB] /\ [JS] (DhpLiveGsC .. GsF)
    under the trace hypothesis [TO], which holds on every reachable trace ([dhp_TO], DhpLiveGsB). *)
From Coq Require Import ZArith NArith List String Bool Lia PeanoNat.
From LV Require Import Base.Conc Base.Events Model.DhpLang Model.Dhp Proofs.DhpBase Proofs.DhpHist
  Proofs.DhpLangProofs Proofs.DhpInvB Proofs.DhpProofsC02 Proofs.DhpLiveA Proofs.DhpLiveB Proofs.DhpLiveD Proofs.DhpLiveE Proofs.DhpLiveF
  Proofs.DhpFlThm Proofs.DhpLiveGsB Proofs.DhpLiveGsC Proofs.DhpLiveGsF.
Import ListNotations.
Local Open Scope string_scope.
Local Open Scope list_scope.

(** the statement kept open in DhpLiveF (it carries [flbad = false] as a hypothesis) *)
Theorem dhp_scan_frees_older_flb : dhp_scan_frees_older_statement.
Proof.
  intros fuel c ths conf Hr Hfl H4 Ho Ht Hnd.
  destruct (Conc.reach_Inv (cfg_ok_initS fuel c ths H4 Ho Ht) Hr) as (a & Hi).
  destruct (Hi Hfl Hnd (dhp_TO fuel c ths conf Hr)) as (_ & [_ _ S3]).
  intros d u p s0 Hd _ Hs. exact (S3 d u p s0 Hd Hs).
Qed.

(** ... and with the free-list hypothesis discharged *)
Theorem dhp_scan_frees_older : forall fuel c ths conf,
  Conc.reach (init_cfg fuel c ths) conf ->
  4 <= c_RB c -> c_old c = false -> c_oldtail c = false ->
  (Z.of_nat (List.length ths) + 3 < 2147483648)%Z ->
  NoDup (flat_map (fun e => retired_ev (snd e)) (Conc.trace conf)) ->
  scan_frees_older (Conc.trace conf).
Proof.
  intros fuel c ths conf Hr H4 Ho Ht Hn Hnd.
  apply (dhp_scan_frees_older_flb fuel c ths conf Hr); auto. exact (dhp_flbad_false fuel c ths conf H4 Ho Ht Hn Hr).
Qed.

(** the second sentence at the level of the hazard cell, without unproved hypotheses: under the client discipline
    (publish p once; retire p only after a store replaced it in its source; every object retired at most once) a
    pointer returned by protect() is not handed to the disposer while the hazard cell protect() stored it into is not
    stored to again and remains a cell of an attached record *)
Theorem dhp_guarded_ptr_live_cell_unconditional : forall fuel c ths conf,
  Conc.reach (init_cfg fuel c ths) conf ->
  4 <= c_RB c -> c_old c = false -> c_oldtail c = false ->
  (Z.of_nat (List.length ths) + 3 < 2147483648)%Z ->
  NoDup (flat_map (fun e => retired_ev (snd e)) (Conc.trace conf)) ->
  forall p, p <> 0 -> publish_once (Conc.trace conf) p -> retire_after_unlink (Conc.trace conf) p ->
  forall v t j k, nth_error (Conc.trace conf) v = Some (t, EvCli "ret" [zn p]) ->
    lop (sfold (firstn v (Conc.trace conf))) t = [7%Z; zn j; zn k] ->
  forall g0 s x, lsl (sfold (firstn v (Conc.trace conf))) t = Some (g0, s, x) ->
  forall d u kl, v < d -> nth_error (Conc.trace conf) d = Some (u, ev_dispose p) ->
    live c (hist (firstn d (Conc.trace conf))) s kl -> kl < g0 ->
    (forall i te, g0 < i < d -> nth_error (Conc.trace conf) i = Some te -> ~ is_slot_of s (snd te)) ->
  False.
Proof.
  intros fuel c ths conf Hr H4 Ho Ht Hn Hnd. apply (dhp_guarded_ptr_live_cell fuel c ths conf Hr).
  - exact (dhp_flbad_false fuel c ths conf H4 Ho Ht Hn Hr).
  - exact (dhp_scan_frees_older fuel c ths conf Hr H4 Ho Ht Hn Hnd).
Qed.
