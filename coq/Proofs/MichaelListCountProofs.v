(** * MichaelListCountProofs: every operation of the MichaelList model with the item counter ( ic = true ) is [Conc.safe]
      for [InvC]; in a quiescent configuration m_ItemCounter is the cardinality of the abstract set. *)
From Coq Require Import ZArith List String Bool Lia PeanoNat.
From LV Require Import Base.Conc Base.Events Base.Lin Spec.Specs Proofs.LinProofs.
From LV Require Import Model.MichaelList Proofs.MichaelListBase Proofs.MichaelListInv Proofs.MichaelListSteps
                       Proofs.MichaelListLin Proofs.MichaelListActs Proofs.MichaelListProofs
                       Proofs.MichaelListFullInv Proofs.MichaelListFullActs Proofs.MichaelListFullProofs Proofs.MichaelListCount.
Import ListNotations.
Local Open Scope Z_scope.

Notation safeC := (@Conc.safe G V ev aux5 lview5 view5 InvC).
Notation "x <- p ;; q" := (Conc.bind p (fun x => q)) (at level 61, p at next level, right associativity).

(** ** plumbing *)
Lemma safeC_assign_guard t s l (Q : unit -> lview5 -> Prop) : Q tt l -> safeC t (assign_guard t s) l Q.
Proof. destruct l as [l c]. intros H. unfold assign_guard. apply safeC_nop. apply safeC_nop. exact H. Qed.
Lemma safeC_copy_guard t d s l (Q : unit -> lview5 -> Prop) : Q tt l -> safeC t (copy_guard t d s) l Q.
Proof. destruct l as [l c]. intros H. unfold copy_guard. apply safeC_nop. apply safeC_assign_guard. exact H. Qed.
Lemma safeC_clear_guard t s l (Q : unit -> lview5 -> Prop) : Q tt l -> safeC t (clear_guard t s) l Q.
Proof. destruct l as [l c]. intros H. unfold clear_guard. apply safeC_nop. exact H. Qed.
Lemma safeC_retire t l (Q : unit -> lview5 -> Prop) : Q tt l -> safeC t (retire t) l Q.
Proof. destruct l as [l c]. intros H. unfold retire. apply safeC_nop. apply safeC_nop. exact H. Qed.
Lemma safeC_use_guarded t s l (Q : unit -> lview5 -> Prop) : Q tt l -> safeC t (use_guarded t s) l Q.
Proof. destruct l as [l c]. intros H. unfold use_guarded. apply safeC_nop. apply safeC_nop. exact H. Qed.
Lemma safeC_cnt_inc lv cd c t (Q : unit -> lview5 -> Prop) :
  lv_st lv <> @Idle SetSpec -> Q tt (lv, cd, c + 1) -> safeC t (cnt_inc true) (lv, cd, c) Q.
Proof. intros Hs H. unfold cnt_inc. apply safeC_cnt; [exact Hs|]. exact H. Qed.
Lemma safeC_cnt_dec lv cd c t (Q : unit -> lview5 -> Prop) :
  lv_st lv <> @Idle SetSpec -> Q tt (lv, cd, c + -1) -> safeC t (cnt_dec true) (lv, cd, c) Q.
Proof. intros Hs H. unfold cnt_dec. apply safeC_cnt; [exact Hs|]. exact H. Qed.
Lemma safeC_free_guards t gs : forall fr l (Q : list nat -> lview5 -> Prop),
  (forall fr', Q fr' l) -> safeC t (free_guards t gs fr) l Q.
Proof.
  induction gs as [|s gs IH]; intros fr [l c] Q H; cbn [free_guards]; [apply H|].
  apply safeC_nop. apply IH. exact H.
Qed.

(** ** protect *)
Lemma safeC_protect fuel : forall t s l ck o lv cd c (Q : option V -> lview5 -> Prop),
  cell_key (lv_facts lv) l ck -> open_read (lv_st lv) o ->
  (forall F' s', incl (lv_facts lv) F' -> open_read s' o -> Q None (lvw lv F' s', cd, c)) ->
  (forall v F' s0, incl (lv_facts lv) F' -> incl (newfacts l v) F' -> open_read s0 o -> (l = 0%nat -> vmark v = false) ->
       Q (Some v) (lvw lv F' (obs_st o (obs_rule ck None (op_key o) v) s0), cd, c)) ->
  safeC t (protect fuel t s l) (lv, cd, c) Q.
Proof.
  induction fuel as [|f IH]; intros t s l ck o lv cd c Q Hck Hop HN HS; cbn [protect].
  - cbn [Conc.safe]. destruct lv as [F ow st]. apply (HN F st); [apply incl_refl|exact Hop].
  - eapply safeC_ld with (ck := ck) (kp := None) (o := o); [exact Hck|exact I|exact Hop|]. intros v Hv0.
    apply safeC_nop. apply safeC_nop.
    set (F1 := newfacts l v ++ lv_facts lv).
    set (s1 := obs_st o (obs_rule ck None (op_key o) v) (lv_st lv)).
    assert (Hop1 : open_read s1 o) by (apply open_read_obs; exact Hop).
    assert (Hck1 : cell_key F1 l ck).
    { destruct Hck as [[-> ->]|(kl & Hkl & ->)]; [left; auto|right; exists kl; split; auto; apply in_or_app; right; exact Hkl]. }
    eapply safeC_ld with (ck := ck) (kp := None) (o := o); [exact Hck1|exact I|exact Hop1|]. intros v' Hv0'.
    cbn [lv_facts lv_own lv_st].
    set (F2 := newfacts l v' ++ F1).
    assert (I0 : incl (lv_facts lv) F2) by (unfold F2, F1; apply incl_appr; apply incl_app_r').
    destruct (veqb v v') eqn:Ev.
    + cbn [Conc.safe]. rewrite (obs_rule_veqb ck (op_key o) v v' Ev).
      apply (HS v F2 s1); auto. unfold F2, F1. apply incl_appr. apply incl_appl. apply incl_refl.
    + change (safeC t (protect f t s l) (lvw lv F2 (obs_st o (obs_rule ck None (op_key o) v') s1), cd, c) Q).
      apply IH with (ck := ck) (o := o).
      * destruct Hck as [[-> ->]|(kl & Hkl & ->)]; [left; auto|right; exists kl; split; auto; apply I0; exact Hkl].
      * apply open_read_obs; exact Hop1.
      * intros F' s' HF Hs'. apply (HN F' s'); auto. eapply incl_tran; eauto.
      * intros w F' s0 HF HF' Hs0 Hw0. apply (HS w F' s0); auto. eapply incl_tran; eauto.
Qed.

(** ** search *)
Definition search_inv2 (F : list fact) (k : Z) (o : set_op) (s : status SetSpec) (st : option (loc * V)) : Prop :=
  open_read s o /\
  match st with
  | None => True
  | Some (pPrev, pCur) =>
      ppub F pPrev /\ klt F pPrev k /\ (vptr pCur = 0%nat \/ In (FPub (vptr pCur) (vkey pCur)) F) /\
      (vptr pCur = 0%nat -> st_after o false s)
  end.

Lemma klt_cell F l k : klt F l k -> exists ck, cell_key F l ck /\ ck_lt ck k.
Proof.
  intros [->|(kl & Hkl & Hlt)].
  - exists None. split; [left; auto|left; reflexivity].
  - exists (Some kl). split; [right; exists kl; auto|right; exists kl; auto].
Qed.

Lemma cell_key_incl F F' l ck : incl F F' -> cell_key F l ck -> cell_key F' l ck.
Proof. intros H [[-> ->]|(kl & Hkl & ->)]; [left; auto|right; exists kl; auto]. Qed.

Lemma safeC_search fuel : forall t g0 g1 g2 o st lv cd c (Q : option (bool * pos) -> lview5 -> Prop),
  search_inv2 (lv_facts lv) (op_key o) o (lv_st lv) st ->
  (forall F' s', incl (lv_facts lv) F' -> open_read s' o -> Q None (lvw lv F' s', cd, c)) ->
  (forall F' s' found p, incl (lv_facts lv) F' -> pos_ok F' (op_key o) found p -> st_after o found s' ->
        Q (Some (found, p)) (lvw lv F' s', cd, c)) ->
  safeC t (search fuel t g0 g1 g2 (op_key o) st) (lv, cd, c) Q.
Proof.
  induction fuel as [|f IH]; intros t g0 g1 g2 o st lv cd c Q Hinv HN HS; cbn [search].
  - cbn [Conc.safe]. destruct lv as [F ow s]. destruct Hinv as [Hop _]. apply (HN F s); [apply incl_refl|exact Hop].
  - set (k := op_key o) in *. destruct Hinv as [Hop Hinv]. destruct st as [[pPrev pCur]|].
    + destruct Hinv as (Hpp & Hkl & Hcur & Hnull).
      destruct (Nat.eqb_spec (vptr pCur) 0) as [E0|E0].
      * cbn [Conc.safe]. destruct lv as [F own s0]. apply (HS F s0 false (mkPos pPrev 0 0)); [apply incl_refl| |apply Hnull; exact E0].
        repeat split; auto.
      * destruct Hcur as [Hcur|Hcur]; [contradiction|].
        set (pc := vptr pCur) in *. set (kc := vkey pCur) in *.
        apply Conc.safe_bind. eapply safeC_protect with (ck := Some kc) (o := o).
        -- right. exists kc. auto.
        -- exact Hop.
        -- intros F' s' HF Hs'. cbn [Conc.safe]. apply HN; auto.
        -- intros pNext F1 s0 HF1 HN1 Hs0 _. cbn beta iota.
           set (s1 := obs_st o (obs_rule (Some kc) None k pNext) s0).
           assert (Hop1 : open_read s1 o) by (apply open_read_obs; exact Hs0).
           destruct (klt_cell _ _ _ Hkl) as (ckp & Hckp & Hlt).
           eapply safeC_ld with (ck := ckp) (kp := Some (pc, kc)) (o := o);
             [eapply cell_key_incl; [exact HF1|exact Hckp]|cbn; apply HF1; exact Hcur|exact Hop1|].
           intros pv Hpv0. cbn [lv_facts lv_own lv_st lvw].
           set (F2 := newfacts pPrev pv ++ F1).
           set (s2 := obs_st o (obs_rule ckp (Some (pc, kc)) k pv) s1).
           assert (Hop2 : open_read s2 o) by (apply open_read_obs; exact Hop1).
           assert (I12 : incl F1 F2) by (unfold F2; apply incl_app_r').
           assert (I02 : incl (lv_facts lv) F2) by (eapply incl_tran; eauto).
           destruct (Nat.eqb_spec (vptr pv) pc) as [Epv|Epv]; cbn [andb negb].
           2: { change (safeC t (search f t g0 g1 g2 (op_key o) None) (lvw lv F2 s2, cd, c) Q). apply IH.
                - split; [exact Hop2|exact I].
                - intros F' s' HF Hs'. apply HN; auto. eapply incl_tran; eauto.
                - intros F' s' fd p HF Hp Hs'. apply HS; auto. eapply incl_tran; eauto. }
           destruct (vmark pv) eqn:Empv; cbn [negb].
           { change (safeC t (search f t g0 g1 g2 (op_key o) None) (lvw lv F2 s2, cd, c) Q). apply IH.
             - split; [exact Hop2|exact I].
             - intros F' s' HF Hs'. apply HN; auto. eapply incl_tran; eauto.
             - intros F' s' fd p HF Hp Hs'. apply HS; auto. eapply incl_tran; eauto. }
           destruct (vmark pNext) eqn:Emk.
           ++ (* help to unlink the marked pCur *)
              eapply safeC_cas_help with (o := o).
              ** eapply ppub_incl; [exact I02|exact Hpp].
              ** eapply klt_incl; [exact I02|exact Hkl].
              ** apply I12. apply (newfacts_frozen _ _ _ HN1 Emk).
              ** exact Hop2.
              ** cbn beta iota. change (vmark (vok true)) with true. cbn iota. cbn [lv_facts lv_own lv_st lvw].
                 set (s3 := if Nat.eqb (vptr pNext) 0 then lin_read o false s2 else s2).
                 apply Conc.safe_bind. apply safeC_retire. apply Conc.safe_bind. apply safeC_copy_guard.
                 change (safeC t (search f t g0 g1 g2 (op_key o) (Some (pPrev, pNext))) (lvw lv F2 s3, cd, c) Q). apply IH.
                 --- cbn [lvw lv_facts lv_st]. split.
                     { unfold s3. destruct (Nat.eqb (vptr pNext) 0); [apply open_read_lin|]; exact Hop2. }
                     split; [eapply ppub_incl; [exact I02|exact Hpp]|].
                     split; [eapply klt_incl; [exact I02|exact Hkl]|].
                     split; [destruct (newfacts_pub _ _ _ HN1) as [Hz|Hz]; [left; exact Hz|right; apply I12; exact Hz]|].
                     intros Hz. unfold s3. rewrite Hz. cbn [Nat.eqb]. apply st_after_lin. exact Hop2.
                 --- intros F' s' HF Hs'. apply HN; auto. eapply incl_tran; eauto.
                 --- intros F' s' fd p HF Hp Hs'. apply HS; auto. eapply incl_tran; eauto.
              ** cbn beta iota. change (vmark (vok false)) with false. cbn iota.
                 change (safeC t (search f t g0 g1 g2 (op_key o) None) (lvw lv F2 s2, cd, c) Q). apply IH.
                 --- split; [exact Hop2|exact I].
                 --- intros F' s' HF Hs'. apply HN; auto. eapply incl_tran; eauto.
                 --- intros F' s' fd p HF Hp Hs'. apply HS; auto. eapply incl_tran; eauto.
           ++ destruct (Z.leb_spec k kc) as [Hle|Hgt].
              ** (* stop here *)
                 cbn [Conc.safe]. apply (HS F2 s2 (Z.eqb kc k) (mkPos pPrev pc (vptr pNext))); [exact I02| |].
                 --- cbn [pos_ok pprev pcur]. split; [eapply ppub_incl; [exact I02|exact Hpp]|].
                     split; [eapply klt_incl; [exact I02|exact Hkl]|].
                     destruct (Z.eqb_spec kc k) as [Ek|Ek].
                     +++ rewrite <- Ek. apply I02. exact Hcur.
                     +++ right. exists kc. split; [apply I02; exact Hcur|lia].
                 --- destruct (Z.eqb_spec kc k) as [Ek|Ek].
                     +++ (* present: observed by protect, the validation load does not fire *)
                         assert (E1 : s1 = lin_read o true s0).
                         { unfold s1. rewrite Ek. rewrite obs_rule_present by exact Emk. reflexivity. }
                         assert (E2 : s2 = s1).
                         { unfold s2. rewrite obs_rule_lt by auto. rewrite absent_known_ge; [reflexivity|rewrite Epv; exact E0|lia]. }
                         rewrite E2, E1. apply st_after_lin. exact Hs0.
                     +++ (* absent: observed by the validation load *)
                         assert (E2 : s2 = lin_read o false s1).
                         { unfold s2. rewrite obs_rule_lt by auto. rewrite absent_known; [reflexivity|exact Epv|exact E0|lia]. }
                         rewrite E2. apply st_after_lin. exact Hop1.
              ** (* advance *)
                 apply Conc.safe_bind. apply safeC_copy_guard. apply Conc.safe_bind. apply safeC_copy_guard.
                 change (safeC t (search f t g0 g1 g2 (op_key o) (Some (LNext pc, pNext))) (lvw lv F2 s2, cd, c) Q). apply IH.
                 --- cbn [lvw lv_facts lv_st]. unfold LNext. split; [exact Hop2|].
                     split; [right; eexists; apply I02; exact Hcur|].
                     split; [right; exists kc; split; [apply I02; exact Hcur|lia]|].
                     split; [destruct (newfacts_pub _ _ _ HN1) as [Hz|Hz]; [left; exact Hz|right; apply I12; exact Hz]|].
                     intros Hz.
                     assert (E1 : s1 = lin_read o false s0).
                     { unfold s1. rewrite obs_rule_lt; [|exact Emk|right; exists kc; split; [reflexivity|lia]].
                       rewrite absent_null by exact Hz. reflexivity. }
                     assert (E2 : s2 = s1).
                     { unfold s2. rewrite obs_rule_lt by auto. rewrite absent_known_ge; [reflexivity|rewrite Epv; exact E0|lia]. }
                     rewrite E2, E1. apply st_after_lin. exact Hs0.
                 --- intros F' s' HF Hs'. apply HN; auto. eapply incl_tran; eauto.
                 --- intros F' s' fd p HF Hp Hs'. apply HS; auto. eapply incl_tran; eauto.
    + apply Conc.safe_bind. eapply safeC_protect with (ck := None) (o := o).
      * left. auto.
      * exact Hop.
      * intros F' s' HF Hs'. cbn [Conc.safe]. apply HN; auto.
      * intros v F1 s0 HF1 HN1 Hs0 Hv0. cbn beta iota.
        set (s1 := obs_st o (obs_rule None None k v) s0).
        change (safeC t (search f t g0 g1 g2 (op_key o) (Some (LHead, v))) (lvw lv F1 s1, cd, c) Q). apply IH.
        -- cbn [lvw lv_facts lv_st]. split; [apply open_read_obs; exact Hs0|].
           split; [left; reflexivity|]. split; [left; reflexivity|].
           split; [exact (newfacts_pub _ _ _ HN1)|].
           intros Hz. unfold s1. rewrite obs_rule_lt; [|apply Hv0; reflexivity|left; reflexivity].
           rewrite absent_null by exact Hz. apply st_after_lin. exact Hs0.
        -- intros F' s' HF Hs'. apply HN; auto. eapply incl_tran; eauto.
        -- intros F' s' fd p HF Hp Hs'. apply HS; auto. eapply incl_tran; eauto.
Qed.

(** ** link_node, unlink_node *)
Lemma safeC_link_node t own kk p lv cd c o (Q : bool * nat -> lview5 -> Prop) :
  pos_ok (lv_facts lv) kk false p ->
  open_read (lv_st lv) o -> ins_op o kk ->
  (own = None \/ exists n nx, own = Some n /\ lv_own lv = Some (n, kk, nx)) ->
  (forall n, Q (true, n) (mkLV (FPub n kk :: lv_facts lv) None (@Linearized SetSpec o (ins_res o)), cd, c)) ->
  (forall n, Q (false, n) (mkLV (lv_facts lv) (Some (n, kk, 0%nat)) (lv_st lv), cd, c)) ->
  safeC t (link_node own kk p) (lv, cd, c) Q.
Proof.
  intros (Hpp & Hkl & Hcur) Hst Hop Hown HQ1 HQ0. unfold link_node.
  assert (Hcas : forall n lv1, lv_facts lv1 = lv_facts lv -> lv_own lv1 = Some (n, kk, pcur p) -> lv_st lv1 = lv_st lv ->
     safeC t (Act (a_cas (pprev p) (pcur p) n false)
               (fun r => if vmark r then Ret (true, n) else Act (a_st_next n 0) (fun _ => Ret (false, n)))) (lv1, cd, c) Q).
  { intros n lv1 E1 E2 E3. eapply safeC_cas_link with (kk := kk) (o := o); rewrite ?E1, ?E3; eauto.
    - cbn [vmark vok Conc.safe]. apply HQ1.
    - cbn [vmark vok]. eapply safeC_st_next; [exact E2|]. intros v Hv. cbn [Conc.safe lv_facts lv_st].
      rewrite E1, E3. apply HQ0. }
  destruct Hown as [->|(n & nx & -> & Hn)].
  - apply safeC_alloc_st. intros n. cbn [vptr]. apply Hcas; reflexivity.
  - eapply safeC_st_next; [exact Hn|]. intros v Hv. rewrite Hv. apply Hcas; reflexivity.
Qed.

Lemma safeC_unlink_node t p kk lv cd c (Q : bool -> lview5 -> Prop) :
  pos_ok (lv_facts lv) kk true p -> open_read (lv_st lv) (SErase kk) ->
  Q true (mkLV (FFrozen (pcur p) (pnext p) :: lv_facts lv) (lv_own lv) (@Linearized SetSpec (SErase kk) (RBool true)), cd, c) ->
  Q false (lv, cd, c) ->
  safeC t (unlink_node t p) (lv, cd, c) Q.
Proof.
  intros (Hpp & Hkl & Hcur) Hst HQ1 HQ0. unfold unlink_node, LNext.
  eapply safeC_cas_mark; [exact Hcur|exact Hst|..].
  - cbn [vmark vok]. apply safeC_cas_unlink.
    + cbn [lv_facts]. eapply ppub_incl; [|exact Hpp]. apply incl_tl. apply incl_refl.
    + cbn [lv_facts]. left. reflexivity.
    + cbn [vmark vok]. apply Conc.safe_bind. apply safeC_retire. exact HQ1.
    + cbn [vmark vok Conc.safe]. exact HQ1.
  - cbn [vmark vok Conc.safe]. exact HQ0.
Qed.

(** ** the operation loops *)
Lemma safeC_insert_loop fuel : forall sf withf t g0 g1 g2 kk fr own lv cd c
    (Q : out (bool * option nat) -> lview5 -> Prop),
  open_read (lv_st lv) (SInsert kk) ->
  (own = None \/ exists n nx, own = Some n /\ lv_own lv = Some (n, kk, nx)) ->
  (forall l', Q None l') ->
  (forall F' own', Q (Some (false, None)) (mkLV F' own' (@Linearized SetSpec (SInsert kk) (RBool false)), cd, c)) ->
  (forall F' n, Q (Some (true, Some n)) (mkLV F' None (@Linearized SetSpec (SInsert kk) (RBool true)), cd, c + 1)) ->
  safeC t (insert_loop fuel sf true withf t g0 g1 g2 kk fr own) (lv, cd, c) Q.
Proof.
  induction fuel as [|f IH]; intros sf withf t g0 g1 g2 kk fr own lv cd c Q Hst Hown HN HF HT; cbn [insert_loop].
  - cbn [Conc.safe]. apply HN.
  - apply Conc.safe_bind. change kk with (op_key (SInsert kk)) at 1.
    apply safeC_search with (o := SInsert kk); [split; [exact Hst|exact I]|..].
    + intros F' s' _ _. cbn [Conc.safe]. apply HN.
    + intros F' s' found p HF' Hp [Hs' Hres]. cbn [op_key] in Hp. destruct found.
      * cbn [Conc.safe]. unfold lvw. rewrite (Hres (RBool false) eq_refl). apply HF.
      * assert (Hown' : own = None \/ exists n nx, own = Some n /\ lv_own (lvw lv F' s') = Some (n, kk, nx)) by exact Hown.
        destruct withf.
        -- destruct (alloc1 fr) as [g fr']. apply Conc.safe_bind. apply safeC_assign_guard.
           apply Conc.safe_bind. eapply safeC_link_node with (o := SInsert kk); [exact Hp|exact Hs'|left; reflexivity|exact Hown'|..].
           ++ intros n. cbn [fst snd]. apply safeC_emit_other; [reflexivity|reflexivity|].
              apply Conc.safe_bind. apply safeC_cnt_inc; [cbn [lv_st]; discriminate|]. apply Conc.safe_bind. apply safeC_clear_guard.
              cbn [Conc.safe]. apply HT.
           ++ intros n. cbn [fst snd]. apply Conc.safe_bind. apply safeC_clear_guard.
              apply IH; auto. right. exists n, 0%nat. split; reflexivity.
        -- apply Conc.safe_bind. eapply safeC_link_node with (o := SInsert kk); [exact Hp|exact Hs'|left; reflexivity|exact Hown'|..].
           ++ intros n. cbn [fst snd]. apply Conc.safe_bind. apply safeC_cnt_inc; [cbn [lv_st]; discriminate|]. cbn [Conc.safe]. apply HT.
           ++ intros n. cbn [fst snd]. apply IH; auto. right. exists n, 0%nat. split; reflexivity.
Qed.

Lemma safeC_update_loop fuel : forall sf allow t g0 g1 g2 kk fr own lv cd c
    (Q : out (bool * bool * option nat) -> lview5 -> Prop),
  open_read (lv_st lv) (SUpdate kk allow) ->
  (own = None \/ exists n nx, own = Some n /\ lv_own lv = Some (n, kk, nx)) ->
  (forall l', Q None l') ->
  (forall F' own', Q (Some (true, false, None)) (mkLV F' own' (@Linearized SetSpec (SUpdate kk allow) (RPair true false)), cd, c)) ->
  (forall F' own', allow = false -> Q (Some (false, false, None)) (mkLV F' own' (@Linearized SetSpec (SUpdate kk allow) (RPair false false)), cd, c)) ->
  (forall F' n, Q (Some (true, true, Some n)) (mkLV F' None (@Linearized SetSpec (SUpdate kk allow) (RPair true true)), cd, c + 1)) ->
  safeC t (update_loop fuel sf true allow t g0 g1 g2 kk fr own) (lv, cd, c) Q.
Proof.
  induction fuel as [|f IH]; intros sf allow t g0 g1 g2 kk fr own lv cd c Q Hst Hown HN HE HF HT; cbn [update_loop].
  - cbn [Conc.safe]. apply HN.
  - apply Conc.safe_bind. change kk with (op_key (SUpdate kk allow)) at 1.
    apply safeC_search with (o := SUpdate kk allow); [split; [exact Hst|exact I]|..].
    + intros F' s' _ _. cbn [Conc.safe]. apply HN.
    + intros F' s' found p HF' Hp [Hs' Hres]. cbn [op_key] in Hp.
      assert (Hown' : own = None \/ exists n nx, own = Some n /\ lv_own (lvw lv F' s') = Some (n, kk, nx)) by exact Hown.
      destruct found.
      * destruct Hp as (Hpp & Hkl & Hcur). unfold LNext.
        eapply safeC_ld with (ck := Some kk) (kp := None) (o := SUpdate kk allow); [right; exists kk; auto|exact I|exact Hs'|].
        intros v _. cbn [op_key lvw lv_facts lv_own lv_st].
        destruct (vmark v) eqn:Em.
        -- apply IH; auto. cbn [lv_st]. apply open_read_obs. exact Hs'.
        -- rewrite obs_rule_present by exact Em. cbn [obs_st].
           replace (lin_read (SUpdate kk allow) true s') with (@Linearized SetSpec (SUpdate kk allow) (RPair true false))
             by (unfold lin_read; destruct allow; reflexivity).
           apply safeC_emit_other; [reflexivity|reflexivity|]. cbn [Conc.safe]. apply HE.
      * destruct allow; cbn [negb].
        -- destruct (alloc1 fr) as [g fr']. apply Conc.safe_bind. apply safeC_assign_guard.
           apply Conc.safe_bind. eapply safeC_link_node with (o := SUpdate kk true); [exact Hp|exact Hs'|right; reflexivity|exact Hown'|..].
           ++ intros n. cbn [fst snd]. apply Conc.safe_bind. apply safeC_cnt_inc; [cbn [lv_st]; discriminate|].
              apply safeC_emit_other; [reflexivity|reflexivity|].
              apply Conc.safe_bind. apply safeC_clear_guard. cbn [Conc.safe]. apply HT.
           ++ intros n. cbn [fst snd]. apply Conc.safe_bind. apply safeC_clear_guard.
              apply IH; auto. right. exists n, 0%nat. split; reflexivity.
        -- cbn [Conc.safe]. unfold lvw. rewrite (Hres (RPair false false) eq_refl). apply HF. reflexivity.
Qed.

Lemma safeC_erase_loop fuel : forall sf code mine t g0 g1 g2 kk lv cd c (Q : out bool -> lview5 -> Prop),
  open_read (lv_st lv) (SErase kk) ->
  (forall l', Q None l') ->
  (forall F' own' s', open_read s' (SErase kk) -> (Z.eqb code 6 = false -> s' = @Linearized SetSpec (SErase kk) (RBool false)) ->
        Q (Some false) (mkLV F' own' s', cd, c)) ->
  (forall F' own', Q (Some true) (mkLV F' own' (@Linearized SetSpec (SErase kk) (RBool true)), cd, c + -1)) ->
  safeC t (erase_loop fuel sf true code mine t g0 g1 g2 kk) (lv, cd, c) Q.
Proof.
  induction fuel as [|f IH]; intros sf code mine t g0 g1 g2 kk lv cd c Q Hst HN HF HT; cbn [erase_loop].
  - cbn [Conc.safe]. apply HN.
  - apply Conc.safe_bind. change kk with (op_key (SErase kk)) at 1.
    apply safeC_search with (o := SErase kk); [split; [exact Hst|exact I]|..].
    + intros F' s' _ _. cbn [Conc.safe]. apply HN.
    + intros F' s' found p HF' Hp [Hs' Hres]. cbn [op_key] in Hp. destruct found.
      * destruct (Z.eqb code 6 && negb (Nat.eqb (pcur p) mine)) eqn:Ec.
        -- cbn [Conc.safe]. unfold lvw. apply HF; [exact Hs'|].
           intros E6. rewrite E6 in Ec. discriminate.
        -- apply Conc.safe_bind. eapply safeC_unlink_node; [exact Hp|exact Hs'|..].
           ++ destruct (Z.eqb code 5).
              ** apply safeC_emit_other; [reflexivity|reflexivity|]. apply Conc.safe_bind. apply safeC_cnt_dec; [cbn [lv_st]; discriminate|]. cbn [Conc.safe]. apply HT.
              ** apply Conc.safe_bind. apply safeC_cnt_dec; [cbn [lv_st]; discriminate|]. cbn [Conc.safe]. apply HT.
           ++ apply IH; auto.
      * cbn [Conc.safe]. unfold lvw. apply HF; [exact Hs'|]. intros _. apply (Hres (RBool false) eq_refl).
Qed.

(** ** one client operation *)
Lemma safeC_give_up t l (Q : out lstate -> lview5 -> Prop) :
  (forall l', Q None l') -> safeC t give_up l Q.
Proof. destruct l as [[lv cd] c]. intros H. unfold give_up. apply safeC_emit_other; [reflexivity|reflexivity|]. cbn [Conc.safe]. apply H. Qed.

Lemma safeC_run_op fuel sf t o ls lv cd0 (Q : out lstate -> lview5 -> Prop) :
  lv_st lv = @Idle SetSpec ->
  (forall l', Q None l') ->
  (forall ls' F' own' cd', Q (Some ls') (mkLV F' own' (@Idle SetSpec), cd', 0)) ->
  safeC t (run_op fuel sf true t o ls) (lv, cd0, 0) Q.
Proof.
  intros Hi HN HS. unfold run_op, ev_inv.
  set (code := nth 0 o 0). set (k := nth 1 o 0). set (x := nth 2 o 0). set (v3 := nth 3 o 0).
  clearbody code k x v3. clear o.
  destruct ls as [fr own]. destruct (alloc3 fr) as [[[g0 g1] g2] fr1].
  destruct (Z.leb 1 code && Z.leb code 10) eqn:Hrange.
  2: { cbn [Conc.safe]. destruct lv as [F ow st]; cbn in Hi; subst st. apply HS. }
  apply safeC_emit_inv; [exact Hi|].
  destruct (Z.eqb code 1 || Z.eqb code 2) eqn:E12.
  { (* insert *)
    assert (Eop : spec_op code k x = SInsert k) by (unfold spec_op; rewrite E12; reflexivity).
    assert (E6 : Z.eqb code 6 = false) by (rewrite orb_true_iff, !Z.eqb_eq in E12; apply Z.eqb_neq; lia).
    rewrite Eop.
    apply Conc.safe_bind. apply safeC_insert_loop; [apply open_read_pending|left; reflexivity|..].
    - intros l'. apply safeC_give_up. exact HN.
    - intros F' own'. apply Conc.safe_bind. apply safeC_free_guards. intros fr2.
      eapply safeC_emit_ret; [reflexivity|reflexivity|rewrite E6; reflexivity|reflexivity|]. cbn [Conc.safe]. apply HS.
    - intros F' n. apply Conc.safe_bind. apply safeC_free_guards. intros fr2.
      eapply safeC_emit_ret; [reflexivity|reflexivity|rewrite E6; reflexivity|reflexivity|]. cbn [Conc.safe]. apply HS. }
  destruct (Z.eqb code 3) eqn:E3.
  { (* update *)
    assert (Eop : spec_op code k x = SUpdate k (Z.odd x)) by (unfold spec_op; rewrite E12, E3; reflexivity).
    assert (E6 : Z.eqb code 6 = false) by (apply Z.eqb_eq in E3; apply Z.eqb_neq; lia).
    rewrite Eop.
    apply Conc.safe_bind. apply safeC_update_loop; [apply open_read_pending|left; reflexivity|..].
    - intros l'. apply safeC_give_up. exact HN.
    - intros F' own'. apply Conc.safe_bind. apply safeC_free_guards. intros fr2.
      eapply safeC_emit_ret; [reflexivity|reflexivity|rewrite E6; reflexivity|reflexivity|]. cbn [Conc.safe]. apply HS.
    - intros F' own' _. apply Conc.safe_bind. apply safeC_free_guards. intros fr2.
      eapply safeC_emit_ret; [reflexivity|reflexivity|rewrite E6; reflexivity|reflexivity|]. cbn [Conc.safe]. apply HS.
    - intros F' n. apply Conc.safe_bind. apply safeC_free_guards. intros fr2.
      eapply safeC_emit_ret; [reflexivity|reflexivity|rewrite E6; reflexivity|reflexivity|]. cbn [Conc.safe]. apply HS. }
  destruct (Z.eqb code 4 || Z.eqb code 5 || Z.eqb code 6) eqn:E456.
  { (* erase, erase with functor, unlink *)
    assert (Eop : spec_op code k x = SErase k).
    { unfold spec_op. rewrite E12, E3. replace (Z.leb 4 code && Z.leb code 7) with true; [reflexivity|].
      symmetry. apply andb_true_iff. rewrite !orb_true_iff, !Z.eqb_eq in E456. rewrite !Z.leb_le. lia. }
    rewrite Eop.
    apply Conc.safe_bind. apply safeC_erase_loop; [apply open_read_pending|..].
    - intros l'. apply safeC_give_up. exact HN.
    - intros F' own' s' Hs' Hlin. apply Conc.safe_bind. apply safeC_free_guards. intros fr2.
      destruct (Z.eqb code 6) eqn:E6.
      + eapply safeC_emit_ret_drop; [exact Hs'|rewrite E6; reflexivity|]. cbn [Conc.safe]. apply HS.
      + eapply safeC_emit_ret; [cbn [lv_st]; apply Hlin; reflexivity|reflexivity|rewrite E6; reflexivity|reflexivity|]. cbn [Conc.safe]. apply HS.
    - intros F' own'. apply Conc.safe_bind. apply safeC_free_guards. intros fr2.
      eapply safeC_emit_ret; [reflexivity|reflexivity|apply andb_false_r|reflexivity|]. cbn [Conc.safe]. apply HS. }
  destruct (Z.eqb code 7) eqn:E7.
  { (* extract *)
    assert (Eop : spec_op code k x = SErase k).
    { unfold spec_op. rewrite E12, E3. apply Z.eqb_eq in E7. subst code. reflexivity. }
    assert (E6 : Z.eqb code 6 = false) by (apply Z.eqb_eq in E7; apply Z.eqb_neq; lia).
    rewrite Eop.
    apply Conc.safe_bind. apply safeC_erase_loop; [apply open_read_pending|..].
    - intros l'. apply safeC_give_up. exact HN.
    - intros F' own' s' Hs' Hlin. apply Conc.safe_bind. apply safeC_free_guards. intros fr2.
      eapply safeC_emit_ret; [cbn [lv_st]; apply Hlin; reflexivity|reflexivity|rewrite E6; reflexivity|reflexivity|]. cbn [Conc.safe]. apply HS.
    - intros F' own'. apply Conc.safe_bind. apply safeC_free_guards. intros fr2.
      apply Conc.safe_bind. apply safeC_use_guarded. apply Conc.safe_bind. apply safeC_free_guards. intros fr3.
      eapply safeC_emit_ret; [reflexivity|reflexivity|rewrite E6; reflexivity|reflexivity|]. cbn [Conc.safe]. apply HS. }
  (* get, contains, find with functor *)
  assert (Eop : spec_op code k x = SContains k).
  { unfold spec_op. rewrite E12, E3. replace (Z.leb 4 code && Z.leb code 7) with false; [reflexivity|].
    symmetry. apply andb_false_iff.
    rewrite !orb_false_iff, !Z.eqb_neq in E456. rewrite Z.eqb_neq in E7.
    destruct (Z.leb_spec 4 code); [right|left; reflexivity]. apply Z.leb_gt. lia. }
  assert (E6 : Z.eqb code 6 = false) by (rewrite !orb_false_iff in E456; tauto).
  rewrite Eop.
  apply Conc.safe_bind. change k with (op_key (SContains k)) at 1.
  apply safeC_search with (o := SContains k); [split; [apply open_read_pending|exact I]|..].
  - intros F' s' _ _. apply safeC_give_up. exact HN.
  - intros F' s' found p _ _ [Hs' Hres].
    assert (Hst : lv_st (lvw (mkLV (lv_facts lv) (lv_own lv) (@Pending SetSpec (SContains k))) F' s') = @Linearized SetSpec (SContains k) (RBool found))
      by (cbn; apply Hres; reflexivity).
    destruct (Z.eqb code 8 && found) eqn:E8.
    + apply andb_true_iff in E8. destruct E8 as [_ ->].
      apply Conc.safe_bind. apply safeC_free_guards. intros fr2.
      apply Conc.safe_bind. apply safeC_use_guarded. apply Conc.safe_bind. apply safeC_free_guards. intros fr3.
      eapply safeC_emit_ret; [exact Hst|reflexivity|rewrite E6; reflexivity|reflexivity|]. cbn [Conc.safe]. apply HS.
    + destruct (Z.eqb code 10 && found) eqn:E10.
      * apply andb_true_iff in E10. destruct E10 as [_ ->].
        apply safeC_emit_other; [reflexivity|reflexivity|].
        apply Conc.safe_bind. apply safeC_free_guards. intros fr2.
        eapply safeC_emit_ret; [exact Hst|reflexivity|rewrite E6; reflexivity|reflexivity|]. cbn [Conc.safe]. apply HS.
      * apply Conc.safe_bind. apply safeC_free_guards. intros fr2.
        eapply safeC_emit_ret; [exact Hst|destruct found; reflexivity|rewrite E6; reflexivity|reflexivity|]. cbn [Conc.safe]. apply HS.
Qed.

Lemma safeC_run_ops fuel sf t os : forall ls lv cd,
  lv_st lv = @Idle SetSpec -> safeC t (run_ops fuel sf true t os ls) (lv, cd, 0) (fun _ _ => True).
Proof.
  induction os as [|o os IH]; intros ls lv cd Hi; cbn [run_ops]; [exact I|].
  apply Conc.safe_bind. apply safeC_run_op; [exact Hi|..].
  - intros l'. exact I.
  - intros ls' F' own' cd'. apply IH. reflexivity.
Qed.

Lemma safeC_thread fuel sf t os lv cd :
  lv_st lv = @Idle SetSpec -> safeC t (thread_prog fuel sf true t os) (lv, cd, 0) (@Conc.QTrue lview5).
Proof.
  intros Hi. unfold thread_prog. apply safeC_begin.
  eapply Conc.safe_weaken; [|apply safeC_run_ops; exact Hi]. intros; exact I.
Qed.

Definition aux50 : aux5 := mkAux5 aux20 (fun _ => 0) [].

Lemma init_okC fuel sf ths : Conc.cfg_ok view5 InvC (init_cfg fuel sf true ths).
Proof.
  exists aux50. split.
  - split; [exact Inv2_init|]. unfold KC, aux50; cbn [e_base e_cnt e_ids sumf].
    split; [constructor|]. split; [reflexivity|]. split; [reflexivity|]. reflexivity.
  - intros t p Hp. cbn [init_cfg Conc.threads] in Hp.
    destruct (thread_progs_nth _ _ _ _ _ _ _ Hp) as [os ->]. cbn [Nat.add].
    unfold view5, view2. cbn [aux50 e_base e_cnt aux20 b_base b_code]. apply safeC_thread. reflexivity.
Qed.

(** ** the counter at quiescence.  Only set operations of the list occur in its histories *)
Lemma spec_op_no_extract c k x : match spec_op c k x with SExtractMin | SExtractMax => False | _ => True end.
Proof.
  unfold spec_op. destruct (Z.eqb c 1 || Z.eqb c 2); [exact I|]. destruct (Z.eqb c 3); [exact I|].
  destruct (Z.leb 4 c && Z.leb c 7); exact I.
Qed.

(** every invocation of [full_hist] is a [spec_op] *)
Definition hist_ok (h : hist) : Prop :=
  forall t o, In (@HInv SetSpec t o) h -> match o with SExtractMin | SExtractMax => False | _ => True end.

Lemma rm_first_incl {A} (p : A -> bool) l x : In x (rm_first p l) -> In x l.
Proof.
  induction l as [|y l IH]; cbn [rm_first]; [tauto|]. destruct (p y); [intros H; right; exact H|].
  intros [->|H]; [left; reflexivity|right; apply IH; exact H].
Qed.
Lemma rm_last_incl {A} (p : A -> bool) l x : In x (rm_last p l) -> In x l.
Proof. unfold rm_last. intros H. apply in_rev in H. apply rm_first_incl in H. apply in_rev. exact H. Qed.

Lemma full_hist_ok tr : hist_ok (full_hist tr).
Proof.
  unfold full_hist. induction tr as [|[t e] tr IH] using rev_ind; [intros t o []|].
  rewrite fold_left_app. cbn [fold_left]. destruct (fold_left fstep tr (([], []) : fstate)) as [out pend]. cbn [fst] in IH.
  destruct e as [kd ob ok|name args]; cbn [fstep]; [exact IH|].
  destruct (String.eqb name "inv").
  - destruct args as [|c [|k [|x [|v [|? ?]]]]]; try exact IH. cbn [fst]. intros u o Hin. apply in_app_or in Hin.
    destruct Hin as [Hin|[E|[]]]; [apply (IH u o Hin)|]. inversion E; subst. apply spec_op_no_extract.
  - destruct (String.eqb name "ret"); [|exact IH].
    destruct args as [|a [|b [|? ?]]]; try exact IH. destruct (last_inv_op t out None) as [o|]; [|exact IH].
    destruct (Z.eqb (code_of t pend) 6 && Z.eqb a 0); cbn [fst].
    + intros u o' Hin. apply rm_last_incl in Hin. apply (IH u o' Hin).
    + intros u o' Hin. apply in_app_or in Hin. destruct Hin as [Hin|[E|[]]]; [apply (IH u o' Hin)|discriminate].
Qed.

Lemma erase_inv_in (atr : list (aev SetSpec)) t o : In (@AInv SetSpec t o) atr -> In (@HInv SetSpec t o) (erase atr).
Proof.
  induction atr as [|[u o'|u|u r] atr IH]; cbn [erase]; [tauto| | |].
  - intros [E|H]; [left; inversion E; reflexivity|right; apply IH; exact H].
  - intros [E|H]; [discriminate|apply IH; exact H].
  - intros [E|H]; [discriminate|right; apply IH; exact H].
Qed.

Theorem mlist_count_quiescent fuel sf ths c :
  Conc.reach (init_cfg fuel sf true ths) c ->
  exists atr S st,
    lp_run lp_init atr = Some (S, st) /\ erase atr = full_hist (Conc.trace c) /\
    ((forall t, st t = @Idle SetSpec) -> count (Conc.shared c) = Z.of_nat (List.length S)).
Proof.
  intros Hr. destruct (Conc.reach_Inv (init_okC fuel sf ths) Hr) as (a & (L & HS & [(S & st & H1 & H2 & H3) (pend & H4 & H5)]) & (Hnd & Hout & Hcnt & Hz)).
  exists (a_atr (b_base (e_base a))), S, st. split; [exact H1|].
  assert (Eh : erase (a_atr (b_base (e_base a))) = full_hist (Conc.trace c)) by (unfold full_hist; rewrite H4; reflexivity).
  split; [exact Eh|]. intros Hidle.
  assert (Hne : no_extract (a_atr (b_base (e_base a)))).
  { intros t o Hin. apply erase_inv_in in Hin. rewrite Eh in Hin. apply (full_hist_ok _ t o Hin). }
  destruct (lp_size _ _ _ H1 Hne) as (_ & _ & Hsz).
  rewrite (Hsz [] (NoDup_nil _)); [|intros t Ht; exfalso; apply Ht; apply Hidle]. cbn [sumf].
  rewrite Hcnt, Eh. rewrite sumf_zero; [lia|].
  intros t _. apply Hz. unfold view2. cbn [fst]. rewrite <- H2. apply Hidle.
Qed.
