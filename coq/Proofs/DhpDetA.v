(** * DhpDetA: detaching a record: "_det", giving the extension blocks back, clearing extended_list_. *)
From Coq Require Import ZArith NArith List String Bool Lia PeanoNat.
From LV Require Import Base.Conc Base.Events Model.DhpLang Model.Dhp Proofs.DhpBase Proofs.DhpHist
  Proofs.DhpLangProofs Proofs.DhpInvA Proofs.DhpStepsA Proofs.DhpQuietA Proofs.DhpSlotA Proofs.DhpScanA Proofs.DhpScanC
  Proofs.DhpPresA Proofs.DhpAllocA Proofs.DhpAllocB Proofs.DhpViewA.
Import ListNotations.

(** the view of a thread that starts detaching record r: not attached any more, owner of r, blocks in limbo *)
Definition view_det (l : VA) (r : nat) (p : option nat) (lb : list nat) : VA :=
  mkVA None (va_unpub l) (Some r) (va_help l) (va_node l) (va_blk l) None (Some (p, lb)) (va_scan l).

Definition bown_det (a : AuxA) (r t : nat) : nat -> bowner :=
  fun x => match bown a x with BLinked r' => if Nat.eqb r' r then BPriv t else BLinked r' | o => o end.

Section DetA.
  Variable c : cfg.

  Lemma JA_det g a h t l r p n1 :
    JA c g a h -> views a t = l -> va_tls l = Some r -> va_e l = Some (p, false) -> va_blk l = None ->
    va_hold l = None -> va_limbo l = None -> hlen h <= n1 ->
    JA c g (upd_aux a t (view_det l r p (map fst (linked h r))) (bown_det a r t))
         (mkH (S n1) (slotv h) (lastw h) (fupd Nat.eqb (att h) r None) (fupd Nat.eqb (linked h) r []) (scan h) (freeh h) (flbad h)).
  Proof.
    intros J Hv Htls He Hb Hh Hlm Hn. pose proof J as [J1 J2 J3 J4 J5 J6 J7 J8 J9 J10 J11 J12 J15 J16 J17 J18 J13 J14].
    set (a' := upd_aux a t (view_det l r p (map fst (linked h r))) (bown_det a r t)).
    rewrite <- Hv in Htls, He, Hb, Hh, Hlm.
    destruct (J3 t r Htls) as (k & Hatt).
    destruct (J2 r t k Hatt) as (_ & Rtid & Rlt & Rsl & Raft & Rk & Rgc & Rnd & Rlk).
    destruct (J17 t p false He) as (r0 & Y1 & Y2 & _). assert (r0 = r) by congruence. subst r0.
    assert (Bl : forall b kb, In (b, kb) (linked h r) -> bown a' b = BPriv t).
    { intros b kb K. destruct (Rlk b kb K) as (W&_). cbn. unfold bown_det. rewrite W. now rewrite Nat.eqb_refl. }
    assert (Bo : forall x, (forall r', bown a x = BLinked r' -> r' <> r) -> bown a' x = bown a x).
    { intros x Hx. cbn. unfold bown_det. destruct (bown a x) as [| |t'|r'] eqn:E; auto.
      destruct (Nat.eqb_spec r' r) as [->|N]; auto. exfalso. eapply Hx; eauto. }
    assert (At : forall r', r' <> r -> fupd Nat.eqb (att h) r None r' = att h r') by (intros r' N; unfold fupd; destruct (Nat.eqb_spec r' r); congruence).
    assert (Ats : fupd Nat.eqb (att h) r None r = None) by (unfold fupd; now rewrite Nat.eqb_refl).
    assert (Lk : forall r', r' <> r -> fupd Nat.eqb (linked h) r [] r' = linked h r') by (intros r' N; unfold fupd; destruct (Nat.eqb_spec r' r); congruence).
    assert (Lks : fupd Nat.eqb (linked h) r [] r = []) by (unfold fupd; now rewrite Nat.eqb_refl).
    assert (V : forall t', t' <> t -> views a' t' = views a t') by (intros t' N; unfold a'; now apply upd_aux_other).
    assert (Vs : views a' t = view_det (views a t) r p (map fst (linked h r))) by (unfold a'; rewrite upd_aux_same, Hv; reflexivity).
    constructor; cbn [hlen slotv lastw att linked scan freeh flbad].
    - exact J1.
    - intros r' t' k' Ha. destruct (Nat.eq_dec r' r) as [->|N]; [rewrite Ats in Ha; discriminate|]. rewrite (At r' N) in Ha. rewrite (Lk r' N).
      destruct (J2 r' t' k' Ha) as (X1&X2&X3&X4&X5&X6&X7&X8&X9).
      assert (t' <> t). { intros ->. congruence. }
      rewrite (V t' H). split; auto. split; auto. split; auto. split; auto. split; auto. split; [lia|]. split; auto. split; auto.
      intros b kb K. destruct (X9 b kb K) as (W1&W2&W3). split; [|lia]. rewrite Bo; auto. intros r'' E. congruence.
    - intros t' r' Ht. destruct (Nat.eq_dec t' t) as [->|N].
      + rewrite Vs in Ht. cbn in Ht. discriminate.
      + rewrite (V t' N) in Ht. destruct (J3 t' r' Ht) as (k' & K). exists k'. rewrite At; auto. intros ->. congruence.
    - intros r' Ha. destruct (Nat.eq_dec r' r) as [->|N]; [exact Lks|]. rewrite (At r' N) in Ha. rewrite (Lk r' N). auto.
    - intros t' r' bt Ht.
      assert (Hu : va_unpub (views a t') = Some (r', bt)) by (destruct (Nat.eq_dec t' t) as [->|N]; [rewrite Vs in Ht; exact Ht|now rewrite (V t' N) in Ht]).
      destruct (J5 t' r' bt Hu) as (X1&X2&X3&X4&X5&X6). assert (r' <> r) by (intros ->; congruence).
      rewrite (At r' H). repeat split; auto.
      intros t'' bt' Ht''. apply (X6 t'' bt'). destruct (Nat.eq_dec t'' t) as [->|N]; [rewrite Vs in Ht''; exact Ht''|now rewrite (V t'' N) in Ht''].
    - intros t' r' Ht. destruct (Nat.eq_dec t' t) as [->|N].
      + rewrite Vs in Ht |- *. cbn in Ht |- *. inversion Ht; subst r'. rewrite Ats. repeat split; auto. discriminate.
      + rewrite (V t' N) in Ht |- *. destruct (J6 t' r' Ht) as (X1&X2&X3&X4&X5&X6). assert (r' <> r) by (intros ->; congruence).
        rewrite (At r' H). repeat split; auto.
    - intros t' r' Ht.
      assert (Hu : va_help (views a t') = Some r') by (destruct (Nat.eq_dec t' t) as [->|N]; [rewrite Vs in Ht; exact Ht|now rewrite (V t' N) in Ht]).
      destruct (J7 t' r' Hu) as (X1&X2&X3). assert (r' <> r) by (intros ->; congruence). rewrite (At r' H). split; auto. split; auto.
      destruct (Nat.eq_dec t' t) as [->|N]; [rewrite Vs; cbn; congruence|now rewrite (V t' N)].
    - intros r' Hr Ha. destruct (Nat.eq_dec r' r) as [->|N].
      + right. exists t. rewrite Vs. cbn. split; auto. discriminate.
      + rewrite (At r' N) in Ha. destruct (J8 r' Hr Ha) as [X|(t' & X1 & X2)]; [now left|right]. exists t'.
        assert (t' <> t) by (intros ->; congruence). now rewrite (V t' H).
    - intros t' b' Ht. destruct (Nat.eq_dec t' t) as [->|N].
      + rewrite Vs in Ht. cbn in Ht. congruence.
      + rewrite (V t' N) in Ht |- *. destruct (J9 t' b' Ht) as (X1&X2&X3&X4). split; auto. rewrite Bo; auto. intros r'' E. congruence.
    - intros t' o lb Ht. destruct (Nat.eq_dec t' t) as [->|N].
      + rewrite Vs in Ht. cbn in Ht. inversion Ht; subst o lb. rewrite <- Y2. split; auto. split; auto.
        intros b K. apply in_map_iff in K. destruct K as ((b', kb) & E & K). cbn in E. subst b'. eauto.
      + rewrite (V t' N) in Ht. destruct (J10 t' o lb Ht) as (X1&X2&X3). split; auto. split; auto.
        intros b K. rewrite Bo; auto. intros r'' E. rewrite (X3 b K) in E. discriminate.
    - destruct J11 as (F1 & F2). split; auto. intros b. rewrite F1. cbn. unfold bown_det.
      destruct (bown a b) as [| |t'|r'] eqn:E; try tauto. destruct (Nat.eqb r' r); split; discriminate.
    - intros b Hb'. cbn. unfold bown_det. now rewrite (J12 b Hb').
    - exact J15.
    - exact J16.
    - intros t' e f Ht. destruct (Nat.eq_dec t' t) as [->|N].
      + rewrite Vs in Ht. cbn in Ht. discriminate.
      + rewrite (V t' N) in Ht |- *. exact (J17 t' e f Ht).
    - intros t' n Ht. apply (J18 t' n). destruct (Nat.eq_dec t' t) as [->|N]; [rewrite Vs in Ht; exact Ht|now rewrite (V t' N) in Ht].
    - exact J13.
    - intros t'. assert (Es : va_scan (views a' t') = va_scan (views a t')) by (destruct (Nat.eq_dec t' t) as [->|N]; [rewrite Vs; reflexivity|now rewrite (V t' N)]).
      rewrite Es. specialize (J14 t'). destruct (va_scan (views a t')) as [ss|]; auto. destruct J14 as (X1 & X2). split; auto.
      apply (scan_ok_frame c g g h _ ss); cbn [hlen slotv lastw att linked]; [lia|intros s; left; auto|auto|left; reflexivity|reflexivity| |exact X2].
      intros s k0 Hl Hk.
      assert (Hl0 : live c h s k0).
      { destruct s as [r' i|x i]; cbn in Hl |- *.
        - destruct Hl as (t0 & A1 & A2). exists t0. split; auto. destruct (Nat.eq_dec r' r) as [->|N]; [rewrite Ats in A1; discriminate|now rewrite At in A1].
        - destruct Hl as (r' & t0 & k1 & A1 & A2 & A3). exists r', t0, k1.
          destruct (Nat.eq_dec r' r) as [->|N]; [rewrite Ats in A1; discriminate|]. rewrite At in A1 by exact N. rewrite Lk in A2 by exact N. auto. }
      split; auto.
      assert (Hrec : forall r', srec h s r' -> r' <> r).
      { intros r' Hs ->. destruct s as [r0 i|x i]; cbn in Hl, Hs.
        - subst r0. destruct Hl as (t0 & A1 & _). rewrite Ats in A1. discriminate.
        - destruct Hs as (k1 & K1). destruct Hl as (r' & t0 & k2 & A1 & A2 & _).
          destruct (Nat.eq_dec r' r) as [->|N]; [rewrite Ats in A1; discriminate|]. rewrite At in A1 by exact N. rewrite Lk in A2 by exact N.
          destruct (Rlk x k1 K1) as (W1&_). destruct (J2 r' t0 k2 A1) as (_&_&_&_&_&_&_&_&X9). destruct (X9 x k0 A2) as (W2&_). congruence. }
      split.
      + intros r' Hs. pose proof (Hrec r' Hs) as N. destruct s as [r0 i|x i]; cbn in Hs |- *; auto. now rewrite Lk.
      + intros n0 o S b0 i Es0 Hin Hg Hi. split; auto. destruct (Nat.eq_dec n0 r) as [->|N]; [|now rewrite Lk].
        exfalso. apply (Hrec r); auto. subst s. cbn. apply Hi in Hin. apply in_map_iff in Hin. destruct Hin as ((b', kb) & E & K). cbn in E. subst b'. eauto.
  Qed.
End DetA.
