(** * CuckooSet with the lock-striping policy: program specifications and theorems for every schedule. *)
From Coq Require Import ZArith List Bool Lia PeanoNat.
From LV Require Import Base.Conc Base.Events Base.Lin Spec.Specs Proofs.LinProofs
     Model.CuckooConc Proofs.StripedConcSpec Proofs.CuckooConcInv.
Import ListNotations.
Local Open Scope nat_scope.

Section Striping.
  Variable cf : conf.
  Hypothesis Hpol : c_pol cf = Striping.
  Hypothesis Hnl : 0 < c_nl cf.
  Notation L := (c_nl cf).
  Notation Inv := (CuckooConcInv.Inv cf).
  Notation Core := (CuckooConcInv.Core cf).
  Notation Abs := CuckooConcInv.Abs.
  Notation safe := (@Conc.safe G V ev Aux tview view Inv).
  Notation has0 := (CuckooConcInv.has0).
  Notation all0 := (CuckooConcInv.all0 cf).
  Notation auth := (CuckooConcInv.auth cf).
  Notation T := CuckooConcInv.T.

  Definition optQ {A} (P : A -> tview -> Prop) : option A -> tview -> Prop :=
    fun r v => match r with Some x => P x v | None => True end.

  Lemma safe_bindo {A B} t (p : prog (option A)) (q : A -> prog (option B)) (Q : B -> tview -> Prop) l :
    safe t p l (optQ (fun x l' => safe t (q x) l' (optQ Q))) -> safe t (bindo p q) l (optQ Q).
  Proof.
    intros H. unfold bindo. apply Conc.safe_bind. eapply Conc.safe_weaken; [|exact H].
    intros [x|] l' Hx; cbn in *; auto.
  Qed.
  Lemma safe_thenu {B} t (p : prog unit) (q : prog B) (Q : B -> tview -> Prop) l :
    safe t p l (fun _ l' => safe t q l' Q) -> safe t (thenu p q) l Q.
  Proof. intros H. unfold thenu. apply Conc.safe_bind. exact H. Qed.
  Lemma safe_ret {R} t (r : R) (Q : R -> tview -> Prop) l : Q r l -> safe t (Ret r) l Q.
  Proof. intros H. exact H. Qed.
  Lemma safe_oret {R} t (r : R) (Q : R -> tview -> Prop) l : Q r l -> safe t (oret r) l (optQ Q).
  Proof. intros H. exact H. Qed.

  (** an access that changes nothing the invariant reads *)
  Lemma Inv_acc g g' a tr t k o ok :
    Inv g a tr -> rspin g' = rspin g -> rown g' = rown g -> mask g' = mask g -> tabs g' = tabs g ->
    Inv g' a (tr ++ Conc.tag t [EvAcc k o ok]).
  Proof.
    intros [Hc Ha] C1 C2 C3 C4. split.
    - eapply Core_same; eauto.
    - eapply Abs_keep; eauto; [apply hist_of_acc|apply dropped_app].
  Qed.

  Lemma safe_silent {R} t (f : action) (k : V -> prog R) (Q : R -> tview -> Prop) v :
    (forall g, rspin (fst (fst (f g))) = rspin g /\ rown (fst (fst (f g))) = rown g /\ mask (fst (fst (f g))) = mask g /\
               tabs (fst (fst (f g))) = tabs g /\ exists k o ok, snd (f g) = [EvAcc k o ok]) ->
    (forall g a tr, Inv g a tr -> a_view a t = v -> safe t (k (snd (fst (f g)))) v Q) ->
    safe t (Act f k) v Q.
  Proof.
    intros Hf Hk. cbn [Conc.safe]. intros g a tr Hi Hv. unfold view in Hv.
    destruct (Hf g) as (C1 & C2 & C3 & C4 & k0 & o & ok & He). exists a. rewrite He.
    split; [eapply Inv_acc; eauto|]. split; [apply frame_refl|]. unfold view. rewrite Hv. eapply Hk; eauto.
  Qed.
  Ltac silent := intros ?g; repeat split; try reflexivity; do 3 eexists; reflexivity.


  (** *** the six steps on a reentrant lock word *)
  Definition vlock (g : G) (v : tview) (H' : list lk) (m' : micro) : tview :=
    mkTV (v_op v) H' m' (mask g) (fun tb b => T g tb b) (v_fly v) (v_pend v).
  Definition vrel (v : tview) (H' : list lk) (m' : micro) : tview :=
    mkTV (v_op v) H' m' (v_mask v) (v_reg v) (v_fly v) (v_pend v).

  Definition lk_ok (l : lk) : Prop := exists tb i, l = (0, tb, i) /\ tb < 2 /\ i < L.

  Lemma spin0_free g a l : Core g a -> rspin g l = 0 -> forall t0, ~ In l (held a t0).
  Proof.
    intros Hc H0 t0 Hin. pose proof (c_spin Hc t0 l Hin) as E. apply in_cnt in Hin. lia.
  Qed.

  Lemma Abs_lock g g' a t v' tr k o ok :
    Abs g a tr -> tabs g' = tabs g -> v_op v' = v_op (a_view a t) -> v_fly v' = fly a t -> v_pend v' = pend a t ->
    Abs g' (setv a t v') (tr ++ Conc.tag t [EvAcc k o ok]).
  Proof.
    intros Ha Ct H1 H2 H3. eapply Abs_keep; eauto; [| apply hist_of_acc | apply dropped_app].
    intros t0. destruct (Nat.eq_dec t0 t) as [->|Hne].
    - rewrite setv_same, fly_same, pend_same. auto.
    - rewrite setv_other, fly_other, pend_other by exact Hne. auto.
  Qed.

  (** the hypotheses of [Core_lock] that say "the thread keeps (at least) what it had" *)
  Lemma keep_claims g a t v' (H' : list lk) :
    Core g a -> v_held v' = H' -> (forall l, In l (held a t) -> In l H') ->
    (forall x, In x (fly a t) -> has0 v' /\ In (0, 0, h0 cf x mod L) (v_held v') /\ In (0, 1, h1 cf x mod L) (v_held v')) /\
    (pend a t <> [] -> all0 v').
  Proof.
    intros Hc Hh Hsub. split.
    - intros x Hx. destruct (c_fly Hc t x Hx) as ((i & Hi) & A1 & A2 & _). rewrite Hh. split; [exists i; rewrite Hh; auto|auto].
    - intros Hp i Hi. rewrite Hh. apply Hsub. apply (c_pend Hc t Hp i Hi).
  Qed.

  (** first acquisition: compare-exchange 0 -> 1 succeeded *)
  Lemma Inv_lock_take g a tr t l :
    Inv g a tr -> lk_ok l -> mic a t = MNone -> rspin g l = 0 ->
    Inv (set_rspin g (updl (rspin g) l 1)) (setv a t (vlock g (a_view a t) (l :: held a t) (MTaken l)))
        (tr ++ Conc.tag t [EvAcc KCas (o_rspin l) true]).
  Proof.
    intros [Hc Ha] (tb & i & -> & Htb & Hi) Hm H0. set (l := (0, tb, i)) in *.
    pose proof (spin0_free g a l Hc H0) as Hfree.
    destruct (keep_claims g a t (vlock g (a_view a t) (l :: held a t) (MTaken l)) (l :: held a t) Hc eq_refl ltac:(intros; now right)) as [Kf Kp].
    split; [|eapply Abs_lock; [exact Ha|reflexivity|reflexivity|reflexivity|reflexivity]].
    apply (Core_lock cf g _ a t _ Hc); cbn [rspin rown mask tabs set_rspin v_held v_mic v_mask v_reg v_fly v_pend vlock]; auto.
    - intros l' [<-|Hin].
      + rewrite updl_same, cnt_cons_same. split; [|intros t0 _; apply Hfree].
        assert (cnt (held a t) l = 0) by (apply (count_occ_not_In lk_dec); apply Hfree). lia.
      + assert (l' <> l) by (intros ->; eapply Hfree; eauto). rewrite updl_other, cnt_cons_other by auto.
        split; [apply (c_spin Hc t l' Hin)|]. intros t0 Hne H'. apply Hne. eapply (c_excl Hc); eauto.
    - intros l' Hn. destruct (lk_dec l' l) as [->|E]; [left; now left|]. rewrite updl_other in Hn by exact E.
      destruct (c_spin0 Hc l' Hn) as (t0 & Hin). destruct (Nat.eq_dec t0 t) as [->|Hne]; [left; now right|right; eauto].
    - intros l' t0 Hne Hin. assert (l' <> l) by (intros ->; eapply Hfree; eauto). now rewrite updl_other.
    - intros l' Hoth. destruct (c_rown Hc l') as [E|(t1 & E1 & E2 & E3 & E4)]; [now left|].
      destruct (Nat.eq_dec t1 t) as [->|Hne]; [|exfalso; eapply Hoth; eauto].
      right. split; auto. split; [now right|]. assert (l' <> l) by (intros ->; eapply Hfree; eauto). split; congruence.
    - intros l' [<-|Hin] M1 M2; [congruence|]. apply (c_rown2 Hc t l' Hin); rewrite Hm; discriminate.
    - intros l' [E|E]; inversion E; subst. rewrite cnt_cons_same.
      assert (cnt (held a t) l = 0) by (apply (count_occ_not_In lk_dec); apply Hfree). lia.
    - intros gg tb' i' [E|Hin]; [inversion E; subst; auto|]. eapply (c_range Hc); eauto.
  Qed.

  (** m_OwnerId.store( me ) *)
  Lemma Inv_lock_own g a tr t l (post : post_t) :
    Inv g a tr -> mic a t = MTaken l ->
    Inv (set_rown g (updl (rown g) l (S t))) (setv a t (vlock g (a_view a t) (held a t) MNone))
        (tr ++ Conc.tag t [EvAcc KSt (o_rown l) true]).
  Proof.
    intros [Hc Ha] Hm.
    assert (Hc1 : cnt (held a t) l = 1) by (apply (c_mic Hc); now left).
    assert (Hin : In l (held a t)) by (apply in_cnt; lia).
    assert (Hoth : forall t0, t0 <> t -> ~ In l (held a t0)) by (intros t0 Hne H'; apply Hne; eapply (c_excl Hc); eauto).
    destruct (keep_claims g a t (vlock g (a_view a t) (held a t) MNone) (held a t) Hc eq_refl ltac:(auto)) as [Kf Kp].
    split; [|eapply Abs_lock; [exact Ha|reflexivity|reflexivity|reflexivity|reflexivity]].
    apply (Core_lock cf g _ a t _ Hc); cbn [rspin rown mask tabs set_rown v_held v_mic v_mask v_reg v_fly v_pend vlock]; auto.
    - intros l' Hin'. split; [apply (c_spin Hc t l' Hin')|]. intros t0 Hne H'. apply Hne. eapply (c_excl Hc); eauto.
    - intros l' Hn. destruct (c_spin0 Hc l' Hn) as (t0 & Hin0). destruct (Nat.eq_dec t0 t) as [->|Hne]; [now left|right; eauto].
    - intros l' t0 Hne Hin0. assert (l' <> l) by (intros ->; eapply Hoth; eauto). now rewrite updl_other.
    - intros l' Hoth'. destruct (lk_dec l' l) as [->|E].
      + rewrite updl_same. right. repeat split; auto; discriminate.
      + rewrite updl_other by exact E. destruct (c_rown Hc l') as [E0|(t1 & E1 & E2 & E3 & E4)]; [now left|].
        destruct (Nat.eq_dec t1 t) as [->|Hne]; [|exfalso; eapply Hoth'; eauto]. right. repeat split; auto; discriminate.
    - intros l' Hin' _ _. destruct (lk_dec l' l) as [->|E]; [now rewrite updl_same|]. rewrite updl_other by exact E.
      apply (c_rown2 Hc t l' Hin'); rewrite Hm; congruence.
    - intros l' [E|E]; discriminate.
    - intros gg tb i. apply (c_range Hc).
  Qed.

  (** nested acquisition: m_spin.fetch_add( 1 ) *)
  Lemma Inv_lock_again g a tr t l :
    Inv g a tr -> mic a t = MNone -> In l (held a t) ->
    Inv (set_rspin g (updl (rspin g) l (S (rspin g l)))) (setv a t (vlock g (a_view a t) (l :: held a t) MNone))
        (tr ++ Conc.tag t [EvAcc KFaa (o_rspin l) true]).
  Proof.
    intros [Hc Ha] Hm Hin.
    assert (Hoth : forall t0, t0 <> t -> ~ In l (held a t0)) by (intros t0 Hne H'; apply Hne; eapply (c_excl Hc); eauto).
    destruct (keep_claims g a t (vlock g (a_view a t) (l :: held a t) MNone) (l :: held a t) Hc eq_refl ltac:(intros; now right)) as [Kf Kp].
    split; [|eapply Abs_lock; [exact Ha|reflexivity|reflexivity|reflexivity|reflexivity]].
    apply (Core_lock cf g _ a t _ Hc); cbn [rspin rown mask tabs set_rspin v_held v_mic v_mask v_reg v_fly v_pend vlock]; auto.
    - intros l' Hin'. destruct (lk_dec l' l) as [->|E].
      + rewrite updl_same, cnt_cons_same, (c_spin Hc t l Hin). split; auto.
      + rewrite updl_other, cnt_cons_other by auto. destruct Hin' as [E'|Hin']; [congruence|].
        split; [apply (c_spin Hc t l' Hin')|]. intros t0 Hne H'. apply Hne. eapply (c_excl Hc); eauto.
    - intros l' Hn. destruct (lk_dec l' l) as [->|E]; [left; now left|]. rewrite updl_other in Hn by exact E.
      destruct (c_spin0 Hc l' Hn) as (t0 & Hin0). destruct (Nat.eq_dec t0 t) as [->|Hne]; [left; now right|right; eauto].
    - intros l' t0 Hne Hin0. assert (l' <> l) by (intros ->; eapply Hoth; eauto). now rewrite updl_other.
    - intros l' Hoth'. destruct (c_rown Hc l') as [E|(t1 & E1 & E2 & E3 & E4)]; [now left|].
      destruct (Nat.eq_dec t1 t) as [->|Hne]; [|exfalso; eapply Hoth'; eauto]. right. repeat split; auto; try discriminate. now right.
    - intros l' Hin' _ _. assert (In l' (held a t)) by (destruct Hin' as [<-|H']; auto).
      apply (c_rown2 Hc t l'); auto; rewrite Hm; discriminate.
    - intros l' [E|E]; discriminate.
    - intros gg tb i [E|Hin']; [|eapply (c_range Hc); eauto]. apply (c_range Hc t gg tb i). rewrite <- E. exact Hin.
  Qed.


  (** monotonicity of the claims when the set of locks shrinks *)
  Lemma auth_mono (v v' : tview) : (forall l, In l (v_held v') -> In l (v_held v)) -> forall tb b, auth v' tb b -> auth v tb b.
  Proof.
    intros Hsub tb b [(i & Hi) H]. split; [exists i; auto|]. destruct H as [H|H]; [left; auto|right]. intros j Hj. auto.
  Qed.

  Lemma release_claims g a t (H' : list lk) m' :
    Core g a -> (forall l, In l H' -> In l (held a t)) ->
    (CuckooConcInv.has0 (vrel (a_view a t) H' m') -> v_mask (vrel (a_view a t) H' m') = mask g) /\
    (forall tb b, tb < 2 -> auth (vrel (a_view a t) H' m') tb b -> v_reg (vrel (a_view a t) H' m') tb b = T g tb b).
  Proof.
    intros Hc Hsub. split.
    - intros (i & Hi). cbn [vrel v_mask]. symmetry. apply (c_mask Hc). exists i. apply Hsub. exact Hi.
    - intros tb b Htb Ha. cbn [vrel v_reg]. symmetry. apply (c_reg Hc t tb b Htb). eapply auth_mono; [|exact Ha]. exact Hsub.
  Qed.

  (** unlock of a nested acquisition: m_spin.store( n - 1 ) *)
  Lemma Inv_unlock_dec g a tr t l :
    Inv g a tr -> mic a t = MNone -> 1 < cnt (held a t) l ->
    Inv (set_rspin g (updl (rspin g) l (cnt (held a t) l - 1))) (setv a t (vrel (a_view a t) (rem1 l (held a t)) MNone))
        (tr ++ Conc.tag t [EvAcc KSt (o_rspin l) true]).
  Proof.
    intros [Hc Ha] Hm Hn.
    assert (Hin : In l (held a t)) by (apply in_cnt; lia).
    assert (Hoth : forall t0, t0 <> t -> ~ In l (held a t0)) by (intros t0 Hne H'; apply Hne; eapply (c_excl Hc); eauto).
    assert (Hsub : forall l', In l' (rem1 l (held a t)) -> In l' (held a t)) by (intros l' H'; apply in_rem1 in H'; destruct H' as [[_ H']|[-> _]]; auto).
    assert (Hsup : forall l', In l' (held a t) -> In l' (rem1 l (held a t))).
    { intros l' H'. apply in_rem1. destruct (lk_dec l' l) as [->|E]; [right; split; auto|left; auto]. }
    destruct (release_claims g a t (rem1 l (held a t)) MNone Hc Hsub) as [Km Kr].
    destruct (keep_claims g a t (vrel (a_view a t) (rem1 l (held a t)) MNone) (rem1 l (held a t)) Hc eq_refl Hsup) as [Kf Kp].
    split; [|eapply Abs_lock; [exact Ha|reflexivity|reflexivity|reflexivity|reflexivity]].
    apply (Core_lock cf g _ a t _ Hc); cbn [rspin rown mask tabs set_rspin v_held v_mic v_mask v_reg v_fly v_pend vrel]; auto.
    - intros l' Hin'. apply Hsub in Hin'. destruct (lk_dec l' l) as [->|E].
      + rewrite updl_same, cnt_rem1_same. split; auto.
      + rewrite updl_other, cnt_rem1_other by auto. split; [apply (c_spin Hc t l' Hin')|].
        intros t0 Hne H'. apply Hne. eapply (c_excl Hc); eauto.
    - intros l' Hne0. destruct (lk_dec l' l) as [->|E]; [left; auto|]. rewrite updl_other in Hne0 by exact E.
      destruct (c_spin0 Hc l' Hne0) as (t0 & Hin0). destruct (Nat.eq_dec t0 t) as [->|Hne]; [left; auto|right; eauto].
    - intros l' t0 Hne Hin0. assert (l' <> l) by (intros ->; eapply Hoth; eauto). now rewrite updl_other.
    - intros l' Hoth'. destruct (c_rown Hc l') as [E|(t1 & E1 & E2 & E3 & E4)]; [now left|].
      destruct (Nat.eq_dec t1 t) as [->|Hne]; [|exfalso; eapply Hoth'; eauto]. right. repeat split; auto; discriminate.
    - intros l' Hin' _ _. apply (c_rown2 Hc t l'); auto; rewrite Hm; discriminate.
    - intros l' [E|E]; discriminate.
    - intros gg tb i Hin'. eapply (c_range Hc); eauto.
  Qed.

  (** last unlock, first half: m_OwnerId.store( 0 ) *)
  Lemma Inv_unlock_disown g a tr t l :
    Inv g a tr -> mic a t = MNone -> cnt (held a t) l = 1 ->
    Inv (set_rown g (updl (rown g) l 0)) (setv a t (vrel (a_view a t) (held a t) (MRel l)))
        (tr ++ Conc.tag t [EvAcc KSt (o_rown l) true]).
  Proof.
    intros [Hc Ha] Hm Hn.
    assert (Hin : In l (held a t)) by (apply in_cnt; lia).
    assert (Hoth : forall t0, t0 <> t -> ~ In l (held a t0)) by (intros t0 Hne H'; apply Hne; eapply (c_excl Hc); eauto).
    destruct (release_claims g a t (held a t) (MRel l) Hc ltac:(auto)) as [Km Kr].
    destruct (keep_claims g a t (vrel (a_view a t) (held a t) (MRel l)) (held a t) Hc eq_refl ltac:(auto)) as [Kf Kp].
    split; [|eapply Abs_lock; [exact Ha|reflexivity|reflexivity|reflexivity|reflexivity]].
    apply (Core_lock cf g _ a t _ Hc); cbn [rspin rown mask tabs set_rown v_held v_mic v_mask v_reg v_fly v_pend vrel]; auto.
    - intros l' Hin'. split; [apply (c_spin Hc t l' Hin')|]. intros t0 Hne H'. apply Hne. eapply (c_excl Hc); eauto.
    - intros l' Hne0. destruct (c_spin0 Hc l' Hne0) as (t0 & Hin0). destruct (Nat.eq_dec t0 t) as [->|Hne]; [now left|right; eauto].
    - intros l' t0 Hne Hin0. assert (l' <> l) by (intros ->; eapply Hoth; eauto). now rewrite updl_other.
    - intros l' Hoth'. destruct (lk_dec l' l) as [->|E]; [rewrite updl_same; now left|]. rewrite updl_other by exact E.
      destruct (c_rown Hc l') as [E0|(t1 & E1 & E2 & E3 & E4)]; [now left|].
      destruct (Nat.eq_dec t1 t) as [->|Hne]; [|exfalso; eapply Hoth'; eauto]. right. repeat split; auto; congruence.
    - intros l' Hin' M1 M2. assert (l' <> l) by congruence. rewrite updl_other by auto.
      apply (c_rown2 Hc t l'); auto; rewrite Hm; discriminate.
    - intros l' [E|E]; inversion E; subst. exact Hn.
    - intros gg tb i. apply (c_range Hc).
  Qed.

  (** last unlock, second half: m_spin.store( 0 ) *)
  Lemma Inv_unlock_free g a tr t l :
    Inv g a tr -> mic a t = MRel l ->
    (forall x, In x (fly a t) -> l <> (0, 0, h0 cf x mod L) /\ l <> (0, 1, h1 cf x mod L) /\
                                 exists i, (0, 0, i) <> l /\ In (0, 0, i) (held a t)) ->
    (pend a t <> [] -> forall i, l <> (0, 0, i)) ->
    Inv (set_rspin g (updl (rspin g) l 0)) (setv a t (vrel (a_view a t) (rem1 l (held a t)) MNone))
        (tr ++ Conc.tag t [EvAcc KSt (o_rspin l) true]).
  Proof.
    intros [Hc Ha] Hm Hfl Hpe.
    assert (Hn : cnt (held a t) l = 1) by (apply (c_mic Hc); now right).
    assert (Hin : In l (held a t)) by (apply in_cnt; lia).
    assert (Hoth : forall t0, t0 <> t -> ~ In l (held a t0)) by (intros t0 Hne H'; apply Hne; eapply (c_excl Hc); eauto).
    assert (Hsub : forall l', In l' (rem1 l (held a t)) -> In l' (held a t)) by (intros l' H'; apply in_rem1 in H'; destruct H' as [[_ H']|[-> _]]; auto).
    assert (Hgone : ~ In l (rem1 l (held a t))) by (intros H'; apply in_rem1 in H'; destruct H' as [[H' _]|[_ H']]; [congruence|lia]).
    assert (Hsup : forall l', l' <> l -> In l' (held a t) -> In l' (rem1 l (held a t))) by (intros l' E H'; apply in_rem1; left; auto).
    destruct (release_claims g a t (rem1 l (held a t)) MNone Hc Hsub) as [Km Kr].
    split; [|eapply Abs_lock; [exact Ha|reflexivity|reflexivity|reflexivity|reflexivity]].
    apply (Core_lock cf g _ a t _ Hc); cbn [rspin rown mask tabs set_rspin v_held v_mic v_mask v_reg v_fly v_pend vrel]; auto.
    - intros l' Hin'. assert (l' <> l) by (intros ->; contradiction). apply Hsub in Hin'.
      rewrite updl_other, cnt_rem1_other by auto. split; [apply (c_spin Hc t l' Hin')|].
      intros t0 Hne H'. apply Hne. eapply (c_excl Hc); eauto.
    - intros l' Hne0. destruct (lk_dec l' l) as [->|E]; [rewrite updl_same in Hne0; congruence|]. rewrite updl_other in Hne0 by exact E.
      destruct (c_spin0 Hc l' Hne0) as (t0 & Hin0). destruct (Nat.eq_dec t0 t) as [->|Hne]; [left; auto|right; eauto].
    - intros l' t0 Hne Hin0. assert (l' <> l) by (intros ->; eapply Hoth; eauto). now rewrite updl_other.
    - intros l' Hoth'. destruct (c_rown Hc l') as [E|(t1 & E1 & E2 & E3 & E4)]; [now left|].
      destruct (Nat.eq_dec t1 t) as [->|Hne]; [|exfalso; eapply Hoth'; eauto].
      assert (l' <> l) by (intros ->; rewrite Hm in E4; congruence). right. repeat split; auto; discriminate.
    - intros l' Hin' _ _. assert (l' <> l) by (intros ->; contradiction). apply Hsub in Hin'.
      apply (c_rown2 Hc t l'); auto; rewrite Hm; congruence.
    - intros l' [E|E]; discriminate.
    - intros gg tb i Hin'. eapply (c_range Hc); eauto.
    - intros x Hx. destruct (c_fly Hc t x Hx) as (_ & A1 & A2 & _). destruct (Hfl x Hx) as (N1 & N2 & i & N3 & N4).
      split; [exists i; apply Hsup; auto|]. split; apply Hsup; auto.
    - intros Hp i Hi. apply Hsup; [intros E; eapply Hpe; eauto|]. apply (c_pend Hc t Hp i Hi).
  Qed.

End Striping.
