(** * CuckooSet with the lock-striping policy: program specifications and theorems for every schedule. *)
From Coq Require Import ZArith List Bool Lia PeanoNat.
From LV Require Import Base.Conc Base.Events Base.Lin Spec.Specs Proofs.LinProofs
     Model.CuckooConc Proofs.StripedConcSpec Proofs.CuckooConcInv.
Import ListNotations.
Local Open Scope nat_scope.

Section Striping.
  Variable cf : conf.
  Hypothesis Hpol : c_pol cf = Striping.
  Hypothesis Hnl : 0 < c_nl cf.
  Notation L := (c_nl cf).
  Notation Inv := (CuckooConcInv.Inv cf).
  Notation Core := (CuckooConcInv.Core cf).
  Notation Abs := CuckooConcInv.Abs.
  Notation safe := (@Conc.safe G V ev Aux tview view Inv).
  Notation has0 := (CuckooConcInv.has0).
  Notation all0 := (CuckooConcInv.all0 cf).
  Notation auth := (CuckooConcInv.auth cf).
  Notation T := CuckooConcInv.T.
  Notation allp := CuckooConcInv.allp.
  Notation absent := (CuckooConcInv.absent cf).

  Definition optQ {A} (P : A -> tview -> Prop) : option A -> tview -> Prop :=
    fun r v => match r with Some x => P x v | None => True end.

  Lemma safe_bindo {A B} t (p : prog (option A)) (q : A -> prog (option B)) (Q : B -> tview -> Prop) l :
    safe t p l (optQ (fun x l' => safe t (q x) l' (optQ Q))) -> safe t (bindo p q) l (optQ Q).
  Proof.
    intros H. unfold bindo. apply Conc.safe_bind. eapply Conc.safe_weaken; [|exact H].
    intros [x|] l' Hx; cbn in *; auto.
  Qed.
  Lemma safe_thenu {B} t (p : prog unit) (q : prog B) (Q : B -> tview -> Prop) l :
    safe t p l (fun _ l' => safe t q l' Q) -> safe t (thenu p q) l Q.
  Proof. intros H. unfold thenu. apply Conc.safe_bind. exact H. Qed.
  Lemma safe_ret {R} t (r : R) (Q : R -> tview -> Prop) l : Q r l -> safe t (Ret r) l Q.
  Proof. intros H. exact H. Qed.
  Lemma safe_oret {R} t (r : R) (Q : R -> tview -> Prop) l : Q r l -> safe t (oret r) l (optQ Q).
  Proof. intros H. exact H. Qed.

  (** an access that changes nothing the invariant reads *)
  Lemma Inv_acc g g' a tr t k o ok :
    Inv g a tr -> rspin g' = rspin g -> rown g' = rown g -> mask g' = mask g -> tabs g' = tabs g ->
    Inv g' a (tr ++ Conc.tag t [EvAcc k o ok]).
  Proof.
    intros [Hc Ha] C1 C2 C3 C4. split.
    - eapply Core_same; eauto.
    - eapply Abs_keep; eauto; [apply hist_of_acc|apply dropped_app].
  Qed.

  Lemma safe_silent {R} t (f : action) (k : V -> prog R) (Q : R -> tview -> Prop) v :
    (forall g, rspin (fst (fst (f g))) = rspin g /\ rown (fst (fst (f g))) = rown g /\ mask (fst (fst (f g))) = mask g /\
               tabs (fst (fst (f g))) = tabs g /\ exists k o ok, snd (f g) = [EvAcc k o ok]) ->
    (forall g a tr, Inv g a tr -> a_view a t = v -> safe t (k (snd (fst (f g)))) v Q) ->
    safe t (Act f k) v Q.
  Proof.
    intros Hf Hk. cbn [Conc.safe]. intros g a tr Hi Hv. unfold view in Hv.
    destruct (Hf g) as (C1 & C2 & C3 & C4 & k0 & o & ok & He). exists a. rewrite He.
    split; [eapply Inv_acc; eauto|]. split; [apply frame_refl|]. unfold view. rewrite Hv. eapply Hk; eauto.
  Qed.
  Ltac silent := intros ?g; repeat split; try reflexivity; do 3 eexists; reflexivity.


  (** *** the six steps on a reentrant lock word *)
  Definition vlock (g : G) (v : tview) (H' : list lk) (m' : micro) : tview :=
    mkTV (v_op v) H' m' (mask g) (fun tb b => T g tb b) (v_fly v) (v_pend v).
  Definition vrel (v : tview) (H' : list lk) (m' : micro) : tview :=
    mkTV (v_op v) H' m' (v_mask v) (v_reg v) (v_fly v) (v_pend v).

  Definition lk_ok (l : lk) : Prop := exists tb i, l = (0, tb, i) /\ tb < 2 /\ i < L.

  Lemma spin0_free g a l : Core g a -> rspin g l = 0 -> forall t0, ~ In l (held a t0).
  Proof.
    intros Hc H0 t0 Hin. pose proof (c_spin Hc t0 l Hin) as E. apply in_cnt in Hin. lia.
  Qed.

  Lemma Abs_lock g g' a t v' tr k o ok :
    Abs g a tr -> tabs g' = tabs g -> v_op v' = v_op (a_view a t) -> v_fly v' = fly a t -> v_pend v' = pend a t ->
    Abs g' (setv a t v') (tr ++ Conc.tag t [EvAcc k o ok]).
  Proof.
    intros Ha Ct H1 H2 H3. eapply Abs_keep; eauto; [| apply hist_of_acc | apply dropped_app].
    intros t0. destruct (Nat.eq_dec t0 t) as [->|Hne].
    - rewrite setv_same, fly_same, pend_same. auto.
    - rewrite setv_other, fly_other, pend_other by exact Hne. auto.
  Qed.

  (** the hypotheses of [Core_lock] that say "the thread keeps (at least) what it had" *)
  Lemma keep_claims g a t v' (H' : list lk) :
    Core g a -> v_held v' = H' -> (forall l, In l (held a t) -> In l H') ->
    (forall x, In x (fly a t) -> has0 v' /\ In (0, 0, h0 cf x mod L) (v_held v') /\ In (0, 1, h1 cf x mod L) (v_held v')) /\
    (pend a t <> [] -> all0 v').
  Proof.
    intros Hc Hh Hsub. split.
    - intros x Hx. destruct (c_fly Hc t x Hx) as ((i & Hi) & A1 & A2 & _). rewrite Hh. split; [exists i; rewrite Hh; auto|auto].
    - intros Hp i Hi. rewrite Hh. apply Hsub. apply (c_pend Hc t Hp i Hi).
  Qed.

  (** first acquisition: compare-exchange 0 -> 1 succeeded *)
  Lemma Inv_lock_take g a tr t l :
    Inv g a tr -> lk_ok l -> mic a t = MNone -> rspin g l = 0 ->
    Inv (set_rspin g (updl (rspin g) l 1)) (setv a t (vlock g (a_view a t) (l :: held a t) (MTaken l)))
        (tr ++ Conc.tag t [EvAcc KCas (o_rspin l) true]).
  Proof.
    intros [Hc Ha] (tb & i & -> & Htb & Hi) Hm H0. set (l := (0, tb, i)) in *.
    pose proof (spin0_free g a l Hc H0) as Hfree.
    destruct (keep_claims g a t (vlock g (a_view a t) (l :: held a t) (MTaken l)) (l :: held a t) Hc eq_refl ltac:(intros; now right)) as [Kf Kp].
    split; [|eapply Abs_lock; [exact Ha|reflexivity|reflexivity|reflexivity|reflexivity]].
    apply (Core_lock cf g _ a t _ Hc); cbn [rspin rown mask tabs set_rspin v_held v_mic v_mask v_reg v_fly v_pend vlock]; auto.
    - intros l' [<-|Hin].
      + rewrite updl_same, cnt_cons_same. split; [|intros t0 _; apply Hfree].
        assert (cnt (held a t) l = 0) by (apply (count_occ_not_In lk_dec); apply Hfree). lia.
      + assert (l' <> l) by (intros ->; eapply Hfree; eauto). rewrite updl_other, cnt_cons_other by auto.
        split; [apply (c_spin Hc t l' Hin)|]. intros t0 Hne H'. apply Hne. eapply (c_excl Hc); eauto.
    - intros l' Hn. destruct (lk_dec l' l) as [->|E]; [left; now left|]. rewrite updl_other in Hn by exact E.
      destruct (c_spin0 Hc l' Hn) as (t0 & Hin). destruct (Nat.eq_dec t0 t) as [->|Hne]; [left; now right|right; eauto].
    - intros l' t0 Hne Hin. assert (l' <> l) by (intros ->; eapply Hfree; eauto). now rewrite updl_other.
    - intros l' Hoth. destruct (c_rown Hc l') as [E|(t1 & E1 & E2 & E3 & E4)]; [now left|].
      destruct (Nat.eq_dec t1 t) as [->|Hne]; [|exfalso; eapply Hoth; eauto].
      right. split; auto. split; [now right|]. assert (l' <> l) by (intros ->; eapply Hfree; eauto). split; congruence.
    - intros l' [<-|Hin] M1 M2; [congruence|]. apply (c_rown2 Hc t l' Hin); rewrite Hm; discriminate.
    - intros l' [E|E]; inversion E; subst. rewrite cnt_cons_same.
      assert (cnt (held a t) l = 0) by (apply (count_occ_not_In lk_dec); apply Hfree). lia.
    - intros gg tb' i' [E|Hin]; [inversion E; subst; auto|]. eapply (c_range Hc); eauto.
  Qed.

  (** m_OwnerId.store( me ) *)
  Lemma Inv_lock_own g a tr t l (post : post_t) :
    Inv g a tr -> mic a t = MTaken l ->
    Inv (set_rown g (updl (rown g) l (S t))) (setv a t (vlock g (a_view a t) (held a t) MNone))
        (tr ++ Conc.tag t [EvAcc KSt (o_rown l) true]).
  Proof.
    intros [Hc Ha] Hm.
    assert (Hc1 : cnt (held a t) l = 1) by (apply (c_mic Hc); now left).
    assert (Hin : In l (held a t)) by (apply in_cnt; lia).
    assert (Hoth : forall t0, t0 <> t -> ~ In l (held a t0)) by (intros t0 Hne H'; apply Hne; eapply (c_excl Hc); eauto).
    destruct (keep_claims g a t (vlock g (a_view a t) (held a t) MNone) (held a t) Hc eq_refl ltac:(auto)) as [Kf Kp].
    split; [|eapply Abs_lock; [exact Ha|reflexivity|reflexivity|reflexivity|reflexivity]].
    apply (Core_lock cf g _ a t _ Hc); cbn [rspin rown mask tabs set_rown v_held v_mic v_mask v_reg v_fly v_pend vlock]; auto.
    - intros l' Hin'. split; [apply (c_spin Hc t l' Hin')|]. intros t0 Hne H'. apply Hne. eapply (c_excl Hc); eauto.
    - intros l' Hn. destruct (c_spin0 Hc l' Hn) as (t0 & Hin0). destruct (Nat.eq_dec t0 t) as [->|Hne]; [now left|right; eauto].
    - intros l' t0 Hne Hin0. assert (l' <> l) by (intros ->; eapply Hoth; eauto). now rewrite updl_other.
    - intros l' Hoth'. destruct (lk_dec l' l) as [->|E].
      + rewrite updl_same. right. repeat split; auto; discriminate.
      + rewrite updl_other by exact E. destruct (c_rown Hc l') as [E0|(t1 & E1 & E2 & E3 & E4)]; [now left|].
        destruct (Nat.eq_dec t1 t) as [->|Hne]; [|exfalso; eapply Hoth'; eauto]. right. repeat split; auto; discriminate.
    - intros l' Hin' _ _. destruct (lk_dec l' l) as [->|E]; [now rewrite updl_same|]. rewrite updl_other by exact E.
      apply (c_rown2 Hc t l' Hin'); rewrite Hm; congruence.
    - intros l' [E|E]; discriminate.
    - intros gg tb i. apply (c_range Hc).
  Qed.

  (** nested acquisition: m_spin.fetch_add( 1 ) *)
  Lemma Inv_lock_again g a tr t l :
    Inv g a tr -> mic a t = MNone -> In l (held a t) ->
    Inv (set_rspin g (updl (rspin g) l (S (rspin g l)))) (setv a t (vlock g (a_view a t) (l :: held a t) MNone))
        (tr ++ Conc.tag t [EvAcc KFaa (o_rspin l) true]).
  Proof.
    intros [Hc Ha] Hm Hin.
    assert (Hoth : forall t0, t0 <> t -> ~ In l (held a t0)) by (intros t0 Hne H'; apply Hne; eapply (c_excl Hc); eauto).
    destruct (keep_claims g a t (vlock g (a_view a t) (l :: held a t) MNone) (l :: held a t) Hc eq_refl ltac:(intros; now right)) as [Kf Kp].
    split; [|eapply Abs_lock; [exact Ha|reflexivity|reflexivity|reflexivity|reflexivity]].
    apply (Core_lock cf g _ a t _ Hc); cbn [rspin rown mask tabs set_rspin v_held v_mic v_mask v_reg v_fly v_pend vlock]; auto.
    - intros l' Hin'. destruct (lk_dec l' l) as [->|E].
      + rewrite updl_same, cnt_cons_same, (c_spin Hc t l Hin). split; auto.
      + rewrite updl_other, cnt_cons_other by auto. destruct Hin' as [E'|Hin']; [congruence|].
        split; [apply (c_spin Hc t l' Hin')|]. intros t0 Hne H'. apply Hne. eapply (c_excl Hc); eauto.
    - intros l' Hn. destruct (lk_dec l' l) as [->|E]; [left; now left|]. rewrite updl_other in Hn by exact E.
      destruct (c_spin0 Hc l' Hn) as (t0 & Hin0). destruct (Nat.eq_dec t0 t) as [->|Hne]; [left; now right|right; eauto].
    - intros l' t0 Hne Hin0. assert (l' <> l) by (intros ->; eapply Hoth; eauto). now rewrite updl_other.
    - intros l' Hoth'. destruct (c_rown Hc l') as [E|(t1 & E1 & E2 & E3 & E4)]; [now left|].
      destruct (Nat.eq_dec t1 t) as [->|Hne]; [|exfalso; eapply Hoth'; eauto]. right. repeat split; auto; try discriminate. now right.
    - intros l' Hin' _ _. assert (In l' (held a t)) by (destruct Hin' as [<-|H']; auto).
      apply (c_rown2 Hc t l'); auto; rewrite Hm; discriminate.
    - intros l' [E|E]; discriminate.
    - intros gg tb i [E|Hin']; [|eapply (c_range Hc); eauto]. apply (c_range Hc t gg tb i). rewrite <- E. exact Hin.
  Qed.


  (** monotonicity of the claims when the set of locks shrinks *)
  Lemma auth_mono (v v' : tview) : (forall l, In l (v_held v') -> In l (v_held v)) -> forall tb b, auth v' tb b -> auth v tb b.
  Proof.
    intros Hsub tb b [(i & Hi) H]. split; [exists i; auto|]. destruct H as [H|H]; [left; auto|right]. intros j Hj. auto.
  Qed.

  Lemma release_claims g a t (H' : list lk) m' :
    Core g a -> (forall l, In l H' -> In l (held a t)) ->
    (CuckooConcInv.has0 (vrel (a_view a t) H' m') -> v_mask (vrel (a_view a t) H' m') = mask g) /\
    (forall tb b, tb < 2 -> auth (vrel (a_view a t) H' m') tb b -> v_reg (vrel (a_view a t) H' m') tb b = T g tb b).
  Proof.
    intros Hc Hsub. split.
    - intros (i & Hi). cbn [vrel v_mask]. symmetry. apply (c_mask Hc). exists i. apply Hsub. exact Hi.
    - intros tb b Htb Ha. cbn [vrel v_reg]. symmetry. apply (c_reg Hc t tb b Htb). eapply auth_mono; [|exact Ha]. exact Hsub.
  Qed.

  (** unlock of a nested acquisition: m_spin.store( n - 1 ) *)
  Lemma Inv_unlock_dec g a tr t l :
    Inv g a tr -> mic a t = MNone -> 1 < cnt (held a t) l ->
    Inv (set_rspin g (updl (rspin g) l (cnt (held a t) l - 1))) (setv a t (vrel (a_view a t) (rem1 l (held a t)) MNone))
        (tr ++ Conc.tag t [EvAcc KSt (o_rspin l) true]).
  Proof.
    intros [Hc Ha] Hm Hn.
    assert (Hin : In l (held a t)) by (apply in_cnt; lia).
    assert (Hoth : forall t0, t0 <> t -> ~ In l (held a t0)) by (intros t0 Hne H'; apply Hne; eapply (c_excl Hc); eauto).
    assert (Hsub : forall l', In l' (rem1 l (held a t)) -> In l' (held a t)) by (intros l' H'; apply in_rem1 in H'; destruct H' as [[_ H']|[-> _]]; auto).
    assert (Hsup : forall l', In l' (held a t) -> In l' (rem1 l (held a t))).
    { intros l' H'. apply in_rem1. destruct (lk_dec l' l) as [->|E]; [right; split; auto|left; auto]. }
    destruct (release_claims g a t (rem1 l (held a t)) MNone Hc Hsub) as [Km Kr].
    destruct (keep_claims g a t (vrel (a_view a t) (rem1 l (held a t)) MNone) (rem1 l (held a t)) Hc eq_refl Hsup) as [Kf Kp].
    split; [|eapply Abs_lock; [exact Ha|reflexivity|reflexivity|reflexivity|reflexivity]].
    apply (Core_lock cf g _ a t _ Hc); cbn [rspin rown mask tabs set_rspin v_held v_mic v_mask v_reg v_fly v_pend vrel]; auto.
    - intros l' Hin'. apply Hsub in Hin'. destruct (lk_dec l' l) as [->|E].
      + rewrite updl_same, cnt_rem1_same. split; auto.
      + rewrite updl_other, cnt_rem1_other by auto. split; [apply (c_spin Hc t l' Hin')|].
        intros t0 Hne H'. apply Hne. eapply (c_excl Hc); eauto.
    - intros l' Hne0. destruct (lk_dec l' l) as [->|E]; [left; auto|]. rewrite updl_other in Hne0 by exact E.
      destruct (c_spin0 Hc l' Hne0) as (t0 & Hin0). destruct (Nat.eq_dec t0 t) as [->|Hne]; [left; auto|right; eauto].
    - intros l' t0 Hne Hin0. assert (l' <> l) by (intros ->; eapply Hoth; eauto). now rewrite updl_other.
    - intros l' Hoth'. destruct (c_rown Hc l') as [E|(t1 & E1 & E2 & E3 & E4)]; [now left|].
      destruct (Nat.eq_dec t1 t) as [->|Hne]; [|exfalso; eapply Hoth'; eauto]. right. repeat split; auto; discriminate.
    - intros l' Hin' _ _. apply (c_rown2 Hc t l'); auto; rewrite Hm; discriminate.
    - intros l' [E|E]; discriminate.
    - intros gg tb i Hin'. eapply (c_range Hc); eauto.
  Qed.

  (** last unlock, first half: m_OwnerId.store( 0 ) *)
  Lemma Inv_unlock_disown g a tr t l :
    Inv g a tr -> mic a t = MNone -> cnt (held a t) l = 1 ->
    Inv (set_rown g (updl (rown g) l 0)) (setv a t (vrel (a_view a t) (held a t) (MRel l)))
        (tr ++ Conc.tag t [EvAcc KSt (o_rown l) true]).
  Proof.
    intros [Hc Ha] Hm Hn.
    assert (Hin : In l (held a t)) by (apply in_cnt; lia).
    assert (Hoth : forall t0, t0 <> t -> ~ In l (held a t0)) by (intros t0 Hne H'; apply Hne; eapply (c_excl Hc); eauto).
    destruct (release_claims g a t (held a t) (MRel l) Hc ltac:(auto)) as [Km Kr].
    destruct (keep_claims g a t (vrel (a_view a t) (held a t) (MRel l)) (held a t) Hc eq_refl ltac:(auto)) as [Kf Kp].
    split; [|eapply Abs_lock; [exact Ha|reflexivity|reflexivity|reflexivity|reflexivity]].
    apply (Core_lock cf g _ a t _ Hc); cbn [rspin rown mask tabs set_rown v_held v_mic v_mask v_reg v_fly v_pend vrel]; auto.
    - intros l' Hin'. split; [apply (c_spin Hc t l' Hin')|]. intros t0 Hne H'. apply Hne. eapply (c_excl Hc); eauto.
    - intros l' Hne0. destruct (c_spin0 Hc l' Hne0) as (t0 & Hin0). destruct (Nat.eq_dec t0 t) as [->|Hne]; [now left|right; eauto].
    - intros l' t0 Hne Hin0. assert (l' <> l) by (intros ->; eapply Hoth; eauto). now rewrite updl_other.
    - intros l' Hoth'. destruct (lk_dec l' l) as [->|E]; [rewrite updl_same; now left|]. rewrite updl_other by exact E.
      destruct (c_rown Hc l') as [E0|(t1 & E1 & E2 & E3 & E4)]; [now left|].
      destruct (Nat.eq_dec t1 t) as [->|Hne]; [|exfalso; eapply Hoth'; eauto]. right. repeat split; auto; congruence.
    - intros l' Hin' M1 M2. assert (l' <> l) by congruence. rewrite updl_other by auto.
      apply (c_rown2 Hc t l'); auto; rewrite Hm; discriminate.
    - intros l' [E|E]; inversion E; subst. exact Hn.
    - intros gg tb i. apply (c_range Hc).
  Qed.

  (** last unlock, second half: m_spin.store( 0 ) *)
  Lemma Inv_unlock_free g a tr t l :
    Inv g a tr -> mic a t = MRel l ->
    (forall x, In x (fly a t) -> l <> (0, 0, h0 cf x mod L) /\ l <> (0, 1, h1 cf x mod L) /\
                                 exists i, (0, 0, i) <> l /\ In (0, 0, i) (held a t)) ->
    (pend a t <> [] -> forall i, l <> (0, 0, i)) ->
    Inv (set_rspin g (updl (rspin g) l 0)) (setv a t (vrel (a_view a t) (rem1 l (held a t)) MNone))
        (tr ++ Conc.tag t [EvAcc KSt (o_rspin l) true]).
  Proof.
    intros [Hc Ha] Hm Hfl Hpe.
    assert (Hn : cnt (held a t) l = 1) by (apply (c_mic Hc); now right).
    assert (Hin : In l (held a t)) by (apply in_cnt; lia).
    assert (Hoth : forall t0, t0 <> t -> ~ In l (held a t0)) by (intros t0 Hne H'; apply Hne; eapply (c_excl Hc); eauto).
    assert (Hsub : forall l', In l' (rem1 l (held a t)) -> In l' (held a t)) by (intros l' H'; apply in_rem1 in H'; destruct H' as [[_ H']|[-> _]]; auto).
    assert (Hgone : ~ In l (rem1 l (held a t))) by (intros H'; apply in_rem1 in H'; destruct H' as [[H' _]|[_ H']]; [congruence|lia]).
    assert (Hsup : forall l', l' <> l -> In l' (held a t) -> In l' (rem1 l (held a t))) by (intros l' E H'; apply in_rem1; left; auto).
    destruct (release_claims g a t (rem1 l (held a t)) MNone Hc Hsub) as [Km Kr].
    split; [|eapply Abs_lock; [exact Ha|reflexivity|reflexivity|reflexivity|reflexivity]].
    apply (Core_lock cf g _ a t _ Hc); cbn [rspin rown mask tabs set_rspin v_held v_mic v_mask v_reg v_fly v_pend vrel]; auto.
    - intros l' Hin'. assert (l' <> l) by (intros ->; contradiction). apply Hsub in Hin'.
      rewrite updl_other, cnt_rem1_other by auto. split; [apply (c_spin Hc t l' Hin')|].
      intros t0 Hne H'. apply Hne. eapply (c_excl Hc); eauto.
    - intros l' Hne0. destruct (lk_dec l' l) as [->|E]; [rewrite updl_same in Hne0; congruence|]. rewrite updl_other in Hne0 by exact E.
      destruct (c_spin0 Hc l' Hne0) as (t0 & Hin0). destruct (Nat.eq_dec t0 t) as [->|Hne]; [left; auto|right; eauto].
    - intros l' t0 Hne Hin0. assert (l' <> l) by (intros ->; eapply Hoth; eauto). now rewrite updl_other.
    - intros l' Hoth'. destruct (c_rown Hc l') as [E|(t1 & E1 & E2 & E3 & E4)]; [now left|].
      destruct (Nat.eq_dec t1 t) as [->|Hne]; [|exfalso; eapply Hoth'; eauto].
      assert (l' <> l) by (intros ->; rewrite Hm in E4; congruence). right. repeat split; auto; discriminate.
    - intros l' Hin' _ _. assert (l' <> l) by (intros ->; contradiction). apply Hsub in Hin'.
      apply (c_rown2 Hc t l'); auto; rewrite Hm; congruence.
    - intros l' [E|E]; discriminate.
    - intros gg tb i Hin'. eapply (c_range Hc); eauto.
    - intros x Hx. destruct (c_fly Hc t x Hx) as (_ & A1 & A2 & _). destruct (Hfl x Hx) as (N1 & N2 & i & N3 & N4).
      split; [exists i; apply Hsup; auto|]. split; apply Hsup; auto.
    - intros Hp i Hi. apply Hsup; [intros E; eapply Hpe; eauto|]. apply (c_pend Hc t Hp i Hi).
  Qed.


  (** *** specifications of lock / try_lock / unlock *)
  Lemma rown_me_iff g a t l : Core g a -> mic a t = MNone -> (rown g l = S t <-> In l (held a t)).
  Proof.
    intros Hc Hm. split.
    - intros E. destruct (c_rown Hc l) as [E0|(t1 & E1 & E2 & _)]; [lia|]. assert (t1 = t) by lia. now subst.
    - intros Hin. apply (c_rown2 Hc t l Hin); rewrite Hm; discriminate.
  Qed.

  Definition acquired (l : lk) (v v' : tview) : Prop :=
    v_op v' = v_op v /\ v_held v' = l :: v_held v /\ v_mic v' = MNone /\ v_fly v' = v_fly v /\ v_pend v' = v_pend v.

  Lemma frame_trans a a1 a2 t : Conc.frame view t a a1 -> Conc.frame view t a1 a2 -> Conc.frame view t a a2.
  Proof. intros H1 H2 t' Hne. rewrite (H2 t' Hne). apply H1; exact Hne. Qed.

  (** what [v] (a view of thread t before a locking step) knows about a state *)
  Definition knows (v : tview) (g : G) : Prop :=
    (has0 v -> mask g = v_mask v) /\ (forall tb b, tb < 2 -> auth v tb b -> T g tb b = v_reg v tb b).

  Lemma knows_inv g a tr t : Inv g a tr -> knows (a_view a t) g.
  Proof. intros [Hc _]. split; [apply (c_mask Hc)|apply (c_reg Hc)]. Qed.

  (** what the caller does with the lock just obtained: [post] on the state, a new view, then [Q] *)
  Definition post_ok (t : nat) (l : lk) (post : post_t) (v : tview) (Q : tview -> Prop) : Prop :=
    forall g a tr, Inv g a tr -> acquired l v (a_view a t) -> v_mask (a_view a t) = mask g ->
      (forall tb b, v_reg (a_view a t) tb b = T g tb b) -> knows v g ->
      exists a', Inv (post g) a' tr /\ Conc.frame view t a a' /\ Q (a_view a' t).

  Lemma safe_faa t l post (Q : tview -> Prop) v :
    v_mic v = MNone -> In l (v_held v) -> post_ok t l post v Q ->
    safe t (Act (a_rspin_faa l post) (fun _ => oret tt)) v (optQ (fun _ => Q)).
  Proof.
    intros Hm Hin Hpost. cbn [Conc.safe]. intros g a tr Hi Hv. unfold view in Hv. cbn [a_rspin_faa fst snd].
    assert (Hma : mic a t = MNone) by (unfold mic; now rewrite Hv).
    assert (Hia : In l (held a t)) by (unfold held; now rewrite Hv).
    pose proof (Inv_lock_again g a tr t l Hi Hma Hia) as H1.
    pose proof (knows_inv g a tr t Hi) as Hk. rewrite Hv in Hk.
    set (a1 := setv a t (vlock g (a_view a t) (l :: held a t) MNone)) in *.
    destruct (Hpost _ a1 _ H1) as (a2 & H2 & Hf & HQ).
    - unfold a1. rewrite setv_same. unfold held. rewrite Hv. repeat split.
    - unfold a1. now rewrite setv_same.
    - intros tb b. unfold a1. now rewrite setv_same.
    - exact Hk.
    - exists a2. split; [exact H2|]. split; [eapply frame_trans; [apply frame_setv|exact Hf]|].
      apply safe_oret. exact HQ.
  Qed.

  Lemma has0_cons (v : tview) l m r mi : has0 v -> has0 (mkTV (v_op v) (l :: v_held v) mi m r (v_fly v) (v_pend v)).
  Proof. intros (i & Hi). exists i. now right. Qed.
  Lemma auth_cons (v : tview) l m r mi tb b : auth v tb b -> auth (mkTV (v_op v) (l :: v_held v) mi m r (v_fly v) (v_pend v)) tb b.
  Proof.
    intros [(i & Hi) H]. split; [exists i; now right|]. destruct H as [H|H]; [left; now right|right; intros j Hj; right; auto].
  Qed.

  Lemma safe_own t l post (Q : tview -> Prop) v m r :
    (has0 v -> m = v_mask v) -> (forall tb b, tb < 2 -> auth v tb b -> r tb b = v_reg v tb b) ->
    post_ok t l post v Q ->
    safe t (Act (a_rown_st l (S t) post) (fun _ => oret tt))
         (mkTV (v_op v) (l :: v_held v) (MTaken l) m r (v_fly v) (v_pend v)) (optQ (fun _ => Q)).
  Proof.
    intros Hm' Hr' Hpost. cbn [Conc.safe]. intros g a tr Hi Hv. unfold view in Hv. cbn [a_rown_st fst snd].
    assert (Hma : mic a t = MTaken l) by (unfold mic; now rewrite Hv).
    pose proof (Inv_lock_own g a tr t l post Hi Hma) as H1.
    pose proof (knows_inv g a tr t Hi) as [Hk1 Hk2]. rewrite Hv in Hk1, Hk2.
    set (a1 := setv a t (vlock g (a_view a t) (held a t) MNone)) in *.
    destruct (Hpost _ a1 _ H1) as (a2 & H2 & Hf & HQ).
    - unfold a1. rewrite setv_same. unfold held. rewrite Hv. repeat split.
    - unfold a1. now rewrite setv_same.
    - intros tb b. unfold a1. now rewrite setv_same.
    - split.
      + intros H0. cbn [mask set_rown]. rewrite <- (Hm' H0). apply (Hk1 (has0_cons v l m r (MTaken l) H0)).
      + intros tb b Htb Ha. unfold CuckooConcInv.T. cbn [tabs set_rown]. rewrite <- (Hr' tb b Htb Ha).
        apply (Hk2 tb b Htb (auth_cons v l m r (MTaken l) tb b Ha)).
    - exists a2. split; [exact H2|]. split; [eapply frame_trans; [apply frame_setv|exact Hf]|].
      apply safe_oret. exact HQ.
  Qed.

  Lemma safe_r_acq t l (Q : tview -> Prop) v : lk_ok l -> v_mic v = MNone ->
    (forall m r, (has0 v -> m = v_mask v) -> (forall tb b, tb < 2 -> auth v tb b -> r tb b = v_reg v tb b) ->
       Q (mkTV (v_op v) (l :: v_held v) (MTaken l) m r (v_fly v) (v_pend v))) ->
    forall fuel, safe t (r_acq_outer fuel l) v (optQ (fun _ => Q)) /\ safe t (r_acq_inner fuel l) v (optQ (fun _ => Q)).
  Proof.
    intros Hok Hm HQ fuel. induction fuel as [|f IH]; split; cbn [r_acq_outer r_acq_inner]; try exact I.
    - cbn [Conc.safe]. intros g a tr Hi Hv. unfold view in Hv. unfold a_rspin_cas.
      destruct (Nat.eqb_spec (rspin g l) 0) as [E|E]; cbn [fst snd].
      + eexists. split; [apply (Inv_lock_take g a tr t l Hi Hok); [unfold mic; now rewrite Hv|exact E]|]. split; [apply frame_setv|].
        unfold view. rewrite setv_same. cbn [vn vnat Nat.eqb]. apply safe_oret. unfold vlock, held. rewrite Hv.
        pose proof (knows_inv g a tr t Hi) as [Hk1 Hk2]. rewrite Hv in Hk1, Hk2. apply HQ; auto.
      + exists a. split; [eapply Inv_acc; eauto|]. split; [apply frame_refl|].
        unfold view. rewrite Hv. cbn [vn vnat Nat.eqb]. apply IH.
    - apply safe_silent; [silent|]. intros g a tr _ _. cbn [a_rspin_ld fst snd vn vnat].
      destruct (Nat.eqb (rspin g l) 0); apply IH.
  Qed.

  Lemma safe_r_lock_post t l (post : post_t) (Q : tview -> Prop) fuel v :
    lk_ok l -> v_mic v = MNone -> post_ok t l post v Q ->
    safe t (r_lock fuel (S t) l post) v (optQ (fun _ => Q)).
  Proof.
    intros Hok Hm Hpost. unfold r_lock. cbn [Conc.safe]. intros g a tr Hi Hv. unfold view in Hv.
    cbn [a_rown_ld fst snd]. exists a.
    split; [eapply Inv_acc; eauto|]. split; [apply frame_refl|]. unfold view. rewrite Hv. cbn [vn vnat].
    assert (Hma : mic a t = MNone) by (unfold mic; now rewrite Hv).
    pose proof (rown_me_iff g a t l (proj1 Hi) Hma) as Hiff. unfold held in Hiff. rewrite Hv in Hiff.
    destruct (Nat.eqb_spec (rown g l) (S t)) as [E|E].
    - apply safe_faa; auto. now apply Hiff.
    - apply safe_bindo. refine (proj1 (safe_r_acq t l _ v Hok Hm _ fuel)). intros m r Hm' Hr'. apply safe_own; auto.
  Qed.

  (** the usual case: nothing else is done in the locking step.  The new view has a fresh snapshot; what the old
      view knew stays known *)
  Definition extends (v v' : tview) : Prop :=
    (has0 v -> v_mask v' = v_mask v) /\ (forall tb b, tb < 2 -> auth v tb b -> v_reg v' tb b = v_reg v tb b).

  Lemma safe_r_lock t l (Q : tview -> Prop) fuel v :
    lk_ok l -> v_mic v = MNone ->
    (forall v', acquired l v v' -> extends v v' -> Q v') ->
    safe t (r_lock fuel (S t) l nopost) v (optQ (fun _ => Q)).
  Proof.
    intros Hok Hm HQ. apply safe_r_lock_post; auto.
    intros g a tr Hi Hacq Hmk Hrg [Hk1 Hk2]. exists a. split; [exact Hi|]. split; [apply frame_refl|].
    apply HQ; auto. split.
    - intros H0. rewrite Hmk. auto.
    - intros tb b Htb Hau. rewrite Hrg. auto.
  Qed.


  Lemma safe_r_try_lock t l (Q : bool -> tview -> Prop) v :
    lk_ok l -> v_mic v = MNone ->
    (forall v', acquired l v v' -> extends v v' -> Q true v') -> Q false v ->
    safe t (r_try_lock (S t) l) v Q.
  Proof.
    intros Hok Hm HQ1 HQ0. unfold r_try_lock. cbn [Conc.safe]. intros g a tr Hi Hv. unfold view in Hv.
    cbn [a_rown_ld fst snd]. exists a.
    split; [eapply Inv_acc; eauto|]. split; [apply frame_refl|]. unfold view. rewrite Hv. cbn [vn vnat].
    assert (Hma : mic a t = MNone) by (unfold mic; now rewrite Hv).
    pose proof (rown_me_iff g a t l (proj1 Hi) Hma) as Hiff. unfold held in Hiff. rewrite Hv in Hiff.
    assert (Hpost : post_ok t l nopost v (Q true)).
    { intros g1 a1 tr1 Hi1 Hacq Hmk Hrg [Hk1 Hk2]. exists a1. split; [exact Hi1|]. split; [apply frame_refl|].
      apply HQ1; auto. split; [intros H0; rewrite Hmk; auto|intros tb b Htb Hau; rewrite Hrg; auto]. }
    destruct (Nat.eqb_spec (rown g l) (S t)) as [E|E].
    - assert (K := safe_faa t l nopost (Q true) v Hm (proj1 Hiff E) Hpost).
      cbn [Conc.safe] in K |- *. intros g1 a1 tr1 Hi1 Hv1. destruct (K g1 a1 tr1 Hi1 Hv1) as (a2 & K1 & K2 & K3).
      exists a2. split; auto.
    - cbn [Conc.safe]. clear g a tr Hi Hv Hma Hiff E. intros g a tr Hi Hv. unfold view in Hv. unfold a_rspin_cas.
      destruct (Nat.eqb_spec (rspin g l) 0) as [E|E]; cbn [fst snd].
      + eexists. split; [apply (Inv_lock_take g a tr t l Hi Hok); [unfold mic; now rewrite Hv|exact E]|]. split; [apply frame_setv|].
        unfold view. rewrite setv_same. cbn [vn vnat Nat.eqb]. unfold vlock, held. rewrite Hv.
        pose proof (knows_inv g a tr t Hi) as [Hk1 Hk2]. rewrite Hv in Hk1, Hk2.
        assert (K := safe_own t l nopost (Q true) v (mask g) (fun tb b => T g tb b) ltac:(auto) ltac:(auto) Hpost).
        cbn [Conc.safe] in K |- *. intros g1 a1 tr1 Hi1 Hv1. destruct (K g1 a1 tr1 Hi1 Hv1) as (a2 & K1 & K2 & K3).
        exists a2. split; auto.
      + exists a. split; [eapply Inv_acc; eauto|]. split; [apply frame_refl|].
        unfold view. rewrite Hv. cbn [vn vnat Nat.eqb]. exact HQ0.
  Qed.

  (** unlock() *)
  Lemma safe_r_unlock t l (Q : tview -> Prop) v :
    v_mic v = MNone -> In l (v_held v) ->
    (cnt (v_held v) l = 1 ->
       (forall x, In x (v_fly v) -> l <> (0, 0, h0 cf x mod L) /\ l <> (0, 1, h1 cf x mod L) /\ exists i, (0, 0, i) <> l /\ In (0, 0, i) (v_held v)) /\
       (v_pend v <> [] -> forall i, l <> (0, 0, i))) ->
    Q (vrel v (rem1 l (v_held v)) MNone) ->
    safe t (r_unlock l) v (fun _ => Q).
  Proof.
    intros Hm Hin Hcond HQ. unfold r_unlock. cbn [Conc.safe]. intros g a tr Hi Hv. unfold view in Hv.
    cbn [a_rspin_ld fst snd]. exists a.
    split; [eapply Inv_acc; eauto|]. split; [apply frame_refl|]. unfold view. rewrite Hv. cbn [vn vnat].
    assert (Hs : rspin g l = cnt (v_held v) l).
    { rewrite (c_spin (proj1 Hi) t l); unfold held; rewrite Hv; auto. }
    rewrite Hs. assert (Hpos : 0 < cnt (v_held v) l) by (now apply in_cnt).
    destruct (Nat.ltb_spec 1 (cnt (v_held v) l)) as [Hgt|Hle].
    - cbn [Conc.safe]. clear g a tr Hi Hv Hs. intros g a tr Hi Hv. unfold view in Hv. cbn [a_rspin_st fst snd].
      eexists. split; [|split; [apply frame_setv|]].
      + replace (cnt (v_held v) l - 1) with (cnt (held a t) l - 1) by (unfold held; now rewrite Hv).
        apply (Inv_unlock_dec g a tr t l Hi); [unfold mic; now rewrite Hv|unfold held; now rewrite Hv].
      + unfold view. rewrite setv_same. unfold held. rewrite Hv. exact HQ.
    - assert (H1 : cnt (v_held v) l = 1) by lia. destruct (Hcond H1) as [Hfl Hpe].
      cbn [Conc.safe]. clear g a tr Hi Hv Hs. intros g a tr Hi Hv. unfold view in Hv. cbn [a_rown_st fst snd].
      eexists. split; [apply (Inv_unlock_disown g a tr t l Hi); [unfold mic; now rewrite Hv|unfold held; now rewrite Hv]|]. split; [apply frame_setv|].
      unfold view. rewrite setv_same. unfold held. rewrite Hv. cbn [Conc.safe]. clear g a tr Hi Hv.
      intros g a tr Hi Hv. unfold view in Hv. cbn [a_rspin_st fst snd].
      eexists. split; [apply (Inv_unlock_free g a tr t l Hi); [unfold mic; now rewrite Hv|unfold fly, held; rewrite Hv; exact Hfl|unfold pend; rewrite Hv; exact Hpe]|]. split; [apply frame_setv|].
      unfold view. rewrite setv_same. unfold held. rewrite Hv. cbn [vrel v_held v_op v_mask v_reg v_fly v_pend]. exact HQ.
  Qed.


  (** *** inside a critical section: the abstract set and the two probe sets of a key *)
  Definition bk (g : G) (k tb : nat) : nat := hsel (hashes cf k) tb mod S (mask g).
  Definition lookup (g : G) (k : nat) : option item :=
    match kget k (T g 0 (bk g k 0)) with Some x => Some x | None => kget k (T g 1 (bk g k 1)) end.

  (** thread t may access both probe sets of key k and has nothing in flight or pending *)
  Definition in_cs (g : G) (a : Aux) (t k : nat) : Prop :=
    (forall tb, tb < 2 -> auth (a_view a t) tb (bk g k tb)) /\ fly a t = [] /\ pend a t = [].

  Lemma cs_no_other g a t k x : Core g a -> in_cs g a t k -> fst x = k ->
    (forall t0, ~ In x (fly a t0)) /\ (forall t0, ~ In x (pend a t0)).
  Proof.
    intros Hc (Hau & Hf & Hp) Hk. split; intros t0 Hin.
    - destruct (Nat.eq_dec t0 t) as [->|Hne]; [rewrite Hf in Hin; destruct Hin|].
      pose proof (fly_auth cf g a t0 x 0 Hc Hin ltac:(lia)) as Ha0.
      eapply (auth_other_none cf g a t t0 0 (bk g k 0) Hc (Hau 0 ltac:(lia)) Hne).
      unfold bk. rewrite <- Hk. exact Ha0.
    - destruct (Nat.eq_dec t0 t) as [->|Hne]; [rewrite Hp in Hin; destruct Hin|].
      assert (Hp0 : pend a t0 <> []) by (intros E; rewrite E in Hin; destruct Hin).
      pose proof (c_pend Hc t0 Hp0) as Hall. destruct (Hau 0 ltac:(lia)) as [(i & Hi) _].
      apply Hne. eapply (c_excl Hc); [apply Hall; apply (c_range Hc t 0 0 i Hi)|exact Hi].
  Qed.

  Lemma abs_lookup g a t k s : Core g a -> in_cs g a t k -> NoDup (keys s) -> (forall x, In x s <-> allp g a x) ->
    kget k s = lookup g k.
  Proof.
    intros Hc Hcs Hnd Hs. unfold lookup.
    assert (Hin_s : forall tb x, tb < 2 -> In x (T g tb (bk g k tb)) -> In x s).
    { intros tb x Htb Hx. apply Hs. left. eauto. }
    destruct (kget k (T g 0 (bk g k 0))) as [x|] eqn:E0.
    - apply kget_some in E0. destruct E0 as [Hx Hk]. apply kget_unique; auto. apply (Hin_s 0); auto.
    - destruct (kget k (T g 1 (bk g k 1))) as [x|] eqn:E1.
      + apply kget_some in E1. destruct E1 as [Hx Hk]. apply kget_unique; auto. apply (Hin_s 1); auto.
      + apply kget_none. apply khas_false. intros o Hin. apply Hs in Hin.
        destruct Hin as [(tb & b & Htb & Hx)|[(t0 & Hx)|(t0 & Hx)]].
        * pose proof (c_placed Hc tb b (k, o) Htb Hx) as Hb. unfold hx in Hb. cbn [fst] in Hb. fold (bk g k tb) in Hb. subst b.
          destruct tb as [|[|tb]]; [| |lia].
          -- apply kget_none in E0. rewrite khas_false in E0. eapply E0; eauto.
          -- apply kget_none in E1. rewrite khas_false in E1. eapply E1; eauto.
        * eapply (proj1 (cs_no_other g a t k (k, o) Hc Hcs eq_refl)); eauto.
        * eapply (proj2 (cs_no_other g a t k (k, o) Hc Hcs eq_refl)); eauto.
  Qed.

  Lemma lookup_bucket g a k x : Core g a -> lookup g k = Some x ->
    fst x = k /\ exists tb, tb < 2 /\ In x (T g tb (bk g k tb)) /\ forall tb', tb' < 2 -> tb' <> tb -> khas k (T g tb' (bk g k tb')) = false.
  Proof.
    intros Hc. unfold lookup. destruct (kget k (T g 0 (bk g k 0))) as [y|] eqn:E0.
    - intros E. inversion E; subst y. apply kget_some in E0. destruct E0 as [Hx Hk]. split; auto. exists 0. split; [lia|]. split; auto.
      intros tb' H1 H2. assert (tb' = 1) by lia. subst tb'. apply khas_false. intros o Hin.
      eapply (c_cross Hc _ _ x (k, o)); eauto.
    - intros E1. apply kget_some in E1. destruct E1 as [Hx Hk]. split; auto. exists 1. split; [lia|]. split; auto.
      intros tb' H1 H2. assert (tb' = 0) by lia. subst tb'. now apply kget_none.
  Qed.


  (** *** linearization points *)
  Definition with_op (v : tview) (o : status ISet) : tview :=
    mkTV o (v_held v) (v_mic v) (v_mask v) (v_reg v) (v_fly v) (v_pend v).

  Lemma st_setv (st : nat -> status ISet) a t v' x :
    (forall t0, st t0 = v_op (a_view a t0)) -> v_op v' = x ->
    forall t0, Lin.upd st t x t0 = v_op (a_view (setv a t v') t0).
  Proof.
    intros H Hx t0. unfold Lin.upd. destruct (Nat.eqb_spec t0 t) as [->|Hn].
    - now rewrite setv_same.
    - rewrite setv_other by exact Hn. apply H.
  Qed.

  (** only the status of t's operation changes in the views *)
  Lemma Core_with_op g a t o : Core g a -> Core g (setv a t (with_op (a_view a t) o)).
  Proof.
    intros Hc. apply (Core_lock cf g g a t _ Hc); cbn [with_op v_held v_mic v_mask v_reg v_fly v_pend]; auto.
    - intros l Hin. split; [apply (c_spin Hc t l Hin)|]. intros t0 Hne H'. apply Hne. eapply (c_excl Hc); eauto.
    - intros l Hn. destruct (c_spin0 Hc l Hn) as (t0 & Hin). destruct (Nat.eq_dec t0 t) as [->|Hne]; [now left|right; eauto].
    - intros l Hoth. destruct (c_rown Hc l) as [E|(t1 & E1 & E2 & E3 & E4)]; [now left|].
      destruct (Nat.eq_dec t1 t) as [->|Hne]; [|exfalso; eapply Hoth; eauto]. right. auto.
    - intros l. apply (c_rown2 Hc t l).
    - intros l. apply (c_mic Hc t l).
    - intros gg tb i. apply (c_range Hc t gg tb i).
    - intros H. symmetry. now apply (c_mask Hc t).
    - intros tb b Htb H. symmetry. now apply (c_reg Hc t tb b).
    - intros x Hx. destruct (c_fly Hc t x Hx) as (A & B & C & _). auto.
    - apply (c_pend Hc t).
  Qed.

  Lemma allp_with_op g a t o atr : forall x, allp g (seta (setv a t (with_op (a_view a t) o)) atr) x <-> allp g a x.
  Proof.
    intros x. apply allp_ext; auto; intros t0; unfold fly, pend; cbn [a_view seta];
      (destruct (Nat.eq_dec t0 t) as [->|Hne]; [now rewrite setv_same|now rewrite setv_other]).
  Qed.

  (** a linearization point that does not change the set: the result is decided by the lookup of the key *)
  Lemma Inv_lp_read g g' a tr t k (o : iop) (r : res) kk ob ok :
    Inv g a tr -> rspin g' = rspin g -> rown g' = rown g -> mask g' = mask g -> tabs g' = tabs g ->
    v_op (a_view a t) = Pending (o : Op ISet) -> in_cs g a t k ->
    (forall s, kget k s = lookup g k -> istep s o = (s, r)) ->
    Inv g' (seta (setv a t (with_op (a_view a t) (Linearized (o : Op ISet) (r : Res ISet)))) (a_atr a ++ [ALin t]))
        (tr ++ Conc.tag t [EvAcc kk ob ok]).
  Proof.
    intros [Hc Ha] C1 C2 C3 C4 Hop Hcs Hstep. split.
    - apply Core_seta. eapply Core_same; [apply (Core_with_op g a t _ Hc)|auto..].
    - destruct Ha as [Hd|(s & st & H1 & H2 & H3 & H4 & H5)]; [left; now apply dropped_app|right].
      exists s, (Lin.upd st t (Linearized (o : Op ISet) (r : Res ISet))). cbn [a_atr seta a_view].
      pose proof (Hstep s (abs_lookup g a t k s Hc Hcs H4 H5)) as Hst.
      split; [|split; [|split; [|split]]].
      + eapply lp_ext; [exact H1|]. cbn [lp_step]. rewrite H3, Hop. cbn [sstep ISet mkSpec]. rewrite Hst. reflexivity.
      + rewrite erase_app, hist_of_acc. cbn. now rewrite app_nil_r.
      + apply st_setv; auto.
      + exact H4.
      + intros x. rewrite H5. symmetry.
        etransitivity; [|apply (allp_with_op g a t (Linearized (o : Op ISet) (r : Res ISet)) (a_atr a ++ [ALin t]))].
        apply allp_ext; auto. intros. unfold CuckooConcInv.T. now rewrite C4.
  Qed.


  (** *** steps that replace one probe set *)
  Lemma Inv_table g g' a tr t v' atr' kk ob ok :
    Core g a -> Core g' (setv a t v') -> Abs g a tr ->
    (forall s st, lp_run lp_init (a_atr a) = Some (s, st) -> erase (a_atr a) = hist_of tr ->
        (forall t0, st t0 = v_op (a_view a t0)) -> NoDup (keys s) -> (forall x, In x s <-> allp g a x) ->
        exists s' st', lp_run lp_init atr' = Some (s', st') /\ erase atr' = hist_of tr /\
          (forall t0, st' t0 = v_op (a_view (setv a t v') t0)) /\ NoDup (keys s') /\
          forall x, In x s' <-> allp g' (setv a t v') x) ->
    Inv g' (seta (setv a t v') atr') (tr ++ Conc.tag t [EvAcc kk ob ok]).
  Proof.
    intros Hc Hc' Ha Habs. split; [now apply Core_seta|].
    destruct Ha as [Hd|(s & st & H1 & H2 & H3 & H4 & H5)]; [left; now apply dropped_app|right].
    destruct (Habs s st H1 H2 H3 H4 H5) as (s' & st' & K1 & K2 & K3 & K4 & K5).
    exists s', st'. cbn [a_atr seta a_view]. rewrite hist_of_acc. split; [exact K1|]. split; [exact K2|]. split; [exact K3|]. split; [exact K4|].
    intros x. rewrite K5. apply allp_ext; auto.
  Qed.

  (** a move of items between a probe set and the in-flight / pending items of the thread: no linearization point *)
  Lemma Inv_move g g' a tr t v' tb b new kk ob ok :
    Inv g a tr -> Core g' (setv a t v') -> tabs g' = set_bkt (tabs g) tb b new -> tb < 2 -> b < S (mask g) ->
    v_op v' = v_op (a_view a t) ->
    (forall x, In x new \/ In x (v_fly v') \/ In x (v_pend v') <-> In x (T g tb b) \/ In x (fly a t) \/ In x (pend a t)) ->
    Inv g' (setv a t v') (tr ++ Conc.tag t [EvAcc kk ob ok]).
  Proof.
    intros [Hc Ha] Hc' Ct Htb Hb Hop Hmv. split; [exact Hc'|].
    destruct Ha as [Hd|(s & st & H1 & H2 & H3 & H4 & H5)]; [left; now apply dropped_app|right].
    exists s, st. rewrite hist_of_acc. split; auto. split; auto. split.
    - intros t0. rewrite H3. destruct (Nat.eq_dec t0 t) as [->|Hne]; [now rewrite setv_same|now rewrite setv_other].
    - split; auto. intros x. rewrite H5. symmetry. eapply allp_move; eauto.
  Qed.

End Striping.
