(** * CuckooSet with the lock-striping policy: program specifications and theorems for every schedule. *)
From Coq Require Import ZArith List Bool Lia PeanoNat.
From LV Require Import Base.Conc Base.Events Base.Lin Spec.Specs Proofs.LinProofs
     Model.CuckooConc Proofs.StripedConcSpec Proofs.CuckooConcInv.
Import ListNotations.
Local Open Scope nat_scope.

Section Striping.
  Variable cf : conf.
  Hypothesis Hpol : c_pol cf = Striping.
  Hypothesis Hnl : 0 < c_nl cf.
  Notation L := (c_nl cf).
  Notation Inv := (CuckooConcInv.Inv cf).
  Notation Core := (CuckooConcInv.Core cf).
  Notation Abs := CuckooConcInv.Abs.
  Notation safe := (@Conc.safe G V ev Aux tview view Inv).
  Notation has0 := (CuckooConcInv.has0).
  Notation all0 := (CuckooConcInv.all0 cf).
  Notation auth := (CuckooConcInv.auth cf).
  Notation T := CuckooConcInv.T.
  Notation allp := CuckooConcInv.allp.
  Notation absent := (CuckooConcInv.absent cf).
  Notation all_items := CuckooConcInv.all_items.

  Definition optQ {A} (P : A -> tview -> Prop) : option A -> tview -> Prop :=
    fun r v => match r with Some x => P x v | None => True end.

  Lemma safe_bindo {A B} t (p : prog (option A)) (q : A -> prog (option B)) (Q : B -> tview -> Prop) l :
    safe t p l (optQ (fun x l' => safe t (q x) l' (optQ Q))) -> safe t (bindo p q) l (optQ Q).
  Proof.
    intros H. unfold bindo. apply Conc.safe_bind. eapply Conc.safe_weaken; [|exact H].
    intros [x|] l' Hx; cbn in *; auto.
  Qed.
  Lemma safe_thenu {B} t (p : prog unit) (q : prog B) (Q : B -> tview -> Prop) l :
    safe t p l (fun _ l' => safe t q l' Q) -> safe t (thenu p q) l Q.
  Proof. intros H. unfold thenu. apply Conc.safe_bind. exact H. Qed.
  Lemma safe_ret {R} t (r : R) (Q : R -> tview -> Prop) l : Q r l -> safe t (Ret r) l Q.
  Proof. intros H. exact H. Qed.
  Lemma safe_oret {R} t (r : R) (Q : R -> tview -> Prop) l : Q r l -> safe t (oret r) l (optQ Q).
  Proof. intros H. exact H. Qed.

  (** an access that changes nothing the invariant reads *)
  Lemma Inv_acc g g' a tr t k o ok :
    Inv g a tr -> rspin g' = rspin g -> rown g' = rown g -> mask g' = mask g -> tabs g' = tabs g ->
    Inv g' a (tr ++ Conc.tag t [EvAcc k o ok]).
  Proof.
    intros [Hc Ha] C1 C2 C3 C4. split.
    - eapply Core_same; eauto.
    - eapply Abs_keep; eauto; [apply hist_of_acc|apply dropped_app].
  Qed.

  Lemma safe_silent {R} t (f : action) (k : V -> prog R) (Q : R -> tview -> Prop) v :
    (forall g, rspin (fst (fst (f g))) = rspin g /\ rown (fst (fst (f g))) = rown g /\ mask (fst (fst (f g))) = mask g /\
               tabs (fst (fst (f g))) = tabs g /\ exists k o ok, snd (f g) = [EvAcc k o ok]) ->
    (forall g a tr, Inv g a tr -> a_view a t = v -> safe t (k (snd (fst (f g)))) v Q) ->
    safe t (Act f k) v Q.
  Proof.
    intros Hf Hk. cbn [Conc.safe]. intros g a tr Hi Hv. unfold view in Hv.
    destruct (Hf g) as (C1 & C2 & C3 & C4 & k0 & o & ok & He). exists a. rewrite He.
    split; [eapply Inv_acc; eauto|]. split; [apply frame_refl|]. unfold view. rewrite Hv. eapply Hk; eauto.
  Qed.
  Ltac silent := intros ?g; repeat split; try reflexivity; do 3 eexists; reflexivity.


  (** *** the six steps on a reentrant lock word *)
  Definition vlock (g : G) (v : tview) (H' : list lk) (m' : micro) : tview :=
    mkTV (v_op v) H' m' (mask g) (fun tb b => T g tb b) (v_fly v) (v_pend v).
  Definition vrel (v : tview) (H' : list lk) (m' : micro) : tview :=
    mkTV (v_op v) H' m' (v_mask v) (v_reg v) (v_fly v) (v_pend v).

  Definition lk_ok (l : lk) : Prop := exists tb i, l = (0, tb, i) /\ tb < 2 /\ i < L.

  Lemma spin0_free g a l : Core g a -> rspin g l = 0 -> forall t0, ~ In l (held a t0).
  Proof.
    intros Hc H0 t0 Hin. pose proof (c_spin Hc t0 l Hin) as E. apply in_cnt in Hin. lia.
  Qed.

  Lemma Abs_lock g g' a t v' tr k o ok :
    Abs g a tr -> tabs g' = tabs g -> v_op v' = v_op (a_view a t) -> v_fly v' = fly a t -> v_pend v' = pend a t ->
    Abs g' (setv a t v') (tr ++ Conc.tag t [EvAcc k o ok]).
  Proof.
    intros Ha Ct H1 H2 H3. eapply Abs_keep; eauto; [| apply hist_of_acc | apply dropped_app].
    intros t0. destruct (Nat.eq_dec t0 t) as [->|Hne].
    - rewrite setv_same, fly_same, pend_same. auto.
    - rewrite setv_other, fly_other, pend_other by exact Hne. auto.
  Qed.

  (** the hypotheses of [Core_lock] that say "the thread keeps (at least) what it had" *)
  Lemma keep_claims g a t v' (H' : list lk) :
    Core g a -> v_held v' = H' -> (forall l, In l (held a t) -> In l H') ->
    (forall x, In x (fly a t) -> has0 v' /\ In (0, 0, h0 cf x mod L) (v_held v') /\ In (0, 1, h1 cf x mod L) (v_held v')) /\
    (pend a t <> [] -> all0 v').
  Proof.
    intros Hc Hh Hsub. split.
    - intros x Hx. destruct (c_fly Hc t x Hx) as ((i & Hi) & A1 & A2 & _). rewrite Hh. split; [exists i; rewrite Hh; auto|auto].
    - intros Hp i Hi. rewrite Hh. apply Hsub. apply (c_pend Hc t Hp i Hi).
  Qed.

  (** first acquisition: compare-exchange 0 -> 1 succeeded *)
  Lemma Inv_lock_take g a tr t l :
    Inv g a tr -> lk_ok l -> mic a t = MNone -> rspin g l = 0 ->
    Inv (set_rspin g (updl (rspin g) l 1)) (setv a t (vlock g (a_view a t) (l :: held a t) (MTaken l)))
        (tr ++ Conc.tag t [EvAcc KCas (o_rspin l) true]).
  Proof.
    intros [Hc Ha] (tb & i & -> & Htb & Hi) Hm H0. set (l := (0, tb, i)) in *.
    pose proof (spin0_free g a l Hc H0) as Hfree.
    destruct (keep_claims g a t (vlock g (a_view a t) (l :: held a t) (MTaken l)) (l :: held a t) Hc eq_refl ltac:(intros; now right)) as [Kf Kp].
    split; [|eapply Abs_lock; [exact Ha|reflexivity|reflexivity|reflexivity|reflexivity]].
    apply (Core_lock cf g _ a t _ Hc); cbn [rspin rown mask tabs set_rspin v_held v_mic v_mask v_reg v_fly v_pend vlock]; auto.
    - intros l' [<-|Hin].
      + rewrite updl_same, cnt_cons_same. split; [|intros t0 _; apply Hfree].
        assert (cnt (held a t) l = 0) by (apply (count_occ_not_In lk_dec); apply Hfree). lia.
      + assert (l' <> l) by (intros ->; eapply Hfree; eauto). rewrite updl_other, cnt_cons_other by auto.
        split; [apply (c_spin Hc t l' Hin)|]. intros t0 Hne H'. apply Hne. eapply (c_excl Hc); eauto.
    - intros l' Hn. destruct (lk_dec l' l) as [->|E]; [left; now left|]. rewrite updl_other in Hn by exact E.
      destruct (c_spin0 Hc l' Hn) as (t0 & Hin). destruct (Nat.eq_dec t0 t) as [->|Hne]; [left; now right|right; eauto].
    - intros l' t0 Hne Hin. assert (l' <> l) by (intros ->; eapply Hfree; eauto). now rewrite updl_other.
    - intros l' Hoth. destruct (c_rown Hc l') as [E|(t1 & E1 & E2 & E3 & E4)]; [now left|].
      destruct (Nat.eq_dec t1 t) as [->|Hne]; [|exfalso; eapply Hoth; eauto].
      right. split; auto. split; [now right|]. assert (l' <> l) by (intros ->; eapply Hfree; eauto). split; congruence.
    - intros l' [<-|Hin] M1 M2; [congruence|]. apply (c_rown2 Hc t l' Hin); rewrite Hm; discriminate.
    - intros l' [E|E]; inversion E; subst. rewrite cnt_cons_same.
      assert (cnt (held a t) l = 0) by (apply (count_occ_not_In lk_dec); apply Hfree). lia.
    - intros gg tb' i' [E|Hin]; [inversion E; subst; auto|]. eapply (c_range Hc); eauto.
  Qed.

  (** m_OwnerId.store( me ) *)
  Lemma Inv_lock_own g a tr t l (post : post_t) :
    Inv g a tr -> mic a t = MTaken l ->
    Inv (set_rown g (updl (rown g) l (S t))) (setv a t (vlock g (a_view a t) (held a t) MNone))
        (tr ++ Conc.tag t [EvAcc KSt (o_rown l) true]).
  Proof.
    intros [Hc Ha] Hm.
    assert (Hc1 : cnt (held a t) l = 1) by (apply (c_mic Hc); now left).
    assert (Hin : In l (held a t)) by (apply in_cnt; lia).
    assert (Hoth : forall t0, t0 <> t -> ~ In l (held a t0)) by (intros t0 Hne H'; apply Hne; eapply (c_excl Hc); eauto).
    destruct (keep_claims g a t (vlock g (a_view a t) (held a t) MNone) (held a t) Hc eq_refl ltac:(auto)) as [Kf Kp].
    split; [|eapply Abs_lock; [exact Ha|reflexivity|reflexivity|reflexivity|reflexivity]].
    apply (Core_lock cf g _ a t _ Hc); cbn [rspin rown mask tabs set_rown v_held v_mic v_mask v_reg v_fly v_pend vlock]; auto.
    - intros l' Hin'. split; [apply (c_spin Hc t l' Hin')|]. intros t0 Hne H'. apply Hne. eapply (c_excl Hc); eauto.
    - intros l' Hn. destruct (c_spin0 Hc l' Hn) as (t0 & Hin0). destruct (Nat.eq_dec t0 t) as [->|Hne]; [now left|right; eauto].
    - intros l' t0 Hne Hin0. assert (l' <> l) by (intros ->; eapply Hoth; eauto). now rewrite updl_other.
    - intros l' Hoth'. destruct (lk_dec l' l) as [->|E].
      + rewrite updl_same. right. repeat split; auto; discriminate.
      + rewrite updl_other by exact E. destruct (c_rown Hc l') as [E0|(t1 & E1 & E2 & E3 & E4)]; [now left|].
        destruct (Nat.eq_dec t1 t) as [->|Hne]; [|exfalso; eapply Hoth'; eauto]. right. repeat split; auto; discriminate.
    - intros l' Hin' _ _. destruct (lk_dec l' l) as [->|E]; [now rewrite updl_same|]. rewrite updl_other by exact E.
      apply (c_rown2 Hc t l' Hin'); rewrite Hm; congruence.
    - intros l' [E|E]; discriminate.
    - intros gg tb i. apply (c_range Hc).
  Qed.

  (** nested acquisition: m_spin.fetch_add( 1 ) *)
  Lemma Inv_lock_again g a tr t l :
    Inv g a tr -> mic a t = MNone -> In l (held a t) ->
    Inv (set_rspin g (updl (rspin g) l (S (rspin g l)))) (setv a t (vlock g (a_view a t) (l :: held a t) MNone))
        (tr ++ Conc.tag t [EvAcc KFaa (o_rspin l) true]).
  Proof.
    intros [Hc Ha] Hm Hin.
    assert (Hoth : forall t0, t0 <> t -> ~ In l (held a t0)) by (intros t0 Hne H'; apply Hne; eapply (c_excl Hc); eauto).
    destruct (keep_claims g a t (vlock g (a_view a t) (l :: held a t) MNone) (l :: held a t) Hc eq_refl ltac:(intros; now right)) as [Kf Kp].
    split; [|eapply Abs_lock; [exact Ha|reflexivity|reflexivity|reflexivity|reflexivity]].
    apply (Core_lock cf g _ a t _ Hc); cbn [rspin rown mask tabs set_rspin v_held v_mic v_mask v_reg v_fly v_pend vlock]; auto.
    - intros l' Hin'. destruct (lk_dec l' l) as [->|E].
      + rewrite updl_same, cnt_cons_same, (c_spin Hc t l Hin). split; auto.
      + rewrite updl_other, cnt_cons_other by auto. destruct Hin' as [E'|Hin']; [congruence|].
        split; [apply (c_spin Hc t l' Hin')|]. intros t0 Hne H'. apply Hne. eapply (c_excl Hc); eauto.
    - intros l' Hn. destruct (lk_dec l' l) as [->|E]; [left; now left|]. rewrite updl_other in Hn by exact E.
      destruct (c_spin0 Hc l' Hn) as (t0 & Hin0). destruct (Nat.eq_dec t0 t) as [->|Hne]; [left; now right|right; eauto].
    - intros l' t0 Hne Hin0. assert (l' <> l) by (intros ->; eapply Hoth; eauto). now rewrite updl_other.
    - intros l' Hoth'. destruct (c_rown Hc l') as [E|(t1 & E1 & E2 & E3 & E4)]; [now left|].
      destruct (Nat.eq_dec t1 t) as [->|Hne]; [|exfalso; eapply Hoth'; eauto]. right. repeat split; auto; try discriminate. now right.
    - intros l' Hin' _ _. assert (In l' (held a t)) by (destruct Hin' as [<-|H']; auto).
      apply (c_rown2 Hc t l'); auto; rewrite Hm; discriminate.
    - intros l' [E|E]; discriminate.
    - intros gg tb i [E|Hin']; [|eapply (c_range Hc); eauto]. apply (c_range Hc t gg tb i). rewrite <- E. exact Hin.
  Qed.


  (** monotonicity of the claims when the set of locks shrinks *)
  Lemma auth_mono (v v' : tview) : (forall l, In l (v_held v') -> In l (v_held v)) -> forall tb b, auth v' tb b -> auth v tb b.
  Proof.
    intros Hsub tb b [(i & Hi) H]. split; [exists i; auto|]. destruct H as [H|H]; [left; auto|right]. intros j Hj. auto.
  Qed.

  Lemma release_claims g a t (H' : list lk) m' :
    Core g a -> (forall l, In l H' -> In l (held a t)) ->
    (CuckooConcInv.has0 (vrel (a_view a t) H' m') -> v_mask (vrel (a_view a t) H' m') = mask g) /\
    (forall tb b, tb < 2 -> auth (vrel (a_view a t) H' m') tb b -> v_reg (vrel (a_view a t) H' m') tb b = T g tb b).
  Proof.
    intros Hc Hsub. split.
    - intros (i & Hi). cbn [vrel v_mask]. symmetry. apply (c_mask Hc). exists i. apply Hsub. exact Hi.
    - intros tb b Htb Ha. cbn [vrel v_reg]. symmetry. apply (c_reg Hc t tb b Htb). eapply auth_mono; [|exact Ha]. exact Hsub.
  Qed.

  (** unlock of a nested acquisition: m_spin.store( n - 1 ) *)
  Lemma Inv_unlock_dec g a tr t l :
    Inv g a tr -> mic a t = MNone -> 1 < cnt (held a t) l ->
    Inv (set_rspin g (updl (rspin g) l (cnt (held a t) l - 1))) (setv a t (vrel (a_view a t) (rem1 l (held a t)) MNone))
        (tr ++ Conc.tag t [EvAcc KSt (o_rspin l) true]).
  Proof.
    intros [Hc Ha] Hm Hn.
    assert (Hin : In l (held a t)) by (apply in_cnt; lia).
    assert (Hoth : forall t0, t0 <> t -> ~ In l (held a t0)) by (intros t0 Hne H'; apply Hne; eapply (c_excl Hc); eauto).
    assert (Hsub : forall l', In l' (rem1 l (held a t)) -> In l' (held a t)) by (intros l' H'; apply in_rem1 in H'; destruct H' as [[_ H']|[-> _]]; auto).
    assert (Hsup : forall l', In l' (held a t) -> In l' (rem1 l (held a t))).
    { intros l' H'. apply in_rem1. destruct (lk_dec l' l) as [->|E]; [right; split; auto|left; auto]. }
    destruct (release_claims g a t (rem1 l (held a t)) MNone Hc Hsub) as [Km Kr].
    destruct (keep_claims g a t (vrel (a_view a t) (rem1 l (held a t)) MNone) (rem1 l (held a t)) Hc eq_refl Hsup) as [Kf Kp].
    split; [|eapply Abs_lock; [exact Ha|reflexivity|reflexivity|reflexivity|reflexivity]].
    apply (Core_lock cf g _ a t _ Hc); cbn [rspin rown mask tabs set_rspin v_held v_mic v_mask v_reg v_fly v_pend vrel]; auto.
    - intros l' Hin'. apply Hsub in Hin'. destruct (lk_dec l' l) as [->|E].
      + rewrite updl_same, cnt_rem1_same. split; auto.
      + rewrite updl_other, cnt_rem1_other by auto. split; [apply (c_spin Hc t l' Hin')|].
        intros t0 Hne H'. apply Hne. eapply (c_excl Hc); eauto.
    - intros l' Hne0. destruct (lk_dec l' l) as [->|E]; [left; auto|]. rewrite updl_other in Hne0 by exact E.
      destruct (c_spin0 Hc l' Hne0) as (t0 & Hin0). destruct (Nat.eq_dec t0 t) as [->|Hne]; [left; auto|right; eauto].
    - intros l' t0 Hne Hin0. assert (l' <> l) by (intros ->; eapply Hoth; eauto). now rewrite updl_other.
    - intros l' Hoth'. destruct (c_rown Hc l') as [E|(t1 & E1 & E2 & E3 & E4)]; [now left|].
      destruct (Nat.eq_dec t1 t) as [->|Hne]; [|exfalso; eapply Hoth'; eauto]. right. repeat split; auto; discriminate.
    - intros l' Hin' _ _. apply (c_rown2 Hc t l'); auto; rewrite Hm; discriminate.
    - intros l' [E|E]; discriminate.
    - intros gg tb i Hin'. eapply (c_range Hc); eauto.
  Qed.

  (** last unlock, first half: m_OwnerId.store( 0 ) *)
  Lemma Inv_unlock_disown g a tr t l :
    Inv g a tr -> mic a t = MNone -> cnt (held a t) l = 1 ->
    Inv (set_rown g (updl (rown g) l 0)) (setv a t (vrel (a_view a t) (held a t) (MRel l)))
        (tr ++ Conc.tag t [EvAcc KSt (o_rown l) true]).
  Proof.
    intros [Hc Ha] Hm Hn.
    assert (Hin : In l (held a t)) by (apply in_cnt; lia).
    assert (Hoth : forall t0, t0 <> t -> ~ In l (held a t0)) by (intros t0 Hne H'; apply Hne; eapply (c_excl Hc); eauto).
    destruct (release_claims g a t (held a t) (MRel l) Hc ltac:(auto)) as [Km Kr].
    destruct (keep_claims g a t (vrel (a_view a t) (held a t) (MRel l)) (held a t) Hc eq_refl ltac:(auto)) as [Kf Kp].
    split; [|eapply Abs_lock; [exact Ha|reflexivity|reflexivity|reflexivity|reflexivity]].
    apply (Core_lock cf g _ a t _ Hc); cbn [rspin rown mask tabs set_rown v_held v_mic v_mask v_reg v_fly v_pend vrel]; auto.
    - intros l' Hin'. split; [apply (c_spin Hc t l' Hin')|]. intros t0 Hne H'. apply Hne. eapply (c_excl Hc); eauto.
    - intros l' Hne0. destruct (c_spin0 Hc l' Hne0) as (t0 & Hin0). destruct (Nat.eq_dec t0 t) as [->|Hne]; [now left|right; eauto].
    - intros l' t0 Hne Hin0. assert (l' <> l) by (intros ->; eapply Hoth; eauto). now rewrite updl_other.
    - intros l' Hoth'. destruct (lk_dec l' l) as [->|E]; [rewrite updl_same; now left|]. rewrite updl_other by exact E.
      destruct (c_rown Hc l') as [E0|(t1 & E1 & E2 & E3 & E4)]; [now left|].
      destruct (Nat.eq_dec t1 t) as [->|Hne]; [|exfalso; eapply Hoth'; eauto]. right. repeat split; auto; congruence.
    - intros l' Hin' M1 M2. assert (l' <> l) by congruence. rewrite updl_other by auto.
      apply (c_rown2 Hc t l'); auto; rewrite Hm; discriminate.
    - intros l' [E|E]; inversion E; subst. exact Hn.
    - intros gg tb i. apply (c_range Hc).
  Qed.

  (** last unlock, second half: m_spin.store( 0 ) *)
  Lemma Inv_unlock_free g a tr t l :
    Inv g a tr -> mic a t = MRel l ->
    (forall x, In x (fly a t) -> l <> (0, 0, h0 cf x mod L) /\ l <> (0, 1, h1 cf x mod L) /\
                                 exists i, (0, 0, i) <> l /\ In (0, 0, i) (held a t)) ->
    (pend a t <> [] -> forall i, l <> (0, 0, i)) ->
    Inv (set_rspin g (updl (rspin g) l 0)) (setv a t (vrel (a_view a t) (rem1 l (held a t)) MNone))
        (tr ++ Conc.tag t [EvAcc KSt (o_rspin l) true]).
  Proof.
    intros [Hc Ha] Hm Hfl Hpe.
    assert (Hn : cnt (held a t) l = 1) by (apply (c_mic Hc); now right).
    assert (Hin : In l (held a t)) by (apply in_cnt; lia).
    assert (Hoth : forall t0, t0 <> t -> ~ In l (held a t0)) by (intros t0 Hne H'; apply Hne; eapply (c_excl Hc); eauto).
    assert (Hsub : forall l', In l' (rem1 l (held a t)) -> In l' (held a t)) by (intros l' H'; apply in_rem1 in H'; destruct H' as [[_ H']|[-> _]]; auto).
    assert (Hgone : ~ In l (rem1 l (held a t))) by (intros H'; apply in_rem1 in H'; destruct H' as [[H' _]|[_ H']]; [congruence|lia]).
    assert (Hsup : forall l', l' <> l -> In l' (held a t) -> In l' (rem1 l (held a t))) by (intros l' E H'; apply in_rem1; left; auto).
    destruct (release_claims g a t (rem1 l (held a t)) MNone Hc Hsub) as [Km Kr].
    split; [|eapply Abs_lock; [exact Ha|reflexivity|reflexivity|reflexivity|reflexivity]].
    apply (Core_lock cf g _ a t _ Hc); cbn [rspin rown mask tabs set_rspin v_held v_mic v_mask v_reg v_fly v_pend vrel]; auto.
    - intros l' Hin'. assert (l' <> l) by (intros ->; contradiction). apply Hsub in Hin'.
      rewrite updl_other, cnt_rem1_other by auto. split; [apply (c_spin Hc t l' Hin')|].
      intros t0 Hne H'. apply Hne. eapply (c_excl Hc); eauto.
    - intros l' Hne0. destruct (lk_dec l' l) as [->|E]; [rewrite updl_same in Hne0; congruence|]. rewrite updl_other in Hne0 by exact E.
      destruct (c_spin0 Hc l' Hne0) as (t0 & Hin0). destruct (Nat.eq_dec t0 t) as [->|Hne]; [left; auto|right; eauto].
    - intros l' t0 Hne Hin0. assert (l' <> l) by (intros ->; eapply Hoth; eauto). now rewrite updl_other.
    - intros l' Hoth'. destruct (c_rown Hc l') as [E|(t1 & E1 & E2 & E3 & E4)]; [now left|].
      destruct (Nat.eq_dec t1 t) as [->|Hne]; [|exfalso; eapply Hoth'; eauto].
      assert (l' <> l) by (intros ->; rewrite Hm in E4; congruence). right. repeat split; auto; discriminate.
    - intros l' Hin' _ _. assert (l' <> l) by (intros ->; contradiction). apply Hsub in Hin'.
      apply (c_rown2 Hc t l'); auto; rewrite Hm; congruence.
    - intros l' [E|E]; discriminate.
    - intros gg tb i Hin'. eapply (c_range Hc); eauto.
    - intros x Hx. destruct (c_fly Hc t x Hx) as (_ & A1 & A2 & _). destruct (Hfl x Hx) as (N1 & N2 & i & N3 & N4).
      split; [exists i; apply Hsup; auto|]. split; apply Hsup; auto.
    - intros Hp i Hi. apply Hsup; [intros E; eapply Hpe; eauto|]. apply (c_pend Hc t Hp i Hi).
  Qed.


  (** *** specifications of lock / try_lock / unlock *)
  Lemma rown_me_iff g a t l : Core g a -> mic a t = MNone -> (rown g l = S t <-> In l (held a t)).
  Proof.
    intros Hc Hm. split.
    - intros E. destruct (c_rown Hc l) as [E0|(t1 & E1 & E2 & _)]; [lia|]. assert (t1 = t) by lia. now subst.
    - intros Hin. apply (c_rown2 Hc t l Hin); rewrite Hm; discriminate.
  Qed.

  Definition acquired (l : lk) (v v' : tview) : Prop :=
    v_op v' = v_op v /\ v_held v' = l :: v_held v /\ v_mic v' = MNone /\ v_fly v' = v_fly v /\ v_pend v' = v_pend v.

  Lemma frame_trans a a1 a2 t : Conc.frame view t a a1 -> Conc.frame view t a1 a2 -> Conc.frame view t a a2.
  Proof. intros H1 H2 t' Hne. rewrite (H2 t' Hne). apply H1; exact Hne. Qed.

  (** what [v] (a view of thread t before a locking step) knows about a state *)
  Definition knows (v : tview) (g : G) : Prop :=
    (has0 v -> mask g = v_mask v) /\ (forall tb b, tb < 2 -> auth v tb b -> T g tb b = v_reg v tb b).

  Lemma knows_inv g a tr t : Inv g a tr -> knows (a_view a t) g.
  Proof. intros [Hc _]. split; [apply (c_mask Hc)|apply (c_reg Hc)]. Qed.

  (** what the caller does with the lock just obtained: [post] on the state, a new view, then [Q] *)
  Definition post_ok (t : nat) (l : lk) (post : post_t) (v : tview) (Q : tview -> Prop) : Prop :=
    forall g a tr, Inv g a tr -> acquired l v (a_view a t) -> v_mask (a_view a t) = mask g ->
      (forall tb b, v_reg (a_view a t) tb b = T g tb b) -> knows v g ->
      exists a', Inv (post g) a' tr /\ Conc.frame view t a a' /\ Q (a_view a' t).

  Lemma safe_faa t l post (Q : tview -> Prop) v :
    v_mic v = MNone -> In l (v_held v) -> post_ok t l post v Q ->
    safe t (Act (a_rspin_faa l post) (fun _ => oret tt)) v (optQ (fun _ => Q)).
  Proof.
    intros Hm Hin Hpost. cbn [Conc.safe]. intros g a tr Hi Hv. unfold view in Hv. cbn [a_rspin_faa fst snd].
    assert (Hma : mic a t = MNone) by (unfold mic; now rewrite Hv).
    assert (Hia : In l (held a t)) by (unfold held; now rewrite Hv).
    pose proof (Inv_lock_again g a tr t l Hi Hma Hia) as H1.
    pose proof (knows_inv g a tr t Hi) as Hk. rewrite Hv in Hk.
    set (a1 := setv a t (vlock g (a_view a t) (l :: held a t) MNone)) in *.
    destruct (Hpost _ a1 _ H1) as (a2 & H2 & Hf & HQ).
    - unfold a1. rewrite setv_same. unfold held. rewrite Hv. repeat split.
    - unfold a1. now rewrite setv_same.
    - intros tb b. unfold a1. now rewrite setv_same.
    - exact Hk.
    - exists a2. split; [exact H2|]. split; [eapply frame_trans; [apply frame_setv|exact Hf]|].
      apply safe_oret. exact HQ.
  Qed.

  Lemma has0_cons (v : tview) l m r mi : has0 v -> has0 (mkTV (v_op v) (l :: v_held v) mi m r (v_fly v) (v_pend v)).
  Proof. intros (i & Hi). exists i. now right. Qed.
  Lemma auth_cons (v : tview) l m r mi tb b : auth v tb b -> auth (mkTV (v_op v) (l :: v_held v) mi m r (v_fly v) (v_pend v)) tb b.
  Proof.
    intros [(i & Hi) H]. split; [exists i; now right|]. destruct H as [H|H]; [left; now right|right; intros j Hj; right; auto].
  Qed.

  Lemma safe_own t l post (Q : tview -> Prop) v m r :
    (has0 v -> m = v_mask v) -> (forall tb b, tb < 2 -> auth v tb b -> r tb b = v_reg v tb b) ->
    post_ok t l post v Q ->
    safe t (Act (a_rown_st l (S t) post) (fun _ => oret tt))
         (mkTV (v_op v) (l :: v_held v) (MTaken l) m r (v_fly v) (v_pend v)) (optQ (fun _ => Q)).
  Proof.
    intros Hm' Hr' Hpost. cbn [Conc.safe]. intros g a tr Hi Hv. unfold view in Hv. cbn [a_rown_st fst snd].
    assert (Hma : mic a t = MTaken l) by (unfold mic; now rewrite Hv).
    pose proof (Inv_lock_own g a tr t l post Hi Hma) as H1.
    pose proof (knows_inv g a tr t Hi) as [Hk1 Hk2]. rewrite Hv in Hk1, Hk2.
    set (a1 := setv a t (vlock g (a_view a t) (held a t) MNone)) in *.
    destruct (Hpost _ a1 _ H1) as (a2 & H2 & Hf & HQ).
    - unfold a1. rewrite setv_same. unfold held. rewrite Hv. repeat split.
    - unfold a1. now rewrite setv_same.
    - intros tb b. unfold a1. now rewrite setv_same.
    - split.
      + intros H0. cbn [mask set_rown]. rewrite <- (Hm' H0). apply (Hk1 (has0_cons v l m r (MTaken l) H0)).
      + intros tb b Htb Ha. unfold CuckooConcInv.T. cbn [tabs set_rown]. rewrite <- (Hr' tb b Htb Ha).
        apply (Hk2 tb b Htb (auth_cons v l m r (MTaken l) tb b Ha)).
    - exists a2. split; [exact H2|]. split; [eapply frame_trans; [apply frame_setv|exact Hf]|].
      apply safe_oret. exact HQ.
  Qed.

  Lemma safe_r_acq t l (Q : tview -> Prop) v : lk_ok l -> v_mic v = MNone ->
    (forall m r, (has0 v -> m = v_mask v) -> (forall tb b, tb < 2 -> auth v tb b -> r tb b = v_reg v tb b) ->
       Q (mkTV (v_op v) (l :: v_held v) (MTaken l) m r (v_fly v) (v_pend v))) ->
    forall fuel, safe t (r_acq_outer fuel l) v (optQ (fun _ => Q)) /\ safe t (r_acq_inner fuel l) v (optQ (fun _ => Q)).
  Proof.
    intros Hok Hm HQ fuel. induction fuel as [|f IH]; split; cbn [r_acq_outer r_acq_inner]; try exact I.
    - cbn [Conc.safe]. intros g a tr Hi Hv. unfold view in Hv. unfold a_rspin_cas.
      destruct (Nat.eqb_spec (rspin g l) 0) as [E|E]; cbn [fst snd].
      + eexists. split; [apply (Inv_lock_take g a tr t l Hi Hok); [unfold mic; now rewrite Hv|exact E]|]. split; [apply frame_setv|].
        unfold view. rewrite setv_same. cbn [vn vnat Nat.eqb]. apply safe_oret. unfold vlock, held. rewrite Hv.
        pose proof (knows_inv g a tr t Hi) as [Hk1 Hk2]. rewrite Hv in Hk1, Hk2. apply HQ; auto.
      + exists a. split; [eapply Inv_acc; eauto|]. split; [apply frame_refl|].
        unfold view. rewrite Hv. cbn [vn vnat Nat.eqb]. apply IH.
    - apply safe_silent; [silent|]. intros g a tr _ _. cbn [a_rspin_ld fst snd vn vnat].
      destruct (Nat.eqb (rspin g l) 0); apply IH.
  Qed.

  Lemma safe_r_lock_post t l (post : post_t) (Q : tview -> Prop) fuel v :
    lk_ok l -> v_mic v = MNone -> post_ok t l post v Q ->
    safe t (r_lock fuel (S t) l post) v (optQ (fun _ => Q)).
  Proof.
    intros Hok Hm Hpost. unfold r_lock. cbn [Conc.safe]. intros g a tr Hi Hv. unfold view in Hv.
    cbn [a_rown_ld fst snd]. exists a.
    split; [eapply Inv_acc; eauto|]. split; [apply frame_refl|]. unfold view. rewrite Hv. cbn [vn vnat].
    assert (Hma : mic a t = MNone) by (unfold mic; now rewrite Hv).
    pose proof (rown_me_iff g a t l (proj1 Hi) Hma) as Hiff. unfold held in Hiff. rewrite Hv in Hiff.
    destruct (Nat.eqb_spec (rown g l) (S t)) as [E|E].
    - apply safe_faa; auto. now apply Hiff.
    - apply safe_bindo. refine (proj1 (safe_r_acq t l _ v Hok Hm _ fuel)). intros m r Hm' Hr'. apply safe_own; auto.
  Qed.

  (** the usual case: nothing else is done in the locking step.  The new view has a fresh snapshot; what the old
      view knew stays known *)
  Definition extends (v v' : tview) : Prop :=
    (has0 v -> v_mask v' = v_mask v) /\ (forall tb b, tb < 2 -> auth v tb b -> v_reg v' tb b = v_reg v tb b).

  Lemma safe_r_lock t l (Q : tview -> Prop) fuel v :
    lk_ok l -> v_mic v = MNone ->
    (forall v', acquired l v v' -> extends v v' -> Q v') ->
    safe t (r_lock fuel (S t) l nopost) v (optQ (fun _ => Q)).
  Proof.
    intros Hok Hm HQ. apply safe_r_lock_post; auto.
    intros g a tr Hi Hacq Hmk Hrg [Hk1 Hk2]. exists a. split; [exact Hi|]. split; [apply frame_refl|].
    apply HQ; auto. split.
    - intros H0. rewrite Hmk. auto.
    - intros tb b Htb Hau. rewrite Hrg. auto.
  Qed.


  Lemma safe_r_try_lock t l (Q : bool -> tview -> Prop) v :
    lk_ok l -> v_mic v = MNone ->
    (forall v', acquired l v v' -> extends v v' -> Q true v') -> Q false v ->
    safe t (r_try_lock (S t) l) v Q.
  Proof.
    intros Hok Hm HQ1 HQ0. unfold r_try_lock. cbn [Conc.safe]. intros g a tr Hi Hv. unfold view in Hv.
    cbn [a_rown_ld fst snd]. exists a.
    split; [eapply Inv_acc; eauto|]. split; [apply frame_refl|]. unfold view. rewrite Hv. cbn [vn vnat].
    assert (Hma : mic a t = MNone) by (unfold mic; now rewrite Hv).
    pose proof (rown_me_iff g a t l (proj1 Hi) Hma) as Hiff. unfold held in Hiff. rewrite Hv in Hiff.
    assert (Hpost : post_ok t l nopost v (Q true)).
    { intros g1 a1 tr1 Hi1 Hacq Hmk Hrg [Hk1 Hk2]. exists a1. split; [exact Hi1|]. split; [apply frame_refl|].
      apply HQ1; auto. split; [intros H0; rewrite Hmk; auto|intros tb b Htb Hau; rewrite Hrg; auto]. }
    destruct (Nat.eqb_spec (rown g l) (S t)) as [E|E].
    - assert (K := safe_faa t l nopost (Q true) v Hm (proj1 Hiff E) Hpost).
      cbn [Conc.safe] in K |- *. intros g1 a1 tr1 Hi1 Hv1. destruct (K g1 a1 tr1 Hi1 Hv1) as (a2 & K1 & K2 & K3).
      exists a2. split; auto.
    - cbn [Conc.safe]. clear g a tr Hi Hv Hma Hiff E. intros g a tr Hi Hv. unfold view in Hv. unfold a_rspin_cas.
      destruct (Nat.eqb_spec (rspin g l) 0) as [E|E]; cbn [fst snd].
      + eexists. split; [apply (Inv_lock_take g a tr t l Hi Hok); [unfold mic; now rewrite Hv|exact E]|]. split; [apply frame_setv|].
        unfold view. rewrite setv_same. cbn [vn vnat Nat.eqb]. unfold vlock, held. rewrite Hv.
        pose proof (knows_inv g a tr t Hi) as [Hk1 Hk2]. rewrite Hv in Hk1, Hk2.
        assert (K := safe_own t l nopost (Q true) v (mask g) (fun tb b => T g tb b) ltac:(auto) ltac:(auto) Hpost).
        cbn [Conc.safe] in K |- *. intros g1 a1 tr1 Hi1 Hv1. destruct (K g1 a1 tr1 Hi1 Hv1) as (a2 & K1 & K2 & K3).
        exists a2. split; auto.
      + exists a. split; [eapply Inv_acc; eauto|]. split; [apply frame_refl|].
        unfold view. rewrite Hv. cbn [vn vnat Nat.eqb]. exact HQ0.
  Qed.

  (** unlock() *)
  Lemma safe_r_unlock t l (Q : tview -> Prop) v :
    v_mic v = MNone -> In l (v_held v) ->
    (cnt (v_held v) l = 1 ->
       (forall x, In x (v_fly v) -> l <> (0, 0, h0 cf x mod L) /\ l <> (0, 1, h1 cf x mod L) /\ exists i, (0, 0, i) <> l /\ In (0, 0, i) (v_held v)) /\
       (v_pend v <> [] -> forall i, l <> (0, 0, i))) ->
    Q (vrel v (rem1 l (v_held v)) MNone) ->
    safe t (r_unlock l) v (fun _ => Q).
  Proof.
    intros Hm Hin Hcond HQ. unfold r_unlock. cbn [Conc.safe]. intros g a tr Hi Hv. unfold view in Hv.
    cbn [a_rspin_ld fst snd]. exists a.
    split; [eapply Inv_acc; eauto|]. split; [apply frame_refl|]. unfold view. rewrite Hv. cbn [vn vnat].
    assert (Hs : rspin g l = cnt (v_held v) l).
    { rewrite (c_spin (proj1 Hi) t l); unfold held; rewrite Hv; auto. }
    rewrite Hs. assert (Hpos : 0 < cnt (v_held v) l) by (now apply in_cnt).
    destruct (Nat.ltb_spec 1 (cnt (v_held v) l)) as [Hgt|Hle].
    - cbn [Conc.safe]. clear g a tr Hi Hv Hs. intros g a tr Hi Hv. unfold view in Hv. cbn [a_rspin_st fst snd].
      eexists. split; [|split; [apply frame_setv|]].
      + replace (cnt (v_held v) l - 1) with (cnt (held a t) l - 1) by (unfold held; now rewrite Hv).
        apply (Inv_unlock_dec g a tr t l Hi); [unfold mic; now rewrite Hv|unfold held; now rewrite Hv].
      + unfold view. rewrite setv_same. unfold held. rewrite Hv. exact HQ.
    - assert (H1 : cnt (v_held v) l = 1) by lia. destruct (Hcond H1) as [Hfl Hpe].
      cbn [Conc.safe]. clear g a tr Hi Hv Hs. intros g a tr Hi Hv. unfold view in Hv. cbn [a_rown_st fst snd].
      eexists. split; [apply (Inv_unlock_disown g a tr t l Hi); [unfold mic; now rewrite Hv|unfold held; now rewrite Hv]|]. split; [apply frame_setv|].
      unfold view. rewrite setv_same. unfold held. rewrite Hv. cbn [Conc.safe]. clear g a tr Hi Hv.
      intros g a tr Hi Hv. unfold view in Hv. cbn [a_rspin_st fst snd].
      eexists. split; [apply (Inv_unlock_free g a tr t l Hi); [unfold mic; now rewrite Hv|unfold fly, held; rewrite Hv; exact Hfl|unfold pend; rewrite Hv; exact Hpe]|]. split; [apply frame_setv|].
      unfold view. rewrite setv_same. unfold held. rewrite Hv. cbn [vrel v_held v_op v_mask v_reg v_fly v_pend]. exact HQ.
  Qed.


  (** *** inside a critical section: the abstract set and the two probe sets of a key *)
  Definition bk (g : G) (k tb : nat) : nat := hsel (hashes cf k) tb mod S (mask g).
  Definition lookup (g : G) (k : nat) : option item :=
    match kget k (T g 0 (bk g k 0)) with Some x => Some x | None => kget k (T g 1 (bk g k 1)) end.

  (** thread t may access both probe sets of key k and has nothing in flight or pending *)
  Definition in_cs (g : G) (a : Aux) (t k : nat) : Prop :=
    (forall tb, tb < 2 -> auth (a_view a t) tb (bk g k tb)) /\ fly a t = [] /\ pend a t = [].

  Lemma cs_no_other g a t k x : Core g a -> in_cs g a t k -> fst x = k ->
    (forall t0, ~ In x (fly a t0)) /\ (forall t0, ~ In x (pend a t0)).
  Proof.
    intros Hc (Hau & Hf & Hp) Hk. split; intros t0 Hin.
    - destruct (Nat.eq_dec t0 t) as [->|Hne]; [rewrite Hf in Hin; destruct Hin|].
      pose proof (fly_auth cf g a t0 x 0 Hc Hin ltac:(lia)) as Ha0.
      eapply (auth_other_none cf g a t t0 0 (bk g k 0) Hc (Hau 0 ltac:(lia)) Hne).
      unfold bk. rewrite <- Hk. exact Ha0.
    - destruct (Nat.eq_dec t0 t) as [->|Hne]; [rewrite Hp in Hin; destruct Hin|].
      assert (Hp0 : pend a t0 <> []) by (intros E; rewrite E in Hin; destruct Hin).
      pose proof (c_pend Hc t0 Hp0) as Hall. destruct (Hau 0 ltac:(lia)) as [(i & Hi) _].
      apply Hne. eapply (c_excl Hc); [apply Hall; apply (c_range Hc t 0 0 i Hi)|exact Hi].
  Qed.

  Lemma abs_lookup g a t k s : Core g a -> in_cs g a t k -> NoDup (keys s) -> (forall x, In x s <-> allp g a x) ->
    kget k s = lookup g k.
  Proof.
    intros Hc Hcs Hnd Hs. unfold lookup.
    assert (Hin_s : forall tb x, tb < 2 -> In x (T g tb (bk g k tb)) -> In x s).
    { intros tb x Htb Hx. apply Hs. left. eauto. }
    destruct (kget k (T g 0 (bk g k 0))) as [x|] eqn:E0.
    - apply kget_some in E0. destruct E0 as [Hx Hk]. apply kget_unique; auto. apply (Hin_s 0); auto.
    - destruct (kget k (T g 1 (bk g k 1))) as [x|] eqn:E1.
      + apply kget_some in E1. destruct E1 as [Hx Hk]. apply kget_unique; auto. apply (Hin_s 1); auto.
      + apply kget_none. apply khas_false. intros o Hin. apply Hs in Hin.
        destruct Hin as [(tb & b & Htb & Hx)|[(t0 & Hx)|(t0 & Hx)]].
        * pose proof (c_placed Hc tb b (k, o) Htb Hx) as Hb. unfold hx in Hb. cbn [fst] in Hb. fold (bk g k tb) in Hb. subst b.
          destruct tb as [|[|tb]]; [| |lia].
          -- apply kget_none in E0. rewrite khas_false in E0. eapply E0; eauto.
          -- apply kget_none in E1. rewrite khas_false in E1. eapply E1; eauto.
        * eapply (proj1 (cs_no_other g a t k (k, o) Hc Hcs eq_refl)); eauto.
        * eapply (proj2 (cs_no_other g a t k (k, o) Hc Hcs eq_refl)); eauto.
  Qed.

  Lemma lookup_bucket g a k x : Core g a -> lookup g k = Some x ->
    fst x = k /\ exists tb, tb < 2 /\ In x (T g tb (bk g k tb)) /\ forall tb', tb' < 2 -> tb' <> tb -> khas k (T g tb' (bk g k tb')) = false.
  Proof.
    intros Hc. unfold lookup. destruct (kget k (T g 0 (bk g k 0))) as [y|] eqn:E0.
    - intros E. inversion E; subst y. apply kget_some in E0. destruct E0 as [Hx Hk]. split; auto. exists 0. split; [lia|]. split; auto.
      intros tb' H1 H2. assert (tb' = 1) by lia. subst tb'. apply khas_false. intros o Hin.
      eapply (c_cross Hc _ _ x (k, o)); eauto.
    - intros E1. apply kget_some in E1. destruct E1 as [Hx Hk]. split; auto. exists 1. split; [lia|]. split; auto.
      intros tb' H1 H2. assert (tb' = 0) by lia. subst tb'. now apply kget_none.
  Qed.


  (** *** linearization points *)
  Definition with_op (v : tview) (o : status ISet) : tview :=
    mkTV o (v_held v) (v_mic v) (v_mask v) (v_reg v) (v_fly v) (v_pend v).

  Lemma st_setv (st : nat -> status ISet) a t v' x :
    (forall t0, st t0 = v_op (a_view a t0)) -> v_op v' = x ->
    forall t0, Lin.upd st t x t0 = v_op (a_view (setv a t v') t0).
  Proof.
    intros H Hx t0. unfold Lin.upd. destruct (Nat.eqb_spec t0 t) as [->|Hn].
    - now rewrite setv_same.
    - rewrite setv_other by exact Hn. apply H.
  Qed.

  (** only the status of t's operation changes in the views *)
  Lemma Core_with_op g a t o : Core g a -> Core g (setv a t (with_op (a_view a t) o)).
  Proof.
    intros Hc. apply (Core_lock cf g g a t _ Hc); cbn [with_op v_held v_mic v_mask v_reg v_fly v_pend]; auto.
    - intros l Hin. split; [apply (c_spin Hc t l Hin)|]. intros t0 Hne H'. apply Hne. eapply (c_excl Hc); eauto.
    - intros l Hn. destruct (c_spin0 Hc l Hn) as (t0 & Hin). destruct (Nat.eq_dec t0 t) as [->|Hne]; [now left|right; eauto].
    - intros l Hoth. destruct (c_rown Hc l) as [E|(t1 & E1 & E2 & E3 & E4)]; [now left|].
      destruct (Nat.eq_dec t1 t) as [->|Hne]; [|exfalso; eapply Hoth; eauto]. right. auto.
    - intros l. apply (c_rown2 Hc t l).
    - intros l. apply (c_mic Hc t l).
    - intros gg tb i. apply (c_range Hc t gg tb i).
    - intros H. symmetry. now apply (c_mask Hc t).
    - intros tb b Htb H. symmetry. now apply (c_reg Hc t tb b).
    - intros x Hx. destruct (c_fly Hc t x Hx) as (A & B & C & _). auto.
    - apply (c_pend Hc t).
  Qed.

  Lemma allp_with_op g a t o atr : forall x, allp g (seta (setv a t (with_op (a_view a t) o)) atr) x <-> allp g a x.
  Proof.
    intros x. apply allp_ext; auto; intros t0; unfold fly, pend; cbn [a_view seta];
      (destruct (Nat.eq_dec t0 t) as [->|Hne]; [now rewrite setv_same|now rewrite setv_other]).
  Qed.

  (** a linearization point that does not change the set: the result is decided by the lookup of the key *)
  Lemma Inv_lp_read g g' a tr t k (o : iop) (r : res) kk ob ok :
    Inv g a tr -> rspin g' = rspin g -> rown g' = rown g -> mask g' = mask g -> tabs g' = tabs g ->
    v_op (a_view a t) = Pending (o : Op ISet) -> in_cs g a t k ->
    (forall s, kget k s = lookup g k -> istep s o = (s, r)) ->
    Inv g' (seta (setv a t (with_op (a_view a t) (Linearized (o : Op ISet) (r : Res ISet)))) (a_atr a ++ [ALin t]))
        (tr ++ Conc.tag t [EvAcc kk ob ok]).
  Proof.
    intros [Hc Ha] C1 C2 C3 C4 Hop Hcs Hstep. split.
    - apply Core_seta. eapply Core_same; [apply (Core_with_op g a t _ Hc)|auto..].
    - destruct Ha as [Hd|(s & st & H1 & H2 & H3 & H4 & H5)]; [left; now apply dropped_app|right].
      exists s, (Lin.upd st t (Linearized (o : Op ISet) (r : Res ISet))). cbn [a_atr seta a_view].
      pose proof (Hstep s (abs_lookup g a t k s Hc Hcs H4 H5)) as Hst.
      split; [|split; [|split; [|split]]].
      + eapply lp_ext; [exact H1|]. cbn [lp_step]. rewrite H3, Hop. cbn [sstep ISet mkSpec]. rewrite Hst. reflexivity.
      + rewrite erase_app, hist_of_acc. cbn. now rewrite app_nil_r.
      + apply st_setv; auto.
      + exact H4.
      + intros x. rewrite H5. symmetry.
        etransitivity; [|apply (allp_with_op g a t (Linearized (o : Op ISet) (r : Res ISet)) (a_atr a ++ [ALin t]))].
        apply allp_ext; auto. intros. unfold CuckooConcInv.T. now rewrite C4.
  Qed.


  (** *** steps that replace one probe set *)
  Lemma Inv_table g g' a tr t v' atr' kk ob ok :
    Core g a -> Core g' (setv a t v') -> Abs g a tr ->
    (forall s st, lp_run lp_init (a_atr a) = Some (s, st) -> erase (a_atr a) = hist_of tr ->
        (forall t0, st t0 = v_op (a_view a t0)) -> NoDup (keys s) -> (forall x, In x s <-> allp g a x) ->
        exists s' st', lp_run lp_init atr' = Some (s', st') /\ erase atr' = hist_of tr /\
          (forall t0, st' t0 = v_op (a_view (setv a t v') t0)) /\ NoDup (keys s') /\
          forall x, In x s' <-> allp g' (setv a t v') x) ->
    Inv g' (seta (setv a t v') atr') (tr ++ Conc.tag t [EvAcc kk ob ok]).
  Proof.
    intros Hc Hc' Ha Habs. split; [now apply Core_seta|].
    destruct Ha as [Hd|(s & st & H1 & H2 & H3 & H4 & H5)]; [left; now apply dropped_app|right].
    destruct (Habs s st H1 H2 H3 H4 H5) as (s' & st' & K1 & K2 & K3 & K4 & K5).
    exists s', st'. cbn [a_atr seta a_view]. rewrite hist_of_acc. split; [exact K1|]. split; [exact K2|]. split; [exact K3|]. split; [exact K4|].
    intros x. rewrite K5. apply allp_ext; auto.
  Qed.

  (** a move of items between a probe set and the in-flight / pending items of the thread: no linearization point *)
  Lemma Inv_move g g' a tr tr' t v' tb b new :
    Inv g a tr -> Core g' (setv a t v') -> tabs g' = set_bkt (tabs g) tb b new -> tb < 2 -> b < S (mask g) ->
    v_op v' = v_op (a_view a t) -> hist_of tr' = hist_of tr -> (dropped tr -> dropped tr') ->
    (forall x, In x new \/ In x (v_fly v') \/ In x (v_pend v') <-> In x (T g tb b) \/ In x (fly a t) \/ In x (pend a t)) ->
    Inv g' (setv a t v') tr'.
  Proof.
    intros [Hc Ha] Hc' Ct Htb Hb Hop Hh Hdr Hmv. split; [exact Hc'|].
    destruct Ha as [Hd|(s & st & H1 & H2 & H3 & H4 & H5)]; [left; auto|right].
    exists s, st. rewrite Hh. split; auto. split; auto. split.
    - intros t0. rewrite H3. destruct (Nat.eq_dec t0 t) as [->|Hne]; [now rewrite setv_same|now rewrite setv_other].
    - split; auto. intros x. rewrite H5. symmetry. eapply allp_move; eauto.
  Qed.


  (** *** inserting an item into one of its own probe sets (insert, relocation, re-insertion) *)
  Lemma bk_lt g k tb : bk g k tb < S (mask g).
  Proof. unfold bk. apply Nat.mod_upper_bound. lia. Qed.

  Definition with_tab (v : tview) (tb b : nat) (new : list item) (f p : list item) : tview :=
    mkTV (v_op v) (v_held v) (v_mic v) (v_mask v)
         (fun tb' b' => if Nat.eqb tb' tb && Nat.eqb b' b then new else v_reg v tb' b') f p.

  Lemma khas_new_other (new old : list item) x k' :
    (forall y, In y new <-> y = x \/ In y old) -> k' <> fst x -> khas k' new = khas k' old.
  Proof.
    intros Hn Hne. destruct (khas k' old) eqn:E.
    - apply khas_true in E. destruct E as (o & Hin). apply khas_true. exists o. apply Hn. now right.
    - apply khas_false. intros o Hin. apply Hn in Hin. destruct Hin as [E'|Hin].
      + apply Hne. now rewrite <- E'.
      + rewrite khas_false in E. eapply E; eauto.
  Qed.

  (** [v'] is [v] with probe set (tb, b) replaced by [new] and the in-flight / pending items [f], [p] *)
  Definition tab_view (v v' : tview) (tb b : nat) (new f p : list item) : Prop :=
    v_held v' = v_held v /\ v_mic v' = v_mic v /\ v_mask v' = v_mask v /\
    (forall tb' b', v_reg v' tb' b' = if Nat.eqb tb' tb && Nat.eqb b' b then new else v_reg v tb' b') /\
    v_fly v' = f /\ v_pend v' = p.

  Lemma tab_view_with_tab v tb b new f p : tab_view v (with_tab v tb b new f p) tb b new f p.
  Proof. repeat split. Qed.
  Lemma tab_view_with_op v v' tb b new f p o : tab_view v v' tb b new f p -> tab_view v (with_op v' o) tb b new f p.
  Proof. intros H. exact H. Qed.

  Lemma Core_insert g a t v' x tb new f p :
    Core g a -> tb < 2 -> auth (a_view a t) tb (bk g (fst x) tb) -> absent g x ->
    tab_view (a_view a t) v' tb (bk g (fst x) tb) new f p ->
    (forall y, In y new <-> y = x \/ In y (T g tb (bk g (fst x) tb))) -> NoDup (keys new) ->
    (forall y, In y f -> In y (fly a t) /\ fst y <> fst x) -> length f <= 1 ->
    (forall y, In y p -> In y (pend a t) /\ fst y <> fst x) -> NoDup (keys p) -> (p <> [] -> pend a t <> []) ->
    Core (set_tabs g (set_bkt (tabs g) tb (bk g (fst x) tb) new)) (setv a t v').
  Proof.
    intros Hc Htb Hau Hab (V1 & V2 & V3 & V4 & V5 & V6) Hnew Hnd Hf Hf1 Hp Hpn Hpe. set (b := bk g (fst x) tb) in *.
    assert (Hkn : forall k', k' <> fst x -> khas k' new = khas k' (T g tb b)) by (intros; eapply khas_new_other; eauto).
    assert (Hif : forall y tb', fst y <> fst x -> tb' < 2 -> absent g y ->
              khas (fst y) (if Nat.eqb tb' tb && Nat.eqb (hx cf y tb' mod S (mask g)) b then new else T g tb' (hx cf y tb' mod S (mask g))) = false).
    { intros y tb' Hne Htb' Hay. destruct (Nat.eqb_spec tb' tb) as [->|E1]; destruct (Nat.eqb_spec (hx cf y tb mod S (mask g)) b) as [E2|E2]; cbn [andb];
        try (apply Hay; auto). rewrite Hkn by exact Hne. rewrite <- E2. apply Hay; auto. }
    apply (Core_table cf g _ a t v' tb b new Hc); cbn [rspin rown mask tabs set_tabs]; auto.
    - apply bk_lt.
    - intros y Hy. apply Hnew in Hy. destruct Hy as [->|Hy]; [reflexivity|]. apply (c_placed Hc tb b y Htb Hy).
    - intros y z b' Hy Hz. apply Hnew in Hy. destruct Hy as [->|Hy].
      + intros E. assert (Ho : other tb < 2) by (destruct tb as [|[|?]]; cbn; lia).
        pose proof (c_placed Hc (other tb) b' z Ho Hz) as Hb'. specialize (Hab (other tb) Ho).
        unfold hx in Hb'. rewrite <- E in Hb'. unfold hx in Hab. rewrite Hb' in Hab. rewrite khas_false in Hab.
        eapply (Hab (snd z)). rewrite E. destruct z; exact Hz.
      + destruct tb as [|[|tb]]; [| |lia]; cbn [other] in Hz.
        * eapply (c_cross Hc); eauto.
        * intros E. eapply (c_cross Hc b' b z y); eauto.
    - rewrite V5. intros y Hy. destruct (Hf y Hy) as [Hy' Hne]. destruct (c_fly Hc t y Hy') as (A0 & A1 & A2 & A3).
      split; [exact A0|split; [exact A1|split; [exact A2|intros tb' Htb'; apply Hif; auto]]].
    - now rewrite V5.
    - rewrite V6. intros Hne. apply (c_pend Hc t). auto.
    - now rewrite V6.
    - rewrite V6, V5. intros y Hy. destruct (Hp y Hy) as [Hy' Hne]. destruct (c_pend2 Hc t) as [_ B]. destruct (B y Hy') as [B1 B2].
      split; [intros tb' Htb'; apply Hif; auto|]. intros z Hz. destruct (Hf z Hz) as [Hz' _]. auto.
  Qed.


  Lemma lookup_none g k : lookup g k = None -> forall tb, tb < 2 -> khas k (T g tb (bk g k tb)) = false.
  Proof.
    unfold lookup. destruct (kget k (T g 0 (bk g k 0))) eqn:E0; [discriminate|]. intros E1 tb Htb.
    destruct tb as [|[|tb]]; [now apply kget_none|now apply kget_none|lia].
  Qed.

  (** moving [x] from the thread's in-flight / pending items into one of its probe sets *)
  Lemma Inv_insert_move g a tr t v' x tb new f p kk ob ok :
    Inv g a tr -> tb < 2 -> auth (a_view a t) tb (bk g (fst x) tb) -> absent g x ->
    tab_view (a_view a t) v' tb (bk g (fst x) tb) new f p -> v_op v' = v_op (a_view a t) ->
    (forall y, In y new <-> y = x \/ In y (T g tb (bk g (fst x) tb))) -> NoDup (keys new) ->
    (forall y, In y f -> In y (fly a t) /\ fst y <> fst x) -> length f <= 1 ->
    (forall y, In y p -> In y (pend a t) /\ fst y <> fst x) -> NoDup (keys p) -> (p <> [] -> pend a t <> []) ->
    (forall y, y = x \/ In y f \/ In y p <-> In y (fly a t) \/ In y (pend a t)) ->
    Inv (set_tabs g (set_bkt (tabs g) tb (bk g (fst x) tb) new)) (setv a t v') (tr ++ Conc.tag t [EvAcc kk ob ok]).
  Proof.
    intros Hi Htb Hau Hab Hv Hop Hnew Hnd Hf Hf1 Hp Hpn Hpe Hmv. pose proof Hi as [Hc Ha].
    eapply Inv_move; [exact Hi|eapply Core_insert; eauto|reflexivity|exact Htb|apply bk_lt|exact Hop|apply hist_of_acc|apply dropped_app|].
    destruct Hv as (_ & _ & _ & _ & V5 & V6). intros y. rewrite V5, V6, Hnew. specialize (Hmv y). tauto.
  Qed.

  (** the linearization point of a successful insertion: the new item goes into one of its probe sets *)
  Lemma Inv_lp_insert g a tr t v' k tb new (o : iop) (r : res) kk ob ok :
    Inv g a tr -> in_cs g a t k -> tb < 2 -> lookup g k = None ->
    v_op (a_view a t) = Pending (o : Op ISet) -> v_op v' = Linearized (o : Op ISet) (r : Res ISet) ->
    tab_view (a_view a t) v' tb (bk g k tb) new [] [] ->
    (forall s, khas k s = false -> istep s o = ((k, t) :: s, r)) ->
    (forall y, In y new <-> y = (k, t) \/ In y (T g tb (bk g k tb))) -> NoDup (keys new) ->
    Inv (set_tabs g (set_bkt (tabs g) tb (bk g k tb) new)) (seta (setv a t v') (a_atr a ++ [ALin t]))
        (tr ++ Conc.tag t [EvAcc kk ob ok]).
  Proof.
    intros [Hc Ha] Hcs Htb Hlk Hop Hop' Hv Hstep Hnew Hnd. pose proof Hcs as (Hau & Hfl & Hpe).
    assert (Hab : absent g (k, t)) by (intros tb' Htb'; apply (lookup_none g k Hlk tb' Htb')).
    set (g' := set_tabs g (set_bkt (tabs g) tb (bk g k tb) new)).
    assert (Hc1 : Core g' (setv a t v')).
    { apply (Core_insert g a t v' (k, t) tb new [] [] Hc Htb (Hau tb Htb) Hab Hv Hnew Hnd);
        [intros y []|cbn; lia|intros y []|constructor|congruence]. }
    eapply Inv_table; [exact Hc|exact Hc1|exact Ha|].
    intros s st H1 H2 H3 H4 H5.
    assert (Hks : khas k s = false).
    { apply kget_none. rewrite (abs_lookup g a t k s Hc Hcs H4 H5). exact Hlk. }
    exists ((k, t) :: s), (Lin.upd st t (Linearized (o : Op ISet) (r : Res ISet))).
    split; [|split; [|split; [|split]]].
    - eapply lp_ext; [exact H1|]. cbn [lp_step]. rewrite H3, Hop. cbn [sstep ISet mkSpec]. rewrite (Hstep s Hks). reflexivity.
    - rewrite erase_app, H2. cbn. now rewrite app_nil_r.
    - apply st_setv; auto.
    - unfold keys. cbn [map fst]. constructor; auto. intros Hin. apply khas_in_keys in Hin. congruence.
    - intros y. destruct Hv as (_ & _ & _ & _ & V5 & V6).
      rewrite (allp_table cf g g' a t v' tb (bk g k tb) new Hc eq_refl Htb (bk_lt g k tb) y).
      rewrite V5, V6. cbn [In]. rewrite H5, (allp_split g a t tb (bk g k tb) Htb y), Hfl, Hpe, Hnew. cbn [In].
      assert (Heq : (k, t) = y <-> y = (k, t)) by (split; congruence). tauto.
  Qed.


  (** *** removal of the item found (erase / unlink): the linearization point *)
  Lemma Inv_lp_remove g a tr t v' k tb x (o : iop) (r : res) kk ob ok :
    Inv g a tr -> in_cs g a t k -> tb < 2 -> lookup g k = Some x -> In x (T g tb (bk g k tb)) ->
    v_op (a_view a t) = Pending (o : Op ISet) -> v_op v' = Linearized (o : Op ISet) (r : Res ISet) ->
    tab_view (a_view a t) v' tb (bk g k tb) (kdel k (T g tb (bk g k tb))) [] [] ->
    (forall s, kget k s = Some x -> istep s o = (kdel k s, r)) ->
    Inv (set_tabs g (set_bkt (tabs g) tb (bk g k tb) (kdel k (T g tb (bk g k tb))))) (seta (setv a t v') (a_atr a ++ [ALin t]))
        (tr ++ Conc.tag t [EvAcc kk ob ok]).
  Proof.
    intros [Hc Ha] Hcs Htb Hlk Hx Hop Hop' Hv Hstep. pose proof Hcs as (Hau & Hfl & Hpe).
    set (b := bk g k tb) in *. set (old := T g tb b) in *. set (new := kdel k old).
    set (g' := set_tabs g (set_bkt (tabs g) tb b new)).
    destruct Hv as (V1 & V2 & V3 & V4 & V5 & V6).
    assert (Hsub : forall y, In y new -> In y old) by (intros y Hy; apply kdel_in in Hy; tauto).
    assert (Hc1 : Core g' (setv a t v')).
    { apply (Core_table cf g g' a t v' tb b new Hc);
        [reflexivity|reflexivity|reflexivity|reflexivity|exact Htb|apply bk_lt|apply Hau; exact Htb|exact V1|exact V2|exact V3|exact V4|..].
      - intros y Hy. apply (c_placed Hc tb b y Htb (Hsub y Hy)).
      - apply keys_kdel_nodup. apply (c_nodup Hc).
      - intros y z b' Hy Hz. apply Hsub in Hy. destruct tb as [|[|tb]]; [| |lia]; cbn [other] in Hz.
        + eapply (c_cross Hc); eauto.
        + intros E. eapply (c_cross Hc b' b z y); eauto.
      - rewrite V5. intros y [].
      - rewrite V5. cbn. lia.
      - rewrite V6. congruence.
      - rewrite V6. constructor.
      - rewrite V6. intros y []. }
    eapply Inv_table; [exact Hc|exact Hc1|exact Ha|].
    intros s st H1 H2 H3 H4 H5.
    assert (Hks : kget k s = Some x) by (rewrite (abs_lookup g a t k s Hc Hcs H4 H5); exact Hlk).
    destruct (lookup_bucket g a k x Hc Hlk) as (Hkx & tb0 & Htb0 & Hx0 & Hoth).
    assert (tb0 = tb).
    { destruct (Nat.eq_dec tb0 tb) as [E|E]; auto. exfalso. specialize (Hoth tb Htb ltac:(auto)).
      rewrite khas_false in Hoth. eapply (Hoth (snd x)).
      assert (E' : (k, snd x) = x) by (rewrite <- Hkx; destruct x; reflexivity). rewrite E'. exact Hx. }
    subst tb0.
    exists (kdel k s), (Lin.upd st t (Linearized (o : Op ISet) (r : Res ISet))).
    split; [|split; [|split; [|split]]].
    - eapply lp_ext; [exact H1|]. cbn [lp_step]. rewrite H3, Hop. cbn [sstep ISet mkSpec]. rewrite (Hstep s Hks). reflexivity.
    - rewrite erase_app, H2. cbn. now rewrite app_nil_r.
    - apply st_setv; auto.
    - now apply keys_kdel_nodup.
    - intros y. rewrite kdel_in, H5.
      rewrite (allp_table cf g g' a t v' tb b new Hc eq_refl Htb (bk_lt g k tb) y), V5, V6.
      rewrite (allp_split g a t tb b Htb y), Hfl, Hpe. cbn [In]. unfold new. rewrite kdel_in.
      assert (K1 : forall tb' b', tb' < 2 -> (tb', b') <> (tb, b) -> In y (T g tb' b') -> fst y <> k).
      { intros tb' b' Htb' Hne Hy E. pose proof (c_placed Hc tb' b' y Htb' Hy) as Hb'. unfold hx in Hb'. rewrite E in Hb'. fold (bk g k tb') in Hb'.
        destruct (Nat.eq_dec tb' tb) as [->|Et]; [apply Hne; unfold b; now rewrite Hb'|].
        specialize (Hoth tb' Htb' Et). rewrite khas_false in Hoth. eapply (Hoth (snd y)).
        assert (E' : (k, snd y) = y) by (rewrite <- E; destruct y; reflexivity). rewrite E', Hb'. exact Hy. }
      assert (K2 : forall t0, In y (fly a t0) -> fst y <> k) by (intros t0 Hy E; eapply (proj1 (cs_no_other g a t k y Hc Hcs E)); eauto).
      assert (K3 : forall t0, In y (pend a t0) -> fst y <> k) by (intros t0 Hy E; eapply (proj2 (cs_no_other g a t k y Hc Hcs E)); eauto).
      split.
      + intros [[H|[(tb' & b' & A1 & A2 & A3)|[[]|[(t0 & A1 & A2)|[[]|(t0 & A1 & A2)]]]]] Hne]; [left; auto|right; left; eauto|right; right; right; left; eauto|right; right; right; right; right; eauto].
      + intros [[H Hne]|[(tb' & b' & A1 & A2 & A3)|[[]|[(t0 & A1 & A2)|[[]|(t0 & A1 & A2)]]]]].
        * split; auto.
        * split; [right; left; eauto|eapply K1; eauto].
        * split; [right; right; right; left; eauto|eapply K2; eauto].
        * split; [right; right; right; right; right; eauto|eapply K3; eauto].
  Qed.

  (** *** relocation: the victim leaves its probe set (in the step that took the victim's second lock) *)
  Lemma Inv_rm_first g a tr t v' tb b x rest :
    Inv g a tr -> tb < 2 -> b < S (mask g) -> auth (a_view a t) tb b -> T g tb b = x :: rest ->
    fly a t = [] -> In (0, 0, h0 cf x mod L) (held a t) -> In (0, 1, h1 cf x mod L) (held a t) ->
    tab_view (a_view a t) v' tb b rest [x] (pend a t) -> v_op v' = v_op (a_view a t) ->
    Inv (rm_first tb b g) (setv a t v') tr.
  Proof.
    intros Hi Htb Hb Hau Hold Hfl Hl0 Hl1 Hv Hop. pose proof Hi as [Hc Ha].
    destruct Hv as (V1 & V2 & V3 & V4 & V5 & V6).
    assert (Hxin : In x (T g tb b)) by (rewrite Hold; now left).
    assert (Hpx : hx cf x tb mod S (mask g) = b) by (apply (c_placed Hc tb b x Htb Hxin)).
    assert (Hnd : NoDup (keys (x :: rest))) by (rewrite <- Hold; apply (c_nodup Hc)).
    unfold keys in Hnd. cbn [map] in Hnd. apply NoDup_cons_iff in Hnd. destruct Hnd as [Hnx Hndr].
    assert (Hkx : khas (fst x) rest = false).
    { destruct (khas (fst x) rest) eqn:E; auto. apply khas_in_keys in E. contradiction. }
    assert (Hox : forall b', khas (fst x) (T g (other tb) b') = false).
    { intros b'. apply khas_false. intros o Hin. destruct tb as [|[|tb]]; [| |lia]; cbn [other] in Hin.
      - eapply (c_cross Hc b b' x (fst x, o)); eauto.
      - eapply (c_cross Hc b' b (fst x, o) x); eauto. }
    unfold rm_first. fold (T g tb b). rewrite Hold. cbn [tl].
    eapply Inv_move with (tb := tb) (b := b) (new := rest); [exact Hi| |reflexivity|exact Htb|exact Hb|exact Hop|reflexivity|auto|].
    - apply (Core_table cf g _ a t v' tb b rest Hc);
        [reflexivity|reflexivity|reflexivity|reflexivity|exact Htb|exact Hb|exact Hau|exact V1|exact V2|exact V3|exact V4|..].
      + intros y Hy. apply (c_placed Hc tb b y Htb). rewrite Hold. now right.
      + exact Hndr.
      + intros y z b' Hy Hz. assert (Hy' : In y (T g tb b)) by (rewrite Hold; now right).
        destruct tb as [|[|tb]]; [| |lia]; cbn [other] in Hz.
        * eapply (c_cross Hc); eauto.
        * intros E. eapply (c_cross Hc b' b z y); eauto.
      + rewrite V5. intros y [<-|[]]. destruct Hau as [H0 _]. split; [exact H0|]. split; [exact Hl0|]. split; [exact Hl1|].
        intros tb' Htb'. destruct (Nat.eqb_spec tb' tb) as [->|E1].
        * rewrite Hpx, Nat.eqb_refl. cbn [andb]. exact Hkx.
        * cbn [andb]. assert (tb' = other tb) by (destruct tb as [|[|?]]; destruct tb' as [|[|?]]; cbn; lia). subst tb'. apply Hox.
      + rewrite V5. cbn. lia.
      + rewrite V6. apply (c_pend Hc t).
      + rewrite V6. apply (c_pend2 Hc t).
      + rewrite V6, V5. intros y Hy. destruct (c_pend2 Hc t) as [_ B]. destruct (B y Hy) as [B1 B2].
        assert (Hne : fst y <> fst x).
        { intros E. specialize (B1 tb Htb). unfold hx in B1. rewrite E in B1. unfold hx in Hpx. rewrite Hpx in B1.
          rewrite khas_false in B1. eapply (B1 (snd x)). rewrite Hold. left. destruct x; reflexivity. }
        split.
        * intros tb' Htb'. destruct (Nat.eqb_spec tb' tb) as [->|E1]; destruct (Nat.eqb_spec (hx cf y tb mod S (mask g)) b) as [E2|E2]; cbn [andb];
            try (apply B1; auto). specialize (B1 tb Htb). rewrite E2, Hold in B1.
          apply khas_false. intros o Hin. rewrite khas_false in B1. eapply B1. right. exact Hin.
        * intros z [<-|[]]. auto.
    - intros y. rewrite V5, V6, Hold, Hfl. cbn [In]. tauto.
  Qed.

  (** *** resize: the new (empty) tables are installed, the old contents become the pending items *)
  Lemma Inv_alloc g a tr t n v' :
    Inv g a tr -> all0 (a_view a t) -> fly a t = [] -> pend a t = [] -> n = 2 * S (mask g) ->
    v_op v' = v_op (a_view a t) ->
    v_held v' = held a t -> v_mic v' = mic a t -> v_mask v' = n - 1 -> (forall tb b, v_reg v' tb b = []) ->
    v_fly v' = [] -> v_pend v' = all_items g ->
    Inv (set_tabs (set_mask g (n - 1)) [repeat [] n; repeat [] n]) (setv a t v') (tr ++ Conc.tag t [EvAcc KSt o_mask true]).
  Proof.
    intros [Hc Ha] Hall Hfl Hpe Hn Hop V1 V2 V3 V4 V5 V6.
    assert (H0 : has0 (a_view a t)) by (exists 0; apply Hall; exact Hnl).
    set (g' := set_tabs (set_mask g (n - 1)) [repeat [] n; repeat [] n]).
    assert (Hc1 : Core g' (setv a t v')) by (apply (Core_alloc cf g a t n v' Hc); auto).
    split; [exact Hc1|].
    destruct Ha as [Hd|(s & st & H1 & H2 & H3 & H4 & H5)]; [left; now apply dropped_app|right].
    exists s, st. rewrite hist_of_acc. split; auto. split; auto. split.
    - intros t0. rewrite H3. destruct (Nat.eq_dec t0 t) as [->|Hne]; [now rewrite setv_same|now rewrite setv_other].
    - split; auto. intros y. rewrite H5. unfold allp.
      assert (HT : forall tb b, T g' tb b = []) by (intros; unfold CuckooConcInv.T, g'; cbn [tabs set_tabs]; apply get_bkt_empty).
      setoid_rewrite HT. split.
      + intros [(tb & b & Htb & Hy)|[(t0 & Hy)|(t0 & Hy)]].
        * right. right. exists t. rewrite pend_same, V6. apply (all_items_in cf g a y Hc). eauto.
        * destruct (Nat.eq_dec t0 t) as [->|Hne]; [rewrite Hfl in Hy; destruct Hy|]. right. left. exists t0. now rewrite fly_other.
        * destruct (Nat.eq_dec t0 t) as [->|Hne]; [rewrite Hpe in Hy; destruct Hy|]. right. right. exists t0. now rewrite pend_other.
      + intros [(tb & b & Htb & [])|[(t0 & Hy)|(t0 & Hy)]].
        * destruct (Nat.eq_dec t0 t) as [->|Hne]; [rewrite fly_same, V5 in Hy; destruct Hy|]. rewrite fly_other in Hy by exact Hne. right. left. eauto.
        * destruct (Nat.eq_dec t0 t) as [->|Hne].
          -- rewrite pend_same, V6 in Hy. left. apply (all_items_in cf g a y Hc). exact Hy.
          -- rewrite pend_other in Hy by exact Hne. right. right. eauto.
  Qed.


  (** *** client events *)
  Import String.

  Lemma hist_inv tr t c k x y o : iop_of c k t y = Some o ->
    hist_of (tr ++ Conc.tag t [EvCli "inv" (zl [c; k; x; y])]) = hist_of tr ++ [@HInv ISet t o].
  Proof. intros H. rewrite hist_of_app. f_equal. cbn. unfold z2n. rewrite !Nat2Z.id, H. reflexivity. Qed.
  Lemma hist_ret tr t c r1 r2 :
    hist_of (tr ++ Conc.tag t [EvCli "ret" (zl [c; r1; r2])]) = hist_of tr ++ [@HRes ISet t (res_of c r1 r2)].
  Proof. rewrite hist_of_app. f_equal. cbn. unfold z2n. now rewrite !Nat2Z.id. Qed.
  Lemma hist_other tr t name args : name <> "inv"%string -> name <> "ret"%string ->
    hist_of (tr ++ Conc.tag t [EvCli name args]) = hist_of tr.
  Proof.
    intros N1 N2. rewrite hist_of_app. cbn. apply String.eqb_neq in N1. apply String.eqb_neq in N2. rewrite N1, N2. now rewrite app_nil_r.
  Qed.

  Lemma dropped_cli tr t name args : dropped tr -> dropped (tr ++ Conc.tag t [EvCli name args]).
  Proof. apply dropped_app. Qed.

  (** an event that changes only the status of t's operation and the annotated trace *)
  Lemma Inv_cli g a tr t (o : status ISet) name args atr' :
    Inv g a tr ->
    (forall s st, lp_run lp_init (a_atr a) = Some (s, st) -> (forall t0, st t0 = v_op (a_view a t0)) ->
        erase (a_atr a) = hist_of tr ->
        lp_run lp_init atr' = Some (s, Lin.upd st t o) /\ erase atr' = hist_of (tr ++ Conc.tag t [EvCli name args])) ->
    Inv g (seta (setv a t (with_op (a_view a t) o)) atr') (tr ++ Conc.tag t [EvCli name args]).
  Proof.
    intros [Hc Ha] Hatr. split; [apply Core_seta; now apply Core_with_op|].
    destruct Ha as [Hd|(s & st & H1 & H2 & H3 & H4 & H5)]; [left; now apply dropped_app|right].
    destruct (Hatr s st H1 H3 H2) as [K1 K2]. exists s, (Lin.upd st t o). cbn [a_atr seta a_view].
    split; [exact K1|]. split; [exact K2|]. split; [apply st_setv; auto|]. split; [exact H4|].
    intros x. rewrite H5. symmetry. apply allp_with_op.
  Qed.

  Lemma Inv_oof g a tr t : Inv g a tr -> Inv g a (tr ++ Conc.tag t [EvCli "outoffuel" []]).
  Proof.
    intros [Hc Ha]. split; auto. eapply Abs_keep; eauto; [apply hist_other; discriminate|apply dropped_app].
  Qed.

  (** resize() falls through without re-inserting the item at the head of the pending list: property C17's defect.
      The ghost event marks the trace; from here on the abstraction is not claimed any more *)
  Lemma Inv_drop g a tr t x r :
    Inv g a tr -> pend a t = x :: r ->
    Inv g (setv a t (mkTV (v_op (a_view a t)) (held a t) (mic a t) (v_mask (a_view a t)) (v_reg (a_view a t)) (fly a t) r))
        (tr ++ Conc.tag t [EvCli "dropped" [Z.of_nat (fst x)]]).
  Proof.
    intros [Hc Ha] Hp. split.
    - apply Core_fp; cbn [v_held v_mic v_mask v_reg v_fly v_pend]; auto.
      + apply (c_fly1 Hc t).
      + intros y Hy. rewrite Hp. now right.
      + destruct (c_pend2 Hc t) as [A _]. rewrite Hp in A. unfold keys in A. cbn [map] in A. now apply NoDup_cons_iff in A.
    - left. exists t, (Z.of_nat (fst x)). apply in_or_app. right. cbn. left. reflexivity.
  Qed.

  (** *** cell locks, lock_all / unlock_all *)
  Lemma lk_ok_mk tb i : tb < 2 -> i < L -> lk_ok (0, tb, i).
  Proof. intros. exists tb, i. auto. Qed.

  Lemma acquired_trans l1 l2 v v1 v2 : acquired l1 v v1 -> acquired l2 v1 v2 ->
    v_op v2 = v_op v /\ v_held v2 = l2 :: l1 :: v_held v /\ v_mic v2 = MNone /\ v_fly v2 = v_fly v /\ v_pend v2 = v_pend v.
  Proof. intros (A1 & A2 & A3 & A4 & A5) (B1 & B2 & B3 & B4 & B5). repeat split; congruence. Qed.

  Lemma extends_trans l v v1 v2 : acquired l v v1 -> extends v v1 -> extends v1 v2 -> extends v v2.
  Proof.
    intros (A1 & A2 & A3 & A4 & A5) [E1 E2] [F1 F2].
    assert (H0 : has0 v -> has0 v1) by (intros (i & Hi); exists i; rewrite A2; now right).
    assert (Hau : forall tb b, auth v tb b -> auth v1 tb b).
    { intros tb b [(i & Hi) H]. split; [exists i; rewrite A2; now right|]. destruct H as [H|H]; [left; rewrite A2; now right|right]. intros j Hj. rewrite A2. right. auto. }
    split.
    - intros H. rewrite F1, E1; auto.
    - intros tb b Htb H. rewrite F2, E2; auto.
  Qed.

  (** scoped_cell_lock *)
  Lemma safe_cell_lock t hh0 hh1 (Q : cells -> tview -> Prop) v :
    v_mic v = MNone ->
    (forall v', v_op v' = v_op v -> v_held v' = (0, 1, hh1 mod L) :: (0, 0, hh0 mod L) :: v_held v -> v_mic v' = MNone ->
        v_fly v' = v_fly v -> v_pend v' = v_pend v -> extends v v' -> Q ((0, 0, hh0 mod L), (0, 1, hh1 mod L)) v') ->
    safe t (cell_lock (c_pol cf) (c_fuel cf) L (S t) hh0 hh1) v (optQ Q).
  Proof.
    intros Hm HQ. rewrite Hpol. cbn [cell_lock].
    assert (Hl0 : lk_ok (0, 0, hh0 mod L)) by (apply lk_ok_mk; [lia|apply Nat.mod_upper_bound; lia]).
    assert (Hl1 : lk_ok (0, 1, hh1 mod L)) by (apply lk_ok_mk; [lia|apply Nat.mod_upper_bound; lia]).
    apply safe_bindo. apply safe_r_lock; auto. intros v1 Ha1 He1.
    apply safe_bindo. apply safe_r_lock; auto; [apply Ha1|]. intros v2 Ha2 He2. apply safe_oret.
    destruct (acquired_trans _ _ v v1 v2 Ha1 Ha2) as (B1 & B2 & B3 & B4 & B5).
    apply HQ; auto. eapply extends_trans; eauto.
  Qed.

  (** the two unlocks of a scoped_cell_lock destructor *)
  Definition can_release (v : tview) (l : lk) : Prop :=
    cnt (v_held v) l = 1 ->
      (forall x, In x (v_fly v) -> l <> (0, 0, h0 cf x mod L) /\ l <> (0, 1, h1 cf x mod L) /\ exists i, (0, 0, i) <> l /\ In (0, 0, i) (v_held v)) /\
      (v_pend v <> [] -> forall i, l <> (0, 0, i)).

  Lemma safe_unlock2 t l0 l1 (Q : tview -> Prop) v :
    v_mic v = MNone -> In l0 (v_held v) -> In l1 (rem1 l0 (v_held v)) ->
    can_release v l0 -> can_release (vrel v (rem1 l0 (v_held v)) MNone) l1 ->
    Q (vrel v (rem1 l1 (rem1 l0 (v_held v))) MNone) ->
    safe t (unlock2 (l0, l1)) v (fun _ => Q).
  Proof.
    intros Hm H0 H1 C0 C1 HQ. unfold unlock2. cbn [fst snd]. apply safe_thenu.
    apply safe_r_unlock; auto. apply safe_r_unlock; auto.
  Qed.

  Lemma safe_lock_all t (Q : tview -> Prop) : forall n i v, i + n = L -> v_mic v = MNone ->
    (forall v', v_op v' = v_op v -> v_mic v' = MNone -> v_fly v' = v_fly v -> v_pend v' = v_pend v ->
        (forall l, In l (v_held v) -> In l (v_held v')) -> (forall j, i <= j < L -> In (0, 0, j) (v_held v')) ->
        (forall l, cnt (v_held v') l = cnt (v_held v) l + (match l with (0, 0, j) => if (Nat.leb i j && Nat.ltb j L)%bool then 1 else 0 | _ => 0 end)) ->
        Q v') ->
    safe t (lock_all (c_fuel cf) (S t) 0 n i) v (optQ (fun _ => Q)).
  Proof.
    induction n as [|n IH]; intros i v Hn Hm HQ; cbn [lock_all].
    - apply safe_oret. apply HQ; auto; [intros j Hj; lia|].
      intros [[gg tb] j]. destruct gg; [|lia]. destruct tb; [|lia].
      destruct (Nat.leb_spec i j); destruct (Nat.ltb_spec j L); cbn; lia.
    - apply safe_bindo. apply safe_r_lock; auto; [apply lk_ok_mk; lia|].
      intros v1 (A1 & A2 & A3 & A4 & A5) He1. apply IH; [lia|exact A3|].
      intros v' B1 B2 B3 B4 B5 B6 B7. apply HQ; try congruence.
      + intros l Hl. apply B5. rewrite A2. now right.
      + intros j Hj. destruct (Nat.eq_dec j i) as [->|Hne]; [apply B5; rewrite A2; now left|apply B6; lia].
      + intros l. rewrite B7, A2. destruct (lk_dec l (0, 0, i)) as [->|Hne].
        * rewrite cnt_cons_same. destruct (Nat.leb_spec (S i) i); destruct (Nat.leb_spec i i); destruct (Nat.ltb_spec i L); cbn; lia.
        * rewrite cnt_cons_other by auto. destruct l as [[gg tb] j]. destruct gg; [|lia]. destruct tb; [|lia].
          assert (j <> i) by congruence.
          destruct (Nat.leb_spec (S i) j); destruct (Nat.leb_spec i j); destruct (Nat.ltb_spec j L); cbn; lia.
  Qed.


  (** *** what a view knows inside the critical section of key k *)
  Definition l0k (k : nat) : lk := (0, 0, fst (hashes cf k) mod L).
  Definition l1k (k : nat) : lk := (0, 1, snd (hashes cf k) mod L).
  Definition vb (v : tview) (k tb : nat) : nat := hsel (hashes cf k) tb mod S (v_mask v).
  Definition vlookup (v : tview) (k : nat) : option item :=
    match kget k (v_reg v 0 (vb v k 0)) with Some x => Some x | None => kget k (v_reg v 1 (vb v k 1)) end.

  Definition csview (v : tview) (k : nat) : Prop :=
    In (l0k k) (v_held v) /\ In (l1k k) (v_held v) /\ v_mic v = MNone /\ v_fly v = [] /\ v_pend v = [].

  Lemma has0_l0k v k : In (l0k k) (v_held v) -> has0 v.
  Proof. intros H. eexists. exact H. Qed.

  Lemma auth_of_locks g a tr t k tb : Inv g a tr -> In (l0k k) (held a t) -> In (l1k k) (held a t) -> tb < 2 ->
    auth (a_view a t) tb (bk g k tb).
  Proof.
    intros [Hc _] H0 H1 Htb. split; [eexists; exact H0|]. left. unfold bk. rewrite (stripe_mod cf g a _ Hc).
    destruct tb as [|[|tb]]; [exact H0|exact H1|lia].
  Qed.

  Lemma in_cs_of_view g a tr t k : Inv g a tr -> csview (a_view a t) k -> in_cs g a t k.
  Proof.
    intros Hi (H0 & H1 & _ & Hf & Hp). split; [|split; [exact Hf|exact Hp]].
    intros tb Htb. eapply auth_of_locks; eauto.
  Qed.

  Lemma view_facts g a tr t k : Inv g a tr -> csview (a_view a t) k ->
    (forall tb, tb < 2 -> bk g k tb = vb (a_view a t) k tb /\ T g tb (bk g k tb) = v_reg (a_view a t) tb (vb (a_view a t) k tb)) /\
    lookup g k = vlookup (a_view a t) k.
  Proof.
    intros Hi Hcs. pose proof Hi as [Hc _]. pose proof (in_cs_of_view g a tr t k Hi Hcs) as (Hau & _ & _).
    destruct Hcs as (H0 & _).
    assert (Hm : mask g = v_mask (a_view a t)) by (apply (c_mask Hc); eexists; exact H0).
    assert (Hb : forall tb, bk g k tb = vb (a_view a t) k tb) by (intros; unfold bk, vb; now rewrite Hm).
    assert (Hr : forall tb, tb < 2 -> T g tb (bk g k tb) = v_reg (a_view a t) tb (vb (a_view a t) k tb)).
    { intros tb Htb. rewrite <- Hb. apply (c_reg Hc t tb _ Htb). apply Hau; auto. }
    split; [intros tb Htb; split; auto|].
    unfold lookup, vlookup. rewrite (Hr 0), (Hr 1) by lia. reflexivity.
  Qed.

  (** the specification steps decided by a lookup *)
  Lemma khas_kget k s : khas k s = match kget k s with Some _ => true | None => false end.
  Proof. destruct (kget k s) eqn:E; [|now apply kget_none]. apply kget_some in E. destruct E as [H1 H2]. apply khas_true. exists (snd i). rewrite <- H2. destruct i; exact H1. Qed.


  (** *** contains(): the two probes, with an optional linearization point at the deciding probe *)
  Definition lin_view (v : tview) (o : iop) (d : option res) : tview :=
    match d with Some r => with_op v (Linearized (o : Op ISet) (r : Res ISet)) | None => v end.

  Lemma bkt_get_kget k b : bkt_get k b = kget k b.
  Proof. reflexivity. Qed.

  Lemma csview_lin v k o d : csview v k -> csview (lin_view v o d) k.
  Proof. destruct d; auto. Qed.

  Definition contains_gen {R} (hh : nat * nat) (k : nat) (cont : nat -> nat -> prog R) : prog R :=
    Act (a_probe 0 (fst hh) k) (fun p0 =>
      if Nat.eqb (vn p0) 1 then cont 0 (vm p0)
      else Act (a_probe 1 (snd hh) k) (fun p1 => if Nat.eqb (vn p1) 1 then cont 1 (vm p1) else cont 2 0)).
  Lemma contains_is_gen hh k cont : contains hh k cont = contains_gen hh k cont.
  Proof. reflexivity. Qed.

  Lemma safe_contains {R} t k (o : iop) (dec_found : item -> option res) (dec_none : option res)
        (cont : nat -> nat -> prog R) (Q : R -> tview -> Prop) v :
    csview v k -> v_op v = Pending (o : Op ISet) ->
    (forall x r, dec_found x = Some r -> forall s, kget k s = Some x -> istep s o = (s, r)) ->
    (forall r, dec_none = Some r -> forall s, kget k s = None -> istep s o = (s, r)) ->
    (forall tb x, tb < 2 -> vlookup v k = Some x -> kget k (v_reg v tb (vb v k tb)) = Some x ->
        safe t (cont tb (snd x)) (lin_view v o (dec_found x)) Q) ->
    (vlookup v k = None -> safe t (cont 2 0) (lin_view v o dec_none) Q) ->
    safe t (contains_gen (hashes cf k) k cont) v Q.
  Proof.
    intros Hcs Hop Hdf Hdn Hfound Hnone. unfold contains_gen.
    (* a probe step of table tb that finds x, or finds nothing *)
    assert (Step : forall g a tr (d : option res) kk ob ok, Inv g a tr -> a_view a t = v ->
              (forall r, d = Some r -> forall s, kget k s = lookup g k -> istep s o = (s, r)) ->
              exists a', Inv g a' (tr ++ Conc.tag t [EvAcc kk ob ok]) /\ Conc.frame view t a a' /\ a_view a' t = lin_view v o d).
    { intros g a tr d kk ob ok Hi Hv Hd. destruct d as [r|]; cbn [lin_view].
      - eexists. split; [apply (Inv_lp_read g g a tr t k o r kk ob ok Hi); auto|].
        + now rewrite Hv.
        + eapply in_cs_of_view; eauto. now rewrite Hv.
        + split; [intros t' Hne; unfold view; cbn [a_view seta]; now apply setv_other|].
          cbn [a_view seta]. rewrite setv_same, Hv. reflexivity.
      - exists a. split; [eapply Inv_acc; eauto|]. split; [apply frame_refl|exact Hv]. }
    cbn [Conc.safe]. intros g a tr Hi Hv. unfold view in Hv.
    assert (Hcs' : csview (a_view a t) k) by now rewrite Hv.
    destruct (view_facts g a tr t k Hi Hcs') as [Hb Hl]. rewrite Hv in Hb, Hl.
    destruct (Hb 0 ltac:(lia)) as [Hb0 Hr0].
    assert (EE : bkt_get k (get_bkt (tabs g) 0 (bidx g (fst (hashes cf k)))) = kget k (v_reg v 0 (vb v k 0))) by (rewrite <- Hr0; reflexivity).
    unfold a_probe. rewrite EE.
    destruct (kget k (v_reg v 0 (vb v k 0))) as [x|] eqn:E0; cbn [fst snd].
    - (* found in table 0 *)
      assert (Hvl : vlookup v k = Some x) by (unfold vlookup; now rewrite E0).
      destruct (Step g a tr (dec_found x) KLd o_mask true Hi Hv) as (a' & K1 & K2 & K3).
      { intros r Hr s Hs. apply (Hdf x r Hr). now rewrite Hs, Hl. }
      exists a'. split; [exact K1|]. split; [exact K2|]. unfold view. rewrite K3. cbn [vn vm Nat.eqb].
      apply (Hfound 0 x); auto.
    - (* not found in table 0: second probe *)
      exists a. split; [eapply Inv_acc; eauto|]. split; [apply frame_refl|]. unfold view. rewrite Hv. cbn [vn vnat Nat.eqb Conc.safe].
      clear g a tr Hi Hv Hcs' Hb Hl Hb0 Hr0 EE. intros g a tr Hi Hv. unfold view in Hv.
      assert (Hcs' : csview (a_view a t) k) by now rewrite Hv.
      destruct (view_facts g a tr t k Hi Hcs') as [Hb Hl]. rewrite Hv in Hb, Hl.
      destruct (Hb 1 ltac:(lia)) as [Hb1 Hr1].
      assert (EE : bkt_get k (get_bkt (tabs g) 1 (bidx g (snd (hashes cf k)))) = kget k (v_reg v 1 (vb v k 1))) by (rewrite <- Hr1; reflexivity).
      unfold a_probe. rewrite EE.
      destruct (kget k (v_reg v 1 (vb v k 1))) as [x|] eqn:E1; cbn [fst snd].
      + assert (Hvl : vlookup v k = Some x) by (unfold vlookup; now rewrite E0, E1).
        destruct (Step g a tr (dec_found x) KLd o_mask true Hi Hv) as (a' & K1 & K2 & K3).
        { intros r Hr s Hs. apply (Hdf x r Hr). now rewrite Hs, Hl. }
        exists a'. split; [exact K1|]. split; [exact K2|]. unfold view. rewrite K3. cbn [vn vm Nat.eqb].
        apply (Hfound 1 x); auto.
      + assert (Hvl : vlookup v k = None) by (unfold vlookup; now rewrite E0, E1).
        destruct (Step g a tr dec_none KLd o_mask true Hi Hv) as (a' & K1 & K2 & K3).
        { intros r Hr s Hs. apply (Hdn r Hr). now rewrite Hs, Hl. }
        exists a'. split; [exact K1|]. split; [exact K2|]. unfold view. rewrite K3. cbn [vn vnat Nat.eqb].
        apply Hnone; auto.
  Qed.


  (** *** client operations: codes, results *)
  Definition iop_of_cop (o : cop) (k t : nat) : iop :=
    match o with
    | CInsert => IInsert k t
    | CUpdate allow => IUpdate k t allow
    | CUnlink => IUnlink k t
    | CErase => IErase k
    | CFind => IFind k
    end.
  Definition res_of_cop (o : cop) (r1 r2 : nat) : res :=
    match o with CUpdate _ => RPair (n2b r1) (n2b r2) | _ => RBool (n2b r1) end.

  Lemma iop_of_ccode c k t b co : op_of_code c b = Some co -> iop_of c k t b = Some (iop_of_cop co k t).
  Proof.
    unfold op_of_code, iop_of.
    do 15 (destruct c as [|c]; [intros H; inversion H; subst; reflexivity || discriminate|]). discriminate.
  Qed.
  Lemma res_of_ccode c k b co r1 r2 : op_of_code c b = Some co -> res_of c r1 (r2_of_code c k r1 r2) = res_of_cop co r1 r2.
  Proof.
    unfold op_of_code, res_of, r2_of_code.
    do 15 (destruct c as [|c]; [intros H; inversion H; subst; reflexivity || discriminate|]). discriminate.
  Qed.

  Lemma l0_neq_l1 k : l0k k <> l1k k.
  Proof. unfold l0k, l1k. congruence. Qed.

  Lemma rem1_head l H : rem1 l (l :: H) = H.
  Proof. cbn. destruct (lk_dec l l); congruence. Qed.
  Lemma rem1_skip l x H : x <> l -> rem1 l (x :: H) = x :: rem1 l H.
  Proof. intros E. cbn. destruct (lk_dec x l); congruence. Qed.

  (** the locks of a scoped_cell_lock are released: back to the locks held before *)
  Lemma safe_cs_exit {R} t k (Q : R -> tview -> Prop) (p : prog R) v H :
    v_held v = l1k k :: l0k k :: H -> v_mic v = MNone -> v_fly v = [] -> v_pend v = [] ->
    (forall v', v_op v' = v_op v -> v_held v' = H -> v_mic v' = MNone -> v_fly v' = [] -> v_pend v' = [] -> safe t p v' Q) ->
    safe t (thenu (unlock2 (l0k k, l1k k)) p) v Q.
  Proof.
    intros Hh Hm Hf Hp Hk. apply safe_thenu.
    assert (E0 : rem1 (l0k k) (v_held v) = l1k k :: H).
    { rewrite Hh, rem1_skip by (apply not_eq_sym; apply l0_neq_l1). now rewrite rem1_head. }
    apply safe_unlock2; auto.
    - rewrite Hh. right. now left.
    - rewrite E0. now left.
    - intros _. split; [rewrite Hf; intros x []|rewrite Hp; congruence].
    - intros _. cbn [vrel v_fly v_pend]. split; [rewrite Hf; intros x []|rewrite Hp; congruence].
    - apply Hk; cbn [vrel v_op v_held v_mic v_fly v_pend]; auto. rewrite E0. apply rem1_head.
  Qed.

  (** the response event *)
  Lemma safe_fin t c k b co r1 r2 v :
    op_of_code c b = Some co ->
    v_op v = Linearized (iop_of_cop co k t : Op ISet) (res_of_cop co r1 r2 : Res ISet) ->
    safe t (Emit [EvCli "ret" (zl [c; r1; r2_of_code c k r1 r2])] (oret tt)) v
         (optQ (fun _ v' => v' = with_op v Lin.Idle)).
  Proof.
    intros Hoc Hop. cbn [Conc.safe]. intros g a tr Hi Hv. unfold view in Hv.
    rewrite <- (res_of_ccode c k b co r1 r2 Hoc) in Hop.
    eexists. split; [apply (Inv_cli g a tr t Lin.Idle "ret" _ (a_atr a ++ [ARes t (res_of c r1 (r2_of_code c k r1 r2) : Res ISet)]) Hi)|].
    - intros s st H1 H3 H2. split.
      + eapply lp_ext; [exact H1|]. cbn [lp_step]. rewrite H3, Hv, Hop.
        assert (E : res_eqb ISet (res_of c r1 (r2_of_code c k r1 r2)) (res_of c r1 (r2_of_code c k r1 r2)) = true) by (apply res_eqb_spec; reflexivity).
        rewrite E. reflexivity.
      + rewrite erase_app, H2, hist_ret. reflexivity.
    - split.
      + intros t' Hne. unfold view. cbn [a_view seta]. now apply setv_other.
      + unfold view. cbn [a_view seta]. rewrite setv_same, Hv. apply safe_oret. reflexivity.
  Qed.

  (** find / contains *)
  Lemma istep_find_some k s x : kget k s = Some x -> istep s (IFind k) = (s, RBool true).
  Proof. intros E. cbn. now rewrite khas_kget, E. Qed.
  Lemma istep_find_none k s : kget k s = None -> istep s (IFind k) = (s, RBool false).
  Proof. intros E. cbn. now rewrite khas_kget, E. Qed.

  Definition idle_view (v v' : tview) : Prop :=
    v_op v' = Lin.Idle /\ v_held v' = v_held v /\ v_mic v' = MNone /\ v_fly v' = [] /\ v_pend v' = [].

  Lemma safe_find t c k b v :
    op_of_code c b = Some CFind -> v_op v = Pending (IFind k : Op ISet) -> v_mic v = MNone -> v_fly v = [] -> v_pend v = [] ->
    safe t (bindo (cell_lock (c_pol cf) (c_fuel cf) L (S t) (fst (hashes cf k)) (snd (hashes cf k))) (fun cl =>
             bindo (contains (hashes cf k) k (fun tb _ => thenu (unlock2 cl) (oret (b2n (Nat.ltb tb 2), 0))))
                   (fun r => Emit [EvCli "ret" (zl [c; fst r; r2_of_code c k (fst r) (snd r)])] (oret tt)))) v
         (optQ (fun _ v' => idle_view v v')).
  Proof.
    intros Hoc Hop Hm Hf Hp. apply safe_bindo. apply safe_cell_lock; auto.
    intros v1 A1 A2 A3 A4 A5 _. fold (l0k k) (l1k k) in *. apply safe_bindo. rewrite contains_is_gen.
    assert (Hcs : csview v1 k).
    { split; [rewrite A2; right; now left|]. split; [rewrite A2; now left|]. split; auto. split; congruence. }
    assert (Hex : forall r1 vv, csview vv k -> v_held vv = v_held v1 -> v_op vv = Linearized (IFind k : Op ISet) (RBool (n2b r1) : Res ISet) ->
              safe t (thenu (unlock2 (l0k k, l1k k)) (oret (r1, 0))) vv
                (optQ (fun r l' => safe t (Emit [EvCli "ret" (zl [c; fst r; r2_of_code c k (fst r) (snd r)])] (oret tt)) l' (optQ (fun _ v' => idle_view v v'))))).
    { intros r1 vv (C0 & C1 & C2 & C3 & C4) Hh Hopv. eapply safe_cs_exit; eauto; [rewrite Hh; exact A2|].
      intros v' B1 B2 B3 B4 B5. apply safe_oret. cbn [fst snd].
      eapply Conc.safe_weaken; [|eapply (safe_fin t c k b CFind r1 0 v' Hoc)]; [|rewrite B1; exact Hopv].
      intros [u|] l' Hl; cbn in *; auto. subst l'. repeat split; auto. }
    apply (safe_contains t k (IFind k) (fun _ => Some (RBool true)) (Some (RBool false)) _ _ v1 Hcs); [congruence| | | |].
    - intros x r E s Hs. inversion E; subst. eapply istep_find_some; eauto.
    - intros r E s Hs. inversion E; subst. now apply istep_find_none.
    - intros tb x Htb _ _. apply Nat.ltb_lt in Htb. rewrite Htb. cbn [b2n lin_view].
      apply (Hex 1); [apply (csview_lin v1 k (IFind k) (Some (RBool true))); exact Hcs|reflexivity|reflexivity].
    - intros _. cbn [Nat.ltb Nat.leb b2n lin_view].
      apply (Hex 0); [apply (csview_lin v1 k (IFind k) (Some (RBool false))); exact Hcs|reflexivity|reflexivity].
  Qed.


  (** erase / unlink *)
  Definition mine_of (co : cop) (t own : nat) : bool := match co with CUnlink => Nat.eqb own t | _ => true end.

  Lemma istep_erase_none co k t s : (co = CErase \/ co = CUnlink) -> kget k s = None -> istep s (iop_of_cop co k t) = (s, RBool false).
  Proof. intros [->| ->] E; cbn; [rewrite khas_kget, E|rewrite E]; reflexivity. Qed.
  Lemma istep_unlink_other k t s x : kget k s = Some x -> Nat.eqb (snd x) t = false -> istep s (IUnlink k t) = (s, RBool false).
  Proof. intros E N. cbn. now rewrite E, N. Qed.
  Lemma istep_erase_some co k t s x : (co = CErase \/ co = CUnlink) -> kget k s = Some x -> mine_of co t (snd x) = true ->
    istep s (iop_of_cop co k t) = (kdel k s, RBool true).
  Proof. intros [->| ->] E M; cbn in *; [rewrite khas_kget, E|rewrite E, M]; reflexivity. Qed.

  Lemma safe_erase t c k b co v :
    op_of_code c b = Some co -> (co = CErase \/ co = CUnlink) ->
    v_op v = Pending (iop_of_cop co k t : Op ISet) -> v_mic v = MNone -> v_fly v = [] -> v_pend v = [] ->
    safe t (bindo (cell_lock (c_pol cf) (c_fuel cf) L (S t) (fst (hashes cf k)) (snd (hashes cf k))) (fun cl =>
             bindo (contains (hashes cf k) k (fun tb own =>
                      if (Nat.ltb tb 2 && mine_of co t own)%bool
                      then Act (a_remove tb (hsel (hashes cf k) tb) k) (fun _ => Act a_count_fas (fun _ => thenu (unlock2 cl) (oret (1, 0))))
                      else thenu (unlock2 cl) (oret (0, 0))))
                   (fun r => Emit [EvCli "ret" (zl [c; fst r; r2_of_code c k (fst r) (snd r)])] (oret tt)))) v
         (optQ (fun _ v' => idle_view v v')).
  Proof.
    intros Hoc Hco Hop Hm Hf Hp. apply safe_bindo. apply safe_cell_lock; auto.
    intros v1 A1 A2 A3 A4 A5 _. fold (l0k k) (l1k k) in *. apply safe_bindo. rewrite contains_is_gen.
    assert (Hcs : csview v1 k).
    { split; [rewrite A2; right; now left|]. split; [rewrite A2; now left|]. split; auto. split; congruence. }
    set (o := iop_of_cop co k t).
    assert (Hrc : forall r1, res_of_cop co r1 0 = RBool (n2b r1)) by (intros; destruct Hco as [->| ->]; reflexivity).
    assert (Hex : forall r1 vv, csview vv k -> v_held vv = v_held v1 -> v_op vv = Linearized (o : Op ISet) (RBool (n2b r1) : Res ISet) ->
              safe t (thenu (unlock2 (l0k k, l1k k)) (oret (r1, 0))) vv
                (optQ (fun r l' => safe t (Emit [EvCli "ret" (zl [c; fst r; r2_of_code c k (fst r) (snd r)])] (oret tt)) l' (optQ (fun _ v' => idle_view v v'))))).
    { intros r1 vv (C0 & C1 & C2 & C3 & C4) Hh Hopv. eapply safe_cs_exit; eauto; [rewrite Hh; exact A2|].
      intros v' B1 B2 B3 B4 B5. apply safe_oret. cbn [fst snd].
      eapply Conc.safe_weaken; [|eapply (safe_fin t c k b co r1 0 v' Hoc)]; [|rewrite B1, Hrc; exact Hopv].
      intros [u|] l' Hl; cbn in *; auto. subst l'. repeat split; auto. }
    apply (safe_contains t k o (fun x => if mine_of co t (snd x) then None else Some (RBool false)) (Some (RBool false)) _ _ v1 Hcs);
      [rewrite A1; exact Hop| | | |].
    - intros x r E s Hs. destruct (mine_of co t (snd x)) eqn:M; [discriminate|]. inversion E; subst r.
      destruct Hco as [->| ->]; [discriminate|]. cbn in M. unfold o. cbn [iop_of_cop]. eapply istep_unlink_other; eauto.
    - intros r E s Hs. inversion E; subst r. now apply istep_erase_none.
    - intros tb x Htb Hvl Hkg. pose proof Htb as Htb'. apply Nat.ltb_lt in Htb'. rewrite Htb'. cbn [andb].
      destruct (mine_of co t (snd x)) eqn:M; cbn [lin_view].
      + (* the item is removed: linearization point *)
        cbn [Conc.safe]. intros g a tr Hi Hv. unfold view in Hv.
        assert (Hcs' : csview (a_view a t) k) by now rewrite Hv.
        destruct (view_facts g a tr t k Hi Hcs') as [Hb Hl]. rewrite Hv in Hb, Hl. destruct (Hb tb Htb) as [Hbt Hrt].
        assert (Hx : In x (T g tb (bk g k tb))) by (rewrite Hrt; apply kget_some in Hkg; tauto).
        set (v2 := with_op (with_tab v1 tb (bk g k tb) (kdel k (T g tb (bk g k tb))) [] []) (Linearized (o : Op ISet) (RBool true : Res ISet))).
        exists (seta (setv a t v2) (a_atr a ++ [ALin t])). split; [|split].
        * apply (Inv_lp_remove g a tr t v2 k tb x o (RBool true) KLd o_mask true Hi);
            [eapply in_cs_of_view; eauto|exact Htb|rewrite Hl; exact Hvl|exact Hx|rewrite Hv, A1; exact Hop|reflexivity| |].
          -- rewrite Hv. unfold v2. repeat split.
          -- intros s Hs. unfold o. eapply istep_erase_some; eauto.
        * intros t' Hne. unfold view. cbn [a_view seta]. now apply setv_other.
        * unfold view. cbn [a_view seta]. rewrite setv_same.
          assert (Hcs2 : csview v2 k) by (destruct Hcs as (C0 & C1 & C2 & C3 & C4); unfold v2; repeat split; cbn; auto).
          cbn [Conc.safe]. intros g1 a1 tr1 Hi1 Hv1. unfold view in Hv1. exists a1.
          split; [eapply Inv_acc; eauto|]. split; [apply frame_refl|]. unfold view. rewrite Hv1.
          apply (Hex 1 v2); auto.
      + apply (Hex 0); [exact Hcs|reflexivity|reflexivity].
    - intros _. cbn [Nat.ltb Nat.leb andb lin_view]. apply (Hex 0); [exact Hcs|reflexivity|reflexivity].
  Qed.


  (** *** relocate *)
  (** the state a thread is in between critical sections (possibly inside a resize): locks [H], nothing in flight *)
  Definition rest_view (v : tview) (H : list lk) : Prop :=
    v_held v = H /\ v_mic v = MNone /\ v_fly v = [] /\ (v_pend v <> [] -> forall i, i < L -> In (0, 0, i) H).
  Definition same_rest (v v' : tview) : Prop :=
    v_op v' = v_op v /\ v_held v' = v_held v /\ v_mic v' = MNone /\ v_fly v' = [] /\ v_pend v' = v_pend v.

  Lemma cnt_ge2 (H : list lk) l x : In l H -> cnt (x :: l :: H) l <> 1.
  Proof.
    intros Hin. apply in_cnt in Hin. cbn. destruct (lk_dec l l); [|congruence]. destruct (lk_dec x l); lia.
  Qed.

  (** release of a pair of cell locks taken on top of [H] when nothing is in flight *)
  Lemma safe_pair_exit {R} t la lb (Q : R -> tview -> Prop) (p : prog R) v H :
    la <> lb -> (exists i, la = (0, 0, i) /\ i < L) -> (exists i, lb = (0, 1, i)) ->
    v_held v = lb :: la :: H -> v_mic v = MNone -> v_fly v = [] -> (v_pend v <> [] -> forall i, i < L -> In (0, 0, i) H) ->
    (forall v', v_op v' = v_op v -> v_held v' = H -> v_mic v' = MNone -> v_fly v' = [] -> v_pend v' = v_pend v -> safe t p v' Q) ->
    safe t (thenu (unlock2 (la, lb)) p) v Q.
  Proof.
    intros Hne (ia & Ea & Hia) (ib & Eb) Hh Hm Hf Hp Hk. apply safe_thenu.
    assert (E0 : rem1 la (v_held v) = lb :: H).
    { rewrite Hh, rem1_skip by (apply not_eq_sym; exact Hne). now rewrite rem1_head. }
    apply safe_unlock2; auto.
    - rewrite Hh. right. now left.
    - rewrite E0. now left.
    - intros C1. split; [rewrite Hf; intros x []|]. intros Hpn i E. exfalso. rewrite Hh in C1.
      subst la. inversion E; subst i. eapply cnt_ge2; [|exact C1]. apply Hp; auto.
    - intros _. cbn [vrel v_fly v_pend]. split; [rewrite Hf; intros x []|]. intros _ i E. subst lb. discriminate.
    - apply Hk; cbn [vrel v_op v_held v_mic v_fly v_pend]; auto. rewrite E0. apply rem1_head.
  Qed.


  Lemma in_rest_locks (H : list lk) l la lb : In l (lb :: la :: H) <-> l = lb \/ l = la \/ In l H.
  Proof. cbn. intuition. Qed.

  Lemma mod_stripe hh m e : 0 < e -> S m = L * e -> (hh mod S m) mod L = hh mod L.
  Proof.
    intros He Hd. rewrite Hd. clear Hd.
    assert (E : L <> 0) by (intros E0; rewrite E0 in Hnl; inversion Hnl).
    assert (E' : e <> 0) by (intros E0; rewrite E0 in He; inversion He).
    rewrite Nat.mod_mul_r by assumption. rewrite (Nat.mul_comm L). rewrite Nat.mod_add by assumption. apply Nat.mod_mod. assumption.
  Qed.

  (** placing the victim (in flight) into a probe set of its own: relocation steps F, P and the restore *)
  Lemma Inv_place_fly g a tr t x tb new kk ob ok :
    Inv g a tr -> fly a t = [x] -> tb < 2 ->
    (forall y, In y new <-> y = x \/ In y (T g tb (bk g (fst x) tb))) ->
    (khas (fst x) (T g tb (bk g (fst x) tb)) = false -> NoDup (keys new)) ->
    Inv (set_tabs g (set_bkt (tabs g) tb (bk g (fst x) tb) new))
        (setv a t (with_tab (a_view a t) tb (bk g (fst x) tb) new [] (pend a t))) (tr ++ Conc.tag t [EvAcc kk ob ok]).
  Proof.
    intros Hi Hf Htb Hnew Hnd. pose proof Hi as [Hc _].
    assert (Hx : In x (fly a t)) by (rewrite Hf; now left).
    destruct (c_fly Hc t x Hx) as (A0 & A1 & A2 & A3).
    apply (Inv_insert_move g a tr t _ x tb new [] (pend a t) kk ob ok Hi Htb).
    - eapply fly_auth; eauto.
    - exact A3.
    - apply tab_view_with_tab.
    - reflexivity.
    - exact Hnew.
    - apply Hnd. apply A3; auto.
    - intros y [].
    - cbn. lia.
    - intros y Hy. split; auto. destruct (c_pend2 Hc t) as [_ B]. destruct (B y Hy) as [_ B2]. apply not_eq_sym. apply B2. exact Hx.
    - apply (c_pend2 Hc t).
    - auto.
    - intros y. rewrite Hf. cbn [In]. intuition.
  Qed.

  Definition Qreloc (v : tview) : (nat * (nat * (nat * nat))) -> tview -> Prop := fun r v' => fst (snd r) < 2 /\ same_rest v v'.

  (** after the victim [x] left probe set (tb, b): put it somewhere, release everything *)
  Lemma safe_reloc_place t tb b x (goal : nat * nat) v0 v H (ra rb rc : nat * (nat * (nat * nat))) :
    tb < 2 -> fst (snd ra) < 2 -> fst (snd rb) < 2 -> fst (snd rc) < 2 ->
    let vh := hashes cf (key_of x) in
    let lg0 := (0, 0, fst goal mod L) in let lg1 := (0, 1, snd goal mod L) in
    let lv0 := (0, 0, fst vh mod L) in let lv1 := (0, 1, snd vh mod L) in
    v_op v = v_op v0 -> v_held v = lv1 :: lv0 :: lg1 :: lg0 :: H -> v_mic v = MNone -> v_fly v = [x] -> v_pend v = v_pend v0 ->
    v_held v0 = H -> (v_pend v0 <> [] -> forall i, i < L -> In (0, 0, i) H) ->
    hsel vh tb mod S (v_mask v) = b ->
    safe t (Act (a_place (c_ord cf) (other tb) (hsel vh (other tb)) x (c_th cf)) (fun v1 =>
              if Nat.eqb (vn v1) 1 then thenu (unlock2 (lv0, lv1)) (thenu (unlock2 (lg0, lg1)) (oret ra))
              else Act (a_reloc_partial (c_ord cf) (other tb) (hsel vh (other tb)) x (c_ps cf) tb b) (fun v2 =>
                     thenu (unlock2 (lv0, lv1)) (thenu (unlock2 (lg0, lg1)) (if Nat.eqb (vn v2) 1 then oret rb else oret rc)))))
         v (optQ (Qreloc v0)).
  Proof.
    intros Htb Hra Hrb Hrc vh lg0 lg1 lv0 lv1 Hop Hh Hm Hf Hp Hh0 Hpe Hpx.
    assert (Hot : other tb < 2) by (destruct tb as [|[|?]]; cbn; lia).
    (* leaving: both pairs of locks are released *)
    assert (Hexit : forall r vv, fst (snd r) < 2 -> v_op vv = v_op v -> v_held vv = v_held v -> v_mic vv = MNone -> v_fly vv = [] -> v_pend vv = v_pend v ->
              safe t (thenu (unlock2 (lv0, lv1)) (thenu (unlock2 (lg0, lg1)) (oret r))) vv (optQ (Qreloc v0))).
    { intros r vv Hr2 C1 C2 C3 C4 C5.
      assert (Hpe' : v_pend vv <> [] -> forall i, i < L -> In (0, 0, i) (lg1 :: lg0 :: H)).
      { intros E i Hi. right. right. apply Hpe; auto. congruence. }
      eapply safe_pair_exit with (H := lg1 :: lg0 :: H); eauto; try (unfold lv0, lv1; congruence).
      - exists (fst vh mod L). split; auto. apply Nat.mod_upper_bound. lia.
      - eexists; reflexivity.
      - congruence.
      - intros v1 B1 B2 B3 B4 B5.
        eapply safe_pair_exit with (H := H); eauto; try (unfold lg0, lg1; congruence).
        + exists (fst goal mod L). split; auto. apply Nat.mod_upper_bound. lia.
        + eexists; reflexivity.
        + intros E i Hi. apply Hpe; auto. congruence.
        + intros v2 D1 D2 D3 D4 D5. apply safe_oret. unfold Qreloc, same_rest. split; [exact Hr2|]. repeat split; congruence. }
    (* a successful placement into table (other tb) *)
    assert (Hplace : forall g a tr limit, Inv g a tr -> a_view a t = v ->
              Nat.ltb (List.length (T g (other tb) (bk g (fst x) (other tb)))) limit = true ->
              exists a', Inv (set_tabs g (set_bkt (tabs g) (other tb) (bk g (fst x) (other tb)) (ins_item (c_ord cf) x (T g (other tb) (bk g (fst x) (other tb))))))
                             a' (tr ++ Conc.tag t [EvAcc KLd o_mask true]) /\ Conc.frame view t a a' /\
                         v_op (a_view a' t) = v_op v /\ v_held (a_view a' t) = v_held v /\ v_mic (a_view a' t) = MNone /\
                         v_fly (a_view a' t) = [] /\ v_pend (a_view a' t) = v_pend v).
    { intros g a tr limit Hi Hv _. eexists. split; [apply (Inv_place_fly g a tr t x (other tb) _ KLd o_mask true Hi); auto|].
      - unfold fly. now rewrite Hv.
      - intros y. apply ins_item_in.
      - intros Hk. apply ins_item_keys_nodup; auto. apply (c_nodup (proj1 Hi)).
      - split; [apply frame_setv|]. rewrite setv_same, Hv. unfold pend. rewrite Hv. cbn. auto. }
    cbn [Conc.safe]. intros g a tr Hi Hv. unfold view in Hv. unfold a_place. fold (T g (other tb) (bidx g (hsel vh (other tb)))).
    change (bidx g (hsel vh (other tb))) with (bk g (fst x) (other tb)).
    destruct (Nat.ltb (List.length (T g (other tb) (bk g (fst x) (other tb)))) (c_th cf)) eqn:E1; cbn [fst snd].
    - destruct (Hplace g a tr (c_th cf) Hi Hv E1) as (a' & K1 & K2 & K3 & K4 & K5 & K6 & K7).
      exists a'. split; [exact K1|]. split; [exact K2|]. unfold view. cbn [vn Nat.eqb]. apply Hexit; auto.
    - exists a. split; [eapply Inv_acc; eauto|]. split; [apply frame_refl|]. unfold view. rewrite Hv. cbn [vn vnat Nat.eqb Conc.safe].
      clear g a tr Hi Hv E1. intros g a tr Hi Hv. unfold view in Hv. unfold a_reloc_partial.
      fold (T g (other tb) (bidx g (hsel vh (other tb)))). change (bidx g (hsel vh (other tb))) with (bk g (fst x) (other tb)).
      destruct (Nat.ltb (List.length (T g (other tb) (bk g (fst x) (other tb)))) (c_ps cf)) eqn:E2; cbn [fst snd].
      + destruct (Hplace g a tr (c_ps cf) Hi Hv E2) as (a' & K1 & K2 & K3 & K4 & K5 & K6 & K7).
        exists a'. split; [exact K1|]. split; [exact K2|]. unfold view. cbn [vn vnat Nat.eqb]. apply Hexit; auto.
      + (* no room anywhere: the victim goes back to the head of the probe set it came from *)
        pose proof Hi as [Hc _].
        assert (H0 : has0 (a_view a t)) by (exists (fst vh mod L); rewrite Hv, Hh; right; now left).
        assert (Hmk : mask g = v_mask v) by (rewrite <- Hv; apply (c_mask Hc t H0)).
        assert (Hb : b = bk g (fst x) tb) by (unfold bk; rewrite Hmk; symmetry; exact Hpx).
        fold (T g tb b). rewrite Hb.
        eexists. split; [apply (Inv_place_fly g a tr t x tb (x :: T g tb (bk g (fst x) tb)) KLd o_mask true Hi); auto|].
        * unfold fly. now rewrite Hv.
        * intros y. cbn [In]. intuition.
        * intros Hk. unfold keys. cbn [map]. constructor; [intros Hin; apply khas_in_keys in Hin; congruence|apply (c_nodup Hc)].
        * split; [apply frame_setv|]. unfold view. rewrite setv_same, Hv. unfold pend. rewrite Hv. cbn [vn vnat Nat.eqb].
          destruct (Nat.eqb 0 1) eqn:E01; [discriminate|]. apply Hexit; cbn; auto.
  Qed.


  Lemma safe_reloc_attempt t tb goal v H :
    tb < 2 -> rest_view v H ->
    safe t (reloc_attempt cf (S t) tb goal) v (optQ (Qreloc v)).
  Proof.
    intros Htb (Hh & Hm & Hf & Hp). unfold reloc_attempt.
    set (lg0 := (0, 0, fst goal mod L)). set (lg1 := (0, 1, snd goal mod L)).
    apply safe_bindo. apply safe_cell_lock; auto.
    intros v1 A1 A2 A3 A4 A5 Hext. fold lg0 lg1 in A2.
    assert (Hexit : forall r, fst (snd r) < 2 -> safe t (thenu (unlock2 (lg0, lg1)) (oret r)) v1 (optQ (Qreloc v))).
    { intros r Hr2. eapply safe_pair_exit with (H := H); eauto; try (unfold lg0, lg1; congruence).
      - exists (fst goal mod L). split; auto. apply Nat.mod_upper_bound. lia.
      - eexists; reflexivity.
      - rewrite A2, Hh. reflexivity.
      - rewrite A5. exact Hp.
      - intros v' B1 B2 B3 B4 B5. apply safe_oret. unfold Qreloc, same_rest. split; [exact Hr2|]. repeat split; congruence. }
    cbn [Conc.safe].
    (* look at the goal probe set *)
    intros g a tr Hi Hv. unfold view in Hv. pose proof Hi as [Hc _].
    assert (Hlg : forall tb', tb' < 2 -> In (0, tb', hsel goal tb' mod L) (held a t)).
    { intros tb' Htb'. unfold held. rewrite Hv, A2. destruct tb' as [|[|tb']]; [right; now left|now left|lia]. }
    assert (H0 : has0 (a_view a t)) by (exists (fst goal mod L); apply (Hlg 0); lia).
    assert (Hm1 : mask g = v_mask v1) by (rewrite <- Hv; apply (c_mask Hc t H0)).
    destruct (c_len Hc) as (_ & _ & e & He & Hdiv).
    set (b := hsel goal tb mod S (mask g)).
    assert (Hbl : b mod L = hsel goal tb mod L) by (unfold b; eapply mod_stripe; eauto).
    assert (Hau : auth (a_view a t) tb b).
    { split; auto. left. rewrite Hbl. apply Hlg; auto. }
    assert (Hreg : T g tb b = v_reg v1 tb b) by (rewrite <- Hv; apply (c_reg Hc t tb b Htb Hau)).
    exists a. split; [unfold a_reloc_look; destruct (Nat.ltb _ _); eapply Inv_acc; eauto|]. split; [apply frame_refl|].
    unfold view. rewrite Hv.
    unfold a_reloc_look. fold (T g tb (bidx g (hsel goal tb))). change (bidx g (hsel goal tb)) with b.
    destruct (Nat.ltb (List.length (T g tb b)) (c_th cf)) eqn:Eth; cbn [fst snd vn vm vl Nat.eqb]; [apply Hexit; exact Htb|].
    destruct (T g tb b) as [|x rest] eqn:Eold; cbn [firstn]; [apply Hexit; exact Htb|].
    (* the victim x; try to take its locks *)
    assert (Hxin : In x (T g tb b)) by (rewrite Eold; now left).
    assert (Hpx : hsel (hashes cf (key_of x)) tb mod S (v_mask v1) = b) by (rewrite <- Hm1; apply (c_placed Hc tb b x Htb Hxin)).
    assert (Hvr : v_reg v1 tb b = x :: rest) by (symmetry; exact Hreg).
    assert (Hau1 : auth v1 tb b).
    { split; [exists (fst goal mod L); rewrite A2; right; now left|]. left. rewrite A2, Hbl.
      destruct tb as [|[|tb]]; [right; now left|now left|lia]. }
    clearbody b. clear g a tr Hi Hv Hc Hlg H0 Hm1 Hau Hreg Eth Eold Hxin Hdiv e He Hbl.
    set (vh := hashes cf (key_of x)). set (lv0 := (0, 0, fst vh mod L)). set (lv1 := (0, 1, snd vh mod L)).
    apply safe_bindo. rewrite Hpol. cbn [cell_trylock]. fold lv0 lv1.
    apply Conc.safe_bind. apply safe_r_try_lock; auto.
    { apply lk_ok_mk; [lia|apply Nat.mod_upper_bound; lia]. }
    2:{ apply safe_oret. apply Hexit. exact Htb. }
    intros v2 (B1 & B2 & B3 & B4 & B5) [Hx1 Hx2]. apply safe_bindo.
    (* second lock of the victim, and its removal from the probe set in the same step *)
    apply safe_r_lock_post; auto.
    { apply lk_ok_mk; [lia|apply Nat.mod_upper_bound; lia]. }
    intros g a tr Hi (C1 & C2 & C3 & C4 & C5) Hmk Hrg [Hk1 Hk2]. pose proof Hi as [Hc _].
    assert (Hau2 : auth v2 tb b).
    { destruct Hau1 as [(i & Hi0) Hx]. split; [exists i; rewrite B2; now right|]. destruct Hx as [Hx|Hx]; [left; rewrite B2; now right|right].
      intros j Hj. rewrite B2. right. auto. }
    assert (Hold : T g tb b = x :: rest).
    { rewrite (Hk2 tb b Htb Hau2). rewrite (Hx2 tb b Htb Hau1). exact Hvr. }
    assert (H02 : has0 v2) by (exists (fst vh mod L); rewrite B2; now left).
    assert (Hmg : mask g = v_mask v1) by (rewrite (Hk1 H02); apply Hx1; destruct Hau1; auto).
    set (v3 := with_tab (a_view a t) tb b rest [x] (pend a t)).
    exists (setv a t v3). split; [|split; [apply frame_setv|]].
    - apply (Inv_rm_first g a tr t v3 tb b x rest Hi Htb); auto.
      + rewrite <- Hpx, <- Hmg. apply Nat.mod_upper_bound. lia.
      + destruct Hau2 as [(i & Hi0) Hx]. split; [exists i; rewrite C2; right; exact Hi0|].
        destruct Hx as [Hx|Hx]; [left; rewrite C2; now right|right; intros j Hj; rewrite C2; right; auto].
      + unfold fly. rewrite C4, B4, A4. exact Hf.
      + unfold held. rewrite C2, B2. right. now left.
      + unfold held. rewrite C2. now left.
      + apply tab_view_with_tab.
    - rewrite setv_same. apply safe_oret. cbv beta.
      apply (safe_reloc_place t tb b x goal v v3 H); auto; try (cbn [fst snd]; destruct tb as [|[|?]]; cbn; lia); unfold v3; cbn [with_tab v_op v_held v_mic v_fly v_pend v_mask].
      + congruence.
      + rewrite C2, B2, A2, Hh. reflexivity.
      + unfold pend. congruence.
      + rewrite <- Hpx. f_equal. f_equal. rewrite Hmk. exact Hmg.
  Qed.

  Lemma safe_reloc_round t tb goal v H : tb < 2 -> rest_view v H ->
    forall fuel, safe t (reloc_round cf fuel (S t) tb goal) v (optQ (Qreloc v)).
  Proof.
    intros Htb Hr fuel. revert v Hr. induction fuel as [|f IH]; intros v Hr; cbn [reloc_round]; [exact I|].
    apply safe_bindo. eapply Conc.safe_weaken; [|eapply safe_reloc_attempt; eauto].
    intros [r|] v' Hq; cbn in *; auto. destruct Hq as (Q0 & Q1 & Q2 & Q3 & Q4 & Q5).
    destruct Hr as (R1 & R2 & R3 & R4).
    destruct (Nat.eqb (fst r) 3).
    - eapply Conc.safe_weaken; [|apply IH]; [|repeat split; try congruence; rewrite Q5; exact R4].
      intros [r'|] v'' Hq'; cbn in *; auto. destruct Hq' as (S0 & S1 & S2 & S3 & S4 & S5). unfold Qreloc, same_rest. split; auto. repeat split; congruence.
    - apply safe_oret. unfold Qreloc, same_rest. split; auto; repeat split; auto.
  Qed.

  Lemma safe_relocate t v H : rest_view v H ->
    forall rounds tb goal, tb < 2 -> safe t (relocate cf rounds (S t) tb goal) v (optQ (fun _ v' => same_rest v v')).
  Proof.
    intros Hr rounds. revert v Hr. induction rounds as [|n IH]; intros v Hr tb goal Htb; cbn [relocate].
    - apply safe_oret. destruct Hr as (R1 & R2 & R3 & R4). repeat split; auto.
    - apply safe_bindo. eapply Conc.safe_weaken; [|eapply safe_reloc_round; eauto].
      intros [r|] v' Hq; cbn in *; auto. destruct Hq as (Q0 & Q1 & Q2 & Q3 & Q4 & Q5). destruct Hr as (R1 & R2 & R3 & R4).
      destruct (fst r) as [|[|n0]].
      + apply safe_oret. repeat split; auto.
      + eapply Conc.safe_weaken; [|apply IH]; [|repeat split; try congruence; rewrite Q5; exact R4|exact Q0].
        intros [r'|] v'' Hq'; cbn in *; auto. destruct Hq' as (S1 & S2 & S3 & S4 & S5). repeat split; congruence.
      + apply safe_oret. repeat split; auto.
  Qed.


  (** *** resize: re-insertion of the pending items *)
  Definition pend_view (v v' : tview) (H : list lk) (r : list item) : Prop :=
    v_op v' = v_op v /\ v_held v' = H /\ v_mic v' = MNone /\ v_fly v' = [] /\ v_pend v' = r.

  (** a placement attempt of the first pending item *)
  Lemma safe_place_pend {R} t tb x r limit (k : V -> prog R) (Q : R -> tview -> Prop) v :
    tb < 2 -> v_pend v = x :: r -> v_fly v = [] -> v_mic v = MNone ->
    (forall v' w, pend_view v v' (v_held v) r -> vn w = 1 -> safe t (k w) v' Q) ->
    safe t (k (vnat 0)) v Q ->
    safe t (Act (a_place (c_ord cf) tb (hsel (hashes cf (key_of x)) tb) x limit) k) v Q.
  Proof.
    intros Htb Hp Hf Hm Hyes Hno. cbn [Conc.safe]. intros g a tr Hi Hv. unfold view in Hv. pose proof Hi as [Hc _].
    unfold a_place. fold (T g tb (bidx g (hsel (hashes cf (key_of x)) tb))).
    change (bidx g (hsel (hashes cf (key_of x)) tb)) with (bk g (fst x) tb).
    destruct (Nat.ltb (List.length (T g tb (bk g (fst x) tb))) limit); cbn [fst snd].
    - assert (Hpa : pend a t = x :: r) by (unfold pend; now rewrite Hv).
      assert (Hfa : fly a t = []) by (unfold fly; now rewrite Hv).
      assert (Hpn : pend a t <> []) by (rewrite Hpa; discriminate).
      pose proof (c_pend Hc t Hpn) as Hall.
      destruct (c_pend2 Hc t) as [Hnd Hab]. rewrite Hpa in Hnd. unfold keys in Hnd. cbn [map] in Hnd. apply NoDup_cons_iff in Hnd. destruct Hnd as [Hnx Hndr].
      assert (Habx : absent g x) by (apply Hab; rewrite Hpa; now left).
      set (new := ins_item (c_ord cf) x (T g tb (bk g (fst x) tb))).
      exists (setv a t (with_tab (a_view a t) tb (bk g (fst x) tb) new [] r)).
      split; [apply (Inv_insert_move g a tr t _ x tb new [] r KLd o_mask true Hi Htb)|].
      + split; [exists 0; apply Hall; exact Hnl|right; exact Hall].
      + exact Habx.
      + apply tab_view_with_tab.
      + reflexivity.
      + intros y. apply ins_item_in.
      + apply ins_item_keys_nodup; [apply Habx; exact Htb|apply (c_nodup Hc)].
      + intros y [].
      + cbn. lia.
      + intros y Hy. split; [rewrite Hpa; now right|]. intros E. apply Hnx. rewrite <- E. apply in_map. exact Hy.
      + exact Hndr.
      + intros _. exact Hpn.
      + intros y. rewrite Hfa, Hpa. cbn [In]. intuition.
      + split; [apply frame_setv|]. unfold view. rewrite setv_same, Hv. apply Hyes; [|reflexivity].
        repeat split; auto.
    - exists a. split; [eapply Inv_acc; eauto|]. split; [apply frame_refl|]. unfold view. rewrite Hv. exact Hno.
  Qed.

  Lemma probe_silent tb h k g :
    rspin (fst (fst (a_probe tb h k g))) = rspin g /\ rown (fst (fst (a_probe tb h k g))) = rown g /\
    mask (fst (fst (a_probe tb h k g))) = mask g /\ tabs (fst (fst (a_probe tb h k g))) = tabs g /\
    exists kk o ok, snd (a_probe tb h k g) = [EvAcc kk o ok].
  Proof. unfold a_probe. destruct (bkt_get k (get_bkt (tabs g) tb (bidx g h))); repeat split; do 3 eexists; reflexivity. Qed.

  Lemma safe_reinsert t x r v H :
    v_held v = H -> v_mic v = MNone -> v_fly v = [] -> v_pend v = x :: r -> (forall i, i < L -> In (0, 0, i) H) ->
    safe t (reinsert cf (S t) x) v (optQ (fun _ v' => pend_view v v' H r)).
  Proof.
    intros Hh Hm Hf Hp Hall. unfold reinsert.
    (* a successful placement followed by a relocation *)
    assert (Hrel : forall v' tb goal, tb < 2 -> pend_view v v' H r ->
              safe t (bindo (relocate cf relocate_limit (S t) tb goal) (fun _ => oret tt)) v' (optQ (fun _ v'' => pend_view v v'' H r))).
    { intros v' tb goal Htb (P1 & P2 & P3 & P4 & P5). apply safe_bindo.
      eapply Conc.safe_weaken; [|eapply (safe_relocate t v' H)]; [|repeat split; auto|exact Htb].
      intros [ok|] v'' Hq; cbn in *; auto. destruct Hq as (S1 & S2 & S3 & S4 & S5). repeat split; congruence. }
    assert (Hdone : forall v', pend_view v v' (v_held v) r -> safe t (oret tt) v' (optQ (fun _ v'' => pend_view v v'' H r))).
    { intros v' P. apply safe_oret. rewrite Hh in P. exact P. }
    (* the second pair of attempts (full probe sets), with the fall-through *)
    assert (Hplace2 : safe t
       (Act (a_place (c_ord cf) 0 (fst (hashes cf (key_of x))) x (c_ps cf)) (fun w0 =>
          if Nat.eqb (vn w0) 1 then
            bindo (relocate cf relocate_limit (S t) 0 (hashes cf (match vl w0 with y :: _ => key_of y | [] => key_of x end))) (fun _ => oret tt)
          else
            Act (a_place (c_ord cf) 1 (snd (hashes cf (key_of x))) x (c_ps cf)) (fun w1 =>
              if Nat.eqb (vn w1) 1 then
                bindo (relocate cf relocate_limit (S t) 1 (hashes cf (match vl w1 with y :: _ => key_of y | [] => key_of x end))) (fun _ => oret tt)
              else Emit [EvCli "dropped" [Z.of_nat (key_of x)]] (oret tt)))) v (optQ (fun _ v'' => pend_view v v'' H r))).
    { apply (safe_place_pend t 0 x r); [lia|exact Hp|exact Hf|exact Hm| |].
      - intros v' w P E. rewrite E. cbn [Nat.eqb]. rewrite Hh in P. apply Hrel; auto.
      - cbn [vn vnat Nat.eqb]. apply (safe_place_pend t 1 x r); [lia|exact Hp|exact Hf|exact Hm| |].
        + intros v' w P E. rewrite E. cbn [Nat.eqb]. rewrite Hh in P. apply Hrel; auto.
        + cbn [vn vnat Nat.eqb Conc.safe]. intros g a tr Hi Hv. unfold view in Hv.
          eexists. split; [apply (Inv_drop g a tr t x r Hi); unfold pend; now rewrite Hv|]. split; [apply frame_setv|].
          unfold view. rewrite setv_same. apply safe_oret. unfold held, mic, fly. rewrite Hv. repeat split; auto. }
    assert (Hplace1 : safe t
       (Act (a_place (c_ord cf) 0 (fst (hashes cf (key_of x))) x (c_th cf)) (fun v0 =>
          if Nat.eqb (vn v0) 1 then oret tt
          else Act (a_place (c_ord cf) 1 (snd (hashes cf (key_of x))) x (c_th cf)) (fun v1 => if Nat.eqb (vn v1) 1 then oret tt else
            Act (a_place (c_ord cf) 0 (fst (hashes cf (key_of x))) x (c_ps cf)) (fun w0 =>
          if Nat.eqb (vn w0) 1 then
            bindo (relocate cf relocate_limit (S t) 0 (hashes cf (match vl w0 with y :: _ => key_of y | [] => key_of x end))) (fun _ => oret tt)
          else
            Act (a_place (c_ord cf) 1 (snd (hashes cf (key_of x))) x (c_ps cf)) (fun w1 =>
              if Nat.eqb (vn w1) 1 then
                bindo (relocate cf relocate_limit (S t) 1 (hashes cf (match vl w1 with y :: _ => key_of y | [] => key_of x end))) (fun _ => oret tt)
              else Emit [EvCli "dropped" [Z.of_nat (key_of x)]] (oret tt)))))) v (optQ (fun _ v'' => pend_view v v'' H r))).
    { apply (safe_place_pend t 0 x r); [lia|exact Hp|exact Hf|exact Hm| |].
      - intros v' w P E. rewrite E. cbn [Nat.eqb]. apply Hdone; auto.
      - cbn [vn vnat Nat.eqb]. apply (safe_place_pend t 1 x r); [lia|exact Hp|exact Hf|exact Hm| |].
        + intros v' w P E. rewrite E. cbn [Nat.eqb]. apply Hdone; auto.
        + cbn [vn vnat Nat.eqb]. exact Hplace2. }
    apply safe_silent; [intros g; apply probe_silent|]. intros g a tr _ _.
    destruct (Nat.eqb (vn (snd (fst (a_probe 0 (fst (hashes cf (key_of x))) (key_of x) g)))) 1); [exact Hplace1|].
    apply safe_silent; [intros g'; apply probe_silent|]. intros g' a' tr' _ _. exact Hplace1.
  Qed.

  Lemma safe_reinsert_all t H : (forall i, i < L -> In (0, 0, i) H) ->
    forall xs v, v_held v = H -> v_mic v = MNone -> v_fly v = [] -> v_pend v = xs ->
    safe t (reinsert_all cf (S t) xs) v (optQ (fun _ v' => pend_view v v' H [])).
  Proof.
    intros Hall xs. induction xs as [|x r IH]; intros v Hh Hm Hf Hp; cbn [reinsert_all].
    - apply safe_oret. repeat split; auto.
    - apply safe_bindo. eapply Conc.safe_weaken; [|eapply safe_reinsert; eauto].
      intros [u|] v' Hq; cbn in *; auto. destruct Hq as (P1 & P2 & P3 & P4 & P5).
      eapply Conc.safe_weaken; [|apply IH; auto].
      intros [u'|] v'' Hq; cbn in *; auto. destruct Hq as (S1 & S2 & S3 & S4 & S5). repeat split; congruence.
  Qed.

  (** unlock_all: the thread holds exactly the table-0 locks i .. L-1, each once *)
  Definition ind0 (i : nat) (l : lk) : nat :=
    match l with (0, 0, j) => if (Nat.leb i j && Nat.ltb j L)%bool then 1 else 0 | _ => 0 end.

  Lemma cnt_zero_nil (H : list lk) : (forall l, cnt H l = 0) -> H = [].
  Proof. intros E. destruct H as [|l H]; auto. specialize (E l). rewrite cnt_cons_same in E. lia. Qed.

  Lemma safe_unlock_all t (Q : tview -> Prop) : forall n i v, i + n = L -> v_mic v = MNone -> v_fly v = [] -> v_pend v = [] ->
    (forall l, cnt (v_held v) l = ind0 i l) ->
    (forall v', v_op v' = v_op v -> v_held v' = [] -> v_mic v' = MNone -> v_fly v' = [] -> v_pend v' = [] -> Q v') ->
    safe t (unlock_all 0 n i) v (fun _ => Q).
  Proof.
    induction n as [|n IH]; intros i v Hn Hm Hf Hp Hc HQ; cbn [unlock_all].
    - apply safe_ret. apply HQ; auto. apply cnt_zero_nil. intros l. rewrite Hc. unfold ind0.
      destruct l as [[gg tb] j]. destruct gg; auto. destruct tb; auto.
      destruct (Nat.leb_spec i j); destruct (Nat.ltb_spec j L); cbn; lia.
    - assert (Hci : cnt (v_held v) (0, 0, i) = 1).
      { rewrite Hc. unfold ind0. destruct (Nat.leb_spec i i); destruct (Nat.ltb_spec i L); cbn; lia. }
      apply safe_thenu. apply safe_r_unlock; auto.
      + apply in_cnt. lia.
      + intros _. split; [rewrite Hf; intros x []|rewrite Hp; congruence].
      + apply IH; cbn [vrel v_op v_held v_mic v_fly v_pend]; auto; [lia|].
        intros l. destruct (lk_dec l (0, 0, i)) as [->|Hne].
        * rewrite cnt_rem1_same, Hci. unfold ind0. destruct (Nat.leb_spec (S i) i); cbn; lia.
        * rewrite cnt_rem1_other, Hc by auto. unfold ind0. destruct l as [[gg tb] j]. destruct gg; auto. destruct tb; auto.
          assert (j <> i) by congruence.
          destruct (Nat.leb_spec (S i) j); destruct (Nat.leb_spec i j); destruct (Nat.ltb_spec j L); cbn; lia.
  Qed.

  Definition quiet (v v' : tview) : Prop :=
    v_op v' = v_op v /\ v_held v' = [] /\ v_mic v' = MNone /\ v_fly v' = [] /\ v_pend v' = [].

  Lemma safe_resize t v : v_held v = [] -> v_mic v = MNone -> v_fly v = [] -> v_pend v = [] ->
    safe t (resize cf (S t)) v (optQ (fun _ v' => quiet v v')).
  Proof.
    intros Hh Hm Hf Hp. unfold resize. apply safe_silent; [silent|]. intros g0 a0 tr0 _ _. cbn [a_mask_ld fst snd vn vnat].
    generalize (S (mask g0)) as nold. clear g0 a0 tr0. intros nold.
    apply safe_bindo. rewrite Hpol. cbn [resize_lock resize_unlock policy_resize]. apply safe_bindo.
    apply safe_lock_all; auto. intros v1 A1 A2 A3 A4 A5 A6 A7. cbv beta. apply safe_oret. cbv beta. cbn [fst snd].
    assert (Hcnt : forall l, cnt (v_held v1) l = ind0 0 l) by (intros l; rewrite A7, Hh; reflexivity).
    assert (Hall : forall i, i < L -> In (0, 0, i) (v_held v1)) by (intros i Hi; apply A6; lia).
    assert (Hexit : forall vv, v_op vv = v_op v -> v_held vv = v_held v1 -> v_mic vv = MNone -> v_fly vv = [] -> v_pend vv = [] ->
              safe t (thenu (unlock_all 0 L 0) (oret tt)) vv (optQ (fun _ v' => quiet v v'))).
    { intros vv B1 B2 B3 B4 B5. apply safe_thenu. apply (safe_unlock_all t _ L 0 vv); auto.
      - intros l. rewrite B2. apply Hcnt.
      - intros v' C1 C2 C3 C4 C5. apply safe_oret. repeat split; auto. congruence. }
    cbn [Conc.safe]. intros g a tr Hi Hv. unfold view in Hv. pose proof Hi as [Hc _].
    assert (H0 : has0 (a_view a t)) by (exists 0; rewrite Hv; apply Hall; exact Hnl).
    assert (Hmk : mask g = v_mask v1) by (rewrite <- Hv; apply (c_mask Hc t H0)).
    exists a. split; [eapply Inv_acc; eauto|]. split; [apply frame_refl|]. unfold view. rewrite Hv. cbn [a_mask_ld fst snd vn vnat].
    destruct (Nat.eqb_spec (S (mask g)) nold) as [En|En]; [|apply Hexit; congruence].
    apply safe_bindo. apply safe_oret. rewrite Hmk in En.
    clear g a tr Hi Hv Hc H0 Hmk. cbn [Conc.safe]. intros g a tr Hi Hv. unfold view in Hv. pose proof Hi as [Hc _].
    assert (H0 : has0 (a_view a t)) by (exists 0; rewrite Hv; apply Hall; exact Hnl).
    assert (Hmk2 : mask g = v_mask v1) by (rewrite <- Hv; apply (c_mask Hc t H0)).
    subst nold. rewrite <- Hmk2.
    set (n := 2 * S (mask g)).
    set (v2 := mkTV (v_op v1) (v_held v1) MNone (n - 1) (fun _ _ => []) [] (all_items g)).
    exists (setv a t v2). split; [|split; [apply frame_setv|]].
    - apply (Inv_alloc g a tr t n v2 Hi); unfold v2; cbn [v_op v_held v_mic v_mask v_reg v_fly v_pend]; auto; unfold fly, pend, held, mic; rewrite ?Hv; auto; try congruence.
    - unfold view. rewrite setv_same. unfold a_mask_st_alloc. cbn [fst snd vl]. fold (all_items g).
      apply safe_bindo. eapply Conc.safe_weaken; [|apply (safe_reinsert_all t (v_held v1) Hall (all_items g) v2); reflexivity].
      intros [u|] v3 Hq; cbn in *; auto. destruct Hq as (P1 & P2 & P3 & P4 & P5).
      apply Hexit; auto. unfold v2 in P1. cbn in P1. congruence.
  Qed.


  (** *** insert / update *)
  Definition fin_view (op : status ISet) (v' : tview) : Prop :=
    v_op v' = op /\ v_held v' = [] /\ v_mic v' = MNone /\ v_fly v' = [] /\ v_pend v' = [].

  (** a placement attempt of the new item inside the critical section of its key: the linearization point *)
  Lemma safe_place_lp {R} t k tb (o : iop) (r : res) limit (kont : V -> prog R) (Q : R -> tview -> Prop) v :
    csview v k -> tb < 2 -> vlookup v k = None -> v_op v = Pending (o : Op ISet) ->
    (forall s, khas k s = false -> istep s o = ((k, t) :: s, r)) ->
    (forall v' w, csview v' k -> v_held v' = v_held v -> v_op v' = Linearized (o : Op ISet) (r : Res ISet) -> vn w = 1 -> safe t (kont w) v' Q) ->
    safe t (kont (vnat 0)) v Q ->
    safe t (Act (a_place (c_ord cf) tb (hsel (hashes cf k) tb) (k, t) limit) kont) v Q.
  Proof.
    intros Hcs Htb Hvl Hop Hstep Hyes Hno. cbn [Conc.safe]. intros g a tr Hi Hv. unfold view in Hv. pose proof Hi as [Hc _].
    assert (Hcs' : csview (a_view a t) k) by now rewrite Hv.
    destruct (view_facts g a tr t k Hi Hcs') as [Hb Hl]. rewrite Hv in Hb, Hl.
    assert (Hlk : lookup g k = None) by congruence.
    unfold a_place. fold (T g tb (bidx g (hsel (hashes cf k) tb))). change (bidx g (hsel (hashes cf k) tb)) with (bk g k tb).
    destruct (Nat.ltb (List.length (T g tb (bk g k tb))) limit); cbn [fst snd].
    - set (new := ins_item (c_ord cf) (k, t) (T g tb (bk g k tb))).
      set (v2 := with_op (with_tab v tb (bk g k tb) new [] []) (Linearized (o : Op ISet) (r : Res ISet))).
      pose proof Hcs as (F0 & F1 & F2 & F3 & F4).
      exists (seta (setv a t v2) (a_atr a ++ [ALin t])). split; [|split].
      + apply (Inv_lp_insert g a tr t v2 k tb new o r KLd o_mask true Hi); auto.
        * eapply in_cs_of_view; eauto.
        * now rewrite Hv.
        * rewrite Hv. unfold v2. repeat split; cbn; auto.
        * intros y. apply ins_item_in.
        * apply ins_item_keys_nodup; [apply (lookup_none g k Hlk tb Htb)|apply (c_nodup Hc)].
      + intros t' Hne. unfold view. cbn [a_view seta]. now apply setv_other.
      + unfold view. cbn [a_view seta]. rewrite setv_same. apply Hyes; [|reflexivity|reflexivity|reflexivity].
        unfold v2. repeat split; cbn; auto.
    - exists a. split; [eapply Inv_acc; eauto|]. split; [apply frame_refl|]. unfold view. rewrite Hv. exact Hno.
  Qed.

  Lemma safe_insert_places t k (o : iop) (rins : res) (r : nat * nat) (again : prog (option (nat * nat)))
        (Q : (nat * nat) -> tview -> Prop) v1 :
    csview v1 k -> v_held v1 = [l1k k; l0k k] -> vlookup v1 k = None -> v_op v1 = Pending (o : Op ISet) ->
    (forall s, khas k s = false -> istep s o = ((k, t) :: s, rins)) ->
    (forall v', fin_view (Linearized (o : Op ISet) (rins : Res ISet)) v' -> Q r v') ->
    (forall v', fin_view (Pending (o : Op ISet)) v' -> safe t again v' (optQ Q)) ->
    safe t
      (Act (a_place (c_ord cf) 0 (fst (hashes cf k)) (k, t) (c_th cf)) (fun v0 =>
         if Nat.eqb (vn v0) 1 then Act a_count_faa (fun _ => thenu (unlock2 (l0k k, l1k k)) (oret r)) else
         Act (a_place (c_ord cf) 1 (snd (hashes cf k)) (k, t) (c_th cf)) (fun v1 =>
           if Nat.eqb (vn v1) 1 then Act a_count_faa (fun _ => thenu (unlock2 (l0k k, l1k k)) (oret r)) else
           Act (a_place (c_ord cf) 0 (fst (hashes cf k)) (k, t) (c_ps cf)) (fun w0 =>
             if Nat.eqb (vn w0) 1 then
               Act a_count_faa (fun _ => thenu (unlock2 (l0k k, l1k k))
                 (bindo (relocate cf relocate_limit (S t) 0 (hashes cf (match vl w0 with y :: _ => key_of y | [] => k end))) (fun ok =>
                    if ok then oret r else bindo (resize cf (S t)) (fun _ => oret r))))
             else
             Act (a_place (c_ord cf) 1 (snd (hashes cf k)) (k, t) (c_ps cf)) (fun w1 =>
               if Nat.eqb (vn w1) 1 then
                 Act a_count_faa (fun _ => thenu (unlock2 (l0k k, l1k k))
                   (bindo (relocate cf relocate_limit (S t) 1 (hashes cf (match vl w1 with y :: _ => key_of y | [] => k end))) (fun ok =>
                      if ok then oret r else bindo (resize cf (S t)) (fun _ => oret r))))
               else thenu (unlock2 (l0k k, l1k k)) (bindo (resize cf (S t)) (fun _ => again)))))))
      v1 (optQ Q).
  Proof.
    intros Hcs Hh Hvl Hop Hstep HQ Hagain.
    (* after the linearization point: count, unlock, done *)
    assert (Hdone : forall vv, csview vv k -> v_held vv = v_held v1 -> v_op vv = Linearized (o : Op ISet) (rins : Res ISet) ->
              safe t (Act a_count_faa (fun _ => thenu (unlock2 (l0k k, l1k k)) (oret r))) vv (optQ Q)).
    { intros vv (C0 & C1 & C2 & C3 & C4) Ch Co. apply safe_silent; [silent|]. intros g a tr _ _.
      eapply safe_cs_exit with (H := []); eauto; [congruence|].
      intros v' B1 B2 B3 B4 B5. apply safe_oret. apply HQ. repeat split; auto. congruence. }
    (* ... or a relocation, perhaps a resize *)
    assert (Hreloc : forall vv tb goal, tb < 2 -> csview vv k -> v_held vv = v_held v1 -> v_op vv = Linearized (o : Op ISet) (rins : Res ISet) ->
              safe t (Act a_count_faa (fun _ => thenu (unlock2 (l0k k, l1k k))
                 (bindo (relocate cf relocate_limit (S t) tb goal) (fun ok =>
                    if ok then oret r else bindo (resize cf (S t)) (fun _ => oret r))))) vv (optQ Q)).
    { intros vv tb goal Htb (C0 & C1 & C2 & C3 & C4) Ch Co. apply safe_silent; [silent|]. intros g a tr _ _.
      eapply safe_cs_exit with (H := []); eauto; [congruence|].
      intros v' B1 B2 B3 B4 B5. apply safe_bindo.
      eapply Conc.safe_weaken; [|eapply (safe_relocate t v' [])]; [|repeat split; auto; rewrite B5; congruence|exact Htb].
      intros [ok|] v'' Hq; cbn [optQ] in *; auto. destruct Hq as (S1 & S2 & S3 & S4 & S5).
      assert (Hfv : fin_view (Linearized (o : Op ISet) (rins : Res ISet)) v'') by (repeat split; congruence).
      destruct ok; [apply safe_oret; apply HQ; exact Hfv|].
      destruct Hfv as (G1 & G2 & G3 & G4 & G5).
      apply safe_bindo. eapply Conc.safe_weaken; [|apply safe_resize; auto].
      intros [u|] v3 Hq; cbn [optQ] in *; auto. destruct Hq as (R1 & R2 & R3 & R4 & R5).
      apply HQ. repeat split; auto. congruence. }
    pose proof Hcs as (C0 & C1 & C2 & C3 & C4).
    apply (safe_place_lp t k 0 o rins); auto.
    { intros v' w P1 P2 P3 E. rewrite E. cbn [Nat.eqb]. apply Hdone; auto. }
    cbn [vn vnat Nat.eqb]. apply (safe_place_lp t k 1 o rins); auto.
    { intros v' w P1 P2 P3 E. rewrite E. cbn [Nat.eqb]. apply Hdone; auto. }
    cbn [vn vnat Nat.eqb]. apply (safe_place_lp t k 0 o rins); auto.
    { intros v' w P1 P2 P3 E. rewrite E. cbn [Nat.eqb]. apply Hreloc; auto. }
    cbn [vn vnat Nat.eqb]. apply (safe_place_lp t k 1 o rins); auto.
    { intros v' w P1 P2 P3 E. rewrite E. cbn [Nat.eqb]. apply Hreloc; auto. }
    cbn [vn vnat Nat.eqb].
    eapply safe_cs_exit with (H := []); eauto.
    intros v' B1 B2 B3 B4 B5. apply safe_bindo. eapply Conc.safe_weaken; [|apply safe_resize; auto].
    intros [u|] v3 Hq; cbn [optQ] in *; auto. destruct Hq as (R1 & R2 & R3 & R4 & R5).
    apply Hagain. repeat split; auto. congruence.
  Qed.

  Definition iop_upd (upd : option bool) (k t : nat) : iop :=
    match upd with None => IInsert k t | Some al => IUpdate k t al end.
  Definition res_upd (upd : option bool) (r : nat * nat) : res :=
    match upd with None => RBool (n2b (fst r)) | Some _ => RPair (n2b (fst r)) (n2b (snd r)) end.

  Lemma safe_do_insert t k upd : forall fuel v,
    fin_view (Pending (iop_upd upd k t : Op ISet)) v ->
    safe t (do_insert cf fuel (S t) upd (k, t)) v
      (optQ (fun r v' => fin_view (Linearized (iop_upd upd k t : Op ISet) (res_upd upd r : Res ISet)) v')).
  Proof.
    induction fuel as [|f IH]; intros v (Hop & Hh & Hm & Hf & Hp); cbn [do_insert]; [exact I|].
    set (o := iop_upd upd k t) in *.
    apply safe_bindo. apply safe_cell_lock; auto.
    intros v1 A1 A2 A3 A4 A5 _. cbn [key_of fst] in *. fold (l0k k) (l1k k) in *. rewrite contains_is_gen.
    assert (Hcs : csview v1 k).
    { split; [rewrite A2; right; now left|]. split; [rewrite A2; now left|]. split; auto. split; congruence. }
    rewrite Hh in A2.
    set (Q := fun (r : nat * nat) v' => fin_view (Linearized (o : Op ISet) (res_upd upd r : Res ISet)) v').
    assert (Hex : forall r vv, csview vv k -> v_held vv = v_held v1 -> v_op vv = Linearized (o : Op ISet) (res_upd upd r : Res ISet) ->
              safe t (thenu (unlock2 (l0k k, l1k k)) (oret r)) vv (optQ Q)).
    { intros r vv (C0 & C1 & C2 & C3 & C4) Ch Co. eapply safe_cs_exit with (H := []); eauto; [rewrite Ch; exact A2|].
      intros v' B1 B2 B3 B4 B5. apply safe_oret. unfold Q. repeat split; auto. congruence. }
    set (rfound := match upd with None => RBool false | Some _ => RPair true false end).
    set (dnone := match upd with Some false => Some (RPair false false) | _ => None end).
    apply (safe_contains t k o (fun _ => Some rfound) dnone _ _ v1 Hcs); [congruence| | | |].
    - intros x r E s Hs. inversion E; subst r. unfold o, rfound. destruct upd as [al|]; cbn; rewrite khas_kget, Hs; reflexivity.
    - intros r E s Hs. unfold dnone in E. destruct upd as [[|]|]; try discriminate. inversion E; subst r.
      unfold o. cbn. rewrite khas_kget, Hs. reflexivity.
    - intros tb x Htb _ _. apply Nat.ltb_lt in Htb. rewrite Htb. cbn [lin_view].
      apply Hex; [exact Hcs|reflexivity|]. cbn [with_op v_op]. unfold rfound, res_upd. destruct upd; reflexivity.
    - intros Hvl. cbn [Nat.ltb Nat.leb].
      assert (Hpl : forall u rins, dnone = None -> res_upd upd (1, u) = rins -> (forall s, khas k s = false -> istep s o = ((k, t) :: s, rins)) ->
                safe t
      (Act (a_place (c_ord cf) 0 (fst (hashes cf k)) (k, t) (c_th cf)) (fun v0 =>
         if Nat.eqb (vn v0) 1 then Act a_count_faa (fun _ => thenu (unlock2 (l0k k, l1k k)) (oret (1, u))) else
         Act (a_place (c_ord cf) 1 (snd (hashes cf k)) (k, t) (c_th cf)) (fun v1 =>
           if Nat.eqb (vn v1) 1 then Act a_count_faa (fun _ => thenu (unlock2 (l0k k, l1k k)) (oret (1, u))) else
           Act (a_place (c_ord cf) 0 (fst (hashes cf k)) (k, t) (c_ps cf)) (fun w0 =>
             if Nat.eqb (vn w0) 1 then
               Act a_count_faa (fun _ => thenu (unlock2 (l0k k, l1k k))
                 (bindo (relocate cf relocate_limit (S t) 0 (hashes cf (match vl w0 with y :: _ => key_of y | [] => k end))) (fun ok =>
                    if ok then oret (1, u) else bindo (resize cf (S t)) (fun _ => oret (1, u)))))
             else
             Act (a_place (c_ord cf) 1 (snd (hashes cf k)) (k, t) (c_ps cf)) (fun w1 =>
               if Nat.eqb (vn w1) 1 then
                 Act a_count_faa (fun _ => thenu (unlock2 (l0k k, l1k k))
                   (bindo (relocate cf relocate_limit (S t) 1 (hashes cf (match vl w1 with y :: _ => key_of y | [] => k end))) (fun ok =>
                      if ok then oret (1, u) else bindo (resize cf (S t)) (fun _ => oret (1, u)))))
               else thenu (unlock2 (l0k k, l1k k)) (bindo (resize cf (S t)) (fun _ => do_insert cf f (S t) upd (k, t))))))))
                (lin_view v1 o dnone) (optQ Q)).
      { intros u rins Hd Hr Hst. rewrite Hd. cbn [lin_view].
        apply (safe_insert_places t k o rins (1, u) _ Q v1 Hcs A2 Hvl); [congruence|exact Hst| |].
        - intros v' (G1 & G2 & G3 & G4 & G5). unfold Q. rewrite Hr. repeat split; auto.
        - intros v' Hfv. apply IH. exact Hfv. }
      destruct upd as [[|]|].
      + apply (Hpl 1 (RPair true true)); [reflexivity|reflexivity|]. intros s Hs. unfold o. cbn. now rewrite Hs.
      + cbn [lin_view dnone]. apply Hex; [exact Hcs|reflexivity|reflexivity].
      + apply (Hpl 0 (RBool true)); [reflexivity|reflexivity|]. intros s Hs. unfold o. cbn. now rewrite Hs.
  Qed.


  (** *** a whole operation, a thread *)
  Lemma safe_run_op t o v : fin_view Lin.Idle v -> safe t (run_op cf t o) v (optQ (fun _ v' => fin_view Lin.Idle v')).
  Proof.
    intros (Hop & Hh & Hm & Hf & Hp). unfold run_op.
    set (c := nth 0 o 0). set (k := nth 1 o 0). set (x := nth 2 o 0). set (y := nth 3 o 0).
    destruct (op_of_code c y) as [co|] eqn:Hoc; [|apply safe_oret; repeat split; auto].
    cbn [Conc.safe]. intros g a tr Hi Hv. unfold view in Hv.
    eexists. split; [apply (Inv_cli g a tr t (Pending (iop_of_cop co k t : Op ISet)) "inv" _ (a_atr a ++ [AInv t (iop_of_cop co k t : Op ISet)]) Hi)|].
    { intros s st H1 H3 H2. split.
      - eapply lp_ext; [exact H1|]. cbn [lp_step]. rewrite H3, Hv, Hop. reflexivity.
      - rewrite erase_app, H2, (hist_inv tr t c k x y (iop_of_cop co k t) (iop_of_ccode c k t y co Hoc)). reflexivity. }
    split; [intros t' Hne; unfold view; cbn [a_view seta]; now apply setv_other|].
    unfold view. cbn [a_view seta]. rewrite setv_same, Hv. clear g a tr Hi Hv.
    set (v1 := with_op v (Pending (iop_of_cop co k t : Op ISet))).
    assert (Hfin : forall r v', fin_view (Linearized (iop_of_cop co k t : Op ISet) (res_of_cop co (fst r) (snd r) : Res ISet)) v' ->
              safe t (Emit [EvCli "ret" (zl [c; fst r; r2_of_code c k (fst r) (snd r)])] (oret tt)) v' (optQ (fun _ v'' => fin_view Lin.Idle v''))).
    { intros r v' (G1 & G2 & G3 & G4 & G5). eapply Conc.safe_weaken; [|eapply (safe_fin t c k y co (fst r) (snd r) v' Hoc); exact G1].
      intros [u|] l' Hl; cbn [optQ] in *; auto. subst l'. repeat split; auto. }
    assert (Hidle : forall u v', idle_view v1 v' -> optQ (fun (_ : unit) v'' => fin_view Lin.Idle v'') u v').
    { intros [u|] v' Hq; cbn [optQ]; auto. destruct Hq as (I1 & I2 & I3 & I4 & I5). repeat split; auto. rewrite I2. exact Hh. }
    destruct co as [|allow| | |].
    - apply safe_bindo. eapply Conc.safe_weaken; [|apply (safe_do_insert t k None (c_fuel cf) v1); repeat split; auto].
      intros [r|] v' Hq; cbn [optQ] in *; [apply Hfin; exact Hq|exact I].
    - apply safe_bindo. eapply Conc.safe_weaken; [|apply (safe_do_insert t k (Some allow) (c_fuel cf) v1); repeat split; auto].
      intros [r|] v' Hq; cbn [optQ] in *; [apply Hfin; exact Hq|exact I].
    - eapply Conc.safe_weaken; [|apply (safe_erase t c k y CUnlink v1 Hoc); auto].
      intros [u|] v' Hq; [apply (Hidle (Some u)); exact Hq|exact I].
    - eapply Conc.safe_weaken; [|apply (safe_erase t c k y CErase v1 Hoc); auto].
      intros [u|] v' Hq; [apply (Hidle (Some u)); exact Hq|exact I].
    - eapply Conc.safe_weaken; [|apply (safe_find t c k y v1 Hoc); auto].
      intros [u|] v' Hq; [apply (Hidle (Some u)); exact Hq|exact I].
  Qed.

  Lemma safe_run_ops t os : forall v, fin_view Lin.Idle v -> safe t (run_ops cf t os) v (fun _ _ => True).
  Proof.
    induction os as [|o r IH]; intros v Hv; cbn [run_ops]; [exact I|].
    apply Conc.safe_bind. eapply Conc.safe_weaken; [|apply safe_run_op; auto].
    intros [u|] v' H; cbn [optQ] in H.
    - apply IH; auto.
    - cbn [Conc.safe]. intros g a tr Hi Hv'. exists a. split; [now apply Inv_oof|]. split; [apply frame_refl|exact I].
  Qed.

  Lemma safe_thread t os v : fin_view Lin.Idle v -> safe t (thread_prog cf t os) v (@Conc.QTrue tview).
  Proof.
    intros Hv. unfold thread_prog. apply safe_silent; [silent|].
    intros g a tr _ _. eapply Conc.safe_weaken; [|apply safe_run_ops; auto]. intros; exact I.
  Qed.


  (** ** the initial configuration *)
  Definition a0 : Aux := mkAux (fun _ => mkTV Lin.Idle [] MNone 0 (fun _ _ => []) [] []) [].

  Lemma nth_error_mapi {A B} (f : nat -> A -> B) : forall l i t, nth_error (mapi f i l) t = option_map (f (i + t)) (nth_error l t).
  Proof.
    induction l as [|x r IH]; intros i [|t]; cbn; auto.
    - now rewrite Nat.add_0_r.
    - rewrite IH. now rewrite Nat.add_succ_r.
  Qed.

  Lemma init_T tb b : T (init cf) tb b = [].
  Proof. unfold CuckooConcInv.T, init. cbn [tabs]. apply get_bkt_empty. Qed.

  Lemma init_ok ths : Conc.cfg_ok view Inv (init_cfg cf ths).
  Proof.
    exists a0. split.
    - cbn [init_cfg Conc.shared Conc.trace]. split.
      + constructor; unfold held, mic, fly, pend; cbn [a0 a_view v_held v_mic v_fly v_pend v_mask v_reg].
        * intros l H. exfalso. apply H. reflexivity.
        * intros t l [].
        * intros t t' l [].
        * intros l. now left.
        * intros t l [].
        * intros t l [E|E]; discriminate.
        * intros t gg tb i [].
        * intros t (i & []).
        * intros t tb b _ [(i & []) _].
        * cbn [init tabs mask List.length nth]. split; [reflexivity|]. split.
          -- intros tb Htb. destruct tb as [|[|tb]]; [| |lia]; cbn [nth]; rewrite repeat_length; lia.
          -- exists 1. split; lia.
        * intros tb b x _ H. rewrite init_T in H. destruct H.
        * intros tb b. rewrite init_T. constructor.
        * intros b b' x y H. rewrite init_T in H. destruct H.
        * intros t x [].
        * intros t. cbn. lia.
        * intros t H. exfalso. apply H. reflexivity.
        * intros t. split; [constructor|intros x []].
      + right. exists [], (fun _ => Lin.Idle). cbn [a0 a_atr a_view v_op]. split; [reflexivity|]. split; [reflexivity|]. split; [reflexivity|].
        split; [constructor|]. intros x. split; [intros []|].
        intros [(tb & b & _ & H)|[(t & H)|(t & H)]]; [rewrite init_T in H; destruct H|destruct H|destruct H].
    - intros t p Hp. cbn [init_cfg Conc.threads] in Hp. rewrite nth_error_mapi in Hp.
      destruct (nth_error ths t) as [os|]; inversion Hp; subst. cbn [Nat.add].
      apply safe_thread. repeat split.
  Qed.

  (** ** theorems *)

  (** every concurrent history of the model in which resize() never fell through without re-inserting an item
      (property C17's sequential defect, marked in the trace by the ghost event) is linearizable *)
  Theorem cuckoo_striping_linearizable ths (c : Conc.config G V ev) :
    Conc.reach (init_cfg cf ths) c -> ~ dropped (Conc.trace c) -> linearizable ISet (hist_of (Conc.trace c)).
  Proof.
    intros Hr Hnd. destruct (Conc.reach_Inv (init_ok ths) Hr) as (a & _ & [Hd|(s & st & H1 & H2 & _)]); [contradiction|].
    rewrite <- H2. apply lp_valid_linearizable. eexists; eauto.
  Qed.

  (** no key is ever present twice (unconditionally): every probe set has distinct keys, an item is only in a probe
      set its own hashes select, a key is never in both tables; so all the keys of the two tables are distinct *)
  Theorem cuckoo_striping_nodup ths (c : Conc.config G V ev) :
    Conc.reach (init_cfg cf ths) c ->
    let g := Conc.shared c in
    (forall tb b, NoDup (keys (T g tb b))) /\
    (forall tb b x, tb < 2 -> In x (T g tb b) -> hsel (hashes cf (fst x)) tb mod S (mask g) = b) /\
    (forall b b' x y, In x (T g 0 b) -> In y (T g 1 b') -> fst x <> fst y) /\
    NoDup (keys (all_items g)).
  Proof.
    intros Hr g. destruct (Conc.reach_Inv (init_ok ths) Hr) as (a & Hc & _).
    split; [apply (c_nodup Hc)|]. split; [apply (c_placed Hc)|]. split; [apply (c_cross Hc)|].
    apply (all_items_nodup cf _ a Hc).
  Qed.

  (** the two cell locks of a key protect its two probe sets, also across a resize: there is an assignment [a] of
      lock sets to the threads, consistent with the lock words, such that a thread that holds the locks of the two
      stripes of a probe set (or all table-0 locks: the resizer) sees no step of another thread change the bucket
      mask or that probe set *)
  Theorem cuckoo_cell_locks_stable_thm ths (c : Conc.config G V ev) :
    Conc.reach (init_cfg cf ths) c ->
    exists a : Aux,
      (forall l, rspin (Conc.shared c) l <> 0 <-> exists t, In l (held a t)) /\
      (forall t t' l, In l (held a t) -> In l (held a t') -> t = t') /\
      (forall h, (h mod S (mask (Conc.shared c))) mod L = h mod L) /\
      (forall t' c', Conc.step_cfg c t' = Some c' ->
         forall t tb b, t <> t' -> tb < 2 -> auth (a_view a t) tb b ->
           mask (Conc.shared c') = mask (Conc.shared c) /\ T (Conc.shared c') tb b = T (Conc.shared c) tb b).
  Proof.
    intros Hr. pose proof (Conc.reach_inv (init_ok ths) Hr) as Hok.
    pose proof Hok as (a & Hi & Hts). exists a. pose proof Hi as [Hc _].
    split; [|split; [|split]].
    - intros l. split; [apply (c_spin0 Hc)|]. intros (t & Hin). rewrite (c_spin Hc t l Hin). apply in_cnt in Hin. lia.
    - apply (c_excl Hc).
    - intros h. apply (stripe_mod cf _ a h Hc).
    - intros t' c' Hs t tb b Hne Htb Hau.
      unfold Conc.step_cfg in Hs.
      destruct (nth_error (Conc.threads c) t') as [p|] eqn:Hp; [|discriminate].
      unfold Conc.step_thread in Hs. destruct p as [r|es k|f k]; try discriminate.
      pose proof (Hts t' _ Hp) as Hsafe. cbn [Conc.safe] in Hsafe.
      destruct (Hsafe _ _ _ Hi eq_refl) as (a1 & H1 & H2 & H3).
      destruct (f (Conc.shared c)) as [[g' v] es] eqn:Hf. cbn [fst snd] in *.
      destruct (Conc.settle (k v)) as [es' p'] eqn:Hk.
      inversion Hs; subst c'; clear Hs. cbn [Conc.shared].
      destruct H1 as [Hc1 _].
      assert (Hv : a_view a1 t = a_view a t) by (apply H2; exact Hne).
      assert (Hau1 : auth (a_view a1 t) tb b) by now rewrite Hv.
      split.
      + destruct Hau as [H0 _]. rewrite (c_mask Hc1 t ltac:(rewrite Hv; exact H0)), (c_mask Hc t H0). now rewrite Hv.
      + rewrite (c_reg Hc1 t tb b Htb Hau1), (c_reg Hc t tb b Htb Hau). now rewrite Hv.
  Qed.

End Striping.

(** ** the statements for every mutex policy, and the part of them that is proved.

    [cuckoo_linearizable_statement] / [cuckoo_nodup_statement] quantify over both policies.  Proved above: the
    lock-striping policy (cuckoo::striping<>), for every schedule, any number of threads, any client programs,
    including concurrent relocations and resizes.

    The refinable policy (cuckoo::refinable<>) is proved in [CuckooConcRefInv.v] / [CuckooConcRefProofs.v] (lock /
    ownership protocol, invariant [CoreR]) and [CuckooConcFInv.v] / [CuckooConcFProofs.v] ([CoreR] combined with the
    probe-set part of [Core] of this file: snapshots refreshed at the validation step of acquire() and when the
    resizer becomes exclusive, authority = validated or exclusive owner, the same linearization points).
    [CuckooConcAll.v] puts the two policies together: [cuckoo_linearizable], [cuckoo_nodup] are the two
    statements below. *)
Definition cuckoo_linearizable_statement : Prop :=
  forall cf, 0 < c_nl cf ->
  forall ths (c : Conc.config G V ev), Conc.reach (init_cfg cf ths) c ->
    ~ dropped (Conc.trace c) -> linearizable ISet (hist_of (Conc.trace c)).

Definition cuckoo_nodup_statement : Prop :=
  forall cf, 0 < c_nl cf ->
  forall ths (c : Conc.config G V ev), Conc.reach (init_cfg cf ths) c ->
    let g := Conc.shared c in
    (forall tb b, NoDup (keys (CuckooConcInv.T g tb b))) /\
    (forall tb b x, tb < 2 -> In x (CuckooConcInv.T g tb b) -> hsel (hashes cf (fst x)) tb mod S (mask g) = b) /\
    (forall b b' x y, In x (CuckooConcInv.T g 0 b) -> In y (CuckooConcInv.T g 1 b') -> fst x <> fst y) /\
    NoDup (keys (all_items g)).

Theorem cuckoo_linearizable_partial :
  forall cf, c_pol cf = Striping -> 0 < c_nl cf ->
  forall ths (c : Conc.config G V ev), Conc.reach (init_cfg cf ths) c ->
    ~ dropped (Conc.trace c) -> linearizable ISet (hist_of (Conc.trace c)).
Proof. exact cuckoo_striping_linearizable. Qed.

Theorem cuckoo_nodup_partial :
  forall cf, c_pol cf = Striping -> 0 < c_nl cf ->
  forall ths (c : Conc.config G V ev), Conc.reach (init_cfg cf ths) c ->
    let g := Conc.shared c in
    (forall tb b, NoDup (keys (CuckooConcInv.T g tb b))) /\
    (forall tb b x, tb < 2 -> In x (CuckooConcInv.T g tb b) -> hsel (hashes cf (fst x)) tb mod S (mask g) = b) /\
    (forall b b' x y, In x (CuckooConcInv.T g 0 b) -> In y (CuckooConcInv.T g 1 b') -> fst x <> fst y) /\
    NoDup (keys (all_items g)).
Proof. exact cuckoo_striping_nodup. Qed.

(** a decidable test for "no item was dropped" (for the examples) *)
Definition is_drop (te : nat * ev) : bool :=
  match snd te with EvCli n [_] => String.eqb n DroppedName.name | _ => false end.
Lemma no_drop_events tr : existsb is_drop tr = false -> ~ dropped tr.
Proof.
  intros H (t & k & Hin).
  assert (E : existsb is_drop tr = true) by (apply existsb_exists; eexists; split; [exact Hin|apply String.eqb_refl]).
  congruence.
Qed.
