(** * DhpLiveGxP: C02, second sentence for DHP -- THE THEOREMS.
      [dhp_cell_disc]: in every reachable configuration of the DHP model (every schedule, every number of threads, every
      client program), if the embedded free lists behaved and extension blocks have at least one cell, the trace
      satisfies the allocator discipline [cell_disc] (DhpLiveGcA): Guard() is given a cell of the thread's own attached
      record that no Guard holds; the cells of a block being prepared by hp_allocator::alloc belong to no attached record.
      Proof: four invariants, each on top of the previous ones (rule [dsafe_pair] of DhpLiveGcRule):
        [InvA] (C02, DhpInvA) x [InvG] (the Guard table of the trace, DhpLiveGcC/GxA) x [InvB3] (guard-block ownership
        over the trace, DhpLiveGxE/F) x [InvC3] ([cell_disc] + thread-record ownership [JR] + the free guard chains [JCh],
        DhpLiveGxG..GxO).
      [dhp_guard_cell_exclusive_corrected]: the statement kept open in DhpLiveGcE.
      [dhp_guarded_ptr_live]: the second sentence of C02 for DHP at the level of the client's Guard object, with no
      unproved hypothesis. *)
From Coq Require Import ZArith NArith List String Bool Lia PeanoNat.
From LV Require Import Base.Conc Base.Events Model.DhpLang Model.Dhp Proofs.DhpBase Proofs.DhpHist
  Proofs.DhpLangProofs Proofs.DhpInvA Proofs.DhpInvB Proofs.DhpMainB Proofs.DhpProofsC02 Proofs.DhpLiveA Proofs.DhpLiveB
  Proofs.DhpLiveD Proofs.DhpLiveE Proofs.DhpLiveF Proofs.DhpFlThm Proofs.DhpLiveGsG
  Proofs.DhpLiveGcRule Proofs.DhpLiveGcA Proofs.DhpLiveGcB Proofs.DhpLiveGcC Proofs.DhpLiveGcE Proofs.DhpLiveGz
  Proofs.DhpLiveGxA Proofs.DhpLiveGxB Proofs.DhpLiveGxC Proofs.DhpLiveGxE Proofs.DhpLiveGxF
  Proofs.DhpLiveGxG Proofs.DhpLiveGxH Proofs.DhpLiveGxI Proofs.DhpLiveGxO.
Import ListNotations.
Local Open Scope string_scope.
Local Open Scope list_scope.

Definition InvAGBC (c : cfg) := Inv12 (InvAGB c) (InvC3 c).
Definition viewAGBC := view12 viewAGB viewC3.

Lemma spec_threadAGB c t os : dsafe viewAGB (InvAGB c) t (thread_src c t os) ((va0, vg0), (vg0, xb0)) (fun _ _ => True).
Proof.
  eapply dsafe_weaken; [|apply (dsafe_pair viewAG (InvAG c) viewB3 (InvB3 c) t (thread_src c t os) _ _ (va0, vg0) (vg0, xb0)
                                  (spec_threadAG c t os) (spec_threadB c t os))].
  intros r l _. exact I.
Qed.

Lemma JC_init c : JC c (init c) gs0 (fun _ => xc0) h0.
Proof.
  constructor.
  - constructor.
    + intros w r E. discriminate.
    + intros u n E. discriminate.
    + split; [intros n E; discriminate|]. intros r' n E. unfold grec in E. cbn in E. destruct r'; discriminate.
    + intros u r [].
  - constructor.
    + intros r L. cbn in L. lia.
    + intros b L. cbn in L. lia.
    + intros t r E. discriminate.
    + intros t r E. discriminate.
    + intros t b n lk E. discriminate.
    + intros t s E. discriminate.
Qed.

Lemma cfg_ok_initAGBC fuel c ths : Conc.cfg_ok viewAGBC (InvAGBC c) (init_cfg fuel c ths).
Proof.
  exists (((aux0, gs0), mkAB gs0 (fun _ => xb0)), mkAC gs0 (fun _ => xc0)). split.
  - split; cbn [fst snd Conc.shared Conc.trace init_cfg].
    + split; cbn [fst snd].
      * split; cbn [fst snd].
        -- intros _. split; [apply JA_init|]. intros tr1 t p tr2 E. destruct tr1; discriminate.
        -- split; [reflexivity|]. intros _ _. split; [intros m u e Hn; destruct m; discriminate|intros u j k Ho; discriminate].
      * split; [reflexivity|]. intros _ _. apply JB_init.
    + split; [reflexivity|]. intros _ _. split; [intros m u e Hn; destruct m; discriminate|apply JC_init].
  - intros t p Hp. unfold init_cfg in Hp. cbn [Conc.threads] in Hp. rewrite nth_error_map in Hp.
    destruct (nth_error (combine (seq 0 (List.length ths)) ths) t) as [[t' os]|] eqn:E; [|discriminate].
    cbn in Hp. inversion Hp; subst p. apply nth_error_combine_seq in E. cbn in E. subst t'.
    apply compile_safe.
    eapply dsafe_weaken; [|apply (dsafe_pair viewAGB (InvAGB c) viewC3 (InvC3 c) t (thread_src c t os) _ _ ((va0, vg0), (vg0, xb0)) (vg0, xc0)
                                    (spec_threadAGB c t os) (spec_threadC c t os))].
    intros r l _. exact I.
Qed.

(** the allocator discipline *)
Theorem dhp_cell_disc : forall fuel c ths conf, Conc.reach (init_cfg fuel c ths) conf ->
  flbad (hist (Conc.trace conf)) = false -> 1 <= c_GB c -> cell_disc c (Conc.trace conf).
Proof.
  intros fuel c ths conf Hr Hf HG. destruct (Conc.reach_Inv (cfg_ok_initAGBC fuel c ths) Hr) as ((a123 & a4) & _ & (E & H)).
  cbn [snd] in *. now destruct (H Hf HG).
Qed.

(** the statement kept open in DhpLiveGcE *)
Theorem dhp_guard_cell_exclusive_corrected : dhp_guard_cell_exclusive_corrected_statement.
Proof.
  intros fuel c ths conf Hr Hf HG. apply (dhp_guard_cell_exclusive_of_disc fuel c ths conf Hr Hf). now apply (dhp_cell_disc fuel c ths conf Hr).
Qed.

(** the second sentence of C02 for DHP at the level of the client's Guard object *)
Theorem dhp_guarded_ptr_live : forall fuel c ths conf,
  Conc.reach (init_cfg fuel c ths) conf ->
  4 <= c_RB c -> c_old c = false -> c_oldtail c = false -> 1 <= c_GB c ->
  (Z.of_nat (List.length ths) + 3 < 2147483648)%Z ->
  NoDup (flat_map (fun e => retired_ev (snd e)) (Conc.trace conf)) ->
  forall p, p <> 0 -> publish_once (Conc.trace conf) p -> retire_after_unlink (Conc.trace conf) p ->
  forall v t j k, nth_error (Conc.trace conf) v = Some (t, EvCli "ret" [zn p]) ->
    lop (sfold (firstn v (Conc.trace conf))) t = [7%Z; zn j; zn k] ->
  forall d u, v < d -> nth_error (Conc.trace conf) d = Some (u, ev_dispose p) ->
  exists i e, v < i < d /\ nth_error (Conc.trace conf) i = Some (t, e) /\ releasesD j e.
Proof.
  apply dhp_guarded_ptr_live_full_from_cell_disc. exact dhp_cell_disc.
Qed.
