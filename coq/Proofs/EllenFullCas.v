(** * EllenFull (fork of EllenDelCas.v for the invariant of EllenFullInv.v) *)
(** * EllenBinTree<HP> with erase: the two steps that change the tree — the child CAS of help_insert (linearization
      point of a successful insert) and the child CAS of help_marked (linearization point of a successful erase) *)
From Coq Require Import ZArith List String Bool Lia PeanoNat.
From LV Require Import Base.Conc Base.Events Base.Lin Spec.Specs Proofs.LinProofs.
From LV Require Import Model.Ellen Proofs.EllenProofs Proofs.EllenDelBase Proofs.EllenFullInv Proofs.EllenFullSteps.
Import ListNotations.
Local Open Scope Z_scope.

Lemma set_child_upd g p d x : upd (set_child g p d x) = upd g.
Proof. destruct d; reflexivity. Qed.
Lemma set_child_emp g p d x : emp (set_child g p d x) = emp g.
Proof. destruct d; reflexivity. Qed.
Lemma set_child_flags g p d x : flags (set_child g p d x) = flags g.
Proof. destruct d; reflexivity. Qed.
Lemma set_child_ikey g p d x : ikey (set_child g p d x) = ikey g.
Proof. destruct d; reflexivity. Qed.
Lemma set_child_other g p d x y dd : (y <> p \/ dd <> d) -> child (set_child g p d x) y dd = child g y dd.
Proof.
  intros H. unfold set_child, child. destruct d, dd; cbn; unfold upd1; try reflexivity;
    destruct (Nat.eqb_spec y p); try reflexivity; destruct H; congruence.
Qed.
Lemma set_child_same g p d x : child (set_child g p d x) p d = x.
Proof. unfold set_child, child; destruct d; cbn; unfold upd1; now rewrite Nat.eqb_refl. Qed.

Lemma zmem_cons k k0 S : zmem k (k0 :: S) = true <-> k = k0 \/ zmem k S = true.
Proof. unfold zmem. cbn [existsb]. rewrite orb_true_iff, Z.eqb_eq. tauto. Qed.
Lemma zmem_zdel k k0 S : zmem k (zdel k0 S) = true <-> k <> k0 /\ zmem k S = true.
Proof.
  unfold zmem, zdel. rewrite !existsb_exists. split.
  - intros (x & Hx & E). apply filter_In in Hx. destruct Hx as [Hx N]. apply Z.eqb_eq in E. subst x.
    split; [intros ->; rewrite Z.eqb_refl in N; discriminate|]. exists k. split; [exact Hx|apply Z.eqb_refl].
  - intros (N & x & Hx & E). apply Z.eqb_eq in E. subst x. exists k. split; [|apply Z.eqb_refl]. apply filter_In. split; [exact Hx|].
    destruct (Z.eqb_spec k0 k); [congruence|reflexivity].
Qed.

Section Cas.
Variable keys : list nat.
Notation DSAFE := (DSAFE keys).

Lemma D_cas_child_ins {R} t k0 p fp kp l0 f0 kl ni fn keyn a b leaf op chx (k : V -> prog R) lv :
  0 <= k0 < 8 ->
  kpath lv k0 p -> In (FFl p fp kp) (wf lv) -> is_internal_f fp = true ->
  In (FFl l0 f0 kl) (wf lv) -> is_internal_f f0 = false ->
  cni (wc lv) = Some (ni, fn, keyn, a, b) -> cleaf (wc lv) = Some leaf -> lkey leaf = k0 ->
  ins_shape k0 p l0 f0 leaf fn keyn a b ->
  In (mkH p op 2 None None chx) (chs (wc lv)) -> In (0 <=? cmp_node k0 fp kp, l0) chx ->
  cst (wc lv) = @Pending SetSpec (SInsert k0) ->
  DSAFE t (k (VCP true l0))
    (mkDV (wf lv) (mkC None None (hrep op (mkH p op 2 None None []) (chs (wc lv))) (cser (wc lv)) (@Linearized SetSpec (SInsert k0) (RBool true)) (cx (wc lv)))) ->
  DSAFE t (Act (a_cas_child p (0 <=? cmp_node k0 fp kp) l0 ni) k) lv.
Proof.
  intros Hk0 Hpa Hflp Hip Hfl0 Hil0 Hni Hleaf Hlk Hshape Hh0 Hchx Hst Hok. apply D_act. intros g ax tr [Hs Hil] Hv.
  destruct (parts_of g ax t lv Hs Hv) as (V1 & V2 & V3 & (V4 & V4b & V4c) & V5 & V6).
  pose proof V4 as V4'. rewrite Forall_forall in V4'. pose proof (V4' _ Hh0) as Ok0.
  pose proof Ok0 as (A0 & B0 & C0 & D0 & E0 & F0 & G0 & _ & I0). cbn [hx hop hb hn hmk hch] in *.
  destruct (facts_of g ax t lv _ Hs Hv Hflp) as (P1 & F2 & F3). destruct (facts_of g ax t lv _ Hs Hv Hfl0) as (L1 & L2 & _).
  pose proof (kpath_ev g ax t lv k0 p Hs Hv Hpa) as Evp.
  unfold P_ni in V3. rewrite Hni in V3. destruct V3 as (((O1 & O2 & O3) & O4) & N1 & N2 & N3 & N4).
  unfold P_leaf in V2. rewrite Hleaf in V2. destruct V2 as ((Q1 & Q2 & Q3) & Q4).
  assert (Hi : internal g p) by exact B0.
  assert (Hd : dirk g k0 p = (0 <=? cmp_node k0 fp kp)) by (unfold dirk; now rewrite F2, F3).
  rewrite <- Hd in *. set (d := dirk g k0 p) in *.
  assert (Ec : child g p d = l0) by (now apply I0).
  unfold a_cas_child. rewrite Ec, Nat.eqb_refl. cbn [fst snd].
  set (g' := set_child g p d ni).
  set (pub' := fun x => Nat.eqb x ni || Nat.eqb x leaf || dpub ax x).
  set (ev' := fun k n => dever ax k n \/ path g' k root n).
  set (lv' := mkDV (wf lv) (mkC None None (hrep op (mkH p op 2 None None []) (chs (wc lv))) (cser (wc lv)) (@Linearized SetSpec (SInsert k0) (RBool true)) (cx (wc lv)))).
  exists pub', ev', (ddead ax), (dmax ax), lv', (datr ax ++ [ALin t]). split; [|exact Hok].
  assert (Ndead : ~ ddead ax p) by (intros X; destruct (d_dead _ _ Hs p X) as (_ & M & _); rewrite C0 in M; cbn in M; lia).
  pose proof (d_evpath _ _ Hs k0 p Evp Hi Ndead) as Hpath.
  assert (Hroot : internal g root) by (unfold internal; rewrite (d_root _ _ Hs); reflexivity).
  assert (Hkroot : node_key g root = 1001) by (unfold node_key; rewrite (d_root _ _ Hs); reflexivity).
  assert (Hl0leaf : ~ internal g l0) by (unfold internal; rewrite L2, Hil0; discriminate).
  assert (Hleafleaf : ~ internal g leaf) by (unfold internal; rewrite Q4; discriminate).
  assert (Hkleaf : node_key g leaf = k0) by (rewrite leaf_key by exact Q4; exact Hlk).
  assert (Hnep : ni <> p) by (intros ->; congruence).
  assert (Hpl0 : dpub ax l0 = true) by exact L1.
  assert (Hkeys : internal g ni /\ ~ internal g a /\ ~ internal g b /\
                  ((a = l0 /\ node_key g b = k0) \/ (b = l0 /\ node_key g a = k0)) /\
                  node_key g a < node_key g ni <= node_key g b /\ (p = root -> node_key g ni = 1000)).
  { unfold ins_shape in Hshape. destruct Hshape as [(Hc & -> & -> & Hcase)|(Hc & -> & -> & -> & ->)].
    - destruct Hcase as [(Npr & -> & ->)|(-> & ->)].
      + assert (Hfin : node_key g l0 < 1000).
        { rewrite <- Ec. apply below_inf1; auto; [apply (d_T _ _ Hs)|apply (d_L _ _ Hs)|lia]. }
        assert (Hinf : inf_of (flags g l0) = 0) by (destruct (Z.eq_dec (inf_of (flags g l0)) 0) as [E|E]; [exact E|pose proof (node_key_inf _ _ E); lia]).
        assert (Hnl0 : node_key g l0 = lkey l0).
        { rewrite node_key_fin by exact Hinf. unfold internal in Hl0leaf. destruct (is_internal_f (flags g l0)); [contradiction|reflexivity]. }
        assert (Hnni : node_key g ni = lkey l0) by (rewrite node_key_fin by (rewrite N1; reflexivity); rewrite N1, N2; reflexivity).
        unfold cmp_node in Hc. rewrite <- L2, Hinf in Hc. cbn [Z.eqb] in Hc. unfold cmp3 in Hc.
        destruct (Z.ltb_spec k0 (lkey l0)); [|destruct (k0 =? lkey l0); lia].
        repeat split; auto; try (unfold internal; rewrite N1; reflexivity); try (right; split; auto; fail); try (left; split; auto; fail); try lia; try (intros; congruence).
      + assert (Hd0 : d = false).
        { unfold d. destruct (dirk g k0 root) eqn:E; [|reflexivity]. apply (dirk_spec g k0 root Hroot ltac:(lia)) in E. lia. }
        assert (Hnl0 : node_key g l0 = 1000) by (rewrite <- Ec, Hd0; apply (d_L _ _ Hs)).
        assert (Hnni : node_key g ni = 1000) by (unfold node_key; rewrite N1; reflexivity).
        repeat split; auto; try (unfold internal; rewrite N1; reflexivity); try (right; split; auto; fail); try (left; split; auto; fail); try lia; try (intros; congruence).
    - assert (Hinf : inf_of (flags g l0) = 0).
      { unfold cmp_node in Hc. rewrite <- L2 in Hc. destruct (Z.eqb_spec (inf_of (flags g l0)) 0); [assumption|lia]. }
      assert (Hnl0 : node_key g l0 = lkey l0).
      { rewrite node_key_fin by exact Hinf. unfold internal in Hl0leaf. destruct (is_internal_f (flags g l0)); [contradiction|reflexivity]. }
      assert (Hnni : node_key g ni = k0) by (rewrite node_key_fin by (rewrite N1; reflexivity); rewrite N1, N2; reflexivity).
      unfold cmp_node in Hc. rewrite <- L2, Hinf in Hc. cbn [Z.eqb] in Hc. unfold cmp3 in Hc.
      destruct (Z.ltb_spec k0 (lkey l0)); [lia|]. destruct (Z.eqb_spec k0 (lkey l0)); [lia|].
      repeat split; auto; try (unfold internal; rewrite N1; reflexivity); try (right; split; auto; fail); try (left; split; auto; fail); try lia; try (intros; congruence).
      intros ->. exfalso. assert (Hd0 : d = false).
      { unfold d. destruct (dirk g k0 root) eqn:E; [|reflexivity]. apply (dirk_spec g k0 root Hroot ltac:(lia)) in E. lia. }
      assert (node_key g l0 = 1000) by (rewrite <- Ec, Hd0; apply (d_L _ _ Hs)). lia. }
  destruct Hkeys as (Kni & Ka & Kb & Kab & Kord & Kroot). rewrite <- N3 in Ka, Kab, Kord. rewrite <- N4 in Kb, Kab, Kord.
  rewrite <- Ec in Hl0leaf, Kab.
  assert (HT' : T g' root (-1) 1002).
  { apply (T_insert g k0 p ni); auto; try lia. apply (d_T _ _ Hs). }
  assert (Ef : flags g' = flags g) by apply set_child_flags.
  assert (Ek : ikey g' = ikey g) by apply set_child_ikey.
  assert (Eu : upd g' = upd g) by apply set_child_upd.
  assert (Ee : emp g' = emp g) by apply set_child_emp.
  assert (Ei : forall x, internal g' x <-> internal g x) by (intros x; unfold internal; now rewrite Ef).
  assert (Edk : forall kk x, dirk g' kk x = dirk g kk x) by (intros kk x; unfold dirk; now rewrite Ef, Ek).
  assert (Eo : forall x dd, (x <> p \/ dd <> d) -> child g' x dd = child g x dd) by (intros; now apply set_child_other).
  assert (Es : child g' p d = ni) by apply set_child_same.
  assert (Hpub' : forall x, dpub ax x = true -> pub' x = true) by (intros x Hx; unfold pub'; rewrite Hx; apply orb_true_r).
  assert (Hpubni : pub' ni = true) by (unfold pub'; now rewrite Nat.eqb_refl).
  assert (Hpubleaf : pub' leaf = true) by (unfold pub'; rewrite Nat.eqb_refl; apply orb_true_iff; left; apply orb_true_r).
  assert (Hpub'inv : forall x, pub' x = true -> x = ni \/ x = leaf \/ dpub ax x = true).
  { intros x Hx. unfold pub' in Hx. apply orb_true_iff in Hx. destruct Hx as [Hx|Hx]; [|auto]. apply orb_true_iff in Hx.
    destruct Hx as [Hx|Hx]; apply Nat.eqb_eq in Hx; auto. }
  assert (Hnr : ~ insub g root ni) by (intros X; pose proof (insub_dpub g ax ni Hs X); congruence).
  assert (Hchld : forall dd, child g ni dd = l0 \/ child g ni dd = leaf).
  { intros dd. destruct dd; cbn [child]; rewrite ?N3, ?N4; destruct Hshape as [(_ & -> & -> & _)|(_ & -> & -> & _)]; auto. }
  assert (Hreach : forall x, insub g' root x -> insub g root x \/ x = ni \/ x = leaf).
  { intros x Hx. destruct (ins_reach_new g k0 p ni Hpath Hl0leaf Hnr Ka Kb Kab x Hx) as [H|[H|[H|H]]]; auto.
    - destruct (Hchld false) as [E|E]; cbn [child] in E; rewrite H, E; [left; rewrite <- Ec; apply (ins_reach_l0 g k0 p Hpath Hi)|auto].
    - destruct (Hchld true) as [E|E]; cbn [child] in E; rewrite H, E; [left; rewrite <- Ec; apply (ins_reach_l0 g k0 p Hpath Hi)|auto]. }
  set (a' := mk_a ax t pub' ev' (ddead ax) (dmax ax) lv' (datr ax ++ [ALin t])).
  assert (R0 : stepR t g ax g' a').
  { constructor; cbn [dpub dever ddead dmax mk_a a'].
    - exact Hpub'.
    - intros x X1 X2. destruct (pub' x) eqn:En; destruct (dpub ax x) eqn:Ep; auto.
      + destruct (Hpub'inv x En) as [->|[->|Hp]]; congruence.
      + rewrite (Hpub' x Ep) in En. discriminate.
    - intros kk n H. now left.
    - auto.
    - intros x _. now rewrite Ef, Ek.
    - intros x dd X1 X2 X3. apply Eo. left. intros ->. congruence.
    - intros x dd Px. destruct (Nat.eq_dec x p) as [->|N]; [|left; apply Eo; now left].
      right. rewrite Eu, C0. cbn [fst snd]. auto.
    - intros x. left. now rewrite Eu.
    - intros x. now left.
    - intros x _. rewrite Ee. lia.
    - apply atr_ext_app. }
  assert (HDS : DS g' a').
  { constructor; cbn [dpub dever ddead dmax mk_a a'].
    - exact HT'.
    - rewrite Ef. apply (d_root _ _ Hs).
    - change (lft g' root) with (child g' root false). rewrite (node_key_same g g') by (now rewrite ?Ef, ?Ek).
      destruct (Nat.eq_dec p root) as [Epr|Npr].
      + assert (Hd0 : d = false).
        { unfold d. rewrite Epr. destruct (dirk g k0 root) eqn:E; [|reflexivity]. apply (dirk_spec g k0 root Hroot ltac:(lia)) in E. lia. }
        rewrite <- Epr, <- Hd0 at 1. rewrite Es. now apply Kroot.
      + rewrite Eo by (left; congruence). apply (d_L _ _ Hs).
    - intros n dd Hn Hin. apply Ei in Hin. destruct (Hpub'inv n Hn) as [->|[->|Hp]]; [| contradiction |].
      + rewrite Eo by (now left). destruct (Hchld dd) as [E|E]; rewrite E; [|intros X; rewrite X in Q1; unfold root in Q1; lia].
        rewrite <- Ec. apply (d_noroot _ _ Hs); auto.
      + destruct (Nat.eq_dec n p) as [->|Nn]; [destruct (Bool.bool_dec dd d) as [->|Nd]|].
        * rewrite Es. intros E. rewrite E in O1. unfold root in O1. lia.
        * rewrite Eo by (right; exact Nd). now apply (d_noroot _ _ Hs).
        * rewrite Eo by (left; exact Nn). now apply (d_noroot _ _ Hs).
    - intros n dd Hn Hin. apply Ei in Hin. destruct (Hpub'inv n Hn) as [->|[->|Hp]]; [| contradiction |].
      + rewrite Eo by (now left). destruct (Hchld dd) as [E|E]; rewrite E; auto.
      + destruct (Nat.eq_dec n p) as [->|Nn]; [destruct (Bool.bool_dec dd d) as [->|Nd]|].
        * rewrite Es. exact Hpubni.
        * rewrite Eo by (right; exact Nd). apply Hpub'. now apply (d_closed _ _ Hs).
        * rewrite Eo by (left; exact Nn). apply Hpub'. now apply (d_closed _ _ Hs).
    - apply Hpub'. apply (d_rootpub _ _ Hs).
    - rewrite Ef. apply (d_null _ _ Hs).
    - intros x Hx. rewrite Eu. apply (d_unpub _ _ Hs). destruct (dpub ax x) eqn:E; [rewrite (Hpub' x E) in Hx; discriminate|reflexivity].
    - intros x. rewrite Eu, Ee. apply (d_ver _ _ Hs).
    - intros kk n [H|H]; [apply Hpub'; now apply (d_evpub _ _ Hs kk)|].
      destruct (Hreach n (path_insub _ _ _ _ H)) as [X|[->| ->]]; auto. apply Hpub'. eapply insub_dpub; eauto.
    - intros kk. left. apply (d_evroot _ _ Hs).
    - intros kk n H Hin. rewrite Edk. destruct H as [H|H].
      + apply Ei in Hin. destruct (Nat.eq_dec n p) as [->|Nn]; [destruct (Bool.bool_dec (dirk g kk p) d) as [Ed|Nd]|].
        * right. assert (X : path g' kk root (child g' p (dirk g' kk p))).
          { constructor; [|now apply Ei]. apply path_insert; auto. apply (d_evpath _ _ Hs); auto. }
          rewrite Edk in X. exact X.
        * rewrite Eo by (right; exact Nd). left. now apply (d_evchild _ _ Hs).
        * rewrite Eo by (left; exact Nn). left. now apply (d_evchild _ _ Hs).
      + right. rewrite <- (Edk kk n). now constructor.
    - intros kk n [H|H] Hin Nd; [|exact H]. apply Ei in Hin. apply path_insert; auto. now apply (d_evpath _ _ Hs).
    - intros n Dn. destruct (d_dead _ _ Hs n Dn) as (A & B & C). split; [now apply Hpub'|]. split; [now rewrite Eu|].
      intros X. destruct (Hreach n X) as [Y|[->| ->]]; [contradiction|congruence|congruence].
    - intros u. destruct (Nat.eq_dec u t) as [->|Nu].
      2:{ unfold a'. rewrite view_mk_other by exact Nu. eapply lv_ok_other; eauto. apply (d_views _ _ Hs). }
      unfold a'. rewrite view_mk_same. fold a'. apply lv_ok_parts. unfold lv'. cbn [wf wc].
      split; [eapply facts_stable_all; eauto|]. split; [exact Logic.I|]. split; [exact Logic.I|]. split; [|split].
      + unfold P_holds. cbn [chs cser]. rewrite hrep_hop by reflexivity. split; [|split; [exact V4b|]].
        * apply hrep_Forall.
          -- unfold hold_ok. cbn [hx hop hb hn hmk hch dpub dmax mk_a a']. split; [now apply Hpub'|]. split; [now apply Ei|]. split; [now rewrite Eu|].
             split; [exact D0|]. split; [exact E0|]. split; [exact F0|]. split; [rewrite Eu; exact G0|]. split; [exact Logic.I|intros ? ? []].
          -- intros h Hh Nh. pose proof (V4' h Hh) as Ok. apply (hold_stable_gen t t g ax g' a' h R0 Ok).
             ++ now rewrite Eu.
             ++ intros dd. apply Eo. left. exact (hx_ne g ax t h _ Ok Ok0 Nh).
             ++ reflexivity.
             ++ intros y Ny. rewrite Eu in Ny. now exfalso.
        * rewrite Forall_forall. intros h Hh. unfold hrep in Hh. apply in_map_iff in Hh. destruct Hh as (h2 & E & Hh2).
          rewrite Forall_forall in V4c. destruct (Nat.eqb_spec (hop h2) op); subst h; [exact (V4c _ Hh0)|exact (V4c _ Hh2)].
      + intros n Hn1 Hn2 Hn3. cbn [cser cleaf cni dpub mk_a a'] in *. destruct (V5 n Hn1 Hn2 Hn3) as (A & B & C).
        split; [|split; [discriminate|intros; discriminate]].
        destruct (pub' n) eqn:En; [|reflexivity]. exfalso. destruct (Hpub'inv n En) as [->|[->|Hp]]; [|apply B; exact Hleaf|rewrite Hp in A; discriminate].
        eapply C. exact Hni.
      + intros n A B C y. rewrite Eu. apply (V6 n A B C). }
  apply (inv_step keys g g' ax a' tr); [exact HDS| |exact Hil]. clear Hil; intros Hil.
  unfold a'. apply (IL_lp keys g g' ax t pub' ev' (ddead ax) (dmax ax) lv' tr KCas (o_child p d) true (SInsert k0) Hil); [rewrite Hv; exact Hst| |rewrite Hv; reflexivity].
  intros S Habs.
  assert (Hnm : zmem k0 S = false).
  { destruct (zmem k0 S) eqn:E; [|reflexivity]. exfalso. apply (ins_notmem g k0 p ni); auto; try lia; [apply (d_T _ _ Hs)|now apply Habs]. }
  cbn [set_step]. rewrite Hnm. cbn [fst snd]. split; [|reflexivity].
  intros kk. rewrite zmem_cons. unfold g', d. rewrite (ins_mem g k0 p ni); auto; try lia. rewrite (Habs kk). tauto.
Qed.

Lemma D_cas_child_splice {R} t k0 gp p rp rl lf sib f0 kl fpp kpp op chx (k : V -> prog R) lv :
  0 <= k0 < 8 ->
  kpath lv k0 gp ->
  In (FFl p fpp kpp) (wf lv) -> is_internal_f fpp = true ->
  In (FFl lf f0 kl) (wf lv) -> is_internal_f f0 = false -> cmp_node k0 f0 (lkey lf) = 0 ->
  In (FFz p rl lf) (wf lv) -> In (FFz p (negb rl) sib) (wf lv) ->
  In (mkH gp op 1 None (Some p) chx) (chs (wc lv)) -> In (rp, p) chx ->
  cst (wc lv) = @Pending SetSpec (SErase k0) ->
  DSAFE t (k (VCP true p))
    (mkDV (wf lv) (mkC (cleaf (wc lv)) (cni (wc lv)) (hrep op (mkH gp op 1 None (Some p) []) (chs (wc lv))) (cser (wc lv))
                       (@Linearized SetSpec (SErase k0) (RBool true)) (cx (wc lv)))) ->
  DSAFE t (Act (a_cas_child gp rp p sib) k) lv.
Proof.
  intros Hk0 Hpa Hflp Hip Hfl0 Hil0 Hcmp Hfz1 Hfz2 Hh0 Hchx Hst Hok. apply D_act. intros g ax tr [Hs Hil] Hv.
  destruct (parts_of g ax t lv Hs Hv) as (V1 & V2 & V3 & (V4 & V4b & V4c) & V5 & V6).
  pose proof V4 as V4'. rewrite Forall_forall in V4'. pose proof (V4' _ Hh0) as Ok0.
  pose proof Ok0 as (A0 & B0 & C0 & D0 & E0 & F0 & G0 & _ & I0). cbn [hx hop hb hn hmk hch] in *.
  destruct (facts_of g ax t lv _ Hs Hv Hflp) as (P1 & F2 & F3). destruct (facts_of g ax t lv _ Hs Hv Hfl0) as (L1 & L2 & _).
  destruct (facts_of g ax t lv _ Hs Hv Hfz1) as (_ & M1 & Z1). destruct (facts_of g ax t lv _ Hs Hv Hfz2) as (_ & _ & Z2).
  pose proof (kpath_ev g ax t lv k0 gp Hs Hv Hpa) as Evg.
  assert (Hc : child g gp rp = p) by (now apply I0).
  assert (Hipp : internal g p) by (unfold internal; now rewrite F2).
  assert (Hlfl : ~ internal g (child g p rl)) by (rewrite Z1; unfold internal; rewrite L2, Hil0; discriminate).
  unfold a_cas_child. rewrite Hc, Nat.eqb_refl. cbn [fst snd]. rewrite <- Z2.
  set (g' := set_child g gp rp (child g p (negb rl))).
  set (dead' := fun n => ddead ax n \/ n = p).
  set (ev' := fun k n => dever ax k n \/ path g' k root n).
  set (lv' := mkDV (wf lv) (mkC (cleaf (wc lv)) (cni (wc lv)) (hrep op (mkH gp op 1 None (Some p) []) (chs (wc lv))) (cser (wc lv))
                       (@Linearized SetSpec (SErase k0) (RBool true)) (cx (wc lv)))).
  exists (dpub ax), ev', dead', (dmax ax), lv', (datr ax ++ [ALin t]). split; [|exact Hok].
  assert (Ndead : ~ ddead ax gp) by (intros X; destruct (d_dead _ _ Hs gp X) as (_ & M & _); rewrite C0 in M; cbn in M; lia).
  pose proof (d_evpath _ _ Hs k0 gp Evg B0 Ndead) as Hpathg. pose proof (path_insub _ _ _ _ Hpathg) as Hgp.
  assert (Hnoroot : forall n dd, insub g root n -> internal g n -> child g n dd <> root).
  { intros n dd Hn Hin. apply (d_noroot _ _ Hs); [eapply insub_dpub; eauto|exact Hin]. }
  pose proof (d_T _ _ Hs) as HT.
  assert (Hroot : internal g root) by (unfold internal; rewrite (d_root _ _ Hs); reflexivity).
  assert (Hkroot : node_key g root = 1001) by (unfold node_key; rewrite (d_root _ _ Hs); reflexivity).
  assert (Hklf : node_key g (child g p rl) = k0).
  { rewrite Z1. unfold cmp_node in Hcmp. destruct (Z.eqb_spec (inf_of f0) 0) as [Ei0|Ei0]; [|lia].
    rewrite node_key_fin by (rewrite L2; exact Ei0). rewrite L2, Hil0. unfold cmp3 in Hcmp.
    destruct (Z.ltb_spec k0 (lkey lf)); [lia|]. destruct (Z.eqb_spec k0 (lkey lf)); lia. }
  assert (Npg : p <> gp) by (apply (sp_ne g gp p rp HT Hgp B0 Hc)).
  assert (Ef : flags g' = flags g) by apply set_child_flags.
  assert (Ek : ikey g' = ikey g) by apply set_child_ikey.
  assert (Eu : upd g' = upd g) by apply set_child_upd.
  assert (Ee : emp g' = emp g) by apply set_child_emp.
  assert (Ei : forall x, internal g' x <-> internal g x) by (intros x; unfold internal; now rewrite Ef).
  assert (Edk : forall kk x, dirk g' kk x = dirk g kk x) by (intros kk x; unfold dirk; now rewrite Ef, Ek).
  assert (Eo : forall x dd, (x <> gp \/ dd <> rp) -> child g' x dd = child g x dd) by (intros; now apply set_child_other).
  assert (Es : child g' gp rp = child g p (negb rl)) by apply set_child_same.
  assert (HT' : T g' root (-1) 1002) by (apply (sp_T g gp p rp rl HT Hgp B0 Hc Hipp)).
  assert (Hsp : forall kk m, path g kk root m -> m <> p -> internal g m -> path g' kk root m).
  { intros kk m Hm N1 N2. apply (sp_path g gp p rp rl HT Hgp B0 Hc Hlfl Hnoroot kk m Hm N1). intros E. rewrite E in N2. contradiction. }
  assert (Hreach : forall x, insub g' root x -> insub g root x) by (apply (sp_reach g gp p rp rl Hgp B0 Hc Hipp)).
  set (a' := mk_a ax t (dpub ax) ev' dead' (dmax ax) lv' (datr ax ++ [ALin t])).
  assert (R0 : stepR t g ax g' a').
  { constructor; cbn [dpub dever ddead dmax mk_a a'].
    - auto.
    - auto.
    - intros kk n H. now left.
    - auto.
    - intros x _. now rewrite Ef, Ek.
    - intros x dd X1 X2 X3. apply Eo. left. intros ->. congruence.
    - intros x dd Px. destruct (Nat.eq_dec x gp) as [->|N]; [|left; apply Eo; now left].
      right. rewrite Eu, C0. cbn [fst snd]. auto.
    - intros x. left. now rewrite Eu.
    - intros x. now left.
    - intros x _. rewrite Ee. lia.
    - apply atr_ext_app. }
  assert (HDS : DS g' a').
  { constructor; cbn [dpub dever ddead dmax mk_a a'].
    - exact HT'.
    - rewrite Ef. apply (d_root _ _ Hs).
    - change (lft g' root) with (child g' root false). rewrite (node_key_same g g') by (now rewrite ?Ef, ?Ek).
      destruct (Nat.eq_dec gp root) as [Egr|Ngr]; [destruct rp|].
      + rewrite Eo by (right; discriminate). apply (d_L _ _ Hs).
      + (* gp = root, p = root.left: the deleted leaf is p.left, the sibling is the Inf1 leaf *)
        rewrite <- Egr, Es. rewrite Egr in Hc. cbn [child] in Hc.
        destruct (T_inv_int _ _ _ _ HT Hroot) as (_ & TL & _). rewrite Hkroot, Hc in TL.
        destruct (T_inv_int _ _ _ _ TL Hipp) as (_ & TLL & TLR). pose proof (d_L _ _ Hs) as KL. rewrite Hc in KL. rewrite KL in TLL, TLR.
        pose proof (T_key _ _ _ _ TLR) as K2. destruct rl; cbn [child negb] in *; lia.
      + rewrite Eo by (left; congruence). apply (d_L _ _ Hs).
    - intros n dd Hn Hin. apply Ei in Hin. destruct (Nat.eq_dec n gp) as [->|Nn]; [destruct (Bool.bool_dec dd rp) as [->|Nd]|].
      + rewrite Es. now apply (d_noroot _ _ Hs).
      + rewrite Eo by (right; exact Nd). now apply (d_noroot _ _ Hs).
      + rewrite Eo by (left; exact Nn). now apply (d_noroot _ _ Hs).
    - intros n dd Hn Hin. apply Ei in Hin. destruct (Nat.eq_dec n gp) as [->|Nn]; [destruct (Bool.bool_dec dd rp) as [->|Nd]|].
      + rewrite Es. now apply (d_closed _ _ Hs).
      + rewrite Eo by (right; exact Nd). now apply (d_closed _ _ Hs).
      + rewrite Eo by (left; exact Nn). now apply (d_closed _ _ Hs).
    - apply (d_rootpub _ _ Hs).
    - rewrite Ef. apply (d_null _ _ Hs).
    - intros x Hx. rewrite Eu. now apply (d_unpub _ _ Hs).
    - intros x. rewrite Eu, Ee. apply (d_ver _ _ Hs).
    - intros kk n [H|H]; [now apply (d_evpub _ _ Hs kk)|]. eapply insub_dpub; eauto. apply Hreach. eapply path_insub; eauto.
    - intros kk. left. apply (d_evroot _ _ Hs).
    - intros kk n H Hin. rewrite Edk. destruct H as [H|H].
      + apply Ei in Hin. destruct (Nat.eq_dec n gp) as [->|Nn]; [destruct (Bool.bool_dec (dirk g kk gp) rp) as [Ed|Nd]|].
        * right. assert (X : path g' kk root (child g' gp (dirk g' kk gp))).
          { constructor; [|now apply Ei]. apply Hsp; auto. apply (d_evpath _ _ Hs); auto. }
          rewrite Edk in X. exact X.
        * rewrite Eo by (right; exact Nd). left. now apply (d_evchild _ _ Hs).
        * rewrite Eo by (left; exact Nn). left. now apply (d_evchild _ _ Hs).
      + right. rewrite <- (Edk kk n). now constructor.
    - intros kk n [H|H] Hin Nd; [|exact H]. apply Ei in Hin. unfold dead' in Nd.
      apply Hsp; [apply (d_evpath _ _ Hs); auto|intros ->; apply Nd; now right|exact Hin].
    - intros n [Dn| ->].
      + destruct (d_dead _ _ Hs n Dn) as (A & B & C). split; [exact A|]. split; [now rewrite Eu|]. intros X. apply C. now apply Hreach.
      + split; [exact P1|]. split; [now rewrite Eu|]. apply (sp_unreach_p g gp p rp rl HT Hgp B0 Hc Hipp Hnoroot).
    - intros u. destruct (Nat.eq_dec u t) as [->|Nu].
      2:{ unfold a'. rewrite view_mk_other by exact Nu. eapply lv_ok_other; eauto. apply (d_views _ _ Hs). }
      unfold a'. rewrite view_mk_same. fold a'. apply lv_ok_parts. unfold lv'. cbn [wf wc].
      split; [eapply facts_stable_all; eauto|]. split; [apply (P_leaf_teq g); auto|].
      split.
      { unfold P_ni in *. cbn [cni cleaf dpub mk_a a']. destruct (cni (wc lv)) as [[[[[m f] key] l] r]|]; [|exact Logic.I].
        destruct V3 as (((O1 & O2 & O3) & O4) & N1 & N2 & N3 & N4). assert (Nm : m <> gp) by (intros ->; congruence).
        rewrite Ef, Ek. change (lft g' m) with (child g' m false). change (rgt g' m) with (child g' m true). rewrite !Eo by (now left).
        repeat split; auto. }
      split; [|split].
      + unfold P_holds. cbn [chs cser]. rewrite hrep_hop by reflexivity. split; [|split; [exact V4b|]].
        * apply hrep_Forall.
          -- unfold hold_ok. cbn [hx hop hb hn hmk hch dpub dmax mk_a a']. split; [exact A0|]. split; [now apply Ei|]. split; [now rewrite Eu|].
             split; [exact D0|]. split; [exact E0|]. split; [exact F0|]. split; [rewrite Eu; exact G0|]. split; [exact Logic.I|intros ? ? []].
          -- intros h Hh Nh. pose proof (V4' h Hh) as Ok. apply (hold_stable_gen t t g ax g' a' h R0 Ok).
             ++ now rewrite Eu.
             ++ intros dd. apply Eo. left. exact (hx_ne g ax t h _ Ok Ok0 Nh).
             ++ reflexivity.
             ++ intros y Ny. rewrite Eu in Ny. now exfalso.
        * rewrite Forall_forall. intros h Hh. unfold hrep in Hh. apply in_map_iff in Hh. destruct Hh as (h2 & E & Hh2).
          rewrite Forall_forall in V4c. destruct (Nat.eqb_spec (hop h2) op); subst h; [exact (V4c _ Hh0)|exact (V4c _ Hh2)].
      + exact V5.
      + intros n A B C y. rewrite Eu. apply (V6 n A B C). }
  apply (inv_step keys g g' ax a' tr); [exact HDS| |exact Hil]. clear Hil; intros Hil.
  unfold a'. apply (IL_lp keys g g' ax t (dpub ax) ev' dead' (dmax ax) lv' tr KCas (o_child gp rp) true (SErase k0) Hil); [rewrite Hv; exact Hst| |rewrite Hv; reflexivity].
  intros S Habs.
  assert (Hm : zmem k0 S = true).
  { apply Habs. rewrite <- Hklf. apply (sp_mem_before g gp p rp rl Hgp B0 Hc Hipp Hlfl). rewrite Hklf. lia. }
  cbn [set_step]. rewrite Hm. cbn [fst snd]. split; [|reflexivity].
  intros kk. rewrite zmem_zdel. unfold g'. rewrite (sp_mem g gp p rp rl HT Hgp B0 Hc Hipp Hlfl Hnoroot kk). rewrite Hklf, (Habs kk). tauto.
Qed.

End Cas.
