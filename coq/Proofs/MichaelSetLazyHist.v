(** * The history of the MichaelHashSet-over-LazyList model (LV.Model.MichaelSetLazy) and its bucket projections, every
      schedule.

    The tagged history function [gfold], the trace-only invariant [GI] and its preservation lemmas ([GI_quiet], [GI_inv],
    [GI_ret]) are those of Proofs/MichaelSetHist.v: they speak about product traces only (the events of LazyList and
    MichaelList are the same type, the invocation / response events the same terms).  New here: the invariant holds in
    every reachable configuration of the LazyList product ([hist_inv_reachL]), by the proof rule [Conc.safe] and the
    syntactic shape of [LazyList.run_op] (Proofs/MichaelSetLazyShape.v):
      - the tagged history is sequential per thread, every invocation carries the bucket of its key ([hseq]),
      - its sub-history with tag [b] is C13's history of the trace bucket [b] has seen ([full_hist (projb b tr)]),
      - forgetting the tags gives C13's history of the untagged product trace. *)
From Coq Require Import ZArith List Bool Arith PeanoNat Lia String.
From LV Require Import Base.Conc Base.Events Base.Lin Spec.Specs Proofs.LinProofs.
From LV Require Import Model.LazyList Model.Product Model.MichaelSetLazy.
From LV Require Model.MichaelSet Model.MichaelList.
From LV Require Import Proofs.MichaelListProofs Proofs.PartitionLin Proofs.MichaelSetShape Proofs.MichaelSetLazyShape Proofs.MichaelSetHist.
Import ListNotations.

Section HistL.
  Variables (nb : nat) (hs : list Z).
  Hypothesis Hnb : 0 < nb.
  Notation bk := (MichaelSet.bucket nb hs).
  Notation GI := (MichaelSetHist.GI nb hs).

  Lemma ev_inv_eq o : LazyList.ev_inv o = MichaelList.ev_inv o. Proof. reflexivity. Qed.
  Lemma ev_ret_eq a b : LazyList.ev_ret a b = MichaelList.ev_ret a b. Proof. reflexivity. Qed.

  (** ** the invariant holds for every schedule: proof rule Conc.safe, local view = the bucket of the operation in progress *)
  Notation safeS := (@Conc.safe GP LazyList.V (nat * ev) (nat -> option nat) (option nat) (fun A t => A t) (fun _ A tr => GI A tr)).

  Lemma safeS_quietL {R} (p : LazyList.prog R) t b : b < nb -> quietL p -> forall l, safeS t (lift b p) l (fun _ l' => l' = l).
  Proof.
    intros Hb. induction p as [r|es k IH|f k IH]; intros Hq l; cbn [lift Conc.safe quietL] in *.
    - reflexivity.
    - destruct Hq as [H1 H2]. intros g a tr HI Hv. exists a. split; [apply GI_quiet; assumption|].
      split; [intros t' _; reflexivity|]. rewrite Hv. apply IH; exact H2.
    - destruct Hq as [H1 H2]. intros g a tr HI Hv. exists a. unfold lift_act. pose proof (H1 (g b)) as H1'.
      destruct (f (g b)) as [[g1 v] es]. cbn [fst snd] in *. split; [apply GI_quiet; assumption|].
      split; [intros t' _; reflexivity|]. rewrite Hv. apply IH. apply H2.
  Qed.

  Lemma safeS_tailL (p : LazyList.prog (out lstate)) t b : b < nb -> tailL p -> safeS t (lift b p) (Some b) Qop.
  Proof.
    intros Hb. induction p as [r|es k IH|f k IH]; intros Hq; cbn [lift Conc.safe tailL] in *.
    - subst r. exact I.
    - intros g a tr HI Hv. destruct Hq as [[H1 H2]|(x & y & r & -> & ->)].
      + exists a. split; [apply GI_quiet; assumption|]. split; [intros t' _; reflexivity|]. rewrite Hv. apply IH; exact H2.
      + exists (updA a t None). split; [cbn [map Conc.tag]; rewrite ev_ret_eq; apply GI_ret; assumption|]. split.
        * intros t' Ht'. unfold updA. destruct (Nat.eqb_spec t' t); [contradiction|reflexivity].
        * cbn [lift Conc.safe]. unfold Qop, updA. now rewrite Nat.eqb_refl.
    - destruct Hq as [H1 H2]. intros g a tr HI Hv. exists a. unfold lift_act. pose proof (H1 (g b)) as H1'.
      destruct (f (g b)) as [[g1 v] es]. cbn [fst snd] in *. split; [apply GI_quiet; assumption|].
      split; [intros t' _; reflexivity|]. rewrite Hv. apply IH. apply H2.
  Qed.

  Lemma safeS_run_opPL fuel sf ic t o lsm : safeS t (run_opP nb hs fuel sf ic t o lsm) None Qop.
  Proof.
    unfold run_opP, MichaelSetLazy.bucket. set (b := bk (nth 1 o 0%Z)). assert (Hb : b < nb) by (apply bucket_lt_nb; exact Hnb).
    apply Conc.safe_bind.
    destruct (run_op_shapeL fuel sf ic t o (lsm b)) as [(ls' & ->)|(k & -> & Hk)]; cbn [lift Conc.safe map].
    - reflexivity.
    - intros g a tr HI Hv. exists (updA a t (Some b)). split; [cbn [map Conc.tag]; rewrite ev_inv_eq; apply GI_inv; assumption|]. split.
      + intros t' Ht'. unfold updA. destruct (Nat.eqb_spec t' t); [contradiction|reflexivity].
      + replace (updA a t (Some b) t) with (Some b) by (unfold updA; now rewrite Nat.eqb_refl).
        eapply Conc.safe_weaken; [|apply safeS_tailL; assumption].
        intros [ls'|] l' H; cbn in *; [exact H|exact I].
  Qed.

  Lemma safeS_run_opsPL fuel sf ic t : forall os lsm, safeS t (run_opsP nb hs fuel sf ic t os lsm) None (fun _ _ => True).
  Proof.
    induction os as [|o r IH]; intros lsm; cbn [run_opsP]; [exact I|].
    apply Conc.safe_bind. eapply Conc.safe_weaken; [|apply safeS_run_opPL].
    intros [lsm'|] l' H; cbn in H; [subst l'; apply IH|exact I].
  Qed.

  Lemma safeS_threadL fuel sf ic t os : safeS t (thread_progP nb hs fuel sf ic t os) None (@Conc.QTrue (option nat)).
  Proof.
    unfold thread_progP. apply Conc.safe_bind.
    eapply Conc.safe_weaken; [|apply (safeS_quietL (Act a_begin (fun _ => Ret tt)) t 0 Hnb)].
    - intros r l' ->. eapply Conc.safe_weaken; [|apply safeS_run_opsPL]. intros; exact I.
    - cbn. split; [apply qactL_begin|intros; exact I].
  Qed.

  Lemma nth_thread_progsPL fuel sf ic : forall ths t0 t p,
    nth_error (thread_progsP nb hs fuel sf ic t0 ths) t = Some p -> exists os, p = thread_progP nb hs fuel sf ic (t0 + t) os.
  Proof.
    induction ths as [|os r IH]; intros t0 t p H; cbn [thread_progsP] in H.
    - destruct t; discriminate.
    - destruct t as [|t]; cbn in H.
      + inversion H; subst. exists os. rewrite Nat.add_0_r. reflexivity.
      + destruct (IH (S t0) t p H) as (os' & ->). exists os'. f_equal. lia.
  Qed.

  Lemma init_okSL fuel sf ic ths :
    Conc.cfg_ok (fun (A : nat -> option nat) t => A t) (fun (_ : GP) A tr => GI A tr) (init_cfgP nb hs fuel sf ic ths).
  Proof.
    exists (fun _ => None). split; [apply GI_init|].
    intros t p Hp. cbn [init_cfgP Conc.threads] in Hp. destruct (nth_thread_progsPL _ _ _ _ _ _ _ Hp) as (os & ->).
    apply safeS_threadL.
  Qed.

  (** the tagged history of every reachable configuration: sequential per thread with the right bucket tags, its
      [b]-tagged part is the history of bucket [b], forgetting the tags gives the history of the whole set *)
  Theorem hist_inv_reachL fuel sf ic ths c :
    Conc.reach (init_cfgP nb hs fuel sf ic ths) c ->
    let gl := fst (gfold (Conc.trace c)) in
    hseq bk (fun _ => false) gl /\
    (forall b, hfilter b gl = full_hist (projb b (Conc.trace c))) /\
    (forall b, nb <= b -> hfilter b gl = []) /\
    map snd gl = full_hist (untag (Conc.trace c)).
  Proof.
    intros Hr. destruct (Conc.reach_Inv (init_okSL fuel sf ic ths) Hr) as (A & G1 & G2 & G3 & G4). cbn zeta.
    split; [|split; [|split]].
    - apply hseq_of_alt. intros t. apply (G1 t).
    - intros b. unfold full_hist. rewrite G3. reflexivity.
    - intros b Hb. assert (E : hfilter b (fst (gfold (Conc.trace c))) = full_hist (projb b (Conc.trace c))) by (unfold full_hist; rewrite G3; reflexivity).
      rewrite E, (projb_out nb Hnb b _ G4 Hb). reflexivity.
    - symmetry. apply gfold_untag.
  Qed.
End HistL.
