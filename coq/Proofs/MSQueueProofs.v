(** * Linearizability of the MSQueue / MoirQueue model for every schedule, any number of threads,
      any client program of enqueue / dequeue operations, any loop fuel.

    Linearization points:
      enqueue          the successful CAS of [t->next] from null to the new node   ([Inv_link])
      dequeue (value)  the successful CAS of [head]                               ([Inv_headcas])
      dequeue (empty)  the last load of [h->next] in [protect(1, h->next)] that returned null:
                       at that instant [h] is head and the last node ([empty_now]).
                       MoirQueue returns right away, so the load is a plain LP.
                       MSQueue re-validates [head] afterwards and retries if it changed, so the load is a
                       _tentative_ LP ([Inv_cand_set]) confirmed by the validation ([Inv_confirm]) or dropped
                       ([Inv_discard]); see MSQueueBase for how this is done without prophecy. *)
From Coq Require Import ZArith List String Bool Lia PeanoNat.
From LV Require Import Base.Conc Base.Events Base.Lin Spec.Specs Proofs.LinProofs Model.MSQueue
  Proofs.MSQueueBase Proofs.MSQueueInv.
Import ListNotations.
Local Open Scope string_scope.
Local Open Scope list_scope.

Notation safe := (@Conc.safe G V ev Aux tview view Inv).

Lemma view_auxset a d r t v : view (auxset a d r t v) t = v.
Proof. unfold view, auxset. cbn. apply updv_same. Qed.

Lemma frame_auxset a d r t v : Conc.frame view t a (auxset a d r t v).
Proof. intros t' H. unfold view, auxset. cbn. now apply updv_other. Qed.

Lemma frame_refl t a : Conc.frame view t a a.
Proof. intros ? ?. reflexivity. Qed.

(** ** generic rules *)
Lemma safe_act {R} t (f : act) (k : V -> prog R) l Q :
  (forall g a tr, Inv g a tr -> views a t = l ->
     exists d r v', Inv (fst (fst (f g))) (auxset a d r t v') (tr ++ Conc.tag t (snd (f g))) /\
                    safe t (k (snd (fst (f g)))) v' Q) ->
  safe t (Act f k) l Q.
Proof.
  intros H. cbn [Conc.safe]. intros g a tr HI Hv. destruct (H g a tr HI Hv) as (d & r & v' & A & B).
  exists (auxset a d r t v'). split; [exact A|]. split; [apply frame_auxset|].
  rewrite view_auxset. exact B.
Qed.

Lemma safe_emit {R} t es (k : prog R) l Q :
  (forall g a tr, Inv g a tr -> views a t = l ->
     exists d r v', Inv g (auxset a d r t v') (tr ++ Conc.tag t es) /\ safe t k v' Q) ->
  safe t (Emit es k) l Q.
Proof.
  intros H. cbn [Conc.safe]. intros g a tr HI Hv. destruct (H g a tr HI Hv) as (d & r & v' & A & B).
  exists (auxset a d r t v'). split; [exact A|]. split; [apply frame_auxset|].
  rewrite view_auxset. exact B.
Qed.

(** accesses to SMR-private words *)
Lemma safe_touch {R} t k o (p : prog R) l Q :
  safe t p l Q -> safe t (Act (touch k o) (fun _ => p)) l Q.
Proof.
  intros H. cbn [Conc.safe]. intros g a tr HI Hv. exists a. cbn [touch fst snd].
  split; [apply Inv_acc; exact HI|]. split; [apply frame_refl|]. rewrite Hv. exact H.
Qed.

Lemma safe_cnt {R} t k d (p : prog R) l Q :
  safe t p l Q -> safe t (Act (a_cnt k d) (fun _ => p)) l Q.
Proof.
  intros H. cbn [Conc.safe]. intros g a tr HI Hv. exists a. cbn [a_cnt fst snd].
  split; [apply Inv_acc; apply Inv_cnt; exact HI|]. split; [apply frame_refl|]. rewrite Hv. exact H.
Qed.

Lemma safe_with_ic {R} cf t k d (p : prog R) l Q : safe t p l Q -> safe t (with_ic cf k d p) l Q.
Proof. intros H. unfold with_ic. destruct (c_ic cf); [apply safe_cnt|]; exact H. Qed.

Lemma safe_retire {R} cf t h (p : prog R) l Q : safe t p l Q -> safe t (retire cf t h p) l Q.
Proof.
  intros H. unfold retire. destruct (c_hp cf && negb (Nat.eqb h 0)); [|exact H].
  apply safe_touch. apply safe_touch. exact H.
Qed.

Lemma safe_clear2 {R} t s0 s1 (p : prog R) l Q : safe t p l Q -> safe t (clear2 t s0 s1 p) l Q.
Proof. intros H. unfold clear2. apply safe_touch. apply safe_touch. exact H. Qed.

(** a load (or a failed CAS) after which the thread replaces the facts it remembers *)
Lemma step_setv g a tr t l v' k o b :
  Inv g a tr -> views a t = l ->
  tv_st v' = tv_st l -> tv_priv v' = tv_priv l -> tv_cand v' = tv_cand l ->
  (tv_ok g a l -> (forall m, tv_tl v' = Some m -> In m (LL g a)) /\
                  (forall h, tv_hd v' = Some h -> In h (done a ++ [head g])) /\
                  (forall h x, tv_nx v' = Some (h, x) -> nxt g h = Some x)) ->
  Inv g (auxset a (done a) (rest a) t v') (tr ++ Conc.tag t [EvAcc k o b]).
Proof.
  intros HI Hv E1 E2 E3 Hf. apply Inv_acc.
  pose proof (I_views _ _ _ HI t) as Hok. rewrite Hv in Hok. destruct (Hf Hok) as (F1 & F2 & F3).
  apply Inv_setv; try rewrite Hv; auto.
Qed.

(** ** views at the program points *)
Definition VPE (v : Z) : tview := mkTV (@Pending Fifo (Enq v)) None None None None false.
Definition VE (v : Z) (n : nat) (tl : option nat) (nx : option (nat * nat)) : tview :=
  mkTV (@Pending Fifo (Enq v)) (Some n) tl None nx false.
Definition VLE' (v : Z) (n : nat) : tview := mkTV (@Linearized Fifo (Enq v) (RBool true)) None (Some n) None None false.
Definition VLE (v : Z) : tview := mkTV (@Linearized Fifo (Enq v) (RBool true)) None None None None false.
Definition VD (hd : option nat) (nx : option (nat * nat)) (c : bool) : tview :=
  mkTV (@Pending Fifo Deq) None None hd nx c.
Definition VEmp : tview := mkTV empty_lin None None None None false.
Definition VGot (v : Z) (x : nat) : tview :=
  mkTV (@Linearized Fifo Deq (RVal (Some v))) None None (Some x) None false.

Ltac facts_none := repeat split; cbn; intros; discriminate.

(** ** enqueue *)
Lemma safe_protect_tail_loop fuel : forall t s v n pcur,
  safe t (protect_tail_loop fuel t s pcur) (VE v n (Some pcur) None)
       (fun r l => match r with Some tl => l = VE v n (Some tl) None | None => True end).
Proof.
  induction fuel as [|f IH]; intros t s v n pcur; cbn [protect_tail_loop]; [exact I|].
  apply safe_touch. apply safe_touch. apply safe_act. intros g a tr HI Hv.
  exists (done a), (rest a), (VE v n (Some (tail g)) None). cbn [a_ld_tail fst snd vn]. split.
  - eapply step_setv; eauto. intros _. repeat split; cbn; try (intros; discriminate).
    intros m E. injection E as <-. apply (I_tail _ _ _ HI).
  - destruct (Nat.eqb_spec (tail g) pcur) as [->|Hne]; [reflexivity|apply IH].
Qed.

Lemma safe_protect_tail fuel t s v n :
  safe t (protect_tail fuel t s) (VE v n None None)
       (fun r l => match r with Some tl => l = VE v n (Some tl) None | None => True end).
Proof.
  unfold protect_tail. apply safe_act. intros g a tr HI Hv.
  exists (done a), (rest a), (VE v n (Some (tail g)) None). cbn [a_ld_tail fst snd vn]. split.
  - eapply step_setv; eauto. intros _. repeat split; cbn; try (intros; discriminate).
    intros m E. injection E as <-. apply (I_tail _ _ _ HI).
  - apply safe_protect_tail_loop.
Qed.

Definition Qenq (v : Z) : bool -> tview -> Prop := fun ok l => if ok then l = VLE v else True.

Lemma safe_enq_loop cf fuel : forall t s v n,
  safe t (enq_loop cf fuel t s n) (VE v n None None) (Qenq v).
Proof.
  induction fuel as [|f IH]; intros t s v n; cbn [enq_loop]; [exact I|].
  apply Conc.safe_bind. eapply Conc.safe_weaken; [|apply safe_protect_tail].
  intros [tl|] l Hl; [subst l|exact I].
  (* pNext = t->m_pNext.load() *)
  apply safe_act. intros g a tr HI Hv. cbn [a_ld_next fst snd vp].
  exists (done a), (rest a),
    (VE v n (Some tl) (match nxt g tl with Some x => Some (tl, x) | None => None end)). split.
  { eapply step_setv; eauto. intros (_ & F2 & _). repeat split; cbn; try (intros; discriminate).
    - intros m E. apply F2. exact E.
    - intros h x E. destruct (nxt g tl) eqn:En; [|discriminate]. injection E as <- <-. exact En. }
  destruct (nxt g tl) as [nx|]; clear g a tr HI Hv.
  - (* tail is misplaced: help *)
    apply safe_act. intros g a tr HI Hv. unfold a_cas_tail.
    pose proof (I_views _ _ _ HI t) as (_ & F2 & _ & F4). rewrite Hv in F2, F4. cbn in F2, F4.
    destruct (Nat.eqb (tail g) tl); cbn [fst snd].
    + exists (done a), (rest a), (VE v n None None). split; [|apply IH].
      eapply step_setv; eauto; [|intros _; facts_none].
      apply Inv_tail; [exact HI|].
      eapply linked_succ; [apply (I_linked _ _ _ HI)|apply F2; reflexivity|apply F4; reflexivity].
    + exists (done a), (rest a), (VE v n None None). split; [|apply IH].
      eapply step_setv; eauto. intros _; facts_none.
  - (* t->m_pNext.compare_exchange_strong( nullptr, pNew ) *)
    apply safe_act. intros g a tr HI Hv. unfold a_cas_next.
    destruct (nxt g tl) eqn:En; cbn [fst snd vb].
    + exists (done a), (rest a), (VE v n None None). split; [|apply IH].
      eapply step_setv; eauto. intros _; facts_none.
    + exists (done a), (rest a ++ [n]), (VLE' v n). split.
      { apply Inv_acc. eapply Inv_link; eauto. }
      apply safe_with_ic.
      (* m_pTail.compare_exchange_strong( t, pNew ) *)
      apply safe_act. clear g a tr HI Hv En. intros g a tr HI Hv. unfold a_cas_tail.
      pose proof (I_views _ _ _ HI t) as (_ & F2 & _). rewrite Hv in F2. cbn in F2.
      destruct (Nat.eqb (tail g) tl); cbn [fst snd].
      * exists (done a), (rest a), (VLE v). split; [|reflexivity].
        eapply step_setv; eauto; [|intros _; facts_none].
        apply Inv_tail; [exact HI|]. apply F2. reflexivity.
      * exists (done a), (rest a), (VLE v). split; [|reflexivity].
        eapply step_setv; eauto. intros _; facts_none.
Qed.

Lemma safe_enqueue cf fuel t s v :
  safe t (enqueue cf fuel t s v) (VPE v) (Qenq v).
Proof.
  unfold enqueue. apply safe_act. intros g a tr HI Hv.
  exists (done a), (rest a), (VE v (nalloc g) None None). split.
  { apply Inv_acc. eapply Inv_alloc; eauto. }
  cbn [a_alloc fst snd vn]. apply Conc.safe_bind.
  eapply Conc.safe_weaken; [|apply safe_enq_loop].
  intros [|] l Hl; cbn in Hl; [subst l|exact I].
  apply safe_touch. reflexivity.
Qed.

(** ** dequeue *)
Lemma safe_protect_head fuel : forall t s hd nx,
  safe t (protect_head fuel t s) (VD hd nx false)
       (fun r l => match r with Some h => l = VD (Some h) None false | None => True end).
Proof.
  induction fuel as [|f IH]; intros t s hd nx; cbn [protect_head]; [exact I|].
  apply safe_act. intros g a tr HI Hv. cbn [a_ld_head fst snd vn].
  exists (done a), (rest a), (VD (Some (head g)) None false). split.
  { eapply step_setv; eauto. intros _. repeat split; cbn; try (intros; discriminate).
    intros h E. injection E as <-. apply in_or_app. right. now left. }
  set (r := head g). clearbody r. clear g a tr HI Hv.
  apply safe_touch. apply safe_touch.
  apply safe_act. intros g a tr HI Hv. cbn [a_ld_head fst snd vn].
  exists (done a), (rest a), (VD (Some (head g)) None false). split.
  { eapply step_setv; eauto. intros _. repeat split; cbn; try (intros; discriminate).
    intros h E. injection E as <-. apply in_or_app. right. now left. }
  destruct (Nat.eqb_spec (head g) r) as [->|Hne]; [reflexivity|apply IH].
Qed.

(** [eager = true]: MoirQueue, the null load is the linearization point;
    [eager = false]: MSQueue, it is a tentative one *)
Definition Qnext (eager : bool) (h : nat) : option (option nat) -> tview -> Prop :=
  fun r l => match r with
             | None => True
             | Some (Some x) => l = VD (Some h) (Some (h, x)) false
             | Some None => l = if eager then VEmp else VD (Some h) None true
             end.

Lemma safe_protect_next eager fuel : forall t s h nx,
  safe t (protect_next fuel t s h) (VD (Some h) nx false) (Qnext eager h).
Proof.
  induction fuel as [|f IH]; intros t s h nx; cbn [protect_next]; [exact I|].
  apply safe_act. intros g a tr HI Hv. cbn [a_ld_next fst snd vp].
  exists (done a), (rest a), (VD (Some h) None false). split.
  { eapply step_setv; eauto. intros (_ & _ & F3 & _). repeat split; cbn; try (intros; discriminate).
    intros h0 E. apply F3. exact E. }
  set (r := nxt g h). clearbody r. clear g a tr HI Hv.
  apply safe_touch. apply safe_touch.
  apply safe_act. intros g a tr HI Hv. cbn [a_ld_next fst snd vp].
  destruct (nxt g h) as [x|] eqn:En.
  - exists (done a), (rest a), (VD (Some h) (Some (h, x)) false). split.
    { eapply step_setv; eauto. intros (_ & _ & F3 & _). repeat split; cbn; try (intros; discriminate).
      - intros h0 E. apply F3. exact E.
      - intros h0 x0 E. injection E as <- <-. exact En. }
    destruct r as [y|]; cbn [opt_eqb]; [|apply IH].
    destruct (Nat.eqb_spec x y) as [->|Hne]; [reflexivity|apply IH].
  - destruct r as [y|]; cbn [opt_eqb].
    + exists (done a), (rest a), (VD (Some h) None false). split; [|apply IH].
      eapply step_setv; eauto. intros (_ & _ & F3 & _). repeat split; cbn; try (intros; discriminate).
      intros h0 E. apply F3. exact E.
    + (* both loads returned null: (tentative) linearization point of the empty dequeue *)
      destruct eager.
      * exists (done a), (rest a), VEmp. split; [|reflexivity].
        apply Inv_acc. eapply Inv_empty_lp; eauto.
      * exists (done a), (rest a), (VD (Some h) None true). split; [|reflexivity].
        apply Inv_acc. eapply Inv_cand_set; eauto.
Qed.

Definition Qdeq : dres -> tview -> Prop :=
  fun d l => match d with DFuel => True | DEmpty => l = VEmp | DGot h nx v => l = VGot v nx end.

Lemma safe_deq_loop_ms fuel : forall t s0 s1,
  safe t (deq_loop_ms fuel t s0 s1) (VD None None false) Qdeq.
Proof.
  induction fuel as [|f IH]; intros t s0 s1; cbn [deq_loop_ms]; [exact I|].
  apply Conc.safe_bind. eapply Conc.safe_weaken; [|apply safe_protect_head].
  intros [h|] l Hl; [subst l|exact I].
  apply Conc.safe_bind. eapply Conc.safe_weaken; [|apply (safe_protect_next false)].
  intros [[nx|]|] l Hl; cbn in Hl; [subst l|subst l|exact I].
  - (* pNext != nullptr *)
    apply safe_act. intros g a tr HI Hv. cbn [a_ld_head fst snd vn].
    destruct (Nat.eqb_spec (head g) h) as [Eh|Hne]; cbn [negb].
    + exists (done a), (rest a), (VD (Some h) (Some (h, nx)) false). split.
      { eapply step_setv; eauto. intros (_ & _ & F3 & F4). repeat split; cbn; try (intros; discriminate); auto. }
      clear g a tr HI Hv Eh.
      apply safe_act. intros g a tr HI Hv. cbn [a_ld_tail fst snd vn].
      exists (done a), (rest a), (VD (Some h) (Some (h, nx)) false). split.
      { eapply step_setv; eauto. intros (_ & _ & F3 & F4). repeat split; cbn; try (intros; discriminate); auto. }
      destruct (Nat.eqb (tail g) h).
      * (* help the enqueuer *)
        clear g a tr HI Hv. apply safe_act. intros g a tr HI Hv. unfold a_cas_tail.
        pose proof (I_views _ _ _ HI t) as (_ & _ & F3 & F4). rewrite Hv in F3, F4. cbn in F3, F4.
        destruct (Nat.eqb (tail g) h); cbn [fst snd].
        -- exists (done a), (rest a), (VD None None false). split; [|apply IH].
           apply Inv_acc. eapply Inv_discard with (g := set_tail g nx); [|exact Hv].
           apply Inv_tail; [exact HI|].
           eapply linked_succ; [apply (I_linked _ _ _ HI)|apply in_done_LL; apply F3; reflexivity|apply F4; reflexivity].
        -- exists (done a), (rest a), (VD None None false). split; [|apply IH].
           apply Inv_acc. eapply Inv_discard; eauto.
      * (* m_pHead.compare_exchange_strong( h, pNext ) *)
        clear g a tr HI Hv. apply safe_act. intros g a tr HI Hv. unfold a_cas_head.
        destruct (Nat.eqb_spec (head g) h) as [Eh|Hne]; cbn [fst snd vb vz].
        -- exists (done a ++ [h]), (List.tl (rest a)), (VGot (val g nx) nx). split; [|reflexivity].
           apply Inv_acc. eapply Inv_headcas; eauto.
        -- exists (done a), (rest a), (VD None None false). split; [|apply IH].
           apply Inv_acc. eapply Inv_discard; eauto.
    + exists (done a), (rest a), (VD None None false). split; [|apply IH].
      apply Inv_acc. eapply Inv_discard; eauto.
  - (* pNext == nullptr: the validation of head decides *)
    apply safe_act. intros g a tr HI Hv. cbn [a_ld_head fst snd vn].
    destruct (Nat.eqb_spec (head g) h) as [Eh|Hne]; cbn [negb].
    + exists (done a), (rest a), VEmp. split; [|reflexivity].
      apply Inv_acc. eapply Inv_confirm; eauto.
    + exists (done a), (rest a), (VD None None false). split; [|apply IH].
      apply Inv_acc. eapply Inv_discard; eauto.
Qed.

Lemma safe_deq_loop_moir fuel : forall t s0 s1,
  safe t (deq_loop_moir fuel t s0 s1) (VD None None false) Qdeq.
Proof.
  induction fuel as [|f IH]; intros t s0 s1; cbn [deq_loop_moir]; [exact I|].
  apply Conc.safe_bind. eapply Conc.safe_weaken; [|apply safe_protect_head].
  intros [h|] l Hl; [subst l|exact I].
  apply Conc.safe_bind. eapply Conc.safe_weaken; [|apply (safe_protect_next true)].
  intros [[nx|]|] l Hl; cbn in Hl; [subst l|subst l; reflexivity|exact I].
  apply safe_act. intros g a tr HI Hv. unfold a_cas_head.
  destruct (Nat.eqb_spec (head g) h) as [Eh|Hne]; cbn [fst snd vb vz].
  - exists (done a ++ [h]), (List.tl (rest a)), (VGot (val g nx) nx). split.
    { apply Inv_acc. eapply Inv_headcas; eauto. }
    set (v := val g nx). clearbody v. clear g a tr HI Hv Eh.
    apply safe_act. intros g a tr HI Hv. cbn [a_ld_tail fst snd vn].
    exists (done a), (rest a), (VGot v nx). split.
    { eapply step_setv; eauto. intros (_ & _ & F3 & _). repeat split; cbn; try (intros; discriminate); auto. }
    destruct (Nat.eqb (tail g) h); [|reflexivity].
    clear g a tr HI Hv. apply safe_act. intros g a tr HI Hv. unfold a_cas_tail.
    pose proof (I_views _ _ _ HI t) as (_ & _ & F3 & _). rewrite Hv in F3. cbn in F3.
    destruct (Nat.eqb (tail g) h); cbn [fst snd].
    + exists (done a), (rest a), (VGot v nx). split; [|reflexivity].
      eapply step_setv; eauto.
      * apply Inv_tail; [exact HI|]. apply in_done_LL. apply F3. reflexivity.
      * intros _. repeat split; cbn; try (intros; discriminate). intros h0 E. apply F3. exact E.
    + exists (done a), (rest a), (VGot v nx). split; [|reflexivity].
      eapply step_setv; eauto.
      intros _. repeat split; cbn; try (intros; discriminate). intros h0 E. apply F3. exact E.
  - exists (done a), (rest a), (VD None None false). split; [|apply IH].
    apply Inv_acc. eapply Inv_discard; eauto.
Qed.

Definition Qdequeue : option (option Z) -> tview -> Prop :=
  fun r l => match r with
             | None => True
             | Some None => l = VEmp
             | Some (Some v) => exists x, l = VGot v x
             end.

Lemma safe_dequeue cf fuel t s0 s1 :
  safe t (dequeue cf fuel t s0 s1) (VD None None false) Qdequeue.
Proof.
  unfold dequeue. apply Conc.safe_bind.
  eapply Conc.safe_weaken with (Q := Qdeq).
  2:{ unfold deq_loop. destruct (c_moir cf); [apply safe_deq_loop_moir|apply safe_deq_loop_ms]. }
  intros [| |h nx v] l Hl; cbn in Hl; [exact I|subst l|subst l].
  - apply safe_clear2. reflexivity.
  - apply safe_with_ic. apply safe_retire. apply safe_clear2. cbn. now exists nx.
Qed.

(** ** client operations *)
Definition Qop : option bool -> tview -> Prop :=
  fun r l => match r with Some _ => l = v_idle | None => True end.

Lemma safe_ret {R} t name args (r : res) (o : qop) (x : R) l (Q : R -> tview -> Prop) :
  tv_st l = @Linearized Fifo o r -> tv_priv l = None -> tv_cand l = false ->
  hev_of t (EvCli name args) = [@HRes Fifo t r] ->
  Q x v_idle ->
  safe t (Emit [EvCli name args] (Ret x)) l Q.
Proof.
  intros Hs Hp Hc He HQ. apply safe_emit. intros g a tr HI Hv.
  exists (done a), (rest a), v_idle. split; [|exact HQ].
  eapply Inv_event with (e := @ARes Fifo t r) (s' := @Idle Fifo); eauto; try (rewrite Hv; assumption).
  intros f Hf. rewrite Hv, Hs in Hf. eapply step_res. exact Hf.
Qed.

Lemma safe_outoffuel {R} t (x : R) l (Q : R -> tview -> Prop) :
  (forall l', Q x l') -> safe t (Emit [EvCli "outoffuel" []] (Ret x)) l Q.
Proof.
  intros HQ. cbn [Conc.safe]. intros g a tr HI Hv. exists a.
  split; [apply Inv_cli_other; [reflexivity|exact HI]|]. split; [apply frame_refl|]. apply HQ.
Qed.

Lemma safe_run_op cf fuel t fl o : safe t (run_op cf fuel t fl o) v_idle Qop.
Proof.
  destruct o as [v|]; cbn [run_op].
  - apply safe_emit. intros g a tr HI Hv. exists (done a), (rest a), (VPE v). split.
    { eapply Inv_event with (e := @AInv Fifo t (Enq v)) (s' := @Pending Fifo (Enq v)); eauto;
        try (rewrite Hv; reflexivity).
      intros f Hf. rewrite Hv in Hf. apply step_inv. exact Hf. }
    apply Conc.safe_bind. eapply Conc.safe_weaken; [|apply safe_enqueue].
    intros [|] l Hl; cbn in Hl.
    + subst l. eapply safe_ret with (r := RBool true) (o := Enq v); reflexivity.
    + apply safe_outoffuel. intros; exact I.
  - apply safe_emit. intros g a tr HI Hv. exists (done a), (rest a), (VD None None false). split.
    { eapply Inv_event with (e := @AInv Fifo t Deq) (s' := @Pending Fifo Deq); eauto;
        try (rewrite Hv; reflexivity).
      intros f Hf. rewrite Hv in Hf. apply step_inv. exact Hf. }
    apply Conc.safe_bind. eapply Conc.safe_weaken; [|apply safe_dequeue].
    intros [[v|]|] l Hl; cbn in Hl.
    + destruct Hl as (x & ->). eapply safe_ret with (r := RVal (Some v)) (o := Deq); reflexivity.
    + subst l. eapply safe_ret with (r := RVal None) (o := Deq); reflexivity.
    + apply safe_outoffuel. intros; exact I.
Qed.

Lemma safe_run_ops cf fuel t os : forall fl, safe t (run_ops cf fuel t fl os) v_idle (@Conc.QTrue tview).
Proof.
  induction os as [|o r IH]; intros fl; cbn [run_ops]; [exact I|].
  apply Conc.safe_bind. eapply Conc.safe_weaken; [|apply safe_run_op].
  intros [fl'|] l Hl; cbn in Hl; [subst l; apply IH|exact I].
Qed.

Lemma safe_thread cf fuel t os : safe t (thread_prog cf fuel t os) v_idle (@Conc.QTrue tview).
Proof.
  unfold thread_prog. cbn [Conc.safe]. intros g a tr HI Hv. exists a. cbn [a_begin fst snd].
  split; [apply Inv_acc; exact HI|]. split; [apply frame_refl|]. rewrite Hv. apply safe_run_ops.
Qed.

Lemma nth_error_mapi_from {A B} (f : nat -> A -> B) l : forall i t,
  nth_error (mapi_from f i l) t = option_map (f (i + t)%nat) (nth_error l t).
Proof.
  induction l as [|x r IH]; intros i [|t]; cbn; auto.
  - now rewrite Nat.add_0_r.
  - rewrite IH. now rewrite Nat.add_succ_r.
Qed.

Lemma init_ok cf fuel ths : Conc.cfg_ok view Inv (init_cfg cf fuel ths).
Proof.
  exists aux0. split; [apply Inv_init|].
  intros t p Hp. cbn [init_cfg Conc.threads] in Hp. rewrite nth_error_mapi_from in Hp.
  destruct (nth_error ths t) as [os|]; cbn in Hp; [|discriminate]. injection Hp as <-.
  apply safe_thread.
Qed.

(** ** the theorems *)

(** For every reachable configuration (every schedule) there is an LP-annotated trace whose history
    is the one read off the concrete trace, and which ends in the abstract queue "values on the chain
    after head". *)
Theorem msq_reach_inv cf fuel ths c :
  Conc.reach (init_cfg cf fuel ths) c ->
  exists a, Inv (Conc.shared c) a (Conc.trace c).
Proof. intros Hr. exact (Conc.reach_Inv (init_ok cf fuel ths) Hr). Qed.

Theorem msq_lp_trace cf fuel ths c :
  Conc.reach (init_cfg cf fuel ths) c ->
  exists atr : list (aev Fifo), lp_valid Fifo atr /\ erase atr = hist (Conc.trace c).
Proof.
  intros Hr. destruct (msq_reach_inv _ _ _ _ Hr) as (a & HI).
  destruct (spec_valid _ _ _ _ (I_spec _ _ _ HI)) as (atr & f & A & _ & C).
  exists atr. split; [|exact C]. eexists. exact A.
Qed.

Theorem msq_linearizable cf fuel ths c :
  Conc.reach (init_cfg cf fuel ths) c -> linearizable Fifo (hist (Conc.trace c)).
Proof.
  intros Hr. destruct (msq_lp_trace _ _ _ _ Hr) as (atr & Hv & <-).
  apply lp_valid_linearizable. exact Hv.
Qed.

(** the structure: all linked nodes form one duplicate-free chain [done ++ head :: rest] that ends in
    null, tail points into it, and the values on [rest] are exactly the state of the abstract queue
    after the linearization points taken so far (nothing lost, nothing duplicated) *)
Theorem msq_chain cf fuel ths c :
  Conc.reach (init_cfg cf fuel ths) c ->
  let g := Conc.shared c in
  exists (dn rs : list nat) (atr : list (aev Fifo)) (f : stmap),
    NoDup (dn ++ head g :: rs) /\ linked (nxt g) (dn ++ head g :: rs) /\ In (tail g) (dn ++ head g :: rs) /\
    (forall n, In n (dn ++ head g :: rs) -> (n < nalloc g)%nat) /\
    @lp_run Fifo (@lp_init Fifo) atr = Some (map (val g) rs, f) /\ erase atr = hist (Conc.trace c).
Proof.
  intros Hr g. destruct (msq_reach_inv _ _ _ _ Hr) as (a & HI).
  destruct (spec_valid _ _ _ _ (I_spec _ _ _ HI)) as (atr & f & A & _ & C).
  exists (done a), (rest a), atr, f. repeat split; auto.
  - apply (I_nodup _ _ _ HI).
  - apply (I_linked _ _ _ HI).
  - apply (I_tail _ _ _ HI).
  - apply (I_lt _ _ _ HI).
Qed.

(** ** the property's own sentences *)

(** "no item is invented" *)
Theorem msq_no_invention cf fuel ths c :
  Conc.reach (init_cfg cf fuel ths) c ->
  forall i v, deq_returns (hist (Conc.trace c)) i (Some v) -> enqueued (hist (Conc.trace c)) v.
Proof. intros Hr. apply fifo_no_invention. eapply msq_linearizable; eauto. Qed.

(** "each enqueued item is dequeued at most once" (for client programs that enqueue distinct values) *)
Theorem msq_at_most_once cf fuel ths c :
  Conc.reach (init_cfg cf fuel ths) c ->
  distinct_enqueues (hist (Conc.trace c)) ->
  forall i1 i2 v, deq_returns (hist (Conc.trace c)) i1 (Some v) ->
                  deq_returns (hist (Conc.trace c)) i2 (Some v) -> i1 = i2.
Proof. intros Hr. apply fifo_at_most_once. eapply msq_linearizable; eauto. Qed.

(** "dequeue reports empty only if the queue was empty at some instant during the call": in the
    linearization (which respects real time, so the point lies within the call) the empty dequeue is
    applied to the empty queue *)
Theorem msq_empty_only_if_empty cf fuel ths c :
  Conc.reach (init_cfg cf fuel ths) c ->
  exists lin, linearization Fifo (hist (Conc.trace c)) lin /\
    forall i, deq_returns (hist (Conc.trace c)) i None ->
      exists l1 a l2, lin = l1 ++ a :: l2 /\ l_inv a = i /\
        @final Fifo (sinit Fifo) (map (fun a : lop Fifo => (l_op a, l_res a)) l1) = [].
Proof.
  intros Hr. destruct (msq_linearizable _ _ _ _ Hr) as (lin & L). exists lin. split; [exact L|].
  intros i Hd. eapply fifo_empty_was_empty; eauto.
Qed.

(** ** the two instantiations by name *)
Theorem msqueue_linearizable ic hp fuel ths c :
  Conc.reach (init_cfg (mkConf false ic hp) fuel ths) c ->
  exists atr : list (aev Fifo), lp_valid Fifo atr /\ erase atr = hist (Conc.trace c).
Proof. apply msq_lp_trace. Qed.

Theorem moirqueue_linearizable ic hp fuel ths c :
  Conc.reach (init_cfg (mkConf true ic hp) fuel ths) c ->
  exists atr : list (aev Fifo), lp_valid Fifo atr /\ erase atr = hist (Conc.trace c).
Proof. apply msq_lp_trace. Qed.

Definition msq_chain_wellformed := msq_chain.
Definition msq_no_loss_no_dup := msq_chain.
