(** * Theorems about LV.Model.Vyukov read off the invariant of LV.Proofs.VyukovCore / VyukovLin.
      Every statement is about every configuration reachable from the initial one by ANY sequence of thread
      choices ([Conc.reach]), any number of threads, any client programs, any capacity 2^k (k >= 1), item
      counter on or off, under the stated bound: (number of successful CASes on m_posEnqueue in the trace)
      + capacity < 2^62, which excludes wrap-around of the position counters. *)
From Coq Require Import ZArith List Bool Lia PeanoNat.
From LV Require Import Base.Conc Base.Events Base.CInt Base.Lin Spec.Specs Model.Vyukov
                       Proofs.VyukovSpec Proofs.VyukovArith Proofs.VyukovCore Proofs.VyukovLin Proofs.LinProofs.
Import ListNotations.
Local Open Scope Z_scope.

(** the bound, spelled out *)
Definition claims_bound (k : nat) (tr : list (nat * ev)) : Prop := nclaims tr + 2 ^ Z.of_nat k < 2 ^ 62.

Lemma claims_bound_core k tr : claims_bound k tr -> bound k 0 tr.
Proof. unfold claims_bound, bound, B62. lia. Qed.

(** boolean form of [programs_allowed], for concrete programs *)
Definition allowedb (mp : bool) (sc : option nat) (t : nat) (o : op) : bool :=
  match o with
  | OEnq _ | OEmpty | OSize => true
  | ODeq => match sc with Some tc => Nat.eqb t tc | None => true end
  | OPop => negb mp && match sc with Some tc => Nat.eqb t tc | None => true end
  | OFront => negb mp && match sc with Some tc => Nat.eqb t tc | None => false end
  end.

Lemma allowedb_ok mp sc t o : allowedb mp sc t o = true -> allowed mp sc t o.
Proof.
  destruct o; cbn; auto.
  - destruct sc as [tc|]; intros H tc' E; inversion E; subst. now apply Nat.eqb_eq.
  - destruct mp; cbn; [discriminate|]. destruct sc as [tc|]; [|discriminate]. intros H. split; auto.
    apply Nat.eqb_eq in H. now subst.
  - destruct mp; cbn; [discriminate|]. intros H. split; auto.
    destruct sc as [tc|]; intros tc' E; inversion E; subst. now apply Nat.eqb_eq.
Qed.

Fixpoint progs_allowedb (mp : bool) (sc : option nat) (t : nat) (ths : list (list op)) : bool :=
  match ths with
  | [] => true
  | os :: r => forallb (allowedb mp sc t) os && progs_allowedb mp sc (S t) r
  end.

Lemma progs_allowedb_ok mp sc ths : forall t0,
  progs_allowedb mp sc t0 ths = true ->
  forall t os o, nth_error ths t = Some os -> In o os -> allowed mp sc (t0 + t) o.
Proof.
  induction ths as [|os0 r IH]; intros t0 H t os o Hn Hi.
  - destruct t; discriminate.
  - cbn in H. apply andb_true_iff in H. destruct H as [H1 H2]. destruct t as [|t]; cbn in Hn.
    + inversion Hn; subst. rewrite Nat.add_0_r. apply allowedb_ok.
      rewrite forallb_forall in H1. auto.
    + replace (t0 + S t)%nat with (S t0 + t)%nat by lia. eapply IH; eauto.
Qed.

Lemma programs_allowed_b mp sc ths : progs_allowedb mp sc 0 ths = true -> programs_allowed sc mp ths.
Proof. intros H t os o Hn Hi. apply (progs_allowedb_ok mp sc ths 0 H t os o Hn Hi). Qed.

(** ** generic facts about valid traces of the bounded FIFO with front / pop_front *)
Section VQFacts.
  Variable capn : nat.

  Lemma vq_len_step (qs : list Z) o : (length qs <= capn)%nat -> (length (fst (vq_step capn qs o)) <= capn)%nat.
  Proof.
    intros H. destruct o; cbn [vq_step bfifo_step fifo_step].
    - destruct (Nat.ltb_spec (length qs) capn); cbn [fst]; auto. rewrite app_length. cbn. lia.
    - destruct qs; cbn in *; lia.
    - cbn; auto.
    - destruct qs; cbn in *; lia.
  Qed.

  Lemma vq_len_run tr : forall (c c' : config (VQ capn)),
    lp_run c tr = Some c' -> (length (fst c) <= capn)%nat -> (length (fst c') <= capn)%nat.
  Proof.
    induction tr as [|e r IH]; intros c c' H Hl; cbn [lp_run] in H.
    - inversion H; subst; auto.
    - destruct (lp_step c e) as [c1|] eqn:E; [|discriminate]. apply (IH c1 c' H).
      destruct c as [qs S]. destruct e as [t o|t|t x]; cbn [lp_step] in E.
      + destruct (S t); inversion E; subst; auto.
      + destruct (S t) as [|o|o x]; inversion E; subst. cbn [fst] in *.
        change (sstep (VQ capn) qs o) with (vq_step capn qs o). apply vq_len_step; auto.
      + destruct (S t) as [|o|o x']; try discriminate. destruct (res_eqb (VQ capn) x x'); inversion E; subst; auto.
  Qed.

  (** what a linearization point does, operation by operation.  [pre] is the annotated trace up to (not
      including) a linearization point of thread [t] whose operation is pending: the point lies between the
      invocation and the response of that operation, and the result the operation later returns is the one
      given here (the response step of [lp_run] compares them). *)
  Lemma vq_lin_point (pre : list (aev (VQ capn))) t qs S o :
    lp_run lp_init pre = Some (qs, S) -> S t = @Pending (VQ capn) o ->
    (length qs <= capn)%nat /\
    lp_run lp_init (pre ++ [@ALin (VQ capn) t]) =
      Some (fst (vq_step capn qs o), Lin.upd S t (@Linearized (VQ capn) o (snd (vq_step capn qs o)))).
  Proof.
    intros R Hs. split.
    - apply (vq_len_run pre lp_init (qs, S) R). cbn. lia.
    - rewrite lp_run_app, R. cbn [lp_run lp_step]. rewrite Hs. reflexivity.
  Qed.

  Lemma vq_enq_result qs x : (length qs <= capn)%nat ->
    (snd (vq_step capn qs (VEnq x)) = RBool false <-> length qs = capn) /\
    (snd (vq_step capn qs (VEnq x)) = RBool true -> fst (vq_step capn qs (VEnq x)) = qs ++ [x]).
  Proof.
    intros H. cbn [vq_step bfifo_step]. destruct (Nat.ltb_spec (length qs) capn) as [L|L]; cbn [fst snd].
    - split; [split; [intros E; discriminate|intros E; lia]|reflexivity].
    - split; [split; [intros _; lia|reflexivity]|intros E; discriminate].
  Qed.

  Lemma vq_deq_result qs :
    (snd (vq_step capn qs VDeq) = RVal None <-> qs = []) /\
    (forall v, snd (vq_step capn qs VDeq) = RVal (Some v) -> qs = v :: fst (vq_step capn qs VDeq)).
  Proof.
    destruct qs as [|y r]; cbn; split; try (split; intros; congruence).
    - intros v H; discriminate.
    - intros v H. inversion H; reflexivity.
  Qed.

  Lemma vq_front_pop_result qs :
    fst (vq_step capn qs VFront) = qs /\ snd (vq_step capn qs VFront) = RVal (hd_error qs) /\
    fst (vq_step capn qs VPopFront) = tl qs /\
    snd (vq_step capn qs VPopFront) = RBool (match qs with [] => false | _ => true end).
  Proof. destruct qs; cbn; auto. Qed.
End VQFacts.

Section Theorems.
  Variable k : nat.
  Hypothesis Hk : (1 <= k)%nat.
  Variable q : qcfg.
  Hypothesis Hq : qcap q = 2 ^ Z.of_nat k.
  Variable fuel : nat.
  Variable ths : list (list op).

  Notation capn := (2 ^ k)%nat.
  Notation cap := (2 ^ Z.of_nat k).
  Notation cell := (VyukovArith.cell k).

  (** *** invariants (any use: MPMC or single consumer) *)
  Section AnyMode.
    Variable sc : option nat.
    Variable mp : bool.
    Hypothesis Hal : programs_allowed sc mp ths.
    Variable c : Conc.config G V ev.
    Hypothesis Hr : Conc.reach (init_cfg q fuel ths) c.
    Hypothesis Hb : claims_bound k (Conc.trace c).

    Let g := Conc.shared c.

    Theorem vyukov_positions_ordered :
      0 <= posD g /\ posD g <= posE g /\ posE g <= posD g + cap.
    Proof.
      destruct (reach_real k Hk q Hq sc mp fuel ths c Hal Hr (claims_bound_core k _ Hb)) as (a & R).
      exact (ri_pos _ _ _ _ _ _ _ _ R).
    Qed.

    Theorem vyukov_cell_phase : forall p,
      (posD g <= p < posE g -> seqs g (cell p) = p + 1 \/ seqs g (cell p) = p) /\
      (posE g <= p < posD g + cap -> seqs g (cell p) = p \/ seqs g (cell p) = p - cap + 1).
    Proof.
      destruct (reach_real k Hk q Hq sc mp fuel ths c Hal Hr (claims_bound_core k _ Hb)) as (a & R).
      intros p. split; intros Hp.
      - destruct (ri_used _ _ _ _ _ _ _ _ R p Hp) as [H|[H _]]; auto.
      - destruct (ri_free _ _ _ _ _ _ _ _ R p Hp) as [H|[H _]]; auto.
    Qed.

    (** the LP-annotated trace: valid against the specification, its erasure is the history of the trace,
        its final abstract state is the content of the cells of [posDeq, posEnq), no step of the run hit
        undefined behaviour (signed overflow of the sequence difference) *)
    Theorem vyukov_lp_trace :
      exists (atr : list (aev (VQ capn))) (qs : list Z) (S : nat -> status (VQ capn)),
        lp_run lp_init atr = Some (qs, S) /\
        erase atr = hist capn (Conc.trace c) /\
        Z.of_nat (length qs) = posE g - posD g /\
        (forall i, (i < length qs)%nat -> nth_error qs i = Some (datas g (cell (posD g + Z.of_nat i)))) /\
        no_ub (Conc.trace c) = true /\
        (mp = true -> exists atr', unemb atr = Some atr' /\ erase atr' = hist_b capn (Conc.trace c)).
    Proof.
      destruct (reach_real k Hk q Hq sc mp fuel ths c Hal Hr (claims_bound_core k _ Hb)) as (a & R).
      destruct (ri_ext _ _ _ _ _ _ _ _ R) as ((S & E1 & _) & E2 & E3 & E4).
      exists (ext _ a), (absq _ a), S. repeat split; auto.
      - exact (ri_len _ _ _ _ _ _ _ _ R).
      - exact (ri_content _ _ _ _ _ _ _ _ R).
    Qed.

    (** no loss, no duplication: the values whose enqueue was linearized successfully, in that order, are the
        values dequeued / popped, in that order, followed by the values in the claimed cells (published or
        held by a stalled enqueuer) *)
    Theorem vyukov_no_loss_no_dup :
      exists (atr : list (aev (VQ capn))) (qs : list Z),
        lp_valid (VQ capn) atr /\ erase atr = hist capn (Conc.trace c) /\
        Z.of_nat (length qs) = posE g - posD g /\
        (forall i, (i < length qs)%nat -> nth_error qs i = Some (datas g (cell (posD g + Z.of_nat i)))) /\
        fst (moved capn lp_init atr) = snd (moved capn lp_init atr) ++ qs.
    Proof.
      destruct vyukov_lp_trace as (atr & qs & S & E1 & E2 & E3 & E4 & _).
      exists atr, qs. repeat split; auto.
      - exists (qs, S). exact E1.
      - pose proof (conservation capn atr lp_init (qs, S) E1) as C. cbn [fst lp_init] in C. exact C.
    Qed.

    Theorem vyukov_linearizable_vq :
      linearizable (VQ capn) (hist capn (Conc.trace c)).
    Proof.
      destruct vyukov_lp_trace as (atr & qs & S & E1 & E2 & _).
      rewrite <- E2. apply lp_valid_linearizable. exists (qs, S). exact E1.
    Qed.

    (** failures and the single-consumer pair, in terms of the linearization points *)
    Theorem vyukov_lin_points :
      exists atr : list (aev (VQ capn)),
        lp_valid (VQ capn) atr /\ erase atr = hist capn (Conc.trace c) /\
        forall pre t post qs S o,
          atr = pre ++ @ALin (VQ capn) t :: post ->
          lp_run lp_init pre = Some (qs, S) -> S t = @Pending (VQ capn) o ->
          (length qs <= capn)%nat /\
          lp_run lp_init (pre ++ [@ALin (VQ capn) t]) =
            Some (fst (vq_step capn qs o), Lin.upd S t (@Linearized (VQ capn) o (snd (vq_step capn qs o)))) /\
          (forall x, o = VEnq x -> (snd (vq_step capn qs o) = RBool false <-> length qs = capn)) /\
          (o = VDeq -> (snd (vq_step capn qs o) = RVal None <-> qs = [])) /\
          (o = VFront -> snd (vq_step capn qs o) = RVal (hd_error qs) /\ fst (vq_step capn qs o) = qs) /\
          (o = VPopFront -> fst (vq_step capn qs o) = tl qs).
    Proof.
      destruct vyukov_lp_trace as (atr & qs0 & S0 & E1 & E2 & _).
      exists atr. split; [exists (qs0, S0); exact E1|]. split; [exact E2|].
      intros pre t post qs S o Hs R Hp.
      destruct (vq_lin_point capn pre t qs S o R Hp) as [L1 L2]. split; auto. split; auto.
      split; [|split; [|split]].
      - intros x ->. apply vq_enq_result; auto.
      - intros ->. apply vq_deq_result.
      - intros ->. destruct (vq_front_pop_result capn qs) as (A & B & _). auto.
      - intros ->. destruct (vq_front_pop_result capn qs) as (_ & _ & A & _). auto.
    Qed.
  End AnyMode.

  (** *** the plain enqueue / dequeue interface against [BFifo (2^k)] *)
  Theorem vyukov_linearizable c :
    programs_allowed None true ths ->
    Conc.reach (init_cfg q fuel ths) c -> claims_bound k (Conc.trace c) ->
    (exists atr : list (aev (BFifo capn)),
       lp_valid (BFifo capn) atr /\ erase atr = hist_b capn (Conc.trace c)) /\
    linearizable (BFifo capn) (hist_b capn (Conc.trace c)).
  Proof.
    intros Hal Hr Hb.
    destruct (vyukov_lp_trace None true Hal c Hr Hb) as (atr & qs & S & E1 & E2 & _ & _ & _ & E6).
    destruct (E6 eq_refl) as (atr' & U & E').
    assert (V : lp_valid (BFifo capn) atr').
    { apply (lp_valid_unemb capn atr atr' U). exists (qs, S). exact E1. }
    split; [exists atr'; auto|]. rewrite <- E'. apply lp_valid_linearizable. exact V.
  Qed.
End Theorems.
