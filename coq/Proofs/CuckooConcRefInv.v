(** * CuckooSet with the refinable mutex policy (cuckoo::refinable<>): the lock / ownership protocol.

    Policy-level invariant of the whole model ([Model/CuckooConc.v], [c_pol = Refinable]): reentrant cell locks of
    several generations of lock arrays, the owner word, the capacity word and the [m_access] spin lock.
    Per thread: the multiset of locks it has, the acquisition / release in progress, its resizer state, the cell it
    validated in acquire() ([w_anc]: owner free and capacity unchanged after the locks were taken), the cell it has
    checked the owner word for ([w_chk]), the (generation, size) of the lock arrays it last read, whether it holds
    [m_access], and the bucket mask it knows while it is the exclusive resizer. *)
From Coq Require Import ZArith List Bool Lia PeanoNat.
From LV Require Import Base.Conc Base.Events Model.CuckooConc Proofs.StripedConcSpec Proofs.CuckooConcInv.
Import ListNotations.
Local Open Scope nat_scope.

Inductive ostate :=
| ONone
| OCas                                   (* m_Owner taken, capacity not yet re-checked *)
| OLk (g0 sz j : nat)                    (* owner; cells 0 .. j-1 of table 0 of generation g0 (size sz) locked *)
| OIn (g0 sz n : nat) (b : bool).        (* owner with all cells of g0; new lock arrays of size n installed; b: new tables stored *)

Definition exclusive (o : ostate) : Prop :=
  match o with OLk _ sz j => j = sz | OIn _ _ _ _ => True | _ => False end.

Record wview := mkW {
  w_held : list lk;
  w_mic : micro;
  w_own : ostate;
  w_anc : option (nat * nat);
  w_chk : option (nat * nat);
  w_gs : nat * nat;
  w_acc : bool;
  w_mask : nat
}.
Definition RAux := nat -> wview.
Definition rview (a : RAux) (t : nat) : wview := a t.
Definition rsetv (a : RAux) (t : nat) (w : wview) : RAux := fun x => if Nat.eqb x t then w else a x.

Lemma rsetv_same a t w : rsetv a t w t = w.
Proof. unfold rsetv. now rewrite Nat.eqb_refl. Qed.
Lemma rsetv_other a t w t' : t' <> t -> rsetv a t w t' = a t'.
Proof. unfold rsetv. intros H. destruct (Nat.eqb_spec t' t); congruence. Qed.
Lemma rframe_setv a t w : Conc.frame rview t a (rsetv a t w).
Proof. intros t' H. unfold rview. now apply rsetv_other. Qed.
Lemma rframe_refl a t : Conc.frame rview t a a.
Proof. intros t' H. reflexivity. Qed.

Definition same_pol (g g' : G) : Prop :=
  owner g' = owner g /\ pcap g' = pcap g /\ access g' = access g /\ cur g' = cur g /\ ngen g' = ngen g /\
  gsize g' = gsize g /\ mask g' = mask g.
Definition same_locks (g g' : G) : Prop := rspin g' = rspin g /\ rown g' = rown g.

Record CoreR (g : G) (a : RAux) : Prop := mkCoreR {
  r_spin0 : forall l, rspin g l <> 0 -> exists t, In l (w_held (a t));
  r_spin : forall t l, In l (w_held (a t)) -> rspin g l = cnt (w_held (a t)) l;
  r_excl : forall t t' l, In l (w_held (a t)) -> In l (w_held (a t')) -> t = t';
  r_rown : forall l, rown g l = 0 \/ exists t, rown g l = S t /\ In l (w_held (a t)) /\ w_mic (a t) <> MTaken l /\ w_mic (a t) <> MRel l;
  r_rown2 : forall t l, In l (w_held (a t)) -> w_mic (a t) <> MTaken l -> w_mic (a t) <> MRel l -> rown g l = S t;
  r_mic : forall t l, w_mic (a t) = MTaken l \/ w_mic (a t) = MRel l -> cnt (w_held (a t)) l = 1;
  r_range : forall t gg tb i, In (gg, tb, i) (w_held (a t)) -> gg <= cur g /\ tb < 2 /\ i < gsize g gg;
  r_own1 : forall t, w_own (a t) <> ONone -> owner g = 2 * S t + 1;
  r_own0 : owner g = 0 -> forall t, w_own (a t) = ONone;
  r_own2 : owner g = 0 \/ exists R, w_own (a R) <> ONone;
  r_scan : forall t g0 sz j, w_own (a t) = OLk g0 sz j ->
             j <= sz /\ sz = gsize g g0 /\ g0 = cur g /\ forall i, i < j -> In (g0, 0, i) (w_held (a t));
  r_inst : forall t g0 sz n b, w_own (a t) = OIn g0 sz n b ->
             sz = gsize g g0 /\ g0 < cur g /\ n = pcap g /\ forall i, i < sz -> In (g0, 0, i) (w_held (a t));
  r_anc : forall t gen i, w_anc (a t) = Some (gen, i) ->
             In (gen, 0, i) (w_held (a t)) /\ gen = cur g /\ forall R, R <> t -> ~ exclusive (w_own (a R));
  r_chk : forall t gen i, w_chk (a t) = Some (gen, i) ->
             In (gen, 0, i) (w_held (a t)) /\ (gen = cur g -> forall R, R <> t -> ~ exclusive (w_own (a R)));
  r_cap : pcap g = gsize g (cur g) /\ ngen g = S (cur g) /\
          (forall g1 g2, g1 < g2 -> g2 <= cur g -> gsize g g1 < gsize g g2) /\
          (forall gg, gg <= cur g -> 0 < gsize g gg);
  r_gs : forall t, fst (w_gs (a t)) <= cur g /\ gsize g (fst (w_gs (a t))) = snd (w_gs (a t));
  r_acc : (forall t, w_acc (a t) = true -> access g = true /\ fst (w_gs (a t)) = cur g) /\
          (forall t t', w_acc (a t) = true -> w_acc (a t') = true -> t = t') /\
          (access g = false -> forall t, w_acc (a t) = false);
  r_len : pcap g = S (mask g) \/ exists R g0 sz, w_own (a R) = OIn g0 sz (pcap g) false /\ pcap g = 2 * S (mask g);
  r_mask : forall t, exclusive (w_own (a t)) -> mask g = w_mask (a t)
}.

Definition InvR (g : G) (a : RAux) (tr : list (nat * ev)) : Prop := CoreR g a.

Arguments r_spin0 {g a}. Arguments r_spin {g a}. Arguments r_excl {g a}. Arguments r_rown {g a}. Arguments r_rown2 {g a}.
Arguments r_mic {g a}. Arguments r_range {g a}. Arguments r_own1 {g a}. Arguments r_own0 {g a}. Arguments r_own2 {g a}. Arguments r_scan {g a}.
Arguments r_inst {g a}. Arguments r_anc {g a}. Arguments r_chk {g a}. Arguments r_cap {g a}. Arguments r_gs {g a}.
Arguments r_acc {g a}. Arguments r_len {g a}. Arguments r_mask {g a}.


Definition rheld (a : RAux) (t : nat) : list lk := w_held (a t).
Definition rmic (a : RAux) (t : nat) : micro := w_mic (a t).
Lemma rheld_same a t w : rheld (rsetv a t w) t = w_held w.  Proof. unfold rheld. now rewrite rsetv_same. Qed.
Lemma rheld_other a t w t' : t' <> t -> rheld (rsetv a t w) t' = rheld a t'.  Proof. unfold rheld. intros. now rewrite rsetv_other. Qed.
Lemma rmic_same a t w : rmic (rsetv a t w) t = w_mic w.  Proof. unfold rmic. now rewrite rsetv_same. Qed.
Lemma rmic_other a t w t' : t' <> t -> rmic (rsetv a t w) t' = rmic a t'.  Proof. unfold rmic. intros. now rewrite rsetv_other. Qed.

(** at most one thread is in an owner state *)
Lemma own_unique g a t t' : CoreR g a -> w_own (a t) <> ONone -> w_own (a t') <> ONone -> t = t'.
Proof. intros Hc H1 H2. pose proof (r_own1 Hc t H1). pose proof (r_own1 Hc t' H2). lia. Qed.

Lemma excl_not_none o : exclusive o -> o <> ONone.
Proof. destruct o; cbn; congruence || tauto. Qed.

Lemma excl_unique g a t t' : CoreR g a -> exclusive (w_own (a t)) -> exclusive (w_own (a t')) -> t = t'.
Proof. intros Hc H1 H2. eapply own_unique; eauto using excl_not_none. Qed.

(** the capacity determines the generation *)
Lemma cap_gen g a gen : CoreR g a -> gen <= cur g -> gsize g gen = pcap g -> gen = cur g.
Proof.
  intros Hc Hle E. destruct (r_cap Hc) as (Hp & _ & Hmono & _).
  destruct (Nat.eq_dec gen (cur g)) as [|Hne]; auto.
  specialize (Hmono gen (cur g) ltac:(lia) ltac:(lia)). lia.
Qed.

(** free_or_mine: nobody else is in an owner state *)
Lemma free_or_mine_others g a t : CoreR g a -> free_or_mine (owner g) (S t) = true ->
  forall R, R <> t -> w_own (a R) = ONone.
Proof.
  intros Hc Hf R Hne. destruct (w_own (a R)) eqn:E; auto; exfalso.
  all: assert (Ho : owner g = 2 * S R + 1) by (apply (r_own1 Hc R); rewrite E; discriminate).
  all: unfold free_or_mine in Hf; rewrite Ho in Hf; apply orb_true_iff in Hf; destruct Hf as [Hf|Hf].
  all: try (rewrite Nat.add_1_r, Nat.even_succ, Nat.odd_mul in Hf; cbn in Hf; discriminate).
  all: replace (2 * S R + 1) with (S (2 * S R)) in Hf by lia; rewrite Nat.div2_succ_double in Hf; apply Nat.eqb_eq in Hf; lia.
Qed.

(** the state is read only through the lock words and the policy words *)
Lemma CoreR_same g g' a : CoreR g a -> same_locks g g' -> same_pol g g' -> CoreR g' a.
Proof.
  intros [K1 K2 K3 K4 K5 K6 K7 P1 P2 P2' P3 P3' P4 P5 P6 P7 P8 P9 P10] [C1 C2] (D1 & D2 & D3 & D4 & D5 & D6 & D7).
  constructor; rewrite ?C1, ?C2, ?D1, ?D2, ?D3, ?D4, ?D5, ?D6, ?D7; auto.
Qed.

(** *** a step of thread [t] on the lock words *)
Lemma CoreR_lock g g' a t w' :
  CoreR g a -> same_pol g g' ->
  (forall l, In l (w_held w') -> rspin g' l = cnt (w_held w') l /\ forall t0, t0 <> t -> ~ In l (w_held (a t0))) ->
  (forall l, rspin g' l <> 0 -> In l (w_held w') \/ exists t0, t0 <> t /\ In l (w_held (a t0))) ->
  (forall l t0, t0 <> t -> In l (w_held (a t0)) -> rspin g' l = rspin g l /\ rown g' l = rown g l) ->
  (forall l, (forall t0, t0 <> t -> ~ In l (w_held (a t0))) ->
     rown g' l = 0 \/ (rown g' l = S t /\ In l (w_held w') /\ w_mic w' <> MTaken l /\ w_mic w' <> MRel l)) ->
  (forall l, In l (w_held w') -> w_mic w' <> MTaken l -> w_mic w' <> MRel l -> rown g' l = S t) ->
  (forall l, w_mic w' = MTaken l \/ w_mic w' = MRel l -> cnt (w_held w') l = 1) ->
  (forall gg tb i, In (gg, tb, i) (w_held w') -> gg <= cur g /\ tb < 2 /\ i < gsize g gg) ->
  w_own w' = w_own (a t) -> w_gs w' = w_gs (a t) -> w_acc w' = w_acc (a t) -> w_mask w' = w_mask (a t) ->
  (forall g0 sz j, w_own (a t) = OLk g0 sz j -> forall i, i < j -> In (g0, 0, i) (w_held w')) ->
  (forall g0 sz n b, w_own (a t) = OIn g0 sz n b -> forall i, i < sz -> In (g0, 0, i) (w_held w')) ->
  (forall x, w_anc w' = Some x -> w_anc (a t) = Some x /\ In (fst x, 0, snd x) (w_held w')) ->
  (forall x, w_chk w' = Some x -> w_chk (a t) = Some x /\ In (fst x, 0, snd x) (w_held w')) ->
  CoreR g' (rsetv a t w').
Proof.
  intros Hc (D1 & D2 & D3 & D4 & D5 & D6 & D7) L1 L1' L2 L3 L3' Lm Lr Wo Wg Wa Wm Ps Pi Pa Pc.
  pose proof Hc as [K1 K2 K3 K4 K5 K6 K7 P1 P2 P2' P3 P3' P4 P5 P6 P7 P8 P9 P10].
  assert (Hown : forall t0, w_own (rsetv a t w' t0) = w_own (a t0)).
  { intros t0. destruct (Nat.eq_dec t0 t) as [->|Hne]; [now rewrite rsetv_same|now rewrite rsetv_other]. }
  constructor; rewrite ?D1, ?D2, ?D3, ?D4, ?D5, ?D6, ?D7.
  - intros l Hn. destruct (L1' l Hn) as [H|(t0 & Hne & H)]; [exists t; now rewrite rsetv_same|exists t0; now rewrite rsetv_other].
  - intros t0 l H. destruct (Nat.eq_dec t0 t) as [->|Hne].
    + rewrite rsetv_same in *. apply (L1 l H).
    + rewrite rsetv_other in * by exact Hne. rewrite (proj1 (L2 l t0 Hne H)). now apply K2.
  - intros t1 t2 l H1 H2.
    destruct (Nat.eq_dec t1 t) as [->|N1]; destruct (Nat.eq_dec t2 t) as [->|N2]; auto.
    + rewrite rsetv_same in H1. rewrite rsetv_other in H2 by exact N2. exfalso. eapply (proj2 (L1 l H1)); eauto.
    + rewrite rsetv_same in H2. rewrite rsetv_other in H1 by exact N1. exfalso. eapply (proj2 (L1 l H2)); eauto.
    + rewrite rsetv_other in H1 by exact N1. rewrite rsetv_other in H2 by exact N2. eapply K3; eauto.
  - intros l.
    assert (D : (exists t0, t0 <> t /\ In l (w_held (a t0))) \/ (forall t0, t0 <> t -> ~ In l (w_held (a t0)))).
    { destruct (K4 l) as [H|(t0 & H1 & H2 & H3 & H4)].
      - destruct (Nat.eq_dec (rspin g l) 0) as [E|E].
        + right. intros t0 Hne Hin. rewrite (K2 t0 l Hin) in E. apply (count_occ_not_In lk_dec) in E. contradiction.
        + destruct (K1 l E) as (t0 & Hin). destruct (Nat.eq_dec t0 t) as [->|Hne]; [|left; eauto].
          right. intros t1 Hn1 Hin1. apply Hn1. eapply K3; eauto.
      - destruct (Nat.eq_dec t0 t) as [->|Hne]; [|left; eauto]. right. intros t1 Hn1 Hin1. apply Hn1. eapply K3; eauto. }
    destruct D as [(t0 & Hne & Hin)|Hno].
    + destruct (L2 l t0 Hne Hin) as [_ E]. rewrite E. destruct (K4 l) as [H|(t1 & H1 & H2 & H3 & H4)]; [now left|].
      assert (t1 = t0) by (eapply K3; eauto). subst t1. right. exists t0. rewrite !rsetv_other by exact Hne. auto.
    + destruct (L3 l Hno) as [H|(H1 & H2 & H3 & H4)]; [now left|]. right. exists t. rewrite !rsetv_same. auto.
  - intros t0 l H M1 M2. destruct (Nat.eq_dec t0 t) as [->|Hne].
    + rewrite rsetv_same in H. rewrite rsetv_same in M1, M2. auto.
    + rewrite rsetv_other in H by exact Hne. rewrite rsetv_other in M1, M2 by exact Hne.
      rewrite (proj2 (L2 l t0 Hne H)). auto.
  - intros t0 l H. destruct (Nat.eq_dec t0 t) as [->|Hne].
    + rewrite rsetv_same in H. rewrite rsetv_same. auto.
    + rewrite rsetv_other in H by exact Hne. rewrite rsetv_other by exact Hne. auto.
  - intros t0 gg tb i H. destruct (Nat.eq_dec t0 t) as [->|Hne].
    + rewrite rsetv_same in H. eauto.
    + rewrite rsetv_other in H by exact Hne. eauto.
  - intros t0. rewrite Hown. apply P1.
  - intros E t0. rewrite Hown. now apply P2.
  - destruct P2' as [E|(R & HR)]; [now left|right; exists R; now rewrite Hown].
  - intros t0 g0 sz j. rewrite Hown. intros E. destruct (P3 t0 g0 sz j E) as (A1 & A2 & A3 & A4).
    split; auto. split; auto. split; auto. destruct (Nat.eq_dec t0 t) as [->|Hne].
    + rewrite rsetv_same. eapply Ps; eauto.
    + rewrite rsetv_other by exact Hne. exact A4.
  - intros t0 g0 sz n b. rewrite Hown. intros E. destruct (P3' t0 g0 sz n b E) as (A1 & A2 & A3 & A4).
    split; auto. split; auto. split; auto. destruct (Nat.eq_dec t0 t) as [->|Hne].
    + rewrite rsetv_same. eapply Pi; eauto.
    + rewrite rsetv_other by exact Hne. exact A4.
  - intros t0 gen i. destruct (Nat.eq_dec t0 t) as [->|Hne].
    + rewrite !rsetv_same. intros E. destruct (Pa _ E) as [E0 Hin]. destruct (P4 t gen i E0) as (A1 & A2 & A3).
      split; [exact Hin|]. split; auto. intros R HR. rewrite Hown. auto.
    + rewrite !rsetv_other by exact Hne. intros E. destruct (P4 t0 gen i E) as (A1 & A2 & A3).
      split; auto. split; auto. intros R HR. rewrite Hown. auto.
  - intros t0 gen i. destruct (Nat.eq_dec t0 t) as [->|Hne].
    + rewrite !rsetv_same. intros E. destruct (Pc _ E) as [E0 Hin]. destruct (P5 t gen i E0) as (A1 & A2).
      split; [exact Hin|]. intros Eg R HR. rewrite Hown. auto.
    + rewrite !rsetv_other by exact Hne. intros E. destruct (P5 t0 gen i E) as (A1 & A2).
      split; auto. intros Eg R HR. rewrite Hown. auto.
  - exact P6.
  - intros t0. destruct (Nat.eq_dec t0 t) as [->|Hne]; [rewrite rsetv_same, Wg|rewrite rsetv_other by exact Hne]; apply P7.
  - destruct P8 as (A1 & A2 & A3).
    assert (Hacc : forall t0, w_acc (rsetv a t w' t0) = w_acc (a t0)).
    { intros t0. destruct (Nat.eq_dec t0 t) as [->|Hne]; [now rewrite rsetv_same|now rewrite rsetv_other]. }
    assert (Hgs : forall t0, w_gs (rsetv a t w' t0) = w_gs (a t0)).
    { intros t0. destruct (Nat.eq_dec t0 t) as [->|Hne]; [now rewrite rsetv_same|now rewrite rsetv_other]. }
    split; [|split].
    + intros t0. rewrite Hacc, Hgs. apply A1.
    + intros t1 t2. rewrite !Hacc. apply A2.
    + intros E t0. rewrite Hacc. now apply A3.
  - destruct P9 as [E|(R & g0 & sz & E1 & E2)]; [now left|right; exists R, g0, sz; rewrite Hown; auto].
  - intros t0. rewrite Hown. intros E. destruct (Nat.eq_dec t0 t) as [->|Hne]; [rewrite rsetv_same, Wm|rewrite rsetv_other by exact Hne]; now apply P10.
Qed.

(** *** steps on the policy words: the lock words and the lock sets do not change *)
Lemma LockR_keep g g' a t w' :
  CoreR g a -> same_locks g g' -> w_held w' = w_held (a t) -> w_mic w' = w_mic (a t) ->
  (forall gg, gg <= cur g -> gg <= cur g' /\ gsize g' gg = gsize g gg) ->
  (forall l, rspin g' l <> 0 -> exists t0, In l (w_held (rsetv a t w' t0))) /\
  (forall t0 l, In l (w_held (rsetv a t w' t0)) -> rspin g' l = cnt (w_held (rsetv a t w' t0)) l) /\
  (forall t1 t2 l, In l (w_held (rsetv a t w' t1)) -> In l (w_held (rsetv a t w' t2)) -> t1 = t2) /\
  (forall l, rown g' l = 0 \/ exists t0, rown g' l = S t0 /\ In l (w_held (rsetv a t w' t0)) /\ w_mic (rsetv a t w' t0) <> MTaken l /\ w_mic (rsetv a t w' t0) <> MRel l) /\
  (forall t0 l, In l (w_held (rsetv a t w' t0)) -> w_mic (rsetv a t w' t0) <> MTaken l -> w_mic (rsetv a t w' t0) <> MRel l -> rown g' l = S t0) /\
  (forall t0 l, w_mic (rsetv a t w' t0) = MTaken l \/ w_mic (rsetv a t w' t0) = MRel l -> cnt (w_held (rsetv a t w' t0)) l = 1) /\
  (forall t0 gg tb i, In (gg, tb, i) (w_held (rsetv a t w' t0)) -> gg <= cur g' /\ tb < 2 /\ i < gsize g' gg).
Proof.
  intros Hc [C1 C2] Hh Hm Hmono.
  assert (HH : forall t0, w_held (rsetv a t w' t0) = w_held (a t0)).
  { intros t0. destruct (Nat.eq_dec t0 t) as [->|Hne]; [now rewrite rsetv_same|now rewrite rsetv_other]. }
  assert (HM : forall t0, w_mic (rsetv a t w' t0) = w_mic (a t0)).
  { intros t0. destruct (Nat.eq_dec t0 t) as [->|Hne]; [now rewrite rsetv_same|now rewrite rsetv_other]. }
  rewrite C1, C2. repeat split; intros; rewrite ?HH, ?HM in *.
  - destruct (r_spin0 Hc l H) as (t0 & Ht0). exists t0. now rewrite HH.
  - now apply (r_spin Hc).
  - eapply (r_excl Hc); eauto.
  - destruct (r_rown Hc l) as [E|(t0 & A)]; [now left|right; exists t0; now rewrite HH, HM].
  - apply (r_rown2 Hc); auto.
  - apply (r_mic Hc); auto.
  - destruct (r_range Hc _ _ _ _ H) as (A & _). apply Hmono; auto.
  - apply (r_range Hc _ _ _ _ H).
  - destruct (r_range Hc _ _ _ _ H) as (A & _ & B). rewrite (proj2 (Hmono gg A)). exact B.
Qed.

Ltac ct t0 t Hne := destruct (Nat.eq_dec t0 t) as [->|Hne]; [rewrite ?rsetv_same in *|rewrite ?rsetv_other in * by exact Hne].

Definition wset_gs (w : wview) gs acc := mkW (w_held w) (w_mic w) (w_own w) (w_anc w) (w_chk w) gs acc (w_mask w).
Definition wset_own (w : wview) o m := mkW (w_held w) (w_mic w) o (w_anc w) (w_chk w) (w_gs w) (w_acc w) m.
Definition wset_val (w : wview) anc chk := mkW (w_held w) (w_mic w) (w_own w) anc chk (w_gs w) (w_acc w) (w_mask w).

Lemma mono_refl g : forall gg, gg <= cur g -> gg <= cur g /\ gsize g gg = gsize g gg.
Proof. auto. Qed.

(** a step that changes only [m_access] and t's record of what it read *)
Lemma CoreR_gs g g' a t gs acc :
  CoreR g a -> same_locks g g' -> owner g' = owner g -> pcap g' = pcap g -> cur g' = cur g -> ngen g' = ngen g ->
  gsize g' = gsize g -> mask g' = mask g ->
  fst gs <= cur g -> gsize g (fst gs) = snd gs ->
  (acc = true -> access g' = true /\ fst gs = cur g /\ forall t0, t0 <> t -> w_acc (a t0) = false) ->
  (access g' = false -> acc = false /\ forall t0, t0 <> t -> w_acc (a t0) = false) ->
  (forall t0, t0 <> t -> w_acc (a t0) = true -> access g' = true) ->
  CoreR g' (rsetv a t (wset_gs (a t) gs acc)).
Proof.
  intros Hc Hl D1 D2 D4 D5 D6 D7 G1 G2 A1 A2 A3.
  destruct (LockR_keep g g' a t (wset_gs (a t) gs acc) Hc Hl eq_refl eq_refl) as (L1 & L2 & L3 & L4 & L5 & L6 & L7).
  { intros gg H. rewrite D4, D6. auto. }
  assert (Hown : forall t0, w_own (rsetv a t (wset_gs (a t) gs acc) t0) = w_own (a t0)) by (intros t0; ct t0 t Hne; reflexivity).
  assert (HH : forall t0, w_held (rsetv a t (wset_gs (a t) gs acc) t0) = w_held (a t0)) by (intros t0; ct t0 t Hne; reflexivity).
  constructor; auto; rewrite ?D1, ?D2, ?D4, ?D5, ?D6, ?D7.
  - intros t0. rewrite Hown. apply (r_own1 Hc).
  - intros E t0. rewrite Hown. now apply (r_own0 Hc).
  - destruct (r_own2 Hc) as [E|(R & HR)]; [now left|right; exists R; now rewrite Hown].
  - intros t0 g0 sz j. rewrite Hown, HH. apply (r_scan Hc).
  - intros t0 g0 sz n b. rewrite Hown, HH. apply (r_inst Hc).
  - intros t0 gen i E. assert (E' : w_anc (a t0) = Some (gen, i)) by (ct t0 t Hne; exact E).
    destruct (r_anc Hc t0 gen i E') as (B1 & B2 & B3). rewrite HH. split; auto. split; auto. intros R HR. rewrite Hown. auto.
  - intros t0 gen i E. assert (E' : w_chk (a t0) = Some (gen, i)) by (ct t0 t Hne; exact E).
    destruct (r_chk Hc t0 gen i E') as (B1 & B2). rewrite HH. split; auto. intros Eg R HR. rewrite Hown. auto.
  - apply (r_cap Hc).
  - intros t0. ct t0 t Hne; [cbn; auto|apply (r_gs Hc)].
  - destruct (r_acc Hc) as (B1 & B2 & B3). split; [|split].
    + intros t0 E. ct t0 t Hne; cbn in *; [destruct (A1 E) as (X & Y & _); auto|]. split; [eauto|]. apply (B1 t0 E).
    + intros t1 t2 E1 E2. destruct (Nat.eq_dec t1 t) as [->|N1]; destruct (Nat.eq_dec t2 t) as [->|N2]; auto;
        rewrite ?rsetv_same, ?rsetv_other in * by assumption; cbn in *.
      * destruct (A1 E1) as (_ & _ & X). rewrite (X t2 N2) in E2. discriminate.
      * destruct (A1 E2) as (_ & _ & X). rewrite (X t1 N1) in E1. discriminate.
      * eauto.
    + intros E t0. destruct (A2 E) as [X Y]. ct t0 t Hne; cbn; auto.
  - destruct (r_len Hc) as [E|(R & g0 & sz & E1 & E2)]; [now left|right; exists R, g0, sz; rewrite Hown; auto].
  - intros t0. rewrite Hown. intros E. ct t0 t Hne; cbn; now apply (r_mask Hc).
Qed.

(** the owner state of [t] changes (every other thread is in no owner state) *)
Lemma CoreR_own g g' a t o m :
  CoreR g a -> same_locks g g' -> pcap g' = pcap g -> access g' = access g -> cur g' = cur g -> ngen g' = ngen g ->
  gsize g' = gsize g -> mask g' = mask g ->
  (forall t0, t0 <> t -> w_own (a t0) = ONone) ->
  (o <> ONone -> owner g' = 2 * S t + 1) -> (o = ONone -> owner g' = 0) ->
  (forall g0 sz j, o = OLk g0 sz j -> j <= sz /\ sz = gsize g g0 /\ g0 = cur g /\ forall i, i < j -> In (g0, 0, i) (w_held (a t))) ->
  (forall g0 sz n b, o <> OIn g0 sz n b) ->
  (exclusive o -> forall t0, t0 <> t -> w_anc (a t0) = None /\ forall gen i, w_chk (a t0) = Some (gen, i) -> gen <> cur g) ->
  (forall g0 sz n b, w_own (a t) = OIn g0 sz n b -> b = true) ->
  (exclusive o -> mask g = m) ->
  CoreR g' (rsetv a t (wset_own (a t) o m)).
Proof.
  intros Hc Hl D2 D3 D4 D5 D6 D7 Hoth Ho1 Ho0 Hs Hi Hex Hlen Hm.
  destruct (LockR_keep g g' a t (wset_own (a t) o m) Hc Hl eq_refl eq_refl) as (L1 & L2 & L3 & L4 & L5 & L6 & L7).
  { intros gg H. rewrite D4, D6. auto. }
  assert (HH : forall t0, w_held (rsetv a t (wset_own (a t) o m) t0) = w_held (a t0)) by (intros t0; ct t0 t Hne; reflexivity).
  assert (Hown : forall t0, w_own (rsetv a t (wset_own (a t) o m) t0) = if Nat.eqb t0 t then o else ONone).
  { intros t0. destruct (Nat.eqb_spec t0 t) as [->|Hne]; [now rewrite rsetv_same|rewrite rsetv_other by exact Hne; auto]. }
  constructor; auto; rewrite ?D2, ?D3, ?D4, ?D5, ?D6, ?D7.
  - intros t0. rewrite Hown. destruct (Nat.eqb_spec t0 t) as [->|Hne]; [auto|congruence].
  - intros E t0. rewrite Hown. destruct (Nat.eqb_spec t0 t) as [->|Hne]; auto.
    destruct o; auto; exfalso; assert (X : owner g' = 2 * S t + 1) by (apply Ho1; discriminate); lia.
  - destruct o eqn:Eo; [left; auto|right; exists t; rewrite Hown, Nat.eqb_refl; discriminate..].
  - intros t0 g0 sz j. rewrite Hown, HH. destruct (Nat.eqb_spec t0 t) as [->|Hne]; [apply Hs|discriminate].
  - intros t0 g0 sz n b. rewrite Hown. destruct (Nat.eqb_spec t0 t) as [->|Hne]; [intros E; exfalso; eapply Hi; eauto|discriminate].
  - intros t0 gen i E. assert (E' : w_anc (a t0) = Some (gen, i)) by (ct t0 t Hne; exact E).
    destruct (r_anc Hc t0 gen i E') as (B1 & B2 & B3). rewrite HH. split; auto. split; auto. intros R HR. rewrite Hown.
    destruct (Nat.eqb_spec R t) as [->|HneR]; [|cbn; tauto]. intros Hx. destruct (Hex Hx t0 ltac:(auto)) as [X _]. congruence.
  - intros t0 gen i E. assert (E' : w_chk (a t0) = Some (gen, i)) by (ct t0 t Hne; exact E).
    destruct (r_chk Hc t0 gen i E') as (B1 & B2). rewrite HH. split; auto. intros Eg R HR. rewrite Hown.
    destruct (Nat.eqb_spec R t) as [->|HneR]; [|cbn; tauto]. intros Hx. destruct (Hex Hx t0 ltac:(auto)) as [_ X]. eapply X; eauto.
  - apply (r_cap Hc).
  - intros t0. ct t0 t Hne; apply (r_gs Hc).
  - destruct (r_acc Hc) as (B1 & B2 & B3). split; [|split].
    + intros t0 E. ct t0 t Hne; apply (B1 _ E).
    + intros t1 t2 E1 E2. apply B2; [ct t1 t Hne; exact E1|ct t2 t Hne; exact E2].
    + intros E t0. ct t0 t Hne; cbn; now apply B3.
  - left. destruct (r_len Hc) as [E|(R & g0 & sz & E1 & E2)]; auto.
    destruct (Nat.eq_dec R t) as [->|Hne]; [specialize (Hlen _ _ _ _ E1); discriminate|]. rewrite (Hoth R Hne) in E1. discriminate.
  - intros t0. rewrite Hown. destruct (Nat.eqb_spec t0 t) as [->|Hne]; [rewrite rsetv_same; cbn; auto|cbn; tauto].
Qed.

(** the validation state of [t] changes *)
Lemma CoreR_val g a t anc chk :
  CoreR g a ->
  (forall gen i, anc = Some (gen, i) -> In (gen, 0, i) (w_held (a t)) /\ gen = cur g /\ forall R, R <> t -> ~ exclusive (w_own (a R))) ->
  (forall gen i, chk = Some (gen, i) -> In (gen, 0, i) (w_held (a t)) /\ (gen = cur g -> forall R, R <> t -> ~ exclusive (w_own (a R)))) ->
  CoreR g (rsetv a t (wset_val (a t) anc chk)).
Proof.
  intros Hc Ha Hk.
  destruct (LockR_keep g g a t (wset_val (a t) anc chk) Hc (conj eq_refl eq_refl) eq_refl eq_refl (mono_refl g)) as (L1 & L2 & L3 & L4 & L5 & L6 & L7).
  assert (HH : forall t0, w_held (rsetv a t (wset_val (a t) anc chk) t0) = w_held (a t0)) by (intros t0; ct t0 t Hne; reflexivity).
  assert (Hown : forall t0, w_own (rsetv a t (wset_val (a t) anc chk) t0) = w_own (a t0)) by (intros t0; ct t0 t Hne; reflexivity).
  constructor; auto.
  - intros t0. rewrite Hown. apply (r_own1 Hc).
  - intros E t0. rewrite Hown. now apply (r_own0 Hc).
  - destruct (r_own2 Hc) as [E|(R & HR)]; [now left|right; exists R; now rewrite Hown].
  - intros t0 g0 sz j. rewrite Hown, HH. apply (r_scan Hc).
  - intros t0 g0 sz n b. rewrite Hown, HH. apply (r_inst Hc).
  - intros t0 gen i E. rewrite HH. ct t0 t Hne; cbn in E.
    + destruct (Ha gen i E) as (B1 & B2 & B3). split; auto. split; auto. intros R HR. rewrite Hown. auto.
    + destruct (r_anc Hc t0 gen i E) as (B1 & B2 & B3). split; auto. split; auto. intros R HR. rewrite Hown. auto.
  - intros t0 gen i E. rewrite HH. ct t0 t Hne; cbn in E.
    + destruct (Hk gen i E) as (B1 & B2). split; auto. intros Eg R HR. rewrite Hown. auto.
    + destruct (r_chk Hc t0 gen i E) as (B1 & B2). split; auto. intros Eg R HR. rewrite Hown. auto.
  - apply (r_cap Hc).
  - intros t0. ct t0 t Hne; apply (r_gs Hc).
  - destruct (r_acc Hc) as (B1 & B2 & B3). split; [|split].
    + intros t0 E. ct t0 t Hne; apply (B1 _ E).
    + intros t1 t2 E1 E2. apply B2; [ct t1 t Hne; exact E1|ct t2 t Hne; exact E2].
    + intros E t0. ct t0 t Hne; cbn; now apply B3.
  - destruct (r_len Hc) as [E|(R & g0 & sz & E1 & E2)]; [now left|right; exists R, g0, sz; rewrite Hown; auto].
  - intros t0. rewrite Hown. intros E. ct t0 t Hne; cbn; now apply (r_mask Hc).
Qed.

(** the exclusive owner installs new lock arrays (under [m_access]) *)
Lemma CoreR_install g a t g0 sz n :
  CoreR g a -> w_own (a t) = OLk g0 sz sz -> w_acc (a t) = true -> w_anc (a t) = None -> w_chk (a t) = None ->
  n = 2 * S (w_mask (a t)) ->
  CoreR (set_install g n)
        (rsetv a t (mkW (w_held (a t)) (w_mic (a t)) (OIn g0 sz n false) None None (ngen g, n) true (w_mask (a t)))).
Proof.
  intros Hc Eo Ea En Ek Hn.
  set (w' := mkW (w_held (a t)) (w_mic (a t)) (OIn g0 sz n false) None None (ngen g, n) true (w_mask (a t))).
  set (g' := set_install g n).
  destruct (r_cap Hc) as (Cp & Cn & Cmono & Cpos).
  destruct (r_scan Hc t g0 sz sz Eo) as (S1 & S2 & S3 & S4).
  assert (Hex : exclusive (w_own (a t))) by (rewrite Eo; reflexivity).
  assert (Hoth : forall t0, t0 <> t -> w_own (a t0) = ONone).
  { intros t0 Hne. destruct (w_own (a t0)) eqn:E; auto; exfalso; apply Hne; eapply (own_unique g a); eauto; rewrite ?E, ?Eo; discriminate. }
  assert (Hmk : mask g = w_mask (a t)) by (apply (r_mask Hc); exact Hex).
  assert (Hlen : pcap g = S (mask g)).
  { destruct (r_len Hc) as [E|(R & g1 & sz1 & E1 & E2)]; auto. destruct (Nat.eq_dec R t) as [->|Hne]; [congruence|].
    rewrite (Hoth R Hne) in E1. discriminate. }
  assert (Hgs : forall gg, gg <= cur g -> gsize g' gg = gsize g gg).
  { intros gg H. unfold g'. cbn [gsize set_install]. unfold upd1. destruct (Nat.eqb_spec gg (ngen g)); [lia|reflexivity]. }
  destruct (LockR_keep g g' a t w' Hc (conj eq_refl eq_refl) eq_refl eq_refl) as (L1 & L2 & L3 & L4 & L5 & L6 & L7).
  { intros gg H. split; [unfold g'; cbn [cur set_install]; lia|auto]. }
  assert (HH : forall t0, w_held (rsetv a t w' t0) = w_held (a t0)) by (intros t0; ct t0 t Hne; reflexivity).
  assert (Hown : forall t0, w_own (rsetv a t w' t0) = if Nat.eqb t0 t then OIn g0 sz n false else ONone).
  { intros t0. destruct (Nat.eqb_spec t0 t) as [->|Hne]; [now rewrite rsetv_same|rewrite rsetv_other by exact Hne; auto]. }
  constructor; auto.
  - intros t0. rewrite Hown. destruct (Nat.eqb_spec t0 t) as [->|Hne]; [|congruence]. intros _. apply (r_own1 Hc). rewrite Eo. discriminate.
  - intros E t0. exfalso. assert (X : owner g = 2 * S t + 1) by (apply (r_own1 Hc); rewrite Eo; discriminate). cbn in E. lia.
  - right. exists t. rewrite Hown, Nat.eqb_refl. discriminate.
  - intros t0 g1 sz1 j. rewrite Hown. destruct (Nat.eqb t0 t); discriminate.
  - intros t0 g1 sz1 n1 b1. rewrite Hown, HH. destruct (Nat.eqb_spec t0 t) as [->|Hne]; [|discriminate].
    intros E. inversion E; subst g1 sz1 n1 b1. split; [rewrite Hgs by lia; exact S2|]. split; [unfold g'; cbn [cur set_install]; lia|]. split; [reflexivity|exact S4].
  - intros t0 gen i E. ct t0 t Hne; cbn in E; [discriminate|].
    exfalso. destruct (r_anc Hc t0 gen i E) as (_ & _ & B). apply (B t); auto.
  - intros t0 gen i E. ct t0 t Hne; cbn in E; [discriminate|]. destruct (r_chk Hc t0 gen i E) as (B1 & B2).
    split; auto. intros Eg. exfalso. destruct (r_range Hc _ _ _ _ B1) as (X & _). unfold g' in Eg. cbn [cur set_install] in Eg. lia.
  - unfold g'. cbn [pcap cur ngen gsize set_install]. unfold upd1. rewrite Nat.eqb_refl. split; [reflexivity|]. split; [reflexivity|]. split.
    + intros g1 g2 H1 H2. destruct (Nat.eqb_spec g1 (ngen g)); [lia|]. destruct (Nat.eqb_spec g2 (ngen g)) as [E2|E2].
      * assert (gsize g g1 <= pcap g).
        { rewrite Cp. destruct (Nat.eq_dec g1 (cur g)) as [->|Hne]; [lia|]. specialize (Cmono g1 (cur g) ltac:(lia) ltac:(lia)). lia. }
        lia.
      * apply Cmono; lia.
    + intros gg H. destruct (Nat.eqb_spec gg (ngen g)); [lia|apply Cpos; lia].
  - intros t0. ct t0 t Hne.
    + cbn [w_gs fst snd]. unfold g'. cbn [cur gsize set_install]. unfold upd1. rewrite Nat.eqb_refl. auto.
    + destruct (r_gs Hc t0) as [B1 B2]. split; [unfold g'; cbn [cur set_install]; lia|]. rewrite Hgs by exact B1. exact B2.
  - destruct (r_acc Hc) as (B1 & B2 & B3). split; [|split].
    + intros t0 E. ct t0 t Hne; [cbn; split; [apply (B1 t Ea)|reflexivity]|]. exfalso. apply Hne. now apply B2.
    + intros t1 t2 E1 E2. assert (X : forall t0, w_acc (rsetv a t w' t0) = true -> w_acc (a t0) = true) by (intros t0; ct t0 t Hne; auto).
      apply B2; auto.
    + intros E t0. exfalso. cbn in E. destruct (B1 t Ea) as [X _]. congruence.
  - right. exists t, g0, sz. rewrite Hown, Nat.eqb_refl. split; [reflexivity|]. unfold g'. cbn [pcap mask set_install]. lia.
  - intros t0. rewrite Hown. destruct (Nat.eqb_spec t0 t) as [->|Hne]; [|cbn; tauto]. intros _. rewrite rsetv_same. exact Hmk.
Qed.

(** the owner stores the new bucket mask (and the new tables) *)
Lemma CoreR_alloc g a t g0 sz n tb' :
  CoreR g a -> w_own (a t) = OIn g0 sz n false ->
  CoreR (set_tabs (set_mask g (n - 1)) tb') (rsetv a t (wset_own (a t) (OIn g0 sz n true) (n - 1))).
Proof.
  intros Hc Eo.
  set (w' := wset_own (a t) (OIn g0 sz n true) (n - 1)). set (g' := set_tabs (set_mask g (n - 1)) tb').
  destruct (r_inst Hc t g0 sz n false Eo) as (I1 & I2 & I3 & I4).
  destruct (r_cap Hc) as (Cp & Cn & Cmono & Cpos).
  assert (Hpos : 0 < n) by (rewrite I3, Cp; apply Cpos; lia).
  destruct (LockR_keep g g' a t w' Hc (conj eq_refl eq_refl) eq_refl eq_refl (mono_refl g)) as (L1 & L2 & L3 & L4 & L5 & L6 & L7).
  assert (HH : forall t0, w_held (rsetv a t w' t0) = w_held (a t0)) by (intros t0; ct t0 t Hne; reflexivity).
  assert (Hoth : forall t0, t0 <> t -> w_own (a t0) = ONone).
  { intros t0 Hne. destruct (w_own (a t0)) eqn:E; auto; exfalso; apply Hne; eapply (own_unique g a); eauto; rewrite ?E, ?Eo; discriminate. }
  assert (Hown : forall t0, w_own (rsetv a t w' t0) = if Nat.eqb t0 t then OIn g0 sz n true else ONone).
  { intros t0. destruct (Nat.eqb_spec t0 t) as [->|Hne]; [now rewrite rsetv_same|rewrite rsetv_other by exact Hne; auto]. }
  assert (Hex : forall t0, exclusive (w_own (rsetv a t w' t0)) -> exclusive (w_own (a t0))).
  { intros t0. rewrite Hown. destruct (Nat.eqb_spec t0 t) as [->|Hne]; [rewrite Eo; auto|cbn; tauto]. }
  constructor; [exact L1|exact L2|exact L3|exact L4|exact L5|exact L6|exact L7|..].
  - intros t0. rewrite Hown. destruct (Nat.eqb_spec t0 t) as [->|Hne]; [|congruence]. intros _. apply (r_own1 Hc). rewrite Eo. discriminate.
  - intros E t0. exfalso. assert (X : owner g = 2 * S t + 1) by (apply (r_own1 Hc); rewrite Eo; discriminate). cbn in E. lia.
  - right. exists t. rewrite Hown, Nat.eqb_refl. discriminate.
  - intros t0 g1 sz1 j. rewrite Hown. destruct (Nat.eqb t0 t); discriminate.
  - intros t0 g1 sz1 n1 b1. rewrite Hown, HH. destruct (Nat.eqb_spec t0 t) as [->|Hne]; [|discriminate].
    intros E. inversion E; subst g1 sz1 n1 b1. repeat split; auto.
  - intros t0 gen i E. assert (E' : w_anc (a t0) = Some (gen, i)) by (ct t0 t Hne; exact E).
    destruct (r_anc Hc t0 gen i E') as (B1 & B2 & B3). rewrite HH. split; auto. split; auto. intros R HR Hx. apply (B3 R HR). now apply Hex.
  - intros t0 gen i E. assert (E' : w_chk (a t0) = Some (gen, i)) by (ct t0 t Hne; exact E).
    destruct (r_chk Hc t0 gen i E') as (B1 & B2). rewrite HH. split; auto. intros Eg R HR Hx. apply (B2 Eg R HR). now apply Hex.
  - apply (r_cap Hc).
  - intros t0. ct t0 t Hne; apply (r_gs Hc).
  - destruct (r_acc Hc) as (B1 & B2 & B3). split; [|split].
    + intros t0 E. ct t0 t Hne; apply (B1 _ E).
    + intros t1 t2 E1 E2. apply B2; [ct t1 t Hne; exact E1|ct t2 t Hne; exact E2].
    + intros E t0. ct t0 t Hne; cbn; now apply B3.
  - left. unfold g'. cbn [pcap mask set_tabs set_mask]. lia.
  - intros t0. rewrite Hown. destruct (Nat.eqb_spec t0 t) as [->|Hne]; [intros _; rewrite rsetv_same; reflexivity|cbn; tauto].
Qed.

(** the invariant depends on the assignment pointwise *)
Lemma CoreR_ext g (a a' : RAux) : (forall t, a' t = a t) -> CoreR g a -> CoreR g a'.
Proof.
  intros E [K1 K2 K3 K4 K5 K6 K7 P1 P2 P2' P3 P3' P4 P5 P6 P7 P8 P9 P10].
  constructor.
  - intros l H. destruct (K1 l H) as (t & Ht). exists t. now rewrite E.
  - intros t l. rewrite E. apply K2.
  - intros t t' l. rewrite !E. apply K3.
  - intros l. destruct (K4 l) as [H|(t & H)]; [now left|right; exists t; now rewrite E].
  - intros t l. rewrite E. apply K5.
  - intros t l. rewrite E. apply K6.
  - intros t gg tb i. rewrite E. apply K7.
  - intros t. rewrite E. apply P1.
  - intros H t. rewrite E. now apply P2.
  - destruct P2' as [H|(R & H)]; [now left|right; exists R; now rewrite E].
  - intros t g0 sz j. rewrite E. apply P3.
  - intros t g0 sz n b. rewrite E. apply P3'.
  - intros t gen i. rewrite E. intros H. destruct (P4 t gen i H) as (A1 & A2 & A3). split; auto. split; auto. intros R HR. rewrite E. auto.
  - intros t gen i. rewrite E. intros H. destruct (P5 t gen i H) as (A1 & A2). split; auto. intros Eg R HR. rewrite E. auto.
  - exact P6.
  - intros t. rewrite E. apply P7.
  - destruct P8 as (A1 & A2 & A3). split; [|split].
    + intros t. rewrite E. apply A1.
    + intros t t'. rewrite !E. apply A2.
    + intros H t. rewrite E. now apply A3.
  - destruct P9 as [H|(R & g0 & sz & H1 & H2)]; [now left|right; exists R, g0, sz; rewrite E; auto].
  - intros t. rewrite E. apply P10.
Qed.
